(** Convergence on clean histories: one fair round after everybody has joined makes all version vectors - hence all
    memberships - equal, provided the seed lists connect the nodes. *)
From Coq Require Import List NArith ZArith Lia Bool.
From Coq Require Import ZifyN ZifyNat ZifyBool.
From stdpp Require Import gmap.
From Vivid Require Import Codec.Prim Cluster.VV Cluster.VVProofs Cluster.View Cluster.ViewProofs
  Cluster.Gossip Cluster.GossipProofs Cluster.GossipClean Cluster.GossipCleanOps Cluster.GossipCleanInv
  Cluster.GossipCleanStep Cluster.GossipCleanWorld Cluster.GossipCleanHandlers Cluster.GossipCleanJoin
  Cluster.GossipCleanRun Cluster.GossipCleanRound.
Local Open Scope N_scope.

Definition is_tick (a : addr) (s : step) : bool := match s with SGossipTick b => bool_decide (b = a) | _ => false end.

(** * a whole round *)
Lemma round_run r : forall G S w w' l,
  cinv G w -> rinv S w -> all_joined w -> nodes_cap w ->
  forallb (fun x => fault_free (snd x)) r = true -> run w r = Some (w', l) ->
  exists S', cinv G w' /\ rinv S' w' /\ all_joined w' /\ wext w w' /\
             (forall a n', w_nodes w' !! a = Some n' -> exists n, w_nodes w !! a = Some n /\ nd_cfg n' = nd_cfg n) /\
             (forall b, b ∈ S -> b ∈ S') /\ (forall a, has_step r (is_tick a) = true -> a ∈ S').
Proof.
  induction r as [|[now s] rest IH]; intros G S w w' l Hc Hr Hj Hcap Hff H; cbn [run forallb] in H, Hff.
  - injection H as <- _. exists S. split; [exact Hc|]. split; [exact Hr|]. split; [exact Hj|]. split; [apply wext_refl|].
    split; [intros a n' Ha; exists n'; auto|]. split; [auto|]. intros a Ha. cbn in Ha. discriminate.
  - apply andb_true_iff in Hff as [Hff1 Hff]. cbn [snd] in Hff1.
    destruct (step_world w now s) as [[w1 l1]|] eqn:E; [|discriminate].
    destruct (run w1 rest) as [[w2 l2]|] eqn:E2; [|discriminate]. injection H as <- _.
    pose proof (enabled_ff_step G w now s w1 l1 Hc Hj Hff1 E) as Htd.
    destruct (round_step G S w now s w1 l1 Hc Hr Hj Hcap Htd E) as (C1 & R1 & J1 & X1 & K1).
    assert (Hcap1 : nodes_cap w1).
    { apply (keys_le_cap w1 w); [|exact Hcap]. intros a [n' Ha]. destruct (K1 a n' Ha) as (n & Hn & _). eexists; exact Hn. }
    destruct (IH G (tick_of s ++ S) w1 w2 l2 C1 R1 J1 Hcap1 Hff E2) as (S' & C2 & R2 & J2 & X2 & K2 & Sub & Tk).
    exists S'. split; [exact C2|]. split; [exact R2|]. split; [exact J2|]. split; [eapply wext_trans; eassumption|].
    split; [intros a n'' Ha; destruct (K2 a n'' Ha) as (n' & Hn' & E'); destruct (K1 a n' Hn') as (n & Hn & E''); exists n; split; [exact Hn|congruence]|]. split; [intros b Hb; apply Sub, elem_of_app; right; exact Hb|].
    intros a Ha. unfold has_step in Ha. cbn [existsb snd] in Ha. apply orb_true_iff in Ha as [Ha|Ha]; [|apply Tk; exact Ha].
    apply Sub, elem_of_app. left. destruct s; cbn in Ha; try discriminate. apply bool_decide_eq_true in Ha. subst. cbn. apply elem_of_list_singleton. reflexivity.
Qed.

(** * Theorem B: after a fair round every gossip target of every node dominates it *)
Definition closed (w : world) : Prop :=
  forall a n t m, w_nodes w !! a = Some n -> t ∈ select_targets n -> w_nodes w !! t = Some m ->
    vle (vw_vv (nd_view n)) (vw_vv (nd_view m)).

Theorem fair_round_closure G w t r w' l :
  cinv G w -> all_joined w -> nodes_cap w -> fair_round w t r = Some (w', l) ->
  cinv G w' /\ all_joined w' /\ nodes_cap w' /\ w_net w' = [] /\ wext w w' /\
  (forall a n', w_nodes w' !! a = Some n' -> exists n, w_nodes w !! a = Some n /\ nd_cfg n' = nd_cfg n) /\ closed w'.
Proof.
  intros Hc Hj Hcap H. unfold fair_round in H.
  destruct (forallb (fun x => fault_free (snd x)) r && clocks_from t r && ticks_everyone w r) eqn:Ef; [|discriminate].
  apply andb_true_iff in Ef as [Ef Ht]. apply andb_true_iff in Ef as [Ef _].
  destruct (run w r) as [[w1 l1]|] eqn:Er; [|discriminate].
  destruct (w_net w1) eqn:En; [|discriminate]. injection H as <- <-.
  destruct (round_run r G [] w w1 l1 Hc (rinv_nil w) Hj Hcap Ef Er) as (S' & C1 & R1 & J1 & X1 & K1 & _ & Tk).
  split; [exact C1|]. split; [exact J1|].
  split; [apply (keys_le_cap w1 w); [intros a [n' Ha]; destruct (K1 a n' Ha) as (n & Hn & _); eexists; exact Hn|exact Hcap]|]. split; [exact En|].
  split; [exact X1|]. split; [exact K1|].
  intros a n tg m Ha Htg Hm.
  destruct (K1 a n Ha) as (n0 & Hn0 & _).
  assert (HaS : a ∈ S').
  { apply Tk. unfold ticks_everyone in Ht. rewrite forallb_forall in Ht.
    assert (Hin : In n0 (map snd (map_to_list (w_nodes w)))).
    { apply in_map_iff. exists (a, n0). split; [reflexivity|]. apply elem_of_list_In, elem_of_map_to_list. exact Hn0. }
    specialize (Ht n0 Hin). rewrite (Hj a n0 Hn0) in Ht. cbn [negb orb] in Ht.
    apply andb_true_iff in Ht as [Ht _]. apply andb_true_iff in Ht as [Ht _].
    rewrite (ni_addr _ _ _ _ (ci_nodes _ _ Hc a n0 Hn0)) in Ht. exact Ht. }
  destruct (R1 a n HaS Ha (J1 a n Ha) tg Htg m Hm) as [L|(p & Hp & _)]; [exact L|].
  rewrite En in Hp. inversion Hp.
Qed.

(** * from closure to agreement *)
Definition agree (w : world) : Prop :=
  forall a b n m, w_nodes w !! a = Some n -> w_nodes w !! b = Some m -> veq (vw_vv (nd_view n)) (vw_vv (nd_view m)).

(** the entry a joined node holds for itself *)
Lemma self_entry G w a n : cinv G w -> w_nodes w !! a = Some n -> nd_gossip_on n = true ->
  exists s, vw_members (nd_view n) !! nd_id n = Some s /\ ns_addr s = a.
Proof.
  intros Hc Ha Hg. destruct (ci_nodes _ _ Hc a n Ha) as [N1 N2 N3 N4 N5 N6 N7 N8 N9 N10 N11 N12].
  destruct (N11 Hg) as [_ [s Hs]]. exists s. split; [exact Hs|].
  destruct (vi_truth _ _ _ N9 _ _ Hs) as (_ & m & Hm & Hid). eapply (ci_uniq _ _ Hc); [exact Hm|exact Ha|exact Hid].
Qed.

Lemma vle_lists G w a b n m :
  cinv G w -> w_nodes w !! a = Some n -> w_nodes w !! b = Some m -> nd_gossip_on n = true ->
  vle (vw_vv (nd_view n)) (vw_vv (nd_view m)) ->
  exists s, vw_members (nd_view m) !! nd_id n = Some s /\ ns_addr s = a.
Proof.
  intros Hc Ha Hb Hg Hle.
  pose proof (ni_view _ _ _ _ (ci_nodes _ _ Hc a n Ha)) as Vn. pose proof (ni_view _ _ _ _ (ci_nodes _ _ Hc b m Hb)) as Vm.
  destruct (self_entry G w a n Hc Ha Hg) as (s & Hs & _).
  pose proof (just_cover_ple G _ _ (vi_just _ _ _ Vn) (vi_cover _ _ _ Vm) Hle) as Hp.
  destruct (Hp (nd_id n) (inc_of s)) as (y & Hy & _); [rewrite proj_lookup, Hs; reflexivity|].
  rewrite proj_lookup in Hy. destruct (vw_members (nd_view m) !! nd_id n) as [s'|] eqn:Es'; [|discriminate].
  exists s'. split; [reflexivity|]. destruct (vi_truth _ _ _ Vm _ _ Es') as (_ & x & Hx & Hid).
  eapply (ci_uniq _ _ Hc); [exact Hx|exact Ha|exact Hid].
Qed.

Lemma closed_sym G w a t n m :
  cinv G w -> all_joined w -> closed w -> w_nodes w !! a = Some n -> w_nodes w !! t = Some m ->
  t ∈ select_targets n -> veq (vw_vv (nd_view n)) (vw_vv (nd_view m)).
Proof.
  intros Hc Hj Hcl Ha Ht Htg. pose proof (Hcl a n t m Ha Htg Ht) as L1.
  apply vle_antisym; [exact L1|].
  destruct (vle_lists G w a t n m Hc Ha Ht (Hj a n Ha) L1) as (s & Hs & Hsa).
  apply (Hcl t m a n Ht); [|exact Ha]. apply select_targets_spec.
  pose proof (ci_nodes _ _ Hc a n Ha) as Na. pose proof (ci_nodes _ _ Hc t m Ht) as Nt.
  split; [apply (ni_ne _ _ _ _ Na)|]. split.
  - rewrite (ni_addr _ _ _ _ Nt). intros E. apply (select_targets_not_self _ _ Htg). rewrite (ni_addr _ _ _ _ Na). symmetry. exact E.
  - right. exists (nd_id n), s. auto.
Qed.

Lemma seed_edge_veq G w a b :
  cinv G w -> all_joined w -> closed w -> seed_edge w a b ->
  forall n m, w_nodes w !! a = Some n -> w_nodes w !! b = Some m -> veq (vw_vv (nd_view n)) (vw_vv (nd_view m)).
Proof.
  intros Hc Hj Hcl (n0 & Hn0 & [m0 Hm0] & Hseed & Hne) n m Ha Hb. rewrite Ha in Hn0. injection Hn0 as <-.
  eapply closed_sym; try eassumption. apply select_targets_spec.
  split; [apply (ni_ne _ _ _ _ (ci_nodes _ _ Hc b m Hb))|]. split; [rewrite (ni_addr _ _ _ _ (ci_nodes _ _ Hc a n Ha)); exact Hne|left; exact Hseed].
Qed.

Theorem closed_agree G w : cinv G w -> all_joined w -> closed w -> seed_connected w -> agree w.
Proof.
  intros Hc Hj Hcl Hconn a b n m Ha Hb.
  assert (Hp : seed_path w a b) by (apply Hconn; eexists; eassumption).
  revert n m Ha Hb. induction Hp as [a|a b c He Hp IH|a b c He Hp IH]; intros n m Ha Hb.
  - rewrite Ha in Hb. injection Hb as <-. intros k; reflexivity.
  - destruct He as (n0 & Hn0 & [mb Hmb] & Hrest). eapply veq_trans; [|apply (IH mb m Hmb Hb)].
    eapply (seed_edge_veq G w a b); try eassumption. exists n0. split; [exact Hn0|]. split; [eexists; exact Hmb|exact Hrest].
  - destruct He as (nb & Hnb & [ma Hma] & Hrest). eapply veq_trans; [|apply (IH nb m Hnb Hb)].
    apply veq_sym. eapply (seed_edge_veq G w b a); try eassumption. exists nb. split; [exact Hnb|]. split; [eexists; exact Hma|exact Hrest].
Qed.

(** * from agreement to the property *)
Lemma elem_member_ids v id ad :
  (id, ad) ∈ member_ids v <-> exists s, vw_members v !! id = Some s /\ ns_addr s = ad.
Proof.
  unfold member_ids. rewrite elem_of_list_In, in_map_iff. split.
  - intros ([k s] & [= <- <-] & Hin). apply elem_of_list_In, elem_of_map_to_list in Hin. exists s. auto.
  - intros (s & Hs & <-). exists (id, s). split; [reflexivity|]. apply elem_of_list_In, elem_of_map_to_list. exact Hs.
Qed.
Lemma elem_running_ids w id ad :
  (id, ad) ∈ running_ids w <-> exists n, w_nodes w !! ad = Some n /\ nd_id n = id.
Proof.
  unfold running_ids. rewrite elem_of_list_In, in_map_iff. split.
  - intros ([k n] & [= <- <-] & Hin). apply elem_of_list_In, elem_of_map_to_list in Hin. exists n. auto.
  - intros (n & Hn & <-). exists (ad, n). split; [reflexivity|]. apply elem_of_list_In, elem_of_map_to_list. exact Hn.
Qed.

Lemma agree_members G w a n :
  cinv G w -> all_joined w -> agree w -> w_nodes w !! a = Some n ->
  same_set (member_ids (nd_view n)) (running_ids w).
Proof.
  intros Hc Hj Hag Ha [id ad]. rewrite elem_member_ids, elem_running_ids. split.
  - intros (s & Hs & <-). destruct (vi_truth _ _ _ (ni_view _ _ _ _ (ci_nodes _ _ Hc a n Ha)) _ _ Hs) as (_ & m & Hm & Hid). exists m. auto.
  - intros (m & Hm & <-). apply (vle_lists G w ad a m n Hc Hm Ha (Hj ad m Hm)). apply veq_vle. apply (Hag ad a m n Hm Ha).
Qed.

Lemma agree_up_addrs G w a n :
  cinv G w -> all_joined w -> agree w -> w_nodes w !! a = Some n ->
  forall ad, ad ∈ up_addrs (nd_view n) <-> is_Some (w_nodes w !! ad).
Proof.
  intros Hc Hj Hag Ha ad. rewrite elem_up_addrs. split.
  - intros (k & s & Hk & _ & _ & <-). destruct (vi_truth _ _ _ (ni_view _ _ _ _ (ci_nodes _ _ Hc a n Ha)) _ _ Hk) as (_ & m & Hm & _). eexists; exact Hm.
  - intros [m Hm]. destruct (vle_lists G w ad a m n Hc Hm Ha (Hj ad m Hm)) as (s & Hs & Hsa); [apply veq_vle, (Hag ad a m n Hm Ha)|].
    exists (nd_id m), s. split; [exact Hs|]. split; [apply (vi_truth _ _ _ (ni_view _ _ _ _ (ci_nodes _ _ Hc a n Ha)) _ _ Hs)|].
    split; [rewrite Hsa; apply (ni_ne _ _ _ _ (ci_nodes _ _ Hc ad m Hm))|exact Hsa].
Qed.

Theorem agree_converged G w : cinv G w -> all_joined w -> agree w -> converged w.
Proof.
  intros Hc Hj Hag a n Ha. split; [eapply agree_members; eassumption|].
  intros b m Hb. apply same_up_same_leader. intros ad.
  rewrite (agree_up_addrs G w a n Hc Hj Hag Ha), (agree_up_addrs G w b m Hc Hj Hag Hb). reflexivity.
Qed.

(** exactly one running node considers itself leader *)
Theorem agree_one_leader G w :
  cinv G w -> all_joined w -> agree w -> nodes_of w <> [] ->
  exists n, n ∈ nodes_of w /\ iam_leader n = true /\ forall m, m ∈ nodes_of w -> iam_leader m = true -> m = n.
Proof.
  intros Hc Hj Hag Hne.
  assert (Hel : forall n, n ∈ nodes_of w <-> exists a, w_nodes w !! a = Some n).
  { intros n. unfold nodes_of. rewrite elem_of_list_In, in_map_iff. split.
    - intros ([a n'] & <- & Hin). apply elem_of_list_In, elem_of_map_to_list in Hin. exists a. exact Hin.
    - intros [a Ha]. exists (a, n). split; [reflexivity|]. apply elem_of_list_In, elem_of_map_to_list. exact Ha. }
  assert (Hnd : NoDup (map nd_addr (nodes_of w))).
  { unfold nodes_of. rewrite map_map.
    assert (E : map (fun x : addr * node => nd_addr (snd x)) (map_to_list (w_nodes w)) = (map_to_list (w_nodes w)).*1).
    { apply map_ext_in. intros [a n] Hin. apply elem_of_list_In, elem_of_map_to_list in Hin. cbn.
      apply (ni_addr _ _ _ _ (ci_nodes _ _ Hc a n Hin)). }
    rewrite E. apply NoDup_fst_map_to_list. }
  destruct (one_leader (nodes_of w) Hne Hnd) as (ld & _ & n & Hn & Hl & Huq).
  - intros n Hn ad. apply Hel in Hn as [a Ha]. rewrite (agree_up_addrs G w a n Hc Hj Hag Ha). split.
    + intros [m Hm]. apply elem_of_list_In, in_map_iff. exists m. split; [apply (ni_addr _ _ _ _ (ci_nodes _ _ Hc ad m Hm))|].
      apply elem_of_list_In, Hel. exists ad. exact Hm.
    + intros Hin. apply elem_of_list_In, in_map_iff in Hin as (m & <- & Hm). apply elem_of_list_In, Hel in Hm as [b Hb].
      rewrite (ni_addr _ _ _ _ (ci_nodes _ _ Hc b m Hb)). eexists; exact Hb.
  - exists n. split; [exact Hn|]. split; [exact Hl|exact Huq].
Qed.

(** * Theorem D: a settled world stays as it is and announces nothing *)
Definition settled (G : glog) (w : world) : Prop :=
  cinv G w /\ all_joined w /\ nodes_cap w /\
  forall u v, view_in w u -> view_in w v -> veq (vw_vv u) (vw_vv v).

Lemma agree_settled G w : cinv G w -> all_joined w -> nodes_cap w -> w_net w = [] -> agree w -> settled G w.
Proof.
  intros Hc Hj Hcap Hn Hag. split; [exact Hc|]. split; [exact Hj|]. split; [exact Hcap|].
  intros u v [(a & n & Ha & <-)|(p & Hp & _)] [(b & m & Hb & <-)|(q & Hq & _)]; try (rewrite Hn in *; match goal with H : _ ∈ [] |- _ => inversion H end).
  eapply Hag; eassumption.
Qed.

Lemma settled_agree G w : settled G w -> agree w.
Proof. intros (_ & _ & _ & H) a b n m Ha Hb. apply H; left; [exists a, n|exists b, m]; split; auto. Qed.

Lemma publish_quiet n : leader_of (nd_view n) = nd_leader n -> sat_quorum (nd_view n) = nd_inq n ->
  forallb (fun e => negb (is_change e)) (snd (publish_leader n)) = true.
Proof.
  intros H1 H2. unfold publish_leader. cbn [snd]. rewrite H1, H2.
  rewrite bool_decide_eq_true_2 by reflexivity. rewrite eqb_reflx. cbn [negb orb]. rewrite app_nil_r.
  destruct (nd_inq n); cbn; reflexivity.
Qed.

Lemma quiet_tag a evs : quiet (tag a evs) = forallb (fun e => negb (is_change e)) evs.
Proof. unfold quiet, tag. induction evs as [|e r IH]; cbn; [reflexivity|rewrite IH; reflexivity]. Qed.

Lemma quiet_app l1 l2 : quiet (l1 ++ l2) = quiet l1 && quiet l2.
Proof. unfold quiet. apply forallb_app. Qed.

(** handleGossip of a view whose vector equals the receiver's: nothing is announced, membership and vector stay *)
Lemma handle_gossip_settled G w a n p now choice :
  cinv G w -> nodes_cap w -> w_nodes w !! a = Some n -> p ∈ w_net w ->
  veq (vw_vv (p_view p)) (vw_vv (nd_view n)) ->
  let r := handle_gossip n (p_src p) (p_view p) now choice in
  forallb (fun e => negb (is_change e)) (snd r) = true /\
  proj (nd_view (fst (fst r))) = proj (nd_view n) /\ veq (vw_vv (nd_view (fst (fst r)))) (vw_vv (nd_view n)).
Proof.
  intros Hc Hcap Ha Hp Hveq. cbn zeta.
  destruct (ci_nodes _ _ Hc a n Ha) as [N1 N2 N3 N4 N5 N6 N7 N8 N9 N10 N11 N12].
  destruct (ci_net _ _ Hc p Hp) as (Pv & _).
  set (pre := gossip_pre n (p_src p) (p_view p) now choice).
  assert (V0 : vinv0 G w pre) by (apply gossip_pre_vinv0, vinv_vinv0; exact N9).
  assert (P0 : vinv0 G w (p_view p)) by (apply vinv_vinv0; exact Pv).
  assert (Hple : ple (proj (p_view p)) (proj pre)).
  { unfold pre. rewrite gossip_pre_proj. apply (just_cover_ple G); [apply Pv|apply N9|apply veq_vle; exact Hveq]. }
  assert (Hmem : vw_members (fst (view_merge 0 0 now pre (p_view p))) = vw_members pre)
    by (apply merge_members_same; [apply V0|apply P0|exact Hple]).
  assert (Hvv : veq (vw_vv (fst (view_merge 0 0 now pre (p_view p)))) (vw_vv (nd_view n))).
  { intros k. rewrite (vinv0_merge_vget G w) by (try assumption; exact (ci_uniq _ _ Hc)). unfold pre. rewrite gossip_pre_vv. rewrite (Hveq k). lia. }
  pose proof (handle_gossip_view n (p_src p) (p_view p) now choice) as Hview. fold pre in Hview.
  split; [|split].
  - (* events *)
    assert (V' : vinv0 G w (fst (view_merge 0 0 now pre (p_view p)))) by (apply vinv0_merge; try assumption; exact (ci_uniq _ _ Hc)).
    assert (HL : leader_of (fst (view_merge 0 0 now pre (p_view p))) = nd_leader n).
    { destruct N12 as [P1 _]. rewrite P1. apply same_up_same_leader. intros ad.
      rewrite <- (gossip_pre_up_addrs n (p_src p) (p_view p) now choice) by (eapply truthful_all_up; apply N9).
      fold pre. rewrite !elem_up_addrs, Hmem. reflexivity. }
    assert (HQ : sat_quorum (fst (view_merge 0 0 now pre (p_view p))) = nd_inq n).
    { destruct N12 as [_ P2]. rewrite P2. rewrite (CC_sat_quorum _ (vi_cc _ _ _ N9)), (CC_sat_quorum _ (v0_cc _ _ _ V')).
      rewrite Hmem. unfold pre. rewrite gossip_pre_size. reflexivity. }
    clear Hview. unfold handle_gossip. unfold pre, gossip_pre in HL, HQ.
    set (n1 := if nonempty (p_src p) then _ else n) in *.
    assert (F1 : nd_leader n1 = nd_leader n /\ nd_inq n1 = nd_inq n /\ nd_view n1 = nd_view n) by (unfold n1; destruct (nonempty (p_src p)); auto).
    destruct F1 as (L1 & I1 & V1).
    set (n2 := match choice with Some _ => _ | None => _ end).
    assert (F2 : nd_leader n2 = nd_leader n /\ nd_inq n2 = nd_inq n /\
                 nd_view n2 = match choice with
                              | Some id => if nonempty (p_src p) then set_members (nd_view n) (alter (fun s => ns_refresh s now) id (vw_members (nd_view n))) else nd_view n
                              | None => nd_view n end).
    { unfold n2. destruct choice; [destruct (nonempty (p_src p))|]; cbn; rewrite ?V1; auto. }
    destruct F2 as (L2 & I2 & V2). rewrite <- V2 in HL, HQ.
    destruct (view_merge 0 0 now (nd_view n2) (p_view p)) as [v' ch]. cbn [fst] in HL, HQ. destruct ch; [|reflexivity].
    pose proof (publish_quiet (set_view n2 v')) as Hq. cbn [nd_view set_view nd_leader nd_inq] in Hq. rewrite L2, I2 in Hq.
    specialize (Hq HL HQ).
    destruct (publish_leader (set_view n2 v')) as [n4 evs]. destruct (broadcast n4) as [n5 out]. cbn [snd] in *. exact Hq.
  - rewrite Hview. unfold proj. rewrite Hmem. fold (proj pre). unfold pre. apply gossip_pre_proj.
  - rewrite Hview. exact Hvv.
Qed.

Lemma settled_step G w now s w' l :
  settled G w -> tick_or_deliver s = true -> step_world w now s = Some (w', l) ->
  settled G w' /\ quiet l = true /\ same_memberships w w'.
Proof.
  intros (Hc & Hj & Hcap & Hall) Htd H.
  destruct (round_step G [] w now s w' l Hc (rinv_nil w) Hj Hcap Htd H) as (C1 & _ & J1 & X1 & K1).
  assert (Hcap1 : nodes_cap w').
  { apply (keys_le_cap w' w); [|exact Hcap]. intros b [n' Hb]. destruct (K1 b n' Hb) as (n & Hn & _). eexists; exact Hn. }
  destruct s as [c asks|a asks|a|a asks|k choice|k|a|a|a id]; cbn in Htd; try discriminate; cbn [step_world] in H.
  - (* tick *)
    destruct (w_nodes w !! a) as [n|] eqn:Ea; [|discriminate]. destruct (nd_gossip_on n); [|discriminate].
    destruct (gossip_tick n) as [[n1 out] evs] eqn:Et. injection H as <- <-.
    pose proof (gossip_tick_events n) as Hev. rewrite Et in Hev. cbn [snd] in Hev. subst evs.
    pose proof (gossip_tick_view n) as Hv. rewrite Et in Hv. cbn [fst] in Hv.
    pose proof (gossip_tick_cfg n) as Hcf. rewrite Et in Hcf. cbn [fst] in Hcf.
    assert (Ea1 : nd_addr n1 = a) by (unfold nd_addr; rewrite Hcf; apply (ni_addr _ _ _ _ (ci_nodes _ _ Hc a n Ea))).
    assert (Hnodes : forall b m, w_nodes (add_net (put_node w n1) (stamp a out)) !! b = Some m ->
                       exists m0, w_nodes w !! b = Some m0 /\ nd_view m = nd_view m0).
    { intros b m Hb. cbn in Hb. rewrite Ea1 in Hb. destruct (decide (b = a)) as [->|Hne].
      - rewrite lookup_insert in Hb. injection Hb as <-. exists n. auto.
      - rewrite lookup_insert_ne in Hb by congruence. exists m. auto. }
    split; [|split; [reflexivity|]].
    + split; [exact C1|]. split; [exact J1|]. split; [exact Hcap1|].
      assert (Hin : forall u, view_in (add_net (put_node w n1) (stamp a out)) u -> view_in w u).
      { intros u [(b & m & Hb & <-)|(q & Hq & <-)].
        - destruct (Hnodes b m Hb) as (m0 & Hm0 & ->). left. eexists _, _; eauto.
        - cbn in Hq. apply elem_of_app in Hq as [Hq|Hq]; [right; eexists; eauto|].
          unfold stamp in Hq. apply elem_of_list_fmap in Hq as ([d v] & -> & Hdv). cbn.
          assert (v = nd_view n) by (eapply gossip_tick_payload; rewrite Et; exact Hdv). subst v. left. eexists _, _; eauto. }
      intros u v Hu Hv'. apply Hall; apply Hin; assumption.
    + intros b m Hb. destruct (decide (b = a)) as [->|Hne].
      * exists n1. cbn. rewrite Ea1, lookup_insert. rewrite Ea in Hb. injection Hb as <-. rewrite Hv. split; [reflexivity|]. split; [reflexivity|intros k; reflexivity].
      * exists m. cbn. rewrite Ea1, lookup_insert_ne by congruence. split; [exact Hb|]. split; [reflexivity|intros k; reflexivity].
  - (* delivery *)
    destruct (N.of_nat (length (w_net w)) <=? k); [discriminate|].
    destruct (w_net w !! N.to_nat k) as [p|] eqn:Ek; [|discriminate].
    assert (Hp : p ∈ w_net w) by (eapply elem_of_list_lookup_2; exact Ek).
    destruct (w_nodes w !! p_dst p) as [n|] eqn:Ed.
    + match type of H with (if ?b then _ else None) = _ => destruct b end; [|discriminate].
      destruct (handle_gossip n (p_src p) (p_view p) now choice) as [[n1 out] evs] eqn:Eg. injection H as <- <-.
      assert (Hveq : veq (vw_vv (p_view p)) (vw_vv (nd_view n))).
      { apply Hall; [right; eexists; eauto|left; eexists _, _; eauto]. }
      pose proof (handle_gossip_settled G w (p_dst p) n p now choice Hc Hcap Ed Hp Hveq) as HS. cbn zeta in HS. rewrite Eg in HS. cbn [fst snd] in HS.
      destruct HS as (Hq & Hpr & Hvv).
      pose proof (handle_gossip_cfg n (p_src p) (p_view p) now choice) as Hcf. rewrite Eg in Hcf. cbn [fst] in Hcf.
      assert (Ea1 : nd_addr n1 = p_dst p) by (unfold nd_addr; rewrite Hcf; apply (ni_addr _ _ _ _ (ci_nodes _ _ Hc _ n Ed))).
      split; [|split; [rewrite quiet_tag; exact Hq|]].
      * split; [exact C1|]. split; [exact J1|]. split; [exact Hcap1|].
        assert (Hin : forall u, view_in (add_net (put_node (World (w_nodes w) (remove_at k (w_net w))) n1) (stamp (p_dst p) out)) u ->
                        veq (vw_vv u) (vw_vv (nd_view n))).
        { intros u [(b & m & Hb & <-)|(q & Hq' & <-)].
          - cbn in Hb. rewrite Ea1 in Hb. destruct (decide (b = p_dst p)) as [->|Hne].
            + rewrite lookup_insert in Hb. injection Hb as <-. exact Hvv.
            + rewrite lookup_insert_ne in Hb by congruence. apply Hall; left; eexists _, _; eauto.
          - cbn in Hq'. apply elem_of_app in Hq' as [Hq'|Hq'].
            + apply Hall; [right; exists q; split; [eapply elem_of_remove_at'; exact Hq'|reflexivity]|left; eexists _, _; eauto].
            + unfold stamp in Hq'. apply elem_of_list_fmap in Hq' as ([d v] & -> & Hdv). cbn.
              assert (v = nd_view n1).
              { pose proof (handle_gossip_payload n (p_src p) (p_view p) now choice d v) as Hpl. rewrite Eg in Hpl. cbn [fst snd] in Hpl. apply Hpl. exact Hdv. }
              subst v. exact Hvv. }
        intros u v Hu Hv'. eapply veq_trans; [apply Hin; exact Hu|apply veq_sym, Hin; exact Hv'].
      * intros b m Hb. destruct (decide (b = p_dst p)) as [->|Hne].
        -- exists n1. cbn. rewrite Ea1, lookup_insert. rewrite Ed in Hb. injection Hb as <-. split; [reflexivity|]. split; [exact Hpr|exact Hvv].
        -- exists m. cbn. rewrite Ea1, lookup_insert_ne by congruence. split; [exact Hb|]. split; [reflexivity|intros x; reflexivity].
    + destruct choice; [discriminate|]. injection H as <- <-.
      split; [|split; [reflexivity|]].
      * split; [exact C1|]. split; [exact J1|]. split; [exact Hcap1|].
        intros u v Hu Hv'. apply Hall.
        -- destruct Hu as [(b & m & Hb & <-)|(q & Hq & <-)]; [left; eexists _, _; eauto|right; exists q; split; [eapply elem_of_remove_at'; exact Hq|reflexivity]].
        -- destruct Hv' as [(b & m & Hb & <-)|(q & Hq & <-)]; [left; eexists _, _; eauto|right; exists q; split; [eapply elem_of_remove_at'; exact Hq|reflexivity]].
      * intros b m Hb. exists m. split; [exact Hb|]. split; [reflexivity|intros x; reflexivity].
Qed.

Lemma same_memberships_refl w : same_memberships w w.
Proof. intros a n Ha. exists n. split; [exact Ha|]. split; [reflexivity|intros k; reflexivity]. Qed.
Lemma same_memberships_trans w1 w2 w3 : same_memberships w1 w2 -> same_memberships w2 w3 -> same_memberships w1 w3.
Proof.
  intros H1 H2 a n Ha. destruct (H1 a n Ha) as (n' & Ha' & P1 & V1). destruct (H2 a n' Ha') as (n'' & Ha'' & P2 & V2).
  exists n''. split; [exact Ha''|]. split; [congruence|eapply veq_trans; eassumption].
Qed.

Lemma settled_run r : forall G w w' l,
  settled G w -> forallb (fun x => fault_free (snd x)) r = true -> run w r = Some (w', l) ->
  settled G w' /\ quiet l = true /\ same_memberships w w'.
Proof.
  induction r as [|[now s] rest IH]; intros G w w' l Hs Hff H; cbn [run forallb] in H, Hff.
  - injection H as <- <-. split; [exact Hs|]. split; [reflexivity|apply same_memberships_refl].
  - apply andb_true_iff in Hff as [Hff1 Hff]. cbn [snd] in Hff1.
    destruct (step_world w now s) as [[w1 l1]|] eqn:E; [|discriminate].
    destruct (run w1 rest) as [[w2 l2]|] eqn:E2; [|discriminate]. injection H as <- <-.
    destruct Hs as (Hc & Hj & Hrest).
    pose proof (enabled_ff_step G w now s w1 l1 Hc Hj Hff1 E) as Htd.
    destruct (settled_step G w now s w1 l1 (conj Hc (conj Hj Hrest)) Htd E) as (S1 & Q1 & M1).
    destruct (IH G w1 w2 l2 S1 Hff E2) as (S2 & Q2 & M2).
    split; [exact S2|]. split; [rewrite quiet_app, Q1, Q2; reflexivity|eapply same_memberships_trans; eassumption].
Qed.

Lemma settled_rounds rounds : forall G w t d w' logs,
  settled G w -> fair_rounds w t d rounds = Some (w', logs) ->
  settled G w' /\ Forall (fun lg => quiet lg = true) logs /\ same_memberships w w'.
Proof.
  induction rounds as [|r rest IH]; intros G w t d w' logs Hs H; cbn [fair_rounds] in H.
  - injection H as <- <-. split; [exact Hs|]. split; [constructor|apply same_memberships_refl].
  - destruct (fair_round w t r) as [[w1 l1]|] eqn:Er; [|discriminate].
    destruct (fair_rounds w1 (t + d) d rest) as [[w2 ls]|] eqn:E2; [|discriminate]. injection H as <- <-.
    unfold fair_round in Er. destruct (forallb (fun x => fault_free (snd x)) r && clocks_from t r && ticks_everyone w r) eqn:Ef; [|discriminate].
    apply andb_true_iff in Ef as [Ef _]. apply andb_true_iff in Ef as [Ef _].
    destruct (run w r) as [[w1' l1']|] eqn:Erun; [|discriminate]. destruct (w_net w1'); [|discriminate]. injection Er as <- <-.
    destruct (settled_run r G w w1' l1' Hs Ef Erun) as (S1 & Q1 & M1).
    destruct (IH G w1' (t + d)%Z d w2 ls S1 E2) as (S2 & Q2 & M2).
    split; [exact S2|]. split; [constructor; assumption|eapply same_memberships_trans; eassumption].
Qed.

(** * The convergence theorem of the clean class *)
Theorem clean_convergence h w0 l0 t r w1 l1 :
  clean_history h = true -> run empty_world h = Some (w0, l0) ->
  N.of_nat (size (w_nodes w0)) <= max_entries -> steps_ok (length h) ->
  all_joined w0 -> fair_round w0 t r = Some (w1, l1) -> seed_connected w1 ->
  converged w1 /\
  (nodes_of w1 <> [] -> exists n, n ∈ nodes_of w1 /\ iam_leader n = true /\ forall m, m ∈ nodes_of w1 -> iam_leader m = true -> m = n) /\
  forall t' d rounds w2 logs, fair_rounds w1 t' d rounds = Some (w2, logs) ->
    converged w2 /\ Forall (fun lg => quiet lg = true) logs /\ same_memberships w1 w2.
Proof.
  intros Hcl Hrun Hcap Hst Hj Hr Hconn. unfold steps_ok in Hst.
  destruct (clean_run_cinv h [] empty_world w0 l0 cinv_empty Hcl Hrun Hcap) as (G & Hc & _); [cbn [length]; lia|].
  destruct (fair_round_closure G w0 t r w1 l1 Hc Hj Hcap Hr) as (C1 & J1 & Cap1 & N1 & _ & _ & Hclosed).
  pose proof (closed_agree G w1 C1 J1 Hclosed Hconn) as Hag.
  split; [eapply agree_converged; eassumption|]. split; [intros Hne; eapply agree_one_leader; eassumption|].
  intros t' d rounds w2 logs Hrounds.
  destruct (settled_rounds rounds G w1 t' d w2 logs (agree_settled G w1 C1 J1 Cap1 N1 Hag) Hrounds) as (S2 & Q2 & M2).
  split; [|split; assumption]. pose proof (settled_agree G w2 S2) as Hag2. destruct S2 as (C2 & J2 & _).
  eapply agree_converged; eassumption.
Qed.

(** * the gossip suppression of shouldSendGossipTo is sound on clean histories *)
Theorem clean_suppression_sound h w l a n t m :
  clean_history h = true -> run empty_world h = Some (w, l) ->
  N.of_nat (size (w_nodes w)) <= max_entries -> steps_ok (length h) ->
  w_nodes w !! a = Some n -> w_nodes w !! t = Some m ->
  should_send n (vw_vv (nd_view n)) t = false ->
  vle (vw_vv (nd_view n)) (vw_vv (nd_view m)) /\ ple (proj (nd_view n)) (proj (nd_view m)).
Proof.
  intros Hcl Hrun Hcap Hst Ha Ht Hss. unfold steps_ok in Hst.
  destruct (clean_run_cinv h [] empty_world w l cinv_empty Hcl Hrun Hcap) as (G & Hc & _); [cbn [length]; lia|].
  unfold should_send in Hss. destruct (nd_last n !! t) as [q|] eqn:Eq; [|discriminate].
  destruct (ni_last _ _ _ _ (ci_nodes _ _ Hc a n Ha) t q Eq) as (m' & Hm' & Hle). rewrite Ht in Hm'. injection Hm' as <-.
  assert (L : vle (vw_vv (nd_view n)) (vw_vv (nd_view m))).
  { eapply vle_trans; [|exact Hle]. apply vle_compare. destruct (vcompare (vw_vv (nd_view n)) q); try discriminate; auto. }
  split; [exact L|].
  eapply just_cover_ple; [apply (ni_view _ _ _ _ (ci_nodes _ _ Hc a n Ha))|apply (ni_view _ _ _ _ (ci_nodes _ _ Hc t m Ht))|exact L].
Qed.

(** * boolean checkers for the side conditions (used by the Examples of Properties/C18.v) *)
Definition all_joined_b (w : world) : bool := forallb nd_gossip_on (nodes_of w).
Lemma all_joined_b_sound w : all_joined_b w = true -> all_joined w.
Proof.
  unfold all_joined_b, nodes_of. rewrite forallb_forall. intros H a n Ha. apply H.
  apply in_map_iff. exists (a, n). split; [reflexivity|]. apply elem_of_list_In, elem_of_map_to_list. exact Ha.
Qed.

Definition seed_edge_b (w : world) (a b : addr) : bool :=
  match w_nodes w !! a, w_nodes w !! b with
  | Some n, Some _ => bool_decide (b ∈ c_seeds (nd_cfg n)) && negb (bool_decide (b = a))
  | _, _ => false
  end.
Lemma seed_edge_b_sound w a b : seed_edge_b w a b = true -> seed_edge w a b.
Proof.
  unfold seed_edge_b. destruct (w_nodes w !! a) as [n|] eqn:Ea; [|discriminate]. destruct (w_nodes w !! b) as [m|] eqn:Eb; [|discriminate].
  intros H. apply andb_true_iff in H as [H1 H2]. apply bool_decide_eq_true in H1. apply negb_true_iff, bool_decide_eq_false in H2.
  exists n. split; [exact Ea|]. split; [eexists; exact Eb|]. split; assumption.
Qed.

Lemma seed_path_trans w a b c : seed_path w a b -> seed_path w b c -> seed_path w a c.
Proof. intros H1 H2. induction H1; [exact H2|eapply sp_fwd; eauto|eapply sp_bwd; eauto]. Qed.
Lemma seed_path_sym w a b : seed_path w a b -> seed_path w b a.
Proof.
  intros H. induction H as [a|a b c He Hp IH|a b c He Hp IH]; [constructor| |].
  - eapply seed_path_trans; [exact IH|]. eapply sp_bwd; [exact He|constructor].
  - eapply seed_path_trans; [exact IH|]. eapply sp_fwd; [exact He|constructor].
Qed.

(** [a] reaches [c] over at most [k] undirected seed edges *)
Fixpoint seed_reach_b (w : world) (k : nat) (a c : addr) : bool :=
  bool_decide (a = c) ||
  match k with
  | O => false
  | S k' => existsb (fun b => (seed_edge_b w a b || seed_edge_b w b a) && seed_reach_b w k' b c) (running_addrs w)
  end.
Lemma seed_reach_b_sound w k : forall a c, seed_reach_b w k a c = true -> seed_path w a c.
Proof.
  induction k as [|k IH]; intros a c H; cbn [seed_reach_b] in H; apply orb_true_iff in H as [H|H];
    try (apply bool_decide_eq_true in H; subst; constructor); [discriminate|].
  apply existsb_exists in H as (b & _ & Hb). apply andb_true_iff in Hb as [He Hr]. apply orb_true_iff in He as [He|He].
  - eapply sp_fwd; [apply seed_edge_b_sound; exact He|apply IH; exact Hr].
  - eapply sp_bwd; [apply seed_edge_b_sound; exact He|apply IH; exact Hr].
Qed.

Definition seed_connected_b (w : world) : bool :=
  match running_addrs w with
  | [] => true
  | hub :: _ => forallb (fun a => seed_reach_b w (length (running_addrs w)) a hub) (running_addrs w)
  end.
Lemma running_addrs_elem w a : a ∈ running_addrs w <-> is_Some (w_nodes w !! a).
Proof.
  unfold running_addrs. rewrite isort_elem, elem_of_list_In, in_map_iff. split.
  - intros ([a' n] & <- & Hin). apply elem_of_list_In, elem_of_map_to_list in Hin. eexists; exact Hin.
  - intros [n Hn]. exists (a, n). split; [reflexivity|]. apply elem_of_list_In, elem_of_map_to_list. exact Hn.
Qed.
Lemma seed_connected_b_sound w : seed_connected_b w = true -> seed_connected w.
Proof.
  unfold seed_connected_b. intros H a b Ha Hb. apply running_addrs_elem in Ha, Hb.
  destruct (running_addrs w) as [|hub rest] eqn:E; [inversion Ha|].
  rewrite forallb_forall in H.
  eapply seed_path_trans; [eapply seed_reach_b_sound, H, elem_of_list_In; exact Ha|].
  apply seed_path_sym. eapply seed_reach_b_sound, H, elem_of_list_In; exact Hb.
Qed.

Lemma seed_edge_b_complete w a b : seed_edge w a b -> seed_edge_b w a b = true.
Proof.
  intros (n & Hn & [m Hm] & Hs & Hne). unfold seed_edge_b. rewrite Hn, Hm.
  rewrite bool_decide_eq_true_2 by exact Hs. rewrite bool_decide_eq_false_2 by exact Hne. reflexivity.
Qed.

(** no running node lists another running node among its seeds *)
Definition no_seed_edges_b (w : world) : bool :=
  forallb (fun a => forallb (fun b => negb (seed_edge_b w a b)) (running_addrs w)) (running_addrs w).

Lemma no_seed_edges_apart w a b :
  no_seed_edges_b w = true -> is_Some (w_nodes w !! a) -> is_Some (w_nodes w !! b) -> a <> b -> ~ seed_connected w.
Proof.
  intros Hno Ha Hb Hne Hc.
  assert (Hedge : forall x y, ~ seed_edge w x y).
  { intros x y He. pose proof (seed_edge_b_complete w x y He) as Hb'. destruct He as (n & Hn & Hy & _).
    unfold no_seed_edges_b in Hno. rewrite forallb_forall in Hno.
    assert (Hx : In x (running_addrs w)) by (apply elem_of_list_In, running_addrs_elem; eexists; exact Hn).
    specialize (Hno x Hx). rewrite forallb_forall in Hno.
    assert (Hy' : In y (running_addrs w)) by (apply elem_of_list_In, running_addrs_elem; exact Hy).
    specialize (Hno y Hy'). rewrite Hb' in Hno. discriminate. }
  pose proof (Hc a b Ha Hb) as Hp. clear - Hp Hedge Hne.
  induction Hp as [x|x y z He _ _|x y z He _ _]; [congruence|exfalso; eapply Hedge; exact He|exfalso; eapply Hedge; exact He].
Qed.

(** the seed lists stay what they are *)
Lemma seed_connected_fwd w w' :
  wext w w' ->
  (forall a n', w_nodes w' !! a = Some n' -> exists n, w_nodes w !! a = Some n /\ nd_cfg n' = nd_cfg n) ->
  seed_connected w -> seed_connected w'.
Proof.
  intros Hx Hk Hc.
  assert (He : forall a b, seed_edge w a b -> seed_edge w' a b).
  { intros a b (n & Hn & [m Hm] & Hs & Hne). destruct (Hx _ _ Hn) as (n' & Hn' & _). destruct (Hx _ _ Hm) as (m' & Hm' & _).
    destruct (Hk a n' Hn') as (n0 & Hn0 & Ec). rewrite Hn in Hn0. injection Hn0 as <-.
    exists n'. split; [exact Hn'|]. split; [eexists; exact Hm'|]. split; [rewrite Ec; exact Hs|exact Hne]. }
  intros a b [n' Ha] [m' Hb]. destruct (Hk a n' Ha) as (n & Hn & _). destruct (Hk b m' Hb) as (m & Hm & _).
  assert (Hp : seed_path w a b) by (apply Hc; eexists; eassumption).
  clear - Hp He. induction Hp; [constructor|eapply sp_fwd; eauto|eapply sp_bwd; eauto].
Qed.

(** * the property as [C18_unconditional] states it, on the clean histories: two fair rounds suffice *)
Theorem clean_unconditional d faults t rounds w1 l1 w2 logs :
  clean_history faults = true -> run empty_world faults = Some (w1, l1) ->
  N.of_nat (size (w_nodes w1)) <= max_entries -> steps_ok (length faults) ->
  all_joined w1 -> seed_connected w1 ->
  fair_rounds w1 t d rounds = Some (w2, logs) -> (2 <= length rounds)%nat ->
  converged w2 /\ (forall lg, last logs = Some lg -> quiet lg = true).
Proof.
  intros Hcl Hrun Hcap Hst Hj Hconn Hr Hlen.
  destruct rounds as [|r rest]; [cbn in Hlen; lia|]. cbn [fair_rounds] in Hr.
  destruct (fair_round w1 t r) as [[wa la]|] eqn:Er; [|discriminate].
  destruct (fair_rounds wa (t + d) d rest) as [[wb ls]|] eqn:E2; [|discriminate]. injection Hr as <- <-.
  assert (Hconn' : seed_connected wa).
  { unfold steps_ok in Hst.
    destruct (clean_run_cinv faults [] empty_world w1 l1 cinv_empty Hcl Hrun Hcap) as (G & Hc & _); [cbn [length]; lia|].
    destruct (fair_round_closure G w1 t r wa la Hc Hj Hcap Er) as (_ & _ & _ & _ & X & K & _).
    eapply seed_connected_fwd; eassumption. }
  destruct (clean_convergence faults w1 l1 t r wa la Hcl Hrun Hcap Hst Hj Er Hconn') as (_ & _ & Hfut).
  destruct (Hfut (t + d)%Z d rest wb ls E2) as (Hcv & Hq & _).
  split; [exact Hcv|]. intros lg Hlast.
  destruct rest as [|r2 rest']; [cbn in Hlen; lia|].
  cbn [fair_rounds] in E2. destruct (fair_round wa (t + d) r2) as [[wc lc]|]; [|discriminate].
  destruct (fair_rounds wc (t + d + d) d rest') as [[wd ls']|]; [|discriminate]. injection E2 as _ <-.
  rewrite last_cons_cons in Hlast. rewrite Forall_forall in Hq. apply Hq.
  apply last_Some_elem_of in Hlast. exact Hlast.
Qed.
