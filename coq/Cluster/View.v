(** Model of internal/cluster/cluster_view.go (ClusterView: AddMember, RemoveMember, IncrementVersion,
    recomputeCounts, MergeFromWithOptions, Snapshot) and internal/cluster/node_status.go (NodeState,
    newNodeState, IsNewerThan), as the code is.  The members map is a finite map keyed by node id (bytes);
    the version vector is [VV.vv].  Pointer-level facts (Clone / aliasing, nil entries) have no counterpart
    in a functional model and are decided on the implementation only.

    Not modelled (payload copied verbatim by Clone, never read by any function below): ClusterName,
    Unreachable, Metadata, Labels, Checksum, ViewID.  Generation/LogicalClock/counters are unbounded
    ([Z]/[N]): the int / uint64 wrap-around after 2^63 restarts is outside the model; the one place where
    the code does int64 arithmetic on data that can come from the wire (the clock-skew test) is modelled
    with the wrap. *)
From Coq Require Import List NArith ZArith Lia Bool.
From stdpp Require Import gmap.
From Vivid Require Import Codec.Prim Cluster.VV.
Local Open Scope N_scope.

(** * NodeState *)

Record nstate := NState {
  ns_id : list N;        (* ID *)
  ns_addr : list N;      (* Address *)
  ns_gen : Z;            (* Generation (int; int32 on the wire) *)
  ns_ts : Z;             (* Timestamp (int64 ns) *)
  ns_seq : N;            (* SeqNo *)
  ns_status : Z;         (* Status (MemberStatus int) *)
  ns_lc : N;             (* LogicalClock (uint64; 0 = unused) *)
  ns_seen : Z            (* LastSeen *)
}.

Global Instance nstate_eq_dec : EqDecision nstate.
Proof. solve_decision. Defined.

Definition st_joining : Z := 0.
Definition st_up : Z := 1.
Definition st_suspect : Z := 2.

(** newNodeState(id, _, address) at wall-clock [now] *)
Definition new_node_state (id addr : list N) (now : Z) : nstate :=
  NState id addr 1 now 0 st_joining 1 now.

Definition ns_set_status (s : nstate) (st : Z) : nstate :=
  NState (ns_id s) (ns_addr s) (ns_gen s) (ns_ts s) (ns_seq s) st (ns_lc s) (ns_seen s).

(** n.IsNewerThan(o) for a non-nil o: generation; then, for the same ID with both logical clocks
    non-zero, the logical clock; otherwise the timestamp. *)
Definition isnewer (n o : nstate) : bool :=
  if negb (ns_gen n =? ns_gen o)%Z then (ns_gen o <? ns_gen n)%Z
  else if bool_decide (ns_id n = ns_id o) && negb (ns_lc n =? 0) && negb (ns_lc o =? 0)
       then ns_lc o <? ns_lc n
       else (ns_ts o <? ns_ts n)%Z.

(** the incarnation of a state: (generation, logical clock), ordered lexicographically *)
Definition inc_of (s : nstate) : Z * N := (ns_gen s, ns_lc s).
Definition inc_lt (p q : Z * N) : bool :=
  (fst p <? fst q)%Z || ((fst p =? fst q)%Z && (snd p <? snd q)).
Definition inc_max (p q : Z * N) : Z * N := if inc_lt p q then q else p.

(** * ClusterView *)

Notation members := (gmap (list N) nstate).
Notation pmap := (gmap (list N) (Z * N)).

Record view := View {
  vw_epoch : Z;
  vw_ts : Z;
  vw_members : members;
  vw_healthy : N;
  vw_unhealthy : N;
  vw_quorum : N;
  vw_vv : vv;
  vw_proto : N;
  vw_maxent : Z          (* MaxVersionVectorEntries (int; <= 0 means the default 65535) *)
}.

(** newClusterView() at wall-clock [now], then cv.MaxVersionVectorEntries = maxent (NewNodeActor) *)
Definition new_view (now maxent : Z) : view := View 0 now ∅ 0 0 0 ∅ 1 maxent.

Definition set_members (v : view) (m : members) : view :=
  View (vw_epoch v) (vw_ts v) m (vw_healthy v) (vw_unhealthy v) (vw_quorum v) (vw_vv v) (vw_proto v) (vw_maxent v).
Definition set_vv (v : view) (x : vv) : view :=
  View (vw_epoch v) (vw_ts v) (vw_members v) (vw_healthy v) (vw_unhealthy v) (vw_quorum v) x (vw_proto v) (vw_maxent v).

(** what the property calls the membership: member id -> incarnation *)
Definition proj (v : view) : pmap := inc_of <$> vw_members v.
Definition pjoin (a b : pmap) : pmap := union_with (fun x y => Some (inc_max x y)) a b.

Fixpoint count_up (l : list (list N * nstate)) : N :=
  match l with
  | [] => 0
  | p :: r => (if (ns_status (snd p) =? st_up)%Z then 1 else 0) + count_up r
  end.

(** recomputeCounts: healthy = members whose status is Up, quorum = healthy/2+1, and the version
    vector is pruned to the current member ids (PruneWithMax with MaxVersionVectorEntries) when there
    is at least one member. *)
Definition recompute (v : view) : view :=
  let ms := map_to_list (vw_members v) in
  let h := count_up ms in
  let total := N.of_nat (length ms) in
  let x := match ms with
           | [] => vw_vv v
           | _ :: _ => vprune_max (vw_vv v) (ms.*1) (vw_maxent v)
           end in
  View (vw_epoch v) (vw_ts v) (vw_members v) h (total - h) (if 0 <? h then h / 2 + 1 else 0)
       x (vw_proto v) (vw_maxent v).

(** AddMember(member), member non-nil: key = member.ID *)
Definition view_add (v : view) (s : nstate) : view :=
  let ins := recompute (set_members v (<[ns_id s := s]> (vw_members v))) in
  match vw_members v !! ns_id s with
  | Some e => if isnewer s e then ins else v
  | None => ins
  end.

(** RemoveMember(nodeID) *)
Definition view_remove (v : view) (id : list N) : view :=
  match vw_members v !! id with
  | Some _ => recompute (set_members v (delete id (vw_members v)))
  | None => v
  end.

(** IncrementVersion(localNodeID): errors of Increment (invalid id, overflow) leave the view unchanged *)
Definition view_inc (v : view) (id : list N) : view :=
  match id with
  | [] => v
  | _ :: _ => match vinc (vw_vv v) id with Ok x => set_vv v x | Err _ => v end
  end.

(** in-place status change of a stored member (node_actor.go: member.Status = ...; no recompute) *)
Definition view_set_status (v : view) (id : list N) (st : Z) : view :=
  set_members v (alter (fun s => ns_set_status s st) id (vw_members v)).

(** Snapshot(): a deep copy; in a functional model the identity *)
Definition view_snapshot (v : view) : view := v.

(** the restart path of tryJoinSeeds: if the view already lists this node id at a generation >= ours,
    take generation+1, a fresh timestamp, logical clock prev+1 (or 1 when prev has none), and AddMember. *)
Definition view_rejoin (self : nstate) (v : view) (now : Z) : nstate * view :=
  match vw_members v !! ns_id self with
  | Some prev =>
      if (ns_gen self <=? ns_gen prev)%Z then
        let self' := NState (ns_id self) (ns_addr self) (ns_gen prev + 1) now (ns_seq self) (ns_status self)
                            (if ns_lc prev =? 0 then 1 else ns_lc prev + 1) (ns_seen self) in
        (self', view_add v self')
      else (self, v)
  | None => (self, v)
  end.

(** member part of MergeFromWithOptions: for every (id, otherState) of [o]: adopt when the id is
    absent or otherState.IsNewerThan(existing).  Every key is visited once and only touches its own
    key, so the iteration order of the Go map is irrelevant. *)
Definition merge_members (a o : members) : members :=
  union_with (fun e x => Some (if isnewer x e then x else e)) a o.
Definition members_changed (a o : members) : bool :=
  existsb (fun p => match a !! fst p with None => true | Some e => isnewer (snd p) e end) (map_to_list o).

Definition two63 : Z := 9223372036854775808.
Definition wrap64 (z : Z) : Z := ((z + two63) mod (2 * two63) - two63)%Z.

(** the clock-skew test on int64 (diff := now - other.Timestamp; if diff < 0 { diff = -diff }; diff > skew) *)
Definition skew_skip (skew now ots : Z) : bool :=
  (0 <? skew)%Z &&
  (let d := wrap64 (now - ots) in
   let d' := if (d <? 0)%Z then wrap64 (- d) else d in
   (skew <? d')%Z).

Definition is_concurrent (a b : vv) : bool :=
  match vcompare a b with VConcurrent => true | _ => false end.
Definition is_equal (a b : vv) : bool :=
  match vcompare a b with VEqual => true | _ => false end.

(** v.MergeFromWithOptions(o, {MaxClockSkew: skew, VersionConcurrentStrategy: strat}) with
    time.Now().UnixNano() = now; returns the new v and [changed].
    [cmp_pruned] selects the vector the merged vector is compared with for [changed]:
      false = the vector as it was BEFORE recomputeCounts pruned it (beforeVV; the code as it is now),
      true  = the already pruned vector (the code before the repair of the changed flag; kept only
              for the regression examples, see [view_merge_before_fix]). *)
Definition view_merge_gen (cmp_pruned : bool) (skew strat now : Z) (v o : view) : view * bool :=
  if bool_decide (size (vw_members o) = 0%nat) then (v, false) else
  let concurrent := is_concurrent (vw_vv v) (vw_vv o) in
  let ch_m := members_changed (vw_members v) (vw_members o) in
  let before_vv := vw_vv v in
  let v1 := recompute (set_members v (merge_members (vw_members v) (vw_members o))) in
  let mvv := vmerge (vw_vv v1) (vw_vv o) in
  let ch_v := negb (is_equal mvv (if cmp_pruned then vw_vv v1 else before_vv)) in
  let adopt := negb (skew_skip skew now (vw_ts o)) && negb (concurrent && (strat =? 1)%Z) in
  let up_e := adopt && (vw_epoch v <? vw_epoch o)%Z in
  let up_t := adopt && (vw_ts v <? vw_ts o)%Z in
  let up_p := vw_proto v <? vw_proto o in
  (View (if up_e then vw_epoch o else vw_epoch v)
        (if up_t then vw_ts o else vw_ts v)
        (vw_members v1) (vw_healthy v1) (vw_unhealthy v1) (vw_quorum v1)
        mvv
        (if up_p then vw_proto o else vw_proto v)
        (vw_maxent v),
   ch_m || ch_v || up_e || up_t || up_p).

(** the code as it is *)
Definition view_merge (skew strat now : Z) (v o : view) : view * bool :=
  view_merge_gen false skew strat now v o.
(** the code before commit 53b1085 ("compare with the vector before recomputeCounts"): same new view,
    but [changed] did not see the entries the prune had dropped *)
Definition view_merge_before_fix (skew strat now : Z) (v o : view) : view * bool :=
  view_merge_gen true skew strat now v o.

(** MergeFrom(o) = default options *)
Definition view_merge_default (now : Z) (v o : view) : view * bool := view_merge 0 0 now v o.

(** * Well-formedness *)

Definition wf_state (s : nstate) : Prop := (1 <= ns_gen s)%Z /\ 1 <= ns_lc s.
(** keys equal state ids; generation >= 1; logical clock >= 1 *)
Definition WF (v : view) : Prop :=
  forall k s, vw_members v !! k = Some s -> ns_id s = k /\ wf_state s.
(** every version-vector key is a member id (what IncrementVersion(self) after AddMember(self) and
    the prune in recomputeCounts maintain) *)
Definition VVin (v : view) : Prop :=
  forall k, is_Some (vw_vv v !! k) -> is_Some (vw_members v !! k).
(** the guard of the MaxVersionVectorEntries truncation: the member count is within the entry cap *)
Definition vv_limit (maxent : Z) : N := if (maxent <=? 0)%Z then max_entries else Z.to_N maxent.
Definition CapOK (v : view) : Prop := N.of_nat (size (vw_members v)) <= vv_limit (vw_maxent v).

(** * Merge expressions: any order / any tree shape of merges, each with its own options and clock *)
Inductive mexp :=
| MLeaf (v : view)
| MNode (skew strat now : Z) (l r : mexp).
Fixpoint meval (e : mexp) : view :=
  match e with
  | MLeaf v => v
  | MNode skew strat now l r => fst (view_merge skew strat now (meval l) (meval r))
  end.
Fixpoint mleaves (e : mexp) : list view :=
  match e with
  | MLeaf v => [v]
  | MNode _ _ _ l r => mleaves l ++ mleaves r
  end.
Definition pjoin_all (l : list view) : pmap := foldr (fun v acc => pjoin (proj v) acc) ∅ l.

(** * Views the code can build without removals (the property's quantifier: joins, restarts =
    generation bumps, status changes, version increments of a member, snapshots, earlier merges).
    A joining state is any well-formed node state (newNodeState, later bumped / status-changed). *)
Inductive reach : view -> Prop :=
| R_new now maxent : reach (new_view now maxent)
| R_join v s : reach v -> wf_state s -> reach (view_add v s)
| R_inc v id : reach v -> is_Some (vw_members v !! id) -> reach (view_inc v id)
| R_status v id st : reach v -> reach (view_set_status v id st)
| R_rejoin v self now : reach v -> wf_state self -> reach (snd (view_rejoin self v now))
| R_merge sk st now v o : reach v -> reach o -> reach (fst (view_merge sk st now v o))
| R_snapshot v : reach v -> reach (view_snapshot v).
