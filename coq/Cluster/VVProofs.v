From Coq Require Import List NArith ZArith Lia Bool.
From stdpp Require Import gmap sorting.
From Vivid Require Import Codec.Prim Codec.PrimProofs Cluster.VV.
Local Open Scope N_scope.

(** * Flags of Compare = pointwise comparison of [vget] *)

Lemma vless_spec v o : vless v o = true <-> exists k, vget v k < vget o k.
Proof.
  unfold vless. rewrite orb_true_iff, !existsb_exists. split.
  - intros [((k, x) & Hin & Hx) | ((k, x) & Hin & Hx)]; cbn [fst snd] in Hx.
    + apply elem_of_list_In, elem_of_map_to_list in Hin. exists k.
      unfold vget at 1. rewrite Hin. cbn. lia.
    + apply elem_of_list_In, elem_of_map_to_list in Hin. apply andb_true_iff in Hx as [Hn Hp].
      apply bool_decide_eq_true in Hn. exists k. unfold vget. rewrite Hn, Hin. cbn. lia.
  - intros (k & Hk). unfold vget in Hk at 1. destruct (v !! k) as [va|] eqn:E; cbn in Hk.
    + left. exists (k, va). split; [apply elem_of_list_In, elem_of_map_to_list; exact E|cbn; lia].
    + right. unfold vget in Hk. destruct (o !! k) as [vb|] eqn:E2; cbn in Hk; [|lia].
      exists (k, vb). split; [apply elem_of_list_In, elem_of_map_to_list; exact E2|].
      cbn. rewrite E. rewrite bool_decide_eq_true_2 by reflexivity. cbn. lia.
Qed.

Lemma vgreater_spec v o : vgreater v o = true <-> exists k, vget o k < vget v k.
Proof.
  unfold vgreater. rewrite existsb_exists. split.
  - intros ((k, x) & Hin & Hx); cbn [fst snd] in Hx.
    apply elem_of_list_In, elem_of_map_to_list in Hin. exists k.
    unfold vget at 2. rewrite Hin. cbn. lia.
  - intros (k & Hk). unfold vget in Hk at 2. destruct (v !! k) as [va|] eqn:E; cbn in Hk; [|lia].
    exists (k, va). split; [apply elem_of_list_In, elem_of_map_to_list; exact E|cbn; lia].
Qed.

Lemma vless_false v o : vless v o = false <-> forall k, vget o k <= vget v k.
Proof.
  rewrite <- not_true_iff_false, vless_spec. split.
  - intros H k. destruct (N.le_gt_cases (vget o k) (vget v k)) as [?|Hlt]; [assumption|]. exfalso; apply H; exists k; lia.
  - intros H (k & Hk). specialize (H k). lia.
Qed.
Lemma vgreater_false v o : vgreater v o = false <-> forall k, vget v k <= vget o k.
Proof.
  rewrite <- not_true_iff_false, vgreater_spec. split.
  - intros H k. destruct (N.le_gt_cases (vget v k) (vget o k)) as [?|Hlt]; [assumption|]. exfalso; apply H; exists k; lia.
  - intros H (k & Hk). specialize (H k). lia.
Qed.

Lemma vget_empty_size v k : size v = 0%nat -> vget v k = 0.
Proof. intros H. apply map_size_empty_inv in H. subst. unfold vget. rewrite lookup_empty. reflexivity. Qed.

(** the fast path agrees with the flags *)
Lemma vcompare_flags v o :
  vcompare v o = match vless v o, vgreater v o with
                 | false, false => VEqual | true, false => VBefore
                 | false, true => VAfter | true, true => VConcurrent end.
Proof.
  unfold vcompare. destruct (bool_decide (size v = 0%nat) && bool_decide (size o = 0%nat)) eqn:E; [|reflexivity].
  apply andb_true_iff in E as [E1 E2]. apply bool_decide_eq_true in E1, E2.
  assert (Hl : vless v o = false) by (apply vless_false; intros k; rewrite !vget_empty_size by assumption; lia).
  assert (Hg : vgreater v o = false) by (apply vgreater_false; intros k; rewrite !vget_empty_size by assumption; lia).
  rewrite Hl, Hg. reflexivity.
Qed.

Definition vle (a b : vv) : Prop := forall k, vget a k <= vget b k.
Definition veq (a b : vv) : Prop := forall k, vget a k = vget b k.
Definition vlt (a b : vv) : Prop := vle a b /\ exists k, vget a k < vget b k.

Theorem vcompare_equal v o : vcompare v o = VEqual <-> veq v o.
Proof.
  rewrite vcompare_flags. unfold veq. split.
  - destruct (vless v o) eqn:L, (vgreater v o) eqn:G; try discriminate. intros _ k.
    pose proof (proj1 (vless_false _ _) L) as L'; clear L; rename L' into L. pose proof (proj1 (vgreater_false _ _) G) as G'; clear G; rename G' into G. specialize (L k); specialize (G k). lia.
  - intros H.
    assert (L : vless v o = false) by (apply vless_false; intros k; rewrite H; lia).
    assert (G : vgreater v o = false) by (apply vgreater_false; intros k; rewrite H; lia).
    rewrite L, G. reflexivity.
Qed.

Theorem vcompare_before v o : vcompare v o = VBefore <-> vlt v o.
Proof.
  rewrite vcompare_flags. unfold vlt, vle. split.
  - destruct (vless v o) eqn:L, (vgreater v o) eqn:G; try discriminate. intros _.
    apply vless_spec in L. pose proof (proj1 (vgreater_false _ _) G) as G'; clear G; rename G' into G. split; assumption.
  - intros [H1 H2]. pose proof (proj2 (vgreater_false _ _) H1) as H1'; clear H1; rename H1' into H1. apply vless_spec in H2. rewrite H1, H2. reflexivity.
Qed.

Theorem vcompare_after v o : vcompare v o = VAfter <-> vlt o v.
Proof.
  rewrite vcompare_flags. unfold vlt, vle. split.
  - destruct (vless v o) eqn:L, (vgreater v o) eqn:G; try discriminate. intros _.
    pose proof (proj1 (vless_false _ _) L) as L'; clear L; rename L' into L. apply vgreater_spec in G. split; assumption.
  - intros [H1 H2]. pose proof (proj2 (vless_false _ _) H1) as H1'; clear H1; rename H1' into H1. apply vgreater_spec in H2. rewrite H1, H2. reflexivity.
Qed.

Theorem vcompare_concurrent v o :
  vcompare v o = VConcurrent <-> (exists k, vget v k < vget o k) /\ (exists k, vget o k < vget v k).
Proof.
  rewrite vcompare_flags. split.
  - destruct (vless v o) eqn:L, (vgreater v o) eqn:G; try discriminate. intros _.
    apply vless_spec in L. apply vgreater_spec in G. split; assumption.
  - intros [H1 H2]. apply vless_spec in H1. apply vgreater_spec in H2. rewrite H1, H2. reflexivity.
Qed.

(** * Partial order *)

Theorem vcompare_refl v : vcompare v v = VEqual.
Proof. apply vcompare_equal. intros k. reflexivity. Qed.

Theorem vcompare_converse v o :
  match vcompare v o with
  | VEqual => vcompare o v = VEqual
  | VBefore => vcompare o v = VAfter
  | VAfter => vcompare o v = VBefore
  | VConcurrent => vcompare o v = VConcurrent
  end.
Proof.
  destruct (vcompare v o) eqn:E.
  - apply vcompare_equal in E. apply vcompare_equal. intros k. symmetry. apply E.
  - apply vcompare_before in E. apply vcompare_after. exact E.
  - apply vcompare_after in E. apply vcompare_before. exact E.
  - apply vcompare_concurrent in E. apply vcompare_concurrent. tauto.
Qed.

Theorem vcompare_antisym v o : vcompare v o = VBefore -> vcompare o v = VBefore -> False.
Proof.
  intros H1 H2. apply vcompare_before in H1 as [H1 _]. apply vcompare_before in H2 as [_ (k & Hk)].
  specialize (H1 k). lia.
Qed.

(** [Before] (and hence [After]) is transitive, also across [Equal] *)
Theorem vcompare_trans_before a b c :
  vcompare a b = VBefore -> vcompare b c = VBefore -> vcompare a c = VBefore.
Proof.
  intros H1 H2. apply vcompare_before in H1 as [L1 (k & Hk)]. apply vcompare_before in H2 as [L2 _].
  apply vcompare_before. split.
  - intros j. specialize (L1 j); specialize (L2 j). lia.
  - exists k. specialize (L2 k). lia.
Qed.
Theorem vcompare_trans_equal a b c :
  vcompare a b = VEqual -> vcompare b c = VEqual -> vcompare a c = VEqual.
Proof.
  intros H1 H2. apply vcompare_equal in H1, H2. apply vcompare_equal. intros k. rewrite H1. apply H2.
Qed.
Theorem vcompare_equal_congr a b c : vcompare a b = VEqual -> vcompare a c = vcompare b c.
Proof.
  intros H. apply vcompare_equal in H.
  rewrite !vcompare_flags.
  assert (L : vless a c = vless b c).
  { apply eq_true_iff_eq. rewrite !vless_spec. split; intros (k & Hk); exists k; [rewrite <- H|rewrite H]; exact Hk. }
  assert (G : vgreater a c = vgreater b c).
  { apply eq_true_iff_eq. rewrite !vgreater_spec. split; intros (k & Hk); exists k; [rewrite <- H|rewrite H]; exact Hk. }
  rewrite L, G. reflexivity.
Qed.

(** [vle] as the reflexive order: Before or Equal *)
Lemma vle_compare a b : vle a b <-> (vcompare a b = VBefore \/ vcompare a b = VEqual).
Proof.
  rewrite vcompare_before, vcompare_equal. unfold vlt, vle, veq. split.
  - intros H. destruct (vless a b) eqn:L.
    + left. split; [exact H|]. apply vless_spec. exact L.
    + right. intros k. pose proof (proj1 (vless_false _ _) L) as L'; clear L; rename L' into L. specialize (H k); specialize (L k). lia.
  - intros [[H _]|H] k; [apply H|rewrite H; lia].
Qed.

(** * Merge *)

Lemma vget_max_union a b k : vget (vmax_union a b) k = N.max (vget a k) (vget b k).
Proof.
  unfold vget, vmax_union. rewrite lookup_union_with.
  destruct (a !! k), (b !! k); cbn; lia.
Qed.

Lemma vmerge_union a b : vmerge a b = vmax_union a b.
Proof.
  unfold vmerge. destruct (bool_decide (size b = 0%nat)) eqn:Eb.
  - apply bool_decide_eq_true, map_size_empty_inv in Eb. subst.
    unfold vmax_union. apply map_eq. intros k. rewrite lookup_union_with, lookup_empty. destruct (a !! k); reflexivity.
  - destruct (bool_decide (size a = 0%nat)) eqn:Ea; [|reflexivity].
    apply bool_decide_eq_true, map_size_empty_inv in Ea. subst.
    unfold vmax_union. apply map_eq. intros k. rewrite lookup_union_with, lookup_empty. destruct (b !! k); reflexivity.
Qed.

Lemma vget_merge a b k : vget (vmerge a b) k = N.max (vget a k) (vget b k).
Proof. rewrite vmerge_union. apply vget_max_union. Qed.

Theorem vmerge_comm a b : vmerge a b = vmerge b a.
Proof.
  rewrite !vmerge_union. apply map_eq. intros k. unfold vmax_union. rewrite !lookup_union_with.
  destruct (a !! k), (b !! k); cbn; f_equal; lia.
Qed.
Theorem vmerge_assoc a b c : vmerge (vmerge a b) c = vmerge a (vmerge b c).
Proof.
  rewrite !vmerge_union. apply map_eq. intros k. unfold vmax_union. rewrite !lookup_union_with.
  destruct (a !! k), (b !! k), (c !! k); cbn; f_equal; lia.
Qed.
Theorem vmerge_idem a : vmerge a a = a.
Proof.
  rewrite !vmerge_union. apply map_eq. intros k. unfold vmax_union. rewrite !lookup_union_with.
  destruct (a !! k); cbn; f_equal; lia.
Qed.

Theorem vmerge_upper_l a b : vle a (vmerge a b).
Proof. intros k. rewrite vget_merge. lia. Qed.
Theorem vmerge_upper_r a b : vle b (vmerge a b).
Proof. intros k. rewrite vget_merge. lia. Qed.
Theorem vmerge_least a b c : vle a c -> vle b c -> vle (vmerge a b) c.
Proof. intros H1 H2 k. rewrite vget_merge. specialize (H1 k); specialize (H2 k). lia. Qed.

(** merge adds no key that neither argument has, and keeps every key *)
Theorem vmerge_dom a b k : is_Some (vmerge a b !! k) <-> is_Some (a !! k) \/ is_Some (b !! k).
Proof.
  rewrite vmerge_union. unfold vmax_union. rewrite lookup_union_with.
  destruct (a !! k), (b !! k); cbn; split; intros H; try (eexists; reflexivity); try tauto;
    try (left; eexists; reflexivity); try (right; eexists; reflexivity).
Qed.

(** * Increment *)

Theorem vinc_ok v k v' :
  vinc v k = Ok v' ->
  vget v' k = vget v k + 1 /\ (forall j, j <> k -> v' !! j = v !! j) /\ vcompare v' v = VAfter.
Proof.
  unfold vinc. destruct (valid_addr k); [|discriminate].
  destruct (max_counter <=? vget v k); [discriminate|]. intros [= <-].
  assert (G : vget (<[k:=vget v k + 1]> v) k = vget v k + 1) by (unfold vget at 1; rewrite lookup_insert; reflexivity).
  split; [exact G|]. split; [intros j Hj; apply lookup_insert_ne; congruence|].
  apply vcompare_after. split.
  - intros j. destruct (decide (j = k)) as [->|Hj]; [rewrite G; lia|].
    unfold vget. rewrite lookup_insert_ne by congruence. lia.
  - exists k. rewrite G. lia.
Qed.

Theorem vinc_err v k :
  (vinc v k = Err EInvalid <-> valid_addr k = false) /\
  (vinc v k = Err EOverflow <-> valid_addr k = true /\ max_counter <= vget v k) /\
  (forall e, vinc v k = Err e -> e = EInvalid \/ e = EOverflow).
Proof.
  unfold vinc. destruct (valid_addr k); destruct (N.leb_spec max_counter (vget v k));
    repeat split; try discriminate; try tauto; try lia; intros; try congruence; try (destruct H; congruence); try (destruct H0; congruence);
    try (destruct H; lia); try (destruct H0; lia); try (inversion H0; tauto); try (inversion H; tauto).
Qed.

(** absent and explicit-zero entries cannot be told apart by Compare *)
Theorem vcompare_zero_entry v k : v !! k = None -> vcompare v (<[k := 0]> v) = VEqual.
Proof.
  intros H. apply vcompare_equal. intros j. unfold vget.
  destruct (decide (j = k)) as [->|Hj]; [rewrite H, lookup_insert; reflexivity|rewrite lookup_insert_ne by congruence; reflexivity].
Qed.

(** * Compact keeps the order class *)
Theorem vcompact_equal v : vcompare (vcompact v) v = VEqual.
Proof.
  apply vcompare_equal. intros k. unfold vget, vcompact.
  destruct (v !! k) as [x|] eqn:E.
  - destruct (decide (0 < x)) as [Hx|Hx].
    + rewrite (map_filter_lookup_Some_2 _ _ _ x E); [reflexivity|exact Hx].
    + rewrite map_filter_lookup_None_2; [cbn; lia|]. right. intros y Hy. rewrite E in Hy. injection Hy as <-. exact Hx.
  - rewrite map_filter_lookup_None_2; [reflexivity|]. left. exact E.
Qed.

(** * Serialisation round trip *)

Lemma ins_sorted_perm {A} (le : A -> A -> bool) x l : ins_sorted le x l ≡ₚ x :: l.
Proof.
  induction l as [|y r IH]; cbn; [reflexivity|]. destruct (le x y); [reflexivity|].
  rewrite IH. apply Permutation_swap.
Qed.
Lemma isort_perm {A} (le : A -> A -> bool) l : isort le l ≡ₚ l.
Proof. induction l as [|x l IH]; cbn; [reflexivity|]. rewrite ins_sorted_perm, IH. reflexivity. Qed.

Lemma ventries_perm v : ventries v ≡ₚ map_to_list v.
Proof. apply isort_perm. Qed.

Definition ins_entry (acc : vv) (p : list N * N) : vv := <[fst p := snd p]> acc.

Lemma fold_ins_nodup (l : list (list N * N)) (acc : vv) :
  NoDup (l.*1) -> foldl ins_entry acc l = list_to_map l ∪ acc.
Proof.
  revert acc. induction l as [|[k c] l IH]; intros acc Hnd; cbn [foldl].
  - cbn. rewrite (left_id ∅ (∪)). reflexivity.
  - cbn in Hnd. apply NoDup_cons in Hnd as [Hk Hnd].
    rewrite IH by exact Hnd. unfold ins_entry; cbn [fst snd list_to_map foldr]. 
    change (foldr (λ p, <[p.1:=p.2]>) ∅ l) with (list_to_map (M:=vv) l).
    rewrite <- insert_union_l, insert_union_r; [reflexivity|].
    apply not_elem_of_list_to_map_1. exact Hk.
Qed.

Definition wf_vv (v : vv) : Prop :=
  N.of_nat (size v) <= max_entries /\
  forall k c, v !! k = Some c -> valid_addr k = true /\ c <= max_counter.

Lemma vwrite_entries_ok l :
  Forall (fun p => valid_addr (fst p) = true) l ->
  exists bs, vwrite_entries l = Ok bs /\
    forall acc rest, Forall (fun p => snd p <= max_counter) l ->
      vread_entries (length l) acc (bs ++ rest) = Ok (foldl ins_entry acc l, rest).
Proof.
  induction l as [|[k c] l IH]; intros Hv.
  - exists []. split; [reflexivity|]. intros acc rest _. reflexivity.
  - apply Forall_cons in Hv as [Hk Hv]. cbn [fst] in Hk. destruct (IH Hv) as (bs & Hbs & Hrd).
    exists (put_lp4 k ++ put_u64 c ++ bs). split.
    + cbn [vwrite_entries]. rewrite Hk, Hbs. reflexivity.
    + intros acc rest Hc. apply Forall_cons in Hc as [Hc1 Hc]. cbn [snd] in Hc1.
      cbn [vread_entries length].
      rewrite <- !app_assoc. rewrite rd_lp4_put.
      2:{ unfold valid_addr, max_addr_len in Hk. apply andb_true_iff in Hk as [_ Hk]. apply N.leb_le in Hk. lia. }
      cbn [bind]. rewrite Hk. rewrite rd_u64_put by (unfold max_counter in Hc1; lia). cbn [bind].
      replace (max_counter <? c) with false by (symmetry; apply N.ltb_ge; exact Hc1).
      rewrite Hrd by exact Hc. reflexivity.
Qed.

Theorem vread_vwrite v rest :
  wf_vv v -> exists bs, vwrite v = Ok bs /\ vread (bs ++ rest) = Ok (v, rest).
Proof.
  intros [Hsz Hwf].
  assert (Hlen : length (ventries v) = size v).
  { rewrite (Permutation_length (ventries_perm v)). symmetry. apply map_size_list_to_set_length || idtac.
    unfold size, map_size. rewrite map_to_list_length || idtac. reflexivity. }
  assert (Hall : Forall (fun p => valid_addr (fst p) = true /\ snd p <= max_counter) (ventries v)).
  { apply Forall_forall. intros [k c] Hin. rewrite ventries_perm in Hin.
    apply elem_of_map_to_list in Hin. cbn. apply (Hwf k c Hin). }
  destruct (vwrite_entries_ok (ventries v)) as (body & Hbody & Hrd).
  { eapply Forall_impl; [exact Hall|]. cbn. tauto. }
  exists (put_u32 (N.of_nat (length (ventries v))) ++ body). split.
  - unfold vwrite. rewrite Hlen.
    replace (max_entries <? N.of_nat (size v)) with false by (symmetry; apply N.ltb_ge; exact Hsz).
    rewrite Hbody. reflexivity.
  - unfold vread. rewrite <- app_assoc, rd_u32_put by (rewrite Hlen; unfold max_entries in Hsz; lia).
    cbn [bind]. rewrite Hlen.
    replace (max_entries <? N.of_nat (size v)) with false by (symmetry; apply N.ltb_ge; exact Hsz).
    rewrite Nat2N.id, <- Hlen, Hrd.
    2:{ eapply Forall_impl; [exact Hall|]. cbn. tauto. }
    rewrite fold_ins_nodup.
    2:{ rewrite (ventries_perm v). apply NoDup_fst_map_to_list. }
    rewrite (right_id ∅ (∪)).
    f_equal. f_equal. rewrite <- (list_to_map_to_list v) at 2.
    apply list_to_map_proper; [|apply ventries_perm].
    rewrite (ventries_perm v). apply NoDup_fst_map_to_list.
Qed.

(** entries are emitted in strictly increasing byte-wise order of the node address *)
Lemma lex_le_total a b : lex_le a b = true \/ lex_le b a = true.
Proof.
  revert b; induction a as [|x a IH]; intros [|y b]; cbn; auto.
  destruct (N.ltb_spec x y), (N.ltb_spec y x); auto; lia.
Qed.

(** * Sorted entries: the writer's order is the strictly increasing byte-wise order of the node addresses,
    and it is canonical (independent of the order in which the map was traversed) *)
Lemma lex_le_refl a : lex_le a a = true.
Proof. induction a as [|x a IH]; cbn; [reflexivity|]. rewrite N.ltb_irrefl. exact IH. Qed.
Lemma lex_le_antisym a b : lex_le a b = true -> lex_le b a = true -> a = b.
Proof.
  revert b; induction a as [|x a IH]; intros [|y b]; cbn; try discriminate; [reflexivity|].
  destruct (N.ltb_spec x y), (N.ltb_spec y x); try discriminate; try lia.
  intros H1 H2. assert (x = y) by lia. subst. f_equal. apply IH; assumption.
Qed.
Lemma lex_le_trans a b c : lex_le a b = true -> lex_le b c = true -> lex_le a c = true.
Proof.
  revert b c; induction a as [|x a IH]; intros [|y b] [|z c]; cbn; try discriminate; try reflexivity.
  destruct (N.ltb_spec x y), (N.ltb_spec y x), (N.ltb_spec y z), (N.ltb_spec z y), (N.ltb_spec x z), (N.ltb_spec z x);
    try discriminate; try reflexivity; try lia. apply IH.
Qed.

Definition ent_le (p q : list N * N) : bool := lex_le (fst p) (fst q).

Section InsertionSort.
  Context {A : Type} (le : A -> A -> bool).
  Hypothesis le_total : forall a b, le a b = true \/ le b a = true.
  Hypothesis le_trans : forall a b c, le a b = true -> le b c = true -> le a c = true.
  Let R (a b : A) : Prop := le a b = true.

  Lemma ins_sorted_ssorted x l : StronglySorted R l -> StronglySorted R (ins_sorted le x l).
  Proof.
    induction l as [|y r IH]; intros Hs; cbn.
    - constructor; constructor.
    - apply StronglySorted_inv in Hs as [Hr Hy]. destruct (le x y) eqn:E.
      + constructor; [constructor; assumption|]. constructor; [exact E|].
        eapply Forall_impl; [exact Hy|]. intros z Hz. exact (le_trans _ _ _ E Hz).
      + constructor; [apply IH, Hr|]. rewrite ins_sorted_perm. constructor; [|exact Hy].
        destruct (le_total x y) as [H|H]; [congruence|exact H].
  Qed.
  Lemma isort_ssorted l : StronglySorted R (isort le l).
  Proof. induction l as [|x l IH]; cbn; [constructor|]. apply ins_sorted_ssorted, IH. Qed.
End InsertionSort.

Lemma isort_length {A} (le : A -> A -> bool) l : length (isort le l) = length l.
Proof. apply Permutation_length, isort_perm. Qed.

Definition ent_lt (p q : list N * N) : Prop := lex_le (fst p) (fst q) = true /\ fst p <> fst q.
Global Instance ent_lt_antisym : AntiSymm (=) ent_lt.
Proof. intros p q [H1 Hn] [H2 _]. exfalso. apply Hn. apply lex_le_antisym; assumption. Qed.

Lemma ssorted_strict (l : list (list N * N)) :
  StronglySorted (fun p q => ent_le p q = true) l -> NoDup (l.*1) -> StronglySorted ent_lt l.
Proof.
  induction l as [|p l IH]; intros Hs Hnd; [constructor|].
  apply StronglySorted_inv in Hs as [Hl Hp]. cbn in Hnd. apply NoDup_cons in Hnd as [Hnin Hnd].
  constructor; [apply IH; assumption|].
  apply Forall_forall. intros q Hq. split; [exact (proj1 (Forall_forall _ _) Hp q Hq)|].
  intros E. apply Hnin. rewrite E. apply elem_of_list_fmap. exists q. split; [reflexivity|exact Hq].
Qed.

Lemma isort_ent_ssorted (l : list (list N * N)) : NoDup (l.*1) -> StronglySorted ent_lt (isort ent_le l).
Proof.
  intros Hnd. apply ssorted_strict.
  - apply isort_ssorted.
    + intros a b. apply lex_le_total.
    + intros a b c. apply lex_le_trans.
  - rewrite (isort_perm ent_le l). exact Hnd.
Qed.

(** sorting is canonical on lists with distinct keys *)
Lemma isort_ent_unique (l1 l2 : list (list N * N)) :
  l1 ≡ₚ l2 -> NoDup (l1.*1) -> isort ent_le l1 = isort ent_le l2.
Proof.
  intros Hp Hnd. apply (StronglySorted_unique ent_lt).
  - apply isort_ent_ssorted, Hnd.
  - apply isort_ent_ssorted. rewrite <- Hp. exact Hnd.
  - rewrite !isort_perm. exact Hp.
Qed.

Theorem ventries_sorted v : StronglySorted ent_lt (ventries v) /\ ventries v ≡ₚ map_to_list v.
Proof. split; [apply isort_ent_ssorted, NoDup_fst_map_to_list|apply ventries_perm]. Qed.

Lemma ventries_of_perm (es : list (list N * N)) (m : vv) : es ≡ₚ map_to_list m -> isort ent_le es = ventries m.
Proof. intros Hp. apply isort_ent_unique; [exact Hp|]. rewrite Hp. apply NoDup_fst_map_to_list. Qed.
