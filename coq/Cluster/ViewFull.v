(** The COMPLETE NodeState / ClusterView of internal/cluster (node_status.go, cluster_view.go): every
    field, nil maps and nil entries included.

    [View.nstate] / [View.view] carry the fields the merge decisions read (id, generation, logical
    clock, timestamp, status, ...).  Here the remaining fields are added -
      NodeState : ClusterName, Unreachable, Metadata, Labels, Checksum
      ClusterView : ViewID, Members == nil, Members[id] == nil
    - and the operations are re-stated on the complete values exactly as the code runs them
    (`if otherState == nil { continue }`, `IsNewerThan(nil) == true`, `if v.Members == nil { make }`,
    Snapshot dropping nil entries, Clone copying every field).  A Go map[string]string is
    [option smap]: [None] is the nil map, [Some ∅] the empty non-nil map (what newNodeState makes).

    The fields that recomputeCounts / IsNewerThan / the epoch block read are exactly the ones of the
    core model, read through [erase] (non-nil entries only): the base fields of a full merge are
    computed by the core model's merge body on the erasures.  ViewFullProofs.v proves that [erase]
    commutes with every operation, so every theorem about [View.view_merge] is a theorem about the
    complete merge, and that a merge moves complete states only (no field of one state is ever
    combined with a field of another).  Values here are immutable; who shares which Go pointer is the
    subject of ViewHeap.v. *)
From Coq Require Import List NArith ZArith Lia Bool.
From stdpp Require Import gmap.
From Vivid Require Import Codec.Prim Cluster.VV Cluster.View.
Local Open Scope N_scope.

Notation smap := (gmap (list N) (list N)).
Notation gomap := (option (gmap (list N) (list N))).

(** * NodeState, all 13 fields *)
Record fstate := FState {
  fs_core : nstate;          (* ID Address Generation Timestamp SeqNo Status LogicalClock LastSeen *)
  fs_cluster : list N;       (* ClusterName *)
  fs_unreach : bool;         (* Unreachable *)
  fs_meta : gomap;           (* Metadata *)
  fs_labels : gomap;         (* Labels *)
  fs_checksum : N            (* Checksum *)
}.

Global Instance fstate_eq_dec : EqDecision fstate.
Proof. solve_decision. Defined.

(** newNodeState(id, clusterName, address) at wall-clock [now]: both maps are EMPTY NON-NIL maps *)
Definition f_new_node_state (id cluster addr : list N) (now : Z) : fstate :=
  FState (new_node_state id addr now) cluster false (Some ∅) (Some ∅) 0.

(** n.Clone() as a value: every field copied.  (`if len(n.Metadata) > 0 { copy }`: a nil map stays nil,
    an empty map stays an empty non-nil map - its header is copied.) *)
Definition f_clone (s : fstate) : fstate := s.

(** n.IsNewerThan(o) with o possibly nil *)
Definition f_isnewer (n : fstate) (o : option fstate) : bool :=
  match o with
  | None => true
  | Some o => isnewer (fs_core n) (fs_core o)
  end.

(** * ClusterView, all 10 fields *)
Notation fmembers := (gmap (list N) (option fstate)).     (* [Some None] = a nil *NodeState entry *)

Record fview := FView {
  fv_id : list N;                  (* ViewID *)
  fv_members : option fmembers;    (* [None] = nil map *)
  fv_epoch : Z;
  fv_ts : Z;
  fv_healthy : N;
  fv_unhealthy : N;
  fv_quorum : N;
  fv_vv : vv;
  fv_proto : N;
  fv_maxent : Z
}.

Definition fv_map (v : fview) : fmembers := default ∅ (fv_members v).

(** the non-nil entries, core fields only: what recomputeCounts, the member loop's IsNewerThan and
    `len(activeNodes)` see *)
Definition erase_members (m : fmembers) : members := omap (fmap (M := option) fs_core) m.
Definition erase (v : fview) : view :=
  View (fv_epoch v) (fv_ts v) (erase_members (fv_map v)) (fv_healthy v) (fv_unhealthy v) (fv_quorum v)
       (fv_vv v) (fv_proto v) (fv_maxent v).

(** replace the base fields (everything but ViewID and Members) by those of [b] *)
Definition f_with_base (v : fview) (ms : option fmembers) (b : view) : fview :=
  FView (fv_id v) ms (vw_epoch b) (vw_ts b) (vw_healthy b) (vw_unhealthy b) (vw_quorum b)
        (vw_vv b) (vw_proto b) (vw_maxent b).

(** newClusterView() at clock [now] with ViewID [id] (a fresh UUID in the code), then
    MaxVersionVectorEntries = maxent *)
Definition f_new_view (id : list N) (now maxent : Z) : fview := FView id (Some ∅) 0 now 0 0 0 ∅ 1 maxent.

(** recomputeCounts: nil entries are skipped (not counted, not active) *)
Definition f_recompute (v : fview) : fview := f_with_base v (fv_members v) (recompute (erase v)).

(** AddMember(member), member non-nil; `v.Members == nil` makes the map first (also on the early return) *)
Definition f_add (v : fview) (s : fstate) : fview :=
  let m := fv_map v in
  let k := ns_id (fs_core s) in
  let keep := f_with_base v (Some m) (erase v) in
  match m !! k with
  | Some e => if f_isnewer s e
              then f_recompute (f_with_base v (Some (<[k := Some (f_clone s)]> m)) (erase v))
              else keep
  | None => f_recompute (f_with_base v (Some (<[k := Some (f_clone s)]> m)) (erase v))
  end.

(** RemoveMember(nodeID): a nil entry is removed too (`_, ok := v.Members[nodeID]`) *)
Definition f_remove (v : fview) (id : list N) : fview :=
  match fv_map v !! id with
  | Some _ => f_recompute (f_with_base v (Some (delete id (fv_map v))) (erase v))
  | None => v
  end.

(** Snapshot() of a non-nil view: nil entries are dropped, a nil map becomes an empty map, every state
    is cloned, every other field copied *)
Definition f_snapshot (v : fview) : fview :=
  f_with_base v (Some (omap (fun e : option fstate => (fun s => Some (f_clone s)) <$> e) (fv_map v))) (erase v).

(** the member loop of MergeFromWithOptions at one key: [e] = v.Members[id] (absent / nil / state),
    [x] = other.Members[id] *)
Definition f_pick (e x : option (option fstate)) : option (option fstate) :=
  match x with
  | Some (Some xs) =>
      match e with
      | Some es => if f_isnewer xs es then Some (Some (f_clone xs)) else e
      | None => Some (Some (f_clone xs))
      end
  | _ => e            (* id absent from other, or `if otherState == nil { continue }` *)
  end.
Definition f_merge_members (a o : fmembers) : fmembers := merge f_pick a o.

(** the body of MergeFromWithOptions after the `len(other.Members) == 0` test, on core views: literally
    the [let] block of [View.view_merge_gen false] (see ViewFullProofs.view_merge_body) *)
Definition merge_body (skew strat now : Z) (v o : view) : view * bool :=
  let concurrent := is_concurrent (vw_vv v) (vw_vv o) in
  let ch_m := members_changed (vw_members v) (vw_members o) in
  let before_vv := vw_vv v in
  let v1 := recompute (set_members v (merge_members (vw_members v) (vw_members o))) in
  let mvv := vmerge (vw_vv v1) (vw_vv o) in
  let ch_v := negb (is_equal mvv before_vv) in
  let adopt := negb (skew_skip skew now (vw_ts o)) && negb (concurrent && (strat =? 1)%Z) in
  let up_e := adopt && (vw_epoch v <? vw_epoch o)%Z in
  let up_t := adopt && (vw_ts v <? vw_ts o)%Z in
  let up_p := vw_proto v <? vw_proto o in
  (View (if up_e then vw_epoch o else vw_epoch v)
        (if up_t then vw_ts o else vw_ts v)
        (vw_members v1) (vw_healthy v1) (vw_unhealthy v1) (vw_quorum v1)
        mvv
        (if up_p then vw_proto o else vw_proto v)
        (vw_maxent v),
   ch_m || ch_v || up_e || up_t || up_p).

(** v.MergeFromWithOptions(o, opts) for a non-nil o (a nil `other` returns false at once) *)
Definition f_merge (skew strat now : Z) (v o : fview) : fview * bool :=
  match fv_members o with
  | None => (v, false)                                           (* other.Members == nil *)
  | Some om =>
      if bool_decide (size om = 0%nat) then (v, false)           (* len(other.Members) == 0 *)
      else
        let r := merge_body skew strat now (erase v) (erase o) in
        (f_with_base v (Some (f_merge_members (fv_map v) om)) (fst r), snd r)
  end.

(** * nil-free views: what every operation of the code produces from nil-free views, and what the
    reader of the wire format produces (it never inserts a nil entry and always makes the map) *)
Definition nonil (v : fview) : Prop :=
  exists m, fv_members v = Some m /\ forall k, m !! k <> Some None.

(** * merge expressions over complete views *)
Inductive fmexp :=
| FLeaf (v : fview)
| FNode (skew strat now : Z) (l r : fmexp).
Fixpoint feval (e : fmexp) : fview :=
  match e with
  | FLeaf v => v
  | FNode skew strat now l r => fst (f_merge skew strat now (feval l) (feval r))
  end.
Fixpoint fleaves (e : fmexp) : list fview :=
  match e with
  | FLeaf v => [v]
  | FNode _ _ _ l r => fleaves l ++ fleaves r
  end.
Fixpoint ferase (e : fmexp) : mexp :=
  match e with
  | FLeaf v => MLeaf (erase v)
  | FNode skew strat now l r => MNode skew strat now (ferase l) (ferase r)
  end.
