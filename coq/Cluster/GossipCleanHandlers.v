(** The handlers of the NodeActor on a node of a clean world: what each leaves behind ([npre]). *)
From Coq Require Import List NArith ZArith Lia Bool.
From Coq Require Import ZifyN ZifyNat ZifyBool.
From stdpp Require Import gmap.
From Vivid Require Import Codec.Prim Cluster.VV Cluster.VVProofs Cluster.View Cluster.ViewProofs
  Cluster.Gossip Cluster.GossipProofs Cluster.GossipClean Cluster.GossipCleanOps Cluster.GossipCleanInv
  Cluster.GossipCleanStep Cluster.GossipCleanWorld.
Local Open Scope N_scope.

(** the node a handler starts from satisfies [npre] itself *)
Lemma npre_self G w a n : cinv G w -> w_nodes w !! a = Some n -> npre G w n n.
Proof.
  intros Hc Ha. destruct (ci_nodes _ _ Hc a n Ha) as [N1 N2 N3 N4 N5 N6 N7 N8 N9 N10 N11 N12]. split; try assumption; try reflexivity.
  - rewrite N5, N1. reflexivity.
  - apply vinv_vinv0. exact N9.
  - apply vown_vown'. apply N9.
  - apply vle_refl.
  - intros k. eapply (ci_cnt _ _ Hc); exact Ha.
Qed.

(** [npre] only looks at these components of the node *)
Lemma npre_ext G w n n1 n2 :
  npre G w n n1 ->
  nd_cfg n2 = nd_cfg n1 -> nd_self n2 = nd_self n1 -> nd_view n2 = nd_view n1 -> nd_fd_on n2 = nd_fd_on n1 ->
  nd_gossip_on n2 = nd_gossip_on n1 -> nd_retry_on n2 = nd_retry_on n1 ->
  (forall t q, nd_last n2 !! t = Some q -> nd_last n1 !! t = Some q) ->
  npre G w n n2.
Proof.
  intros [P1 P2 P3 P4 P5 P6 P7 P8 P9 P10 P11] E1 E2 E3 E4 E5 E6 E7.
  split; rewrite ?E1, ?E2, ?E3, ?E4, ?E5, ?E6; try assumption.
  intros t q Hq. apply P9. apply E7. exact Hq.
Qed.

(** publish_leader; broadcast *)
Lemma npre_finish G w n n1 n2 evs n3 out :
  npre G w n n1 -> publish_leader n1 = (n2, evs) -> broadcast n2 = (n3, out) ->
  npre G w n n3 /\ (forall d v, (d, v) ∈ out -> v = nd_view n3) /\ nd_view n3 = nd_view n1 /\
  nd_gossip_on n3 = nd_gossip_on n1 /\ nd_retry_on n3 = nd_retry_on n1 /\ nd_self n3 = nd_self n1 /\ nd_cfg n3 = nd_cfg n1.
Proof.
  intros Hp Ep Eb.
  destruct (publish_node n1) as (A1 & A2 & A3 & A4 & A5 & A6 & A7). rewrite Ep in A1, A2, A3, A4, A5, A6, A7. cbn [fst] in *.
  destruct (broadcast_node n2) as (B1 & B2 & B3 & B4 & B5 & B6 & B7). rewrite Eb in B1, B2, B3, B4, B5, B6, B7. cbn [fst] in *.
  split; [|split; [|repeat split; congruence]].
  - eapply npre_ext; [exact Hp|congruence..|].
    intros t q Hq. rewrite B4 in Hq. apply prune_last_sub in Hq. rewrite A4 in Hq. exact Hq.
  - intros d v H. change out with (snd (n3, out)) in H. rewrite <- Eb in H. apply broadcast_payload in H. congruence.
Qed.

(** * GossipTick *)
Lemma gossip_tick_npre G w a n :
  cinv G w -> w_nodes w !! a = Some n ->
  npre G w n (fst (fst (gossip_tick n))) /\ (forall d v, (d, v) ∈ snd (fst (gossip_tick n)) -> v = nd_view (fst (fst (gossip_tick n)))).
Proof.
  intros Hc Ha. split.
  - rewrite gossip_tick_node. eapply npre_ext; [eapply npre_self; eassumption|reflexivity..|]. apply prune_last_sub.
  - intros d v H. rewrite gossip_tick_view. eapply gossip_tick_payload; exact H.
Qed.

(** * handleGossip *)
Lemma handle_gossip_fields n src v now choice :
  let n' := fst (fst (handle_gossip n src v now choice)) in
  nd_self n' = nd_self n /\ nd_gossip_on n' = nd_gossip_on n /\ nd_fd_on n' = nd_fd_on n /\ nd_retry_on n' = nd_retry_on n /\
  forall t q, nd_last n' !! t = Some q -> nd_last n !! t = Some q \/ (t = src /\ q = vw_vv v).
Proof.
  cbn zeta. unfold handle_gossip.
  set (n1 := if nonempty src then _ else n).
  assert (F1 : nd_self n1 = nd_self n /\ nd_gossip_on n1 = nd_gossip_on n /\ nd_fd_on n1 = nd_fd_on n /\ nd_retry_on n1 = nd_retry_on n /\
               forall t q, nd_last n1 !! t = Some q -> nd_last n !! t = Some q \/ (t = src /\ q = vw_vv v)).
  { unfold n1. destruct (nonempty src); cbn; repeat split; auto.
    intros t q Hq. destruct (decide (t = src)) as [->|Hne]; [rewrite lookup_insert in Hq; injection Hq as <-; auto|].
    rewrite lookup_insert_ne in Hq by congruence. auto. }
  set (n2 := match choice with Some _ => _ | None => _ end).
  assert (F2 : nd_self n2 = nd_self n1 /\ nd_gossip_on n2 = nd_gossip_on n1 /\ nd_fd_on n2 = nd_fd_on n1 /\ nd_retry_on n2 = nd_retry_on n1 /\
               nd_last n2 = nd_last n1).
  { unfold n2. destruct choice; [destruct (nonempty src)|]; cbn; repeat split; reflexivity. }
  destruct F1 as (A1 & A2 & A3 & A4 & A5). destruct F2 as (B1 & B2 & B3 & B4 & B5).
  destruct (view_merge 0 0 now (nd_view n2) v) as [v' ch]. destruct ch.
  - destruct (publish_leader (set_view n2 v')) as [n4 evs] eqn:Ep. destruct (broadcast n4) as [n5 out] eqn:Eb. cbn [fst].
    destruct (publish_node (set_view n2 v')) as (C1 & C2 & C3 & C4 & C5 & C6 & C7). rewrite Ep in C1, C2, C3, C4, C5, C6, C7. cbn [fst] in *.
    destruct (broadcast_node n4) as (D1 & D2 & D3 & D4 & D5 & D6 & D7). rewrite Eb in D1, D2, D3, D4, D5, D6, D7. cbn [fst] in *.
    cbn in C2, C4, C5, C6, C7.
    repeat split; try congruence.
    intros t q Hq. rewrite D4 in Hq. apply prune_last_sub in Hq. rewrite C4, B5 in Hq. apply A5. exact Hq.
  - cbn [fst]. cbn. repeat split; try congruence. all: try (intros t q Hq; rewrite B5 in Hq; apply A5; exact Hq).
Qed.

Lemma gossip_pre_vv n src v now choice : vw_vv (gossip_pre n src v now choice) = vw_vv (nd_view n).
Proof. unfold gossip_pre. destruct choice; [destruct (nonempty src)|]; try reflexivity. Qed.

Lemma gossip_pre_vinv0 G w n src v now choice : vinv0 G w (nd_view n) -> vinv0 G w (gossip_pre n src v now choice).
Proof. intros H. unfold gossip_pre. destruct choice; [destruct (nonempty src)|]; try exact H. apply vinv0_refresh. exact H. Qed.

Lemma gossip_pre_keys n src v now choice k :
  is_Some (vw_members (nd_view n) !! k) -> is_Some (vw_members (gossip_pre n src v now choice) !! k).
Proof.
  intros H. unfold gossip_pre. destruct choice; [destruct (nonempty src)|]; try exact H.
  destruct (nd_view n); cbn in *. apply lookup_alter_is_Some. exact H.
Qed.

Lemma handle_gossip_npre G w a n p now choice :
  cinv G w -> nodes_cap w -> w_nodes w !! a = Some n -> p ∈ w_net w ->
  let r := handle_gossip n (p_src p) (p_view p) now choice in
  npre G w n (fst (fst r)) /\ (forall d v, (d, v) ∈ snd (fst r) -> v = nd_view (fst (fst r))).
Proof.
  intros Hc Hcap Ha Hp. cbn zeta.
  destruct (ci_nodes _ _ Hc a n Ha) as [N1 N2 N3 N4 N5 N6 N7 N8 N9 N10 N11 N12].
  destruct (ci_net _ _ Hc p Hp) as (Pv & m & Hm & Pl).
  destruct (handle_gossip_fields n (p_src p) (p_view p) now choice) as (F1 & F2 & F3 & F4 & F5).
  pose proof (ci_uniq _ _ Hc) as Hu.
  assert (V0 : vinv0 G w (gossip_pre n (p_src p) (p_view p) now choice)) by (apply gossip_pre_vinv0, vinv_vinv0; exact N9).
  assert (P0 : vinv0 G w (p_view p)) by (apply vinv_vinv0; exact Pv).
  split; [|intros d v H; eapply handle_gossip_payload; exact H].
  split.
  - apply handle_gossip_cfg.
  - rewrite F1. exact N3.
  - rewrite F1. exact N4.
  - rewrite F1, N5, N1. reflexivity.
  - rewrite F3. exact N8.
  - rewrite handle_gossip_view. apply vinv0_merge; assumption.
  - rewrite handle_gossip_view. eapply vown'_merge; try eassumption.
    + intros k Hk. rewrite gossip_pre_vv in Hk |- *. right. apply N9. exact Hk.
    + apply vown_vown'. apply Pv.
  - rewrite handle_gossip_view. intros k. rewrite (vinv0_merge_vget G w) by assumption. rewrite gossip_pre_vv. lia.
  - intros t q Hq. destruct (F5 t q Hq) as [Ho|[-> ->]]; [apply N10; exact Ho|]. exists m. split; [exact Hm|exact Pl].
  - rewrite F2, F4. intros Hg. destruct (N11 Hg) as [R1 R2]. split; [exact R1|].
    rewrite handle_gossip_view. destruct (gossip_pre_keys n (p_src p) (p_view p) now choice _ R2) as [s Hs].
    destruct (merge_lookup_ge_l _ (p_view p) now _ _ (v0_wf _ _ _ V0) (v0_wf _ _ _ P0) Hs) as (s' & Hs' & _). eexists; exact Hs'.
  - intros k. rewrite handle_gossip_view, (vinv0_merge_vget G w) by assumption. rewrite gossip_pre_vv.
    pose proof (ci_cnt _ _ Hc a n k Ha). pose proof (ci_cnt _ _ Hc _ m k Hm). specialize (Pl k). lia.
Qed.

(** * A local change: AddMember(s); IncrementVersion(own id) *)
Lemma truthful_insert w v s :
  truthful w v -> ns_status s = st_up -> (exists m, w_nodes w !! ns_addr s = Some m /\ nd_id m = ns_id s) ->
  truthful w (set_members v (<[ns_id s := s]> (vw_members v))).
Proof.
  intros Ht Hu Hm k x Hk. destruct v; cbn in *. destruct (decide (k = ns_id s)) as [->|Hne].
  - rewrite lookup_insert in Hk. injection Hk as <-. split; [exact Hu|exact Hm].
  - rewrite lookup_insert_ne in Hk by congruence. apply (Ht k x Hk).
Qed.

Lemma truthful_add w v s :
  truthful w v -> ns_status s = st_up -> (exists m, w_nodes w !! ns_addr s = Some m /\ nd_id m = ns_id s) ->
  truthful w (view_add v s).
Proof.
  intros Ht Hu Hm k x Hk. apply view_add_lookup_cases in Hk as [Hk|[-> ->]]; [apply (Ht k x Hk)|split; assumption].
Qed.

Lemma local_add G w a n s :
  cinv G w -> nodes_cap w -> N.of_nat (length G) < max_counter -> w_nodes w !! a = Some n ->
  wf_state s -> ns_status s = st_up -> (exists m, w_nodes w !! ns_addr s = Some m /\ nd_id m = ns_id s) ->
  is_Some (vw_members (view_add (nd_view n) s) !! nd_id n) ->
  let v2 := view_inc (view_add (nd_view n) s) (nd_id n) in
  let c := vget (vw_vv (nd_view n)) (nd_id n) + 1 in
  let G' := G ++ [GEnt (nd_id n) c (ns_id s) (inc_of s)] in
  vinv0 G' w v2 /\ vown' w (nd_id n) v2 /\ vget (vw_vv v2) (nd_id n) = c /\
  (forall k, k <> nd_id n -> vget (vw_vv v2) k = vget (vw_vv (nd_view n)) k) /\
  vw_members v2 = vw_members (view_add (nd_view n) s).
Proof.
  intros Hc Hcap Hlen Ha Hs Hu Hm Hself. cbn zeta.
  destruct (ci_nodes _ _ Hc a n Ha) as [N1 N2 N3 N4 N5 N6 N7 N8 N9 N10 N11 N12].
  destruct N9 as [Wv Iv Tv Jv Cv Ov Ev Pv Mv CCv].
  set (v := nd_view n) in *. set (id := nd_id n) in *. set (va := view_add v s).
  assert (Hcapi : capN (<[ns_id s := s]> (vw_members v))).
  { pose proof (truthful_capN w _ (truthful_insert w v s Tv Hu Hm) (ci_uniq _ _ Hc) Hcap) as H. destruct v; exact H. }
  assert (Eva : vw_vv va = vw_vv v) by (apply view_add_vv; assumption).
  destruct (view_add_fields v s) as (F1 & F2 & F3 & F4). fold va in F1, F2, F3, F4.
  assert (Hcnt : vget (vw_vv va) id < max_counter).
  { rewrite Eva. pose proof (ci_cnt _ _ Hc a n id Ha). fold v in H. lia. }
  destruct (view_inc_spec va id N7 Hcnt) as (I1 & I2 & I3 & I4 & I5 & I6 & _).
  assert (Hid : vget (vw_vv (view_inc va id)) id = vget (vw_vv v) id + 1).
  { rewrite I1, vget_insert, decide_True by reflexivity. rewrite Eva. reflexivity. }
  assert (Hoth : forall k, k <> id -> vget (vw_vv (view_inc va id)) k = vget (vw_vv v) k).
  { intros k Hk. rewrite I1, vget_insert, decide_False by exact Hk. rewrite Eva. reflexivity. }
  destruct (local_just_cover G v (view_inc va id) s id (vget (vw_vv v) id + 1)) as [Jn Cn]; try assumption.
  - rewrite Hid. lia.
  - symmetry. exact Hid.
  - intros e0 He0 Ei. destruct (ci_log _ _ Hc e0 He0) as (_ & b & m & Hb & Hidm & Hle).
    assert (b = a) by (eapply (ci_uniq _ _ Hc); [exact Hb|exact Ha|rewrite Hidm, Ei; reflexivity]). subst b. rewrite Ha in Hb. injection Hb as <-.
    rewrite Ei in Hle. exact Hle.
  - split; [|split; [|split; [exact Hid|split; [exact Hoth|exact I2]]]].
    + split.
      * apply WF_inc, WF_add; assumption.
      * apply VVin_inc; [apply VVin_add; exact Iv|exact Hself].
      * intros k x Hk. rewrite I2 in Hk. apply (truthful_add w v s Tv Hu Hm k x Hk).
      * exact Jn.
      * exact Cn.
      * congruence.
      * congruence.
      * congruence.
      * apply view_inc_CC, view_add_CC; [exact CCv|eapply truthful_all_up; exact Tv|exact Hu].
    + intros k Hpos. destruct (decide (k = id)) as [->|Hne]; [left; reflexivity|right].
      rewrite Hoth in Hpos |- * by exact Hne. apply Ov. exact Hpos.
Qed.

(** the conditions on the new log entries that [cinv_upd] asks for *)
Definition log_grows (G G' : glog) (n n' : node) : Prop :=
  (forall e, e ∈ G -> e ∈ G') /\ (length G <= length G')%nat /\
  forall e, e ∈ G' -> e ∈ G \/
    (g_i e = nd_id n /\ vget (vw_vv (nd_view n)) (nd_id n) < g_c e /\ g_c e <= vget (vw_vv (nd_view n')) (nd_id n)).

Lemma log_grows_refl G n n' : log_grows G G n n'.
Proof. split; [auto|]. split; [lia|]. intros e H. left. exact H. Qed.

Lemma log_grows_view G G' n n1 n2 : log_grows G G' n n1 -> nd_view n2 = nd_view n1 -> log_grows G G' n n2.
Proof. intros (H1 & H2 & H3) E. split; [exact H1|]. split; [exact H2|]. rewrite E. exact H3. Qed.

Lemma start_loops_fields n :
  nd_cfg (start_loops n) = nd_cfg n /\ nd_self (start_loops n) = nd_self n /\ nd_view (start_loops n) = nd_view n /\
  nd_last (start_loops n) = nd_last n /\ nd_gossip_on (start_loops n) = true /\
  nd_fd_on (start_loops n) = (0 <? c_fd (nd_cfg n))%Z /\ nd_retry_on (start_loops n) = false.
Proof. repeat split; reflexivity. Qed.

Lemma publish_pub n : pub_ok (fst (publish_leader n)).
Proof.
  unfold publish_leader, pub_ok. cbn [fst nd_leader nd_inq nd_view set_pub]. split; [|reflexivity].
  destruct (negb (bool_decide (leader_of (nd_view n) = nd_leader n)) || negb (eqb (sat_quorum (nd_view n)) (nd_inq n))) eqn:E; [reflexivity|].
  apply orb_false_iff in E as [E _]. apply negb_false_iff, bool_decide_eq_true in E. symmetry. exact E.
Qed.

Lemma pub_ok_ext n n' : pub_ok n -> nd_view n' = nd_view n -> nd_leader n' = nd_leader n -> nd_inq n' = nd_inq n -> pub_ok n'.
Proof. intros [H1 H2] E1 E2 E3. unfold pub_ok. rewrite E1, E2, E3. auto. Qed.

(** publish_leader; broadcast; (start the loops): the world after the handler *)
Lemma finish_cinv G G' w a n n1 n2 evs n3 out (loops : bool) :
  cinv G w -> w_nodes w !! a = Some n -> npre G' w n n1 -> log_grows G G' n n1 ->
  publish_leader n1 = (n2, evs) -> broadcast n2 = (n3, out) ->
  (loops = true -> is_Some (vw_members (nd_view n1) !! nd_id n)) ->
  let nf := if loops then start_loops n3 else n3 in
  cinv G' (upd w nf out) /\ wext w (upd w nf out) /\ nd_addr nf = a /\ nd_view nf = nd_view n1 /\ nd_self nf = nd_self n1 /\
  forall S, rinv S w -> rinv (a :: S) (upd w nf out).
Proof.
  intros Hc Ha Hp Hl Ep Eb Hloops. cbn zeta.
  destruct (npre_finish G' w n n1 n2 evs n3 out Hp Ep Eb) as (Hp3 & Hout & Ev & Eg & Er & Es & Ec).
  pose proof (ci_nodes _ _ Hc a n Ha) as Hn.
  assert (Hpf : npre G' w n (if loops then start_loops n3 else n3)).
  { destruct loops; [|exact Hp3]. destruct Hp3 as [P1 P2 P3 P4 P5 P6 P7 P8 P9 P10 P11].
    destruct (start_loops_fields n3) as (S1 & S2 & S3 & S4 & S5 & S6 & S7).
    split; rewrite ?S1, ?S2, ?S3, ?S4; try assumption.
    - rewrite S6, P1. pose proof (ni_fd _ _ _ _ Hn). lia.
    - intros _. rewrite S7. split; [reflexivity|]. rewrite Ev. apply Hloops. reflexivity. }
  set (nf := if loops then start_loops n3 else n3) in *.
  assert (Evf : nd_view nf = nd_view n1) by (unfold nf; destruct loops; exact Ev).
  assert (Ecf : nd_cfg nf = nd_cfg n2).
  { destruct (broadcast_node n2) as (B1 & _). rewrite Eb in B1. cbn [fst] in B1. unfold nf. destruct loops; exact B1. }
  assert (Elf : nd_last nf = nd_last (prune_last n2)).
  { destruct (broadcast_node n2) as (_ & _ & _ & B4 & _). rewrite Eb in B4. cbn [fst] in B4. unfold nf. destruct loops; exact B4. }
  assert (Ev2 : nd_view n2 = nd_view n1).
  { destruct (publish_node n1) as (_ & _ & A3 & _). rewrite Ep in A3. exact A3. }
  destruct Hl as (L1 & L2 & L3).
  assert (Hpub : pub_ok nf).
  { pose proof (publish_pub n1) as Hpp. rewrite Ep in Hpp. cbn [fst] in Hpp.
    apply (pub_ok_ext n2); [exact Hpp| | |].
    - rewrite Evf. symmetry. exact Ev2.
    - unfold nf. destruct loops; unfold broadcast in Eb; injection Eb as <- _; reflexivity.
    - unfold nf. destruct loops; unfold broadcast in Eb; injection Eb as <- _; reflexivity. }
  destruct (cinv_upd G G' w a n nf out Hc Ha Hpf Hpub L1 L2) as (R1 & R2 & R3).
  - rewrite Evf. exact L3.
  - intros d v Hd. rewrite Evf, <- Ev. apply (Hout d v Hd).
  - split; [exact R1|]. split; [exact R2|]. split; [exact R3|]. split; [exact Evf|]. split; [unfold nf; destruct loops; exact Es|].
    intros S Hr. eapply (rinv_upd S (a :: S) w w a n nf out); try eassumption; try reflexivity.
    + intros q Hq. left. exact Hq.
    + apply (np_vle _ _ _ _ Hpf).
    + intros t q m Hq Hm. pose proof (ci_nodes _ _ R1 a nf) as Hnf.
      assert (Haf : w_nodes (upd w nf out) !! a = Some nf) by (rewrite lookup_upd_nodes, R3, decide_True by reflexivity; reflexivity).
      destruct (ni_last _ _ _ _ (Hnf Haf) t q Hq) as (m' & Hm' & Hle). rewrite Hm in Hm'. injection Hm' as <-. exact Hle.
    + intros b Hb. apply elem_of_cons in Hb as [->|Hb]; auto.
    + right. intros t Ht.
      assert (Ht2 : t ∈ select_targets n2) by (rewrite (select_targets_ext n2 nf); [exact Ht|symmetry; exact Ecf|rewrite Evf; exact Ev2]).
      destruct (broadcast_covers n2 t Ht2) as [Hin|(q & Hq & Hle)].
      * left. rewrite Eb in Hin. cbn [snd] in Hin. rewrite Evf, <- Ev2. exact Hin.
      * right. exists q. split; [rewrite Elf, (prune_keeps_target n2 t Ht2); exact Hq|rewrite Evf, <- Ev2; exact Hle].
Qed.

(** * the node leaves a local change behind: set_view (set_self n self') v2 *)
Lemma npre_local G G' w a n self' v2 :
  cinv G w -> w_nodes w !! a = Some n ->
  wf_state self' -> ns_id self' = nd_id n -> ns_addr self' = a ->
  vinv0 G' w v2 -> vown' w (nd_id n) v2 -> vle (vw_vv (nd_view n)) (vw_vv v2) ->
  (nd_gossip_on n = true -> is_Some (vw_members v2 !! nd_id n)) ->
  (forall k, vget (vw_vv v2) k <= N.of_nat (length G')) ->
  npre G' w n (set_view (set_self n self') v2).
Proof.
  intros Hc Ha Hw Hi Had Hv Ho Hle Hj Hcnt.
  destruct (ci_nodes _ _ Hc a n Ha) as [N1 N2 N3 N4 N5 N6 N7 N8 N9 N10 N11 N12].
  split; cbn; try assumption; try reflexivity.
  - rewrite Had, N1. reflexivity.
  - intros Hg. destruct (N11 Hg) as [R1 _]. split; [exact R1|apply Hj; exact Hg].
Qed.

(** * the publisher memory through handleGossip *)
Lemma elem_up_addrs v ad :
  ad ∈ up_addrs v <-> exists k s, vw_members v !! k = Some s /\ ns_status s = st_up /\ ns_addr s <> [] /\ ns_addr s = ad.
Proof.
  unfold up_addrs, states. rewrite elem_of_list_In, in_map_iff. split.
  - intros (s & <- & Hin). apply filter_In in Hin as [Hin Hup]. apply elem_of_list_In, elem_of_list_fmap in Hin as ([k s'] & -> & Hk).
    apply elem_of_map_to_list in Hk. unfold is_up_addr in Hup. apply andb_true_iff in Hup as [H1 H2].
    apply negb_true_iff, bool_decide_eq_false in H2. apply Z.eqb_eq in H1. exists k, s'. cbn [snd]. repeat split; auto.
  - intros (k & s & Hk & Hu & Hne & <-). exists s. split; [reflexivity|]. apply filter_In. split.
    + apply elem_of_list_In, elem_of_list_fmap. exists (k, s). split; [reflexivity|]. apply elem_of_map_to_list. exact Hk.
    + unfold is_up_addr. rewrite Hu. cbn. apply negb_true_iff, bool_decide_eq_false. exact Hne.
Qed.

Lemma gossip_pre_up_addrs n src v now choice :
  all_up (vw_members (nd_view n)) -> forall ad, ad ∈ up_addrs (gossip_pre n src v now choice) <-> ad ∈ up_addrs (nd_view n).
Proof.
  intros Hu ad. unfold gossip_pre. destruct choice as [id|]; [destruct (nonempty src)|]; try reflexivity.
  rewrite !elem_up_addrs. destruct (nd_view n) as [ep ts ms h u q vx pr mx]; cbn [vw_members set_members] in *. split.
  - intros (k & s & Hk & H1 & H2 & H3). rewrite refresh_lookup in Hk. destruct (decide (k = id)) as [->|Hne]; [|exists k, s; auto].
    destruct (ms !! id) as [s0|] eqn:E; [|discriminate]. cbn in Hk. injection Hk as <-. exists id, s0. cbn in H2, H3. repeat split; auto. apply (Hu id s0 E).
  - intros (k & s & Hk & H1 & H2 & H3). destruct (decide (k = id)) as [->|Hne].
    + exists id, (ns_refresh s now). rewrite refresh_lookup, decide_True by reflexivity. rewrite Hk. cbn. repeat split; auto. rewrite H1. reflexivity.
    + exists k, s. rewrite refresh_lookup, decide_False by exact Hne. auto.
Qed.

Lemma gossip_pre_size n src v now choice : size (vw_members (gossip_pre n src v now choice)) = size (vw_members (nd_view n)).
Proof.
  unfold gossip_pre. destruct choice as [id|]; [destruct (nonempty src)|]; try reflexivity.
  destruct (nd_view n); cbn. rewrite <- !size_dom, dom_alter_L. reflexivity.
Qed.

Lemma handle_gossip_pub G w a n p now choice :
  cinv G w -> nodes_cap w -> w_nodes w !! a = Some n -> p ∈ w_net w ->
  pub_ok (fst (fst (handle_gossip n (p_src p) (p_view p) now choice))).
Proof.
  intros Hc Hcap Ha Hp.
  destruct (handle_gossip_npre G w a n p now choice Hc Hcap Ha Hp) as [Hpre _].
  pose proof (np_view _ _ _ _ Hpre) as V'.
  pose proof (handle_gossip_view n (p_src p) (p_view p) now choice) as Hview.
  destruct (ci_nodes _ _ Hc a n Ha) as [N1 N2 N3 N4 N5 N6 N7 N8 N9 N10 N11 N12].
  revert V' Hview. unfold handle_gossip.
  set (n1 := if nonempty (p_src p) then _ else n).
  assert (F1 : nd_leader n1 = nd_leader n /\ nd_inq n1 = nd_inq n /\ nd_view n1 = nd_view n) by (unfold n1; destruct (nonempty (p_src p)); auto).
  destruct F1 as (L1 & I1 & V1).
  set (n2 := match choice with Some _ => _ | None => _ end).
  assert (F2 : nd_leader n2 = nd_leader n /\ nd_inq n2 = nd_inq n /\ nd_view n2 = gossip_pre n (p_src p) (p_view p) now choice).
  { unfold n2, gossip_pre. destruct choice; [destruct (nonempty (p_src p))|]; cbn; rewrite ?V1; auto. }
  destruct F2 as (L2 & I2 & V2).
  pose proof (merge_changed_exact 0 0 now (nd_view n2) (p_view p)) as Hch.
  destruct (view_merge 0 0 now (nd_view n2) (p_view p)) as [v' ch] eqn:Em. cbn [fst snd] in Hch. destruct ch.
  - destruct (publish_leader (set_view n2 v')) as [n4 evs] eqn:Ep. destruct (broadcast n4) as [n5 out] eqn:Eb. cbn [fst]. intros _ _.
    pose proof (publish_pub (set_view n2 v')) as Hpp. rewrite Ep in Hpp. cbn [fst] in Hpp.
    unfold broadcast in Eb. injection Eb as <- _. exact Hpp.
  - cbn [fst]. intros V' Hview. cbn [nd_view set_view] in V', Hview.
    assert (Hm : vw_members v' = vw_members (nd_view n2)).
    { destruct (decide (vw_members v' = vw_members (nd_view n2))) as [E|N]; [exact E|]. exfalso.
      assert (false = true); [|discriminate]. apply Hch. left. exact N. }
    unfold pub_ok. cbn [nd_leader nd_inq nd_view set_view]. rewrite L2, I2. destruct N12 as [P1 P2]. rewrite P1, P2. split.
    + apply same_up_same_leader. intros ad. rewrite <- (gossip_pre_up_addrs n (p_src p) (p_view p) now choice) by (eapply truthful_all_up; apply N9).
      rewrite <- V2. rewrite !elem_up_addrs, Hm. reflexivity.
    + rewrite (CC_sat_quorum _ (vi_cc _ _ _ N9)), (CC_sat_quorum _ (v0_cc _ _ _ V')). rewrite Hm, V2, gossip_pre_size. reflexivity.
Qed.
