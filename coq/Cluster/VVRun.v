(** Executable entry point of the version-vector models for the correspondence check.
    ops 0-7: the functional model (Cluster/VV.v), one operation on fresh operands;
    op 8: a whole SESSION over one family of vector objects on the HEAP model (Cluster/VVHeap.v);
    op 9: a sequential script on one AtomicVersionVector (heap model);
    op 10: concurrent Increment loops on one AtomicVersionVector (Cluster/VVAtomic.v, round-robin schedule). *)
From Coq Require Import List NArith ZArith.
From stdpp Require Import gmap.
From Vivid Require Import Base.Tm Base.ResTm Codec.Prim Cluster.VV Cluster.VVHeap Cluster.VVAtomic.
Local Open Scope N_scope.

Definition get_vv (t : tm) : option vv :=
  match get_list (get_pair get_b get_n) t with
  | Some l => Some (list_to_map l)
  | None => None
  end.
Definition t_vv (v : vv) : tm := tlist (tpair TB TN) (ventries v).
Definition t_order (o : vorder) : tm :=
  TN (match o with VEqual => 0 | VBefore => 1 | VAfter => 2 | VConcurrent => 3 end).

(** the iteration oracle of the executable instance: the [t]-th range loop runs backwards when [t] is odd
    (any permutation would do: the theorems hold for every oracle satisfying [iter_ok]) *)
Definition run_iter (t : N) (m : vv) : list ent :=
  if N.odd t then rev (map_to_list m) else map_to_list m.

(** ** sessions (op 8) *)
Definition get_sop (t : tm) : option sop :=
  match t with
  | TL [TN 0; TN i; TB k] => Some (SInc i k)
  | TL [TN 1; TN i; TN j] => Some (SMerge i j)
  | TL [TN 2; TN i] => Some (SClone i)
  | TL [TN 3; TN i] => Some (SDecode i)
  | TL [TN 4; TN i] => Some (SCompact i)
  | TL [TN 5; TN i] => Some (SObserve i)
  | TL [TN 6; TN i; act; mx] =>
      match get_list get_b act, get_z mx with Some a, Some z => Some (SPrune i a z) | _, _ => None end
  | TL [TN 7; TN i; TN j] => Some (SCompare i j)
  | _ => None
  end.

Fixpoint first_alias (pool : list vobj) (l : loc) (idx : N) : option N :=
  match pool with
  | [] => None
  | o :: r => match o_m o with
              | Some l' => if l' =? l then Some idx else first_alias r l (idx + 1)
              | None => first_alias r l (idx + 1)
              end
  end.
(** what the harness can see of one vector object: its entries, WHICH earlier object of the pool it shares its
    map with (the index of the first one; its own index when it shares with none) and - when the struct still has
    the sorted-entries cache ([cache], told by the harness) - whether the cache field is nil and whether the cache
    counts as valid ([!dirty && entries != nil], the condition under which SortedEntries returns it) *)
Definition t_obj (cache : bool) (h : heap) (pool : list vobj) (o : vobj) : tm :=
  let ents_nil := match o_ents o with None => true | Some _ => false end in
  TL ([t_vv (omap h o);
       match o_m o with Some l => topt TN (first_alias pool l 0) | None => TL [] end]
      ++ (if cache then [tbool ents_nil; tbool (negb (o_dirty o) && negb ents_nil)] else [])).
Definition t_ents (es : list ent) : tm := tlist (tpair TB TN) es.
Definition t_sobs (cache : bool) (h : heap) (pool : list vobj) (ob : sobs) : tm :=
  match ob with
  | ONew v => TL [TN 0; t_obj cache h pool v]
  | OErr e => TL [TN 1; TN (err_code e)]
  | OOrder o => TL [TN 2; t_order o]
  | OEntries es => TL [TN 3; t_ents es]
  | OPruned v sl => TL [TN 4; t_obj cache h pool v; tlist TB sl]
  | OBad => TL [TN 5]
  end.
Fixpoint hrun_tm (cache : bool) (ops : list sop) (st : list vobj * heap) : (list vobj * heap) * list tm :=
  match ops with
  | [] => (st, [])
  | op :: r =>
      let '(st1, ob) := hstep run_iter op st in
      let t := t_sobs cache (snd st1) (fst st1) ob in
      let '(st2, ts) := hrun_tm cache r st1 in (st2, t :: ts)
  end.
Definition run_session (cache : bool) (init : list ent) (ops : list sop) : tm :=
  let '(v, h) := h_of_list init heap0 in
  let '((pool, h'), ts) := hrun_tm cache ops ([v], h) in
  TL [TL ts; TL (map (t_obj cache h' pool) pool)].

(** ** AtomicVersionVector scripts (op 9): sequential calls; [p] is the pointer the wrapper holds *)
Inductive aop : Type :=
| ALoad | AStore (es : list ent) | ACas (old new : list ent) | ACasCur (new : list ent)
| ACasInit (new : list ent)            (* old = the vector the wrapper was created with (stale after any write) *)
| AInc (k : key).
Definition get_ents (t : tm) : option (list ent) := get_list (get_pair get_b get_n) t.
Definition get_aop (t : tm) : option aop :=
  match t with
  | TL [TN 0] => Some ALoad
  | TL [TN 1; es] => match get_ents es with Some l => Some (AStore l) | None => None end
  | TL [TN 2; o; n] => match get_ents o, get_ents n with Some a, Some b => Some (ACas a b) | _, _ => None end
  | TL [TN 3; n] => match get_ents n with Some b => Some (ACasCur b) | None => None end
  | TL [TN 4; TB k] => Some (AInc k)
  | TL [TN 5; n] => match get_ents n with Some b => Some (ACasInit b) | None => None end
  | _ => None
  end.
Definition t_outcome {A} (f : A -> tm) (o : outcome A) : tm :=
  match o with ORet a => TL [TN 0; f a] | OFuel => TL [TN 2] end.
(** every step also shows the value the wrapper holds afterwards *)
Definition astep_tm (init : vobj) (p : loc) (op : aop) (h : heap) : (tm * loc) * heap :=
  let '((t, p'), h') :=
    match op with
    | ALoad => ((TL [TN 0], p), h)
    | AStore es => let '(v, h1) := h_of_list es h in let '(p1, h2) := a_store v h1 in ((TL [TN 0], p1), h2)
    | ACas o n =>
        let '(vo, h1) := h_of_list o h in let '(vn, h2) := h_of_list n h1 in
        let '((b, p1), h3) := a_cas run_iter p vo vn h2 in ((TL [TN 0; tbool b], p1), h3)
    | ACasCur n =>
        let '(vn, h1) := h_of_list n h in
        let '((b, p1), h2) := a_cas run_iter p (a_load p h1) vn h1 in ((TL [TN 0; tbool b], p1), h2)
    | ACasInit n =>
        let '(vn, h1) := h_of_list n h in
        let '((b, p1), h2) := a_cas run_iter p init vn h1 in ((TL [TN 0; tbool b], p1), h2)
    | AInc k =>
        let '((r, p1), h1) := a_inc run_iter 8 p k h in
        ((t_outcome (tres (fun v => t_vv (omap h1 v))) r, p1), h1)
    end in
  ((TL [t; t_vv (omap h' (a_load p' h'))], p'), h').
Fixpoint arun (init : vobj) (p : loc) (ops : list aop) (h : heap) : list tm :=
  match ops with
  | [] => []
  | op :: r => let '((t, p'), h') := astep_tm init p op h in t :: arun init p' r h'
  end.
Definition run_atomic (nil_init : bool) (init : list ent) (ops : list aop) : tm :=
  let '(v, h) := if nil_init then (zero_obj, heap0) else h_of_list init heap0 in
  let '(p, h1) := a_new v h in
  TL (t_vv (omap h1 (a_load p h1)) :: arun v p ops h1).

(** ** concurrent Increment loops (op 10): the model runs the small-step machine under a round-robin schedule; the
    result (final vector, per node the numbers of successful and failed calls) is the same under every schedule,
    which is what the implementation's real, uncontrolled schedule is compared with *)
Fixpoint dedup_sorted (l : list key) : list key :=
  match l with
  | [] => []
  | x :: r => match r with
              | [] => [x]
              | y :: _ => if bool_decide (x = y) then dedup_sorted r else x :: dedup_sorted r
              end
  end.
Definition run_concurrent (init : list ent) (ths : list (key * N)) : tm :=
  let ths0 := map (fun p => thread0 (fst p) (N.to_nat (snd p))) ths in
  let total := fold_right (fun p acc => N.to_nat (snd p) + acc)%nat 0%nat ths in
  match run_rr (3 * (total + 1) + 3)%nat (ths0, a_init (list_to_map init)) with
  | None => tm_err 2
  | Some (ths', s) =>
      let nodes := dedup_sorted (isort lex_le (map fst ths)) in
      TL [t_vv (as_value s);
          TL (map (fun k => TL [TB k;
                                TN (succ_on k ths');
                                TN (fold_right (fun t acc => (if bool_decide (t_node t = k) then N.of_nat (t_errs t) else 0) + acc) 0 ths')])
                  nodes)]
  end.

Definition run_vv (t : tm) : tm :=
  match t with
  | TL [TN 0; a; b] => match get_vv a, get_vv b with Some a, Some b => t_order (vcompare a b) | _, _ => tm_err 1 end
  | TL [TN 1; a; b] => match get_vv a, get_vv b with Some a, Some b => t_vv (vmerge a b) | _, _ => tm_err 1 end
  | TL [TN 2; a; TB k] => match get_vv a with Some a => tres t_vv (vinc a k) | _ => tm_err 1 end
  | TL [TN 3; a] => match get_vv a with Some a => t_vv (vcompact a) | _ => tm_err 1 end
  | TL [TN 4; a; act; mx] =>
      match get_vv a, get_list get_b act, get_z mx with
      | Some a, Some act, Some mx => t_vv (vprune_max a act mx) | _, _, _ => tm_err 1 end
  | TL [TN 5; a] => match get_vv a with Some a => tres TB (vwrite a) | _ => tm_err 1 end
  | TL [TN 6; TB bs] => tres (fun p => TL [t_vv (fst p); TN (N.of_nat (length bs - length (snd p)))]) (vread bs)
  | TL [TN 7; a; TB k] => match get_vv a with Some a => TN (vget a k) | _ => tm_err 1 end
  | TL [TN 8; cache; init; ops] =>
      match get_bool cache, get_ents init, get_list get_sop ops with
      | Some c, Some i, Some o => run_session c i o | _, _, _ => tm_err 1 end
  | TL [TN 9; nl; init; ops] =>
      match get_bool nl, get_ents init, get_list get_aop ops with
      | Some b, Some i, Some o => run_atomic b i o | _, _, _ => tm_err 1 end
  | TL [TN 10; init; ths] =>
      match get_ents init, get_list (get_pair get_b get_n) ths with
      | Some i, Some t => run_concurrent i t | _, _ => tm_err 1 end
  | _ => tm_err 0
  end.
