(** Executable entry point of the version-vector model for the correspondence check. *)
From Coq Require Import List NArith ZArith.
From stdpp Require Import gmap.
From Vivid Require Import Base.Tm Base.ResTm Codec.Prim Cluster.VV.
Local Open Scope N_scope.

Definition get_vv (t : tm) : option vv :=
  match get_list (get_pair get_b get_n) t with
  | Some l => Some (list_to_map l)
  | None => None
  end.
Definition t_vv (v : vv) : tm := tlist (tpair TB TN) (ventries v).
Definition t_order (o : vorder) : tm :=
  TN (match o with VEqual => 0 | VBefore => 1 | VAfter => 2 | VConcurrent => 3 end).

Definition run_vv (t : tm) : tm :=
  match t with
  | TL [TN 0; a; b] => match get_vv a, get_vv b with Some a, Some b => t_order (vcompare a b) | _, _ => tm_err 1 end
  | TL [TN 1; a; b] => match get_vv a, get_vv b with Some a, Some b => t_vv (vmerge a b) | _, _ => tm_err 1 end
  | TL [TN 2; a; TB k] => match get_vv a with Some a => tres t_vv (vinc a k) | _ => tm_err 1 end
  | TL [TN 3; a] => match get_vv a with Some a => t_vv (vcompact a) | _ => tm_err 1 end
  | TL [TN 4; a; act; mx] =>
      match get_vv a, get_list get_b act, get_z mx with
      | Some a, Some act, Some mx => t_vv (vprune_max a act mx) | _, _, _ => tm_err 1 end
  | TL [TN 5; a] => match get_vv a with Some a => tres TB (vwrite a) | _ => tm_err 1 end
  | TL [TN 6; TB bs] => tres (fun p => TL [t_vv (fst p); TN (N.of_nat (length bs - length (snd p)))]) (vread bs)
  | TL [TN 7; a; TB k] => match get_vv a with Some a => TN (vget a k) | _ => tm_err 1 end
  | _ => tm_err 0
  end.
