(** Concrete executions around the clean class: an instance of the hypotheses of the convergence theorem (self-seeded
    islands bridged by a node that lists both seeds), the two remaining excluded classes - a crash that nothing
    detects, seed lists that do not connect - and characterisations of the failure-detector thresholds and of the
    default quorum rule. *)
From Coq Require Import List NArith ZArith Lia Bool.
From Coq Require Import ZifyN ZifyNat ZifyBool.
From stdpp Require Import gmap.
From Vivid Require Import Codec.Prim Cluster.VV Cluster.VVProofs Cluster.View Cluster.ViewProofs
  Cluster.Gossip Cluster.GossipProofs Cluster.GossipClean Cluster.GossipCleanOps Cluster.GossipCleanInv
  Cluster.GossipCleanStep Cluster.GossipCleanWorld Cluster.GossipCleanHandlers Cluster.GossipCleanJoin
  Cluster.GossipCleanRun Cluster.GossipCleanRound Cluster.GossipCleanConv.
Local Open Scope N_scope.

(** * (i) self-seeded islands A = [A], B = [B]; C lists [A; B] and joins through A; D lists [B].  No fault at all.
    Before the round the views are {A,C}, {B,D}, {A,C}, {B,D}; nobody in A's island has a node of B's island in its view
    or among its seeds except C, whose seed B is NOT a member of its view: the islands meet only because the target
    selection keeps gossiping to configured seeds outside the view. *)
Definition ids_of (n : node) : list (list N) := map ns_id (states (nd_view n)).

Definition wi_P (w1 : world) (l1 : evlog) (w2 : world) (logs : list evlog) : bool :=
  clean_history (faults_of wi_play 1) && (length (rounds_of wi_play 1) =? 1)%nat &&
  (N.of_nat (size (w_nodes w1)) <=? max_entries) && (3 * N.of_nat (length (faults_of wi_play 1)) + 3 <? max_counter) &&
  all_joined_b w1 && bool_decide (w_net w1 = []) && seed_connected_b w2 &&
  bool_decide (map ids_of (nodes_of w1) = [[[65]; [67]]; [[66]; [68]]; [[65]; [67]]; [[66]; [68]]]) &&
  bool_decide (map ids_of (nodes_of w2) = [[[65]; [66]; [67]; [68]]; [[65]; [66]; [67]; [68]]; [[65]; [66]; [67]; [68]]; [[65]; [66]; [67]; [68]]]) &&
  converged_b w2.

Lemma wi_check :
  exists w1 l1 w2 logs,
    run empty_world (faults_of wi_play 1) = Some (w1, l1) /\
    fair_rounds w1 1050 50 (rounds_of wi_play 1) = Some (w2, logs) /\ wi_P w1 l1 w2 logs = true.
Proof. apply witness_intro. vm_compute. reflexivity. Qed.

(** * (g) a crash that nothing detects: failure detection off, s and j converge, j crashes; 30 fair rounds later s still
    lists j - for ever (every round is quiet) *)
Definition wj_P (w1 : world) (l1 : evlog) (w2 : world) (logs : list evlog) : bool :=
  (length (rounds_of wj_play 30) =? 30)%nat && negb (is_running w2 ad2) && (length (nodes_of w2) =? 1)%nat &&
  match w_nodes w2 !! ad1 with Some s => lists_id s [106] | None => false end &&
  negb (converged_b w2) && forallb quiet logs.
Lemma wj_check :
  exists w1 l1 w2 logs,
    run empty_world (faults_of wj_play 30) = Some (w1, l1) /\
    fair_rounds w1 1250 50 (rounds_of wj_play 30) = Some (w2, logs) /\ wj_P w1 l1 w2 logs = true.
Proof. apply witness_intro. vm_compute. reflexivity. Qed.

(** * (h) seed lists that do not connect: two self-seeded nodes, a clean history, everybody has joined - and nothing ever
    happens: the side condition [seed_connected] of the convergence theorem cannot be dropped *)
Definition wk_P (w1 : world) (l1 : evlog) (w2 : world) (logs : list evlog) : bool :=
  clean_history (faults_of wk_play 30) && (length (rounds_of wk_play 30) =? 30)%nat && all_joined_b w1 &&
  no_seed_edges_b w2 && is_running w2 ad1 && is_running w2 ad2 &&
  (length (nodes_of w2) =? 2)%nat && negb (converged_b w2) && forallb quiet logs &&
  bool_decide (map ids_of (nodes_of w2) = [[[65]]; [[66]]]).
Lemma wk_check :
  exists w1 l1 w2 logs,
    run empty_world (faults_of wk_play 30) = Some (w1, l1) /\
    fair_rounds w1 1050 50 (rounds_of wk_play 30) = Some (w2, logs) /\ wk_P w1 l1 w2 logs = true.
Proof. apply witness_intro. vm_compute. reflexivity. Qed.

(** * the same as propositions (what Properties/C18.v states) *)
Ltac split_andb H :=
  repeat match type of H with
         | (_ && _) = true => let H2 := fresh "P" in apply andb_true_iff in H as [H H2]
         end.

Lemma fair_rounds_one w t d r w2 logs :
  fair_rounds w t d [r] = Some (w2, logs) -> exists l, fair_round w t r = Some (w2, l).
Proof.
  cbn [fair_rounds]. destruct (fair_round w t r) as [[wa la]|]; [|discriminate]. intros [= <- _]. exists la. reflexivity.
Qed.

Lemma wi_example :
  exists w0 l0 r w1 l1,
    clean_history (faults_of wi_play 1) = true /\ run empty_world (faults_of wi_play 1) = Some (w0, l0) /\
    N.of_nat (size (w_nodes w0)) <= max_entries /\ 3 * N.of_nat (length (faults_of wi_play 1)) + 3 < max_counter /\
    all_joined w0 /\ fair_round w0 1050 r = Some (w1, l1) /\ seed_connected w1 /\
    map (fun n => map ns_id (states (nd_view n))) (nodes_of w0) = [[[65]; [67]]; [[66]; [68]]; [[65]; [67]]; [[66]; [68]]] /\
    map (fun n => map ns_id (states (nd_view n))) (nodes_of w1) =
      [[[65]; [66]; [67]; [68]]; [[65]; [66]; [67]; [68]]; [[65]; [66]; [67]; [68]]; [[65]; [66]; [67]; [68]]].
Proof.
  destruct wi_check as (w0 & l0 & w1 & logs & H1 & H2 & HP).
  assert (Hr : exists r, rounds_of wi_play 1 = [r]) by (vm_compute; eexists; reflexivity).
  destruct Hr as [r Hr]. rewrite Hr in H2. destruct (fair_rounds_one _ _ _ _ _ _ H2) as [la Hf].
  exists w0, l0, r, w1, la. unfold wi_P in HP. split_andb HP.
  repeat match goal with H : bool_decide _ = true |- _ => apply bool_decide_eq_true in H end.
  repeat match goal with H : (_ <=? _) = true |- _ => apply N.leb_le in H | H : (_ <? _) = true |- _ => apply N.ltb_lt in H end.
  split; [assumption|]. split; [exact H1|]. split; [assumption|]. split; [assumption|].
  split; [apply all_joined_b_sound; assumption|]. split; [exact Hf|]. split; [apply seed_connected_b_sound; assumption|].
  unfold ids_of in *. split; assumption.
Qed.

Lemma wk_example :
  exists w1 l1 w2 logs,
    run empty_world (faults_of wk_play 30) = Some (w1, l1) /\
    fair_rounds w1 1050 50 (rounds_of wk_play 30) = Some (w2, logs) /\
    clean_history (faults_of wk_play 30) = true /\ all_joined w1 /\ ~ seed_connected w2 /\
    ~ converged w2 /\ Forall (fun lg => quiet lg = true) logs /\
    map (fun n => map ns_id (states (nd_view n))) (nodes_of w2) = [[[65]]; [[66]]].
Proof.
  destruct wk_check as (w1 & l1 & w2 & logs & H1 & H2 & HP). exists w1, l1, w2, logs.
  unfold wk_P in HP. split_andb HP.
  split; [exact H1|]. split; [exact H2|]. split; [assumption|]. split; [apply all_joined_b_sound; assumption|].
  assert (R1 : is_Some (w_nodes w2 !! ad1)) by (match goal with H : is_running w2 ad1 = true |- _ => apply bool_decide_eq_true in H; exact H end).
  assert (R2 : is_Some (w_nodes w2 !! ad2)) by (match goal with H : is_running w2 ad2 = true |- _ => apply bool_decide_eq_true in H; exact H end).
  split; [apply (no_seed_edges_apart w2 ad1 ad2); [assumption|exact R1|exact R2|vm_compute; discriminate]|].
  split; [intros Hc; apply converged_b_complete in Hc; match goal with H : negb (converged_b w2) = true |- _ => rewrite Hc in H; discriminate end|].
  split; [rewrite Forall_forall; intros lg Hlg; match goal with H : forallb quiet logs = true |- _ => rewrite forallb_forall in H; apply H, elem_of_list_In; exact Hlg end|].
  match goal with H : bool_decide (map ids_of _ = _) = true |- _ => apply bool_decide_eq_true in H; exact H end.
Qed.

(** * the failure detector's thresholds (failure_detector.go RunDetection, one datacenter) *)
Lemma fd_class_spec c self now s :
  fd_class c self now s =
  if bool_decide (ns_addr s = self) || (c_fd c <=? 0)%Z then 0
  else if (ns_seen s <? now - (c_fd c + Z.max (c_confirm c) 0))%Z then 2
  else if (ns_status s =? st_up)%Z && (ns_seen s <? now - c_fd c)%Z && (0 <? Z.max (c_confirm c) 0)%Z then 1 else 0.
Proof. unfold fd_class. destruct (bool_decide (ns_addr s = self)); [reflexivity|]. destruct (c_fd c <=? 0)%Z; reflexivity. Qed.

Theorem fd_removes_iff n now id :
  id ∈ snd (fd_detect n now) <->
  exists s, vw_members (nd_view n) !! id = Some s /\ ns_addr s <> nd_addr n /\ (0 < c_fd (nd_cfg n))%Z /\
            (ns_seen s < now - (c_fd (nd_cfg n) + Z.max (c_confirm (nd_cfg n)) 0))%Z.
Proof.
  unfold fd_detect. cbn [snd]. rewrite elem_of_list_In, in_map_iff. split.
  - intros ([k s] & <- & Hin). apply filter_In in Hin as [Hin Hc]. apply elem_of_list_In, elem_of_map_to_list in Hin.
    cbn [fst snd] in *. exists s. split; [exact Hin|]. rewrite fd_class_spec in Hc.
    destruct (bool_decide (ns_addr s = nd_addr n)) eqn:Ea; cbn [orb] in Hc; [discriminate|]. apply bool_decide_eq_false in Ea.
    destruct (c_fd (nd_cfg n) <=? 0)%Z eqn:Ef; [discriminate|].
    destruct (ns_seen s <? now - (c_fd (nd_cfg n) + Z.max (c_confirm (nd_cfg n)) 0))%Z eqn:Es; [repeat split; [exact Ea|lia|lia]|].
    destruct (_ && _ && _); discriminate.
  - intros (s & Hs & Ha & Hf & Hseen). exists (id, s). split; [reflexivity|]. apply filter_In. split.
    + apply elem_of_list_In, elem_of_map_to_list. exact Hs.
    + cbn [snd]. rewrite fd_class_spec. rewrite bool_decide_eq_false_2 by exact Ha.
      replace (c_fd (nd_cfg n) <=? 0)%Z with false by lia. cbn [orb].
      replace (ns_seen s <? now - (c_fd (nd_cfg n) + Z.max (c_confirm (nd_cfg n)) 0))%Z with true by lia. reflexivity.
Qed.

Theorem fd_suspects_iff n now id :
  id ∈ fst (fd_detect n now) <->
  exists s, vw_members (nd_view n) !! id = Some s /\ ns_addr s <> nd_addr n /\ (0 < c_fd (nd_cfg n))%Z /\
            ns_status s = st_up /\ (0 < c_confirm (nd_cfg n))%Z /\
            (now - (c_fd (nd_cfg n) + c_confirm (nd_cfg n)) <= ns_seen s < now - c_fd (nd_cfg n))%Z.
Proof.
  unfold fd_detect. cbn [fst]. rewrite elem_of_list_In, in_map_iff. split.
  - intros ([k s] & <- & Hin). apply filter_In in Hin as [Hin Hc]. apply elem_of_list_In, elem_of_map_to_list in Hin.
    cbn [fst snd] in *. exists s. split; [exact Hin|]. rewrite fd_class_spec in Hc.
    destruct (bool_decide (ns_addr s = nd_addr n)) eqn:Ea; cbn [orb] in Hc; [discriminate|]. apply bool_decide_eq_false in Ea.
    destruct (c_fd (nd_cfg n) <=? 0)%Z eqn:Ef; [discriminate|].
    destruct (ns_seen s <? now - (c_fd (nd_cfg n) + Z.max (c_confirm (nd_cfg n)) 0))%Z eqn:Es; [discriminate|].
    destruct ((ns_status s =? st_up)%Z && (ns_seen s <? now - c_fd (nd_cfg n))%Z && (0 <? Z.max (c_confirm (nd_cfg n)) 0)%Z) eqn:E3; [|discriminate].
    apply andb_true_iff in E3 as [E3 E5]. apply andb_true_iff in E3 as [E3 E4].
    repeat split; try exact Ea; lia.
  - intros (s & Hs & Ha & Hf & Hu & Hcf & Hseen). exists (id, s). split; [reflexivity|]. apply filter_In. split.
    + apply elem_of_list_In, elem_of_map_to_list. exact Hs.
    + cbn [snd]. rewrite fd_class_spec. rewrite bool_decide_eq_false_2 by exact Ha.
      replace (c_fd (nd_cfg n) <=? 0)%Z with false by lia. cbn [orb].
      replace (ns_seen s <? now - (c_fd (nd_cfg n) + Z.max (c_confirm (nd_cfg n)) 0))%Z with false by lia.
      rewrite Hu. replace (ns_seen s <? now - c_fd (nd_cfg n))%Z with true by lia.
      replace (0 <? Z.max (c_confirm (nd_cfg n)) 0)%Z with true by lia. reflexivity.
Qed.

(** * the default quorum rule: after recomputeCounts, SatisfiesQuorum holds exactly when at least one member is Up *)
Theorem default_quorum_trivial v : sat_quorum (recompute v) = (0 <? vw_healthy (recompute v)).
Proof.
  unfold sat_quorum, recompute. cbn [vw_quorum vw_healthy].
  set (h := count_up (map_to_list (vw_members v))).
  destruct (0 <? h) eqn:E; [|reflexivity]. cbn [andb].
  assert (h / 2 < h) by (apply N.div_lt; lia).
  apply andb_true_iff. split; lia.
Qed.
