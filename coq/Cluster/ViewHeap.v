(** Pointer-level model of NodeState.Clone and of the three places that store states in a ClusterView
    (AddMember, the member loop of MergeFromWithOptions, Snapshot): WHO SHARES WHICH GO OBJECT.

    The value-level models (View.v, ViewFull.v) cannot express the mechanism "stored states are clones"
    of C17: there a clone is the identity.  Here a *NodeState is a heap location holding a record whose
    Metadata / Labels fields are references to map objects (or nil):

        func (n *NodeState) Clone() *NodeState {
            out := *n                                   // every field copied, the two map HEADERS included
            if len(n.Metadata) > 0 { out.Metadata = make(..); copy }     // a fresh map only when non-empty
            if len(n.Labels) > 0   { out.Labels = make(..); copy }
            return &out                                 // a fresh object
        }

    so the clone of a state whose Metadata (Labels) is an EMPTY NON-NIL map - exactly what newNodeState
    makes - refers to the SAME map object as the original.  ViewHeapProofs.v proves: the pointer-level
    operations compute the value-level ones ([abs_view] commutes), never write a cell that existed
    before (argument view, caller's state, every other view and snapshot keep their value), store only
    fresh state objects, and share no cell with their source EXCEPT empty maps - and that this
    exception is real (a later `Labels[k] = x` through one side shows on the other).

    The Members map object itself and the VersionVector map are owned by one view (newClusterView,
    Snapshot and VersionVector.Clone/Merge/Prune make new ones) and are modelled by value. *)
From Coq Require Import List NArith ZArith Lia Bool.
From stdpp Require Import gmap.
From Vivid Require Import Codec.Prim Cluster.VV Cluster.View Cluster.ViewFull.
Local Open Scope N_scope.

Notation loc := N.

(** a NodeState object *)
Record hstate := HState {
  hs_core : nstate;
  hs_cluster : list N;
  hs_unreach : bool;
  hs_meta : option loc;        (* [None] = nil map, [Some l] = the map object at l *)
  hs_labels : option loc;
  hs_checksum : N
}.

Inductive cell :=
| CState (s : hstate)          (* a NodeState object *)
| CMap (m : smap).             (* a map[string]string object *)

Record heap := Heap {
  h_cells : gmap loc cell;
  h_next : loc                 (* allocation counter: every allocated location is below it *)
}.

Definition h_empty : heap := Heap ∅ 0.

Definition h_state (h : heap) (l : loc) : option hstate :=
  match h_cells h !! l with Some (CState s) => Some s | _ => None end.
Definition h_map (h : heap) (l : loc) : option smap :=
  match h_cells h !! l with Some (CMap m) => Some m | _ => None end.

Definition h_alloc (h : heap) (c : cell) : heap * loc :=
  (Heap (<[h_next h := c]> (h_cells h)) (h_next h + 1), h_next h).

(** * reading values through the heap *)
Definition abs_map (h : heap) (r : option loc) : gomap :=
  match r with
  | None => None
  | Some l => Some (default ∅ (h_map h l))
  end.
Definition abs_state (h : heap) (s : hstate) : fstate :=
  FState (hs_core s) (hs_cluster s) (hs_unreach s) (abs_map h (hs_meta s)) (abs_map h (hs_labels s)) (hs_checksum s).
(** a Members entry: nil, or a pointer *)
Definition abs_entry (h : heap) (e : option loc) : option fstate :=
  match e with
  | None => None
  | Some l => abs_state h <$> h_state h l
  end.

Notation hmembers := (gmap (list N) (option loc)).
Definition abs_members (h : heap) (m : hmembers) : fmembers := abs_entry h <$> m.

(** a ClusterView object: Members by pointer, the other fields by value (kept in an [fview] whose
    Members are ignored) *)
Record hview := HView {
  hv_members : option hmembers;      (* [None] = nil map *)
  hv_rest : fview
}.
Definition hv_map (v : hview) : hmembers := default ∅ (hv_members v).
Definition abs_view (h : heap) (v : hview) : fview :=
  let r := hv_rest v in
  FView (fv_id r) (abs_members h <$> hv_members v) (fv_epoch r) (fv_ts r) (fv_healthy r) (fv_unhealthy r)
        (fv_quorum r) (fv_vv r) (fv_proto r) (fv_maxent r).

(** * Clone *)

(** one map field: `if len(m) > 0 { fresh copy }`, otherwise the header (nil or the same object) *)
Definition h_clone_map (h : heap) (r : option loc) : heap * option loc :=
  match r with
  | None => (h, None)
  | Some l =>
      let m := default ∅ (h_map h l) in
      if bool_decide (size m = 0%nat) then (h, Some l)
      else let '(h', l') := h_alloc h (CMap m) in (h', Some l')
  end.

(** n.Clone() where n points to an object with contents [s] *)
Definition h_clone (h : heap) (s : hstate) : heap * loc :=
  let '(h1, me) := h_clone_map h (hs_meta s) in
  let '(h2, la) := h_clone_map h1 (hs_labels s) in
  h_alloc h2 (CState (HState (hs_core s) (hs_cluster s) (hs_unreach s) me la (hs_checksum s))).

(** * the member loop (MergeFromWithOptions), which is also all of Snapshot and the store of AddMember *)

(** the decision at one key, taken on the heap [h0] the loop started with (every key is visited once
    and the loop only allocates): [Some xs] = store a clone of the argument's object, whose contents are xs *)
Definition h_adopt (h0 : heap) (vm : hmembers) (k : list N) (ol : option loc) : option hstate :=
  match ol with
  | None => None                                    (* if otherState == nil { continue } *)
  | Some l =>
      match h_state h0 l with
      | None => None                                (* dangling pointer: excluded by closedness *)
      | Some xs =>
          match vm !! k with
          | Some (Some el) =>
              match h_state h0 el with
              | Some es => if isnewer (hs_core xs) (hs_core es) then Some xs else None
              | None => Some xs
              end
          | _ => Some xs                            (* !ok, or IsNewerThan(nil) *)
          end
      end
  end.

Definition h_loop_step (h0 : heap) (vm : hmembers) (acc : heap * hmembers) (p : list N * option loc)
  : heap * hmembers :=
  match h_adopt h0 vm (fst p) (snd p) with
  | Some xs => let '(h', l') := h_clone (fst acc) xs in (h', <[fst p := Some l']> (snd acc))
  | None => acc
  end.

Definition h_loop (h : heap) (vm om : hmembers) : heap * hmembers :=
  foldl (h_loop_step h vm) (h, vm) (map_to_list om).

(** v.MergeFromWithOptions(o, opts): the pointers by the loop, every other field by the value-level
    merge of what the two views denote *)
Definition h_merge (skew strat now : Z) (h : heap) (v o : hview) : heap * hview * bool :=
  let fr := f_merge skew strat now (abs_view h v) (abs_view h o) in
  match hv_members o with
  | None => (h, v, false)
  | Some om =>
      if bool_decide (size om = 0%nat) then (h, v, false)
      else let '(h', m') := h_loop h (hv_map v) om in
           (h', HView (Some m') (fst fr), snd fr)
  end.

(** v.AddMember(member) with member = the pointer [l] *)
Definition h_add (h : heap) (v : hview) (l : loc) : heap * hview :=
  match h_state h l with
  | None => (h, v)
  | Some s =>
      let '(h', m') := h_loop h (hv_map v) {[ ns_id (hs_core s) := Some l ]} in
      (h', HView (Some m') (f_add (abs_view h v) (abs_state h s)))
  end.

(** v.Snapshot() *)
Definition h_snapshot (h : heap) (v : hview) : heap * hview :=
  let '(h', m') := h_loop h ∅ (hv_map v) in
  (h', HView (Some m') (f_snapshot (abs_view h v))).

(** * what the owner of a pointer can do later *)

(** m[k] = x on the map object at l *)
Definition h_map_insert (h : heap) (l : loc) (k x : list N) : heap :=
  match h_map h l with
  | Some m => Heap (<[l := CMap (<[k := x]> m)]> (h_cells h)) (h_next h)
  | None => h
  end.
(** n.Status = st on the object at l (node_actor.go does this in place on stored states) *)
Definition h_set_status (h : heap) (l : loc) (st : Z) : heap :=
  match h_state h l with
  | Some s => Heap (<[l := CState (HState (ns_set_status (hs_core s) st) (hs_cluster s) (hs_unreach s)
                                          (hs_meta s) (hs_labels s) (hs_checksum s))]> (h_cells h)) (h_next h)
  | None => h
  end.

(** * which cells a view reaches *)
Definition smaps (s : hstate) (l : loc) : Prop := hs_meta s = Some l \/ hs_labels s = Some l.
Definition vlocs (h : heap) (v : hview) (l : loc) : Prop :=
  (exists k, hv_map v !! k = Some (Some l)) \/
  (exists k ls s, hv_map v !! k = Some (Some ls) /\ h_state h ls = Some s /\ smaps s l).
(** the cells one state pointer reaches *)
Definition slocs (h : heap) (ls l : loc) : Prop :=
  l = ls \/ exists s, h_state h ls = Some s /\ smaps s l.

(** * well-formedness of heaps, states and views *)
Definition hwf (h : heap) : Prop := forall l c, h_cells h !! l = Some c -> l < h_next h.
Definition sclosed (h : heap) (s : hstate) : Prop := forall l, smaps s l -> is_Some (h_map h l).
Definition vclosed (h : heap) (v : hview) : Prop :=
  forall k l, hv_map v !! k = Some (Some l) -> exists s, h_state h l = Some s /\ sclosed h s.
Definition hext (h h' : heap) : Prop := h_cells h ⊆ h_cells h' /\ h_next h <= h_next h'.

(** the two views share no cell *)
Definition vsep (h : heap) (v o : hview) : Prop := forall l, vlocs h v l -> vlocs h o l -> False.
(** the two views share nothing but empty maps *)
Definition vsep_but_empty_maps (h : heap) (v o : hview) : Prop :=
  forall l, vlocs h v l -> vlocs h o l -> h_map h l = Some ∅.

(** * building a heap from values (used to state examples and by the executable entry point): every
    state and every non-nil map gets its own fresh cell *)
Definition h_load_map (h : heap) (m : gomap) : heap * option loc :=
  match m with
  | None => (h, None)
  | Some m => let '(h', l) := h_alloc h (CMap m) in (h', Some l)
  end.
Definition h_load_state (h : heap) (s : fstate) : heap * loc :=
  let '(h1, me) := h_load_map h (fs_meta s) in
  let '(h2, la) := h_load_map h1 (fs_labels s) in
  h_alloc h2 (CState (HState (fs_core s) (fs_cluster s) (fs_unreach s) me la (fs_checksum s))).
Definition h_load_step (acc : heap * hmembers) (p : list N * option fstate) : heap * hmembers :=
  match snd p with
  | None => (fst acc, <[fst p := None]> (snd acc))
  | Some s => let '(h', l) := h_load_state (fst acc) s in (h', <[fst p := Some l]> (snd acc))
  end.
Definition h_load_view (h : heap) (v : fview) : heap * hview :=
  match fv_members v with
  | None => (h, HView None v)
  | Some m => let '(h', hm) := foldl h_load_step (h, ∅) (map_to_list m) in (h', HView (Some hm) v)
  end.
