(** Model of internal/cluster/version_vector.go.  A vector is a finite map from node address
    (byte string) to counter; an absent entry reads as 0. *)
From Coq Require Import List NArith ZArith Lia Bool.
From stdpp Require Import gmap sorting.
From Vivid Require Import Codec.Prim.
Local Open Scope N_scope.

Notation vv := (gmap (list N) N).

Definition max_entries : N := 65535.
Definition max_addr_len : N := 256.
Definition max_counter : N := 9223372036854775807.   (* 1<<63 - 1 *)

Definition vget (v : vv) (k : list N) : N := default 0 (v !! k).

(** Compare: two passes with two flags, exactly as the Go code (the early returns only fire when
    both flags are already set, which is also the final answer). *)
Definition vless (v o : vv) : bool :=
  existsb (fun p => snd p <? vget o (fst p)) (map_to_list v)
  || existsb (fun p => bool_decide (v !! fst p = None) && (0 <? snd p)) (map_to_list o).
Definition vgreater (v o : vv) : bool :=
  existsb (fun p => vget o (fst p) <? snd p) (map_to_list v).

Inductive vorder := VEqual | VBefore | VAfter | VConcurrent.
Definition vcompare (v o : vv) : vorder :=
  if bool_decide (size v = 0%nat) && bool_decide (size o = 0%nat) then VEqual else
  match vless v o, vgreater v o with
  | false, false => VEqual
  | true, false => VBefore
  | false, true => VAfter
  | true, true => VConcurrent
  end.

Definition vmax_union (a b : vv) : vv := union_with (fun x y => Some (N.max x y)) a b.
Definition vmerge (v o : vv) : vv :=
  if bool_decide (size o = 0%nat) then v
  else if bool_decide (size v = 0%nat) then o
  else vmax_union v o.

Definition valid_addr (k : list N) : bool :=
  negb (N.of_nat (length k) =? 0) && (N.of_nat (length k) <=? max_addr_len).

Definition vinc (v : vv) (k : list N) : res vv :=
  if valid_addr k then
    if max_counter <=? vget v k then Err EOverflow
    else Ok (<[k := vget v k + 1]> v)
  else Err EInvalid.

Definition vcompact (v : vv) : vv := filter (fun p => 0 < snd p) v.

(** byte-wise lexicographic order = Go's string order *)
Fixpoint lex_le (a b : list N) : bool :=
  match a, b with
  | [], _ => true
  | _ :: _, [] => false
  | x :: a', y :: b' => if x <? y then true else if y <? x then false else lex_le a' b'
  end.
Fixpoint ins_sorted {A} (le : A -> A -> bool) (x : A) (l : list A) : list A :=
  match l with
  | [] => [x]
  | y :: r => if le x y then x :: l else y :: ins_sorted le x r
  end.
Definition isort {A} (le : A -> A -> bool) (l : list A) : list A := foldr (ins_sorted le) [] l.

Definition vprune_max (v : vv) (active : list (list N)) (maxe : Z) : vv :=
  if bool_decide (size v = 0%nat) || bool_decide (length active = 0%nat) then ∅ else
  let limit := if (maxe <=? 0)%Z then max_entries else Z.to_N maxe in
  let act := if limit <? N.of_nat (length active) then take (N.to_nat limit) (isort lex_le active) else active in
  filter (fun p => bool_decide (fst p ∈ act)) v.
Definition vprune (v : vv) (active : list (list N)) : vv := vprune_max v active 0.

Definition ventries (v : vv) : list (list N * N) :=
  isort (fun p q => lex_le (fst p) (fst q)) (map_to_list v).

(** WriteVersionVector *)
Fixpoint vwrite_entries (l : list (list N * N)) : res (list N) :=
  match l with
  | [] => Ok []
  | (k, c) :: r =>
      if valid_addr k then
        let* rest := vwrite_entries r in Ok (put_lp4 k ++ put_u64 c ++ rest)
      else Err EInvalid
  end.
Definition vwrite (v : vv) : res (list N) :=
  let es := ventries v in
  if max_entries <? N.of_nat (length es) then Err ETooLarge else
  let* body := vwrite_entries es in Ok (put_u32 (N.of_nat (length es)) ++ body).

(** ReadVersionVector *)
Fixpoint vread_entries (n : nat) (acc : vv) (bs : list N) : res (vv * list N) :=
  match n with
  | O => Ok (acc, bs)
  | S n' =>
      let* (k, bs1) := rd_lp4 bs in
      if valid_addr k then
        let* (c, bs2) := rd_u64 bs1 in
        if max_counter <? c then Err EOverflow
        else vread_entries n' (<[k := c]> acc) bs2
      else Err EInvalid
  end.
Definition vread (bs : list N) : res (vv * list N) :=
  let* (n, bs1) := rd_u32 bs in
  if max_entries <? n then Err ETooLarge else vread_entries (N.to_nat n) ∅ bs1.
