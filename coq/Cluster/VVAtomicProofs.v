(** No lost update: in every interleaving of any number of Increment loops on one AtomicVersionVector, the stored
    vector is the initial one plus exactly one per successful call (linearisation point = the successful CAS). *)
From Coq Require Import List NArith ZArith Lia Bool.
From Coq Require Import ZifyN ZifyNat ZifyBool.
From stdpp Require Import gmap.
From Vivid Require Import Codec.Prim Cluster.VV Cluster.VVProofs Cluster.VVAtomic.
Local Open Scope N_scope.

Definition contrib (k : akey) (t : athread) : N := if bool_decide (t_node t = k) then N.of_nat (length (t_ok t)) else 0.

Lemma succ_on_cons k t r : succ_on k (t :: r) = contrib k t + succ_on k r.
Proof. reflexivity. Qed.
Lemma succ_on_set_nth k ths : forall i t t', nth_error ths i = Some t ->
  succ_on k (set_nth i t' ths) + contrib k t = succ_on k ths + contrib k t'.
Proof.
  induction ths as [|y r IH]; intros [|i] t t' H; cbn [nth_error] in H; try discriminate.
  - injection H as ->. cbn [set_nth]. rewrite !succ_on_cons. lia.
  - cbn [set_nth]. rewrite !succ_on_cons. specialize (IH i t t' H). lia.
Qed.

(** per-thread well-formedness *)
Definition pc_ok (t : athread) : Prop :=
  match t_pc t with
  | PStart => True
  | PLoaded cur nv | PCas _ cur nv => vinc cur (t_node t) = Ok nv /\ (1 <= t_todo t)%nat
  end.
Definition oks_ok (t : athread) : Prop := Forall (fun p => vinc (fst p) (t_node t) = Ok (snd p)) (t_ok t).
Definition acct (t0 t : athread) : Prop :=
  t_node t = t_node t0 /\ (t_todo t + length (t_ok t) + t_errs t = t_todo t0)%nat.

Definition ainv (v0 : vv) (ths0 : list athread) (st : astate) : Prop :=
  (forall k, vget (as_value (snd st)) k = vget v0 k + succ_on k (fst st)) /\
  Forall2 acct ths0 (fst st) /\
  Forall (fun t => pc_ok t /\ oks_ok t) (fst st).

Lemma Forall_set_nth {A} (P : A -> Prop) l : forall i x, Forall P l -> P x -> Forall P (set_nth i x l).
Proof.
  induction l as [|y r IH]; intros i x F Hx; [destruct i; constructor|].
  apply Forall_cons in F as [? ?]. destruct i as [|i]; cbn [set_nth]; constructor; auto.
Qed.
Lemma Forall2_set_nth {A B} (R : A -> B -> Prop) l0 l : forall i t t',
  Forall2 R l0 l -> nth_error l i = Some t -> (forall t0, R t0 t -> R t0 t') -> Forall2 R l0 (set_nth i t' l).
Proof.
  intros i t t' F. revert i. induction F as [|x y l0 l Hxy F IH]; intros [|i] H K; cbn in *; try discriminate.
  - injection H as ->. constructor; auto.
  - constructor; auto.
Qed.
Lemma nth_error_Forall {A} (P : A -> Prop) l i x : Forall P l -> nth_error l i = Some x -> P x.
Proof. intros F H. apply (proj1 (Forall_forall P l) F). apply elem_of_list_In. eapply nth_error_In, H. Qed.

(** what one step of one thread does to the shared state *)
Lemma tstep_shared t s :
  snd (tstep t s) = s \/
  (exists p1 cur nv, t_pc t = PCas p1 cur nv /\ vcompare (as_value s) cur = VEqual /\ as_ptr s = p1 /\
     as_value (snd (tstep t s)) = nv /\ as_ptr (snd (tstep t s)) = as_next s /\
     t_ok (fst (tstep t s)) = t_ok t ++ [(cur, nv)]).
Proof.
  unfold tstep. destruct (t_pc t) as [|cur nv|p1 cur nv] eqn:E.
  - destruct (t_todo t); [left; reflexivity|]. destruct (vinc _ _); left; reflexivity.
  - left; reflexivity.
  - destruct (vcompare (default ∅ (as_boxes s !! p1)) cur) eqn:Ec; try (left; reflexivity).
    destruct (N.eqb_spec (as_ptr s) p1) as [Ep|]; [|left; reflexivity].
    right. exists p1, cur, nv. split; [reflexivity|]. split; [unfold as_value; rewrite Ep; exact Ec|]. split; [exact Ep|].
    cbn. split; [unfold as_value; cbn; rewrite lookup_insert; reflexivity|]. split; reflexivity.
Qed.

Lemma astep_inv v0 ths0 i st : ainv v0 ths0 st -> ainv v0 ths0 (astep i st).
Proof.
  destruct st as [ths s]. intros (I1 & I2 & I3). unfold astep. cbn [fst snd] in *.
  destruct (nth_error ths i) as [t|] eqn:Ei; [|split; [exact I1|split; assumption]].
  destruct (nth_error_Forall _ _ _ _ I3 Ei) as [Pc Ok0].
  pose proof (tstep_shared t s) as Sh.
  (* facts about the thread component, by cases on the program counter *)
  assert (T : let t' := fst (tstep t s) in
              pc_ok t' /\ oks_ok t' /\ (forall t0, acct t0 t -> acct t0 t') /\
              (t_ok t' = t_ok t \/ exists cur nv, t_ok t' = t_ok t ++ [(cur, nv)] /\ t_pc t = PCas (as_ptr s) cur nv /\
                                               vcompare (as_value s) cur = VEqual /\ snd (tstep t s) <> s) /\
              t_node t' = t_node t).
  { cbn zeta. unfold tstep. unfold pc_ok in Pc. destruct (t_pc t) as [|cur nv|p1 cur nv] eqn:E.
    - destruct (t_todo t) as [|todo'] eqn:Et.
      + cbn [fst snd]. split; [unfold pc_ok; rewrite E; exact I|]. split; [exact Ok0|]. split; [auto|]. split; [left; reflexivity|reflexivity].
      + destruct (vinc (as_value s) (t_node t)) as [nv|e] eqn:Ev; cbn [fst snd].
        * split; [unfold pc_ok; cbn; split; [exact Ev|lia]|]. split; [exact Ok0|].
          split; [intros t0 [A B]; split; [exact A|cbn; lia]|]. split; [left; reflexivity|reflexivity].
        * split; [exact I|]. split; [exact Ok0|].
          split; [intros t0 [A B]; split; [exact A|cbn; lia]|]. split; [left; reflexivity|reflexivity].
    - cbn [fst snd]. destruct Pc as [Pv Pt]. split; [unfold pc_ok; cbn; split; assumption|]. split; [exact Ok0|].
      split; [intros t0 [A B]; split; [exact A|cbn; lia]|]. split; [left; reflexivity|reflexivity].
    - destruct Pc as [Pv Pt].
      assert (Retry : let t' := AThread (t_node t) (t_todo t) PStart (t_ok t) (t_errs t) in
                pc_ok t' /\ oks_ok t' /\ (forall t0, acct t0 t -> acct t0 t') /\
                (t_ok t' = t_ok t \/ exists cur0 nv0, t_ok t' = t_ok t ++ [(cur0, nv0)] /\ PCas p1 cur nv = PCas (as_ptr s) cur0 nv0 /\
                     vcompare (as_value s) cur0 = VEqual /\ s <> s) /\ t_node t' = t_node t).
      { cbn zeta. split; [exact I|]. split; [exact Ok0|]. split; [intros t0 [A B]; split; [exact A|cbn; lia]|].
        split; [left; reflexivity|reflexivity]. }
      destruct (vcompare (default ∅ (as_boxes s !! p1)) cur) eqn:Ec; try exact Retry.
      destruct (N.eqb_spec (as_ptr s) p1) as [Ep|]; [|exact Retry].
      cbn [fst snd]. split; [exact I|]. split.
      + unfold oks_ok. cbn. apply Forall_app. split; [exact Ok0|]. constructor; [exact Pv|constructor].
      + split; [intros t0 [A B]; split; [exact A|]; cbn; rewrite app_length; cbn; lia|]. split; [|reflexivity].
        right. exists cur, nv. split; [reflexivity|]. split; [rewrite Ep; reflexivity|].
        split; [unfold as_value; rewrite Ep; exact Ec|]. intros Hs. apply (f_equal as_next) in Hs. cbn [as_next] in Hs. lia. }
  cbn zeta in T. destruct (tstep t s) as [t' s'] eqn:Ets. cbn [fst snd] in *.
  destruct T as (Pc' & Ok' & Ac' & Hok & Hnode).
  split; [|split].
  - intros k. cbn [fst snd]. pose proof (succ_on_set_nth k ths i t t' Ei) as Hs. unfold contrib in Hs. rewrite Hnode in Hs.
    destruct Hok as [Hsame|(cur & nv & Happ & Hpc & Heq & Hne)].
    + rewrite Hsame in Hs. destruct Sh as [->|(p1 & c & n & Hpc & _ & _ & _ & _ & Hok2)].
      * rewrite I1. destruct (bool_decide (t_node t = k)); lia.
      * rewrite Hsame in Hok2. exfalso. apply (f_equal (@length _)) in Hok2. rewrite app_length in Hok2. cbn in Hok2. lia.
    + destruct Sh as [->|(p1 & c & n & Hpc2 & Hc & Hp & Hval & _ & _)]; [contradiction|].
      rewrite Hpc in Hpc2. injection Hpc2 as _ <- <-. rewrite Hval.
      unfold pc_ok in Pc. rewrite Hpc in Pc. destruct Pc as [Pv _].
      pose proof (vinc_ok _ _ _ Pv) as (G1 & G2 & _).
      apply vcompare_equal in Heq. rewrite Happ, app_length in Hs. cbn [length] in Hs.
      destruct (decide (k = t_node t)) as [->|Hk].
      * rewrite bool_decide_eq_true_2 in Hs by reflexivity. rewrite G1, <- Heq, I1. lia.
      * rewrite bool_decide_eq_false_2 in Hs by congruence.
        assert (vget nv k = vget cur k) as -> by (unfold vget; rewrite G2 by exact Hk; reflexivity).
        rewrite <- Heq, I1. lia.
  - apply (Forall2_set_nth acct ths0 ths i t t' I2 Ei Ac').
  - apply Forall_set_nth; [exact I3|split; assumption].
Qed.

Lemma ainv_init v0 ths0 :
  Forall (fun t => t_pc t = PStart /\ t_ok t = []) ths0 -> (forall t, In t ths0 -> t_errs t = 0%nat) ->
  ainv v0 ths0 (ths0, a_init v0).
Proof.
  intros F E. split; [|split].
  - intros k. cbn [fst snd]. unfold as_value, a_init. cbn [as_boxes as_ptr]. rewrite lookup_singleton. cbn [from_option]. unfold id.
    assert (succ_on k ths0 = 0) as ->; [|lia].
    induction ths0 as [|t r IH]; [reflexivity|]. apply Forall_cons in F as [[_ Hok] F].
    rewrite succ_on_cons, IH; [|exact F|intros t' Ht; apply E; right; exact Ht].
    unfold contrib. rewrite Hok. destruct (bool_decide _); reflexivity.
  - induction ths0 as [|t r IH]; [constructor|]. apply Forall_cons in F as [[_ Hok] F]. constructor.
    + split; [reflexivity|]. rewrite Hok, (E t (or_introl eq_refl)). cbn. lia.
    + apply IH; [exact F|intros t' Ht; apply E; right; exact Ht].
  - eapply Forall_impl; [exact F|]. intros t [Hpc Hok]. unfold pc_ok, oks_ok. rewrite Hpc, Hok. split; [exact I|constructor].
Qed.

Lemma arun_inv v0 ths0 sched : forall st, ainv v0 ths0 st -> ainv v0 ths0 (arun_sched sched st).
Proof.
  unfold arun_sched. induction sched as [|i sched IH]; intros st I; cbn [fold_left]; [exact I|].
  apply IH, astep_inv, I.
Qed.

Theorem atomic_no_lost_update v0 ths0 sched :
  Forall (fun t => t_pc t = PStart /\ t_ok t = []) ths0 -> (forall t, In t ths0 -> t_errs t = 0%nat) ->
  ainv v0 ths0 (arun_sched sched (ths0, a_init v0)).
Proof. intros F E. apply arun_inv, ainv_init; assumption. Qed.

(** the CAS step: it swaps iff the box behind the pointer it loaded holds a value Equal to [cur] AND the wrapper
    still holds that pointer; then the wrapper points to a fresh box holding exactly [nv] and the call returns [nv];
    otherwise nothing is written and the loop starts over *)
Theorem tstep_cas p1 cur nv t s : t_pc t = PCas p1 cur nv ->
  if (match vcompare (default ∅ (as_boxes s !! p1)) cur with VEqual => true | _ => false end) && (as_ptr s =? p1)
  then as_ptr (snd (tstep t s)) = as_next s /\ as_value (snd (tstep t s)) = nv /\
       t_ok (fst (tstep t s)) = t_ok t ++ [(cur, nv)] /\ t_pc (fst (tstep t s)) = PStart
  else snd (tstep t s) = s /\ t_ok (fst (tstep t s)) = t_ok t /\ t_pc (fst (tstep t s)) = PStart /\
       t_todo (fst (tstep t s)) = t_todo t.
Proof.
  intros E. unfold tstep. rewrite E. destruct (vcompare (default ∅ (as_boxes s !! p1)) cur); cbn [andb]; try (repeat split; reflexivity).
  destruct (as_ptr s =? p1); [|repeat split; reflexivity].
  cbn [fst snd as_ptr t_ok t_pc]. split; [reflexivity|]. split; [|split; reflexivity].
  unfold as_value. cbn [as_boxes as_ptr]. rewrite lookup_insert. reflexivity.
Qed.

(** every other step (the load, the local Increment incl. its error outcomes, the pointer load inside
    CompareAndSwap) leaves the shared state untouched *)
Theorem tstep_other t s : (forall p1 cur nv, t_pc t <> PCas p1 cur nv) -> snd (tstep t s) = s.
Proof.
  intros H. destruct (tstep_shared t s) as [E|(p1 & cur & nv & A & _)]; [exact E|]. exfalso. exact (H p1 cur nv A).
Qed.

(** a call that returns an error: counted, nothing written *)
Theorem tstep_error t s todo' e :
  t_pc t = PStart -> t_todo t = S todo' -> vinc (as_value s) (t_node t) = Err e ->
  tstep t s = (AThread (t_node t) todo' PStart (t_ok t) (S (t_errs t)), s).
Proof. intros A B C. unfold tstep. rewrite A, B, C. reflexivity. Qed.
