(** Caps and boundaries of the version vector, on BOTH sides: which vectors the API can build
    (Increment / Merge / Compact / PruneWithMax / Read), which the writer accepts, which the reader accepts. *)
From Coq Require Import List NArith ZArith Lia Bool.
From Coq Require Import ZifyN ZifyNat ZifyBool.
From stdpp Require Import gmap sorting list_numbers.
From Vivid Require Import Codec.Prim Codec.PrimProofs Cluster.VV Cluster.VVProofs Cluster.VVHeap.
Local Open Scope N_scope.


Lemma wf_vv_alt v : wf_vv v <-> N.of_nat (size v) <= max_entries /\ entries_ok v.
Proof. reflexivity. Qed.

(** * The reader accepts nothing outside the caps *)
Lemma vread_entries_ok n : forall acc bs m rest (sz : nat),
  entries_ok acc -> (size acc <= sz)%nat ->
  vread_entries n acc bs = Ok (m, rest) -> entries_ok m /\ (size m <= sz + n)%nat.
Proof.
  induction n as [|n IH]; intros acc bs m rest sz Hok Hsz; cbn [vread_entries].
  - intros [= <- <-]. split; [exact Hok|lia].
  - destruct (rd_lp4 bs) as [[k bs1]|e]; cbn [bind]; [|discriminate].
    destruct (valid_addr k) eqn:Ek; [|discriminate].
    destruct (rd_u64 bs1) as [[c bs2]|e]; cbn [bind]; [|discriminate].
    destruct (N.ltb_spec max_counter c); [discriminate|]. intros Hr.
    destruct (IH (<[k:=c]> acc) bs2 m rest (S sz)) as [A B]; [| |exact Hr|split; [exact A|lia]].
    + intros k' c' Hl. apply lookup_insert_Some in Hl as [[<- <-]|[_ Hl]]; [split; [exact Ek|lia]|apply Hok, Hl].
    + destruct (acc !! k) eqn:El; [rewrite map_size_insert_Some by (eexists; exact El)|rewrite map_size_insert_None by exact El]; lia.
Qed.

Theorem vread_wf bs v rest : vread bs = Ok (v, rest) -> wf_vv v.
Proof.
  unfold vread. destruct (rd_u32 bs) as [[n bs1]|e]; cbn [bind]; [|discriminate].
  destruct (N.ltb_spec max_entries n); [discriminate|]. intros Hr.
  destruct (vread_entries_ok (N.to_nat n) ∅ bs1 v rest 0) as [A B]; [| |exact Hr|].
  - intros k c Hl. rewrite lookup_empty in Hl. discriminate.
  - rewrite map_size_empty. lia.
  - split; [lia|exact A].
Qed.

(** the wire accepts EXACTLY the vectors within the caps *)
Theorem wire_accepts_exactly v : wf_vv v <-> exists bs, vread bs = Ok (v, []).
Proof.
  split.
  - intros H. destruct (vread_vwrite v [] H) as (bs & _ & Hr). rewrite app_nil_r in Hr. exists bs. exact Hr.
  - intros (bs & Hr). exact (vread_wf bs v [] Hr).
Qed.

(** * The writer: refuses more than 65535 entries and invalid addresses; does not look at counters *)
Lemma vwrite_entries_ok_iff l :
  (exists bs, vwrite_entries l = Ok bs) <-> Forall (fun p => valid_addr (fst p) = true) l.
Proof.
  induction l as [|[k c] l IH]; cbn [vwrite_entries].
  - split; [constructor|eexists; reflexivity].
  - destruct (valid_addr k) eqn:Ek.
    + split.
      * intros (bs & Hb). constructor; [exact Ek|]. apply IH. destruct (vwrite_entries l); [eexists; reflexivity|discriminate].
      * intros Hf. apply Forall_cons in Hf as [_ Hf]. apply IH in Hf as (bs & ->). eexists; reflexivity.
    + split; [intros (bs & Hb); discriminate|]. intros Hf. apply Forall_cons in Hf as [Hk _]. cbn in Hk. congruence.
Qed.
Lemma vwrite_entries_err l e : vwrite_entries l = Err e -> e = EInvalid.
Proof.
  induction l as [|[k c] l IH]; cbn [vwrite_entries]; [discriminate|].
  destruct (valid_addr k); [|congruence]. destruct (vwrite_entries l); cbn [bind]; [discriminate|]. intros [= <-]. apply IH. reflexivity.
Qed.

Lemma ventries_length v : length (ventries v) = size v.
Proof. rewrite (Permutation_length (ventries_perm v)). reflexivity. Qed.

Theorem vwrite_ok_iff v :
  (exists bs, vwrite v = Ok bs) <->
  N.of_nat (size v) <= max_entries /\ (forall k c, v !! k = Some c -> valid_addr k = true).
Proof.
  unfold vwrite. rewrite ventries_length. destruct (N.ltb_spec max_entries (N.of_nat (size v))) as [Hgt|Hle].
  - split; [intros (bs & Hb); discriminate|]. intros [H _]. lia.
  - split.
    + intros (bs & Hb). split; [exact Hle|]. intros k c Hl.
      assert (Hex : exists b, vwrite_entries (ventries v) = Ok b) by (destruct (vwrite_entries (ventries v)); [eexists; reflexivity|discriminate]).
      apply vwrite_entries_ok_iff in Hex.
      apply (proj1 (Forall_forall _ _) Hex (k, c)). rewrite ventries_perm. apply elem_of_map_to_list. exact Hl.
    + intros [_ Hv].
      assert (Hf : Forall (fun p => valid_addr (fst p) = true) (ventries v)).
      { apply Forall_forall. intros [k c] Hin. rewrite ventries_perm in Hin. apply elem_of_map_to_list in Hin. exact (Hv k c Hin). }
      apply vwrite_entries_ok_iff in Hf as (b & ->). eexists; reflexivity.
Qed.

Theorem vwrite_too_large_iff v : vwrite v = Err ETooLarge <-> max_entries < N.of_nat (size v).
Proof.
  unfold vwrite. rewrite ventries_length. destruct (N.ltb_spec max_entries (N.of_nat (size v))) as [Hgt|Hle].
  - split; [intros _; exact Hgt|reflexivity].
  - split; [|lia]. destruct (vwrite_entries (ventries v)) eqn:E; cbn [bind]; [discriminate|].
    apply vwrite_entries_err in E. subst. discriminate.
Qed.

(** the bytes: count, then the entries in strictly increasing address order *)
Lemma vwrite_entries_format l bs : vwrite_entries l = Ok bs -> bs = flat_map enc_entry l.
Proof.
  revert bs. induction l as [|[k c] l IH]; intros bs; cbn [vwrite_entries flat_map]; [intros [= <-]; reflexivity|].
  destruct (valid_addr k); [|discriminate]. destruct (vwrite_entries l) as [r|]; cbn [bind]; [|discriminate].
  intros [= <-]. unfold enc_entry. cbn [fst snd]. rewrite <- app_assoc. rewrite (IH r eq_refl). reflexivity.
Qed.
Theorem vwrite_format v bs :
  vwrite v = Ok bs ->
  bs = put_u32 (N.of_nat (size v)) ++ flat_map enc_entry (ventries v) /\
  StronglySorted ent_lt (ventries v) /\ ventries v ≡ₚ map_to_list v.
Proof.
  unfold vwrite. rewrite ventries_length. destruct (max_entries <? N.of_nat (size v)); [discriminate|].
  destruct (vwrite_entries (ventries v)) as [b|] eqn:E; cbn [bind]; [|discriminate]. intros [= <-].
  split; [rewrite (vwrite_entries_format _ _ E); reflexivity|apply ventries_sorted].
Qed.

(** * What the API can build *)
Lemma vinc_entries_ok v k v' : entries_ok v -> vinc v k = Ok v' -> entries_ok v'.
Proof.
  unfold vinc. intros Hok. destruct (valid_addr k) eqn:Ek; [|discriminate].
  destruct (N.leb_spec max_counter (vget v k)); [discriminate|]. intros [= <-].
  intros k' c' Hl. apply lookup_insert_Some in Hl as [[<- <-]|[_ Hl]]; [split; [exact Ek|lia]|apply Hok, Hl].
Qed.
Lemma vmerge_entries_ok a b : entries_ok a -> entries_ok b -> entries_ok (vmerge a b).
Proof.
  intros Ha Hb k c. rewrite vmerge_union. unfold vmax_union. rewrite lookup_union_with.
  destruct (a !! k) as [x|] eqn:Ea, (b !! k) as [y|] eqn:Eb; cbn; intros [= <-].
  - destruct (Ha k x Ea), (Hb k y Eb). split; [assumption|lia].
  - apply (Ha k x Ea).
  - apply (Hb k y Eb).
Qed.
Lemma filter_entries_ok (P : list N * N -> Prop) `{!forall x, Decision (P x)} (v : vv) : entries_ok v -> entries_ok (filter P v).
Proof. intros Hok k c Hl. apply map_filter_lookup_Some in Hl as [Hl _]. apply Hok, Hl. Qed.
Lemma vprune_entries_ok v act maxe : entries_ok v -> entries_ok (vprune_max v act maxe).
Proof.
  intros Hok. unfold vprune_max. destruct (_ || _); [intros k c Hl; rewrite lookup_empty in Hl; discriminate|].
  apply filter_entries_ok, Hok.
Qed.

Theorem api_reach_entries_ok v : api_reach v -> entries_ok v.
Proof.
  induction 1.
  - intros k c Hl. rewrite lookup_empty in Hl. discriminate.
  - eapply vinc_entries_ok; eassumption.
  - apply vmerge_entries_ok; assumption.
  - apply filter_entries_ok; assumption.
  - apply vprune_entries_ok; assumption.
  - exact (proj2 (vread_wf bs v rest H)).
Qed.

(** every vector the API can build with at most 65535 entries survives serialisation unchanged;
    conversely everything the wire accepts is such a vector *)
Theorem api_wire_agree v : (api_reach v /\ N.of_nat (size v) <= max_entries) <-> wf_vv v.
Proof.
  split.
  - intros [Hr Hs]. split; [exact Hs|apply api_reach_entries_ok, Hr].
  - intros Hwf. split; [|apply Hwf]. apply wire_accepts_exactly in Hwf as (bs & Hr). exact (api_read bs v [] Hr).
Qed.

(** * The counter cap: exact boundary on both sides *)
Theorem vinc_boundary v k : valid_addr k = true ->
  (vget v k < max_counter -> exists v', vinc v k = Ok v' /\ vget v' k = vget v k + 1 /\ vget v' k <= max_counter) /\
  (max_counter <= vget v k -> vinc v k = Err EOverflow).
Proof.
  intros Hk. unfold vinc. rewrite Hk. split; intros Hc.
  - destruct (N.leb_spec max_counter (vget v k)); [lia|]. eexists. split; [reflexivity|].
    assert (G : vget (<[k:=vget v k + 1]> v) k = vget v k + 1) by (unfold vget at 1; rewrite lookup_insert; reflexivity).
    rewrite G. lia.
  - destruct (N.leb_spec max_counter (vget v k)); [reflexivity|lia].
Qed.

(** the counters Increment can produce are exactly 1 .. 2^63-1 *)
Theorem inc_producible_iff c :
  (exists v k v', vinc v k = Ok v' /\ vget v' k = c) <-> 1 <= c <= max_counter.
Proof.
  split.
  - intros (v & k & v' & Hi & Hg). pose proof (vinc_ok v k v' Hi) as (E & _).
    unfold vinc in Hi. destruct (valid_addr k); [|discriminate]. destruct (N.leb_spec max_counter (vget v k)); [discriminate|]. lia.
  - intros Hc. exists {[ [97] := c - 1 ]}, [97], (<[ [97] := c ]> {[ [97] := c - 1 ]}). 
    assert (Hg : vget ({[ [97] := c - 1 ]} : vv) [97] = c - 1) by (unfold vget; rewrite lookup_singleton; reflexivity).
    split.
    + unfold vinc. cbn [valid_addr length]. rewrite Hg.
      replace (valid_addr [97]) with true by reflexivity.
      destruct (N.leb_spec max_counter (c - 1)); [lia|]. do 2 f_equal. lia.
    + unfold vget. rewrite lookup_insert. reflexivity.
Qed.

(** the reader's boundary, on a one-entry encoding with ANY 64-bit counter *)
Theorem vread_counter_boundary k c rest : valid_addr k = true -> c < 18446744073709551616 ->
  vread (put_u32 1 ++ put_lp4 k ++ put_u64 c ++ rest) =
  if c <=? max_counter then Ok ({[ k := c ]}, rest) else Err EOverflow.
Proof.
  intros Hk Hc. unfold vread. rewrite rd_u32_put by lia. cbn [bind].
  replace (max_entries <? 1) with false by reflexivity.
  change (N.to_nat 1) with 1%nat. cbn [vread_entries].
  rewrite rd_lp4_put.
  2:{ unfold valid_addr, max_addr_len in Hk. apply andb_true_iff in Hk as [_ Hk]. apply N.leb_le in Hk. lia. }
  cbn [bind]. rewrite Hk. rewrite rd_u64_put by exact Hc. cbn [bind].
  destruct (N.leb_spec c max_counter), (N.ltb_spec max_counter c); try lia; reflexivity.
Qed.

(** the counters that can arrive over the wire are exactly 0 .. 2^63-1 *)
Theorem wire_counter_iff c :
  (exists bs v rest k, vread bs = Ok (v, rest) /\ v !! k = Some c) <-> c <= max_counter.
Proof.
  split.
  - intros (bs & v & rest & k & Hr & Hl). apply vread_wf in Hr. apply (proj2 Hr k c Hl).
  - intros Hc. exists (put_u32 1 ++ put_lp4 [97] ++ put_u64 c ++ []), {[ [97] := c ]}, [], [97]. split.
    + rewrite vread_counter_boundary; [|reflexivity|unfold max_counter in Hc; lia].
      destruct (N.leb_spec c max_counter); [reflexivity|lia].
    + apply lookup_singleton.
Qed.

(** * The entry-count cap is enforced on the wire only: Increment and Merge have none *)
Lemma vinc_size v k v' : vinc v k = Ok v' ->
  size v' = (match v !! k with None => S (size v) | Some _ => size v end).
Proof.
  unfold vinc. destruct (valid_addr k); [|discriminate]. destruct (max_counter <=? vget v k); [discriminate|]. intros [= <-].
  destruct (v !! k) eqn:E; [apply map_size_insert_Some; eexists; exact E|apply map_size_insert_None, E].
Qed.

Theorem vinc_beyond_entry_cap v k v' :
  N.of_nat (size v) = max_entries -> v !! k = None -> vinc v k = Ok v' -> vwrite v' = Err ETooLarge.
Proof.
  intros Hs Hk Hi. apply vwrite_too_large_iff. rewrite (vinc_size v k v' Hi), Hk. lia.
Qed.

(** a vector with exactly [n] entries (two-byte addresses), for every n <= 65536 *)
Definition key_of (i : nat) : list N := [N.of_nat i / 256; N.of_nat i mod 256].
Definition big_vv (n : nat) : vv := list_to_map (map (fun i => (key_of i, 1)) (seq 0 n)).

Lemma key_of_inj i j : key_of i = key_of j -> i = j.
Proof.
  unfold key_of. intros [= H1 H2].
  pose proof (N.div_mod (N.of_nat i) 256 ltac:(lia)). pose proof (N.div_mod (N.of_nat j) 256 ltac:(lia)). lia.
Qed.

Lemma big_vv_keys n : NoDup ((map (fun i => (key_of i, 1)) (seq 0 n)).*1).
Proof.
  rewrite <- list_fmap_compose. apply NoDup_fmap_2_strong; [|apply NoDup_seq].
  intros i j _ _ H. cbn in H. apply key_of_inj, H.
Qed.
Lemma big_vv_size n : size (big_vv n) = n.
Proof.
  unfold big_vv. change (size ?m) with (length (map_to_list m)).
  rewrite (Permutation_length (map_to_list_to_map _ (big_vv_keys n))). rewrite map_length, seq_length. reflexivity.
Qed.
Lemma big_vv_lookup n k c : big_vv n !! k = Some c -> length k = 2%nat /\ c = 1.
Proof.
  unfold big_vv. intros H. apply elem_of_list_to_map_2 in H. apply elem_of_list_In, in_map_iff in H as (i & [= <- <-] & _).
  split; reflexivity.
Qed.

(** the hypotheses of [vinc_beyond_entry_cap] are met by a vector the wire accepts: "a vector survives
    serialisation" stops at 65535 entries although Increment does not *)
Theorem entry_cap_reachable :
  exists v k v', wf_vv v /\ N.of_nat (size v) = max_entries /\ v !! k = None /\ vinc v k = Ok v' /\
                 vwrite v' = Err ETooLarge.
Proof.
  set (n := N.to_nat 65535).
  assert (En : N.of_nat n = max_entries) by (unfold n; rewrite N2Nat.id; reflexivity).
  exists (big_vv n), [1; 1; 1].
  assert (Hn : big_vv n !! [1; 1; 1] = None).
  { destruct (big_vv n !! [1; 1; 1]) as [c|] eqn:E; [|reflexivity]. apply big_vv_lookup in E as [E _]. discriminate. }
  assert (Hg : vget (big_vv n) [1; 1; 1] = 0) by (unfold vget; rewrite Hn; reflexivity).
  eexists. split; [|split; [|split; [exact Hn|split]]].
  - split; [rewrite big_vv_size, En; vm_compute; discriminate|]. intros k c H. apply big_vv_lookup in H as [Hk ->].
    split; [|vm_compute; discriminate]. unfold valid_addr. rewrite Hk. reflexivity.
  - rewrite big_vv_size. exact En.
  - unfold vinc. replace (valid_addr [1; 1; 1]) with true by reflexivity. rewrite Hg. reflexivity.
  - apply vwrite_too_large_iff. rewrite map_size_insert_None by exact Hn. rewrite big_vv_size. unfold max_entries in *. lia.
Qed.

(** * PruneWithMax never invents or changes a counter *)
Theorem vprune_sub v act maxe k c :
  vprune_max v act maxe !! k = Some c -> v !! k = Some c /\ k ∈ act.
Proof.
  unfold vprune_max. destruct (_ || _); [rewrite lookup_empty; discriminate|].
  intros H. apply map_filter_lookup_Some in H as [H1 H2]. split; [exact H1|].
  cbn in H2. apply bool_decide_unpack in H2.
  destruct (_ <? N.of_nat (length act)); [|exact H2].
  apply elem_of_take in H2 as (i & H2 & _). apply elem_of_list_lookup_2 in H2.
  rewrite isort_perm in H2. exact H2.
Qed.
(** with a limit that is not exceeded, the result is exactly the restriction to the active nodes *)
Theorem vprune_exact v act maxe k :
  N.of_nat (length act) <= (if (maxe <=? 0)%Z then max_entries else Z.to_N maxe) ->
  vprune_max v act maxe !! k = if bool_decide (k ∈ act) then v !! k else None.
Proof.
  intros Hlim. unfold vprune_max.
  destruct (bool_decide (size v = 0%nat)) eqn:E1; cbn [orb].
  { apply bool_decide_eq_true, map_size_empty_inv in E1. subst. rewrite !lookup_empty. destruct (bool_decide _); reflexivity. }
  destruct (bool_decide (length act = 0%nat)) eqn:E2.
  { apply bool_decide_eq_true in E2. destruct act; [|discriminate]. rewrite lookup_empty.
    rewrite bool_decide_eq_false_2 by (apply not_elem_of_nil). reflexivity. }
  destruct (N.ltb_spec (if (maxe <=? 0)%Z then max_entries else Z.to_N maxe) (N.of_nat (length act))); [lia|].
  destruct (bool_decide (k ∈ act)) eqn:Ek.
  - apply bool_decide_eq_true in Ek. destruct (v !! k) as [c|] eqn:Ev.
    + apply map_filter_lookup_Some. split; [exact Ev|]. cbn. apply bool_decide_pack, Ek.
    + apply map_filter_lookup_None. left. exact Ev.
  - apply bool_decide_eq_false in Ek. apply map_filter_lookup_None. right. intros c _ Hc. cbn in Hc.
    apply bool_decide_unpack in Hc. contradiction.
Qed.
Theorem vprune_below v act maxe : vle (vprune_max v act maxe) v.
Proof.
  intros k. unfold vget. destruct (vprune_max v act maxe !! k) as [c|] eqn:E; cbn; [|lia].
  apply vprune_sub in E as [-> _]. cbn. lia.
Qed.
