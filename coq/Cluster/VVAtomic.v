(** Concurrent semantics of AtomicVersionVector (internal/cluster/version_vector.go since 2f67bea):
    any number of goroutines running [Increment(node)] loops on ONE wrapper, interleaved at the granularity of
    the atomic operations of the code.

      Increment:        for { current := avv.Load()                      -- step 1: pointer load + deref
                              newVec, err := current.Increment(node)     --   (thread-local: fresh memory, immutable inputs)
                              if err != nil { return err }
                              if avv.CompareAndSwap(current, newVec) { return newVec } }
      CompareAndSwap:   current := value.Load()                          -- step 2: pointer load
                        if !current.Equal(old) { return false }          --   (reads immutable boxes only)
                        return value.CompareAndSwap(current, &new)       -- step 3: pointer CAS

    The shared state is the pointer held by the wrapper and the (immutable) boxes it has ever pointed to; a box
    holds a vector VALUE here (that the heap programs of Cluster/VVHeap.v compute exactly these values, and never
    write an existing object, is VVHeapProofs.v).  A schedule is a list of thread indices. *)
From Coq Require Import List NArith ZArith Lia Bool.
From stdpp Require Import gmap.
From Vivid Require Import Codec.Prim Cluster.VV.
Local Open Scope N_scope.

Notation akey := (list N).

Record ashared := AShared {
  as_boxes : gmap N vv;      (* every box ever allocated, by address; never overwritten *)
  as_ptr : N;                (* the pointer the wrapper holds *)
  as_next : N }.             (* allocation pointer *)

Inductive apc : Type :=
| PStart                                   (* between calls / at the top of the retry loop *)
| PLoaded (cur nv : vv)                    (* Increment computed [nv] from the value [cur] it loaded *)
| PCas (p1 : N) (cur nv : vv).             (* inside CompareAndSwap: pointer [p1] loaded *)

Record athread := AThread {
  t_node : akey;                           (* the node this goroutine increments *)
  t_todo : nat;                            (* calls not yet completed *)
  t_pc : apc;
  t_ok : list (vv * vv);                   (* completed successful calls: (value read, vector returned) *)
  t_errs : nat }.                          (* completed calls that returned an error *)

Definition as_value (s : ashared) : vv := default ∅ (as_boxes s !! as_ptr s).
Definition a_init (v0 : vv) : ashared := AShared {[ 0 := v0 ]} 0 1.

(** one atomic step of one thread *)
Definition tstep (t : athread) (s : ashared) : athread * ashared :=
  match t_pc t with
  | PStart =>
      match t_todo t with
      | O => (t, s)                                                         (* finished *)
      | S todo' =>
          let cur := as_value s in
          match vinc cur (t_node t) with
          | Ok nv => (AThread (t_node t) (t_todo t) (PLoaded cur nv) (t_ok t) (t_errs t), s)
          | Err _ => (AThread (t_node t) todo' PStart (t_ok t) (S (t_errs t)), s)   (* the call returns the error *)
          end
      end
  | PLoaded cur nv => (AThread (t_node t) (t_todo t) (PCas (as_ptr s) cur nv) (t_ok t) (t_errs t), s)
  | PCas p1 cur nv =>
      match vcompare (default ∅ (as_boxes s !! p1)) cur with
      | VEqual =>
          if as_ptr s =? p1
          then (* the swap: a new box holding exactly [nv]; the call returns [nv] *)
               (AThread (t_node t) (pred (t_todo t)) PStart (t_ok t ++ [(cur, nv)]) (t_errs t),
                AShared (<[as_next s := nv]> (as_boxes s)) (as_next s) (as_next s + 1))
          else (AThread (t_node t) (t_todo t) PStart (t_ok t) (t_errs t), s)      (* pointer replaced: retry *)
      | _ => (AThread (t_node t) (t_todo t) PStart (t_ok t) (t_errs t), s)        (* value differs: retry *)
      end
  end.

Definition astate := (list athread * ashared)%type.

Fixpoint set_nth {A} (i : nat) (x : A) (l : list A) : list A :=
  match l, i with
  | [], _ => []
  | _ :: r, O => x :: r
  | y :: r, S i' => y :: set_nth i' x r
  end.

(** thread [i] moves (an index outside the pool is a no-op) *)
Definition astep (i : nat) (st : astate) : astate :=
  match nth_error (fst st) i with
  | Some t => let '(t', s') := tstep t (snd st) in (set_nth i t' (fst st), s')
  | None => st
  end.
Definition arun_sched (sched : list nat) (st : astate) : astate := fold_left (fun st i => astep i st) sched st.

(** successful calls completed so far on node [k], over all threads *)
Definition succ_on (k : akey) (ths : list athread) : N :=
  fold_right (fun t acc => (if bool_decide (t_node t = k) then N.of_nat (length (t_ok t)) else 0) + acc) 0 ths.

Definition thread0 (node : akey) (todo : nat) : athread := AThread node todo PStart [] 0.
Definition all_done (ths : list athread) : bool :=
  forallb (fun t => match t_pc t, t_todo t with PStart, O => true | _, _ => false end) ths.

(** executable schedule of the model instance: round robin until everybody is done (fuel = number of rounds) *)
Fixpoint run_rr (fuel : nat) (st : astate) : option astate :=
  if all_done (fst st) then Some st else
  match fuel with
  | O => None
  | S f => run_rr f (arun_sched (seq 0 (length (fst st))) st)
  end.
