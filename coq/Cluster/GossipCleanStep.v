(** Every step of a clean history preserves the clean-world invariant [cinv] (for a suitably extended ghost log). *)
From Coq Require Import List NArith ZArith Lia Bool.
From Coq Require Import ZifyN ZifyNat ZifyBool.
From stdpp Require Import gmap.
From Vivid Require Import Codec.Prim Cluster.VV Cluster.VVProofs Cluster.View Cluster.ViewProofs
  Cluster.Gossip Cluster.GossipProofs Cluster.GossipClean Cluster.GossipCleanOps Cluster.GossipCleanInv.
Local Open Scope N_scope.

(** * cached counts *)
Definition all_up (m : members) : Prop := forall k s, m !! k = Some s -> ns_status s = st_up.

Lemma recompute_CC v : all_up (vw_members v) -> CC (recompute v).
Proof.
  intros Hu. unfold CC, recompute. cbn [vw_healthy vw_quorum vw_members].
  assert (E : count_up (map_to_list (vw_members v)) = N.of_nat (size (vw_members v))).
  { rewrite count_up_all_up; [reflexivity|].
    intros [k s] Hp. apply elem_of_map_to_list in Hp. cbn. apply (Hu k s Hp). }
  rewrite E. split; reflexivity.
Qed.

Lemma truthful_all_up w v : truthful w v -> all_up (vw_members v).
Proof. intros H k s Hk. apply (H k s Hk). Qed.

Lemma view_add_CC v s : CC v -> all_up (vw_members v) -> ns_status s = st_up -> CC (view_add v s).
Proof.
  intros Hc Hu Hs.
  assert (Hins : CC (recompute (set_members v (<[ns_id s := s]> (vw_members v))))).
  { apply recompute_CC. intros k x Hk. destruct v; cbn in *. destruct (decide (k = ns_id s)) as [->|Hne].
    - rewrite lookup_insert in Hk. injection Hk as <-. exact Hs.
    - rewrite lookup_insert_ne in Hk by congruence. apply (Hu k x Hk). }
  unfold view_add. destruct (vw_members v !! ns_id s) as [e|]; [destruct (isnewer s e)|]; assumption.
Qed.

Lemma view_inc_CC v id : CC v -> CC (view_inc v id).
Proof.
  intros H. unfold view_inc. destruct id; [exact H|]. destruct (vinc _ _); [|exact H]. destruct v; exact H.
Qed.

Lemma merge_CC v o now : CC v -> all_up (vw_members (fst (view_merge 0 0 now v o))) -> CC (fst (view_merge 0 0 now v o)).
Proof.
  intros Hc Hu. destruct (o_empty_dec o) as [He|He].
  - rewrite view_merge_empty by exact He. exact Hc.
  - rewrite view_merge_members in Hu. unfold view_merge, view_merge_gen. rewrite bool_decide_eq_false_2 by exact He.
    cbn [fst]. set (v1 := recompute (set_members v (merge_members (vw_members v) (vw_members o)))).
    assert (H1 : CC v1) by (apply recompute_CC; destruct v; exact Hu).
    unfold CC in *. cbn [vw_healthy vw_quorum vw_members]. exact H1.
Qed.

Lemma refresh_CC v id now : CC v -> CC (set_members v (alter (fun s => ns_refresh s now) id (vw_members v))).
Proof.
  intros H. unfold CC in *. destruct v as [ep ts ms h u q vx pr mx]; cbn [vw_healthy vw_quorum vw_members set_members] in *.
  assert (E : size (alter (fun s => ns_refresh s now) id ms) = size ms) by (rewrite <- !size_dom, dom_alter_L; reflexivity).
  rewrite E. exact H.
Qed.

(** with these counts SatisfiesQuorum (global majority) says: the view is not empty *)
Lemma CC_sat_quorum v : CC v -> sat_quorum v = (0 <? N.of_nat (size (vw_members v))).
Proof.
  intros [H1 H2]. unfold sat_quorum. rewrite H1, H2. destruct (0 <? N.of_nat (size (vw_members v))) eqn:E; [|reflexivity].
  cbn [andb]. apply andb_true_iff. split; [lia|].
  apply N.leb_le. pose proof (N.div_le_upper_bound (N.of_nat (size (vw_members v))) 2 (N.of_nat (size (vw_members v)))).
  assert (N.of_nat (size (vw_members v)) / 2 < N.of_nat (size (vw_members v))) by (apply N.div_lt; lia). lia.
Qed.

(** * View level *)

(** a local change: AddMember(s) on [v], possibly followed by an increment of the owner's counter *)
Lemma local_just_cover G v v2 s i c :
  WF v -> wf_state s -> just G v -> cover G v ->
  vw_members v2 = vw_members (view_add v s) ->
  (forall k, k <> i -> vget (vw_vv v2) k = vget (vw_vv v) k) ->
  vget (vw_vv v) i <= vget (vw_vv v2) i -> c = vget (vw_vv v2) i ->
  (forall e0, e0 ∈ G -> g_i e0 = i -> g_c e0 <= vget (vw_vv v) i) ->
  just (G ++ [GEnt i c (ns_id s) (inc_of s)]) v2 /\ cover (G ++ [GEnt i c (ns_id s) (inc_of s)]) v2.
Proof.
  intros Hwf Hs Hj Hc Hm Hoth Hi Ec Hwin.
  assert (Hle : forall k, vget (vw_vv v) k <= vget (vw_vv v2) k).
  { intros k. destruct (decide (k = i)) as [->|Hne]; [exact Hi|rewrite Hoth by exact Hne; lia]. }
  split.
  - intros m e Hme. rewrite Hm in Hme. apply view_add_lookup_cases in Hme as [Hold|[-> ->]].
    + destruct (Hj m e Hold) as (e0 & H1 & H2 & H3 & H4). exists e0. split; [apply elem_of_app; left; exact H1|].
      split; [exact H2|]. split; [exact H3|]. unfold sel in *. specialize (Hle (g_i e0)). lia.
    + eexists. split; [apply elem_of_app; right; apply elem_of_list_singleton; reflexivity|].
      cbn. split; [reflexivity|]. split; [reflexivity|]. unfold sel; cbn. lia.
  - intros e He Hsel. apply elem_of_app in He as [He|He].
    + assert (Hsel0 : sel (vw_vv v) e).
      { unfold sel in *. destruct (decide (g_i e = i)) as [Ei|Hne]; [rewrite Ei; apply Hwin; assumption|].
        rewrite Hoth in Hsel by exact Hne. exact Hsel. }
      destruct (Hc e He Hsel0) as (s0 & Hs0 & L0).
      destruct (view_add_keeps v s (g_m e) s0 Hwf Hs Hs0) as (s1 & Hs1 & L1).
      exists s1. rewrite Hm. split; [exact Hs1|]. eapply inc_lt_false_trans; eassumption.
    + apply elem_of_list_singleton in He. subst e. cbn.
      destruct (view_add_lookup_self v s Hwf Hs) as (e1 & H1 & H2 & _). exists e1. rewrite Hm. split; [exact H1|exact H2].
Qed.

Lemma merge_just_cover G v o now :
  WF v -> WF o -> VVin v -> VVin o -> vw_maxent v = 0%Z ->
  capN (merge_members (vw_members v) (vw_members o)) ->
  just G v -> just G o -> cover G v -> cover G o ->
  just G (fst (view_merge 0 0 now v o)) /\ cover G (fst (view_merge 0 0 now v o)).
Proof.
  intros Wv Wo Iv Io H0 Hcap Jv Jo Cv Co.
  assert (Hmax : forall k, vget (vw_vv (fst (view_merge 0 0 now v o))) k = N.max (vget (vw_vv v) k) (vget (vw_vv o) k))
    by (intros k; apply merge_vget; assumption).
  split.
  - intros m s Hs. apply merge_lookup_cases in Hs as [Hs|Hs].
    + destruct (Jv m s Hs) as (e & H1 & H2 & H3 & H4). exists e. repeat split; try assumption. unfold sel in *. rewrite Hmax. lia.
    + destruct (Jo m s Hs) as (e & H1 & H2 & H3 & H4). exists e. repeat split; try assumption. unfold sel in *. rewrite Hmax. lia.
  - intros e He Hsel. unfold sel in Hsel. rewrite Hmax in Hsel.
    destruct (N.le_gt_cases (g_c e) (vget (vw_vv v) (g_i e))) as [Hl|Hl].
    + destruct (Cv e He Hl) as (s & Hs & L). destruct (merge_lookup_ge_l v o now _ _ Wv Wo Hs) as (s' & Hs' & L').
      exists s'. split; [exact Hs'|eapply inc_lt_false_trans; eassumption].
    + assert (Hr : sel (vw_vv o) e) by (unfold sel; lia).
      destruct (Co e He Hr) as (s & Hs & L). destruct (merge_lookup_ge_r v o now _ _ Wv Wo Hs) as (s' & Hs' & L').
      exists s'. split; [exact Hs'|eapply inc_lt_false_trans; eassumption].
Qed.

Lemma truthful_merge w v o now : truthful w v -> truthful w o -> truthful w (fst (view_merge 0 0 now v o)).
Proof. intros Hv Ho m s Hs. apply merge_lookup_cases in Hs as [Hs|Hs]; [apply (Hv m s Hs)|apply (Ho m s Hs)]. Qed.

Definition nodes_cap (w : world) : Prop := N.of_nat (size (w_nodes w)) <= max_entries.
Definition ids_uniq (w : world) : Prop :=
  forall a b n m, w_nodes w !! a = Some n -> w_nodes w !! b = Some m -> nd_id n = nd_id m -> a = b.

Lemma truthful_capN w v : truthful w v -> ids_uniq w -> nodes_cap w -> capN (vw_members v).
Proof. intros Ht Hu Hc. unfold capN. pose proof (truthful_size w v Ht Hu). unfold nodes_cap in Hc. lia. Qed.

Lemma vinv0_merge G w v o now :
  ids_uniq w -> nodes_cap w -> vinv0 G w v -> vinv0 G w o -> vinv0 G w (fst (view_merge 0 0 now v o)).
Proof.
  intros Hu Hcap [Wv Iv Tv Jv Cv Ev Pv Mv CCv] [Wo Io To Jo Co Eo Po Mo CCo].
  assert (Tm : truthful w (fst (view_merge 0 0 now v o))) by (apply truthful_merge; assumption).
  assert (Cm : capN (merge_members (vw_members v) (vw_members o))).
  { rewrite <- (view_merge_members 0 0 now). eapply truthful_capN; eassumption. }
  destruct (merge_just_cover G v o now) as [Jm Cvm]; try assumption.
  destruct (merge_fields v o now Ev Eo Pv Po) as (E1 & E2 & E3).
  split; try assumption.
  - apply WF_merge; assumption.
  - apply VVin_merge; assumption.
  - rewrite E3. exact Mv.
  - apply merge_CC; [exact CCv|eapply truthful_all_up; exact Tm].
Qed.

Lemma vinv0_merge_vget G w v o now k :
  ids_uniq w -> nodes_cap w -> vinv0 G w v -> vinv0 G w o ->
  vget (vw_vv (fst (view_merge 0 0 now v o))) k = N.max (vget (vw_vv v) k) (vget (vw_vv o) k).
Proof.
  intros Hu Hcap Hv Ho.
  assert (Cm : capN (merge_members (vw_members v) (vw_members o))).
  { rewrite <- (view_merge_members 0 0 now). eapply truthful_capN; [|eassumption|eassumption].
    apply truthful_merge; [apply Hv|apply Ho]. }
  apply merge_vget; try assumption; try apply Hv; apply Ho.
Qed.

Lemma vown'_merge G w id v o now :
  ids_uniq w -> nodes_cap w -> vinv0 G w v -> vinv0 G w o -> vown' w id v -> vown' w id o ->
  vown' w id (fst (view_merge 0 0 now v o)).
Proof.
  intros Hu Hcap Hv Ho Ov Oo k Hpos. rewrite (vinv0_merge_vget G w) in Hpos |- * by assumption.
  destruct (N.max_spec (vget (vw_vv v) k) (vget (vw_vv o) k)) as [[_ E]|[_ E]]; rewrite E in *; [apply Oo|apply Ov]; exact Hpos.
Qed.

(** the refresh of handleGossip *)
Lemma vinv0_refresh G w v id now :
  vinv0 G w v -> vinv0 G w (set_members v (alter (fun s => ns_refresh s now) id (vw_members v))).
Proof.
  intros [Wv Iv Tv Jv Cv Ev Pv Mv CCv].
  assert (Hl : forall k, vw_members (set_members v (alter (fun s => ns_refresh s now) id (vw_members v))) !! k =
                         if decide (k = id) then (fun s => ns_refresh s now) <$> (vw_members v !! k) else vw_members v !! k).
  { intros k. destruct v; cbn. apply refresh_lookup. }
  assert (Hvv : vw_vv (set_members v (alter (fun s => ns_refresh s now) id (vw_members v))) = vw_vv v) by (destruct v; reflexivity).
  split.
  - apply refresh_WF; exact Wv.
  - intros k Hk. rewrite Hvv in Hk. destruct (Iv k Hk) as [s Hs]. rewrite Hl. destruct (decide (k = id)); rewrite Hs; eexists; reflexivity.
  - intros m s Hs. rewrite Hl in Hs. destruct (decide (m = id)) as [->|Hne]; [|apply (Tv m s Hs)].
    destruct (vw_members v !! id) as [s0|] eqn:E0; [|discriminate]. cbn in Hs. injection Hs as <-.
    destruct (Tv id s0 E0) as (Hu & n & Hn & Hid). split; [apply ns_refresh_up; exact Hu|]. exists n. split; [exact Hn|exact Hid].
  - intros m s Hs. rewrite Hl in Hs. rewrite Hvv. destruct (decide (m = id)) as [->|Hne]; [|apply (Jv m s Hs)].
    destruct (vw_members v !! id) as [s0|] eqn:E0; [|discriminate]. cbn in Hs. injection Hs as <-.
    destruct (Jv id s0 E0) as (e & H1 & H2 & H3 & H4). exists e. repeat split; assumption.
  - intros e He Hsel. rewrite Hvv in Hsel. destruct (Cv e He Hsel) as (s & Hs & L). rewrite Hl.
    destruct (decide (g_m e = id)) as [Ei|Hne]; [|exists s; split; assumption].
    rewrite Hs. cbn. eexists. split; [reflexivity|exact L].
  - destruct v; exact Ev.
  - destruct v; exact Pv.
  - destruct v; exact Mv.
  - apply refresh_CC. exact CCv.
Qed.

(** * broadcast / publish_leader leave everything the invariant talks about unchanged, except that the last-vector
    map is pruned *)
Lemma prune_last_sub n t q : nd_last (prune_last n) !! t = Some q -> nd_last n !! t = Some q.
Proof. unfold prune_last; cbn. intros H. apply map_filter_lookup_Some in H as [H _]. exact H. Qed.

Lemma broadcast_node n :
  nd_cfg (fst (broadcast n)) = nd_cfg n /\ nd_self (fst (broadcast n)) = nd_self n /\
  nd_view (fst (broadcast n)) = nd_view n /\ nd_last (fst (broadcast n)) = nd_last (prune_last n) /\
  nd_gossip_on (fst (broadcast n)) = nd_gossip_on n /\ nd_fd_on (fst (broadcast n)) = nd_fd_on n /\
  nd_retry_on (fst (broadcast n)) = nd_retry_on n.
Proof. repeat split; reflexivity. Qed.

Lemma publish_node n :
  nd_cfg (fst (publish_leader n)) = nd_cfg n /\ nd_self (fst (publish_leader n)) = nd_self n /\
  nd_view (fst (publish_leader n)) = nd_view n /\ nd_last (fst (publish_leader n)) = nd_last n /\
  nd_gossip_on (fst (publish_leader n)) = nd_gossip_on n /\ nd_fd_on (fst (publish_leader n)) = nd_fd_on n /\
  nd_retry_on (fst (publish_leader n)) = nd_retry_on n.
Proof. repeat split; reflexivity. Qed.

(** what a broadcast does for a target: a GossipMessage carrying the current view, or the last vector heard from
    the target already dominates the own one *)
Lemma broadcast_covers n t :
  t ∈ select_targets n ->
  (t, nd_view n) ∈ snd (broadcast n) \/ exists q, nd_last n !! t = Some q /\ vle (vw_vv (nd_view n)) q.
Proof.
  intros Ht. destruct (should_send (prune_last n) (vw_vv (nd_view n)) t) eqn:E.
  - left. unfold broadcast; cbn [snd]. apply elem_of_list_fmap. exists t. split; [reflexivity|].
    apply elem_of_list_In, filter_In. split; [apply elem_of_list_In; rewrite select_targets_prune; exact Ht|exact E].
  - right. unfold should_send in E. destruct (nd_last (prune_last n) !! t) as [q|] eqn:Eq; [|discriminate].
    exists q. split; [apply prune_last_sub; exact Eq|]. apply vle_compare.
    destruct (vcompare (vw_vv (nd_view n)) q); try discriminate; auto.
Qed.

Lemma select_targets_spec n t :
  t ∈ select_targets n <->
  t <> [] /\ t <> nd_addr n /\ (t ∈ c_seeds (nd_cfg n) \/ exists k s, vw_members (nd_view n) !! k = Some s /\ ns_addr s = t).
Proof.
  unfold select_targets. rewrite isort_elem, elem_of_remove_dups, elem_of_list_In, filter_In, <- elem_of_list_In.
  rewrite elem_of_app, andb_true_iff, negb_true_iff. unfold nonempty. rewrite negb_true_iff, !bool_decide_eq_false.
  split.
  - intros [[H|H] [H1 H2]]; (split; [exact H1|]; split; [exact H2|]); [left; exact H|right].
    apply elem_of_list_In, in_map_iff in H as (s & <- & Hs). apply elem_of_list_In in Hs.
    unfold states in Hs. apply elem_of_list_fmap in Hs as ([k s'] & -> & Hk). apply elem_of_map_to_list in Hk.
    exists k, s'. split; [exact Hk|reflexivity].
  - intros (H1 & H2 & [H|(k & s & Hk & <-)]); (split; [|split; assumption]); [left; exact H|right].
    apply elem_of_list_In, in_map_iff. exists s. split; [reflexivity|]. apply elem_of_list_In.
    unfold states. apply elem_of_list_fmap. exists (k, s). split; [reflexivity|]. apply elem_of_map_to_list. exact Hk.
Qed.
