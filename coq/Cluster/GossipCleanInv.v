(** The invariant of clean worlds.

    Ghost state: a log [G] of the LOCAL membership changes, one entry (owner NodeID i, value c of the owner's own
    version-vector counter when the change was made, member id m, incarnation x) per AddMember that a node
    performed on its own initiative (bootstrap, accepting a join, completing its own join, the rejoin bump).
    The invariant says that the membership of every view that exists in the world (of a node, of a GossipMessage
    in flight) is exactly what its version vector selects from the log:
      [just]   every listed member at incarnation x is justified by a log entry (i, c, m, x) with c <= vv[i];
      [cover]  every log entry (i, c, m, x) with c <= vv[i] is covered: m is listed at an incarnation >= x.
    Hence the vector order IS the membership order (vv u <= vv v -> members u <= members v), which is what makes
    the gossip suppression of shouldSendGossipTo sound in this class of histories. *)
From Coq Require Import List NArith ZArith Lia Bool.
From Coq Require Import ZifyN ZifyNat ZifyBool.
From stdpp Require Import gmap.
From Vivid Require Import Codec.Prim Cluster.VV Cluster.VVProofs Cluster.View Cluster.ViewProofs
  Cluster.Gossip Cluster.GossipProofs Cluster.GossipClean Cluster.GossipCleanOps.
Local Open Scope N_scope.

Record gent := GEnt { g_i : list N; g_c : N; g_m : list N; g_x : Z * N }.
Notation glog := (list gent).

Definition sel (V : vv) (e : gent) : Prop := g_c e <= vget V (g_i e).

Definition just (G : glog) (v : view) : Prop :=
  forall m s, vw_members v !! m = Some s ->
    exists e, e ∈ G /\ g_m e = m /\ g_x e = inc_of s /\ sel (vw_vv v) e.
Definition cover (G : glog) (v : view) : Prop :=
  forall e, e ∈ G -> sel (vw_vv v) e ->
    exists s, vw_members v !! g_m e = Some s /\ inc_lt (inc_of s) (g_x e) = false.

(** the vector order is the membership order *)
Lemma just_cover_ple G u v : just G u -> cover G v -> vle (vw_vv u) (vw_vv v) -> ple (proj u) (proj v).
Proof.
  intros Hj Hc Hle m x Hm. rewrite proj_lookup in Hm.
  destruct (vw_members u !! m) as [s|] eqn:Es; [|discriminate]. cbn in Hm. injection Hm as <-.
  destruct (Hj m s Es) as (e & He & Em & Ex & Hs).
  destruct (Hc e He) as (s' & Hs' & L).
  - unfold sel in *. specialize (Hle (g_i e)). lia.
  - exists (inc_of s'). rewrite proj_lookup, <- Em, Hs'. split; [reflexivity|]. rewrite <- Ex. exact L.
Qed.

(** every member is Up and is a running node: the node at the member's address has the member's id *)
Definition truthful (w : world) (v : view) : Prop :=
  forall m s, vw_members v !! m = Some s ->
    ns_status s = st_up /\ exists n, w_nodes w !! ns_addr s = Some n /\ nd_id n = m.

(** no view is ahead of a node on that node's own counter *)
Definition vown (w : world) (v : view) : Prop :=
  forall id, 0 < vget (vw_vv v) id ->
    exists a n, w_nodes w !! a = Some n /\ nd_id n = id /\ vget (vw_vv v) id <= vget (vw_vv (nd_view n)) id.

(** the cached counts are those of a view all of whose members are Up (recomputeCounts after every change) *)
Definition CC (v : view) : Prop :=
  vw_healthy v = N.of_nat (size (vw_members v)) /\
  vw_quorum v = (if 0 <? N.of_nat (size (vw_members v)) then N.of_nat (size (vw_members v)) / 2 + 1 else 0).
(** the event publisher's memory is up to date *)
Definition pub_ok (n : node) : Prop := nd_leader n = leader_of (nd_view n) /\ nd_inq n = sat_quorum (nd_view n).

Record vinv (G : glog) (w : world) (v : view) : Prop := {
  vi_wf : WF v;
  vi_vvin : VVin v;
  vi_truth : truthful w v;
  vi_just : just G v;
  vi_cover : cover G v;
  vi_own : vown w v;
  vi_ep : vw_epoch v = 0%Z;
  vi_pr : vw_proto v = 1;
  vi_mx : vw_maxent v = 0%Z;
  vi_cc : CC v
}.

(** the part of [vinv] that does not look at the other nodes' counters *)
Record vinv0 (G : glog) (w : world) (v : view) : Prop := {
  v0_wf : WF v;
  v0_vvin : VVin v;
  v0_truth : truthful w v;
  v0_just : just G v;
  v0_cover : cover G v;
  v0_ep : vw_epoch v = 0%Z;
  v0_pr : vw_proto v = 1;
  v0_mx : vw_maxent v = 0%Z;
  v0_cc : CC v
}.
Lemma vinv_vinv0 G w v : vinv G w v -> vinv0 G w v.
Proof. intros []. split; assumption. Qed.
Lemma vinv0_vinv G w v : vinv0 G w v -> vown w v -> vinv G w v.
Proof. intros [] ?. split; assumption. Qed.

(** ... relaxed for the view a node is building in a handler: its OWN counter may be ahead *)
Definition vown' (w : world) (id : list N) (v : view) : Prop :=
  forall k, 0 < vget (vw_vv v) k -> k = id \/
    exists a n, w_nodes w !! a = Some n /\ nd_id n = k /\ vget (vw_vv v) k <= vget (vw_vv (nd_view n)) k.
Lemma vown_vown' w id v : vown w v -> vown' w id v.
Proof. intros H k Hk. right. apply H. exact Hk. Qed.

Record ninv (G : glog) (w : world) (a : addr) (n : node) : Prop := {
  ni_addr : nd_addr n = a;
  ni_ne : a <> [];
  ni_self_wf : wf_state (nd_self n);
  ni_self_id : ns_id (nd_self n) = nd_id n;
  ni_self_addr : ns_addr (nd_self n) = a;
  ni_fd : (c_fd (nd_cfg n) <=? 0)%Z = true;
  ni_idok : valid_addr (nd_id n) = true;
  ni_fdoff : nd_fd_on n = false;
  ni_view : vinv G w (nd_view n);
  ni_last : forall t q, nd_last n !! t = Some q ->
              exists m, w_nodes w !! t = Some m /\ vle q (vw_vv (nd_view m));
  ni_joined : nd_gossip_on n = true ->
              nd_retry_on n = false /\ is_Some (vw_members (nd_view n) !! nd_id n);
  ni_pub : pub_ok n
}.

Record cinv (G : glog) (w : world) : Prop := {
  ci_nodes : forall a n, w_nodes w !! a = Some n -> ninv G w a n;
  ci_net : forall p, p ∈ w_net w ->
             vinv G w (p_view p) /\
             exists m, w_nodes w !! p_src p = Some m /\ vle (vw_vv (p_view p)) (vw_vv (nd_view m));
  ci_uniq : forall a b n m, w_nodes w !! a = Some n -> w_nodes w !! b = Some m -> nd_id n = nd_id m -> a = b;
  ci_log : forall e, e ∈ G ->
             0 < g_c e /\
             exists a n, w_nodes w !! a = Some n /\ nd_id n = g_i e /\ g_c e <= vget (vw_vv (nd_view n)) (g_i e);
  ci_cnt : forall a n k, w_nodes w !! a = Some n -> vget (vw_vv (nd_view n)) k <= N.of_nat (length G)
}.

Lemma cinv_empty : cinv [] empty_world.
Proof.
  split.
  - intros a n H. cbn in H. rewrite lookup_empty in H. discriminate.
  - intros p H. inversion H.
  - intros a b n m H. cbn in H. rewrite lookup_empty in H. discriminate.
  - intros e H. inversion H.
  - intros a n k H. cbn in H. rewrite lookup_empty in H. discriminate.
Qed.

(** * the world only grows *)
Definition wext (w w' : world) : Prop :=
  forall a n, w_nodes w !! a = Some n ->
    exists n', w_nodes w' !! a = Some n' /\ nd_id n' = nd_id n /\ vle (vw_vv (nd_view n)) (vw_vv (nd_view n')).

Lemma wext_refl w : wext w w.
Proof. intros a n H. exists n. split; [exact H|]. split; [reflexivity|apply vle_refl]. Qed.
Lemma wext_trans w1 w2 w3 : wext w1 w2 -> wext w2 w3 -> wext w1 w3.
Proof.
  intros H1 H2 a n Ha. destruct (H1 a n Ha) as (n' & Ha' & I1 & L1). destruct (H2 a n' Ha') as (n'' & Ha'' & I2 & L2).
  exists n''. split; [exact Ha''|]. split; [congruence|eapply vle_trans; eassumption].
Qed.

(** the new log entries lie above every counter that exists in [w] *)
Definition log_ext (w : world) (G G' : glog) : Prop :=
  (forall e, e ∈ G -> e ∈ G') /\
  forall e, e ∈ G' -> e ∈ G \/
    (0 < g_c e /\ forall a n, w_nodes w !! a = Some n -> nd_id n = g_i e -> vget (vw_vv (nd_view n)) (g_i e) < g_c e).

Lemma log_ext_refl w G : log_ext w G G.
Proof. split; [auto|intros e H; left; exact H]. Qed.

Lemma truthful_mono w w' v : truthful w v -> wext w w' -> truthful w' v.
Proof.
  intros Ht Hx m s Hm. destruct (Ht m s Hm) as (Hu & n & Hn & Hid). split; [exact Hu|].
  destruct (Hx _ _ Hn) as (n' & Hn' & Hid' & _). exists n'. split; [exact Hn'|congruence].
Qed.

Lemma vown_mono w w' v : vown w v -> wext w w' -> vown w' v.
Proof.
  intros Ho Hx id Hpos. destruct (Ho id Hpos) as (a & n & Hn & Hid & Hle).
  destruct (Hx _ _ Hn) as (n' & Hn' & Hid' & L). exists a, n'. split; [exact Hn'|]. split; [congruence|].
  specialize (L id). lia.
Qed.

Lemma vinv_mono G G' w w' v : vinv G w v -> wext w w' -> log_ext w G G' -> vinv G' w' v.
Proof.
  intros [Hwf Hin Ht Hj Hc Ho He Hp Hm Hcc] Hx [Hsub Hnew]. split; try assumption.
  - eapply truthful_mono; eassumption.
  - intros m s Hs. destruct (Hj m s Hs) as (e & H1 & H2 & H3 & H4). exists e. split; [apply Hsub; exact H1|auto].
  - intros e He' Hsel. destruct (Hnew e He') as [Hold|[Hpos Hab]]; [apply Hc; assumption|].
    exfalso. unfold sel in Hsel. destruct (Ho (g_i e)) as (a & n & Hn & Hid & Hle); [lia|].
    specialize (Hab a n Hn Hid). lia.
  - eapply vown_mono; eassumption.
Qed.

(** * sizes: a truthful view has at most as many members as there are nodes *)
Lemma truthful_size w v :
  truthful w v -> (forall a b n m, w_nodes w !! a = Some n -> w_nodes w !! b = Some m -> nd_id n = nd_id m -> a = b) ->
  (size (vw_members v) <= size (w_nodes w))%nat.
Proof.
  intros Ht Hu.
  (* the map id |-> address of the member is injective into the domain of the nodes *)
  set (f := fun (s : nstate) => ns_addr s).
  assert (Hinj : forall k1 k2 s1 s2, vw_members v !! k1 = Some s1 -> vw_members v !! k2 = Some s2 -> f s1 = f s2 -> k1 = k2).
  { intros k1 k2 s1 s2 H1 H2 Hf. destruct (Ht _ _ H1) as (_ & n1 & Hn1 & I1). destruct (Ht _ _ H2) as (_ & n2 & Hn2 & I2).
    unfold f in Hf. rewrite Hf in Hn1. rewrite Hn1 in Hn2. injection Hn2 as <-. congruence. }
  (* size = length of the list of addresses, which is NoDup and included in the node keys *)
  assert (E1 : size (vw_members v) = length ((fun p : list N * nstate => f (snd p)) <$> map_to_list (vw_members v)))
    by (rewrite fmap_length; reflexivity).
  assert (E2 : size (w_nodes w) = length ((map_to_list (w_nodes w)).*1)) by (rewrite fmap_length; reflexivity).
  rewrite E1, E2.
  apply submseteq_length, NoDup_submseteq.
  - apply NoDup_fmap_2_strong; [|apply NoDup_map_to_list].
    intros [k1 s1] [k2 s2] H1 H2 Hf. apply elem_of_map_to_list in H1, H2. cbn in Hf.
    assert (k1 = k2) by (eapply Hinj; eassumption). subst k2. rewrite H1 in H2. congruence.
  - intros x Hx. apply elem_of_list_fmap in Hx as ([k s] & -> & Hks). apply elem_of_map_to_list in Hks.
    destruct (Ht _ _ Hks) as (_ & n & Hn & _). cbn. apply elem_of_list_fmap. exists (f s, n). split; [reflexivity|].
    apply elem_of_map_to_list. exact Hn.
Qed.
