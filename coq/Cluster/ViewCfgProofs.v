(** Proofs about the configurations of MergeFromWithOptions: what each VersionConcurrentStrategy and
    the clock-skew test decide (epoch / view timestamp), what they can NOT influence (members, version
    vector, counts, protocol version), and the order (in)sensitivity of the epoch per configuration.
    Model: Cluster/View.v, definitions: Cluster/ViewCfg.v. *)
From Coq Require Import List NArith ZArith Lia Bool.
From Coq Require Import ZifyN ZifyNat ZifyBool.
From stdpp Require Import gmap sorting.
From Vivid Require Import Codec.Prim Cluster.VV Cluster.VVProofs Cluster.View Cluster.ViewProofs Cluster.ViewCfg.
Local Open Scope N_scope.

(** * one merge, unfolded for a non-empty argument view *)

Lemma nonempty_size (o : view) : vw_members o <> ∅ -> size (vw_members o) <> 0%nat.
Proof. intros H E. apply map_size_empty_inv in E. contradiction. Qed.

Lemma merge_epoch_ts_exact sk st now v o :
  vw_members o <> ∅ ->
  vw_epoch (fst (view_merge sk st now v o)) =
    (if adopts sk st now v o then Z.max (vw_epoch v) (vw_epoch o) else vw_epoch v) /\
  vw_ts (fst (view_merge sk st now v o)) =
    (if adopts sk st now v o then Z.max (vw_ts v) (vw_ts o) else vw_ts v).
Proof.
  intros Hne. unfold view_merge, view_merge_gen, adopts.
  rewrite bool_decide_eq_false_2 by (apply nonempty_size; exact Hne).
  cbn [fst vw_epoch vw_ts].
  destruct (negb _ && negb _); cbn [andb];
    destruct (Z.ltb_spec (vw_epoch v) (vw_epoch o)), (Z.ltb_spec (vw_ts v) (vw_ts o)); split; lia.
Qed.

(** an argument view without members is ignored altogether, whatever the configuration *)
Lemma merge_empty_arg sk st now v o : vw_members o = ∅ -> view_merge sk st now v o = (v, false).
Proof. apply view_merge_empty. Qed.

(** * what [adopts] is, per configuration *)

Lemma skew_off sk now ots : (sk <= 0)%Z -> skew_skip sk now ots = false.
Proof. intros H. unfold skew_skip. replace (0 <? sk)%Z with false by lia. reflexivity. Qed.

Lemma adopts_cases sk st now v o :
  adopts sk st now v o =
  negb (skew_skip sk now (vw_ts o)) &&
  (if (st =? 1)%Z then negb (is_concurrent (vw_vv v) (vw_vv o)) else true).
Proof.
  unfold adopts. destruct (st =? 1)%Z, (is_concurrent (vw_vv v) (vw_vv o)), (skew_skip sk now (vw_ts o)); reflexivity.
Qed.

Lemma adopts_max_noskew sk st now v o : cfg_max_noskew sk st now -> adopts sk st now v o = true.
Proof.
  intros [Hs Hst]. rewrite adopts_cases, skew_off by exact Hs.
  replace (st =? 1)%Z with false by lia. reflexivity.
Qed.

(** * the strategy value only matters through "is it 1": PreferRemote (2) and every out-of-range value
    are TakeMax (0) - the whole result, changed flag included *)
Theorem strategy_collapse sk st now v o :
  st <> 1%Z -> view_merge sk st now v o = view_merge sk 0 now v o.
Proof.
  intros Hst. unfold view_merge, view_merge_gen.
  replace (st =? 1)%Z with false by lia. reflexivity.
Qed.

(** PreferLocal differs from TakeMax only on concurrent vectors *)
Theorem prefer_local_when_ordered sk now v o :
  is_concurrent (vw_vv v) (vw_vv o) = false -> view_merge sk 1 now v o = view_merge sk 0 now v o.
Proof.
  intros Hc. unfold view_merge, view_merge_gen. rewrite Hc. reflexivity.
Qed.

(** * what no configuration can influence: the full member states, the whole version vector, the
    counts, the protocol version and MaxVersionVectorEntries of the result *)
Theorem config_independent sk st now sk' st' now' v o :
  let r := fst (view_merge sk st now v o) in
  let r' := fst (view_merge sk' st' now' v o) in
  vw_members r = vw_members r' /\ vw_vv r = vw_vv r' /\
  vw_healthy r = vw_healthy r' /\ vw_unhealthy r = vw_unhealthy r' /\ vw_quorum r = vw_quorum r' /\
  vw_proto r = vw_proto r' /\ vw_maxent r = vw_maxent r'.
Proof.
  cbn zeta. unfold view_merge, view_merge_gen. destruct (bool_decide _); cbn [fst]; repeat split; reflexivity.
Qed.

(** and `changed` of two configurations can differ only through the epoch / view timestamp *)
Theorem changed_config_dependence sk st now sk' st' now' v o :
  let r := view_merge sk st now v o in
  let r' := view_merge sk' st' now' v o in
  vw_epoch (fst r) = vw_epoch (fst r') -> vw_ts (fst r) = vw_ts (fst r') -> snd r = snd r'.
Proof.
  cbn zeta. intros He Ht.
  destruct (snd (view_merge sk st now v o)) eqn:A, (snd (view_merge sk' st' now' v o)) eqn:B; try reflexivity.
  - apply merge_changed_exact in A. cbn zeta in A.
    assert (B' : ~ (snd (view_merge sk' st' now' v o) = true)) by congruence.
    exfalso. apply B'. apply merge_changed_exact. cbn zeta.
    destruct (config_independent sk st now sk' st' now' v o) as (Em & Ev & _ & _ & _ & Ep & _).
    cbn zeta in *. rewrite <- Em, <- Ev, <- Ep, <- He, <- Ht. exact A.
  - apply merge_changed_exact in B. cbn zeta in B.
    assert (A' : ~ (snd (view_merge sk st now v o) = true)) by congruence.
    exfalso. apply A'. apply merge_changed_exact. cbn zeta.
    destruct (config_independent sk st now sk' st' now' v o) as (Em & Ev & _ & _ & _ & Ep & _).
    cbn zeta in *. rewrite Em, Ev, Ep, He, Ht. exact B.
Qed.

(** * bounds that hold for EVERY configuration *)

Lemma merge_epoch_ts_choice sk st now v o :
  (vw_epoch (fst (view_merge sk st now v o)) = vw_epoch v \/
   vw_epoch (fst (view_merge sk st now v o)) = vw_epoch o /\ (vw_epoch v < vw_epoch o)%Z) /\
  (vw_ts (fst (view_merge sk st now v o)) = vw_ts v \/
   vw_ts (fst (view_merge sk st now v o)) = vw_ts o /\ (vw_ts v < vw_ts o)%Z).
Proof.
  unfold view_merge, view_merge_gen. destruct (bool_decide _); cbn [fst vw_epoch vw_ts]; [split; left; reflexivity|].
  destruct (negb _ && negb _); cbn [andb];
    destruct (Z.ltb_spec (vw_epoch v) (vw_epoch o)), (Z.ltb_spec (vw_ts v) (vw_ts o)); split; auto.
Qed.

Lemma mleft_in e : mleft e ∈ mleaves e.
Proof.
  induction e as [v|sk st now l IHl r IHr]; cbn [mleft mleaves].
  - apply elem_of_list_singleton. reflexivity.
  - apply elem_of_app. left. exact IHl.
Qed.

Theorem meval_epoch_bounds e :
  (vw_epoch (mleft e) <= vw_epoch (meval e) <= mepoch_max e)%Z /\
  (vw_ts (mleft e) <= vw_ts (meval e) <= mts_max e)%Z.
Proof.
  induction e as [v|sk st now l IHl r IHr]; cbn [mleft meval mepoch_max mts_max]; [lia|].
  destruct IHl as [[L1 L2] [L3 L4]], IHr as [[R1 R2] [R3 R4]].
  pose proof (merge_epoch_mono sk st now (meval l) (meval r)) as (M1 & M2 & _).
  destruct (merge_epoch_ts_choice sk st now (meval l) (meval r)) as [C1 C2].
  split; split; lia.
Qed.

(** the epoch of any merge expression is the epoch of one of its leaves *)
Theorem meval_epoch_is_a_leaf e :
  (exists v, v ∈ mleaves e /\ vw_epoch (meval e) = vw_epoch v) /\
  (exists v, v ∈ mleaves e /\ vw_ts (meval e) = vw_ts v).
Proof.
  induction e as [v|sk st now l IHl r IHr]; cbn [meval mleaves].
  - split; exists v; (split; [apply elem_of_list_singleton; reflexivity|reflexivity]).
  - destruct IHl as [(a & Ha & Ea) (a' & Ha' & Ea')], IHr as [(b & Hb & Eb) (b' & Hb' & Eb')].
    destruct (merge_epoch_ts_choice sk st now (meval l) (meval r)) as [C1 C2]. split.
    + destruct C1 as [->|[-> _]]; [exists a|exists b]; (split; [apply elem_of_app; auto|assumption]).
    + destruct C2 as [->|[-> _]]; [exists a'|exists b']; (split; [apply elem_of_app; auto|assumption]).
Qed.

(** * TakeMax / PreferRemote / out-of-range strategies without the skew test: the epoch and the view
    timestamp of any merge expression over views that have members are the maxima over the leaves *)

Lemma merge_members_nonempty_l (a o : members) : a <> ∅ -> merge_members a o <> ∅.
Proof.
  intros Ha E. apply Ha. apply map_eq. intros k. rewrite lookup_empty.
  apply (f_equal (fun m => m !! k)) in E. rewrite merge_members_lookup, lookup_empty in E.
  destruct (a !! k); [destruct (o !! k); discriminate|reflexivity].
Qed.

Lemma meval_nonempty e : Forall (fun v => vw_members v <> ∅) (mleaves e) -> vw_members (meval e) <> ∅.
Proof.
  induction e as [v|sk st now l IHl r IHr]; cbn [meval mleaves]; intros H.
  - apply Forall_inv in H. exact H.
  - apply Forall_app in H as [Hl Hr]. rewrite view_merge_members. apply merge_members_nonempty_l. auto.
Qed.

Theorem meval_epoch_max e :
  mcfg cfg_max_noskew e -> Forall (fun v => vw_members v <> ∅) (mleaves e) ->
  vw_epoch (meval e) = mepoch_max e /\ vw_ts (meval e) = mts_max e.
Proof.
  induction e as [v|sk st now l IHl r IHr]; cbn [mcfg meval mleaves mepoch_max mts_max]; intros Hc H.
  - split; reflexivity.
  - destruct Hc as (Hc & Hcl & Hcr). apply Forall_app in H as [Hl Hr].
    destruct (IHl Hcl Hl) as [El Tl], (IHr Hcr Hr) as [Er Tr].
    destruct (merge_epoch_ts_exact sk st now (meval l) (meval r) (meval_nonempty r Hr)) as [E T].
    rewrite adopts_max_noskew in E, T by exact Hc. rewrite E, T, El, Er, Tl, Tr. split; reflexivity.
Qed.

Lemma zsup_app l1 l2 :
  zsup (l1 ++ l2) = match zsup l1, zsup l2 with
                    | Some x, Some y => Some (Z.max x y)
                    | Some x, None => Some x
                    | None, y => y
                    end.
Proof.
  induction l1 as [|a l1 IH].
  - reflexivity.
  - unfold zsup in *. cbn. rewrite IH.
    destruct (foldr _ None l1), (foldr _ None l2); f_equal; lia.
Qed.

Lemma zsup_perm l1 l2 : l1 ≡ₚ l2 -> zsup l1 = zsup l2.
Proof.
  induction 1 as [|x l l' _ IH|x y l|l l' l'' _ IH1 _ IH2]; unfold zsup in *; cbn.
  - reflexivity.
  - rewrite IH. reflexivity.
  - destruct (foldr _ None l); f_equal; lia.
  - congruence.
Qed.

Lemma mepoch_max_zsup e :
  zsup (vw_epoch <$> mleaves e) = Some (mepoch_max e) /\ zsup (vw_ts <$> mleaves e) = Some (mts_max e).
Proof.
  induction e as [v|sk st now l [IHl IHl'] r [IHr IHr']]; cbn [mleaves mepoch_max mts_max].
  - split; reflexivity.
  - rewrite !fmap_app, !zsup_app, IHl, IHr, IHl', IHr'. split; reflexivity.
Qed.

Theorem epoch_order_insensitive_max_noskew e1 e2 :
  mcfg cfg_max_noskew e1 -> mcfg cfg_max_noskew e2 ->
  Forall (fun v => vw_members v <> ∅) (mleaves e1) -> mleaves e1 ≡ₚ mleaves e2 ->
  vw_epoch (meval e1) = vw_epoch (meval e2) /\ vw_ts (meval e1) = vw_ts (meval e2).
Proof.
  intros C1 C2 H1 Hp.
  assert (H2 : Forall (fun v => vw_members v <> ∅) (mleaves e2)) by (rewrite <- Hp; exact H1).
  destruct (meval_epoch_max e1 C1 H1) as [-> ->], (meval_epoch_max e2 C2 H2) as [-> ->].
  destruct (mepoch_max_zsup e1) as [A1 B1], (mepoch_max_zsup e2) as [A2 B2].
  assert (Pe : vw_epoch <$> mleaves e1 ≡ₚ vw_epoch <$> mleaves e2) by (rewrite Hp; reflexivity).
  assert (Pt : vw_ts <$> mleaves e1 ≡ₚ vw_ts <$> mleaves e2) by (rewrite Hp; reflexivity).
  rewrite (zsup_perm _ _ Pe), A2 in A1. rewrite (zsup_perm _ _ Pt), B2 in B1.
  split; congruence.
Qed.

(** * ... and NOT for the two other kinds of configuration *)

(** a one-member view {id at (1,1)} with vector {id:1}, epoch [ep] and view timestamp [ts] *)
Definition w_ept (id : list N) (ep ts : Z) : view :=
  let v := view_inc (view_add (new_view ts 0) (mk id 1 1 st_up ts)) id in
  View ep ts (vw_members v) (vw_healthy v) (vw_unhealthy v) (vw_quorum v) (vw_vv v) (vw_proto v) (vw_maxent v).

Lemma view_inc_members v id : vw_members (view_inc v id) = vw_members v.
Proof. unfold view_inc. destruct id; [reflexivity|]. destruct (vinc _ _); destruct v; reflexivity. Qed.

Lemma w_ept_wf id ep ts : id <> [] -> WF (w_ept id ep ts) /\ VVin (w_ept id ep ts) /\ vw_members (w_ept id ep ts) <> ∅.
Proof.
  intros Hid.
  assert (R : reach (view_inc (view_add (new_view ts 0) (mk id 1 1 st_up ts)) id)).
  { apply R_inc; [apply R_join; [apply R_new|split; cbn; lia]|].
    unfold view_add. cbn. rewrite lookup_empty. cbn. rewrite lookup_insert. eexists; reflexivity. }
  destruct (reach_wf _ R) as [W V]. split; [|split].
  - intros k s Hk. apply (W k s). exact Hk.
  - intros k Hk. apply (V k). exact Hk.
  - unfold w_ept. cbn [vw_members]. rewrite view_inc_members. unfold view_add. cbn [vw_members new_view].
    rewrite lookup_empty, recompute_members. cbn [set_members vw_members]. apply insert_non_empty.
Qed.

(** PreferLocal: two well-formed one-member views with concurrent vectors; the epoch of merge(a,b) is
    a's, the one of merge(b,a) is b's (the membership is the same, C17_merge_comm) *)
Lemma epoch_order_sensitive_prefer_local :
  exists a b, WF a /\ WF b /\ VVin a /\ VVin b /\ vw_members a <> ∅ /\ vw_members b <> ∅ /\
    vw_epoch (fst (view_merge 0 1 0 a b)) <> vw_epoch (fst (view_merge 0 1 0 b a)) /\
    proj (fst (view_merge 0 1 0 a b)) = proj (fst (view_merge 0 1 0 b a)).
Proof.
  exists (w_ept ida 1 100), (w_ept idb 2 100).
  destruct (w_ept_wf ida 1 100) as (Wa & Va & Na); [discriminate|].
  destruct (w_ept_wf idb 2 100) as (Wb & Vb & Nb); [discriminate|].
  repeat (split; [assumption|]). split.
  - vm_compute. discriminate.
  - apply proj_merge_comm; assumption.
Qed.

(** clock-skew test on (MaxClockSkew = 10 ns, clock 100), TakeMax: b's view timestamp is far from the
    clock, a's is near: merge(a,b) skips b's epoch, merge(b,a) adopts the maximum *)
Lemma epoch_order_sensitive_skew :
  exists a b, WF a /\ WF b /\ VVin a /\ VVin b /\ vw_members a <> ∅ /\ vw_members b <> ∅ /\
    vw_epoch (fst (view_merge 10 0 100 a b)) <> vw_epoch (fst (view_merge 10 0 100 b a)) /\
    proj (fst (view_merge 10 0 100 a b)) = proj (fst (view_merge 10 0 100 b a)).
Proof.
  exists (w_ept ida 1 100), (w_ept idb 2 1000).
  destruct (w_ept_wf ida 1 100) as (Wa & Va & Na); [discriminate|].
  destruct (w_ept_wf idb 2 1000) as (Wb & Vb & Nb); [discriminate|].
  repeat (split; [assumption|]). split.
  - vm_compute. discriminate.
  - apply proj_merge_comm; assumption.
Qed.

(** an argument view without members is ignored, epoch included: even under TakeMax without skew the
    epoch of merge(v, empty) and merge(empty, v) differ (hence the "has members" hypothesis above) *)
Lemma epoch_order_sensitive_empty :
  exists a b, WF a /\ WF b /\ VVin a /\ VVin b /\ vw_members a = ∅ /\
    vw_epoch (fst (view_merge 0 0 0 a b)) <> vw_epoch (fst (view_merge 0 0 0 b a)).
Proof.
  exists (View 5 100 ∅ 0 0 0 ∅ 1 0), (w_ept idb 2 100).
  destruct (w_ept_wf idb 2 100) as (Wb & Vb & Nb); [discriminate|].
  split; [intros k s H; cbn in H; rewrite lookup_empty in H; discriminate|].
  split; [assumption|].
  split; [intros k [c H]; cbn in H; rewrite lookup_empty in H; discriminate|].
  split; [assumption|]. split; [reflexivity|]. vm_compute. discriminate.
Qed.

(** * the clock-skew test *)

Lemma wrap64_small z : (- two63 <= z < two63)%Z -> wrap64 z = z.
Proof. intros H. unfold wrap64. rewrite Z.mod_small; unfold two63 in *; lia. Qed.

(** without int64 overflow of `now - other.Timestamp` the test is 0 < skew < |now - other.Timestamp| *)
Theorem skew_skip_exact skew now ots :
  (- two63 < now - ots < two63)%Z -> skew_skip skew now ots = skew_far skew now ots.
Proof.
  intros H. unfold skew_skip, skew_far. rewrite (wrap64_small (now - ots)) by lia.
  destruct (Z.ltb_spec (now - ots) 0).
  - rewrite wrap64_small by lia. replace (Z.abs (now - ots)) with (- (now - ots))%Z by lia. reflexivity.
  - replace (Z.abs (now - ots)) with (now - ots)%Z by lia. reflexivity.
Qed.

(** with overflow (only a wire-decoded timestamp can be that far away) the farthest possible
    timestamp counts as near: now = 1, other.Timestamp = -(2^63-1), any positive skew *)
Lemma skew_wrap_example :
  skew_far 1000 1 (1 - two63) = true /\ skew_skip 1000 1 (1 - two63) = false.
Proof. vm_compute. auto. Qed.

(** * IsNewerThan on the well-formed states of one node is a strict weak order whose equivalence is
    "same incarnation": trichotomy and negative transitivity *)

Lemma isnewer_trichotomy a b :
  ns_id a = ns_id b -> wf_state a -> wf_state b ->
  (isnewer a b = true /\ isnewer b a = false /\ inc_of a <> inc_of b) \/
  (isnewer a b = false /\ isnewer b a = true /\ inc_of a <> inc_of b) \/
  (isnewer a b = false /\ isnewer b a = false /\ inc_of a = inc_of b).
Proof.
  intros Hid Wa Wb.
  rewrite (isnewer_wf a b), (isnewer_wf b a) by (assumption || congruence).
  destruct (inc_lt (inc_of b) (inc_of a)) eqn:A.
  - left. split; [reflexivity|]. split; [apply inc_lt_asym; exact A|].
    intros E. rewrite E, inc_lt_irrefl in A. discriminate.
  - destruct (inc_lt (inc_of a) (inc_of b)) eqn:B.
    + right; left. split; [reflexivity|]. split; [reflexivity|].
      intros E. rewrite E, inc_lt_irrefl in B. discriminate.
    + right; right. split; [reflexivity|]. split; [reflexivity|]. apply inc_lt_total; assumption.
Qed.

Lemma isnewer_neg_trans a b c :
  ns_id a = ns_id b -> ns_id b = ns_id c -> wf_state a -> wf_state b -> wf_state c ->
  isnewer a b = false -> isnewer b c = false -> isnewer a c = false.
Proof.
  intros H1 H2 Wa Wb Wc.
  rewrite (isnewer_wf a b), (isnewer_wf b c), (isnewer_wf a c) by (assumption || congruence).
  intros A B. destruct (inc_lt (inc_of c) (inc_of a)) eqn:C; [|reflexivity].
  (* c < a, not (b < a), not (c < b): b >= a > c >= b *)
  destruct (inc_lt (inc_of a) (inc_of b)) eqn:D.
  - rewrite (inc_lt_trans _ _ _ C D) in B. discriminate.
  - assert (E : inc_of b = inc_of a) by (apply inc_lt_total; assumption).
    rewrite E in B. congruence.
Qed.

(** well-formedness of the states does not make IsNewerThan an order ACROSS node ids: between two
    ids the logical clock is skipped and the timestamp decides, so three well-formed states (two of
    one node) form a cycle.  Harmless for the merge, which only compares states stored under one
    key (and WF makes the key the id) - but IsNewerThan is no order on NodeState as such. *)
Lemma isnewer_cross_id_cycle :
  exists a b c, wf_state a /\ wf_state b /\ wf_state c /\ ns_id a = ns_id b /\ ns_id b <> ns_id c /\
    isnewer a b = true /\ isnewer b c = true /\ isnewer c a = true.
Proof.
  exists (NState ida [] 1 1 0 1 2 0), (NState ida [] 1 3 0 1 1 0), (NState idb [] 1 2 0 1 1 0).
  repeat split; cbn; try lia; try reflexivity. discriminate.
Qed.

(** * recomputeCounts: the counts after a merge are those of the resulting member map *)

Lemma count_up_perm l1 l2 : l1 ≡ₚ l2 -> count_up l1 = count_up l2.
Proof.
  induction 1 as [|x l l' _ IH|x y l|l l' l'' _ IH1 _ IH2]; cbn [count_up]; try lia.
Qed.

Lemma count_up_le l : count_up l <= N.of_nat (length l).
Proof. induction l as [|p l IH]; cbn [count_up length]; [lia|]. destruct (_ =? _)%Z; lia. Qed.

Lemma count_up_spec (m : members) : count_up (map_to_list m) = N.of_nat (size (up_members m)).
Proof.
  unfold up_members. induction m as [|k s m Hk IH] using map_ind.
  - rewrite map_filter_empty, map_to_list_empty, map_size_empty. reflexivity.
  - rewrite (count_up_perm _ _ (map_to_list_insert m k s Hk)). cbn [count_up snd]. rewrite IH.
    destruct (ns_status s =? st_up)%Z eqn:E.
    + rewrite map_filter_insert_True by (cbn; unfold is_up; exact E).
      rewrite map_size_insert_None by (apply map_filter_lookup_None_2; left; exact Hk). lia.
    + rewrite map_filter_insert_not' ; [lia| |].
      * cbn. unfold is_up. rewrite E. discriminate.
      * intros y Hy. rewrite Hk in Hy. discriminate.
Qed.

Theorem recompute_counts v :
  let r := recompute v in
  vw_healthy r = N.of_nat (size (up_members (vw_members v))) /\
  vw_healthy r + vw_unhealthy r = N.of_nat (size (vw_members v)) /\
  vw_quorum r = (if 0 <? vw_healthy r then vw_healthy r / 2 + 1 else 0) /\
  (0 < vw_healthy r -> vw_healthy r < 2 * vw_quorum r /\ vw_quorum r <= vw_healthy r).
Proof.
  cbn zeta. unfold recompute. cbn [vw_healthy vw_unhealthy vw_quorum].
  pose proof (count_up_le (map_to_list (vw_members v))) as Hle.
  rewrite count_up_spec in *.
  change (length (map_to_list (vw_members v))) with (size (vw_members v)) in *.
  set (h := N.of_nat (size (up_members (vw_members v)))) in *.
  set (n := N.of_nat (size (vw_members v))) in *.
  split; [reflexivity|]. split; [lia|]. split; [reflexivity|].
  intros Hpos. replace (0 <? h) with true by lia.
  pose proof (N.div_mod' h 2) as D. pose proof (N.mod_lt h 2 ltac:(lia)) as M. lia.
Qed.

Theorem merge_counts sk st now v o :
  vw_members o <> ∅ ->
  let r := fst (view_merge sk st now v o) in
  vw_healthy r = N.of_nat (size (up_members (vw_members r))) /\
  vw_healthy r + vw_unhealthy r = N.of_nat (size (vw_members r)) /\
  vw_quorum r = (if 0 <? vw_healthy r then vw_healthy r / 2 + 1 else 0) /\
  (0 < vw_healthy r -> vw_healthy r < 2 * vw_quorum r /\ vw_quorum r <= vw_healthy r).
Proof.
  intros Hne. cbn zeta. rewrite view_merge_members.
  pose proof (recompute_counts (set_members v (merge_members (vw_members v) (vw_members o)))) as H.
  cbn zeta in H.
  replace (vw_members (set_members v (merge_members (vw_members v) (vw_members o))))
    with (merge_members (vw_members v) (vw_members o)) in H by (destruct v; reflexivity).
  unfold view_merge, view_merge_gen. rewrite bool_decide_eq_false_2 by (apply nonempty_size; exact Hne).
  cbn [fst vw_healthy vw_unhealthy vw_quorum]. exact H.
Qed.
