(** The history classes on which the convergence clause of C18 is DECIDED (definitions only; proofs in
    Cluster/GossipCleanProofs.v, statements in Properties/C18.v).

    A history (schedule of [Gossip.step]s from the empty world) is CLEAN when
      - every process is configured with failure detection off (FailureDetectionTimeout <= 0) and a NodeID that
        the version vector accepts (1..256 bytes),
      - no process starts under the NodeID of a running node (and, since nothing stops, no address is started twice:
        [step_world] refuses the start of a running address),
      - nothing crashes, leaves or is forced down,
      - every JoinRequest that is accepted is accepted by a node that has itself joined ([ask_ok]).
    Everything else is allowed: any join order, any seed lists, any loss of packets and of join Asks, any delivery
    order, any number of retries and gossip ticks, nodes that receive gossip before their join went through.

    On clean histories the protocol is proved to converge (Properties/C18.v, section 5); every class of history
    that is NOT clean is matched by one refutation witness (section 4 and 6 of Properties/C18.v):
      failure detection on                  -> (a), (c), (f)        crash (+ restart, same NodeID) -> (c2), (e)
      crash + restart under a fresh NodeID  -> (e2)                 leave                          -> (d)
      removal (force-down / detector)       -> (b)                  crash, never detected          -> (g)
      seed lists that do not connect        -> (h) (a configuration, not a defect). *)
From Coq Require Import List NArith ZArith Lia Bool.
From stdpp Require Import gmap.
From Vivid Require Import Codec.Prim Cluster.VV Cluster.VVProofs Cluster.View Cluster.Gossip.
Local Open Scope N_scope.

(** * The clean class *)

Definition clean_cfg (c : cfg) : bool := (c_fd c <=? 0)%Z && valid_addr (c_id c).

Definition clean_step (s : step) : bool :=
  match s with
  | SStart c _ => clean_cfg c
  | SRetry _ _ | SGossipTick _ | SDeliver _ _ | SDrop _ | SFdTick _ _ => true
  | SCrash _ | SLeave _ | SForceDown _ _ => false
  end.

(** no running node has the NodeID [id] *)
Definition fresh_id (w : world) (id : list N) : bool :=
  forallb (fun n => negb (bool_decide (nd_id n = id))) (nodes_of w).

(** a join Ask that goes through is answered by a node that has itself joined - or refused for lack of quorum.
    (A node whose own join is still pending can hold a view it learned by gossip and would then ACCEPT a JoinRequest,
    incrementing a version-vector entry for an id that is no member of its view; recomputeCounts prunes that entry at
    the next change, and the counter is used a second time.  Histories with such an acceptance are the one class this
    development leaves undecided: no refutation found, and the invariant of the convergence proof does not hold.) *)
Definition ask_ok (w : world) (x : addr * bool) : bool :=
  negb (snd x) ||
  match w_nodes w !! fst x with
  | Some sd => negb (sat_quorum (nd_view sd)) || nd_gossip_on sd
  | None => true
  end.

Definition clean_at (w : world) (s : step) : bool :=
  clean_step s &&
  match s with
  | SStart c asks => fresh_id w (c_id c) && forallb (ask_ok w) asks
  | SRetry _ asks => forallb (ask_ok w) asks
  | _ => true
  end.

(** every step of the schedule is clean at the world it is executed in (a schedule that does not run is not clean) *)
Fixpoint clean_run (w : world) (h : sched) : bool :=
  match h with
  | [] => true
  | (now, s) :: rest =>
      clean_at w s && match step_world w now s with Some (w1, _) => clean_run w1 rest | None => false end
  end.

(** the clean histories: from the empty world *)
Definition clean_history (h : sched) : bool := clean_run empty_world h.

(** * Order on memberships: [ple p q] = every member of [p] is a member of [q] at the same or a newer incarnation *)
Definition ple (p q : pmap) : Prop :=
  forall m x, p !! m = Some x -> exists y, q !! m = Some y /\ inc_lt y x = false.

(** the views that exist in a world: of a running node, or of a GossipMessage in flight *)
Definition view_in (w : world) (v : view) : Prop :=
  (exists a n, w_nodes w !! a = Some n /\ nd_view n = v) \/ (exists p, p ∈ w_net w /\ p_view p = v).

(** * Side conditions of the convergence theorem, all on the world the fault-free phase has reached *)

(** the sizes the Go code can represent: at most 65535 nodes (MaxVersionVectorEntries default; beyond it the
    version vector is truncated - C17's finding) and no version counter at 2^63-1 (Increment fails there) *)
Definition sizes_ok (w : world) : Prop :=
  N.of_nat (size (w_nodes w)) <= max_entries /\
  forall a n k, w_nodes w !! a = Some n -> vget (vw_vv (nd_view n)) k < max_counter.

(** every running node has completed its join (or bootstrapped as a seed): its gossip loop is registered *)
Definition all_joined (w : world) : Prop :=
  forall a n, w_nodes w !! a = Some n -> nd_gossip_on n = true.

(** the seed lists connect the running nodes: [b] is a running seed of the running node [a] *)
Definition seed_edge (w : world) (a b : addr) : Prop :=
  exists n, w_nodes w !! a = Some n /\ is_Some (w_nodes w !! b) /\ b ∈ c_seeds (nd_cfg n) /\ b <> a.
Inductive seed_path (w : world) : addr -> addr -> Prop :=
| sp_refl a : seed_path w a a
| sp_fwd a b c : seed_edge w a b -> seed_path w b c -> seed_path w a c
| sp_bwd a b c : seed_edge w b a -> seed_path w b c -> seed_path w a c.
Definition seed_connected (w : world) : Prop :=
  forall a b, is_Some (w_nodes w !! a) -> is_Some (w_nodes w !! b) -> seed_path w a b.

(** * What stays the same in a settled world: the membership and the version vector of every node *)
Definition same_memberships (w w' : world) : Prop :=
  forall a n, w_nodes w !! a = Some n ->
    exists n', w_nodes w' !! a = Some n' /\ proj (nd_view n') = proj (nd_view n) /\
               veq (vw_vv (nd_view n')) (vw_vv (nd_view n)).

(** * Concrete schedules (checked in Cluster/GossipCleanEx.v, stated in Properties/C18.v, replayed on the real
    NodeActors by the harness: witness schedules 7, 8, 9 of Cluster/GossipRun.v)

    (i) self-seeded islands A = [A], B = [B]; C lists [A; B] and joins through A; D lists [B]; every GossipMessage of the
        start-up phase is lost, then ONE canonical fair round;
    (g) failure detection off: s and j converge, j crashes, 30 rounds;
    (h) two self-seeded nodes and nothing else, 30 rounds. *)
Definition wi_A : cfg := Cfg [65] ad1 [ad1] 0 0.
Definition wi_B : cfg := Cfg [66] ad2 [ad2] 0 0.
Definition wi_C : cfg := Cfg [67] ad3 [ad1; ad2] 0 0.
Definition wi_D : cfg := Cfg [68] ad4 [ad2] 0 0.
Definition wi_starts : sched :=
  [(1000, SStart wi_A []); (1010, SStart wi_B []); (1020, SStart wi_C [(ad1, true)]);
   (1030, SStart wi_D [(ad2, true)])]%Z.
(** every GossipMessage of the start-up phase is lost: the two islands know nothing of each other when the faults stop *)
Definition wi_play : list phase :=
  [PSteps (wi_starts ++ [(1040, SDrop 0); (1040, SDrop 0); (1040, SDrop 0); (1040, SDrop 0); (1040, SDrop 0)]%Z);
   PRounds 1 1050 50].

(** the same when the shuffle of tryJoinSeeds makes C ask B first: C joins through B (replayed by the harness when that
    is what the implementation did; islands {A} and {B,C,D}, C keeps gossiping to its seed A) *)
Definition wi_starts_b : sched :=
  [(1000, SStart wi_A []); (1010, SStart wi_B []); (1020, SStart wi_C [(ad2, true)]);
   (1030, SStart wi_D [(ad2, true)])]%Z.
Definition wi_drops (k : nat) : sched := repeat (1040%Z, SDrop 0) k.
Definition wi_play_b : list phase := [PSteps (wi_starts_b ++ wi_drops 7); PRounds 1 1050 50].
Definition wj_s : cfg := Cfg [115] ad1 [ad1] 0 0.
Definition wj_j : cfg := Cfg [106] ad2 [ad1] 0 0.
Definition wj_play : list phase :=
  [PSteps [(1000, SStart wj_s []); (1010, SStart wj_j [(ad1, true)])]%Z; PRounds 3 1050 50;
   PSteps [(1200, SCrash ad2)]%Z; PRounds 30 1250 50].
Definition wk_play : list phase :=
  [PSteps [(1000, SStart wi_A []); (1010, SStart wi_B [])]%Z; PRounds 30 1050 50].
