(** Executable entry point of the cluster-view model for the correspondence check.

    state  = ( #id #addr gen:Z ts:Z seq status:Z lc seen:Z )
    view   = ( epoch:Z ts:Z maxent:Z proto ( healthy unhealthy quorum ) ( ( #key state ) ... ) ( ( #key count ) ... ) )
    ops    = ( 0 s1 s2 )                     s1.IsNewerThan(s2)                          -> bool
             ( 1 v o skew:Z strat:Z now:Z )  v.MergeFromWithOptions(o, ..) at clock now  -> ( view changed )
             ( 2 v s )                       v.AddMember(s)                              -> view
             ( 3 v #id )                     v.RemoveMember(id)                          -> view
             ( 4 v #id )                     v.IncrementVersion(id)                      -> view
             ( 5 v #id st:Z )                v.Members[id].Status = st (if present)      -> view
             ( 6 self v now:Z )              the restart bump of tryJoinSeeds            -> ( state view )
             ( 7 v )                         v.recomputeCounts()                         -> view
             ( 8 v )                         v.Snapshot()                                -> view
             ( 9 #id #addr now:Z )           newNodeState                                -> state
             ( a now:Z maxent:Z )            newClusterView + MaxVersionVectorEntries    -> view

    complete values (Cluster/ViewFull.v) run on the pointer-level model (Cluster/ViewHeap.v): the operands
    are loaded into an empty heap, every state and every non-nil map in a cell of its own; the result is
    read back through the heap, and with it WHO SHARES WHAT with the source of a stored state
      gomap  = ( ) nil | ( ( ( #k #v ) ... ) )
      fstate = ( state #cluster unreach gomap:Metadata gomap:Labels checksum )
      fview  = ( #viewid ( ) | ( ( ( #key ( ) | ( fstate ) ) ... ) ) ( epoch:Z ts:Z maxent:Z proto ( h u q ) vv ) )
      share  = ( same-object same-Metadata-map same-Labels-map )      (both non-nil and one object)
             ( b fv fo skew:Z strat:Z now:Z ) merge        -> ( fview changed ( ( #key share ) ... ) )   result vs fo, keys non-nil in both
             ( c fv fstate )                  AddMember    -> ( fview ( share ) | ( ) )                   stored entry vs the caller's object
             ( d fv )                         Snapshot     -> ( fview ( ( #key share ) ... ) )            snapshot vs fv
             ( e fstate )                     Clone        -> ( fstate share )
             ( f fv )                         writeClusterView then readClusterView (Codec/ClusterMsgs.v through
                                              Cluster/ViewWire.to_wire / of_wire)            -> ( 0 fview ) | ( 1 stage ) *)
From Coq Require Import List NArith ZArith.
From stdpp Require Import gmap.
From Vivid Require Import Base.Tm Codec.Prim Codec.MsgPrim Cluster.VV Cluster.VVRun Cluster.View Cluster.ViewFull Cluster.ViewHeap
  Cluster.ViewWire.
From Vivid Require Codec.ClusterMsgs.
Local Open Scope N_scope.

Definition get_state (t : tm) : option nstate :=
  match t with
  | TL [TB id; TB addr; g; ts; TN seq; st; TN lc; seen] =>
      match get_z g, get_z ts, get_z st, get_z seen with
      | Some g, Some ts, Some st, Some seen => Some (NState id addr g ts seq st lc seen)
      | _, _, _, _ => None
      end
  | _ => None
  end.
Definition t_state (s : nstate) : tm :=
  TL [TB (ns_id s); TB (ns_addr s); tz (ns_gen s); tz (ns_ts s); TN (ns_seq s); tz (ns_status s);
      TN (ns_lc s); tz (ns_seen s)].

Definition get_members (t : tm) : option members :=
  match get_list (get_pair get_b get_state) t with
  | Some l => Some (list_to_map l)
  | None => None
  end.
Definition t_members (m : members) : tm :=
  tlist (tpair TB t_state) (isort (fun p q => lex_le (fst p) (fst q)) (map_to_list m)).

Definition get_view (t : tm) : option view :=
  match t with
  | TL [ep; ts; mx; TN proto; TL [TN h; TN u; TN q]; ms; x] =>
      match get_z ep, get_z ts, get_z mx, get_members ms, get_vv x with
      | Some ep, Some ts, Some mx, Some ms, Some x => Some (View ep ts ms h u q x proto mx)
      | _, _, _, _, _ => None
      end
  | _ => None
  end.
Definition t_view (v : view) : tm :=
  TL [tz (vw_epoch v); tz (vw_ts v); tz (vw_maxent v); TN (vw_proto v);
      TL [TN (vw_healthy v); TN (vw_unhealthy v); TN (vw_quorum v)];
      t_members (vw_members v); t_vv (vw_vv v)].

(** * complete values *)
Definition get_gomap (t : tm) : option gomap :=
  match t with
  | TL [] => Some None
  | TL [l] => match get_list (get_pair get_b get_b) l with
              | Some kv => Some (Some (list_to_map kv))
              | None => None
              end
  | _ => None
  end.
Definition t_gomap (m : gomap) : tm :=
  topt (fun m : smap => tlist (tpair TB TB) (isort (fun p q => lex_le (fst p) (fst q)) (map_to_list m))) m.

Definition get_fstate (t : tm) : option fstate :=
  match t with
  | TL [c; TB cl; un; me; la; TN ck] =>
      match get_state c, get_bool un, get_gomap me, get_gomap la with
      | Some c, Some un, Some me, Some la => Some (FState c cl un me la ck)
      | _, _, _, _ => None
      end
  | _ => None
  end.
Definition t_fstate (s : fstate) : tm :=
  TL [t_state (fs_core s); TB (fs_cluster s); tbool (fs_unreach s); t_gomap (fs_meta s); t_gomap (fs_labels s);
      TN (fs_checksum s)].

Definition get_fentry (t : tm) : option (option fstate) :=
  match t with
  | TL [] => Some None
  | TL [s] => match get_fstate s with Some s => Some (Some s) | None => None end
  | _ => None
  end.
Definition get_fmembers (t : tm) : option (option fmembers) :=
  match t with
  | TL [] => Some None
  | TL [l] => match get_list (get_pair get_b get_fentry) l with
              | Some kv => Some (Some (list_to_map kv))
              | None => None
              end
  | _ => None
  end.
Definition t_fmembers (m : option fmembers) : tm :=
  topt (fun m : fmembers => tlist (tpair TB (topt t_fstate)) (isort (fun p q => lex_le (fst p) (fst q)) (map_to_list m))) m.

Definition get_fview (t : tm) : option fview :=
  match t with
  | TL [TB vid; ms; TL [ep; ts; mx; TN proto; TL [TN h; TN u; TN q]; x]] =>
      match get_fmembers ms, get_z ep, get_z ts, get_z mx, get_vv x with
      | Some ms, Some ep, Some ts, Some mx, Some x => Some (FView vid ms ep ts h u q x proto mx)
      | _, _, _, _, _ => None
      end
  | _ => None
  end.
Definition t_fview (v : fview) : tm :=
  TL [TB (fv_id v); t_fmembers (fv_members v);
      TL [tz (fv_epoch v); tz (fv_ts v); tz (fv_maxent v); TN (fv_proto v);
          TL [TN (fv_healthy v); TN (fv_unhealthy v); TN (fv_quorum v)]; t_vv (fv_vv v)]].

(** * who shares what *)
Definition same_obj (a b : option loc) : bool :=
  match a, b with Some x, Some y => x =? y | _, _ => false end.
(** [a] an entry of the result, [b] the entry it may have been cloned from *)
Definition share_tm (h : heap) (a b : loc) : tm :=
  match h_state h a, h_state h b with
  | Some sa, Some sb => TL [tbool (a =? b); tbool (same_obj (hs_meta sa) (hs_meta sb)); tbool (same_obj (hs_labels sa) (hs_labels sb))]
  | _, _ => tm_err 2
  end.
Definition share_report (h : heap) (res src : hmembers) : tm :=
  TL (omap (fun p : list N * option loc =>
              match snd p, src !! fst p with
              | Some a, Some (Some b) => Some (TL [TB (fst p); share_tm h a b])
              | _, _ => None
              end)
           (isort (fun p q => lex_le (fst p) (fst q)) (map_to_list res))).

Definition run_fmerge (sk st now : Z) (v o : fview) : tm :=
  let '(h1, hv) := h_load_view h_empty v in
  let '(h2, ho) := h_load_view h1 o in
  let '(h3, v', ch) := h_merge sk st now h2 hv ho in
  TL [t_fview (abs_view h3 v'); tbool ch; share_report h3 (hv_map v') (hv_map ho)].
Definition run_fadd (v : fview) (s : fstate) : tm :=
  let '(h1, hv) := h_load_view h_empty v in
  let '(h2, l) := h_load_state h1 s in
  let '(h3, v') := h_add h2 hv l in
  TL [t_fview (abs_view h3 v');
      match hv_map v' !! ns_id (fs_core s) with
      | Some (Some a) => TL [share_tm h3 a l]
      | _ => TL []
      end].
Definition run_fsnapshot (v : fview) : tm :=
  let '(h1, hv) := h_load_view h_empty v in
  let '(h2, s) := h_snapshot h1 hv in
  TL [t_fview (abs_view h2 s); share_report h2 (hv_map s) (hv_map hv)].
Definition run_fclone (s : fstate) : tm :=
  let '(h1, l) := h_load_state h_empty s in
  match h_state h1 l with
  | Some hs => let '(h2, l') := h_clone h1 hs in
               match h_state h2 l' with
               | Some hs' => TL [t_fstate (abs_state h2 hs'); share_tm h2 l' l]
               | None => tm_err 2
               end
  | None => tm_err 2
  end.

(** the view after one trip over the wire *)
Definition run_fwire (o : fview) : tm :=
  match ClusterMsgs.enc_view (Some (to_wire o)) with
  | MOk b =>
      match drun ClusterMsgs.dec_view b with
      | MOk (Some w, []) => TL [TN 0; t_fview (of_wire w)]
      | MOk (Some _, _ :: _) => TL [TN 1; TN 3]
      | MOk (None, _) => TL [TN 1; TN 2]
      | MErr _ => TL [TN 1; TN 2]
      end
  | MErr _ => TL [TN 1; TN 1]
  end.

Definition run_view (t : tm) : tm :=
  match t with
  | TL [TN 0; a; b] =>
      match get_state a, get_state b with Some a, Some b => tbool (isnewer a b) | _, _ => tm_err 1 end
  | TL [TN 1; v; o; sk; st; now] =>
      match get_view v, get_view o, get_z sk, get_z st, get_z now with
      | Some v, Some o, Some sk, Some st, Some now =>
          let r := view_merge sk st now v o in TL [t_view (fst r); tbool (snd r)]
      | _, _, _, _, _ => tm_err 1
      end
  | TL [TN 2; v; s] =>
      match get_view v, get_state s with Some v, Some s => t_view (view_add v s) | _, _ => tm_err 1 end
  | TL [TN 3; v; TB id] =>
      match get_view v with Some v => t_view (view_remove v id) | _ => tm_err 1 end
  | TL [TN 4; v; TB id] =>
      match get_view v with Some v => t_view (view_inc v id) | _ => tm_err 1 end
  | TL [TN 5; v; TB id; st] =>
      match get_view v, get_z st with Some v, Some st => t_view (view_set_status v id st) | _, _ => tm_err 1 end
  | TL [TN 6; s; v; now] =>
      match get_state s, get_view v, get_z now with
      | Some s, Some v, Some now => let r := view_rejoin s v now in TL [t_state (fst r); t_view (snd r)]
      | _, _, _ => tm_err 1
      end
  | TL [TN 7; v] => match get_view v with Some v => t_view (recompute v) | _ => tm_err 1 end
  | TL [TN 8; v] => match get_view v with Some v => t_view (view_snapshot v) | _ => tm_err 1 end
  | TL [TN 9; TB id; TB addr; now] =>
      match get_z now with Some now => t_state (new_node_state id addr now) | _ => tm_err 1 end
  | TL [TN 10; now; mx] =>
      match get_z now, get_z mx with Some now, Some mx => t_view (new_view now mx) | _, _ => tm_err 1 end
  | TL [TN 11; v; o; sk; st; now] =>
      match get_fview v, get_fview o, get_z sk, get_z st, get_z now with
      | Some v, Some o, Some sk, Some st, Some now => run_fmerge sk st now v o
      | _, _, _, _, _ => tm_err 1
      end
  | TL [TN 12; v; s] =>
      match get_fview v, get_fstate s with Some v, Some s => run_fadd v s | _, _ => tm_err 1 end
  | TL [TN 13; v] => match get_fview v with Some v => run_fsnapshot v | _ => tm_err 1 end
  | TL [TN 14; s] => match get_fstate s with Some s => run_fclone s | _ => tm_err 1 end
  | TL [TN 15; v] => match get_fview v with Some v => run_fwire v | _ => tm_err 1 end
  | _ => tm_err 0
  end.
