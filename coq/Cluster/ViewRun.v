(** Executable entry point of the cluster-view model for the correspondence check.

    state  = ( #id #addr gen:Z ts:Z seq status:Z lc seen:Z )
    view   = ( epoch:Z ts:Z maxent:Z proto ( healthy unhealthy quorum ) ( ( #key state ) ... ) ( ( #key count ) ... ) )
    ops    = ( 0 s1 s2 )                     s1.IsNewerThan(s2)                          -> bool
             ( 1 v o skew:Z strat:Z now:Z )  v.MergeFromWithOptions(o, ..) at clock now  -> ( view changed )
             ( 2 v s )                       v.AddMember(s)                              -> view
             ( 3 v #id )                     v.RemoveMember(id)                          -> view
             ( 4 v #id )                     v.IncrementVersion(id)                      -> view
             ( 5 v #id st:Z )                v.Members[id].Status = st (if present)      -> view
             ( 6 self v now:Z )              the restart bump of tryJoinSeeds            -> ( state view )
             ( 7 v )                         v.recomputeCounts()                         -> view
             ( 8 v )                         v.Snapshot()                                -> view
             ( 9 #id #addr now:Z )           newNodeState                                -> state
             ( a now:Z maxent:Z )            newClusterView + MaxVersionVectorEntries    -> view *)
From Coq Require Import List NArith ZArith.
From stdpp Require Import gmap.
From Vivid Require Import Base.Tm Codec.Prim Cluster.VV Cluster.VVRun Cluster.View.
Local Open Scope N_scope.

Definition get_state (t : tm) : option nstate :=
  match t with
  | TL [TB id; TB addr; g; ts; TN seq; st; TN lc; seen] =>
      match get_z g, get_z ts, get_z st, get_z seen with
      | Some g, Some ts, Some st, Some seen => Some (NState id addr g ts seq st lc seen)
      | _, _, _, _ => None
      end
  | _ => None
  end.
Definition t_state (s : nstate) : tm :=
  TL [TB (ns_id s); TB (ns_addr s); tz (ns_gen s); tz (ns_ts s); TN (ns_seq s); tz (ns_status s);
      TN (ns_lc s); tz (ns_seen s)].

Definition get_members (t : tm) : option members :=
  match get_list (get_pair get_b get_state) t with
  | Some l => Some (list_to_map l)
  | None => None
  end.
Definition t_members (m : members) : tm :=
  tlist (tpair TB t_state) (isort (fun p q => lex_le (fst p) (fst q)) (map_to_list m)).

Definition get_view (t : tm) : option view :=
  match t with
  | TL [ep; ts; mx; TN proto; TL [TN h; TN u; TN q]; ms; x] =>
      match get_z ep, get_z ts, get_z mx, get_members ms, get_vv x with
      | Some ep, Some ts, Some mx, Some ms, Some x => Some (View ep ts ms h u q x proto mx)
      | _, _, _, _, _ => None
      end
  | _ => None
  end.
Definition t_view (v : view) : tm :=
  TL [tz (vw_epoch v); tz (vw_ts v); tz (vw_maxent v); TN (vw_proto v);
      TL [TN (vw_healthy v); TN (vw_unhealthy v); TN (vw_quorum v)];
      t_members (vw_members v); t_vv (vw_vv v)].

Definition run_view (t : tm) : tm :=
  match t with
  | TL [TN 0; a; b] =>
      match get_state a, get_state b with Some a, Some b => tbool (isnewer a b) | _, _ => tm_err 1 end
  | TL [TN 1; v; o; sk; st; now] =>
      match get_view v, get_view o, get_z sk, get_z st, get_z now with
      | Some v, Some o, Some sk, Some st, Some now =>
          let r := view_merge sk st now v o in TL [t_view (fst r); tbool (snd r)]
      | _, _, _, _, _ => tm_err 1
      end
  | TL [TN 2; v; s] =>
      match get_view v, get_state s with Some v, Some s => t_view (view_add v s) | _, _ => tm_err 1 end
  | TL [TN 3; v; TB id] =>
      match get_view v with Some v => t_view (view_remove v id) | _ => tm_err 1 end
  | TL [TN 4; v; TB id] =>
      match get_view v with Some v => t_view (view_inc v id) | _ => tm_err 1 end
  | TL [TN 5; v; TB id; st] =>
      match get_view v, get_z st with Some v, Some st => t_view (view_set_status v id st) | _, _ => tm_err 1 end
  | TL [TN 6; s; v; now] =>
      match get_state s, get_view v, get_z now with
      | Some s, Some v, Some now => let r := view_rejoin s v now in TL [t_state (fst r); t_view (snd r)]
      | _, _, _ => tm_err 1
      end
  | TL [TN 7; v] => match get_view v with Some v => t_view (recompute v) | _ => tm_err 1 end
  | TL [TN 8; v] => match get_view v with Some v => t_view (view_snapshot v) | _ => tm_err 1 end
  | TL [TN 9; TB id; TB addr; now] =>
      match get_z now with Some now => t_state (new_node_state id addr now) | _ => tm_err 1 end
  | TL [TN 10; now; mx] =>
      match get_z now, get_z mx with Some now, Some mx => t_view (new_view now mx) | _, _ => tm_err 1 end
  | _ => tm_err 0
  end.
