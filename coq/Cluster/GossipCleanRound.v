(** One fair round closes the gossip relation: in a clean world in which every node has joined, after a fair round
    every node's vector is dominated by the vector of each of its gossip targets. *)
From Coq Require Import List NArith ZArith Lia Bool.
From Coq Require Import ZifyN ZifyNat ZifyBool.
From stdpp Require Import gmap.
From Vivid Require Import Codec.Prim Cluster.VV Cluster.VVProofs Cluster.View Cluster.ViewProofs
  Cluster.Gossip Cluster.GossipProofs Cluster.GossipClean Cluster.GossipCleanOps Cluster.GossipCleanInv
  Cluster.GossipCleanStep Cluster.GossipCleanWorld Cluster.GossipCleanHandlers Cluster.GossipCleanJoin
  Cluster.GossipCleanRun.
Local Open Scope N_scope.

(** * handleGossip either changes nothing that matters, or ends with a broadcast *)
Lemma gossip_pre_addr n src v now choice t :
  (exists k s, vw_members (gossip_pre n src v now choice) !! k = Some s /\ ns_addr s = t) ->
  exists k s, vw_members (nd_view n) !! k = Some s /\ ns_addr s = t.
Proof.
  unfold gossip_pre. destruct choice as [id|]; [destruct (nonempty src)|]; try (intros H; exact H).
  intros (k & s & Hk & Hs). destruct (nd_view n) as [ep ts ms h u q vx pr mx]; cbn in *.
  rewrite refresh_lookup in Hk. destruct (decide (k = id)) as [->|Hne]; [|exists k, s; auto].
  destruct (ms !! id) as [s0|] eqn:E; [|discriminate]. cbn in Hk. injection Hk as <-. exists id, s0. auto.
Qed.

Lemma handle_gossip_modes n src v now choice :
  let r := handle_gossip n src v now choice in
  let n' := fst (fst r) in
  (veq (vw_vv (nd_view n')) (vw_vv (nd_view n)) /\ (forall t, t ∈ select_targets n' -> t ∈ select_targets n) /\
   snd (fst r) = [] /\ snd r = [] /\ vw_members (nd_view n') = vw_members (gossip_pre n src v now choice))
  \/ (forall t, t ∈ select_targets n' ->
        (t, nd_view n') ∈ snd (fst r) \/ exists q, nd_last n' !! t = Some q /\ vle (vw_vv (nd_view n')) q).
Proof.
  cbn zeta. pose proof (handle_gossip_view n src v now choice) as Hview.
  pose proof (handle_gossip_cfg n src v now choice) as Hcfg.
  unfold handle_gossip in *. unfold gossip_pre in Hview.
  set (n1 := if nonempty src then _ else n) in *.
  assert (E1 : nd_view n1 = nd_view n) by (unfold n1; destruct (nonempty src); reflexivity).
  set (n2 := match choice with Some _ => _ | None => _ end) in *.
  assert (E2 : nd_view n2 = gossip_pre n src v now choice).
  { unfold n2, gossip_pre. destruct choice; [destruct (nonempty src)|]; cbn; rewrite ?E1; reflexivity. }
  pose proof (merge_changed_exact 0 0 now (nd_view n2) v) as Hch.
  destruct (view_merge 0 0 now (nd_view n2) v) as [v' ch] eqn:Em. cbn [fst snd] in Hch. destruct ch.
  - right. destruct (publish_leader (set_view n2 v')) as [n4 evs] eqn:Ep. destruct (broadcast n4) as [n5 out] eqn:Eb. cbn [fst snd] in *.
    intros t Ht.
    destruct (publish_node (set_view n2 v')) as (A1 & _ & A3 & _). rewrite Ep in A1, A3. cbn [fst] in A1, A3.
    destruct (broadcast_node n4) as (B1 & _ & B3 & B4 & _). rewrite Eb in B1, B3, B4. cbn [fst] in B1, B3, B4.
    assert (Ht4 : t ∈ select_targets n4) by (rewrite (select_targets_ext n4 n5); [exact Ht|congruence|congruence]).
    destruct (broadcast_covers n4 t Ht4) as [Hin|(q & Hq & Hle)].
    + left. rewrite Eb in Hin. cbn [snd] in Hin. rewrite B3. exact Hin.
    + right. exists q. split; [rewrite B4, (prune_keeps_target n4 t Ht4); exact Hq|rewrite B3; exact Hle].
  - left. cbn [fst snd].
    assert (Hno : vw_members v' = vw_members (nd_view n2) /\ veq (vw_vv v') (vw_vv (nd_view n2))).
    { split.
      - destruct (decide (vw_members v' = vw_members (nd_view n2))) as [E|N]; [exact E|]. exfalso.
        assert (false = true); [|discriminate]. apply Hch. left. exact N.
      - intros k. destruct (N.eq_dec (vget (vw_vv v') k) (vget (vw_vv (nd_view n2)) k)) as [E|N]; [exact E|]. exfalso.
        assert (false = true); [|discriminate]. apply Hch. right. left. intros Hq. apply N. apply Hq. }
    destruct Hno as [Hm Hv]. cbn [nd_view set_view].
    split; [|split; [|split; [reflexivity|split; [reflexivity|rewrite Hm, E2; reflexivity]]]].
    + intros k. rewrite (Hv k), E2, gossip_pre_vv. reflexivity.
    + intros t Ht. apply select_targets_spec in Ht as (H1 & H2 & H3). apply select_targets_spec.
      change (nd_addr (set_view n2 v')) with (nd_addr n2) in H2. change (nd_cfg (set_view n2 v')) with (nd_cfg n2) in H3.
      assert (Ec : nd_cfg n2 = nd_cfg n).
      { unfold n2. destruct choice; [destruct (nonempty src)|]; cbn; unfold n1; destruct (nonempty src); reflexivity. }
      unfold nd_addr in *. rewrite Ec in H2, H3. split; [exact H1|]. split; [exact H2|].
      destruct H3 as [H3|H3]; [left; exact H3|right].
      cbn [nd_view set_view] in H3. rewrite Hm, E2 in H3. apply (gossip_pre_addr n src v now choice t H3).
Qed.

(** * the packets that remain after a delivery *)
Lemma elem_of_remove_at_or {A} (k : N) (l : list A) p q : l !! N.to_nat k = Some p -> q ∈ l -> q ∈ remove_at k l \/ q = p.
Proof.
  intros Hk Hq. apply elem_of_list_lookup in Hq as [i Hi]. unfold remove_at.
  destruct (lt_eq_lt_dec i (N.to_nat k)) as [[Hlt|Heq]|Hgt].
  - left. apply elem_of_list_lookup. exists i. rewrite lookup_delete_lt by exact Hlt. exact Hi.
  - right. subst i. congruence.
  - left. apply elem_of_list_lookup. exists (pred i). rewrite lookup_delete_ge by lia. replace (S (pred i)) with i by lia. exact Hi.
Qed.

Definition all_joined_retry_off G w : cinv G w -> all_joined w -> forall a n, w_nodes w !! a = Some n -> nd_retry_on n = false.
Proof. intros Hc Hj a n Ha. apply (ni_joined _ _ _ _ (ci_nodes _ _ Hc a n Ha)). apply (Hj a n Ha). Qed.

(** the steps of a round that are enabled when everybody has joined and no failure detector runs *)
Definition tick_or_deliver (s : step) : bool := match s with SGossipTick _ | SDeliver _ _ => true | _ => false end.

Lemma enabled_ff_step G w now s w' l :
  cinv G w -> all_joined w -> fault_free s = true -> step_world w now s = Some (w', l) -> tick_or_deliver s = true.
Proof.
  intros Hc Hj Hff H. destruct s as [c asks|a asks|a|a asks|k choice|k|a|a|a id]; cbn in Hff; try discriminate; try reflexivity.
  - cbn [step_world] in H. destruct (w_nodes w !! a) as [n|] eqn:Ea; [|discriminate].
    rewrite (all_joined_retry_off G w Hc Hj a n Ea) in H. discriminate.
  - cbn [step_world] in H. destruct (w_nodes w !! a) as [n|] eqn:Ea; [|discriminate].
    rewrite (ni_fdoff _ _ _ _ (ci_nodes _ _ Hc a n Ea)) in H. discriminate.
Qed.

Definition tick_of (s : step) : list addr := match s with SGossipTick a => [a] | _ => [] end.

(** * one step of the round *)
Lemma round_step G S w now s w' l :
  cinv G w -> rinv S w -> all_joined w -> nodes_cap w ->
  tick_or_deliver s = true -> step_world w now s = Some (w', l) ->
  cinv G w' /\ rinv (tick_of s ++ S) w' /\ all_joined w' /\ wext w w' /\
  (forall a n', w_nodes w' !! a = Some n' -> exists n, w_nodes w !! a = Some n /\ nd_cfg n' = nd_cfg n).
Proof.
  intros Hc Hr Hj Hcap Htd H.
  destruct s as [c asks|a asks|a|a asks|k choice|k|a|a|a id]; cbn in Htd; try discriminate; cbn [step_world tick_of] in *.
  - (* gossip tick *)
    destruct (w_nodes w !! a) as [n|] eqn:Ea; [|discriminate]. destruct (nd_gossip_on n) eqn:Eg; [|discriminate].
    destruct (gossip_tick n) as [[n1 out] evs] eqn:Et. injection H as <- _.
    destruct (gossip_tick_npre G w a n Hc Ea) as [Hp Hout]. rewrite Et in Hp, Hout. cbn [fst snd] in Hp, Hout.
    assert (Hpub : pub_ok n1).
    { pose proof (gossip_tick_node n) as Hn. rewrite Et in Hn. cbn [fst] in Hn. subst n1. apply (ni_pub _ _ _ _ (ci_nodes _ _ Hc a n Ea)). }
    destruct (cinv_upd G G w a n n1 out Hc Ea Hp Hpub) as (R1 & R2 & R3); auto.
    assert (E : add_net (put_node w n1) (stamp a out) = upd w n1 out) by (unfold upd; rewrite R3; reflexivity).
    rewrite E.
    assert (En1 : n1 = prune_last n) by (pose proof (gossip_tick_node n) as Hn; rewrite Et in Hn; exact Hn).
    assert (Eout : out = snd (broadcast n)).
    { unfold gossip_tick in Et. destruct (broadcast n) as [nb ob]. injection Et as _ <- _. reflexivity. }
    assert (Haf : w_nodes (upd w n1 out) !! a = Some n1) by (rewrite lookup_upd_nodes, R3, decide_True by reflexivity; reflexivity).
    split; [exact R1|]. split; [|split; [|split; [exact R2|]]].
    + cbn [app]. eapply (rinv_upd S (a :: S) w w a n n1 out); try eassumption; try reflexivity.
      * intros q Hq. left; exact Hq.
      * apply (np_vle _ _ _ _ Hp).
      * intros t q m Hq Hm. destruct (ni_last _ _ _ _ (ci_nodes _ _ R1 a n1 Haf) t q Hq) as (m' & Hm' & Hle).
        rewrite Hm in Hm'. injection Hm' as <-. exact Hle.
      * intros b Hb. apply elem_of_cons in Hb as [->|Hb]; auto.
      * right. intros t Ht. subst n1. rewrite select_targets_prune in Ht.
        destruct (broadcast_covers n t Ht) as [Hin|(q & Hq & Hle)].
        -- left. rewrite Eout. exact Hin.
        -- right. exists q. split; [rewrite (prune_keeps_target n t Ht); exact Hq|exact Hle].
    + intros b m Hb. rewrite lookup_upd_nodes, R3 in Hb. destruct (decide (b = a)) as [->|Hne]; [|apply (Hj b m Hb)].
      injection Hb as <-. subst n1. exact Eg.
    + intros b m Hb. rewrite lookup_upd_nodes, R3 in Hb. destruct (decide (b = a)) as [->|Hne]; [|exists m; auto].
      injection Hb as <-. exists n. split; [exact Ea|]. apply (np_cfg _ _ _ _ Hp).
  - (* delivery *)
    destruct (N.of_nat (length (w_net w)) <=? k); [discriminate|].
    destruct (w_net w !! N.to_nat k) as [p|] eqn:Ek; [|discriminate].
    assert (Hp : p ∈ w_net w) by (eapply elem_of_list_lookup_2; exact Ek).
    set (w1 := World (w_nodes w) (remove_at k (w_net w))) in *.
    assert (C1 : cinv G w1) by (apply cinv_less_net; [exact Hc|intros q Hq; eapply elem_of_remove_at'; exact Hq]).
    assert (X1 : wext w w1) by (apply wext_same_nodes; reflexivity).
    destruct (w_nodes w !! p_dst p) as [n|] eqn:Ed.
    + match type of H with (if ?b then _ else None) = _ => destruct b end; [|discriminate].
      destruct (handle_gossip n (p_src p) (p_view p) now choice) as [[n1 out] evs] eqn:Eg. injection H as <- _.
      destruct (handle_gossip_npre G w (p_dst p) n p now choice Hc Hcap Ed Hp) as [Hpre Hout]. rewrite Eg in Hpre, Hout. cbn [fst snd] in Hpre, Hout.
      assert (Hpre1 : npre G w1 n n1).
      { destruct Hpre as [P1 P2 P3 P4 P5 P6 P7 P8 P9 P10 P11]. split; try assumption.
        destruct P6 as [Q1 Q2 Q3 Q4 Q5 Q6 Q7 Q8 Q9]. split; assumption. }
      assert (Hpub : pub_ok n1).
      { pose proof (handle_gossip_pub G w (p_dst p) n p now choice Hc Hcap Ed Hp) as Hpp. rewrite Eg in Hpp. exact Hpp. }
      destruct (cinv_upd G G w1 (p_dst p) n n1 out C1 Ed Hpre1 Hpub) as (R1 & R2 & R3); auto.
      assert (E : add_net (put_node w1 n1) (stamp (p_dst p) out) = upd w1 n1 out) by (unfold upd; rewrite R3; reflexivity).
      rewrite E.
      assert (Haf : w_nodes (upd w1 n1 out) !! p_dst p = Some n1) by (rewrite lookup_upd_nodes, R3, decide_True by reflexivity; reflexivity).
      destruct (handle_gossip_fields n (p_src p) (p_view p) now choice) as (F1 & F2 & F3 & F4 & F5). rewrite Eg in F1, F2, F3, F4, F5. cbn [fst] in F1, F2, F3, F4, F5.
      (* the delivered view is dominated by the receiver's new view *)
      assert (Hpv : vle (vw_vv (p_view p)) (vw_vv (nd_view n1))).
      { pose proof (handle_gossip_view n (p_src p) (p_view p) now choice) as Hv. rewrite Eg in Hv. cbn [fst] in Hv. rewrite Hv.
        destruct (ci_net _ _ Hc p Hp) as (Pv & _).
        intros x. rewrite (vinv0_merge_vget G w); [lia|exact (ci_uniq _ _ Hc)|exact Hcap| |apply vinv_vinv0; exact Pv].
        apply gossip_pre_vinv0, vinv_vinv0. apply (ni_view _ _ _ _ (ci_nodes _ _ Hc _ n Ed)). }
      split; [exact R1|]. split; [|split; [|split; [exact (wext_trans _ _ _ X1 R2)|]]].
      * cbn [app]. eapply (rinv_upd S S w w1 (p_dst p) n n1 out); try eassumption; try reflexivity.
        -- intros q Hq. destruct (elem_of_remove_at_or k (w_net w) p q Ek Hq) as [Hin| ->]; [left; exact Hin|right; split; [reflexivity|exact Hpv]].
        -- apply (np_vle _ _ _ _ Hpre).
        -- intros t q m Hq Hm. destruct (ni_last _ _ _ _ (ci_nodes _ _ R1 _ n1 Haf) t q Hq) as (m' & Hm' & Hle).
           rewrite Hm in Hm'. injection Hm' as <-. exact Hle.
        -- auto.
        -- pose proof (handle_gossip_modes n (p_src p) (p_view p) now choice) as Hmodes. cbn zeta in Hmodes. rewrite Eg in Hmodes. cbn [fst snd] in Hmodes.
           destruct Hmodes as [(M1 & M2 & _)|M]; [left|right; exact M].
           split; [exact M1|]. split; [exact M2|]. split; [rewrite F2; auto|auto].
      * intros b m Hb. rewrite lookup_upd_nodes, R3 in Hb. destruct (decide (b = p_dst p)) as [->|Hne]; [|apply (Hj b m Hb)].
        injection Hb as <-. rewrite F2. apply (Hj _ _ Ed).
      * intros b m Hb. rewrite lookup_upd_nodes, R3 in Hb. destruct (decide (b = p_dst p)) as [->|Hne]; [|exists m; auto].
        injection Hb as <-. exists n. split; [exact Ed|]. apply (np_cfg _ _ _ _ Hpre).
    + destruct choice; [discriminate|]. injection H as <- _.
      split; [exact C1|]. split; [|split; [exact Hj|split; [exact X1|intros b m Hb; exists m; auto]]].
      cbn [app]. intros b m Hb Hm Hg t Ht mt Hmt. cbn in Hm, Hmt.
      destruct (Hr b m Hb Hm Hg t Ht mt Hmt) as [L|(q & Hq & Hd & L)]; [left; exact L|right].
      exists q. split; [|split; [exact Hd|exact L]]. cbn.
      destruct (elem_of_remove_at_or k (w_net w) p q Ek Hq) as [Hin| ->]; [exact Hin|]. rewrite Hd in Ed. congruence.
Qed.
