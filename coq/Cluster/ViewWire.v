(** Bridge between the complete ClusterView of C17 (Cluster/ViewFull.v) and the wire model of
    internal/cluster/serialize.go that C12/C13 verify (Codec/ClusterMsgs.v: writeClusterView /
    readClusterView byte for byte, round trip proved in Codec/ClusterMsgsProofs.view_rt).

    [to_wire] / [of_wire] are field-by-field conversions between the two records (the counts are Go
    `int`: N here, Z on the wire side).  [wire_ok] states on the C17 side, field by field, what
    serialize.go needs for a view to come back unchanged: lengths below 2^32, Generation / Status /
    counts / MaxVersionVectorEntries within int32 (they are NARROWED by the writer), a non-nil Members
    map without nil entries (a nil map comes back empty, a nil entry is dropped), and no EMPTY NON-NIL
    Metadata / Labels map (it comes back nil).  Under [wire_ok] the view that arrives is the view that
    was sent, so merging what came off the wire is merging the sender's view. *)
From Coq Require Import List NArith ZArith Lia Bool.
From stdpp Require Import gmap.
From Vivid Require Import Codec.Prim Codec.MsgPrim Cluster.VV.
From Vivid Require Codec.ClusterMsgs Codec.ClusterMsgsProofs.
From Vivid Require Import Cluster.View Cluster.ViewFull Cluster.ViewFullProofs.
Local Open Scope N_scope.


Definition to_wire_state (s : fstate) : ClusterMsgs.node_state :=
  {| ClusterMsgs.ns_id := ns_id (fs_core s); ClusterMsgs.ns_cluster := fs_cluster s; ClusterMsgs.ns_addr := ns_addr (fs_core s);
     ClusterMsgs.ns_gen := ns_gen (fs_core s); ClusterMsgs.ns_ts := ns_ts (fs_core s); ClusterMsgs.ns_seq := ns_seq (fs_core s);
     ClusterMsgs.ns_status := ns_status (fs_core s); ClusterMsgs.ns_unreach := fs_unreach s;
     ClusterMsgs.ns_lastseen := ns_seen (fs_core s); ClusterMsgs.ns_lclock := ns_lc (fs_core s);
     ClusterMsgs.ns_meta := fs_meta s; ClusterMsgs.ns_labels := fs_labels s; ClusterMsgs.ns_checksum := fs_checksum s |}.

Definition of_wire_state (n : ClusterMsgs.node_state) : fstate :=
  FState (NState (ClusterMsgs.ns_id n) (ClusterMsgs.ns_addr n) (ClusterMsgs.ns_gen n) (ClusterMsgs.ns_ts n) (ClusterMsgs.ns_seq n) (ClusterMsgs.ns_status n)
                 (ClusterMsgs.ns_lclock n) (ClusterMsgs.ns_lastseen n))
         (ClusterMsgs.ns_cluster n) (ClusterMsgs.ns_unreach n) (ClusterMsgs.ns_meta n) (ClusterMsgs.ns_labels n) (ClusterMsgs.ns_checksum n).

Definition to_wire (v : fview) : ClusterMsgs.view :=
  {| ClusterMsgs.v_id := fv_id v; ClusterMsgs.v_epoch := fv_epoch v; ClusterMsgs.v_ts := fv_ts v;
     ClusterMsgs.v_members := fmap (M := option) (fmap (M := gmap (list N)) (fmap (M := option) to_wire_state)) (fv_members v);
     ClusterMsgs.v_healthy := Z.of_N (fv_healthy v); ClusterMsgs.v_unhealthy := Z.of_N (fv_unhealthy v);
     ClusterMsgs.v_quorum := Z.of_N (fv_quorum v);
     ClusterMsgs.v_vv := fv_vv v; ClusterMsgs.v_proto := fv_proto v; ClusterMsgs.v_maxvv := fv_maxent v |}.

Definition of_wire (w : ClusterMsgs.view) : fview :=
  FView (ClusterMsgs.v_id w)
        (fmap (M := option) (fmap (M := gmap (list N)) (fmap (M := option) of_wire_state)) (ClusterMsgs.v_members w))
        (ClusterMsgs.v_epoch w) (ClusterMsgs.v_ts w) (Z.to_N (ClusterMsgs.v_healthy w)) (Z.to_N (ClusterMsgs.v_unhealthy w)) (Z.to_N (ClusterMsgs.v_quorum w))
        (ClusterMsgs.v_vv w) (ClusterMsgs.v_proto w) (ClusterMsgs.v_maxvv w).

(** what serialize.go needs of a state / a view to bring it back unchanged *)
Definition wire_ok_state (s : fstate) : Prop :=
  len32 (ns_id (fs_core s)) /\ len32 (fs_cluster s) /\ len32 (ns_addr (fs_core s)) /\
  in_i32 (ns_gen (fs_core s)) /\ in_i64 (ns_ts (fs_core s)) /\ ns_seq (fs_core s) < 2 ^ 64 /\
  in_i32 (ns_status (fs_core s)) /\ in_i64 (ns_seen (fs_core s)) /\ ns_lc (fs_core s) < 2 ^ 64 /\
  fs_checksum s < 2 ^ 32 /\ ClusterMsgs.valid_mapss (fs_meta s) /\ ClusterMsgs.valid_mapss (fs_labels s).

Definition wire_ok (v : fview) : Prop :=
  len32 (fv_id v) /\ in_i64 (fv_epoch v) /\ in_i64 (fv_ts v) /\
  fv_healthy v < 2 ^ 31 /\ fv_unhealthy v < 2 ^ 31 /\ fv_quorum v < 2 ^ 31 /\
  fv_proto v < 2 ^ 16 /\ in_i32 (fv_maxent v) /\
  (N.of_nat (size (fv_vv v)) <= max_entries /\
   forall k c, fv_vv v !! k = Some c -> valid_addr k = true /\ c <= max_counter) /\
  exists m, fv_members v = Some m /\ N.of_nat (size m) < 2 ^ 32 /\
    forall k e, m !! k = Some e -> len32 k /\ exists s, e = Some s /\ wire_ok_state s.

(** * proofs *)

Lemma of_to_wire_state s : of_wire_state (to_wire_state s) = s.
Proof. destruct s as [[] ? ? ? ? ?]; reflexivity. Qed.

Lemma of_to_wire v : of_wire (to_wire v) = v.
Proof.
  destruct v as [i ms ep ts h u q x p mx]. unfold of_wire, to_wire. cbn.
  rewrite !N2Z.id. f_equal.
  destruct ms as [m|]; [|reflexivity]. cbn. f_equal. apply map_eq. intros key. rewrite !lookup_fmap.
  destruct (m !! key) as [[s|]|]; cbn; [rewrite of_to_wire_state|..]; reflexivity.
Qed.

Lemma in_i32_i64 z : in_i32 z -> in_i64 z.
Proof. unfold in_i32, in_i64. lia. Qed.

Lemma wire_ok_state_valid s : wire_ok_state s -> ClusterMsgs.ty_ns (to_wire_state s) /\ ClusterMsgs.valid_ns (to_wire_state s).
Proof.
  intros (A1 & A2 & A3 & A4 & A5 & A6 & A7 & A8 & A9 & A10 & A11 & A12).
  split; cbn; repeat (split; [assumption || (apply in_i32_i64; assumption)|]); assumption || (apply in_i32_i64; assumption).
Qed.

Lemma wire_ok_valid v : wire_ok v -> ClusterMsgs.ty_view (to_wire v) /\ ClusterMsgs.valid_view (to_wire v).
Proof.
  intros (A1 & A2 & A3 & A4 & A5 & A6 & A7 & A8 & A9 & m & Hm & Hsz & Hall).
  assert (I32 : forall n, n < 2 ^ 31 -> in_i32 (Z.of_N n)) by (intros n Hn; unfold in_i32; lia).
  unfold ClusterMsgs.ty_view, ClusterMsgs.valid_view, to_wire. cbn. rewrite Hm. cbn.
  split.
  - do 7 (split; [first [assumption | apply in_i32_i64; auto]|]).
    intros k n Hk. rewrite lookup_fmap in Hk. destruct (m !! k) as [e|] eqn:E; [|discriminate].
    destruct (Hall k e E) as (_ & s & -> & Hs). cbn in Hk. injection Hk as <-. apply (wire_ok_state_valid s Hs).
  - split; [assumption|]. do 4 (split; [auto|]). split; [assumption|].
    split; [rewrite map_size_fmap; exact Hsz|].
    intros k st Hk. rewrite lookup_fmap in Hk. destruct (m !! k) as [e|] eqn:E; [|discriminate].
    destruct (Hall k e E) as (Hl & s & -> & Hs). cbn in Hk. injection Hk as <-.
    split; [exact Hl|]. apply (wire_ok_state_valid s Hs).
Qed.

Lemma wire_ok_nonil v : wire_ok v -> nonil v.
Proof.
  intros (_ & _ & _ & _ & _ & _ & _ & _ & _ & m & Hm & _ & Hall). exists m. split; [exact Hm|].
  intros k Hk. destruct (Hall k None Hk) as (_ & s & Hs & _). discriminate.
Qed.

(** the bytes writeClusterView produces for a [wire_ok] view are read back by readClusterView as the
    same view, whatever follows them in the frame *)
Theorem wire_roundtrip v rest :
  wire_ok v ->
  exists b, ClusterMsgs.enc_view (Some (to_wire v)) = MOk b /\
            drun ClusterMsgs.dec_view (b ++ rest) = MOk (Some (to_wire v), rest).
Proof.
  intros H. destruct (wire_ok_valid v H) as [T V].
  exact (ClusterMsgsProofs.view_rt (Some (to_wire v)) rest T V).
Qed.

(** merging commutes with the serialised form: the receiver, merging what it decoded, computes the
    merge with the sender's view - complete states, every configuration, `changed` included *)
Theorem merge_commutes_with_wire sk st now v o rest :
  wire_ok o ->
  exists b w, ClusterMsgs.enc_view (Some (to_wire o)) = MOk b /\
              drun ClusterMsgs.dec_view (b ++ rest) = MOk (Some w, rest) /\
              of_wire w = o /\
              f_merge sk st now v (of_wire w) = f_merge sk st now v o /\ nonil (of_wire w).
Proof.
  intros H. destruct (wire_roundtrip o rest H) as (b & Hb & Hd).
  exists b, (to_wire o). rewrite of_to_wire. repeat split; try assumption. apply wire_ok_nonil. exact H.
Qed.

(** non-vacuity: the one-member view of ViewFullProofs.fx_example (Labels {dc: 1}, Metadata nil after
    one trip over the wire) satisfies wire_ok *)
Definition wx_state : fstate :=
  FState (new_node_state [97] [97] 100) [120; 118] false None (Some {[ [100; 99] := [49] ]}) 0.
Definition wx_view : fview := FView [1] (Some {[ [97] := Some wx_state ]}) 0 100 0 1 0 {[ [97] := 1 ]} 1 0.

Lemma wx_wire_ok : wire_ok wx_view.
Proof.
  unfold wire_ok, wx_view. cbn [fv_id fv_epoch fv_ts fv_healthy fv_unhealthy fv_quorum fv_proto fv_maxent fv_vv fv_members].
  unfold len32, in_i64, in_i32. cbn [length].
  split; [lia|]. split; [lia|]. split; [lia|]. split; [lia|]. split; [lia|]. split; [lia|]. split; [lia|]. split; [lia|].
  split.
  - split; [rewrite map_size_singleton; unfold max_entries; lia|].
    intros k c Hk. apply lookup_singleton_Some in Hk as [<- <-]. split; [reflexivity|unfold max_counter; lia].
  - eexists. split; [reflexivity|]. split; [rewrite map_size_singleton; lia|].
    intros k e Hk. apply lookup_singleton_Some in Hk as [<- <-]. split; [cbn; lia|].
    exists wx_state. split; [reflexivity|].
    unfold wire_ok_state, wx_state, new_node_state, st_joining, len32, in_i32, in_i64. cbn.
    repeat (split; [lia|]). split; [apply insert_non_empty|].
    split; [rewrite map_size_singleton; unfold ClusterMsgs.max_map_entries; lia|].
    intros k v Hk. apply lookup_singleton_Some in Hk as [<- <-]. unfold len32. cbn. lia.
Qed.
