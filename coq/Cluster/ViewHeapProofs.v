(** Proofs about the pointer-level model (Cluster/ViewHeap.v). *)
From Coq Require Import List NArith ZArith Lia Bool.
From Coq Require Import ZifyN ZifyNat ZifyBool.
From stdpp Require Import gmap.
From Vivid Require Import Codec.Prim Cluster.VV Cluster.View Cluster.ViewProofs Cluster.ViewFull Cluster.ViewFullProofs
  Cluster.ViewHeap.
Local Open Scope N_scope.

(** * heaps: allocation and extension *)

Lemma hext_refl h : hext h h.
Proof. split; [reflexivity|lia]. Qed.
Lemma hext_trans h1 h2 h3 : hext h1 h2 -> hext h2 h3 -> hext h1 h3.
Proof. intros [A1 B1] [A2 B2]. split; [etransitivity; eassumption|lia]. Qed.

Lemma hext_cell h h' l c : hext h h' -> h_cells h !! l = Some c -> h_cells h' !! l = Some c.
Proof. intros [H _] Hc. eapply lookup_weaken; eassumption. Qed.
Lemma hext_state h h' l s : hext h h' -> h_state h l = Some s -> h_state h' l = Some s.
Proof.
  intros He. unfold h_state. destruct (h_cells h !! l) as [[x|m]|] eqn:E; try discriminate.
  intros [= ->]. rewrite (hext_cell h h' l _ He E). reflexivity.
Qed.
Lemma hext_map h h' l m : hext h h' -> h_map h l = Some m -> h_map h' l = Some m.
Proof.
  intros He. unfold h_map. destruct (h_cells h !! l) as [[x|m']|] eqn:E; try discriminate.
  intros [= ->]. rewrite (hext_cell h h' l _ He E). reflexivity.
Qed.

Lemma state_below h l s : hwf h -> h_state h l = Some s -> l < h_next h.
Proof. intros Hw. unfold h_state. destruct (h_cells h !! l) as [c|] eqn:E; [|discriminate]. intros _. eapply Hw; exact E. Qed.
Lemma map_below h l : hwf h -> is_Some (h_map h l) -> l < h_next h.
Proof. intros Hw [m Hm]. unfold h_map in Hm. destruct (h_cells h !! l) as [c|] eqn:E; [|discriminate]. eapply Hw; exact E. Qed.

Lemma alloc_spec h c :
  hwf h ->
  hext h (fst (h_alloc h c)) /\ hwf (fst (h_alloc h c)) /\
  h_cells (fst (h_alloc h c)) !! h_next h = Some c /\ h_cells h !! h_next h = None /\
  h_next (fst (h_alloc h c)) = h_next h + 1.
Proof.
  intros Hw.
  assert (Hn : h_cells h !! h_next h = None).
  { destruct (h_cells h !! h_next h) as [x|] eqn:E; [|reflexivity]. specialize (Hw _ _ E). lia. }
  unfold h_alloc. cbn [fst h_cells h_next]. split; [|split; [|split; [|split]]].
  - split; cbn [h_cells h_next]; [apply insert_subseteq; exact Hn|lia].
  - intros l x Hl. cbn [h_cells h_next] in *. destruct (decide (l = h_next h)) as [->|Hne]; [lia|].
    rewrite lookup_insert_ne in Hl by congruence. specialize (Hw _ _ Hl). lia.
  - apply lookup_insert.
  - exact Hn.
  - reflexivity.
Qed.

(** * values read through an extended heap *)

Lemma sclosed_ext h h' s : hext h h' -> sclosed h s -> sclosed h' s.
Proof. intros He Hc l Hl. destruct (Hc l Hl) as [m Hm]. exists m. eapply hext_map; eassumption. Qed.

Lemma abs_map_ext h h' r :
  hext h h' -> (forall l, r = Some l -> is_Some (h_map h l)) -> abs_map h' r = abs_map h r.
Proof.
  intros He Hc. destruct r as [l|]; [|reflexivity]. cbn. destruct (Hc l eq_refl) as [m Hm].
  rewrite Hm, (hext_map _ _ _ _ He Hm). reflexivity.
Qed.

Lemma abs_state_ext h h' s : hext h h' -> sclosed h s -> abs_state h' s = abs_state h s.
Proof.
  intros He Hc. unfold abs_state.
  rewrite (abs_map_ext h h' (hs_meta s) He), (abs_map_ext h h' (hs_labels s) He); [reflexivity| |].
  - intros l Hl. apply Hc. right. exact Hl.
  - intros l Hl. apply Hc. left. exact Hl.
Qed.

Definition eclosed (h : heap) (e : option loc) : Prop :=
  forall l, e = Some l -> exists s, h_state h l = Some s /\ sclosed h s.

Lemma abs_entry_ext h h' e : hext h h' -> eclosed h e -> abs_entry h' e = abs_entry h e.
Proof.
  intros He Hc. destruct e as [l|]; [|reflexivity]. cbn. destruct (Hc l eq_refl) as (s & Hs & Hcl).
  rewrite Hs, (hext_state _ _ _ _ He Hs). cbn. rewrite (abs_state_ext _ _ _ He Hcl). reflexivity.
Qed.

Lemma eclosed_ext h h' e : hext h h' -> eclosed h e -> eclosed h' e.
Proof.
  intros He Hc l Hl. destruct (Hc l Hl) as (s & Hs & Hcl). exists s. split; [eapply hext_state; eassumption|eapply sclosed_ext; eassumption].
Qed.

Definition mclosed (h : heap) (m : hmembers) : Prop := forall k e, m !! k = Some e -> eclosed h e.

Lemma vclosed_mclosed h v : vclosed h v <-> mclosed h (hv_map v).
Proof.
  split.
  - intros H k e Hk l ->. apply (H k l Hk).
  - intros H k l Hk. apply (H k (Some l) Hk l eq_refl).
Qed.

Lemma abs_members_lookup (h : heap) (m : hmembers) (k : list N) : abs_members h m !! k = abs_entry h <$> (m !! k).
Proof. unfold abs_members. apply lookup_fmap. Qed.

Lemma abs_members_ext h h' m : hext h h' -> mclosed h m -> abs_members h' m = abs_members h m.
Proof.
  intros He Hc. apply map_eq. intros k. rewrite !abs_members_lookup.
  destruct (m !! k) as [e|] eqn:E; [|reflexivity]. cbn. rewrite (abs_entry_ext _ _ _ He (Hc k e E)). reflexivity.
Qed.

(** frame: a view that is closed in h denotes the same value in every extension of h *)
Theorem abs_view_ext h h' v : hext h h' -> vclosed h v -> abs_view h' v = abs_view h v.
Proof.
  intros He Hc. apply vclosed_mclosed in Hc. unfold abs_view, hv_map in *.
  destruct (hv_members v) as [m|]; [|reflexivity]. cbn [fmap option_fmap option_map default from_option id] in *.
  rewrite (abs_members_ext _ _ _ He Hc). reflexivity.
Qed.

(** * Clone *)

Lemma clone_map_spec h r :
  hwf h -> (forall l, r = Some l -> is_Some (h_map h l)) ->
  let h' := fst (h_clone_map h r) in
  let r' := snd (h_clone_map h r) in
  hext h h' /\ hwf h' /\ abs_map h' r' = abs_map h r /\
  (forall l, r' = Some l -> is_Some (h_map h' l)) /\
  (forall l, r' = Some l -> (h_next h <= l /\ l < h_next h') \/ (r = Some l /\ h_map h l = Some ∅)).
Proof.
  intros Hw Hc. cbn zeta. unfold h_clone_map. destruct r as [l|].
  2:{ cbn [fst snd]. split; [apply hext_refl|]. split; [exact Hw|]. split; [reflexivity|]. split; intros l [=]. }
  destruct (Hc l eq_refl) as [m Hm]. rewrite Hm. cbn [default from_option id].
  destruct (decide (size m = 0%nat)) as [Hz|Hz].
  - rewrite bool_decide_eq_true_2 by exact Hz. cbn [fst snd].
    split; [apply hext_refl|]. split; [exact Hw|]. split; [reflexivity|]. split.
    + intros l' [= <-]. eexists; exact Hm.
    + intros l' [= <-]. right. split; [reflexivity|]. apply map_size_empty_inv in Hz. subst m. exact Hm.
  - rewrite bool_decide_eq_false_2 by exact Hz.
    destruct (alloc_spec h (CMap m) Hw) as (He & Hw' & Hnew & Hold & Hnx).
    unfold h_alloc in *. cbn [fst snd] in *.
    split; [exact He|]. split; [exact Hw'|].
    assert (Hm' : h_map (Heap (<[h_next h:=CMap m]> (h_cells h)) (h_next h + 1)) (h_next h) = Some m).
    { unfold h_map. rewrite Hnew. reflexivity. }
    split; [cbn; rewrite Hm', Hm; reflexivity|]. split.
    + intros l' [= <-]. eexists; exact Hm'.
    + intros l' [= <-]. left. cbn [h_next]. lia.
Qed.

(** n.Clone(): a fresh object denoting the same value; its maps are fresh objects or - when empty and
    non-nil - the very objects of n *)
Theorem clone_spec h s :
  hwf h -> sclosed h s ->
  let h' := fst (h_clone h s) in
  let l' := snd (h_clone h s) in
  hext h h' /\ hwf h' /\ h_next h <= l' /\ l' < h_next h' /\
  exists s', h_state h' l' = Some s' /\ abs_state h' s' = abs_state h s /\ sclosed h' s' /\
    hs_core s' = hs_core s /\
    (forall l, smaps s' l -> (h_next h <= l /\ l < h_next h') \/ (smaps s l /\ h_map h l = Some ∅)).
Proof.
  intros Hw Hc. cbn zeta. unfold h_clone.
  pose proof (clone_map_spec h (hs_meta s) Hw) as S1. cbn zeta in S1.
  destruct (h_clone_map h (hs_meta s)) as [h1 me] eqn:E1. cbn [fst snd] in S1.
  destruct S1 as (X1 & W1 & A1 & C1 & F1); [intros l Hl; apply Hc; left; exact Hl|].
  pose proof (clone_map_spec h1 (hs_labels s) W1) as S2. cbn zeta in S2.
  destruct (h_clone_map h1 (hs_labels s)) as [h2 la] eqn:E2. cbn [fst snd] in S2.
  destruct S2 as (X2 & W2 & A2 & C2 & F2).
  { intros l Hl. destruct (Hc l) as [m Hm]; [right; exact Hl|]. exists m. exact (hext_map _ _ _ _ X1 Hm). }
  set (s' := HState (hs_core s) (hs_cluster s) (hs_unreach s) me la (hs_checksum s)).
  destruct (alloc_spec h2 (CState s') W2) as (X3 & W3 & Hnew & Hold & Hnx).
  unfold h_alloc in *. cbn [fst snd] in *.
  set (h3 := Heap (<[h_next h2:=CState s']> (h_cells h2)) (h_next h2 + 1)) in *.
  assert (X12 : hext h h2) by (eapply hext_trans; eassumption).
  assert (X13 : hext h h3) by (eapply hext_trans; eassumption).
  split; [exact X13|]. split; [exact W3|].
  split; [destruct X12; lia|]. split; [subst h3; cbn [h_next]; lia|].
  exists s'. split; [unfold h_state; rewrite Hnew; reflexivity|].
  assert (Cme : forall l, me = Some l -> is_Some (h_map h2 l)).
  { intros l Hl. destruct (C1 l Hl) as [m Hm]. exists m. exact (hext_map _ _ _ _ X2 Hm). }
  split; [|split; [|split]].
  - unfold abs_state. subst s'. cbn [hs_core hs_cluster hs_unreach hs_meta hs_labels hs_checksum].
    rewrite (abs_map_ext h2 h3 me X3 Cme), (abs_map_ext h1 h2 me X2 C1), A1.
    rewrite (abs_map_ext h2 h3 la X3 C2), A2.
    rewrite (abs_map_ext h h1 (hs_labels s) X1); [reflexivity|].
    intros l Hl. apply Hc. right. exact Hl.
  - intros l [Hl|Hl]; cbn [hs_meta hs_labels s'] in Hl.
    + destruct (Cme l Hl) as [m Hm]. exists m. exact (hext_map _ _ _ _ X3 Hm).
    + destruct (C2 l Hl) as [m Hm]. exists m. exact (hext_map _ _ _ _ X3 Hm).
  - reflexivity.
  - intros l [Hl|Hl]; cbn [hs_meta hs_labels s'] in Hl.
    + destruct (F1 l Hl) as [[B1 B2]|[B1 B2]].
      * left. destruct X2, X3. subst h3. cbn [h_next] in *. lia.
      * right. split; [left; exact B1|exact B2].
    + destruct (F2 l Hl) as [[B1 B2]|[B1 B2]].
      * left. destruct X1, X3. subst h3. cbn [h_next] in *. lia.
      * right. split; [right; exact B1|].
        destruct (Hc l) as [m Hm]; [right; exact B1|].
        rewrite (hext_map _ _ _ _ X1 Hm) in B2. congruence.
Qed.

(** * the member loop *)

(** [e] is an entry holding a fresh clone of an object with contents [xs] (of the heap h0), made
    between the heaps h and h' *)
Definition clone_of (h0 h h' : heap) (xs : hstate) (e : option (option loc)) : Prop :=
  exists l' s', e = Some (Some l') /\ h_next h <= l' /\ l' < h_next h' /\ h_state h' l' = Some s' /\
    abs_state h' s' = abs_state h0 xs /\ sclosed h' s' /\
    (forall lm, smaps s' lm -> (h_next h <= lm /\ lm < h_next h') \/ (smaps xs lm /\ h_map h0 lm = Some ∅)).

Lemma loop_list_spec h0 vm l : forall h m,
  hwf h -> hext h0 h -> NoDup l.*1 ->
  (forall k ol xs, (k, ol) ∈ l -> h_adopt h0 vm k ol = Some xs -> sclosed h0 xs) ->
  let r := foldl (h_loop_step h0 vm) (h, m) l in
  hext h (fst r) /\ hwf (fst r) /\
  (forall k, k ∉ l.*1 -> snd r !! k = m !! k) /\
  (forall k ol, (k, ol) ∈ l -> h_adopt h0 vm k ol = None -> snd r !! k = m !! k) /\
  (forall k ol xs, (k, ol) ∈ l -> h_adopt h0 vm k ol = Some xs -> clone_of h0 h (fst r) xs (snd r !! k)).
Proof.
  induction l as [|[k0 ol0] l IH]; intros h m Hw He Hnd Hcl; cbn zeta.
  - cbn [foldl fst snd]. split; [apply hext_refl|]. split; [exact Hw|]. split; [reflexivity|].
    split; intros k ol; [intros H; inversion H|intros xs H; inversion H].
  - cbn [fmap list_fmap fst] in Hnd. apply NoDup_cons in Hnd as [Hk0 Hnd].
    assert (Estep : h_loop_step h0 vm (h, m) (k0, ol0) =
                    match h_adopt h0 vm k0 ol0 with
                    | Some xs => let '(h', l') := h_clone h xs in (h', <[k0 := Some l']> m)
                    | None => (h, m)
                    end) by reflexivity.
    cbn [foldl]. rewrite Estep. clear Estep.
    assert (Hcl' : forall k ol xs, (k, ol) ∈ l -> h_adopt h0 vm k ol = Some xs -> sclosed h0 xs).
    { intros k ol xs Hin. apply Hcl. apply elem_of_cons. right. exact Hin. }
    assert (Hkey : forall k ol, (k, ol) ∈ l -> k <> k0).
    { intros k ol Hin ->. apply Hk0. apply elem_of_list_fmap. exists (k0, ol). split; [reflexivity|exact Hin]. }
    destruct (h_adopt h0 vm k0 ol0) as [xs0|] eqn:Ead.
    + (* a clone is stored *)
      assert (Hc0 : sclosed h0 xs0) by (apply (Hcl k0 ol0); [apply elem_of_cons; left; reflexivity|exact Ead]).
      pose proof (clone_spec h xs0 Hw (sclosed_ext _ _ _ He Hc0)) as CS. cbn zeta in CS.
      destruct (h_clone h xs0) as [h1 l1] eqn:Ecl. cbn [fst snd] in CS.
      destruct CS as (X1 & W1 & L1 & L2 & s' & Hs' & As' & Cs' & _ & Fs').
      specialize (IH h1 (<[k0 := Some l1]> m) W1 (hext_trans _ _ _ He X1) Hnd Hcl'). cbn zeta in IH.
      set (r := foldl (h_loop_step h0 vm) (h1, <[k0 := Some l1]> m) l) in *.
      destruct IH as (Xr & Wr & I1 & I2 & I3).
      split; [exact (hext_trans _ _ _ X1 Xr)|]. split; [exact Wr|]. split; [|split].
      * intros k Hk. rewrite fmap_cons in Hk. cbn [fst] in Hk. apply not_elem_of_cons in Hk as [Hne Hk]. rewrite (I1 k Hk), lookup_insert_ne by congruence. reflexivity.
      * intros k ol Hin Hno. apply elem_of_cons in Hin as [[= -> ->]|Hin]; [congruence|].
        rewrite (I2 k ol Hin Hno), lookup_insert_ne; [reflexivity|]. intros <-. exact (Hkey _ _ Hin eq_refl).
      * intros k ol xs Hin Had. apply elem_of_cons in Hin as [[= -> ->]|Hin].
        -- assert (xs = xs0) by congruence. subst xs.
           exists l1, s'. rewrite (I1 k0 Hk0), lookup_insert.
           split; [reflexivity|]. split; [exact L1|]. split; [destruct Xr; lia|].
           split; [exact (hext_state _ _ _ _ Xr Hs')|].
           split; [rewrite (abs_state_ext _ _ _ Xr Cs'), As'; apply (abs_state_ext _ _ _ He Hc0)|].
           split; [exact (sclosed_ext _ _ _ Xr Cs')|].
           intros lm Hlm. destruct (Fs' lm Hlm) as [[B1 B2]|[B1 B2]].
           ++ left. destruct Xr. lia.
           ++ right. split; [exact B1|]. destruct (Hc0 lm B1) as [mm Hmm].
              rewrite (hext_map _ _ _ _ He Hmm) in B2. congruence.
        -- destruct (I3 k ol xs Hin Had) as (l' & sx & E1 & E2 & E3 & E4 & E5 & E6 & E7).
           exists l', sx. split; [exact E1|]. split; [destruct X1; lia|]. split; [exact E3|].
           split; [exact E4|]. split; [exact E5|]. split; [exact E6|].
           intros lm Hlm. destruct (E7 lm Hlm) as [[B1 B2]|B]; [left; destruct X1; lia|right; exact B].
    + (* nothing stored at k0 *)
      specialize (IH h m Hw He Hnd Hcl'). cbn zeta in IH.
      set (r := foldl (h_loop_step h0 vm) (h, m) l) in *.
      destruct IH as (Xr & Wr & I1 & I2 & I3).
      split; [exact Xr|]. split; [exact Wr|]. split; [|split].
      * intros k Hk. rewrite fmap_cons in Hk. cbn [fst] in Hk. apply not_elem_of_cons in Hk as [Hne Hk]. apply (I1 k Hk).
      * intros k ol Hin Hno. apply elem_of_cons in Hin as [[= -> ->]|Hin]; [apply (I1 k0 Hk0)|apply (I2 k ol Hin Hno)].
      * intros k ol xs Hin Had. apply elem_of_cons in Hin as [[= -> ->]|Hin]; [congruence|apply (I3 k ol xs Hin Had)].
Qed.

Lemma adopt_closed (h0 : heap) (vm om : hmembers) (k : list N) (ol : option loc) (xs : hstate) :
  mclosed h0 om -> om !! k = Some ol -> h_adopt h0 vm k ol = Some xs -> sclosed h0 xs.
Proof.
  intros Hc Hk Had. unfold h_adopt in Had. destruct ol as [l|]; [|discriminate].
  destruct (Hc k (Some l) Hk l eq_refl) as (s & Hs & Hcl). rewrite Hs in Had.
  assert (xs = s); [|subst; exact Hcl].
  destruct (vm !! k) as [[el|]|]; try congruence.
  destruct (h_state h0 el); [destruct (isnewer _ _)|]; congruence.
Qed.

(** the loop on maps: per key *)
Theorem loop_spec (h0 : heap) (vm om : hmembers) :
  hwf h0 -> mclosed h0 om ->
  let r := h_loop h0 vm om in
  hext h0 (fst r) /\ hwf (fst r) /\
  (forall k, om !! k = None -> snd r !! k = vm !! k) /\
  (forall k ol, om !! k = Some ol -> h_adopt h0 vm k ol = None -> snd r !! k = vm !! k) /\
  (forall k ol xs, om !! k = Some ol -> h_adopt h0 vm k ol = Some xs -> clone_of h0 h0 (fst r) xs (snd r !! k)).
Proof.
  intros Hw Hc. cbn zeta. unfold h_loop.
  pose proof (loop_list_spec h0 vm (map_to_list om) h0 vm Hw (hext_refl h0) (NoDup_fst_map_to_list om)) as L.
  cbn zeta in L. destruct L as (X & W & L1 & L2 & L3).
  { intros k ol xs Hin. apply elem_of_map_to_list in Hin. apply (adopt_closed h0 vm om k ol xs Hc Hin). }
  split; [exact X|]. split; [exact W|]. split; [|split].
  - intros k Hk. apply L1. intros Hin. apply elem_of_list_fmap in Hin as ([k' ol] & -> & Hin).
    apply elem_of_map_to_list in Hin. cbn in Hk. congruence.
  - intros k ol Hk. apply L2. apply elem_of_map_to_list. exact Hk.
  - intros k ol xs Hk. apply L3. apply elem_of_map_to_list. exact Hk.
Qed.

(** * the loop computes the value-level member loop *)

Lemma abs_adopt h0 vm k ol :
  mclosed h0 vm -> eclosed h0 ol ->
  f_pick (abs_entry h0 <$> vm !! k) (Some (abs_entry h0 ol)) =
  match h_adopt h0 vm k ol with
  | Some xs => Some (Some (abs_state h0 xs))
  | None => abs_entry h0 <$> vm !! k
  end.
Proof.
  intros Hv Ho. unfold h_adopt. destruct ol as [l|]; [|destruct (vm !! k); reflexivity].
  destruct (Ho l eq_refl) as (xs & Hxs & _). cbn [abs_entry]. rewrite Hxs. cbn [fmap option_fmap option_map f_pick].
  destruct (vm !! k) as [[el|]|] eqn:Ek; cbn [fmap option_fmap option_map abs_entry f_isnewer f_clone]; try reflexivity.
  destruct (Hv k (Some el) Ek el eq_refl) as (es & Hes & _). rewrite Hes.
  cbn [fmap option_fmap option_map f_isnewer abs_state fs_core]. destruct (isnewer _ _); reflexivity.
Qed.

Theorem loop_abs (h0 : heap) (vm om : hmembers) :
  hwf h0 -> mclosed h0 vm -> mclosed h0 om ->
  abs_members (fst (h_loop h0 vm om)) (snd (h_loop h0 vm om)) =
  f_merge_members (abs_members h0 vm) (abs_members h0 om).
Proof.
  intros Hw Hv Ho. destruct (loop_spec h0 vm om Hw Ho) as (X & W & L1 & L2 & L3).
  apply map_eq. intros k. rewrite f_merge_members_lookup, !abs_members_lookup.
  destruct (om !! k) as [ol|] eqn:Ek.
  - cbn [fmap option_fmap option_map]. rewrite (abs_adopt h0 vm k ol Hv (Ho k ol Ek)).
    destruct (h_adopt h0 vm k ol) as [xs|] eqn:Ead.
    + destruct (L3 k ol xs Ek Ead) as (l' & s' & E1 & _ & _ & E4 & E5 & _). rewrite E1.
      cbn [fmap option_fmap option_map abs_entry]. rewrite E4. cbn. rewrite E5. reflexivity.
    + rewrite (L2 k ol Ek Ead). destruct (vm !! k) as [e|] eqn:Ev; [|reflexivity].
      cbn. rewrite (abs_entry_ext _ _ _ X (Hv k e Ev)). reflexivity.
  - rewrite (L1 k Ek). cbn [fmap option_fmap option_map].
    destruct (vm !! k) as [e|] eqn:Ev; cbn [fmap option_fmap option_map f_pick]; [|reflexivity].
    rewrite (abs_entry_ext _ _ _ X (Hv k e Ev)). reflexivity.
Qed.

Lemma loop_mclosed (h0 : heap) (vm om : hmembers) :
  hwf h0 -> mclosed h0 vm -> mclosed h0 om -> mclosed (fst (h_loop h0 vm om)) (snd (h_loop h0 vm om)).
Proof.
  intros Hw Hv Ho. destruct (loop_spec h0 vm om Hw Ho) as (X & W & L1 & L2 & L3).
  intros k e Hk.
  assert (Hold : snd (h_loop h0 vm om) !! k = vm !! k -> eclosed (fst (h_loop h0 vm om)) e).
  { intros E. rewrite E in Hk. apply (eclosed_ext _ _ _ X). apply (Hv k e Hk). }
  destruct (om !! k) as [ol|] eqn:Ek; [|apply Hold, L1, Ek].
  destruct (h_adopt h0 vm k ol) as [xs|] eqn:Ead; [|apply Hold, (L2 k ol Ek Ead)].
  destruct (L3 k ol xs Ek Ead) as (l' & s' & E1 & _ & _ & E4 & _ & E6 & _).
  rewrite E1 in Hk. injection Hk as <-. intros l [= <-]. exists s'. split; assumption.
Qed.

(** * MergeFromWithOptions / AddMember / Snapshot on pointers compute the value-level operations,
    extend the heap only (no existing cell is written), and keep closedness *)

Lemma abs_view_map h v : fv_map (abs_view h v) = abs_members h (hv_map v).
Proof.
  unfold fv_map, hv_map, abs_view. cbn [fv_members]. destruct (hv_members v) as [m|]; [reflexivity|].
  cbn. unfold abs_members. rewrite fmap_empty. reflexivity.
Qed.

Lemma abs_members_size (h : heap) (m : hmembers) : size (abs_members h m) = size m.
Proof. unfold abs_members. apply map_size_fmap. Qed.

Lemma f_merge_abs_none sk st now h v o :
  hv_members o = None -> f_merge sk st now (abs_view h v) (abs_view h o) = (abs_view h v, false).
Proof.
  intros H. unfold f_merge.
  replace (fv_members (abs_view h o)) with (abs_members h <$> hv_members o) by reflexivity.
  rewrite H. reflexivity.
Qed.

Lemma f_merge_abs_some sk st now h v o om :
  hv_members o = Some om ->
  f_merge sk st now (abs_view h v) (abs_view h o) =
  if bool_decide (size om = 0%nat) then (abs_view h v, false)
  else (f_with_base (abs_view h v) (Some (f_merge_members (abs_members h (hv_map v)) (abs_members h om)))
          (fst (merge_body sk st now (erase (abs_view h v)) (erase (abs_view h o)))),
        snd (merge_body sk st now (erase (abs_view h v)) (erase (abs_view h o)))).
Proof.
  intros H. unfold f_merge.
  replace (fv_members (abs_view h o)) with (abs_members h <$> hv_members o) by reflexivity.
  rewrite H. cbn [fmap option_fmap option_map]. rewrite abs_members_size, abs_view_map. reflexivity.
Qed.

Theorem merge_refines sk st now h v o :
  hwf h -> vclosed h v -> vclosed h o ->
  let r := h_merge sk st now h v o in
  let h' := fst (fst r) in let v' := snd (fst r) in
  abs_view h' v' = fst (f_merge sk st now (abs_view h v) (abs_view h o)) /\
  snd r = snd (f_merge sk st now (abs_view h v) (abs_view h o)) /\
  hext h h' /\ hwf h' /\ vclosed h' v'.
Proof.
  intros Hw Hv Ho. cbn zeta. unfold h_merge.
  destruct (hv_members o) as [om|] eqn:Eom.
  2:{ rewrite (f_merge_abs_none sk st now h v o Eom). cbn [fst snd].
      split; [reflexivity|]. split; [reflexivity|]. split; [apply hext_refl|]. split; assumption. }
  rewrite (f_merge_abs_some sk st now h v o om Eom).
  destruct (bool_decide (size om = 0%nat)).
  { cbn [fst snd]. split; [reflexivity|]. split; [reflexivity|]. split; [apply hext_refl|]. split; assumption. }
  apply vclosed_mclosed in Hv, Ho. assert (Hom : hv_map o = om) by (unfold hv_map; rewrite Eom; reflexivity).
  rewrite Hom in Ho.
  pose proof (loop_abs h (hv_map v) om Hw Hv Ho) as LA.
  pose proof (loop_mclosed h (hv_map v) om Hw Hv Ho) as LC.
  destruct (loop_spec h (hv_map v) om Hw Ho) as (X & W & _).
  destruct (h_loop h (hv_map v) om) as [h' m'] eqn:El. cbn [fst snd] in *.
  split; [|split; [|split; [|split]]].
  - unfold abs_view at 1. cbn [hv_members hv_rest fmap option_fmap option_map]. rewrite LA. reflexivity.
  - reflexivity.
  - exact X.
  - exact W.
  - apply vclosed_mclosed. exact LC.
Qed.

(** the argument view - and every other closed view or snapshot living in the heap - denotes the same
    value after the merge *)
Theorem merge_frame sk st now h v o w :
  hwf h -> vclosed h v -> vclosed h o -> vclosed h w ->
  abs_view (fst (fst (h_merge sk st now h v o))) w = abs_view h w.
Proof.
  intros Hw Hv Ho Hc. destruct (merge_refines sk st now h v o Hw Hv Ho) as (_ & _ & X & _).
  apply abs_view_ext; assumption.
Qed.

Lemma f_snapshot_members (m : fmembers) :
  omap (fun e : option fstate => (fun s => Some (f_clone s)) <$> e) m = f_merge_members ∅ m.
Proof.
  apply map_eq. intros k. rewrite lookup_omap, f_merge_members_lookup, lookup_empty.
  destruct (m !! k) as [[s|]|]; reflexivity.
Qed.

Theorem snapshot_refines h v :
  hwf h -> vclosed h v ->
  let r := h_snapshot h v in
  abs_view (fst r) (snd r) = f_snapshot (abs_view h v) /\ hext h (fst r) /\ hwf (fst r) /\ vclosed (fst r) (snd r).
Proof.
  intros Hw Hv. cbn zeta. unfold h_snapshot. apply vclosed_mclosed in Hv.
  assert (He : mclosed h (∅ : hmembers)) by (intros k e Hk; rewrite lookup_empty in Hk; discriminate).
  pose proof (loop_abs h ∅ (hv_map v) Hw He Hv) as LA.
  assert (E0 : abs_members h (∅ : hmembers) = ∅) by (unfold abs_members; apply fmap_empty).
  rewrite E0 in LA.
  pose proof (loop_mclosed h ∅ (hv_map v) Hw He Hv) as LC.
  destruct (loop_spec h ∅ (hv_map v) Hw Hv) as (X & W & _).
  destruct (h_loop h ∅ (hv_map v)) as [h' m'] eqn:El. cbn [fst snd] in *.
  split; [|split; [exact X|split; [exact W|apply vclosed_mclosed; exact LC]]].
  unfold abs_view at 1. cbn [hv_members hv_rest fmap option_fmap option_map]. rewrite LA.
  unfold f_snapshot. rewrite f_snapshot_members, abs_view_map. reflexivity.
Qed.

Lemma f_add_members (m : fmembers) (s : fstate) (b : view) (v : fview) :
  fv_members (f_add v s) = Some (f_merge_members (fv_map v) {[ ns_id (fs_core s) := Some s ]}).
Proof.
  unfold f_add.
  assert (E : forall mm : fmembers, mm !! ns_id (fs_core s) = None \/ (exists e, mm !! ns_id (fs_core s) = Some e /\ f_isnewer s e = true) ->
              f_merge_members mm {[ ns_id (fs_core s) := Some s ]} = <[ns_id (fs_core s) := Some (f_clone s)]> mm).
  { intros mm Hm. apply map_eq. intros k. rewrite f_merge_members_lookup.
    destruct (decide (k = ns_id (fs_core s))) as [->|Hne].
    - rewrite lookup_singleton, lookup_insert. destruct Hm as [->|(e & -> & Hn)]; [reflexivity|].
      cbn [f_pick]. rewrite Hn. reflexivity.
    - rewrite lookup_singleton_ne, lookup_insert_ne by congruence. destruct (mm !! k); reflexivity. }
  destruct (fv_map v !! ns_id (fs_core s)) as [e|] eqn:Ek.
  - destruct (f_isnewer s e) eqn:Hn.
    + cbn [f_recompute f_with_base fv_members]. rewrite E; [reflexivity|]. right. exists e. auto.
    + cbn [f_with_base fv_members]. f_equal. apply map_eq. intros k. rewrite f_merge_members_lookup.
      destruct (decide (k = ns_id (fs_core s))) as [->|Hne].
      * rewrite lookup_singleton, Ek. cbn [f_pick]. rewrite Hn. reflexivity.
      * rewrite lookup_singleton_ne by congruence. destruct (fv_map v !! k); reflexivity.
  - cbn [f_recompute f_with_base fv_members]. rewrite E; [reflexivity|]. left. exact Ek.
Qed.

Lemma f_add_base v s :
  f_add v s = f_with_base (f_add v s) (fv_members (f_add v s)) (erase (f_add v s)).
Proof. destruct (f_add v s); reflexivity. Qed.

Theorem add_refines h v l s :
  hwf h -> vclosed h v -> h_state h l = Some s -> sclosed h s ->
  let r := h_add h v l in
  abs_view (fst r) (snd r) = f_add (abs_view h v) (abs_state h s) /\ hext h (fst r) /\ hwf (fst r) /\ vclosed (fst r) (snd r).
Proof.
  intros Hw Hv Hs Hc. cbn zeta. unfold h_add. rewrite Hs. apply vclosed_mclosed in Hv.
  set (om := ({[ ns_id (hs_core s) := Some l ]} : hmembers)).
  assert (Ho : mclosed h om).
  { intros k e Hk. subst om. apply lookup_singleton_Some in Hk as [_ <-]. intros l' [= <-]. exists s. auto. }
  pose proof (loop_abs h (hv_map v) om Hw Hv Ho) as LA.
  pose proof (loop_mclosed h (hv_map v) om Hw Hv Ho) as LC.
  destruct (loop_spec h (hv_map v) om Hw Ho) as (X & W & _).
  destruct (h_loop h (hv_map v) om) as [h' m'] eqn:El. cbn [fst snd] in *.
  split; [|split; [exact X|split; [exact W|apply vclosed_mclosed; exact LC]]].
  set (fa := f_add (abs_view h v) (abs_state h s)).
  assert (Em : fv_members fa = Some (abs_members h' m')).
  { subst fa. rewrite (f_add_members ∅ (abs_state h s) (erase (abs_view h v)) (abs_view h v)), LA, abs_view_map.
    f_equal. f_equal. subst om. unfold abs_members. rewrite map_fmap_singleton. cbn [abs_entry]. rewrite Hs. reflexivity. }
  unfold abs_view at 1. cbn [hv_members hv_rest fmap option_fmap option_map].
  rewrite <- Em. destruct fa; reflexivity.
Qed.

(** * what the stored states share with their sources *)

Lemma adopt_source h0 vm k ol xs :
  h_adopt h0 vm k ol = Some xs -> exists lo, ol = Some lo /\ h_state h0 lo = Some xs.
Proof.
  unfold h_adopt. destruct ol as [lo|]; [|discriminate]. destruct (h_state h0 lo) as [s|] eqn:Es; [|discriminate].
  intros H. exists lo. split; [reflexivity|]. f_equal.
  destruct (vm !! k) as [[el|]|]; try congruence.
  destruct (h_state h0 el); [destruct (isnewer _ _)|]; congruence.
Qed.

(** every cell the result of the loop reaches is: a cell the receiving map reached before, or a cell
    allocated by the loop, or an EMPTY map of a source state *)
Theorem loop_sharing (h0 : heap) (vm om : hmembers) (rest : fview) (l : loc) :
  hwf h0 -> mclosed h0 vm -> mclosed h0 om ->
  vlocs (fst (h_loop h0 vm om)) (HView (Some (snd (h_loop h0 vm om))) rest) l ->
  vlocs h0 (HView (Some vm) rest) l \/ h_next h0 <= l \/
  (h_map h0 l = Some ∅ /\ exists k lo xs, om !! k = Some (Some lo) /\ h_state h0 lo = Some xs /\ smaps xs l).
Proof.
  intros Hw Hv Ho Hl. destruct (loop_spec h0 vm om Hw Ho) as (X & W & L1 & L2 & L3).
  set (h' := fst (h_loop h0 vm om)) in *. set (m' := snd (h_loop h0 vm om)) in *.
  assert (Hold : forall k e, m' !! k = Some e -> m' !! k = vm !! k ->
                  (e = Some l \/ exists ls s, e = Some ls /\ h_state h' ls = Some s /\ smaps s l) ->
                  vlocs h0 (HView (Some vm) rest) l).
  { intros k e Hk Heq Hc. rewrite Heq in Hk. destruct Hc as [->|(ls & s & -> & Hs & Hm)].
    - left. exists k. exact Hk.
    - right. destruct (Hv k (Some ls) Hk ls eq_refl) as (s0 & Hs0 & _).
      rewrite (hext_state _ _ _ _ X Hs0) in Hs. injection Hs as <-.
      exists k, ls, s0. auto. }
  assert (Hcase : exists k e, m' !! k = Some e /\
                  (e = Some l \/ exists ls s, e = Some ls /\ h_state h' ls = Some s /\ smaps s l)).
  { destruct Hl as [(k & Hk)|(k & ls & s & Hk & Hs & Hm)]; cbn [hv_map hv_members default from_option id] in Hk.
    - exists k, (Some l). split; [exact Hk|left; reflexivity].
    - exists k, (Some ls). split; [exact Hk|right; exists ls, s; auto]. }
  destruct Hcase as (k & e & Hk & Hc).
  destruct (om !! k) as [ol|] eqn:Ek; [|left; apply (Hold k e Hk (L1 k Ek) Hc)].
  destruct (h_adopt h0 vm k ol) as [xs|] eqn:Ead; [|left; apply (Hold k e Hk (L2 k ol Ek Ead) Hc)].
  destruct (L3 k ol xs Ek Ead) as (l' & s' & E1 & E2 & E3 & E4 & E5 & E6 & E7).
  rewrite E1 in Hk. injection Hk as <-.
  destruct Hc as [[= <-]|(ls & s & [= <-] & Hs & Hm)]; [right; left; exact E2|].
  rewrite E4 in Hs. injection Hs as <-.
  destruct (E7 l Hm) as [[B _]|[B1 B2]]; [right; left; exact B|].
  right; right. split; [exact B2|]. destruct (adopt_source _ _ _ _ _ Ead) as (lo & -> & Hlo).
  exists k, lo, xs. auto.
Qed.

Lemma vlocs_below h v l : hwf h -> vclosed h v -> vlocs h v l -> l < h_next h.
Proof.
  intros Hw Hc [(k & Hk)|(k & ls & s & Hk & Hs & Hm)].
  - destruct (Hc k l Hk) as (s & Hs & _). eapply state_below; eassumption.
  - destruct (Hc k ls Hk) as (s0 & Hs0 & Hcl). rewrite Hs0 in Hs. injection Hs as <-.
    apply map_below; [exact Hw|]. apply Hcl. exact Hm.
Qed.

Lemma vlocs_ext h h' v l : hext h h' -> vclosed h v -> vlocs h' v l -> vlocs h v l.
Proof.
  intros He Hc [(k & Hk)|(k & ls & s & Hk & Hs & Hm)]; [left; exists k; exact Hk|].
  right. destruct (Hc k ls Hk) as (s0 & Hs0 & _). rewrite (hext_state _ _ _ _ He Hs0) in Hs. injection Hs as <-.
  exists k, ls, s0. auto.
Qed.

Lemma vlocs_map h m r r' l : vlocs h (HView (Some m) r) l -> vlocs h (HView (Some m) r') l.
Proof. exact (fun H => H). Qed.

(** after v.MergeFromWithOptions(o): if v and o shared no cell before, they share nothing but empty
    maps afterwards *)
Theorem merge_sharing sk st now h v o :
  hwf h -> vclosed h v -> vclosed h o -> vsep h v o ->
  let r := h_merge sk st now h v o in
  vsep_but_empty_maps (fst (fst r)) (snd (fst r)) o.
Proof.
  intros Hw Hv Ho Hsep. cbn zeta.
  destruct (merge_refines sk st now h v o Hw Hv Ho) as (_ & _ & X & _).
  revert X. unfold h_merge.
  destruct (hv_members o) as [om|] eqn:Eom.
  2:{ cbn [fst snd]. intros _ l A B. exfalso. apply (Hsep l A B). }
  destruct (bool_decide (size om = 0%nat)).
  { cbn [fst snd]. intros _ l A B. exfalso. apply (Hsep l A B). }
  pose proof (fun rest l => loop_sharing h (hv_map v) om rest l Hw) as LS.
  destruct (h_loop h (hv_map v) om) as [h' m'] eqn:El. cbn [fst snd] in *.
  intros X l A B.
  assert (Hom : hv_map o = om) by (unfold hv_map; rewrite Eom; reflexivity).
  pose proof (vlocs_ext _ _ _ _ X Ho B) as B0.
  pose proof (vlocs_below _ _ _ Hw Ho B0) as Hlt.
  assert (Hmo : mclosed h om) by (rewrite <- Hom; apply vclosed_mclosed; exact Ho).
  destruct (LS _ l (proj1 (vclosed_mclosed _ _) Hv) Hmo A) as [C|[C|[C _]]].
  - exfalso. apply (Hsep l); [|exact B0].
    destruct C as [(k & Hk)|(k & ls & s & Hk & Hs & Hm)]; [left; exists k; exact Hk|right; exists k, ls, s; auto].
  - lia.
  - apply (hext_map _ _ _ _ X C).
Qed.

(** a Snapshot shares nothing but empty maps with the view it was taken from *)
Theorem snapshot_sharing h v :
  hwf h -> vclosed h v ->
  vsep_but_empty_maps (fst (h_snapshot h v)) (snd (h_snapshot h v)) v.
Proof.
  intros Hw Hv.
  destruct (snapshot_refines h v Hw Hv) as (_ & X & _). revert X. unfold h_snapshot.
  assert (He : mclosed h (∅ : hmembers)) by (intros k e Hk; rewrite lookup_empty in Hk; discriminate).
  pose proof (fun rest l => loop_sharing h ∅ (hv_map v) rest l Hw He (proj1 (vclosed_mclosed _ _) Hv)) as LS.
  destruct (h_loop h ∅ (hv_map v)) as [h' m'] eqn:El. cbn [fst snd] in *.
  intros X l A B.
  pose proof (vlocs_ext _ _ _ _ X Hv B) as B0.
  pose proof (vlocs_below _ _ _ Hw Hv B0) as Hlt.
  destruct (LS _ l A) as [C|[C|[C _]]].
  - exfalso. destruct C as [(k & Hk)|(k & ls & s & Hk & _)]; cbn in Hk; rewrite lookup_empty in Hk; discriminate.
  - lia.
  - apply (hext_map _ _ _ _ X C).
Qed.

(** AddMember(member): what the view reaches afterwards is what it reached before, fresh cells, or an
    empty map of the caller's state *)
Theorem add_sharing h v lc s l :
  hwf h -> vclosed h v -> h_state h lc = Some s -> sclosed h s ->
  vlocs (fst (h_add h v lc)) (snd (h_add h v lc)) l ->
  vlocs h v l \/ h_next h <= l \/ (h_map h l = Some ∅ /\ smaps s l).
Proof.
  intros Hw Hv Hs Hc. unfold h_add. rewrite Hs.
  set (om := ({[ ns_id (hs_core s) := Some lc ]} : hmembers)).
  assert (Ho : mclosed h om).
  { intros k e Hk. subst om. apply lookup_singleton_Some in Hk as [_ <-]. intros l' [= <-]. exists s. auto. }
  pose proof (fun rest l => loop_sharing h (hv_map v) om rest l Hw (proj1 (vclosed_mclosed _ _) Hv) Ho) as LS.
  destruct (h_loop h (hv_map v) om) as [h' m'] eqn:El. cbn [fst snd] in *.
  intros A. destruct (LS _ l A) as [C|[C|[C (k & lo & xs & Hk & Hlo & Hm)]]].
  - left. destruct C as [(k & Hk)|(k & ls & s0 & Hk & Hs0 & Hm)]; [left; exists k; exact Hk|right; exists k, ls, s0; auto].
  - right; left. exact C.
  - right; right. split; [exact C|]. subst om. apply lookup_singleton_Some in Hk as [_ [= <-]].
    rewrite Hs in Hlo. injection Hlo as <-. exact Hm.
Qed.

(** * later writes: a view only depends on the cells it reaches *)

Lemma map_insert_state h l k x ls : h_state (h_map_insert h l k x) ls = h_state h ls.
Proof.
  unfold h_map_insert. destruct (h_map h l) as [m|] eqn:E; [|reflexivity].
  unfold h_state. cbn [h_cells]. destruct (decide (ls = l)) as [->|Hne].
  - rewrite lookup_insert. unfold h_map in E. destruct (h_cells h !! l) as [[s|m']|]; try discriminate. reflexivity.
  - rewrite lookup_insert_ne by congruence. reflexivity.
Qed.
Lemma map_insert_map h l k x lm : lm <> l -> h_map (h_map_insert h l k x) lm = h_map h lm.
Proof.
  intros Hne. unfold h_map_insert. destruct (h_map h l) as [m|] eqn:E; [|reflexivity].
  unfold h_map at 1. cbn [h_cells]. rewrite lookup_insert_ne by congruence. reflexivity.
Qed.
Lemma set_status_map h l st lm : h_map (h_set_status h l st) lm = h_map h lm.
Proof.
  unfold h_set_status. destruct (h_state h l) as [s|] eqn:E; [|reflexivity].
  unfold h_map. cbn [h_cells]. destruct (decide (lm = l)) as [->|Hne].
  - rewrite lookup_insert. unfold h_state in E. destruct (h_cells h !! l) as [[s'|m']|]; try discriminate. reflexivity.
  - rewrite lookup_insert_ne by congruence. reflexivity.
Qed.
Lemma set_status_state h l st ls : ls <> l -> h_state (h_set_status h l st) ls = h_state h ls.
Proof.
  intros Hne. unfold h_set_status. destruct (h_state h l) as [s|] eqn:E; [|reflexivity].
  unfold h_state at 1. cbn [h_cells]. rewrite lookup_insert_ne by congruence. reflexivity.
Qed.

Lemma abs_view_frame h h' v :
  (forall k ls, hv_map v !! k = Some (Some ls) -> h_state h' ls = h_state h ls) ->
  (forall k ls s lm, hv_map v !! k = Some (Some ls) -> h_state h ls = Some s -> smaps s lm -> h_map h' lm = h_map h lm) ->
  abs_view h' v = abs_view h v.
Proof.
  intros Hs Hm. unfold abs_view. destruct (hv_members v) as [m|] eqn:Em; [|reflexivity].
  cbn [fmap option_fmap option_map]. f_equal. f_equal. apply map_eq. intros k. rewrite !abs_members_lookup.
  assert (Hk : hv_map v !! k = m !! k) by (unfold hv_map; rewrite Em; reflexivity).
  destruct (m !! k) as [[ls|]|] eqn:E; [|reflexivity|reflexivity]. cbn.
  rewrite (Hs k ls Hk). destruct (h_state h ls) as [s|] eqn:Es; [|reflexivity]. cbn. f_equal.
  unfold abs_state.
  assert (A1 : abs_map h' (hs_meta s) = abs_map h (hs_meta s)).
  { destruct (hs_meta s) as [lm|] eqn:E1; [|reflexivity]. cbn. rewrite (Hm k ls s lm Hk Es); [reflexivity|left; exact E1]. }
  assert (A2 : abs_map h' (hs_labels s) = abs_map h (hs_labels s)).
  { destruct (hs_labels s) as [lm|] eqn:E1; [|reflexivity]. cbn. rewrite (Hm k ls s lm Hk Es); [reflexivity|right; exact E1]. }
  rewrite A1, A2. reflexivity.
Qed.

(** a write to a cell the view does not reach leaves the view's value alone *)
Theorem write_frame h v l k x st :
  ~ vlocs h v l ->
  abs_view (h_map_insert h l k x) v = abs_view h v /\ abs_view (h_set_status h l st) v = abs_view h v.
Proof.
  intros Hn. split; apply abs_view_frame.
  - intros k' ls _. apply map_insert_state.
  - intros k' ls s lm Hk Hs Hm. apply map_insert_map. intros ->. apply Hn. right. exists k', ls, s. auto.
  - intros k' ls Hk. apply set_status_state. intros ->. apply Hn. left. exists k'. exact Hk.
  - intros k' ls s lm _ _ _. apply set_status_map.
Qed.

(** no state of the view has an empty non-nil Metadata / Labels map *)
Definition no_empty_maps (h : heap) (v : hview) : Prop :=
  forall k ls s lm, hv_map v !! k = Some (Some ls) -> h_state h ls = Some s -> smaps s lm -> h_map h lm <> Some ∅.

(** "stored states are clones", as far as it holds: if no state of the argument view has an empty
    non-nil map, then after the merge the two views are independent - whatever the owner of one of
    them writes later (a Status set in place, a map entry) does not show in the other *)
Theorem merge_independent_partial sk st now h v o :
  hwf h -> vclosed h v -> vclosed h o -> vsep h v o -> no_empty_maps h o ->
  let r := h_merge sk st now h v o in
  let h' := fst (fst r) in let v' := snd (fst r) in
  vsep h' v' o /\
  forall l k x s,
    (vlocs h' o l -> abs_view (h_map_insert h' l k x) v' = abs_view h' v' /\ abs_view (h_set_status h' l s) v' = abs_view h' v') /\
    (vlocs h' v' l -> abs_view (h_map_insert h' l k x) o = abs_view h' o /\ abs_view (h_set_status h' l s) o = abs_view h' o).
Proof.
  intros Hw Hv Ho Hsep Hne. cbn zeta.
  pose proof (merge_sharing sk st now h v o Hw Hv Ho Hsep) as MS. cbn zeta in MS.
  destruct (merge_refines sk st now h v o Hw Hv Ho) as (_ & _ & X & _).
  set (h' := fst (fst (h_merge sk st now h v o))) in *. set (v' := snd (fst (h_merge sk st now h v o))) in *.
  assert (S : vsep h' v' o).
  { intros l A B. specialize (MS l A B).
    pose proof (vlocs_ext _ _ _ _ X Ho B) as B0.
    destruct B0 as [(k & Hk)|(k & ls & s & Hk & Hs & Hm)].
    - destruct (Ho k l Hk) as (s & Hs & _). pose proof (hext_state _ _ _ _ X Hs) as Hs'.
      unfold h_map in MS. unfold h_state in Hs'. destruct (h_cells h' !! l) as [[?|?]|]; discriminate.
    - apply (Hne k ls s l Hk Hs Hm). destruct (Ho k ls Hk) as (s0 & Hs0 & Hc0). rewrite Hs0 in Hs. injection Hs as <-.
      destruct (Hc0 l Hm) as [mm Hmm]. rewrite (hext_map _ _ _ _ X Hmm) in MS. congruence. }
  split; [exact S|]. intros l k x s. split; intros Hl; apply write_frame; intros Hl'; [apply (S l Hl' Hl)|apply (S l Hl Hl')].
Qed.

(** * ... and where it does not hold: the empty maps newNodeState makes are shared by every clone *)

Definition rx_core : nstate := new_node_state [98] [98] 100.
(** the heap after `s := newNodeState("b", ..)`: two empty maps and the state object *)
Definition rx_h : heap :=
  fst (h_alloc (fst (h_alloc (fst (h_alloc h_empty (CMap ∅))) (CMap ∅)))
               (CState (HState rx_core [] false (Some 0) (Some 1) 0))).
(** o = a view holding that object (as AddMember of a fresh view would, had it not cloned), v = an empty view *)
Definition rx_o : hview := HView (Some {[ [98] := Some 2 ]}) (f_new_view [2] 100 0).
Definition rx_v : hview := HView (Some ∅) (f_new_view [1] 100 0).

Lemma rx_hwf : hwf rx_h.
Proof.
  unfold rx_h.
  assert (W0 : hwf h_empty) by (intros l c H; cbn in H; rewrite lookup_empty in H; discriminate).
  destruct (alloc_spec h_empty (CMap ∅) W0) as (_ & W1 & _).
  destruct (alloc_spec _ (CMap ∅) W1) as (_ & W2 & _).
  destruct (alloc_spec _ (CState (HState rx_core [] false (Some 0) (Some 1) 0)) W2) as (_ & W3 & _).
  exact W3.
Qed.

Lemma rx_closed : vclosed rx_h rx_o /\ vclosed rx_h rx_v /\ vsep rx_h rx_v rx_o.
Proof.
  split; [|split].
  - intros k l Hk. cbn in Hk. apply lookup_singleton_Some in Hk as [_ [= <-]].
    exists (HState rx_core [] false (Some 0) (Some 1) 0). split; [reflexivity|].
    intros l [[= <-]|[= <-]]; eexists; reflexivity.
  - intros k l Hk. cbn in Hk. rewrite lookup_empty in Hk. discriminate.
  - intros l [(k & Hk)|(k & ls & s & Hk & _)] _; cbn in Hk; rewrite lookup_empty in Hk; discriminate.
Qed.

(** the size of the Labels map of member "b", read through the heap *)
Definition rx_labels_size (h : heap) (v : hview) : option nat :=
  match fv_map (abs_view h v) !! [98] with
  | Some (Some s) => size <$> fs_labels s
  | _ => None
  end.

(** v.MergeFrom(o) adopts a clone of b; the clone's Labels is the very map object of o's state: a
    `Labels["k"] = "x"` through v's stored state changes what o denotes (and vice versa) *)
Lemma merge_shares_empty_map :
  let r := h_merge 0 0 0 rx_h rx_v rx_o in
  let h' := fst (fst r) in let v' := snd (fst r) in
  hwf rx_h /\ vclosed rx_h rx_v /\ vclosed rx_h rx_o /\ vsep rx_h rx_v rx_o /\
  vlocs h' v' 1 /\ vlocs h' rx_o 1 /\ h_map h' 1 = Some ∅ /\
  rx_labels_size h' rx_o = Some 0%nat /\
  rx_labels_size (h_map_insert h' 1 [107] [120]) rx_o = Some 1%nat /\
  rx_labels_size (h_map_insert h' 1 [107] [120]) v' = Some 1%nat /\
  abs_view (h_map_insert h' 1 [107] [120]) rx_o <> abs_view h' rx_o.
Proof.
  cbn zeta. destruct rx_closed as (Co & Cv & Sp).
  split; [exact rx_hwf|]. split; [exact Cv|]. split; [exact Co|]. split; [exact Sp|].
  assert (E1 : rx_labels_size (fst (fst (h_merge 0 0 0 rx_h rx_v rx_o))) rx_o = Some 0%nat) by (vm_compute; reflexivity).
  assert (E2 : rx_labels_size (h_map_insert (fst (fst (h_merge 0 0 0 rx_h rx_v rx_o))) 1 [107] [120]) rx_o = Some 1%nat)
    by (vm_compute; reflexivity).
  split.
  { right. exists [98], 3, (HState rx_core [] false (Some 0) (Some 1) 0).
    split; [vm_compute; reflexivity|]. split; [vm_compute; reflexivity|]. right. reflexivity. }
  split.
  { right. exists [98], 2, (HState rx_core [] false (Some 0) (Some 1) 0).
    split; [vm_compute; reflexivity|]. split; [vm_compute; reflexivity|]. right. reflexivity. }
  split; [vm_compute; reflexivity|]. split; [exact E1|]. split; [exact E2|].
  split; [vm_compute; reflexivity|].
  intros Heq. apply (f_equal (fun fv => match fv_map fv !! [98] with Some (Some s) => size <$> fs_labels s | _ => None end)) in Heq.
  change (rx_labels_size (h_map_insert (fst (fst (h_merge 0 0 0 rx_h rx_v rx_o))) 1 [107] [120]) rx_o =
          rx_labels_size (fst (fst (h_merge 0 0 0 rx_h rx_v rx_o))) rx_o) in Heq.
  rewrite E1, E2 in Heq. discriminate.
Qed.

(** non-vacuity of [merge_independent_partial]: a state with a nil Metadata and a one-entry Labels map *)
Definition px_state : hstate := HState rx_core [120; 118] false None (Some 0) 7.
Definition px_h : heap := fst (h_alloc (fst (h_alloc h_empty (CMap {[ [100; 99] := [49] ]}))) (CState px_state)).
Definition px_o : hview := HView (Some {[ [98] := Some 1 ]}) (f_new_view [2] 100 0).

Lemma px_hyps :
  hwf px_h /\ vclosed px_h rx_v /\ vclosed px_h px_o /\ vsep px_h rx_v px_o /\ no_empty_maps px_h px_o /\
  snd (h_merge 0 0 0 px_h rx_v px_o) = true /\
  rx_labels_size (fst (fst (h_merge 0 0 0 px_h rx_v px_o))) (snd (fst (h_merge 0 0 0 px_h rx_v px_o))) = Some 1%nat.
Proof.
  assert (W0 : hwf h_empty) by (intros l c H; cbn in H; rewrite lookup_empty in H; discriminate).
  destruct (alloc_spec h_empty (CMap {[ [100; 99] := [49] ]}) W0) as (_ & W1 & _).
  destruct (alloc_spec _ (CState px_state) W1) as (_ & W2 & _).
  split; [exact W2|]. split; [|split; [|split; [|split; [|split]]]].
  - intros k l Hk. cbn in Hk. rewrite lookup_empty in Hk. discriminate.
  - intros k l Hk. cbn in Hk. apply lookup_singleton_Some in Hk as [_ [= <-]].
    exists px_state. split; [reflexivity|]. intros l [[=]|[= <-]]. eexists; reflexivity.
  - intros l [(k & Hk)|(k & ls & s & Hk & _)] _; cbn in Hk; rewrite lookup_empty in Hk; discriminate.
  - intros k ls s lm Hk Hs Hm. cbn in Hk. apply lookup_singleton_Some in Hk as [_ [= <-]].
    assert (s = px_state) by (vm_compute in Hs; injection Hs as <-; reflexivity). subst s.
    destruct Hm as [[=]|[= <-]]. intros H.
    apply (f_equal (fun x => size <$> x)) in H. vm_compute in H. discriminate.
  - vm_compute. reflexivity.
  - vm_compute. reflexivity.
Qed.
