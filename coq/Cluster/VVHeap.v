(** HEAP-level model of internal/cluster/version_vector.go.

    [Cluster/VV.v] models a vector as a finite map, in which "operations never modify their operands" cannot
    even be said.  Here a Go [VersionVector] is what it is in the code: a struct VALUE
    [{m map[string]uint64; entries []NodeCount; dirty bool}] whose map and whose cached slice are REFERENCES into
    a heap shared by all vectors of the process; a struct copy shares both.  Every method is a heap program
    built from the primitive steps the Go code performs: [make] (allocation), [m[k] = c] (a store into ONE map
    object), [range m] (iteration in an order chosen by the runtime), [append] into the spare capacity of a
    backing array (a store into a cell other slices over the same array can see), [sort] in place.

    Map iteration order is not fixed by Go: every [range] asks the oracle [iter] for the order; the oracle is a
    Section variable of the model, the theorems (VVHeapProofs.v) hold for EVERY oracle that returns a
    permutation of the map's entries, the executable instance (VVRun.v) alternates between two orders.

    Not modelled: [sizeHint] and the capacity argument of [make(map, n)] (allocation hints without semantic
    effect), the growth factor of [append] beyond the capacity (only [append([]string(nil), xs...)] reallocates
    in this file; the model allocates exactly [len] cells), [String]/[Nodes]/[MaxCounter]/[TotalCount]
    (read-only loops). *)
From Coq Require Import List NArith ZArith Lia Bool.
From stdpp Require Import gmap sorting.
From Vivid Require Import Codec.Prim Cluster.VV.
Local Open Scope N_scope.

Notation key := (list N).
Notation ent := (list N * N)%type.
Notation loc := N.

(** a slice header: backing array + length (offset 0 everywhere in this file; capacity = size of the array) *)
Record slice := Slice { s_arr : loc; s_len : nat }.

(** a [VersionVector] struct value; [None] = nil map / nil slice *)
Record vobj := VObj { o_m : option loc; o_ents : option slice; o_dirty : bool }.

Record heap := Heap {
  h_maps : gmap loc vv;            (* map[string]uint64 objects *)
  h_ents : gmap loc (list ent);    (* backing arrays of []NodeCount (all [cap] cells) *)
  h_strs : gmap loc (list key);    (* backing arrays of []string *)
  h_cells : gmap loc vobj;         (* heap-allocated VersionVector structs (the targets of atomic.Pointer[VersionVector]); never written after allocation *)
  h_next : loc;                    (* allocation pointer: every location >= h_next is free *)
  h_tick : N }.                    (* number of [range] loops executed so far (argument of the oracle) *)

Definition heap0 : heap := Heap ∅ ∅ ∅ ∅ 0 0.

(** * Primitive steps *)
Definition alloc_map (h : heap) : loc * heap :=
  (h_next h, Heap (<[h_next h := ∅]> (h_maps h)) (h_ents h) (h_strs h) (h_cells h) (h_next h + 1) (h_tick h)).
Definition alloc_ents (cells : list ent) (h : heap) : loc * heap :=
  (h_next h, Heap (h_maps h) (<[h_next h := cells]> (h_ents h)) (h_strs h) (h_cells h) (h_next h + 1) (h_tick h)).
Definition alloc_strs (cells : list key) (h : heap) : loc * heap :=
  (h_next h, Heap (h_maps h) (h_ents h) (<[h_next h := cells]> (h_strs h)) (h_cells h) (h_next h + 1) (h_tick h)).
Definition alloc_cell (v : vobj) (h : heap) : loc * heap :=
  (h_next h, Heap (h_maps h) (h_ents h) (h_strs h) (<[h_next h := v]> (h_cells h)) (h_next h + 1) (h_tick h)).

(** [m[k] = c] on the map object at [l] *)
Definition store_map (l : loc) (k : key) (c : N) (h : heap) : heap :=
  Heap (alter (insert k c) l (h_maps h)) (h_ents h) (h_strs h) (h_cells h) (h_next h) (h_tick h).
(** overwrite the cells of the arrays at [l] *)
Definition store_ents (l : loc) (cells : list ent) (h : heap) : heap :=
  Heap (h_maps h) (alter (fun _ => cells) l (h_ents h)) (h_strs h) (h_cells h) (h_next h) (h_tick h).
Definition store_strs (l : loc) (cells : list key) (h : heap) : heap :=
  Heap (h_maps h) (h_ents h) (alter (fun _ => cells) l (h_strs h)) (h_cells h) (h_next h) (h_tick h).
Definition bump_tick (h : heap) : heap :=
  Heap (h_maps h) (h_ents h) (h_strs h) (h_cells h) (h_next h) (h_tick h + 1).

Definition map_of (h : heap) (l : loc) : vv := default ∅ (h_maps h !! l).
(** the ABSTRACT VALUE of a vector object: the contents of the map it points to *)
Definition omap (h : heap) (v : vobj) : vv := match o_m v with Some l => map_of h l | None => ∅ end.
Definition olen (h : heap) (v : vobj) : nat := size (omap h v).
Definition ents_of (h : heap) (s : slice) : list ent := take (s_len s) (default [] (h_ents h !! s_arr s)).
Definition strs_of (h : heap) (s : slice) : list key := take (s_len s) (default [] (h_strs h !! s_arr s)).

Definition store_all (l : loc) (es : list ent) (h : heap) : heap :=
  fold_left (fun h e => store_map l (fst e) (snd e) h) es h.

Inductive outcome (A : Type) : Type := ORet (a : A) | OFuel.
Arguments ORet {A} a.
Arguments OFuel {A}.

Section Methods.
  (** order in which the [t]-th [range] loop of the run visits the entries of a map *)
  Variable iter : N -> vv -> list ent.

  Definition range_obj (v : vobj) (h : heap) : list ent * heap :=
    (iter (h_tick h) (omap h v), bump_tick h).

  (** NewVersionVector / NewVersionVectorWithCapacity *)
  Definition h_new (h : heap) : vobj * heap :=
    let '(l, h1) := alloc_map h in (VObj (Some l) None false, h1).

  (** Clone: nil map -> NewVersionVector; else a fresh map filled by one range loop; entries nil, dirty true *)
  Definition h_clone (v : vobj) (h : heap) : vobj * heap :=
    match o_m v with
    | None => h_new h
    | Some _ =>
        let '(l, h1) := alloc_map h in
        let '(es, h2) := range_obj v h1 in
        (VObj (Some l) None true, store_all l es h2)
    end.

  Definition h_get (v : vobj) (k : key) (h : heap) : N := vget (omap h v) k.

  (** Increment: validate, Clone, read out.m[node], cap check, ONE store into the clone's map, dirty = true.
      On overflow the zero value is returned (the clone is garbage). *)
  Definition h_inc (v : vobj) (k : key) (h : heap) : res vobj * heap :=
    if valid_addr k then
      let '(out, h1) := h_clone v h in
      let cur := h_get out k h1 in
      if max_counter <=? cur then (Err EOverflow, h1)
      else match o_m out with
           | Some l => (Ok (VObj (Some l) (o_ents out) true), store_map l k (cur + 1) h1)
           | None => (Err EUnsupported, h1)   (* a store into a nil map would panic; Clone never returns one *)
           end
    else (Err EInvalid, h).

  (** the second loop of Merge: [if !exists || otherCount > currentCount { out.m[node] = otherCount }] *)
  Definition merge_into (l : loc) (es : list ent) (h : heap) : heap :=
    fold_left (fun h e => match map_of h l !! fst e with
                          | Some cur => if cur <? snd e then store_map l (fst e) (snd e) h else h
                          | None => store_map l (fst e) (snd e) h
                          end) es h.

  Definition h_merge (v o : vobj) (h : heap) : vobj * heap :=
    if Nat.eqb (olen h o) 0 then h_clone v h
    else if Nat.eqb (olen h v) 0 then h_clone o h
    else
      let '(l, h1) := alloc_map h in
      let '(esv, h2) := range_obj v h1 in
      let h3 := store_all l esv h2 in
      let '(eso, h4) := range_obj o h3 in
      (VObj (Some l) None true, merge_into l eso h4).

  (** Compare: first loop over v.m with the two flags and the early return ([None]) ... *)
  Fixpoint cmp_pass1 (om : vv) (es : list ent) (ls gt : bool) : option (bool * bool) :=
    match es with
    | [] => Some (ls, gt)
    | e :: r =>
        let vb := vget om (fst e) in
        let ls' := ls || (snd e <? vb) in
        let gt' := gt || (vb <? snd e) in
        if ls' && gt' then None else cmp_pass1 om r ls' gt'
    end.
  (** ... second loop over other.m, entries v does not have *)
  Fixpoint cmp_pass2 (vm : vv) (es : list ent) (ls gt : bool) : option (bool * bool) :=
    match es with
    | [] => Some (ls, gt)
    | e :: r =>
        match vm !! fst e with
        | Some _ => cmp_pass2 vm r ls gt
        | None => let ls' := ls || (0 <? snd e) in
                  if ls' && gt then None else cmp_pass2 vm r ls' gt
        end
    end.
  Definition order_of_flags (ls gt : bool) : vorder :=
    match ls, gt with
    | true, false => VBefore | false, true => VAfter | false, false => VEqual | true, true => VConcurrent
    end.
  Definition h_compare (v o : vobj) (h : heap) : vorder * heap :=
    if Nat.eqb (olen h v) 0 && Nat.eqb (olen h o) 0 then (VEqual, h) else
    let '(esv, h1) := range_obj v h in
    match cmp_pass1 (omap h o) esv false false with
    | None => (VConcurrent, h1)
    | Some (ls, gt) =>
        let '(eso, h2) := range_obj o h1 in
        match cmp_pass2 (omap h v) eso ls gt with
        | None => (VConcurrent, h2)
        | Some (ls', gt') => (order_of_flags ls' gt', h2)
        end
    end.

  (** Compact: returns ITS OPERAND (the same struct: same map, same cache) when there is nothing to drop *)
  Definition nonzero (e : ent) : bool := 0 <? snd e.
  Definition h_compact (v : vobj) (h : heap) : vobj * heap :=
    if Nat.eqb (olen h v) 0 then (v, h) else
    let '(es, h1) := range_obj v h in
    if Nat.eqb (length (List.filter nonzero es)) (olen h v) then (v, h1) else
    let '(l, h2) := alloc_map h1 in
    let '(es2, h3) := range_obj v h2 in
    (VObj (Some l) None true, store_all l (List.filter nonzero es2) h3).

  (** PruneWithMax: the caller's slice [act] is copied before it is sorted; activeSet (a local map[string]bool
      that does not escape) is the list [actl'] *)
  Definition h_prune_max (v : vobj) (act : option slice) (maxe : Z) (h : heap) : vobj * heap :=
    let actl := match act with Some s => strs_of h s | None => [] end in
    if Nat.eqb (olen h v) 0 || Nat.eqb (length actl) 0 then h_new h else
    let limit := if (maxe <=? 0)%Z then max_entries else Z.to_N maxe in
    let '(actl', h1) :=
      if limit <? N.of_nat (length actl) then
        let '(la, ha) := alloc_strs actl h in                       (* append([]string(nil), activeNodes...) *)
        let hb := store_strs la (isort lex_le actl) ha in            (* sort.Strings, in place, on the copy *)
        (take (N.to_nat limit) (strs_of hb (Slice la (length actl))), hb)   (* [:limit] *)
      else (actl, h) in
    let '(l, h2) := alloc_map h1 in
    let '(es, h3) := range_obj v h2 in
    (VObj (Some l) None true, store_all l (List.filter (fun e => bool_decide (fst e ∈ actl')) es) h3).

  (** [append(s, e)]: into the spare capacity of the SAME array when there is room, else a fresh array *)
  Definition ent_append (s : slice) (e : ent) (h : heap) : slice * heap :=
    let arr := default [] (h_ents h !! s_arr s) in
    if Nat.ltb (s_len s) (length arr)
    then (Slice (s_arr s) (S (s_len s)), store_ents (s_arr s) (take (s_len s) arr ++ e :: drop (S (s_len s)) arr) h)
    else let '(l, h1) := alloc_ents (take (s_len s) arr ++ [e]) h in (Slice l (S (s_len s)), h1).
  (** sort.Slice on [s]: rewrites the first [len] cells of the array in place *)
  Definition ents_sort (s : slice) (h : heap) : heap :=
    let arr := default [] (h_ents h !! s_arr s) in
    store_ents (s_arr s) (isort (fun p q => lex_le (fst p) (fst q)) (take (s_len s) arr) ++ drop (s_len s) arr) h.

  (** SortedEntries (value receiver: the cache field is never written): nil for an empty map; THE CACHED SLICE
      ITSELF when [!dirty && entries != nil]; else a fresh array of capacity len(m), filled by append, sorted *)
  Definition zcell : ent := ([], 0).
  Definition h_sorted_fresh (v : vobj) (h : heap) : option slice * heap :=
    let '(l, h1) := alloc_ents (repeat zcell (olen h v)) h in          (* make([]NodeCount, 0, len(v.m)) *)
    let '(es, h2) := range_obj v h1 in
    let '(s, h3) := fold_left (fun sh e => ent_append (fst sh) e (snd sh)) es (Slice l 0, h2) in
    (Some s, ents_sort s h3).
  Definition h_sorted_entries (v : vobj) (h : heap) : option slice * heap :=
    if Nat.eqb (olen h v) 0 then (None, h) else
    match o_dirty v, o_ents v with
    | false, Some s => (Some s, h)
    | _, _ => h_sorted_fresh v h
    end.
  Definition slice_ents (h : heap) (so : option slice) : list ent :=
    match so with Some s => ents_of h s | None => [] end.

  (** WriteVersionVector (the bytes appended to the writer) *)
  Definition h_write (v : vobj) (h : heap) : res (list N) * heap :=
    let '(so, h1) := h_sorted_entries v h in
    let es := slice_ents h1 so in
    (if max_entries <? N.of_nat (length es) then Err ETooLarge
     else let* body := vwrite_entries es in Ok (put_u32 (N.of_nat (length es)) ++ body), h1).

  (** ReadVersionVector: one fresh map, one store per wire entry (a later duplicate overwrites an earlier one);
      dirty = false, entries = nil; on error the zero value is returned *)
  Fixpoint h_read_entries (n : nat) (l : loc) (bs : list N) (h : heap) : res (list N) * heap :=
    match n with
    | O => (Ok bs, h)
    | S n' =>
        match rd_lp4 bs with
        | Err e => (Err e, h)
        | Ok (k, bs1) =>
            if valid_addr k then
              match rd_u64 bs1 with
              | Err e => (Err e, h)
              | Ok (c, bs2) =>
                  if max_counter <? c then (Err EOverflow, h)
                  else h_read_entries n' l bs2 (store_map l k c h)
              end
            else (Err EInvalid, h)
        end
    end.
  Definition h_read (bs : list N) (h : heap) : res (vobj * list N) * heap :=
    match rd_u32 bs with
    | Err e => (Err e, h)
    | Ok (n, bs1) =>
        if max_entries <? n then (Err ETooLarge, h) else
        let '(l, h1) := alloc_map h in
        match h_read_entries (N.to_nat n) l bs1 h1 with
        | (Ok rest, h2) => (Ok (VObj (Some l) None false, rest), h2)
        | (Err e, h2) => (Err e, h2)
        end
    end.

  (** * AtomicVersionVector (the code since the repair 2f67bea: [value atomic.Pointer[VersionVector]])
      The wrapper holds a POINTER to a heap-allocated VersionVector struct (a box in [h_cells], never written
      after its allocation); Store / a successful CompareAndSwap allocate a new box ([&v], [&new]) and replace the
      pointer. The functions below are the SEQUENTIAL semantics (no other goroutine between the steps of one
      call); they take the current pointer [p] and return the pointer the wrapper holds afterwards. The
      concurrent semantics (load and CAS as separate steps of any number of callers) is Cluster/VVAtomic.v. *)
  Definition zero_obj : vobj := VObj None None false.
  Definition box_of (p : loc) (h : heap) : vobj := default zero_obj (h_cells h !! p).      (* *p *)
  Definition a_new (init : vobj) (h : heap) : loc * heap :=
    match o_m init with
    | None => let '(v, h1) := h_new h in alloc_cell v h1
    | Some _ => alloc_cell init h
    end.
  Definition a_load (p : loc) (h : heap) : vobj := box_of p h.
  Definition a_store (v : vobj) (h : heap) : loc * heap := alloc_cell v h.
  (** current := value.Load(); if !current.Equal(old) return false; return value.CompareAndSwap(current, &new)
      - sequentially the pointer cannot have changed since its load, so the swap succeeds *)
  Definition a_cas (p : loc) (old new : vobj) (h : heap) : (bool * loc) * heap :=
    let '(ord, h1) := h_compare (box_of p h) old h in
    match ord with
    | VEqual => let '(p', h2) := alloc_cell new h1 in ((true, p'), h2)
    | _ => ((false, p), h1)
    end.
  Fixpoint a_inc (fuel : nat) (p : loc) (k : key) (h : heap) : (outcome (res vobj) * loc) * heap :=
    match fuel with
    | O => ((OFuel, p), h)
    | S fuel' =>
        let cur := a_load p h in
        match h_inc cur k h with
        | (Err e, h1) => ((ORet (Err e), p), h1)
        | (Ok nv, h1) =>
            match a_cas p cur nv h1 with
            | ((true, p'), h2) => ((ORet (Ok nv), p'), h2)
            | ((false, _), h2) => a_inc fuel' p k h2
            end
        end
    end.
End Methods.

(** * What "not modified" means on the heap *)

(** [h'] extends [h]: every location allocated in [h] holds in [h'] what it held in [h] *)
Definition hext (h h' : heap) : Prop :=
  h_next h <= h_next h' /\
  forall l, l < h_next h ->
    h_maps h' !! l = h_maps h !! l /\ h_ents h' !! l = h_ents h !! l /\
    h_strs h' !! l = h_strs h !! l /\ h_cells h' !! l = h_cells h !! l.

(** every allocated location lies below the allocation pointer *)
Definition heap_wf (h : heap) : Prop :=
  forall l, h_next h <= l ->
    h_maps h !! l = None /\ h_ents h !! l = None /\ h_strs h !! l = None /\ h_cells h !! l = None.

(** a vector object living in [h]: its references are allocated, and IF it carries a clean cache then the cache
    holds the sorted entries of its map *)
Definition obj_ok (h : heap) (v : vobj) : Prop :=
  (forall l, o_m v = Some l -> l < h_next h /\ is_Some (h_maps h !! l)) /\
  (forall s, o_ents v = Some s -> s_arr s < h_next h /\ (o_dirty v = false -> ents_of h s = ventries (omap h v))).
Definition slice_ok (h : heap) (s : slice) : Prop := s_arr s < h_next h.

(** * Sessions: one family of vector objects driven through a history of operations
    (what harness/cmd/vv runs on the real code; op 8 of [run_vv]) *)
Inductive sop : Type :=
| SInc (i : N) (k : key)
| SMerge (i j : N)
| SClone (i : N)
| SDecode (i : N)                       (* WriteVersionVector then ReadVersionVector of the bytes *)
| SCompact (i : N)
| SObserve (i : N)                      (* SortedEntries *)
| SPrune (i : N) (act : list key) (maxe : Z)
| SCompare (i j : N).

(** what one step shows *)
Inductive sobs : Type :=
| ONew (v : vobj)                       (* a vector was added to the pool *)
| OErr (e : err)
| OOrder (o : vorder)
| OEntries (es : list ent)
| OPruned (v : vobj) (caller_slice : list key)   (* + the caller's slice as it reads after the call *)
| OBad.                                 (* an index outside the pool *)

Definition pool_get (pool : list vobj) (i : N) : option vobj :=
  if i <? N.of_nat (length pool) then nth_error pool (N.to_nat i) else None.

Section Session.
  Variable iter : N -> vv -> list ent.

  Definition hstep (op : sop) (st : list vobj * heap) : (list vobj * heap) * sobs :=
    let '(pool, h) := st in
    match op with
    | SInc i k =>
        match pool_get pool i with
        | Some v => match h_inc iter v k h with
                    | (Ok r, h') => ((pool ++ [r], h'), ONew r)
                    | (Err e, h') => ((pool, h'), OErr e)
                    end
        | None => (st, OBad)
        end
    | SMerge i j =>
        match pool_get pool i, pool_get pool j with
        | Some v, Some o => let '(r, h') := h_merge iter v o h in ((pool ++ [r], h'), ONew r)
        | _, _ => (st, OBad)
        end
    | SClone i =>
        match pool_get pool i with
        | Some v => let '(r, h') := h_clone iter v h in ((pool ++ [r], h'), ONew r)
        | None => (st, OBad)
        end
    | SDecode i =>
        match pool_get pool i with
        | Some v =>
            match h_write iter v h with
            | (Ok bs, h1) => match h_read bs h1 with
                             | (Ok (r, _), h2) => ((pool ++ [r], h2), ONew r)
                             | (Err e, h2) => ((pool, h2), OErr e)
                             end
            | (Err e, h1) => ((pool, h1), OErr e)
            end
        | None => (st, OBad)
        end
    | SCompact i =>
        match pool_get pool i with
        | Some v => let '(r, h') := h_compact iter v h in ((pool ++ [r], h'), ONew r)
        | None => (st, OBad)
        end
    | SObserve i =>
        match pool_get pool i with
        | Some v => let '(so, h') := h_sorted_entries iter v h in ((pool, h'), OEntries (slice_ents h' so))
        | None => (st, OBad)
        end
    | SPrune i act maxe =>
        match pool_get pool i with
        | Some v =>
            let '(la, h0) := alloc_strs act h in            (* the caller's []string *)
            let s := Slice la (length act) in
            let '(r, h') := h_prune_max iter v (Some s) maxe h0 in
            ((pool ++ [r], h'), OPruned r (strs_of h' s))
        | None => (st, OBad)
        end
    | SCompare i j =>
        match pool_get pool i, pool_get pool j with
        | Some v, Some o => let '(r, h') := h_compare iter v o h in ((pool, h'), OOrder r)
        | _, _ => (st, OBad)
        end
    end.

  Fixpoint hrun (ops : list sop) (st : list vobj * heap) : (list vobj * heap) * list sobs :=
    match ops with
    | [] => (st, [])
    | op :: r => let '(st1, ob) := hstep op st in let '(st2, obs) := hrun r st1 in (st2, ob :: obs)
    end.

  (** the harness's constructor XVNewVV: NewVersionVector(), then one store per given entry *)
  Definition h_of_list (es : list ent) (h : heap) : vobj * heap :=
    let '(l, h1) := alloc_map h in (VObj (Some l) None false, store_all l es h1).
  Definition hsession (init : list ent) (ops : list sop) : (list vobj * heap) * list sobs :=
    let '(v, h) := h_of_list init heap0 in hrun ops ([v], h).
End Session.

(** the same history on VALUES (the functional model of VV.v): the pool only ever grows at its end *)
Definition fpool_get (pool : list vv) (i : N) : option vv :=
  if i <? N.of_nat (length pool) then nth_error pool (N.to_nat i) else None.
Definition fstep (op : sop) (pool : list vv) : list vv :=
  match op with
  | SInc i k => match fpool_get pool i with
                | Some v => match vinc v k with Ok r => pool ++ [r] | Err _ => pool end
                | None => pool end
  | SMerge i j => match fpool_get pool i, fpool_get pool j with
                  | Some v, Some o => pool ++ [vmerge v o] | _, _ => pool end
  | SClone i => match fpool_get pool i with Some v => pool ++ [v] | None => pool end
  | SDecode i => match fpool_get pool i with
                 | Some v => match vwrite v with
                             | Ok bs => match vread bs with Ok (r, _) => pool ++ [r] | Err _ => pool end
                             | Err _ => pool end
                 | None => pool end
  | SCompact i => match fpool_get pool i with Some v => pool ++ [vcompact v] | None => pool end
  | SObserve i => pool
  | SPrune i act maxe => match fpool_get pool i with Some v => pool ++ [vprune_max v act maxe] | None => pool end
  | SCompare i j => pool
  end.
Definition frun (ops : list sop) (pool : list vv) : list vv := fold_left (fun p op => fstep op p) ops pool.

(** * Specification vocabulary (used by the statements in Properties/C16.v) *)

(** an iteration oracle is admissible when every [range] visits every entry of the map exactly once *)
Definition iter_ok (iter : N -> vv -> list ent) : Prop := forall t m, iter t m ≡ₚ map_to_list m.

(** a result object that shares nothing with the heap it was computed from *)
Definition fresh_obj (h : heap) (r : vobj) : Prop :=
  (exists l, o_m r = Some l /\ h_next h <= l) /\ o_ents r = None.

(** the pointer held by an AtomicVersionVector: it points to an allocated box holding a live vector *)
Definition cell_ok (h : heap) (c : loc) : Prop :=
  c < h_next h /\ exists v, h_cells h !! c = Some v /\ obj_ok h v.

(** every entry has a valid address and a counter within the cap *)
Definition entries_ok (v : vv) : Prop :=
  forall k c, v !! k = Some c -> valid_addr k = true /\ c <= max_counter.

(** the vectors (as values) that the API of version_vector.go can build *)
Inductive api_reach : vv -> Prop :=
| api_new : api_reach ∅
| api_inc v k v' : api_reach v -> vinc v k = Ok v' -> api_reach v'
| api_merge a b : api_reach a -> api_reach b -> api_reach (vmerge a b)
| api_compact v : api_reach v -> api_reach (vcompact v)
| api_prune v act maxe : api_reach v -> api_reach (vprune_max v act maxe)
| api_read bs v rest : vread bs = Ok (v, rest) -> api_reach v.

(** one entry on the wire *)
Definition enc_entry (p : ent) : list N := put_lp4 (fst p) ++ put_u64 (snd p).
