(** Configurations of MergeFromWithOptions (internal/cluster/cluster_view.go): the three
    VersionConcurrentStrategy values (0 TakeMax, 1 PreferLocal, 2 PreferRemote; every other int takes the
    `default:` arm of the switch), the clock-skew test, and what they decide: whether other's
    Epoch/Timestamp are considered at all.  Definitions only; proofs in ViewCfgProofs.v.

    The model of the merge itself is [View.view_merge]; nothing here changes it. *)
From Coq Require Import List NArith ZArith Lia Bool.
From stdpp Require Import gmap.
From Vivid Require Import Codec.Prim Cluster.VV Cluster.View.
Local Open Scope N_scope.

(** `!skipEpochTimestamp && adoptEpochTimestamp` of MergeFromWithOptions: the merge looks at other's
    Epoch/Timestamp iff the skew test does not skip them and not (the two version vectors are
    concurrent and the strategy is PreferLocal).  Note that [is_concurrent] is evaluated on the vector
    of v BEFORE the merge (the code computes `concurrent` first). *)
Definition adopts (skew strat now : Z) (v o : view) : bool :=
  negb (skew_skip skew now (vw_ts o)) &&
  negb (is_concurrent (vw_vv v) (vw_vv o) && (strat =? 1)%Z).

(** the clock-skew test without int64 wrap-around: 0 < skew < |now - other.Timestamp| *)
Definition skew_far (skew now ots : Z) : bool :=
  (0 <? skew)%Z && (skew <? Z.abs (now - ots))%Z.

(** * predicates on the configurations that occur in a merge expression *)
Fixpoint mcfg (P : Z -> Z -> Z -> Prop) (e : mexp) : Prop :=
  match e with
  | MLeaf _ => True
  | MNode sk st now l r => P sk st now /\ mcfg P l /\ mcfg P r
  end.

(** TakeMax / PreferRemote / any out-of-range strategy value, clock-skew test off (MaxClockSkew <= 0) *)
Definition cfg_max_noskew (sk st now : Z) : Prop := (sk <= 0)%Z /\ st <> 1%Z.

(** the largest epoch / view timestamp among the leaves, and the one of the leftmost leaf *)
Fixpoint mepoch_max (e : mexp) : Z :=
  match e with
  | MLeaf v => vw_epoch v
  | MNode _ _ _ l r => Z.max (mepoch_max l) (mepoch_max r)
  end.
Fixpoint mts_max (e : mexp) : Z :=
  match e with
  | MLeaf v => vw_ts v
  | MNode _ _ _ l r => Z.max (mts_max l) (mts_max r)
  end.
Fixpoint mleft (e : mexp) : view :=
  match e with
  | MLeaf v => v
  | MNode _ _ _ l _ => mleft l
  end.

(** supremum of a list of integers ([None] for the empty list); independent of the order *)
Definition zsup (l : list Z) : option Z :=
  foldr (fun x acc => Some (match acc with None => x | Some y => Z.max x y end)) None l.

(** * healthy members as the property of the member map (not of the order map_to_list happens to have) *)
Definition is_up (s : nstate) : bool := (ns_status s =? st_up)%Z.
Definition up_members (m : members) : members := filter (fun p => is_up (snd p) = true) m.
