(** Proofs about the heap-level model (Cluster/VVHeap.v): every method of VersionVector, as a heap program,
    (a) REFINES the functional model of Cluster/VV.v on the abstract values [omap], and
    (b) satisfies the FRAME property [hext]: it writes only into locations it allocated itself,
    for every heap, every vector object living in it, and every map-iteration oracle. *)
From Coq Require Import List NArith ZArith Lia Bool.
From Coq Require Import ZifyN ZifyNat ZifyBool.
From stdpp Require Import gmap sorting.
From Vivid Require Import Codec.Prim Codec.PrimProofs Cluster.VV Cluster.VVProofs Cluster.VVHeap.
Local Open Scope N_scope.

(** * Frame bookkeeping *)
Definition hextn (n : loc) (h h' : heap) : Prop :=
  h_next h <= h_next h' /\
  forall l, l < n ->
    h_maps h' !! l = h_maps h !! l /\ h_ents h' !! l = h_ents h !! l /\
    h_strs h' !! l = h_strs h !! l /\ h_cells h' !! l = h_cells h !! l.

Lemma hext_hextn h h' : hext h h' <-> hextn (h_next h) h h'.
Proof. reflexivity. Qed.

Lemma hextn_refl n h : hextn n h h.
Proof. split; [lia|]. intros l _. repeat split. Qed.
Lemma hextn_trans n h1 h2 h3 : hextn n h1 h2 -> hextn n h2 h3 -> hextn n h1 h3.
Proof.
  intros [A1 B1] [A2 B2]. split; [lia|]. intros l Hl.
  destruct (B1 l Hl) as (?&?&?&?), (B2 l Hl) as (?&?&?&?). repeat split; congruence.
Qed.
Lemma hextn_mono n m h h' : m <= n -> hextn n h h' -> hextn m h h'.
Proof. intros Hm [A B]. split; [exact A|]. intros l Hl. apply B. lia. Qed.

Lemma hextn_alloc_map n h : n <= h_next h -> hextn n h (snd (alloc_map h)).
Proof. intros Hn. split; cbn; [lia|]. intros l Hl. rewrite lookup_insert_ne by lia. repeat split. Qed.
Lemma hextn_alloc_ents n cs h : n <= h_next h -> hextn n h (snd (alloc_ents cs h)).
Proof. intros Hn. split; cbn; [lia|]. intros l Hl. rewrite lookup_insert_ne by lia. repeat split. Qed.
Lemma hextn_alloc_strs n cs h : n <= h_next h -> hextn n h (snd (alloc_strs cs h)).
Proof. intros Hn. split; cbn; [lia|]. intros l Hl. rewrite lookup_insert_ne by lia. repeat split. Qed.
Lemma hextn_alloc_cell n v h : n <= h_next h -> hextn n h (snd (alloc_cell v h)).
Proof. intros Hn. split; cbn; [lia|]. intros l Hl. rewrite lookup_insert_ne by lia. repeat split. Qed.
Lemma hextn_store_map n l k c h : n <= l -> hextn n h (store_map l k c h).
Proof. intros Hn. split; cbn; [lia|]. intros l' Hl. rewrite lookup_alter_ne by lia. repeat split. Qed.
Lemma hextn_store_ents n l cs h : n <= l -> hextn n h (store_ents l cs h).
Proof. intros Hn. split; cbn; [lia|]. intros l' Hl. rewrite lookup_alter_ne by lia. repeat split. Qed.
Lemma hextn_store_strs n l cs h : n <= l -> hextn n h (store_strs l cs h).
Proof. intros Hn. split; cbn; [lia|]. intros l' Hl. rewrite lookup_alter_ne by lia. repeat split. Qed.
Lemma hextn_bump n h : hextn n h (bump_tick h).
Proof. split; cbn; [lia|]. intros l _. repeat split. Qed.

Lemma wf_alloc_map h : heap_wf h -> heap_wf (snd (alloc_map h)).
Proof.
  intros W l Hl. cbn in *. destruct (W l ltac:(lia)) as (?&?&?&?).
  rewrite lookup_insert_ne by lia. repeat split; assumption.
Qed.
Lemma wf_alloc_ents cs h : heap_wf h -> heap_wf (snd (alloc_ents cs h)).
Proof.
  intros W l Hl. cbn in *. destruct (W l ltac:(lia)) as (?&?&?&?).
  rewrite lookup_insert_ne by lia. repeat split; assumption.
Qed.
Lemma wf_alloc_strs cs h : heap_wf h -> heap_wf (snd (alloc_strs cs h)).
Proof.
  intros W l Hl. cbn in *. destruct (W l ltac:(lia)) as (?&?&?&?).
  rewrite lookup_insert_ne by lia. repeat split; assumption.
Qed.
Lemma wf_alloc_cell v h : heap_wf h -> heap_wf (snd (alloc_cell v h)).
Proof.
  intros W l Hl. cbn in *. destruct (W l ltac:(lia)) as (?&?&?&?).
  rewrite lookup_insert_ne by lia. repeat split; assumption.
Qed.
Lemma lookup_alter_None' {A} (f : A -> A) (m : gmap loc A) i j : m !! j = None -> alter f i m !! j = None.
Proof. intros H. apply lookup_alter_None. exact H. Qed.
Lemma wf_store_map l k c h : heap_wf h -> heap_wf (store_map l k c h).
Proof. intros W l' Hl. cbn in *. destruct (W l' Hl) as (?&?&?&?). repeat split; try assumption. apply lookup_alter_None'; assumption. Qed.
Lemma wf_store_ents l cs h : heap_wf h -> heap_wf (store_ents l cs h).
Proof. intros W l' Hl. cbn in *. destruct (W l' Hl) as (?&?&?&?). repeat split; try assumption. apply lookup_alter_None'; assumption. Qed.
Lemma wf_store_strs l cs h : heap_wf h -> heap_wf (store_strs l cs h).
Proof. intros W l' Hl. cbn in *. destruct (W l' Hl) as (?&?&?&?). repeat split; try assumption. apply lookup_alter_None'; assumption. Qed.
Lemma wf_bump h : heap_wf h -> heap_wf (bump_tick h).
Proof. intros W l Hl. exact (W l Hl). Qed.
Lemma wf_heap0 : heap_wf heap0.
Proof. intros l _. cbn. rewrite !lookup_empty. repeat split. Qed.

(** * store_all *)
Lemma store_all_maps l es h l' :
  h_maps (store_all l es h) !! l' =
  if decide (l' = l) then (fun m => foldl ins_entry m es) <$> (h_maps h !! l) else h_maps h !! l'.
Proof.
  unfold store_all. revert h. induction es as [|e es IH]; intros h; cbn [fold_left foldl].
  - destruct (decide (l' = l)) as [->|]; [destruct (h_maps h !! l); reflexivity|reflexivity].
  - rewrite IH. cbn. destruct (decide (l' = l)) as [->|Hne].
    + rewrite lookup_alter. destruct (h_maps h !! l); reflexivity.
    + rewrite lookup_alter_ne by congruence. reflexivity.
Qed.
Lemma store_all_other l es h :
  h_ents (store_all l es h) = h_ents h /\ h_strs (store_all l es h) = h_strs h /\
  h_cells (store_all l es h) = h_cells h /\ h_next (store_all l es h) = h_next h /\
  h_tick (store_all l es h) = h_tick h.
Proof.
  unfold store_all. revert h. induction es as [|e es IH]; intros h; cbn [fold_left]; [repeat split|].
  destruct (IH (store_map l (fst e) (snd e) h)) as (?&?&?&?&?). cbn in *. repeat split; assumption.
Qed.
Lemma hextn_store_all n l es h : n <= l -> hextn n h (store_all l es h).
Proof.
  intros Hn. destruct (store_all_other l es h) as (E1&E2&E3&E4&E5). split; [lia|].
  intros l' Hl. rewrite store_all_maps, E1, E2, E3. destruct (decide (l' = l)); [lia|]. repeat split.
Qed.
Lemma wf_store_all l es h : heap_wf h -> heap_wf (store_all l es h).
Proof.
  unfold store_all. revert h. induction es as [|e es IH]; intros h W; cbn [fold_left]; [exact W|].
  apply IH, wf_store_map, W.
Qed.
Lemma map_of_store_all l es h l' :
  is_Some (h_maps h !! l) ->
  map_of (store_all l es h) l' = if decide (l' = l) then foldl ins_entry (map_of h l) es else map_of h l'.
Proof.
  intros [m Hm]. unfold map_of. rewrite store_all_maps. destruct (decide (l' = l)) as [->|]; [|reflexivity].
  rewrite Hm. reflexivity.
Qed.


Lemma foldl_ins_perm (es : list ent) (m : vv) : es ≡ₚ map_to_list m -> foldl ins_entry ∅ es = m.
Proof.
  intros Hp. rewrite fold_ins_nodup.
  2:{ rewrite Hp. apply NoDup_fst_map_to_list. }
  rewrite (right_id ∅ (∪)). transitivity (list_to_map (M:=vv) (map_to_list m)); [|apply list_to_map_to_list].
  apply list_to_map_proper; [|exact Hp]. rewrite Hp. apply NoDup_fst_map_to_list.
Qed.

(** objects survive heap extension *)
Lemma omap_hextn n h h' v : hextn n h h' -> (forall l, o_m v = Some l -> l < n) -> omap h' v = omap h v.
Proof.
  intros [_ B] Hv. unfold omap, map_of. destruct (o_m v) as [l|]; [|reflexivity].
  destruct (B l (Hv l eq_refl)) as (-> & _). reflexivity.
Qed.
Lemma ents_of_hextn n h h' s : hextn n h h' -> s_arr s < n -> ents_of h' s = ents_of h s.
Proof. intros [_ B] Hs. unfold ents_of. destruct (B _ Hs) as (_ & -> & _). reflexivity. Qed.
Lemma strs_of_hextn n h h' s : hextn n h h' -> s_arr s < n -> strs_of h' s = strs_of h s.
Proof. intros [_ B] Hs. unfold strs_of. destruct (B _ Hs) as (_ & _ & -> & _). reflexivity. Qed.

Lemma obj_ok_hextn n h h' v : n <= h_next h -> hextn n h h' -> obj_ok h v ->
  (forall l, o_m v = Some l -> l < n) -> (forall s, o_ents v = Some s -> s_arr s < n) -> obj_ok h' v.
Proof.
  intros Hn X [A B] Hm Hs. pose proof X as [Hnx Heq]. split.
  - intros l Hl. destruct (A l Hl) as [? ?]. split; [lia|]. destruct (Heq l (Hm l Hl)) as (-> & _). assumption.
  - intros s Hse. destruct (B s Hse) as [? C]. split; [lia|]. intros Hd.
    rewrite (ents_of_hextn n h h') by (try exact X; apply Hs; exact Hse).
    rewrite (omap_hextn n h h') by (try exact X; exact Hm). apply C, Hd.
Qed.
Lemma obj_ok_hext h h' v : hext h h' -> obj_ok h v -> obj_ok h' v.
Proof.
  intros X O. apply (obj_ok_hextn (h_next h) h h'); [lia|exact X|exact O| |].
  - intros l Hl. apply (proj1 O l Hl).
  - intros s Hs. apply (proj2 O s Hs).
Qed.
Lemma omap_hext h h' v : hext h h' -> obj_ok h v -> omap h' v = omap h v.
Proof. intros X O. apply (omap_hextn (h_next h)); [exact X|]. intros l Hl. apply (proj1 O l Hl). Qed.


Section MethodProofs.
  Variable iter : N -> vv -> list ent.
  Hypothesis Hiter : iter_ok iter.

  Lemma h_new_spec h : heap_wf h ->
    hext h (snd (h_new h)) /\ heap_wf (snd (h_new h)) /\ obj_ok (snd (h_new h)) (fst (h_new h)) /\
    omap (snd (h_new h)) (fst (h_new h)) = ∅ /\ fresh_obj h (fst (h_new h)).
  Proof.
    intros W. unfold h_new. cbn.
    split; [apply hext_hextn, (hextn_alloc_map _ h); lia|].
    split; [apply (wf_alloc_map h W)|].
    split; [|split].
    - split; cbn; [|discriminate]. intros l [= <-]. split; [lia|]. rewrite lookup_insert. eexists; reflexivity.
    - unfold omap, map_of. cbn. rewrite lookup_insert. reflexivity.
    - split; [|reflexivity]. exists (h_next h). split; [reflexivity|lia].
  Qed.

  Lemma h_clone_spec v h : heap_wf h -> obj_ok h v ->
    hext h (snd (h_clone iter v h)) /\ heap_wf (snd (h_clone iter v h)) /\
    obj_ok (snd (h_clone iter v h)) (fst (h_clone iter v h)) /\
    omap (snd (h_clone iter v h)) (fst (h_clone iter v h)) = omap h v /\ fresh_obj h (fst (h_clone iter v h)).
  Proof.
    intros W O. unfold h_clone. destruct (o_m v) as [l0|] eqn:Em.
    - cbn [alloc_map range_obj fst snd].
      set (n := h_next h). set (h1 := snd (alloc_map h)).
      change (Heap (<[n:=∅]> (h_maps h)) (h_ents h) (h_strs h) (h_cells h) (n + 1) (h_tick h)) with h1.
      set (es := iter (h_tick h1) (omap h1 v)). set (h2 := bump_tick h1).
      assert (X1 : hextn n h h1) by (apply hextn_alloc_map; lia).
      assert (X2 : hextn n h h2) by (eapply hextn_trans; [exact X1|apply hextn_bump]).
      assert (X3 : hextn n h (store_all n es h2)) by (eapply hextn_trans; [exact X2|apply hextn_store_all; lia]).
      assert (Hn : h_maps h2 !! n = Some ∅) by (cbn; apply lookup_insert).
      assert (Ev : omap h1 v = omap h v).
      { apply (omap_hextn n); [exact X1|]. intros l Hl. apply (proj1 O l Hl). }
      split; [exact X3|]. split; [apply wf_store_all, wf_bump, wf_alloc_map, W|].
      destruct (store_all_other n es h2) as (_&_&_&Enx&_).
      split; [|split].
      + split; cbn [o_m o_ents]; [|discriminate]. intros l [= <-]. rewrite Enx. cbn. split; [lia|].
        rewrite store_all_maps, decide_True by reflexivity. rewrite Hn. eexists; reflexivity.
      + unfold omap at 1. cbn [o_m]. rewrite map_of_store_all by (rewrite Hn; eexists; reflexivity).
        rewrite decide_True by reflexivity. unfold map_of. rewrite Hn. cbn [default].
        rewrite <- Ev. apply foldl_ins_perm. apply Hiter.
      + split; [|reflexivity]. exists n. split; [reflexivity|lia].
    - assert (omap h v = ∅) as -> by (unfold omap; rewrite Em; reflexivity). apply h_new_spec, W.
  Qed.

  Lemma omap_some h l e d : omap h (VObj (Some l) e d) = map_of h l.
  Proof. reflexivity. Qed.

  (** one store *)
  Lemma store_map_as_all l k c h : store_map l k c h = store_all l [(k, c)] h.
  Proof. reflexivity. Qed.

  Lemma h_inc_spec v k h : heap_wf h -> obj_ok h v ->
    hext h (snd (h_inc iter v k h)) /\ heap_wf (snd (h_inc iter v k h)) /\
    match fst (h_inc iter v k h) with
    | Ok r => obj_ok (snd (h_inc iter v k h)) r /\ vinc (omap h v) k = Ok (omap (snd (h_inc iter v k h)) r) /\
              fresh_obj h r
    | Err e => vinc (omap h v) k = Err e
    end.
  Proof.
    intros W O. unfold h_inc, vinc. destruct (valid_addr k); [|cbn; split; [apply hextn_refl|split; [exact W|reflexivity]]].
    destruct (h_clone_spec v h W O) as (X & W1 & O1 & E1 & F1).
    destruct (h_clone iter v h) as [out h1]. cbn [fst snd] in *.
    unfold h_get. rewrite E1.
    destruct (max_counter <=? vget (omap h v) k) eqn:Ecap; cbn [fst snd]; [split; [exact X|split; [exact W1|reflexivity]]|].
    destruct F1 as [(l & El & Hl) Ee]. rewrite El. cbn [fst snd].
    assert (Hal : is_Some (h_maps h1 !! l)) by (apply (proj1 O1 l El)).
    split; [|split; [apply wf_store_map, W1|split; [|split]]].
    - apply (hextn_trans _ _ h1); [exact X|]. apply hextn_store_map. exact Hl.
    - split; cbn [o_m o_ents]; [|rewrite Ee; discriminate].
      intros l' [= <-]. cbn. split; [apply (proj1 O1 l El)|].
      rewrite lookup_alter. destruct Hal as [m ->]. eexists; reflexivity.
    - f_equal. rewrite omap_some. rewrite store_map_as_all, map_of_store_all by exact Hal.
      rewrite decide_True by reflexivity. cbn. unfold ins_entry. cbn [fst snd].
      unfold omap in E1. rewrite El in E1. rewrite E1. reflexivity.
    - split; [exists l; split; [reflexivity|exact Hl]|exact Ee].
  Qed.

  (** Merge *)
  Definition merge_step (m : vv) (e : ent) : vv :=
    match m !! fst e with
    | Some cur => if cur <? snd e then <[fst e := snd e]> m else m
    | None => <[fst e := snd e]> m
    end.

  Lemma merge_into_store_all l es h : is_Some (h_maps h !! l) ->
    exists es', merge_into l es h = store_all l es' h /\
                foldl ins_entry (map_of h l) es' = foldl merge_step (map_of h l) es.
  Proof.
    unfold merge_into. revert h. induction es as [|e es IH]; intros h Hal.
    - exists []. split; reflexivity.
    - cbn [fold_left foldl]. unfold merge_step at 2.
      assert (Hst : forall h', h' = store_map l (fst e) (snd e) h ->
                exists es', fold_left (fun h0 e0 => match map_of h0 l !! fst e0 with
                     | Some cur => if cur <? snd e0 then store_map l (fst e0) (snd e0) h0 else h0
                     | None => store_map l (fst e0) (snd e0) h0 end) es h' = store_all l es' h /\
                  foldl ins_entry (map_of h l) es' = foldl merge_step (<[fst e := snd e]> (map_of h l)) es).
      { intros h' ->. destruct (IH (store_map l (fst e) (snd e) h)) as (es' & E1 & E2).
        { cbn. rewrite lookup_alter. destruct Hal as [m ->]. eexists; reflexivity. }
        exists (e :: es'). split; [rewrite E1; reflexivity|].
        cbn [foldl]. rewrite store_map_as_all, map_of_store_all in E2 by exact Hal.
        rewrite decide_True in E2 by reflexivity. exact E2. }
      destruct (map_of h l !! fst e) as [cur|] eqn:Ek.
      + destruct (cur <? snd e); [apply Hst; reflexivity|]. apply IH, Hal.
      + apply Hst; reflexivity.
  Qed.

  Lemma foldl_merge_step (es : list ent) (a : vv) :
    NoDup (es.*1) -> foldl merge_step a es = vmax_union a (list_to_map es).
  Proof.
    revert a. induction es as [|e es IH]; intros a Hnd; cbn [foldl].
    - unfold vmax_union. apply map_eq. intros k. rewrite lookup_union_with. cbn. rewrite lookup_empty. destruct (a !! k); reflexivity.
    - cbn in Hnd. apply NoDup_cons in Hnd as [Hnin Hnd]. rewrite IH by exact Hnd.
      apply map_eq. intros k. unfold vmax_union. rewrite !lookup_union_with. cbn [list_to_map foldr].
      change (foldr (λ p, <[p.1:=p.2]>) ∅ es) with (list_to_map (M:=vv) es).
      destruct (decide (k = fst e)) as [->|Hne].
      + rewrite lookup_insert. rewrite (not_elem_of_list_to_map_1 _ _ Hnin).
        unfold merge_step. destruct (a !! fst e) as [cur|] eqn:Ea.
        * destruct (N.ltb_spec cur (snd e)); [rewrite lookup_insert|rewrite Ea]; cbn; f_equal; lia.
        * rewrite lookup_insert. reflexivity.
      + rewrite lookup_insert_ne by congruence.
        assert (merge_step a e !! k = a !! k) as ->; [|reflexivity].
        unfold merge_step. destruct (a !! fst e) as [cur|]; [destruct (cur <? snd e)|]; try reflexivity;
          rewrite lookup_insert_ne by congruence; reflexivity.
  Qed.

  Lemma olen_0 h v : Nat.eqb (olen h v) 0 = bool_decide (size (omap h v) = 0%nat).
  Proof. unfold olen. destruct (Nat.eqb_spec (size (omap h v)) 0); [rewrite bool_decide_eq_true_2|rewrite bool_decide_eq_false_2]; auto. Qed.

  Lemma h_merge_spec v o h : heap_wf h -> obj_ok h v -> obj_ok h o ->
    hext h (snd (h_merge iter v o h)) /\ heap_wf (snd (h_merge iter v o h)) /\
    obj_ok (snd (h_merge iter v o h)) (fst (h_merge iter v o h)) /\
    omap (snd (h_merge iter v o h)) (fst (h_merge iter v o h)) = vmerge (omap h v) (omap h o) /\
    fresh_obj h (fst (h_merge iter v o h)).
  Proof.
    intros W Ov Oo. unfold h_merge, vmerge. rewrite !olen_0.
    destruct (bool_decide (size (omap h o) = 0%nat)); [apply h_clone_spec; assumption|].
    destruct (bool_decide (size (omap h v) = 0%nat)); [apply h_clone_spec; assumption|].
    cbn [alloc_map range_obj fst snd].
    set (n := h_next h). set (h1 := snd (alloc_map h)).
    change (Heap (<[n:=∅]> (h_maps h)) (h_ents h) (h_strs h) (h_cells h) (n + 1) (h_tick h)) with h1.
    set (esv := iter (h_tick h1) (omap h1 v)). set (h2 := bump_tick h1).
    set (h3 := store_all n esv h2).
    set (eso := iter (h_tick h3) (omap h3 o)). set (h4 := bump_tick h3).
    assert (X1 : hextn n h h1) by (apply hextn_alloc_map; lia).
    assert (X2 : hextn n h h2) by (eapply hextn_trans; [exact X1|apply hextn_bump]).
    assert (X3 : hextn n h h3) by (eapply hextn_trans; [exact X2|apply hextn_store_all; lia]).
    assert (X4 : hextn n h h4) by (eapply hextn_trans; [exact X3|apply hextn_bump]).
    assert (Hn2 : h_maps h2 !! n = Some ∅) by (cbn; apply lookup_insert).
    assert (Ev : omap h1 v = omap h v) by (apply (omap_hextn n); [exact X1|]; intros l Hl; apply (proj1 Ov l Hl)).
    assert (Eo : omap h3 o = omap h o) by (apply (omap_hextn n); [exact X3|]; intros l Hl; apply (proj1 Oo l Hl)).
    assert (M3 : map_of h3 n = omap h v).
    { unfold h3. rewrite map_of_store_all by (rewrite Hn2; eexists; reflexivity). rewrite decide_True by reflexivity.
      unfold map_of. rewrite Hn2. cbn [default]. rewrite <- Ev. apply foldl_ins_perm, Hiter. }
    assert (Hal4 : is_Some (h_maps h4 !! n)).
    { cbn. unfold h3. rewrite store_all_maps, decide_True by reflexivity. rewrite Hn2. eexists; reflexivity. }
    destruct (merge_into_store_all n eso h4 Hal4) as (es' & E1 & E2). rewrite E1.
    assert (M4 : map_of h4 n = omap h v) by exact M3.
    destruct (store_all_other n es' h4) as (_&_&_&Enx&_).
    assert (Hnx4 : h_next h4 = n + 1).
    { destruct (store_all_other n esv h2) as (_&_&_&Enx2&_). change (h_next (store_all n esv h2) = n + 1). rewrite Enx2. reflexivity. }
    split; [eapply hextn_trans; [exact X4|apply hextn_store_all; lia]|].
    split; [apply wf_store_all, wf_bump, wf_store_all, wf_bump, wf_alloc_map, W|].
    split; [|split].
    - split; cbn [o_m o_ents]; [|discriminate]. intros l [= <-]. rewrite Enx, Hnx4. split; [lia|].
      rewrite store_all_maps, decide_True by reflexivity. destruct Hal4 as [m ->]. eexists; reflexivity.
    - unfold omap at 1. cbn [o_m]. rewrite map_of_store_all by exact Hal4. rewrite decide_True by reflexivity.
      rewrite E2, M4. rewrite foldl_merge_step.
      2:{ unfold eso. rewrite (Hiter _ _). apply NoDup_fst_map_to_list. }
      f_equal. rewrite <- Eo. unfold eso.
      transitivity (list_to_map (M:=vv) (map_to_list (omap h3 o))); [|apply list_to_map_to_list].
      apply list_to_map_proper; [|apply Hiter]. rewrite (Hiter _ _). apply NoDup_fst_map_to_list.
    - split; [|reflexivity]. exists n. split; [reflexivity|lia].
  Qed.
End MethodProofs.

(** * Compare *)
Lemma existsb_perm {A} (f : A -> bool) l1 l2 : l1 ≡ₚ l2 -> existsb f l1 = existsb f l2.
Proof.
  intros Hp. apply eq_true_iff_eq. rewrite !existsb_exists. split; intros (x & Hin & Hx); exists x; (split; [|exact Hx]);
    apply elem_of_list_In; apply elem_of_list_In in Hin; [rewrite <- Hp|rewrite Hp]; exact Hin.
Qed.

Lemma cmp_pass1_spec om es ls gt : ls && gt = false ->
  match cmp_pass1 om es ls gt with
  | None => (ls || existsb (fun p => snd p <? vget om (fst p)) es) && (gt || existsb (fun p => vget om (fst p) <? snd p) es) = true
  | Some (a, b) => a = ls || existsb (fun p => snd p <? vget om (fst p)) es /\
                   b = gt || existsb (fun p => vget om (fst p) <? snd p) es /\ a && b = false
  end.
Proof.
  revert ls gt. induction es as [|e es IH]; intros ls gt H0; cbn [cmp_pass1 existsb].
  - rewrite !orb_false_r. auto.
  - destruct ((ls || (snd e <? vget om (fst e))) && (gt || (vget om (fst e) <? snd e))) eqn:E.
    + apply andb_true_iff in E as [E1 E2]. rewrite !orb_assoc, E1, E2. reflexivity.
    + specialize (IH (ls || (snd e <? vget om (fst e))) (gt || (vget om (fst e) <? snd e)) E).
      destruct (cmp_pass1 om es _ _) as [[a b]|]; rewrite <- !orb_assoc in IH; exact IH.
Qed.

Lemma cmp_pass2_spec (vm : vv) es ls gt : ls && gt = false ->
  match cmp_pass2 vm es ls gt with
  | None => (ls || existsb (fun p => bool_decide (vm !! fst p = None) && (0 <? snd p)) es) && gt = true
  | Some (a, b) => a = ls || existsb (fun p => bool_decide (vm !! fst p = None) && (0 <? snd p)) es /\ b = gt /\ a && b = false
  end.
Proof.
  revert ls. induction es as [|e es IH]; intros ls H0; cbn [cmp_pass2 existsb].
  - rewrite !orb_false_r. auto.
  - destruct (vm !! fst e) as [x|] eqn:Ek.
    + rewrite bool_decide_eq_false_2 by discriminate. cbn [andb orb]. apply IH, H0.
    + rewrite bool_decide_eq_true_2 by reflexivity. cbn [andb].
      destruct ((ls || (0 <? snd e)) && gt) eqn:E.
      * apply andb_true_iff in E as [E1 E2]. rewrite !orb_assoc, E1, E2. reflexivity.
      * specialize (IH (ls || (0 <? snd e)) E).
        destruct (cmp_pass2 vm es _ gt) as [[a b]|]; rewrite <- !orb_assoc in IH; exact IH.
Qed.

Section MethodProofs2.
  Variable iter : N -> vv -> list ent.
  Hypothesis Hiter : iter_ok iter.

  Lemma h_compare_spec v o h : heap_wf h ->
    hext h (snd (h_compare iter v o h)) /\ heap_wf (snd (h_compare iter v o h)) /\
    fst (h_compare iter v o h) = vcompare (omap h v) (omap h o).
  Proof.
    intros W. unfold h_compare, vcompare. rewrite !olen_0.
    destruct (bool_decide (size (omap h v) = 0%nat) && bool_decide (size (omap h o) = 0%nat));
      [cbn; split; [apply hextn_refl|split; [exact W|reflexivity]]|].
    cbn [range_obj].
    pose proof (cmp_pass1_spec (omap h o) (iter (h_tick h) (omap h v)) false false eq_refl) as P1.
    unfold vless, vgreater.
    rewrite <- (existsb_perm _ _ _ (Hiter (h_tick h) (omap h v))).
    rewrite <- (existsb_perm (fun p => vget (omap h o) p.1 <? p.2) _ _ (Hiter (h_tick h) (omap h v))).
    destruct (cmp_pass1 (omap h o) (iter (h_tick h) (omap h v)) false false) as [[ls gt]|].
    - destruct P1 as (E1 & E2 & E3). cbn [orb] in E1, E2. rewrite <- E1, <- E2.
      pose proof (cmp_pass2_spec (omap h v) (iter (h_tick (bump_tick h)) (omap (bump_tick h) o)) ls gt E3) as P2.
      change (omap (bump_tick h) o) with (omap h o) in *.
      rewrite <- (existsb_perm _ _ _ (Hiter (h_tick (bump_tick h)) (omap h o))).
      destruct (cmp_pass2 (omap h v) _ ls gt) as [[ls' gt']|]; cbn [fst snd].
      + destruct P2 as (F1 & F2 & F3). rewrite <- F1. subst gt'.
        split; [eapply hextn_trans; apply hextn_bump|]. split; [apply wf_bump, wf_bump, W|].
        destruct ls', gt; reflexivity.
      + apply andb_true_iff in P2 as [F1 F2]. rewrite F1, F2.
        split; [eapply hextn_trans; apply hextn_bump|]. split; [apply wf_bump, wf_bump, W|reflexivity].
    - cbn [orb] in P1. apply andb_true_iff in P1 as [E1 E2]. rewrite E1, E2. cbn [orb fst snd].
      split; [apply hextn_bump|]. split; [apply wf_bump, W|reflexivity].
  Qed.

  (** * Compact, PruneWithMax: a fresh map holding the filtered entries *)
  Lemma foldl_ins_filter (f : ent -> bool) (P : ent -> Prop) `{!forall x, Decision (P x)} (es : list ent) (m : vv) :
    (forall p, f p = true <-> P p) -> es ≡ₚ map_to_list m -> foldl ins_entry ∅ (List.filter f es) = filter P m.
  Proof.
    intros Hf Hp.
    assert (Hnd : NoDup ((List.filter f es).*1)).
    { assert (Hnd0 : NoDup (es.*1)) by (rewrite Hp; apply NoDup_fst_map_to_list).
      clear Hp. induction es as [|e es IH]; cbn; [constructor|].
      cbn in Hnd0. apply NoDup_cons in Hnd0 as [Hnin Hnd0]. destruct (f e); [|apply IH, Hnd0].
      cbn. apply NoDup_cons. split; [|apply IH, Hnd0]. intros Hin. apply Hnin.
      apply elem_of_list_fmap in Hin as (q & -> & Hq). apply elem_of_list_fmap. exists q. split; [reflexivity|].
      apply elem_of_list_In. apply elem_of_list_In, filter_In in Hq. tauto. }
    rewrite fold_ins_nodup by exact Hnd. rewrite (right_id ∅ (∪)).
    apply map_eq. intros k. apply option_eq. intros c.
    rewrite <- elem_of_list_to_map by exact Hnd. rewrite map_filter_lookup_Some.
    rewrite elem_of_list_In, filter_In, <- elem_of_list_In, Hp, elem_of_map_to_list, Hf. reflexivity.
  Qed.

  Lemma filter_len_le {A} (f : A -> bool) (l : list A) : (length (List.filter f l) <= length l)%nat.
  Proof. induction l as [|y l IH]; cbn; [lia|]. destruct (f y); cbn; lia. Qed.
  Lemma filter_length_all {A} (f : A -> bool) (l : list A) :
    length (List.filter f l) = length l -> forall x, In x l -> f x = true.
  Proof.
    induction l as [|y l IH]; cbn; [tauto|]. intros Hlen x [<-|Hin].
    - destruct (f y) eqn:E; [reflexivity|]. pose proof (filter_len_le f l). lia.
    - destruct (f y) eqn:E; [apply IH; [cbn in Hlen; lia|exact Hin]|]. pose proof (filter_len_le f l). lia.
  Qed.

  (** a fresh map filled with [es]: the common tail of Clone / Compact / PruneWithMax *)
  Lemma fresh_fill_spec (n0 : loc) (h : heap) (es : list ent) (val : vv) :
    heap_wf h -> n0 <= h_next h -> foldl ins_entry ∅ es = val ->
    let h' := store_all (h_next h) es (bump_tick (snd (alloc_map h))) in
    let r := VObj (Some (h_next h)) None true in
    hextn n0 h h' /\ heap_wf h' /\ obj_ok h' r /\ omap h' r = val /\ h_next h' = h_next h + 1.
  Proof.
    intros W Hn Hval. cbn zeta. set (n := h_next h). set (h2 := bump_tick (snd (alloc_map h))).
    assert (Hn2 : h_maps h2 !! n = Some ∅) by (cbn; apply lookup_insert).
    destruct (store_all_other n es h2) as (_&_&_&Enx&_).
    split; [|split; [|split; [|split]]].
    - eapply hextn_trans; [apply hextn_alloc_map; exact Hn|]. eapply hextn_trans; [apply hextn_bump|apply hextn_store_all; cbn; lia].
    - apply wf_store_all, wf_bump, wf_alloc_map, W.
    - split; cbn [o_m o_ents]; [|discriminate]. intros l [= <-]. rewrite Enx. cbn. split; [lia|].
      rewrite store_all_maps, decide_True by reflexivity. rewrite Hn2. eexists; reflexivity.
    - rewrite omap_some, map_of_store_all by (rewrite Hn2; eexists; reflexivity). rewrite decide_True by reflexivity.
      unfold map_of. rewrite Hn2. exact Hval.
    - rewrite Enx. reflexivity.
  Qed.

  Lemma h_compact_spec v h : heap_wf h -> obj_ok h v ->
    hext h (snd (h_compact iter v h)) /\ heap_wf (snd (h_compact iter v h)) /\
    obj_ok (snd (h_compact iter v h)) (fst (h_compact iter v h)) /\
    omap (snd (h_compact iter v h)) (fst (h_compact iter v h)) = vcompact (omap h v) /\
    (fst (h_compact iter v h) = v \/ fresh_obj h (fst (h_compact iter v h))).
  Proof.
    intros W O. unfold h_compact. rewrite olen_0.
    destruct (bool_decide (size (omap h v) = 0%nat)) eqn:E0.
    - cbn [fst snd]. split; [apply hextn_refl|]. split; [exact W|]. split; [exact O|]. split; [|left; reflexivity].
      apply bool_decide_eq_true, map_size_empty_inv in E0. rewrite E0. unfold vcompact. symmetry. apply map_filter_empty.
    - cbn [range_obj]. set (es := iter (h_tick h) (omap h v)).
      destruct (Nat.eqb_spec (length (List.filter nonzero es)) (olen h v)) as [Eq|Ne]; cbn [fst snd].
      + split; [apply hextn_bump|]. split; [apply wf_bump, W|].
        split; [apply (obj_ok_hext h); [apply hextn_bump|exact O]|]. split; [|left; reflexivity].
        change (omap (bump_tick h) v) with (omap h v). unfold vcompact. symmetry. apply map_filter_id.
        intros k c Hk. cbn.
        assert (Hlen : length es = olen h v).
        { unfold es, olen. rewrite (Permutation_length (Hiter _ _)). reflexivity. }
        rewrite <- Hlen in Eq. pose proof (filter_length_all nonzero es Eq (k, c)) as Hnz.
        assert (In (k, c) es) by (apply elem_of_list_In; unfold es; rewrite (Hiter _ _); apply elem_of_map_to_list; exact Hk).
        specialize (Hnz H). unfold nonzero in Hnz. cbn in Hnz. lia.
      + set (h1 := bump_tick h).
        assert (W1 : heap_wf h1) by (apply wf_bump, W).
        pose proof (fresh_fill_spec (h_next h) h1 (List.filter nonzero (iter (h_tick (snd (alloc_map h1))) (omap (snd (alloc_map h1)) v)))
                      (vcompact (omap h v)) W1 ltac:(cbn; lia)) as FF.
        assert (Ev : omap (snd (alloc_map h1)) v = omap h v).
        { apply (omap_hextn (h_next h)); [eapply hextn_trans; [apply hextn_bump|apply hextn_alloc_map; cbn; lia]|].
          intros l Hl. apply (proj1 O l Hl). }
        rewrite Ev in FF. specialize (FF ltac:(apply (foldl_ins_filter nonzero (fun p => 0 < snd p)); [intros p; unfold nonzero; lia|apply Hiter])).
        cbn zeta in FF. destruct FF as (X & W' & O' & V' & Nx).
        cbn [alloc_map fst snd] in *. rewrite Ev.
        split; [eapply hextn_trans; [apply hextn_bump|exact X]|]. split; [exact W'|]. split; [exact O'|]. split; [exact V'|].
        right. split; [|reflexivity]. exists (h_next h). split; [reflexivity|lia].
  Qed.
End MethodProofs2.

(** * the append loop of SortedEntries *)
Lemma ent_append_room (n : loc) (pre : list ent) (r' : nat) (e : ent) (h : heap) :
  h_ents h !! n = Some (pre ++ repeat zcell (S r')) ->
  ent_append (Slice n (length pre)) e h =
  (Slice n (S (length pre)), store_ents n ((pre ++ [e]) ++ repeat zcell r') h).
Proof.
  intros Harr. unfold ent_append. cbn [s_arr s_len]. rewrite Harr. cbn [from_option]. unfold id.
  assert (Nat.ltb (length pre) (length (pre ++ repeat zcell (S r'))) = true) as ->.
  { apply Nat.ltb_lt. rewrite app_length, repeat_length. lia. }
  f_equal. f_equal.
  rewrite take_app. cbn [repeat]. rewrite <- app_assoc. cbn [app]. f_equal. f_equal.
  change (pre ++ zcell :: repeat zcell r') with (pre ++ [zcell] ++ repeat zcell r').
  rewrite app_assoc. rewrite drop_app_alt; [reflexivity|]. rewrite app_length. cbn. lia.
Qed.

Lemma append_loop (n : loc) (es : list ent) : forall (pre : list ent) (r : nat) (h : heap),
  h_ents h !! n = Some (pre ++ repeat zcell r) -> (length es <= r)%nat ->
  let res := fold_left (fun sh e => ent_append (fst sh) e (snd sh)) es (Slice n (length pre), h) in
  fst res = Slice n (length pre + length es) /\
  h_ents (snd res) !! n = Some (pre ++ es ++ repeat zcell (r - length es)) /\
  (forall l, l <> n -> h_ents (snd res) !! l = h_ents h !! l) /\
  h_maps (snd res) = h_maps h /\ h_strs (snd res) = h_strs h /\ h_cells (snd res) = h_cells h /\
  h_next (snd res) = h_next h /\ h_tick (snd res) = h_tick h.
Proof.
  induction es as [|e es IH]; intros pre r h Harr Hlen; cbn zeta; cbn [fold_left fst snd].
  - cbn [length]. rewrite Nat.add_0_r, Nat.sub_0_r. cbn [app]. repeat split; exact Harr || reflexivity.
  - cbn [length] in Hlen. destruct r as [|r']; [lia|].
    rewrite (ent_append_room n pre r' e h Harr).
    set (h1 := store_ents n ((pre ++ [e]) ++ repeat zcell r') h).
    assert (Harr1 : h_ents h1 !! n = Some ((pre ++ [e]) ++ repeat zcell r')).
    { cbn. rewrite lookup_alter, Harr. reflexivity. }
    specialize (IH (pre ++ [e]) r' h1 Harr1 ltac:(lia)). cbn zeta in IH.
    replace (length (pre ++ [e])) with (S (length pre)) in IH by (rewrite app_length; cbn; lia).
    destruct IH as (I1 & I2 & I3 & I4 & I5 & I6 & I7 & I8).
    split; [rewrite I1; f_equal; cbn; lia|]. split; [rewrite I2; rewrite <- !app_assoc; cbn [app length]; do 3 f_equal|].
    split; [intros l Hl; rewrite I3 by exact Hl; cbn; apply lookup_alter_ne; congruence|].
    repeat split; assumption.
Qed.

Section MethodProofs3.
  Variable iter : N -> vv -> list ent.
  Hypothesis Hiter : iter_ok iter.

  (** * PruneWithMax *)
  Lemma h_prune_max_spec v (s : slice) maxe h : heap_wf h -> obj_ok h v -> slice_ok h s ->
    let r := h_prune_max iter v (Some s) maxe h in
    hext h (snd r) /\ heap_wf (snd r) /\ obj_ok (snd r) (fst r) /\
    omap (snd r) (fst r) = vprune_max (omap h v) (strs_of h s) maxe /\ fresh_obj h (fst r) /\
    strs_of (snd r) s = strs_of h s.
  Proof.
    intros W O S. cbn zeta. unfold h_prune_max, vprune_max. rewrite olen_0.
    set (actl := strs_of h s).
    assert (Nat.eqb (length actl) 0 = bool_decide (length actl = 0%nat)) as ->.
    { destruct (Nat.eqb_spec (length actl) 0); [rewrite bool_decide_eq_true_2|rewrite bool_decide_eq_false_2]; auto. }
    destruct (bool_decide (size (omap h v) = 0%nat) || bool_decide (length actl = 0%nat)).
    { destruct (h_new_spec h W) as (X & W' & O' & V' & F').
      split; [exact X|]. split; [exact W'|]. split; [exact O'|]. split; [exact V'|]. split; [exact F'|].
      apply (strs_of_hextn (h_next h)); [exact X|exact S]. }
    set (limit := if (maxe <=? 0)%Z then max_entries else Z.to_N maxe).
    destruct (limit <? N.of_nat (length actl)) eqn:Elim.
    - cbn [alloc_strs fst snd]. set (la := h_next h).
      set (ha := Heap (h_maps h) (h_ents h) (<[la:=actl]> (h_strs h)) (h_cells h) (la + 1) (h_tick h)).
      set (hb := store_strs la (isort lex_le actl) ha).
      assert (Xb : hextn la h hb).
      { eapply hextn_trans; [apply (hextn_alloc_strs la actl h); lia|]. apply hextn_store_strs. lia. }
      assert (Wb : heap_wf hb) by (apply wf_store_strs, (wf_alloc_strs actl h), W).
      assert (Es : strs_of hb (Slice la (length actl)) = isort lex_le actl).
      { unfold strs_of. cbn. rewrite lookup_alter, lookup_insert. cbn. rewrite <- (isort_length lex_le actl). apply firstn_all. }
      rewrite Es.
      set (act' := take (N.to_nat limit) (isort lex_le actl)).
      assert (Evb : omap (snd (alloc_map hb)) v = omap h v).
      { apply (omap_hextn la); [eapply hextn_trans; [exact Xb|apply hextn_alloc_map; cbn; lia]|]. intros l Hl. apply (proj1 O l Hl). }
      pose proof (fresh_fill_spec la hb
         (List.filter (fun e => bool_decide (fst e ∈ act')) (iter (h_tick (snd (alloc_map hb))) (omap (snd (alloc_map hb)) v)))
         (filter (fun p => bool_decide (fst p ∈ act')) (omap h v)) Wb ltac:(cbn; lia)) as FF.
      rewrite Evb in FF.
      specialize (FF ltac:(apply (foldl_ins_filter (fun e => bool_decide (fst e ∈ act')) (fun p => bool_decide (fst p ∈ act')));
                             [intros p; destruct (bool_decide (p.1 ∈ act')); cbn; intuition congruence|apply Hiter])).
      cbn zeta in FF. destruct FF as (X & W' & O' & V' & Nx).
      cbn [alloc_map range_obj fst snd] in *. rewrite Evb.
      split; [eapply hextn_trans; [exact Xb|exact X]|]. split; [exact W'|]. split; [exact O'|]. split; [exact V'|].
      split; [split; [|reflexivity]; exists (h_next hb); split; [reflexivity|cbn; lia]|].
      apply (strs_of_hextn la); [eapply hextn_trans; [exact Xb|exact X]|exact S].
    - assert (Ev : omap (snd (alloc_map h)) v = omap h v).
      { apply (omap_hextn (h_next h)); [apply hextn_alloc_map; lia|]. intros l Hl. apply (proj1 O l Hl). }
      pose proof (fresh_fill_spec (h_next h) h
         (List.filter (fun e => bool_decide (fst e ∈ actl)) (iter (h_tick (snd (alloc_map h))) (omap (snd (alloc_map h)) v)))
         (filter (fun p => bool_decide (fst p ∈ actl)) (omap h v)) W ltac:(lia)) as FF.
      rewrite Ev in FF.
      specialize (FF ltac:(apply (foldl_ins_filter (fun e => bool_decide (fst e ∈ actl)) (fun p => bool_decide (fst p ∈ actl)));
                             [intros p; destruct (bool_decide (p.1 ∈ actl)); cbn; intuition congruence|apply Hiter])).
      cbn zeta in FF. destruct FF as (X & W' & O' & V' & Nx).
      cbn [alloc_map range_obj fst snd] in *. rewrite Ev.
      split; [exact X|]. split; [exact W'|]. split; [exact O'|]. split; [exact V'|].
      split; [split; [|reflexivity]; exists (h_next h); split; [reflexivity|lia]|].
      apply (strs_of_hextn (h_next h)); [exact X|exact S].
  Qed.

  (** * SortedEntries *)
  Lemma ventries_empty (m : vv) : size m = 0%nat -> ventries m = [].
  Proof. intros H. apply map_size_empty_inv in H. subst. unfold ventries. rewrite map_to_list_empty. reflexivity. Qed.

  Lemma h_sorted_fresh_spec v h : heap_wf h -> obj_ok h v ->
    let r := h_sorted_fresh iter v h in
    hext h (snd r) /\ heap_wf (snd r) /\ slice_ents (snd r) (fst r) = ventries (omap h v) /\
    (forall s, fst r = Some s -> h_next h <= s_arr s /\ s_arr s < h_next (snd r)).
  Proof.
    intros W O. cbn zeta. unfold h_sorted_fresh. cbn [alloc_ents range_obj].
    set (n := h_next h). set (sz := olen h v).
    set (h1 := Heap (h_maps h) (<[n:=repeat zcell sz]> (h_ents h)) (h_strs h) (h_cells h) (n + 1) (h_tick h)).
    set (es := iter (h_tick h1) (omap h1 v)). set (h2 := bump_tick h1).
    assert (X2 : hextn n h h2).
    { eapply hextn_trans; [apply (hextn_alloc_ents n (repeat zcell sz) h); lia|apply hextn_bump]. }
    assert (W2 : heap_wf h2) by (apply wf_bump, (wf_alloc_ents (repeat zcell sz) h), W).
    assert (Ev : omap h1 v = omap h v).
    { apply (omap_hextn n h h2); [exact X2|]. intros l Hl. apply (proj1 O l Hl). }
    assert (Hes : es ≡ₚ map_to_list (omap h v)) by (unfold es; rewrite Ev; apply Hiter).
    assert (Hlen : length es = sz) by (rewrite (Permutation_length Hes); reflexivity).
    assert (Harr : h_ents h2 !! n = Some ([] ++ repeat zcell sz)) by (cbn; apply lookup_insert).
    pose proof (append_loop n es [] sz h2 Harr ltac:(lia)) as L. cbn zeta in L.
    change (length (@nil ent)) with 0%nat in L. cbn [Nat.add] in L.
    destruct (fold_left (fun sh e => ent_append (fst sh) e (snd sh)) es (Slice n 0, h2)) as [s h3].
    cbn [fst snd] in *. destruct L as (L1 & L2 & L3 & L4 & L5 & L6 & L7 & L8). subst s.
    rewrite Hlen, Nat.sub_diag in L2. cbn [repeat app] in L2. rewrite app_nil_r in L2.
    assert (X3 : hextn n h2 h3).
    { split; [lia|]. intros l Hl. rewrite L4, L5, L6, (L3 l) by lia. repeat split. }
    assert (W3 : heap_wf h3).
    { intros l Hl. rewrite L7 in Hl. destruct (W2 l Hl) as (?&?&?&?). rewrite L4, L5, L6, (L3 l) by (cbn in Hl; lia). repeat split; assumption. }
    unfold ents_sort. cbn [s_arr s_len]. rewrite L2. cbn [from_option]. unfold id.
    rewrite firstn_all, skipn_all. rewrite app_nil_r.
    split; [eapply hextn_trans; [exact X2|]; eapply hextn_trans; [exact X3|apply hextn_store_ents; lia]|].
    split; [apply wf_store_ents, W3|]. split.
    - unfold slice_ents, ents_of. cbn [s_arr s_len store_ents h_ents]. rewrite lookup_alter, L2. cbn [fmap option_fmap option_map from_option].
      unfold id. rewrite <- (isort_length ent_le es) at 1. rewrite firstn_all.
      change (fun p q => lex_le (fst p) (fst q)) with ent_le. apply ventries_of_perm, Hes.
    - intros s [= <-]. cbn. rewrite L7. cbn. lia.
  Qed.

  Lemma h_sorted_entries_spec v h : heap_wf h -> obj_ok h v ->
    let r := h_sorted_entries iter v h in
    hext h (snd r) /\ heap_wf (snd r) /\ slice_ents (snd r) (fst r) = ventries (omap h v) /\
    (forall s, fst r = Some s -> (o_ents v = Some s \/ h_next h <= s_arr s) /\ s_arr s < h_next (snd r)).
  Proof.
    intros W O. cbn zeta. unfold h_sorted_entries. rewrite olen_0.
    destruct (bool_decide (size (omap h v) = 0%nat)) eqn:E0.
    { cbn. split; [apply hextn_refl|]. split; [exact W|]. split; [|discriminate].
      symmetry. apply ventries_empty. apply bool_decide_eq_true in E0. exact E0. }
    pose proof (h_sorted_fresh_spec v h W O) as F. cbn zeta in F.
    assert (G : forall r, (hext h (snd r) /\ heap_wf (snd r) /\ slice_ents (snd r) (fst r) = ventries (omap h v) /\
                 (forall s, fst r = Some s -> h_next h <= s_arr s /\ s_arr s < h_next (snd r))) ->
               hext h (snd r) /\ heap_wf (snd r) /\ slice_ents (snd r) (fst r) = ventries (omap h v) /\
                 (forall s, fst r = Some s -> (o_ents v = Some s \/ h_next h <= s_arr s) /\ s_arr s < h_next (snd r))).
    { intros r (A & B & C & D). split; [exact A|]. split; [exact B|]. split; [exact C|].
      intros s Hs. destruct (D s Hs). split; [right|]; assumption. }
    destruct (o_dirty v) eqn:Ed; [apply G, F|]. destruct (o_ents v) as [s|] eqn:Ee; [|apply G, F].
    cbn [fst snd]. split; [apply hextn_refl|]. split; [exact W|]. split.
    - cbn. destruct (proj2 O s Ee) as [_ C]. apply C, Ed.
    - intros s' [= <-]. split; [left; reflexivity|]. apply (proj2 O s Ee).
  Qed.

  Lemma h_write_spec v h : heap_wf h -> obj_ok h v ->
    hext h (snd (h_write iter v h)) /\ heap_wf (snd (h_write iter v h)) /\
    fst (h_write iter v h) = vwrite (omap h v).
  Proof.
    intros W O. unfold h_write. pose proof (h_sorted_entries_spec v h W O) as S. cbn zeta in S.
    destruct (h_sorted_entries iter v h) as [so h1]. cbn [fst snd] in *. destruct S as (X & W1 & E & _).
    split; [exact X|]. split; [exact W1|]. rewrite E. reflexivity.
  Qed.
End MethodProofs3.

(** * ReadVersionVector *)
Lemma h_read_entries_spec n : forall l bs h acc, is_Some (h_maps h !! l) -> map_of h l = acc -> heap_wf h ->
  let r := h_read_entries n l bs h in
  hextn l h (snd r) /\ heap_wf (snd r) /\ h_next (snd r) = h_next h /\ is_Some (h_maps (snd r) !! l) /\
  match vread_entries n acc bs with
  | Ok (m, rest) => fst r = Ok rest /\ map_of (snd r) l = m
  | Err e => fst r = Err e
  end.
Proof.
  induction n as [|n IH]; intros l bs h acc Hal Hacc W; cbn zeta; cbn [h_read_entries vread_entries].
  - cbn. split; [apply hextn_refl|]. split; [exact W|]. split; [reflexivity|]. split; [exact Hal|]. split; [reflexivity|exact Hacc].
  - assert (T : forall e, hextn l h h /\ heap_wf h /\ h_next h = h_next h /\ is_Some (h_maps h !! l) /\ @Err (list N) e = Err e).
    { intros e. split; [apply hextn_refl|]. split; [exact W|]. split; [reflexivity|]. split; [exact Hal|reflexivity]. }
    destruct (rd_lp4 bs) as [[k bs1]|e]; cbn [bind fst snd]; [|apply T].
    destruct (valid_addr k); cbn [fst snd]; [|apply T].
    destruct (rd_u64 bs1) as [[c bs2]|e]; cbn [bind fst snd]; [|apply T].
    destruct (max_counter <? c); cbn [fst snd]; [apply T|].
    assert (Hal' : is_Some (h_maps (store_map l k c h) !! l)).
    { cbn. rewrite lookup_alter. destruct Hal as [m ->]. eexists; reflexivity. }
    assert (Hacc' : map_of (store_map l k c h) l = <[k:=c]> acc).
    { rewrite store_map_as_all, map_of_store_all by exact Hal. rewrite decide_True by reflexivity. cbn. rewrite Hacc. reflexivity. }
    specialize (IH l bs2 (store_map l k c h) (<[k:=c]> acc) Hal' Hacc' (wf_store_map l k c h W)). cbn zeta in IH.
    destruct IH as (X & W' & Nx & Al & R).
    split; [apply (hextn_trans l h (store_map l k c h)); [apply hextn_store_map; lia|exact X]|]. split; [exact W'|]. split; [rewrite Nx; reflexivity|].
    split; [exact Al|exact R].
Qed.

Lemma h_read_spec bs h : heap_wf h ->
  hext h (snd (h_read bs h)) /\ heap_wf (snd (h_read bs h)) /\
  match vread bs with
  | Ok (m, rest) => exists r, fst (h_read bs h) = Ok (r, rest) /\ obj_ok (snd (h_read bs h)) r /\
                              omap (snd (h_read bs h)) r = m /\ fresh_obj h r
  | Err e => fst (h_read bs h) = Err e
  end.
Proof.
  intros W. unfold h_read, vread. destruct (rd_u32 bs) as [[n bs1]|e]; cbn [bind fst snd]; [|split; [apply hextn_refl|split; [exact W|reflexivity]]].
  destruct (max_entries <? n); cbn [fst snd]; [split; [apply hextn_refl|split; [exact W|reflexivity]]|].
  cbn [alloc_map]. set (l := h_next h). set (h1 := snd (alloc_map h)).
  change (Heap (<[l:=∅]> (h_maps h)) (h_ents h) (h_strs h) (h_cells h) (l + 1) (h_tick h)) with h1.
  assert (Hal : is_Some (h_maps h1 !! l)) by (cbn; rewrite lookup_insert; eexists; reflexivity).
  assert (Hacc : map_of h1 l = ∅) by (unfold map_of; cbn; rewrite lookup_insert; reflexivity).
  pose proof (h_read_entries_spec (N.to_nat n) l bs1 h1 ∅ Hal Hacc (wf_alloc_map h W)) as R. cbn zeta in R.
  destruct R as (X & W' & Nx & Al & R).
  assert (X' : hext h (snd (h_read_entries (N.to_nat n) l bs1 h1))).
  { eapply hextn_trans; [apply (hextn_alloc_map l h); lia|exact X]. }
  destruct (vread_entries (N.to_nat n) ∅ bs1) as [[m rest]|e].
  - destruct R as [R1 R2]. destruct (h_read_entries (N.to_nat n) l bs1 h1) as [rr h2]. cbn [fst snd] in *. subst rr.
    cbn [fst snd]. split; [exact X'|]. split; [exact W'|]. exists (VObj (Some l) None false).
    split; [reflexivity|]. split; [|split].
    + split; cbn [o_m o_ents]; [|discriminate]. intros l' [= <-]. rewrite Nx. cbn. split; [lia|exact Al].
    + exact R2.
    + split; [|reflexivity]. exists l. split; [reflexivity|lia].
  - destruct (h_read_entries (N.to_nat n) l bs1 h1) as [rr h2]. cbn [fst snd] in *. subst rr. cbn [fst snd].
    split; [exact X'|]. split; [exact W'|reflexivity].
Qed.

(** * AtomicVersionVector (sequential semantics) *)
Lemma box_of_hext h h' c : hext h h' -> c < h_next h -> box_of c h' = box_of c h.
Proof. intros [_ B] Hc. unfold box_of. destruct (B c Hc) as (_&_&_&->). reflexivity. Qed.
Lemma cell_ok_hext h h' c : hext h h' -> cell_ok h c -> cell_ok h' c.
Proof.
  intros X [Hc (v & Hv & Ov)]. pose proof X as [Hn B]. split; [lia|]. exists v. split.
  - destruct (B c Hc) as (_&_&_&->). exact Hv.
  - apply (obj_ok_hext h); assumption.
Qed.
Lemma cell_ok_box h c : cell_ok h c -> obj_ok h (box_of c h).
Proof. intros [_ (v & Hv & Ov)]. unfold box_of. rewrite Hv. exact Ov. Qed.

Lemma alloc_cell_spec v h : heap_wf h -> obj_ok h v ->
  hext h (snd (alloc_cell v h)) /\ heap_wf (snd (alloc_cell v h)) /\
  cell_ok (snd (alloc_cell v h)) (fst (alloc_cell v h)) /\ box_of (fst (alloc_cell v h)) (snd (alloc_cell v h)) = v /\
  h_next h <= fst (alloc_cell v h).
Proof.
  intros W O. assert (X : hext h (snd (alloc_cell v h))) by (apply (hextn_alloc_cell _ v h); lia).
  split; [exact X|]. split; [apply wf_alloc_cell, W|]. split; [|split].
  - split; [cbn; lia|]. exists v. split; [cbn; apply lookup_insert|]. apply (obj_ok_hext h); assumption.
  - unfold box_of. cbn. rewrite lookup_insert. reflexivity.
  - cbn. lia.
Qed.

Section AtomicProofs.
  Variable iter : N -> vv -> list ent.
  Hypothesis Hiter : iter_ok iter.

  Lemma a_new_spec init h : heap_wf h -> obj_ok h init ->
    hext h (snd (a_new init h)) /\ heap_wf (snd (a_new init h)) /\ cell_ok (snd (a_new init h)) (fst (a_new init h)) /\
    omap (snd (a_new init h)) (box_of (fst (a_new init h)) (snd (a_new init h))) = omap h init.
  Proof.
    intros W O. unfold a_new. destruct (o_m init) eqn:Em.
    - destruct (alloc_cell_spec init h W O) as (X & W' & C & B & _).
      split; [exact X|]. split; [exact W'|]. split; [exact C|]. rewrite B. apply omap_hext; assumption.
    - destruct (h_new_spec h W) as (X1 & W1 & O1 & E1 & _).
      destruct (h_new h) as [v h1]. cbn [fst snd] in *.
      destruct (alloc_cell_spec v h1 W1 O1) as (X & W' & C & B & _).
      split; [eapply hextn_trans; [exact X1|]; eapply hextn_mono; [|exact X]; apply X1|].
      split; [exact W'|]. split; [exact C|]. rewrite B. rewrite (omap_hext h1 _ v X O1), E1.
      unfold omap. rewrite Em. reflexivity.
  Qed.

  (** sequential CompareAndSwap: swaps iff the stored value is Equal to [old]; then the wrapper points to a new
      box holding EXACTLY [new]; else nothing changes *)
  Lemma a_cas_spec p old new h : heap_wf h -> cell_ok h p -> obj_ok h new ->
    hext h (snd (a_cas iter p old new h)) /\ heap_wf (snd (a_cas iter p old new h)) /\
    cell_ok (snd (a_cas iter p old new h)) (snd (fst (a_cas iter p old new h))) /\
    match vcompare (omap h (box_of p h)) (omap h old) with
    | VEqual => fst (fst (a_cas iter p old new h)) = true /\
                box_of (snd (fst (a_cas iter p old new h))) (snd (a_cas iter p old new h)) = new
    | _ => fst (fst (a_cas iter p old new h)) = false /\ snd (fst (a_cas iter p old new h)) = p
    end.
  Proof.
    intros W C On. unfold a_cas. destruct (h_compare_spec iter Hiter (box_of p h) old h W) as (X & W' & E).
    destruct (h_compare iter (box_of p h) old h) as [ord h1]. cbn [fst snd] in *. subst ord.
    assert (K : forall b, b = false -> hext h h1 /\ heap_wf h1 /\ cell_ok h1 p /\ b = false /\ p = p).
    { intros b ->. split; [exact X|]. split; [exact W'|]. split; [apply (cell_ok_hext h); assumption|]. split; reflexivity. }
    destruct (vcompare (omap h (box_of p h)) (omap h old)); cbn [fst snd]; try (apply K; reflexivity).
    destruct (alloc_cell_spec new h1 W' (obj_ok_hext h h1 new X On)) as (X2 & W2 & C2 & B2 & _).
    split; [eapply hextn_trans; [exact X|]; eapply hextn_mono; [|exact X2]; apply X|].
    split; [exact W2|]. split; [exact C2|]. split; [reflexivity|exact B2].
  Qed.

  (** sequential Increment: VersionVector.Increment's error leaves the wrapper as it was; otherwise the returned
      vector is the Increment of the value that was stored, strictly After it, and it is what the wrapper holds *)
  Lemma a_inc_spec fuel p k h : heap_wf h -> cell_ok h p ->
    let r := a_inc iter (S fuel) p k h in
    hext h (snd r) /\ heap_wf (snd r) /\ cell_ok (snd r) (snd (fst r)) /\
    match vinc (omap h (box_of p h)) k with
    | Ok nv => exists v, fst (fst r) = ORet (Ok v) /\ omap (snd r) v = nv /\ box_of (snd (fst r)) (snd r) = v /\
                         vcompare (omap (snd r) v) (omap h (box_of p h)) = VAfter
    | Err e => fst (fst r) = ORet (Err e) /\ snd (fst r) = p
    end.
  Proof.
    intros W C. cbn zeta. cbn [a_inc]. unfold a_load.
    pose proof (h_inc_spec iter Hiter (box_of p h) k h W (cell_ok_box h p C)) as I.
    destruct (h_inc iter (box_of p h) k h) as [[nv|e] h1]; cbn [fst snd] in I.
    - destruct I as (X & W1 & O1 & E1 & F1). rewrite E1.
      pose proof (a_cas_spec p (box_of p h) nv h1 W1 (cell_ok_hext h h1 p X C) O1) as S.
      rewrite (box_of_hext h h1 p X (proj1 C)) in S.
      rewrite (omap_hext h h1 _ X (cell_ok_box h p C)) in S. rewrite vcompare_refl in S.
      destruct (a_cas iter p (box_of p h) nv h1) as [[b p'] h2]. cbn [fst snd] in *.
      destruct S as (X2 & W2 & C2 & Eb & B2). subst b. cbn [fst snd].
      assert (X' : hext h h2) by (eapply hextn_trans; [exact X|]; eapply hextn_mono; [|exact X2]; apply X).
      split; [exact X'|]. split; [exact W2|]. split; [exact C2|].
      exists nv. split; [reflexivity|]. assert (Ev : omap h2 nv = omap h1 nv) by (apply omap_hext; assumption).
      split; [exact Ev|]. split; [exact B2|]. rewrite Ev. apply (vinc_ok _ k _ E1).
    - destruct I as (X & W1 & E1). rewrite E1. cbn [fst snd].
      split; [exact X|]. split; [exact W1|]. split; [apply (cell_ok_hext h); assumption|]. split; reflexivity.
  Qed.
End AtomicProofs.

(** * Sessions *)
Definition sess_inv (st : list vobj * heap) : Prop := heap_wf (snd st) /\ Forall (obj_ok (snd st)) (fst st).

Lemma fpool_get_map (f : vobj -> vv) pool i : fpool_get (map f pool) i = option_map f (pool_get pool i).
Proof.
  unfold fpool_get, pool_get. rewrite map_length. destruct (i <? N.of_nat (length pool)); [|reflexivity].
  apply nth_error_map.
Qed.
Lemma pool_get_in pool i v : pool_get pool i = Some v -> In v pool.
Proof. unfold pool_get. destruct (i <? _); [|discriminate]. apply nth_error_In. Qed.

Lemma map_omap_hext h h' pool : hext h h' -> Forall (obj_ok h) pool -> map (omap h') pool = map (omap h) pool.
Proof.
  intros X F. apply map_ext_in. intros v Hv. apply omap_hext; [exact X|]. apply elem_of_list_In in Hv. exact (proj1 (Forall_forall _ _) F v Hv).
Qed.
Lemma Forall_ok_hext h h' pool : hext h h' -> Forall (obj_ok h) pool -> Forall (obj_ok h') pool.
Proof. intros X F. eapply Forall_impl; [exact F|]. intros v. apply obj_ok_hext, X. Qed.

Section SessionProofs.
  Variable iter : N -> vv -> list ent.
  Hypothesis Hiter : iter_ok iter.

  (** one step: the heap only grows ([hext]), the pool only grows at its end, every object is still alive, and
      the abstract values of the new pool are what the FUNCTIONAL step computes from the old abstract values *)
  Lemma hstep_spec op st : sess_inv st ->
    let r := fst (hstep iter op st) in
    sess_inv r /\ hext (snd st) (snd r) /\ (exists suf, fst r = fst st ++ suf) /\
    map (omap (snd r)) (fst r) = fstep op (map (omap (snd st)) (fst st)) /\
    (Forall (fun o => o_ents o = None) (fst st) -> Forall (fun o => o_ents o = None) (fst r)).
  Proof.
    destruct st as [pool h]. intros [W F]. cbn [fst snd] in W, F. cbn zeta.
    assert (Keep : sess_inv (pool, h) /\ hext h h /\ (exists suf, pool = pool ++ suf) /\ map (omap h) pool = map (omap h) pool /\
                   (Forall (fun o => o_ents o = None) pool -> Forall (fun o => o_ents o = None) pool)).
    { split; [split; assumption|]. split; [apply hextn_refl|]. split; [exists []; symmetry; apply app_nil_r|]. split; [reflexivity|tauto]. }
    assert (Grow : forall r h', hext h h' -> heap_wf h' -> obj_ok h' r ->
               (Forall (fun o => o_ents o = None) pool -> o_ents r = None) ->
               sess_inv (pool ++ [r], h') /\ hext h h' /\ (exists suf, pool ++ [r] = pool ++ suf) /\
               map (omap h') (pool ++ [r]) = map (omap h) pool ++ [omap h' r] /\
               (Forall (fun o => o_ents o = None) pool -> Forall (fun o => o_ents o = None) (pool ++ [r]))).
    { intros r h' X W' O' Hn. split; [split; [exact W'|]; cbn; apply Forall_app; split; [apply (Forall_ok_hext h); assumption|constructor; [exact O'|constructor]]|].
      split; [exact X|]. split; [eexists; reflexivity|]. split; [rewrite map_app; cbn; f_equal; apply map_omap_hext; assumption|].
      intros Hp. apply Forall_app. split; [exact Hp|]. constructor; [apply Hn, Hp|constructor]. }
    assert (Same : forall h', hext h h' -> heap_wf h' ->
               sess_inv (pool, h') /\ hext h h' /\ (exists suf, pool = pool ++ suf) /\ map (omap h') pool = map (omap h) pool /\
               (Forall (fun o => o_ents o = None) pool -> Forall (fun o => o_ents o = None) pool)).
    { intros h' X W'. split; [split; [exact W'|apply (Forall_ok_hext h); assumption]|]. split; [exact X|].
      split; [exists []; symmetry; apply app_nil_r|]. split; [apply map_omap_hext; assumption|tauto]. }
    assert (Ok : forall i v, pool_get pool i = Some v -> obj_ok h v).
    { intros i v Hv. apply (proj1 (Forall_forall _ _) F), elem_of_list_In, (pool_get_in pool i), Hv. }
    destruct op as [i k|i j|i|i|i|i|i act maxe|i j]; cbn [hstep fstep fst snd]; rewrite ?fpool_get_map.
    - (* Increment *)
      destruct (pool_get pool i) as [v|] eqn:Ev; cbn [option_map]; [|exact Keep].
      pose proof (h_inc_spec iter Hiter v k h W (Ok i v Ev)) as S.
      destruct (h_inc iter v k h) as [[r|e] h']; cbn [fst snd] in *.
      + destruct S as (X & W' & O' & E' & Fr). rewrite E'. apply Grow; try assumption. intros _. apply Fr.
      + destruct S as (X & W' & E'). rewrite E'. apply Same; assumption.
    - (* Merge *)
      destruct (pool_get pool i) as [v|] eqn:Ev; cbn [option_map]; [|exact Keep].
      destruct (pool_get pool j) as [o|] eqn:Eo; cbn [option_map]; [|exact Keep].
      pose proof (h_merge_spec iter Hiter v o h W (Ok i v Ev) (Ok j o Eo)) as S.
      destruct (h_merge iter v o h) as [r h']; cbn [fst snd] in *.
      destruct S as (X & W' & O' & E' & Fr). rewrite <- E'. apply Grow; try assumption. intros _. apply Fr.
    - (* Clone *)
      destruct (pool_get pool i) as [v|] eqn:Ev; cbn [option_map]; [|exact Keep].
      pose proof (h_clone_spec iter Hiter v h W (Ok i v Ev)) as S.
      destruct (h_clone iter v h) as [r h']; cbn [fst snd] in *.
      destruct S as (X & W' & O' & E' & Fr). rewrite <- E'. apply Grow; try assumption. intros _. apply Fr.
    - (* Write then Read *)
      destruct (pool_get pool i) as [v|] eqn:Ev; cbn [option_map]; [|exact Keep].
      pose proof (h_write_spec iter Hiter v h W (Ok i v Ev)) as S.
      destruct (h_write iter v h) as [[bs|e] h1]; cbn [fst snd] in *; destruct S as (X1 & W1 & E1); rewrite <- E1.
      + pose proof (h_read_spec bs h1 W1) as R.
        destruct (vread bs) as [[m rest]|e2].
        * destruct R as (X2 & W2 & r & R1 & O2 & E2 & Fr).
          destruct (h_read bs h1) as [rr h2]. cbn [fst snd] in *. subst rr. cbn [fst snd]. rewrite <- E2.
          apply Grow; try assumption; [|intros _; apply Fr]. eapply hextn_trans; [exact X1|]. eapply hextn_mono; [|exact X2]. apply X1.
        * destruct R as (X2 & W2 & R1).
          destruct (h_read bs h1) as [rr h2]. cbn [fst snd] in *. subst rr. cbn [fst snd].
          apply Same; try assumption. eapply hextn_trans; [exact X1|]. eapply hextn_mono; [|exact X2]. apply X1.
      + apply Same; assumption.
    - (* Compact *)
      destruct (pool_get pool i) as [v|] eqn:Ev; cbn [option_map]; [|exact Keep].
      pose proof (h_compact_spec iter Hiter v h W (Ok i v Ev)) as S.
      destruct (h_compact iter v h) as [r h']; cbn [fst snd] in *.
      destruct S as (X & W' & O' & E' & Fr). rewrite <- E'. apply Grow; try assumption.
      intros Hp. destruct Fr as [->|Fr]; [|apply Fr].
      apply (proj1 (Forall_forall _ _) Hp), elem_of_list_In, (pool_get_in pool i), Ev.
    - (* SortedEntries *)
      destruct (pool_get pool i) as [v|] eqn:Ev; cbn [option_map]; [|exact Keep].
      pose proof (h_sorted_entries_spec iter Hiter v h W (Ok i v Ev)) as S. cbn zeta in S.
      destruct (h_sorted_entries iter v h) as [so h']; cbn [fst snd] in *.
      destruct S as (X & W' & _). apply Same; assumption.
    - (* PruneWithMax *)
      destruct (pool_get pool i) as [v|] eqn:Ev; cbn [option_map]; [|exact Keep].
      cbn [alloc_strs]. set (la := h_next h).
      set (h0 := Heap (h_maps h) (h_ents h) (<[la:=act]> (h_strs h)) (h_cells h) (la + 1) (h_tick h)).
      assert (X0 : hext h h0) by (apply (hextn_alloc_strs la act h); lia).
      assert (W0 : heap_wf h0) by (apply (wf_alloc_strs act h), W).
      assert (S0 : slice_ok h0 (Slice la (length act))) by (unfold slice_ok; cbn; lia).
      assert (E0 : strs_of h0 (Slice la (length act)) = act).
      { unfold strs_of. cbn. rewrite lookup_insert. cbn. apply firstn_all. }
      pose proof (h_prune_max_spec iter Hiter v (Slice la (length act)) maxe h0 W0 (obj_ok_hext h h0 v X0 (Ok i v Ev)) S0) as S.
      cbn zeta in S. destruct (h_prune_max iter v (Some (Slice la (length act))) maxe h0) as [r h']; cbn [fst snd] in *.
      destruct S as (X & W' & O' & E' & Fr & _). rewrite E0 in E'. rewrite (omap_hext h h0 v X0 (Ok i v Ev)) in E'.
      rewrite <- E'. apply Grow; try assumption; [|intros _; apply Fr].
      eapply hextn_trans; [exact X0|]. eapply hextn_mono; [|exact X]. apply X0.
    - (* Compare *)
      destruct (pool_get pool i) as [v|] eqn:Ev; cbn [option_map]; [|exact Keep].
      destruct (pool_get pool j) as [o|] eqn:Eo; cbn [option_map]; [|exact Keep].
      pose proof (h_compare_spec iter Hiter v o h W) as S.
      destruct (h_compare iter v o h) as [r h']; cbn [fst snd] in *.
      destruct S as (X & W' & _). apply Same; assumption.
  Qed.

  Lemma hrun_cons op ops st :
    fst (hrun iter (op :: ops) st) = fst (hrun iter ops (fst (hstep iter op st))).
  Proof. cbn [hrun]. destruct (hstep iter op st) as [st1 ob]. cbn [fst]. destruct (hrun iter ops st1) as [st2 obs]. reflexivity. Qed.

  Lemma hrun_app ops1 ops2 st :
    fst (hrun iter (ops1 ++ ops2) st) = fst (hrun iter ops2 (fst (hrun iter ops1 st))).
  Proof.
    revert st. induction ops1 as [|op ops1 IH]; intros st; [reflexivity|].
    cbn [app]. rewrite !hrun_cons. apply IH.
  Qed.

  Lemma hrun_spec ops : forall st, sess_inv st ->
    let r := fst (hrun iter ops st) in
    sess_inv r /\ hext (snd st) (snd r) /\ (exists suf, fst r = fst st ++ suf) /\
    map (omap (snd r)) (fst r) = frun ops (map (omap (snd st)) (fst st)) /\
    (Forall (fun o => o_ents o = None) (fst st) -> Forall (fun o => o_ents o = None) (fst r)).
  Proof.
    induction ops as [|op ops IH]; intros st I; cbn zeta.
    - cbn. split; [exact I|]. split; [apply hextn_refl|]. split; [exists []; symmetry; apply app_nil_r|]. split; [reflexivity|tauto].
    - rewrite hrun_cons. destruct (hstep_spec op st I) as (I1 & X1 & (s1 & P1) & E1 & N1).
      destruct (IH _ I1) as (I2 & X2 & (s2 & P2) & E2 & N2).
      split; [exact I2|]. split; [eapply hextn_trans; [exact X1|]; eapply hextn_mono; [|exact X2]; apply X1|].
      split; [exists (s1 ++ s2); rewrite P2, P1, app_assoc; reflexivity|].
      split; [rewrite E2, E1; reflexivity|]. intros H. apply N2, N1, H.
  Qed.

  Lemma h_of_list_gen init h : heap_wf h ->
    heap_wf (snd (h_of_list init h)) /\ obj_ok (snd (h_of_list init h)) (fst (h_of_list init h)) /\
    omap (snd (h_of_list init h)) (fst (h_of_list init h)) = foldl ins_entry ∅ init /\
    o_ents (fst (h_of_list init h)) = None.
  Proof.
    intros W. unfold h_of_list. cbn [alloc_map fst snd].
    set (n := h_next h). set (h1 := snd (alloc_map h)).
    change (Heap (<[n:=∅]> (h_maps h)) (h_ents h) (h_strs h) (h_cells h) (n + 1) (h_tick h)) with h1.
    assert (W1 : heap_wf h1) by (apply (wf_alloc_map h), W).
    assert (Hn : h_maps h1 !! n = Some ∅) by (cbn; apply lookup_insert).
    destruct (store_all_other n init h1) as (_&_&_&Enx&_).
    split; [apply wf_store_all, W1|]. split; [|split; [|reflexivity]].
    - split; cbn [o_m o_ents]; [|discriminate]. intros l [= <-]. rewrite Enx. split; [unfold h1; cbn; lia|].
      rewrite store_all_maps, decide_True by reflexivity. rewrite Hn. eexists; reflexivity.
    - rewrite omap_some, map_of_store_all by (rewrite Hn; eexists; reflexivity). rewrite decide_True by reflexivity.
      unfold map_of. rewrite Hn. reflexivity.
  Qed.
  Lemma h_of_list_spec init :
    sess_inv ([fst (h_of_list init heap0)], snd (h_of_list init heap0)) /\
    omap (snd (h_of_list init heap0)) (fst (h_of_list init heap0)) = foldl ins_entry ∅ init /\
    o_ents (fst (h_of_list init heap0)) = None.
  Proof.
    destruct (h_of_list_gen init heap0 wf_heap0) as (W & O & E & N).
    split; [split; cbn [fst snd]; [exact W|constructor; [exact O|constructor]]|]. split; assumption.
  Qed.

  (** ** The session theorems *)

  (** REFINEMENT: after any history, the abstract values of the pool in the final heap are the pool of the
      functional model *)
  Theorem hsession_refines init ops :
    let st := fst (hsession iter init ops) in
    heap_wf (snd st) /\ Forall (obj_ok (snd st)) (fst st) /\
    map (omap (snd st)) (fst st) = frun ops [foldl ins_entry ∅ init].
  Proof.
    cbn zeta. unfold hsession. destruct (h_of_list_spec init) as (I & E & _).
    destruct (h_of_list init heap0) as [v h]. cbn [fst snd] in *.
    destruct (hrun_spec ops ([v], h) I) as ((W & F) & _ & _ & R & _). cbn [fst snd map] in R. rewrite E in R.
    split; [exact W|]. split; [exact F|exact R].
  Qed.

  (** FRAME along histories: whatever happens later ([ops2]), every vector that exists after [ops1] is still in
      the pool, still has the abstract value it had, and every observer run on it in the LATER heap returns what
      the functional model computes from that value *)
  Theorem hsession_never_modifies init ops1 ops2 :
    let st1 := fst (hsession iter init ops1) in
    let st2 := fst (hsession iter init (ops1 ++ ops2)) in
    hext (snd st1) (snd st2) /\ (exists suf, fst st2 = fst st1 ++ suf) /\
    forall o, In o (fst st1) ->
      omap (snd st2) o = omap (snd st1) o /\
      slice_ents (snd (h_sorted_entries iter o (snd st2))) (fst (h_sorted_entries iter o (snd st2))) = ventries (omap (snd st1) o) /\
      fst (h_write iter o (snd st2)) = vwrite (omap (snd st1) o) /\
      (forall p, In p (fst st2) -> fst (h_compare iter o p (snd st2)) = vcompare (omap (snd st1) o) (omap (snd st2) p)).
  Proof.
    cbn zeta. unfold hsession. destruct (h_of_list_spec init) as (I & _ & _).
    destruct (h_of_list init heap0) as [v h]. cbn [fst snd] in I. rewrite hrun_app.
    destruct (hrun_spec ops1 ([v], h) I) as (I1 & _).
    set (st1 := fst (hrun iter ops1 ([v], h))) in *.
    destruct (hrun_spec ops2 st1 I1) as (I2 & X & P & _).
    set (st2 := fst (hrun iter ops2 st1)) in *.
    split; [exact X|]. split; [exact P|]. intros o Ho.
    assert (O1 : obj_ok (snd st1) o) by (apply (proj1 (Forall_forall _ _) (proj2 I1)), elem_of_list_In, Ho).
    assert (O2 : obj_ok (snd st2) o) by (apply (obj_ok_hext (snd st1)); assumption).
    assert (E : omap (snd st2) o = omap (snd st1) o) by (apply omap_hext; assumption).
    split; [exact E|]. rewrite <- E.
    split; [apply (h_sorted_entries_spec iter Hiter o (snd st2) (proj1 I2) O2)|].
    split; [apply (h_write_spec iter Hiter o (snd st2) (proj1 I2) O2)|].
    intros p _. apply (h_compare_spec iter Hiter o p (snd st2) (proj1 I2)).
  Qed.

  (** the cache branch of SortedEntries is dead: no vector of any history carries a cached slice, so every
      SortedEntries result is a freshly allocated array that no vector refers to *)
  Theorem hsession_cache_never_filled init ops :
    let st := fst (hsession iter init ops) in
    forall o, In o (fst st) ->
      o_ents o = None /\
      forall s, fst (h_sorted_entries iter o (snd st)) = Some s -> h_next (snd st) <= s_arr s.
  Proof.
    cbn zeta. unfold hsession. destruct (h_of_list_spec init) as (I & _ & En).
    destruct (h_of_list init heap0) as [v h]. cbn [fst snd] in *.
    destruct (hrun_spec ops ([v], h) I) as (I2 & _ & _ & _ & Nn).
    specialize (Nn ltac:(cbn; constructor; [exact En|constructor])).
    intros o Ho. assert (Eo : o_ents o = None) by (apply (proj1 (Forall_forall _ _) Nn), elem_of_list_In, Ho).
    split; [exact Eo|]. intros s Hs.
    assert (O2 : obj_ok (snd (fst (hrun iter ops ([v], h)))) o) by (apply (proj1 (Forall_forall _ _) (proj2 I2)), elem_of_list_In, Ho).
    destruct (h_sorted_entries_spec iter Hiter o _ (proj1 I2) O2) as (_ & _ & _ & D). cbn zeta in D.
    destruct (D s Hs) as [[C|C] _]; [congruence|exact C].
  Qed.
End SessionProofs.

(** the functional pool is append-only *)
Lemma fstep_suffix op pool : exists suf, fstep op pool = pool ++ suf.
Proof.
  assert (K : exists suf, pool = pool ++ suf) by (exists []; symmetry; apply app_nil_r).
  destruct op; cbn [fstep]; repeat (match goal with |- context [match ?x with _ => _ end] => destruct x end); try exact K; eexists; reflexivity.
Qed.
Lemma frun_suffix ops : forall pool, exists suf, frun ops pool = pool ++ suf.
Proof.
  unfold frun. induction ops as [|op ops IH]; intros pool; cbn [fold_left]; [exists []; symmetry; apply app_nil_r|].
  destruct (fstep_suffix op pool) as (s1 & ->). destruct (IH (pool ++ s1)) as (s2 & ->). exists (s1 ++ s2). rewrite app_assoc. reflexivity.
Qed.
