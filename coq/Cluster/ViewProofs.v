(** Lemmas about the cluster-view model (Cluster/View.v): the incarnation order, IsNewerThan,
    recomputeCounts / prune, MergeFromWithOptions.  The property statements are restated in
    Properties/C17.v. *)
From Coq Require Import List NArith ZArith Lia Bool.
From Coq Require Import ZifyN ZifyNat ZifyBool.
From stdpp Require Import gmap sorting.
From Vivid Require Import Codec.Prim Cluster.VV Cluster.VVProofs Cluster.View.
Local Open Scope N_scope.

(** * The incarnation order (generation, then logical clock) *)

Lemma inc_lt_irrefl p : inc_lt p p = false.
Proof. destruct p as [a b]. unfold inc_lt; cbn [fst snd]. lia. Qed.
Lemma inc_lt_asym p q : inc_lt p q = true -> inc_lt q p = false.
Proof. destruct p as [a b], q as [c d]. unfold inc_lt; cbn [fst snd]. lia. Qed.
Lemma inc_lt_trans p q r : inc_lt p q = true -> inc_lt q r = true -> inc_lt p r = true.
Proof. destruct p as [a b], q as [c d], r as [e f]. unfold inc_lt; cbn [fst snd]. lia. Qed.
Lemma inc_lt_total p q : inc_lt p q = false -> inc_lt q p = false -> p = q.
Proof.
  destruct p as [a b], q as [c d]. unfold inc_lt; cbn [fst snd]. intros H1 H2.
  assert (a = c) by lia. assert (b = d) by lia. subst. reflexivity.
Qed.

Lemma inc_max_comm p q : inc_max p q = inc_max q p.
Proof.
  unfold inc_max. destruct (inc_lt p q) eqn:A, (inc_lt q p) eqn:B; try reflexivity.
  - apply inc_lt_asym in A. congruence.
  - symmetry. apply inc_lt_total; assumption.
Qed.
Lemma inc_max_idem p : inc_max p p = p.
Proof. unfold inc_max. rewrite inc_lt_irrefl. reflexivity. Qed.
Lemma inc_max_assoc p q r : inc_max (inc_max p q) r = inc_max p (inc_max q r).
Proof.
  destruct p as [a b], q as [c d], r as [e f]. unfold inc_max.
  destruct (inc_lt (a, b) (c, d)) eqn:A; destruct (inc_lt (c, d) (e, f)) eqn:B; rewrite ?A, ?B;
    destruct (inc_lt (a, b) (e, f)) eqn:C; rewrite ?A, ?B, ?C; try reflexivity;
    unfold inc_lt in *; cbn [fst snd] in *; lia.
Qed.
Lemma inc_max_ge_l p q : inc_lt (inc_max p q) p = false.
Proof.
  unfold inc_max. destruct (inc_lt p q) eqn:A; [apply inc_lt_asym; exact A|apply inc_lt_irrefl].
Qed.
Lemma inc_max_ge_r p q : inc_lt (inc_max p q) q = false.
Proof. rewrite inc_max_comm. apply inc_max_ge_l. Qed.
Lemma inc_max_cases p q : inc_max p q = p \/ inc_max p q = q.
Proof. unfold inc_max. destruct (inc_lt p q); auto. Qed.

(** * IsNewerThan *)

Lemma isnewer_irrefl s : isnewer s s = false.
Proof.
  unfold isnewer. rewrite Z.eqb_refl. cbn [negb]. rewrite Z.ltb_irrefl, N.ltb_irrefl.
  destruct (_ && _ && _); reflexivity.
Qed.

Lemma isnewer_asym n o : isnewer n o = true -> isnewer o n = false.
Proof.
  unfold isnewer. rewrite (Z.eqb_sym (ns_gen o) (ns_gen n)).
  destruct (ns_gen n =? ns_gen o)%Z eqn:G; cbn [negb]; [|lia].
  destruct (decide (ns_id n = ns_id o)) as [E|E].
  - rewrite (bool_decide_eq_true_2 _ E), (bool_decide_eq_true_2 _ (eq_sym E)). cbn [andb].
    destruct (ns_lc n =? 0) eqn:A, (ns_lc o =? 0) eqn:B; cbn [negb andb]; lia.
  - rewrite (bool_decide_eq_false_2 _ E). rewrite bool_decide_eq_false_2 by congruence. cbn [andb]. lia.
Qed.

(** on well-formed states of the same node, IsNewerThan IS the strict incarnation order *)
Lemma isnewer_wf n o :
  ns_id n = ns_id o -> wf_state n -> wf_state o -> isnewer n o = inc_lt (inc_of o) (inc_of n).
Proof.
  intros E [Hg1 Hl1] [Hg2 Hl2]. unfold isnewer, inc_lt, inc_of; cbn [fst snd].
  rewrite (bool_decide_eq_true_2 _ E). cbn [andb].
  replace (ns_lc n =? 0) with false by lia. replace (ns_lc o =? 0) with false by lia. cbn [negb andb].
  destruct (ns_gen n =? ns_gen o)%Z eqn:G; cbn [negb].
  - replace (ns_gen o <? ns_gen n)%Z with false by lia. replace (ns_gen o =? ns_gen n)%Z with true by lia. reflexivity.
  - replace (ns_gen o =? ns_gen n)%Z with false by lia. rewrite andb_false_l, orb_false_r. reflexivity.
Qed.

Lemma isnewer_wf_trans a b c :
  ns_id a = ns_id b -> ns_id b = ns_id c -> wf_state a -> wf_state b -> wf_state c ->
  isnewer a b = true -> isnewer b c = true -> isnewer a c = true.
Proof.
  intros E1 E2 Wa Wb Wc. rewrite !isnewer_wf by (assumption || congruence).
  intros H1 H2. eapply inc_lt_trans; eassumption.
Qed.

(** without well-formedness (one logical clock is 0, as a wire-decoded state may have) the three
    criteria form a cycle: a beats b on timestamp, b beats c on logical clock, c beats a on timestamp *)
Definition cyc_a : nstate := NState [97] [] 1 2 0 1 0 0.
Definition cyc_b : nstate := NState [97] [] 1 1 0 1 2 0.
Definition cyc_c : nstate := NState [97] [] 1 3 0 1 1 0.
Lemma isnewer_cycle :
  isnewer cyc_a cyc_b = true /\ isnewer cyc_b cyc_c = true /\ isnewer cyc_c cyc_a = true.
Proof. vm_compute. auto. Qed.
Definition isnewer_cycle_example := isnewer_cycle.

(** * recomputeCounts and the prune *)

Lemma recompute_members v : vw_members (recompute v) = vw_members v.
Proof. reflexivity. Qed.
Lemma recompute_maxent v : vw_maxent (recompute v) = vw_maxent v.
Proof. reflexivity. Qed.

Lemma keys_elem (m : members) k : k ∈ (map_to_list m).*1 <-> is_Some (m !! k).
Proof.
  split.
  - intros H. apply elem_of_list_fmap in H as ([k' s] & -> & Hin). apply elem_of_map_to_list in Hin.
    cbn. eexists; exact Hin.
  - intros [s Hs]. apply elem_of_list_fmap. exists (k, s). split; [reflexivity|].
    apply elem_of_map_to_list. exact Hs.
Qed.
Lemma keys_length (m : members) : length ((map_to_list m).*1) = size m.
Proof. rewrite fmap_length. reflexivity. Qed.

Lemma vprune_max_sub (v : vv) act m k c :
  vprune_max v act m !! k = Some c -> v !! k = Some c /\ k ∈ act.
Proof.
  unfold vprune_max. destruct (_ || _); [rewrite lookup_empty; discriminate|].
  intros H. apply map_filter_lookup_Some in H as [H1 H2]. split; [exact H1|].
  apply bool_decide_unpack in H2. cbn [fst] in H2.
  destruct (_ <? _); [|exact H2].
  apply elem_of_take in H2 as (i & Hi & _). apply elem_of_list_lookup_2 in Hi.
  rewrite (isort_perm lex_le act) in Hi. exact Hi.
Qed.

Lemma vprune_max_keep (v : vv) act m k :
  N.of_nat (length act) <= vv_limit m -> k ∈ act -> vprune_max v act m !! k = v !! k.
Proof.
  intros Hcap Hin. unfold vprune_max.
  destruct (bool_decide (size v = 0%nat)) eqn:Ev; cbn [orb].
  - apply bool_decide_eq_true, map_size_empty_inv in Ev. subst. rewrite !lookup_empty. reflexivity.
  - destruct (bool_decide (length act = 0%nat)) eqn:Ea.
    + apply bool_decide_eq_true in Ea. destruct act; [inversion Hin|discriminate].
    + unfold vv_limit in Hcap.
      replace ((if (m <=? 0)%Z then max_entries else Z.to_N m) <? N.of_nat (length act)) with false by lia.
      destruct (v !! k) as [c|] eqn:E.
      * apply map_filter_lookup_Some. split; [exact E|]. apply bool_decide_pack. exact Hin.
      * apply map_filter_lookup_None. left. exact E.
Qed.

Lemma recompute_vv_sub v k c : vw_vv (recompute v) !! k = Some c -> vw_vv v !! k = Some c.
Proof.
  unfold recompute; cbn [vw_vv]. destruct (map_to_list (vw_members v)); [tauto|].
  intros H. apply vprune_max_sub in H. tauto.
Qed.
Lemma recompute_vv_in v k c :
  vw_members v <> ∅ -> vw_vv (recompute v) !! k = Some c -> is_Some (vw_members v !! k).
Proof.
  intros Hne. unfold recompute; cbn [vw_vv]. destruct (map_to_list (vw_members v)) eqn:E.
  - apply map_to_list_empty_iff in E. contradiction.
  - rewrite <- E. intros H. apply vprune_max_sub in H as [_ H]. apply keys_elem. exact H.
Qed.
Lemma recompute_vv_keep v k :
  CapOK v -> is_Some (vw_members v !! k) -> vw_vv (recompute v) !! k = vw_vv v !! k.
Proof.
  intros Hcap Hk. unfold recompute; cbn [vw_vv]. destruct (map_to_list (vw_members v)) eqn:E; [reflexivity|].
  rewrite <- E. apply vprune_max_keep.
  - rewrite keys_length. exact Hcap.
  - apply keys_elem. exact Hk.
Qed.
Lemma recompute_vv_id v : VVin v -> CapOK v -> vw_vv (recompute v) = vw_vv v.
Proof.
  intros Hin Hcap. apply map_eq. intros k.
  destruct (vw_vv v !! k) as [c|] eqn:E.
  - rewrite recompute_vv_keep; [exact E|exact Hcap|]. apply Hin. eexists; exact E.
  - destruct (vw_vv (recompute v) !! k) as [c|] eqn:E2; [|reflexivity].
    apply recompute_vv_sub in E2. congruence.
Qed.
Lemma vget_recompute_le v k : vget (vw_vv (recompute v)) k <= vget (vw_vv v) k.
Proof.
  unfold vget. destruct (vw_vv (recompute v) !! k) as [c|] eqn:E; cbn; [|lia].
  apply recompute_vv_sub in E. rewrite E. cbn. lia.
Qed.

(** * The member part of a merge *)

Lemma merge_members_lookup (a o : members) k :
  merge_members a o !! k =
  match a !! k, o !! k with
  | Some e, Some x => Some (if isnewer x e then x else e)
  | Some e, None => Some e
  | None, Some x => Some x
  | None, None => None
  end.
Proof. unfold merge_members. rewrite lookup_union_with. destruct (a !! k), (o !! k); reflexivity. Qed.

Lemma members_changed_false (a o : members) :
  members_changed a o = false <->
  (forall k x, o !! k = Some x -> exists e, a !! k = Some e /\ isnewer x e = false).
Proof.
  unfold members_changed. rewrite <- not_true_iff_false, existsb_exists. split.
  - intros H k x Hk. destruct (a !! k) as [e|] eqn:E.
    + exists e. split; [reflexivity|]. apply not_true_iff_false. intros Hn. apply H.
      exists (k, x). split; [apply elem_of_list_In, elem_of_map_to_list; exact Hk|]. cbn [fst snd]. rewrite E. exact Hn.
    + exfalso. apply H. exists (k, x). split; [apply elem_of_list_In, elem_of_map_to_list; exact Hk|].
      cbn [fst snd]. rewrite E. reflexivity.
  - intros H ([k x] & Hin & Hx). apply elem_of_list_In, elem_of_map_to_list in Hin.
    destruct (H k x Hin) as (e & He & Hn). cbn [fst snd] in Hx. rewrite He in Hx. congruence.
Qed.

Lemma members_unchanged_eq (a o : members) : members_changed a o = false -> merge_members a o = a.
Proof.
  intros H. apply map_eq. intros k. rewrite merge_members_lookup.
  destruct (o !! k) as [x|] eqn:Eo.
  - destruct (proj1 (members_changed_false a o) H k x Eo) as (e & He & Hn). rewrite He, Hn. reflexivity.
  - destruct (a !! k); reflexivity.
Qed.

Lemma members_changed_neq (a o : members) : members_changed a o = true -> merge_members a o <> a.
Proof.
  unfold members_changed. rewrite existsb_exists. intros ([k x] & Hin & Hx) Heq.
  apply elem_of_list_In, elem_of_map_to_list in Hin. cbn [fst snd] in Hx.
  apply (f_equal (fun m => m !! k)) in Heq. rewrite merge_members_lookup, Hin in Heq.
  destruct (a !! k) as [e|] eqn:E; [|discriminate].
  rewrite Hx in Heq. injection Heq as ->. rewrite isnewer_irrefl in Hx. discriminate.
Qed.

(** * Fields of a merge result *)

Lemma set_members_same v : set_members v (vw_members v) = v.
Proof. destruct v; reflexivity. Qed.

Lemma view_merge_empty sk st now v o :
  vw_members o = ∅ -> view_merge sk st now v o = (v, false).
Proof. intros H. unfold view_merge, view_merge_gen. rewrite H, map_size_empty, bool_decide_eq_true_2 by reflexivity. reflexivity. Qed.

Lemma o_empty_dec (o : view) : {vw_members o = ∅} + {size (vw_members o) <> 0%nat}.
Proof.
  destruct (decide (size (vw_members o) = 0%nat)) as [H|H]; [left; apply map_size_empty_inv; exact H|right; exact H].
Qed.

Lemma view_merge_members sk st now v o :
  vw_members (fst (view_merge sk st now v o)) = merge_members (vw_members v) (vw_members o).
Proof.
  destruct (o_empty_dec o) as [H|H].
  - rewrite view_merge_empty by exact H. cbn [fst]. rewrite H. apply map_eq. intros k.
    rewrite merge_members_lookup, lookup_empty. destruct (vw_members v !! k); reflexivity.
  - unfold view_merge, view_merge_gen. rewrite bool_decide_eq_false_2 by exact H. reflexivity.
Qed.
Lemma view_merge_maxent sk st now v o : vw_maxent (fst (view_merge sk st now v o)) = vw_maxent v.
Proof. unfold view_merge, view_merge_gen. destruct (bool_decide _); reflexivity. Qed.

Lemma view_merge_vv sk st now v o :
  size (vw_members o) <> 0%nat ->
  vw_vv (fst (view_merge sk st now v o)) =
  vmerge (vw_vv (recompute (set_members v (merge_members (vw_members v) (vw_members o))))) (vw_vv o).
Proof. intros H. unfold view_merge, view_merge_gen. rewrite bool_decide_eq_false_2 by exact H. reflexivity. Qed.

(** * WF, VVin are invariants of everything the code can build *)

Lemma wf_new_node_state id addr now : wf_state (new_node_state id addr now).
Proof. split; cbn; lia. Qed.
Lemma wf_set_status s st : wf_state s -> wf_state (ns_set_status s st).
Proof. intros H. exact H. Qed.

Lemma WF_new now maxent : WF (new_view now maxent).
Proof. intros k s H. cbn in H. rewrite lookup_empty in H. discriminate. Qed.
Lemma VVin_new now maxent : VVin (new_view now maxent).
Proof. intros k [c H]. cbn in H. rewrite lookup_empty in H. discriminate. Qed.

Lemma WF_recompute v : WF v -> WF (recompute v).
Proof. intros H. exact H. Qed.

Lemma WF_add v s : WF v -> wf_state s -> WF (view_add v s).
Proof.
  intros Hv Hs.
  assert (Hins : WF (recompute (set_members v (<[ns_id s := s]> (vw_members v))))).
  { intros k x Hk. cbn in Hk. destruct (decide (k = ns_id s)) as [->|Hne].
    - rewrite lookup_insert in Hk. injection Hk as <-. split; [reflexivity|exact Hs].
    - rewrite lookup_insert_ne in Hk by congruence. apply Hv. destruct v; exact Hk. }
  unfold view_add. destruct (vw_members v !! ns_id s); [destruct (isnewer s n)|]; assumption.
Qed.

Lemma members_ne_insert (m : members) k s : <[k := s]> m <> ∅.
Proof. apply insert_non_empty. Qed.

Lemma VVin_recompute_nonempty v : vw_members v <> ∅ -> VVin (recompute v).
Proof. intros Hne k [c Hc]. rewrite recompute_members. eapply recompute_vv_in; eassumption. Qed.

Lemma VVin_add v s : VVin v -> VVin (view_add v s).
Proof.
  intros Hv.
  assert (Hins : VVin (recompute (set_members v (<[ns_id s := s]> (vw_members v))))).
  { apply VVin_recompute_nonempty. destruct v; cbn. apply insert_non_empty. }
  unfold view_add. destruct (vw_members v !! ns_id s); [destruct (isnewer s n)|]; assumption.
Qed.

Lemma WF_remove v id : WF v -> WF (view_remove v id).
Proof.
  intros Hv. unfold view_remove. destruct (vw_members v !! id); [|exact Hv].
  intros k x Hk. cbn in Hk. apply lookup_delete_Some in Hk as [_ Hk]. apply Hv. destruct v; exact Hk.
Qed.
Lemma VVin_remove v id : VVin v -> vw_members (view_remove v id) <> ∅ -> VVin (view_remove v id).
Proof.
  intros Hv. unfold view_remove. destruct (vw_members v !! id); [|intros _; exact Hv].
  intros Hne. apply VVin_recompute_nonempty. exact Hne.
Qed.

Lemma WF_inc v id : WF v -> WF (view_inc v id).
Proof.
  intros Hv. unfold view_inc. destruct id; [exact Hv|]. destruct (vinc _ _); [|exact Hv].
  intros k x Hk. apply Hv. destruct v; exact Hk.
Qed.
Lemma VVin_inc v id : VVin v -> is_Some (vw_members v !! id) -> VVin (view_inc v id).
Proof.
  intros Hv Hid. unfold view_inc. destruct id as [|b r]; [exact Hv|].
  destruct (vinc (vw_vv v) (b :: r)) as [x|] eqn:E; [|exact Hv].
  unfold vinc in E. destruct (valid_addr _); [|discriminate]. destruct (_ <=? _); [discriminate|].
  injection E as <-. intros k Hk. destruct v; cbn in *.
  destruct (decide (k = b :: r)) as [->|Hne]; [exact Hid|].
  rewrite lookup_insert_ne in Hk by congruence. apply Hv. exact Hk.
Qed.

Lemma WF_set_status v id st : WF v -> WF (view_set_status v id st).
Proof.
  intros Hv k x Hk. unfold view_set_status in Hk. destruct v as [ep ts ms h u q vx pr mx]; cbn in *.
  destruct (decide (k = id)) as [->|Hne].
  - rewrite lookup_alter in Hk. destruct (ms !! id) as [s|] eqn:E; [|discriminate].
    cbn in Hk. injection Hk as <-. apply (Hv id s E).
  - rewrite lookup_alter_ne in Hk by congruence. apply (Hv k x Hk).
Qed.
Lemma VVin_set_status v id st : VVin v -> VVin (view_set_status v id st).
Proof.
  intros Hv k Hk. unfold view_set_status. destruct v; cbn in *. apply lookup_alter_is_Some. apply Hv. exact Hk.
Qed.

Lemma wf_rejoin_state self v now : WF v -> wf_state self -> wf_state (fst (view_rejoin self v now)).
Proof.
  intros Hv Hs. unfold view_rejoin. destruct (vw_members v !! ns_id self) as [prev|] eqn:E; [|exact Hs].
  destruct (_ <=? _)%Z; [|exact Hs]. cbn [fst]. destruct (Hv _ _ E) as [_ [Hg Hl]].
  split; cbn; [lia|]. destruct (ns_lc prev =? 0); lia.
Qed.
Lemma WF_rejoin self v now : WF v -> wf_state self -> WF (snd (view_rejoin self v now)).
Proof.
  intros Hv Hs. pose proof (wf_rejoin_state self v now Hv Hs) as Hw. unfold view_rejoin in *.
  destruct (vw_members v !! ns_id self) as [prev|]; [|exact Hv].
  destruct (_ <=? _)%Z; [|exact Hv]. cbn [fst snd] in *. apply WF_add; assumption.
Qed.
Lemma VVin_rejoin self v now : VVin v -> VVin (snd (view_rejoin self v now)).
Proof.
  intros Hv. unfold view_rejoin. destruct (vw_members v !! ns_id self) as [prev|]; [|exact Hv].
  destruct (_ <=? _)%Z; [|exact Hv]. cbn [snd]. apply VVin_add. exact Hv.
Qed.

Lemma WF_merge sk st now v o : WF v -> WF o -> WF (fst (view_merge sk st now v o)).
Proof.
  intros Hv Ho k s Hk. rewrite view_merge_members, merge_members_lookup in Hk.
  destruct (vw_members v !! k) as [e|] eqn:Ev, (vw_members o !! k) as [x|] eqn:Eo; try discriminate.
  - injection Hk as <-. destruct (isnewer x e); [apply (Ho _ _ Eo)|apply (Hv _ _ Ev)].
  - injection Hk as <-. apply (Hv _ _ Ev).
  - injection Hk as <-. apply (Ho _ _ Eo).
Qed.

Lemma VVin_merge sk st now v o : VVin v -> VVin o -> VVin (fst (view_merge sk st now v o)).
Proof.
  intros Hv Ho. destruct (o_empty_dec o) as [H|H].
  - rewrite view_merge_empty by exact H. exact Hv.
  - intros k Hk. rewrite view_merge_members, merge_members_lookup.
    rewrite view_merge_vv in Hk by exact H. apply vmerge_dom in Hk as [[c Hk]|Hk].
    + apply recompute_vv_sub in Hk. destruct (Hv k) as [e He]; [destruct v; eexists; exact Hk|].
      rewrite He. destruct (vw_members o !! k); eexists; reflexivity.
    + destruct (Ho k Hk) as [x Hx]. rewrite Hx. destruct (vw_members v !! k); eexists; reflexivity.
Qed.

Theorem reach_wf v : reach v -> WF v /\ VVin v.
Proof.
  induction 1 as [now maxent|v s Hr [IH1 IH2] Hs|v id Hr [IH1 IH2] Hid|v id st Hr [IH1 IH2]
                 |v self now Hr [IH1 IH2] Hs|sk st now v o Hr1 [IH1 IH2] Hr2 [IH3 IH4]|v Hr IH].
  - split; [apply WF_new|apply VVin_new].
  - split; [apply WF_add; assumption|apply VVin_add; assumption].
  - split; [apply WF_inc; assumption|apply VVin_inc; assumption].
  - split; [apply WF_set_status; assumption|apply VVin_set_status; assumption].
  - split; [apply WF_rejoin; assumption|apply VVin_rejoin; assumption].
  - split; [apply WF_merge; assumption|apply VVin_merge; assumption].
  - exact IH.
Qed.

(** * proj of a merge = pointwise newest incarnation *)

Lemma pjoin_lookup (a b : pmap) k :
  pjoin a b !! k = match a !! k, b !! k with
                   | Some x, Some y => Some (inc_max x y)
                   | Some x, None => Some x
                   | None, Some y => Some y
                   | None, None => None
                   end.
Proof. unfold pjoin. rewrite lookup_union_with. destruct (a !! k), (b !! k); reflexivity. Qed.

Theorem proj_merge sk st now v o :
  WF v -> WF o -> proj (fst (view_merge sk st now v o)) = pjoin (proj v) (proj o).
Proof.
  intros Hv Ho. apply map_eq. intros k. rewrite pjoin_lookup. unfold proj.
  rewrite !lookup_fmap, view_merge_members, merge_members_lookup.
  destruct (vw_members v !! k) as [e|] eqn:Ev, (vw_members o !! k) as [x|] eqn:Eo; cbn; try reflexivity.
  destruct (Hv _ _ Ev) as [Ie We], (Ho _ _ Eo) as [Ix Wx].
  rewrite (isnewer_wf x e) by (assumption || congruence).
  unfold inc_max. destruct (inc_lt (inc_of e) (inc_of x)); reflexivity.
Qed.

Theorem pjoin_comm a b : pjoin a b = pjoin b a.
Proof.
  apply map_eq. intros k. rewrite !pjoin_lookup. destruct (a !! k), (b !! k); try reflexivity.
  f_equal. apply inc_max_comm.
Qed.
Theorem pjoin_assoc a b c : pjoin (pjoin a b) c = pjoin a (pjoin b c).
Proof.
  apply map_eq. intros k. rewrite !pjoin_lookup. destruct (a !! k), (b !! k), (c !! k); try reflexivity.
  f_equal. apply inc_max_assoc.
Qed.
Theorem pjoin_idem a : pjoin a a = a.
Proof.
  apply map_eq. intros k. rewrite !pjoin_lookup. destruct (a !! k); try reflexivity.
  f_equal. apply inc_max_idem.
Qed.
Lemma pjoin_empty_l a : pjoin ∅ a = a.
Proof. apply map_eq. intros k. rewrite pjoin_lookup, lookup_empty. destruct (a !! k); reflexivity. Qed.
Lemma pjoin_empty_r a : pjoin a ∅ = a.
Proof. rewrite pjoin_comm. apply pjoin_empty_l. Qed.

Theorem proj_merge_comm sk st now sk' st' now' a b :
  WF a -> WF b ->
  proj (fst (view_merge sk st now a b)) = proj (fst (view_merge sk' st' now' b a)).
Proof. intros Ha Hb. rewrite !proj_merge by assumption. apply pjoin_comm. Qed.

Theorem proj_merge_assoc sk1 st1 n1 sk2 st2 n2 sk3 st3 n3 sk4 st4 n4 a b c :
  WF a -> WF b -> WF c ->
  proj (fst (view_merge sk1 st1 n1 (fst (view_merge sk2 st2 n2 a b)) c)) =
  proj (fst (view_merge sk3 st3 n3 a (fst (view_merge sk4 st4 n4 b c)))).
Proof.
  intros Ha Hb Hc. rewrite !proj_merge by (try apply WF_merge; assumption). apply pjoin_assoc.
Qed.

Theorem proj_merge_idem sk st now a : WF a -> proj (fst (view_merge sk st now a a)) = proj a.
Proof. intros Ha. rewrite proj_merge by assumption. apply pjoin_idem. Qed.

(** any merge expression: WF and proj = join of the leaves *)
Lemma pjoin_all_app l1 l2 : pjoin_all (l1 ++ l2) = pjoin (pjoin_all l1) (pjoin_all l2).
Proof.
  induction l1 as [|v l1 IH]; cbn.
  - rewrite pjoin_empty_l. reflexivity.
  - unfold pjoin_all in *. cbn. rewrite IH, pjoin_assoc. reflexivity.
Qed.

Lemma pjoin_all_perm l1 l2 : l1 ≡ₚ l2 -> pjoin_all l1 = pjoin_all l2.
Proof.
  induction 1 as [|x l l' _ IH|x y l|l l' l'' _ IH1 _ IH2]; unfold pjoin_all in *; cbn.
  - reflexivity.
  - rewrite IH. reflexivity.
  - rewrite <- !pjoin_assoc. rewrite (pjoin_comm (proj y) (proj x)). reflexivity.
  - congruence.
Qed.

Theorem meval_spec e :
  Forall WF (mleaves e) -> WF (meval e) /\ proj (meval e) = pjoin_all (mleaves e).
Proof.
  induction e as [v|sk st now l IHl r IHr]; cbn [mleaves meval]; intros H.
  - apply Forall_inv in H. split; [exact H|]. unfold pjoin_all; cbn. rewrite pjoin_empty_r. reflexivity.
  - apply Forall_app in H as [Hl Hr]. destruct (IHl Hl) as [Wl Pl], (IHr Hr) as [Wr Pr].
    split; [apply WF_merge; assumption|]. rewrite proj_merge by assumption. rewrite Pl, Pr, pjoin_all_app. reflexivity.
Qed.

Theorem merge_order_insensitive e1 e2 :
  Forall WF (mleaves e1) -> mleaves e1 ≡ₚ mleaves e2 -> proj (meval e1) = proj (meval e2).
Proof.
  intros H1 Hp. assert (H2 : Forall WF (mleaves e2)) by (rewrite <- Hp; exact H1).
  rewrite (proj2 (meval_spec e1 H1)), (proj2 (meval_spec e2 H2)). apply pjoin_all_perm. exact Hp.
Qed.

(** what the join of a list of views contains: exactly the ids of the union, each at the newest
    incarnation any of the views has for it *)
Theorem pjoin_all_none l k : pjoin_all l !! k = None <-> (forall v, v ∈ l -> proj v !! k = None).
Proof.
  induction l as [|v l IH]; unfold pjoin_all in *; cbn.
  - rewrite lookup_empty. split; [intros _ v Hv; inversion Hv|reflexivity].
  - rewrite pjoin_lookup. split.
    + intros H w Hw. destruct (proj v !! k) eqn:E1, (foldr _ _ l !! k) eqn:E2; try discriminate.
      apply elem_of_cons in Hw as [->|Hw]; [exact E1|]. apply (proj1 IH eq_refl). exact Hw.
    + intros H. rewrite (H v) by (apply elem_of_cons; auto).
      rewrite (proj2 IH); [reflexivity|]. intros w Hw. apply H. apply elem_of_cons; auto.
Qed.

Theorem pjoin_all_some l k p :
  pjoin_all l !! k = Some p ->
  (exists v, v ∈ l /\ proj v !! k = Some p) /\
  (forall v q, v ∈ l -> proj v !! k = Some q -> inc_lt p q = false).
Proof.
  revert p. induction l as [|v l IH]; unfold pjoin_all in *; cbn; intros p.
  - rewrite lookup_empty. discriminate.
  - rewrite pjoin_lookup. destruct (proj v !! k) as [x|] eqn:E1, (foldr _ _ l !! k) as [y|] eqn:E2; try discriminate.
    + intros [= <-]. destruct (IH y eq_refl) as [(w & Hw & Hwk) Hmax]. split.
      * destruct (inc_max_cases x y) as [->| ->]; [exists v; split; [apply elem_of_cons; auto|exact E1]|
                                                   exists w; split; [apply elem_of_cons; auto|exact Hwk]].
      * intros u q Hu Hq. apply elem_of_cons in Hu as [->|Hu].
        -- rewrite E1 in Hq. injection Hq as <-. apply inc_max_ge_l.
        -- specialize (Hmax u q Hu Hq). pose proof (inc_max_ge_r x y) as Hr.
           destruct (inc_lt (inc_max x y) q) eqn:C; [|reflexivity].
           destruct (inc_lt y q) eqn:D; [discriminate|].
           destruct (inc_lt q y) eqn:F.
           ++ rewrite (inc_lt_trans _ _ _ C F) in Hr. discriminate.
           ++ assert (Eyq : y = q) by (apply inc_lt_total; assumption). subst y. congruence.
    + intros [= <-]. split; [exists v; split; [apply elem_of_cons; auto|exact E1]|].
      intros u q Hu Hq. apply elem_of_cons in Hu as [->|Hu].
      * rewrite E1 in Hq. injection Hq as <-. apply inc_lt_irrefl.
      * pose proof (proj1 (pjoin_all_none l k)) as Hn. unfold pjoin_all in Hn. rewrite (Hn E2 u Hu) in Hq. discriminate.
    + intros [= <-]. destruct (IH y eq_refl) as [(w & Hw & Hwk) Hmax]. split.
      * exists w. split; [apply elem_of_cons; auto|exact Hwk].
      * intros u q Hu Hq. apply elem_of_cons in Hu as [->|Hu]; [congruence|]. apply (Hmax u q Hu Hq).
Qed.

(** * Monotonicity of a merge *)

Theorem merge_keeps_member sk st now v o k s :
  vw_members v !! k = Some s ->
  exists s', vw_members (fst (view_merge sk st now v o)) !! k = Some s' /\
             (s' = s \/ (vw_members o !! k = Some s' /\ isnewer s' s = true)).
Proof.
  intros Hk. rewrite view_merge_members, merge_members_lookup, Hk.
  destruct (vw_members o !! k) as [x|] eqn:Eo; [|exists s; auto].
  destruct (isnewer x s) eqn:N; [exists x; auto|exists s; auto].
Qed.

Theorem merge_no_regression sk st now v o k p :
  WF v -> WF o -> proj v !! k = Some p ->
  exists p', proj (fst (view_merge sk st now v o)) !! k = Some p' /\ inc_lt p' p = false.
Proof.
  intros Hv Ho Hk. rewrite proj_merge by assumption. rewrite pjoin_lookup, Hk.
  destruct (proj o !! k) as [q|]; [exists (inc_max p q); split; [reflexivity|apply inc_max_ge_l]|
                                   exists p; split; [reflexivity|apply inc_lt_irrefl]].
Qed.

Theorem merge_epoch_mono sk st now v o :
  (vw_epoch v <= vw_epoch (fst (view_merge sk st now v o)))%Z /\
  (vw_ts v <= vw_ts (fst (view_merge sk st now v o)))%Z /\
  vw_proto v <= vw_proto (fst (view_merge sk st now v o)).
Proof.
  unfold view_merge, view_merge_gen. destruct (bool_decide _); cbn [fst vw_epoch vw_ts vw_proto]; [lia|].
  destruct (negb _ && negb _); cbn [andb];
    destruct (Z.ltb_spec (vw_epoch v) (vw_epoch o)), (Z.ltb_spec (vw_ts v) (vw_ts o)), (N.ltb_spec (vw_proto v) (vw_proto o)); lia.
Qed.

Lemma CapOK_merge_inner sk st now v o :
  CapOK (fst (view_merge sk st now v o)) ->
  CapOK (set_members v (merge_members (vw_members v) (vw_members o))).
Proof.
  unfold CapOK. rewrite view_merge_members, view_merge_maxent. destruct v; exact (fun H => H).
Qed.

Theorem merge_vv_member_mono sk st now v o k :
  CapOK (fst (view_merge sk st now v o)) ->
  is_Some (vw_members (fst (view_merge sk st now v o)) !! k) ->
  vget (vw_vv v) k <= vget (vw_vv (fst (view_merge sk st now v o))) k.
Proof.
  intros Hcap Hk. destruct (o_empty_dec o) as [H|H].
  - rewrite view_merge_empty by exact H. cbn [fst]. lia.
  - rewrite view_merge_vv by exact H. rewrite vget_merge.
    apply CapOK_merge_inner in Hcap. rewrite view_merge_members in Hk.
    set (v1 := set_members v (merge_members (vw_members v) (vw_members o))) in *.
    assert (E : vw_vv (recompute v1) !! k = vw_vv v !! k).
    { rewrite recompute_vv_keep; [destruct v; reflexivity|exact Hcap|destruct v; exact Hk]. }
    unfold vget at 2. rewrite E. fold (vget (vw_vv v) k). lia.
Qed.

Theorem merge_vv_mono sk st now v o :
  VVin v -> CapOK (fst (view_merge sk st now v o)) ->
  forall k, vget (vw_vv v) k <= vget (vw_vv (fst (view_merge sk st now v o))) k.
Proof.
  intros Hin Hcap k. destruct (vw_vv v !! k) as [c|] eqn:E.
  - apply merge_vv_member_mono; [exact Hcap|].
    destruct (Hin k) as [s Hs]; [eexists; exact E|].
    destruct (merge_keeps_member sk st now v o k s Hs) as (s' & Hs' & _). eexists; exact Hs'.
  - unfold vget at 1. rewrite E. cbn. lia.
Qed.

(** * changed *)

Lemma is_equal_veq a b : is_equal a b = true <-> veq a b.
Proof.
  unfold is_equal. rewrite <- vcompare_equal. destruct (vcompare a b); split; congruence.
Qed.

Lemma merge_inner_vv sk st now v o :
  VVin v -> CapOK (fst (view_merge sk st now v o)) ->
  vw_vv (recompute (set_members v (merge_members (vw_members v) (vw_members o)))) = vw_vv v.
Proof.
  intros Hin Hcap. rewrite recompute_vv_id; [destruct v; reflexivity| |apply CapOK_merge_inner in Hcap; exact Hcap].
  intros k Hk. assert (Hk' : is_Some (vw_vv v !! k)) by (destruct v; exact Hk).
  destruct (Hin k Hk') as [s Hs].
  assert (is_Some (merge_members (vw_members v) (vw_members o) !! k)).
  { rewrite merge_members_lookup, Hs. destruct (vw_members o !! k); eexists; reflexivity. }
  destruct v; assumption.
Qed.

(** changed = true exactly when the members map, the version vector (as a function id -> counter),
    the epoch, the view timestamp or the protocol version differ before/after.  No side condition:
    the merged vector is compared with the vector as it was before recomputeCounts pruned it, so an
    entry dropped by the prune (a key that is no member; truncation to MaxVersionVectorEntries) counts
    as a difference unless the argument view brings exactly the same counter back. *)
Theorem merge_changed_exact sk st now v o :
  let v' := fst (view_merge sk st now v o) in
  snd (view_merge sk st now v o) = true <->
  (vw_members v' <> vw_members v \/ ~ veq (vw_vv v') (vw_vv v) \/ vw_epoch v' <> vw_epoch v \/
   vw_ts v' <> vw_ts v \/ vw_proto v' <> vw_proto v).
Proof.
  cbn zeta.
  destruct (o_empty_dec o) as [H|H].
  - rewrite view_merge_empty by exact H. cbn [fst snd]. split; [discriminate|].
    intros [A|[A|[A|[A|A]]]]; try congruence. exfalso; apply A. intros k; reflexivity.
  - pose proof (view_merge_members sk st now v o) as Hm.
    revert Hm. unfold view_merge, view_merge_gen. rewrite bool_decide_eq_false_2 by exact H.
    cbn [fst snd vw_members vw_vv vw_epoch vw_ts vw_proto]. intros Hm.
    rewrite Hm.
    set (mvv := vmerge _ _).
    set (adopt := negb _ && negb _).
    split.
    + rewrite !orb_true_iff. intros [[[[A|A]|A]|A]|A].
      * left. apply members_changed_neq. exact A.
      * right; left. apply negb_true_iff in A. intros Hq. apply is_equal_veq in Hq. congruence.
      * right; right; left. rewrite A. apply andb_true_iff in A as [_ A]. lia.
      * right; right; right; left. rewrite A. apply andb_true_iff in A as [_ A]. lia.
      * right; right; right; right. rewrite A. lia.
    + intros Hd. apply not_false_iff_true. intros Hf.
      rewrite !orb_false_iff in Hf. destruct Hf as [[[[A B] C] D] E].
      rewrite C, D, E in Hd. apply negb_false_iff, is_equal_veq in B.
      rewrite (members_unchanged_eq _ _ A) in Hd.
      destruct Hd as [X|[X|[X|[X|X]]]]; try (apply X; reflexivity). apply X; exact B.
Qed.

(** the code before the repair differs in nothing but the flag *)
Lemma view_merge_before_fix_fst sk st now v o :
  fst (view_merge_before_fix sk st now v o) = fst (view_merge sk st now v o).
Proof. unfold view_merge_before_fix, view_merge, view_merge_gen. destruct (bool_decide _); reflexivity. Qed.

(** * A merge of a view with itself (or with its own snapshot) changes nothing *)
Theorem merge_self sk st now v :
  let r := view_merge sk st now v (view_snapshot v) in
  vw_members (fst r) = vw_members v /\ veq (vw_vv (fst r)) (vw_vv v) /\
  vw_epoch (fst r) = vw_epoch v /\ vw_ts (fst r) = vw_ts v.
Proof.
  cbn zeta. unfold view_snapshot. split; [|split].
  - rewrite view_merge_members. apply map_eq. intros k. rewrite merge_members_lookup.
    destruct (vw_members v !! k) as [e|]; [rewrite isnewer_irrefl|]; reflexivity.
  - destruct (o_empty_dec v) as [H|H].
    + rewrite view_merge_empty by exact H. intros k; reflexivity.
    + rewrite view_merge_vv by exact H. intros k. rewrite vget_merge.
      pose proof (vget_recompute_le (set_members v (merge_members (vw_members v) (vw_members v))) k) as L.
      replace (vw_vv (set_members v (merge_members (vw_members v) (vw_members v)))) with (vw_vv v) in L by (destruct v; reflexivity).
      lia.
  - unfold view_merge, view_merge_gen. destruct (bool_decide _); cbn [fst vw_epoch vw_ts]; [split; reflexivity|].
    rewrite !Z.ltb_irrefl, !andb_false_r. split; reflexivity.
Qed.

(** * Witnesses: clauses that are false of the faithful model without their side condition *)

Definition ida : list N := [97].
Definition idb : list N := [98].
Definition mk (id : list N) (gen : Z) (lc : N) (st ts : Z) : nstate := NState id id gen ts 0 st lc ts.

(** (1) same incarnation, different status: each side keeps its own state, so the members maps of
    merge(a,b) and merge(b,a) differ although both views are reachable (status flips are in place) *)
Definition w_up : view := view_inc (view_add (new_view 100 0) (mk ida 1 1 st_up 100)) ida.
Definition w_suspect : view := view_set_status w_up ida st_suspect.

Lemma w_reach : reach w_up /\ reach w_suspect.
Proof.
  assert (R : reach w_up).
  { unfold w_up. apply R_inc; [apply R_join; [apply R_new|split; cbn; lia]|vm_compute; eexists; reflexivity]. }
  split; [exact R|apply R_status; exact R].
Qed.

Lemma full_state_comm_refuted :
  exists a b, reach a /\ reach b /\
    vw_members (fst (view_merge 0 0 0 a b)) <> vw_members (fst (view_merge 0 0 0 b a)) /\
    snd (view_merge 0 0 0 a b) = false /\ snd (view_merge 0 0 0 b a) = false.
Proof.
  exists w_up, w_suspect. destruct w_reach as [R1 R2]. repeat split; try assumption.
  intros H. apply (f_equal (fun m => ns_status <$> m !! ida)) in H. vm_compute in H. discriminate.
Qed.

(** (2) MaxVersionVectorEntries smaller than the member count: the prune in recomputeCounts drops a
    member's entry and a later merge lowers it.  The merge reports changed = true (before the repair
    of the flag it reported false). All three views are built by the code's own operations. *)
Definition w_cap_a : view := view_inc (view_add (new_view 100 1) (mk ida 1 1 st_up 100)) ida.
Definition w_cap_b : view := view_inc (view_add (new_view 100 1) (mk idb 1 1 st_up 100)) idb.
Definition w_cap_ab : view := fst (view_merge 0 0 0 w_cap_a w_cap_b).

Lemma w_cap_reach : reach w_cap_a /\ reach w_cap_b /\ reach w_cap_ab.
Proof.
  assert (Ra : reach w_cap_a).
  { apply R_inc; [apply R_join; [apply R_new|split; cbn; lia]|vm_compute; eexists; reflexivity]. }
  assert (Rb : reach w_cap_b).
  { apply R_inc; [apply R_join; [apply R_new|split; cbn; lia]|vm_compute; eexists; reflexivity]. }
  repeat split; try assumption. apply R_merge; assumption.
Qed.

Lemma vv_entry_lowered_when_cap_exceeded :
  exists v o k, reach v /\ reach o /\ is_Some (vw_members v !! k) /\
    vget (vw_vv (fst (view_merge 0 0 0 v o))) k < vget (vw_vv v) k /\
    snd (view_merge 0 0 0 v o) = true /\
    snd (view_merge_before_fix 0 0 0 v o) = false /\
    ~ CapOK (fst (view_merge 0 0 0 v o)).
Proof.
  exists w_cap_ab, w_cap_a, idb. destruct w_cap_reach as (Ra & Rb & Rab).
  split; [exact Rab|]. split; [exact Ra|]. split; [vm_compute; eexists; reflexivity|].
  split; [vm_compute; reflexivity|]. split; [vm_compute; reflexivity|]. split; [vm_compute; reflexivity|].
  unfold CapOK. vm_compute. intros H. apply H. reflexivity.
Qed.

(** (3) a version-vector key that is not a member (RemoveMember(self); IncrementVersion(self), the
    ForceMemberDown path for the node's own id): the prune drops it.  No member's entry is lowered by
    that, and the merge reports changed = true; before the repair of the flag it reported false. *)
Definition w_nm : view :=
  view_inc (view_remove (view_inc (view_add (view_add (new_view 100 0) (mk ida 1 1 st_up 100)) (mk idb 1 1 st_up 100)) idb) idb) idb.
Definition w_nm_o : view := view_add (new_view 100 0) (mk ida 1 1 st_up 100).

Lemma nonmember_key_dropped_is_reported :
  WF w_nm /\ WF w_nm_o /\ ~ VVin w_nm /\ vw_members w_nm !! idb = None /\
  vget (vw_vv (fst (view_merge 0 0 0 w_nm w_nm_o))) idb < vget (vw_vv w_nm) idb /\
  snd (view_merge 0 0 0 w_nm w_nm_o) = true /\
  snd (view_merge_before_fix 0 0 0 w_nm w_nm_o) = false.
Proof.
  split; [|split; [|split; [|split; [|split; [|split]]]]].
  - unfold w_nm. apply WF_inc, WF_remove, WF_inc, WF_add; [apply WF_add; [apply WF_new|split; cbn; lia]|split; cbn; lia].
  - unfold w_nm_o. apply WF_add; [apply WF_new|split; cbn; lia].
  - intros H. destruct (H idb) as [s Hs]; [vm_compute; eexists; reflexivity|]. vm_compute in Hs. discriminate.
  - vm_compute. reflexivity.
  - vm_compute. reflexivity.
  - vm_compute. reflexivity.
  - vm_compute. reflexivity.
Qed.

(** (4) a wire-decoded state with logical clock 0 replaces a newer incarnation on timestamp *)
Definition w_lc5 : view := view_add (new_view 100 0) (mk ida 1 5 st_up 100).
Definition w_lc0 : view := view_add (new_view 100 0) (mk ida 1 0 st_up 200).
Lemma regression_without_wf :
  WF w_lc5 /\ ~ WF w_lc0 /\
  proj w_lc5 !! ida = Some (1%Z, 5) /\ proj (fst (view_merge 0 0 0 w_lc5 w_lc0)) !! ida = Some (1%Z, 0).
Proof.
  split; [|split; [|split]].
  - apply WF_add; [apply WF_new|split; cbn; lia].
  - intros H. destruct (H ida (mk ida 1 0 st_up 200)) as [_ [_ Hl]]; [vm_compute; reflexivity|]. cbn in Hl. lia.
  - vm_compute. reflexivity.
  - vm_compute. reflexivity.
Qed.

(** (5) PreferLocal on concurrent vectors: the epoch of merge(a,b) and merge(b,a) differ (the
    property only claims order-insensitivity of the membership) *)
Definition w_ep (id : list N) (ep : Z) : view :=
  let v := view_inc (view_add (new_view 100 0) (mk id 1 1 st_up 100)) id in
  View ep (vw_ts v) (vw_members v) (vw_healthy v) (vw_unhealthy v) (vw_quorum v) (vw_vv v) (vw_proto v) (vw_maxent v).
Lemma epoch_not_commutative_prefer_local :
  vw_epoch (fst (view_merge 0 1 0 (w_ep ida 1) (w_ep idb 2))) = 1%Z /\
  vw_epoch (fst (view_merge 0 1 0 (w_ep idb 2) (w_ep ida 1))) = 2%Z /\
  vw_epoch (fst (view_merge 0 0 0 (w_ep ida 1) (w_ep idb 2))) = 2%Z.
Proof. vm_compute. auto. Qed.

(** epoch under TakeMax / PreferRemote without the skew test: the maximum *)
Theorem merge_epoch_max st now v o :
  st <> 1%Z -> vw_members o <> ∅ ->
  vw_epoch (fst (view_merge 0 st now v o)) = Z.max (vw_epoch v) (vw_epoch o).
Proof.
  intros Hst Hne. unfold view_merge, view_merge_gen.
  rewrite bool_decide_eq_false_2 by (intros H; apply map_size_empty_inv in H; contradiction).
  cbn [fst vw_epoch]. unfold skew_skip. cbn [andb negb Z.ltb Z.compare].
  replace (st =? 1)%Z with false by lia. rewrite andb_false_r. cbn [negb andb].
  destruct (Z.ltb_spec (vw_epoch v) (vw_epoch o)); lia.
Qed.

(** non-vacuity: a reachable pair with different members, a restart, concurrent vectors *)
Definition ex_a : view :=
  view_inc (view_add (view_inc (view_add (new_view 100 0) (mk ida 1 1 st_up 100)) ida) (mk idb 1 1 st_up 101)) ida.
Definition ex_b : view :=
  view_inc (snd (view_rejoin (mk idb 1 1 st_up 300) (view_add (new_view 200 0) (mk idb 1 1 st_up 101)) 300)) idb.
Lemma ex_reach : reach ex_a /\ reach ex_b.
Proof.
  split.
  - unfold ex_a. apply R_inc; [apply R_join; [apply R_inc; [apply R_join; [apply R_new|split; cbn; lia]|vm_compute; eexists; reflexivity]|split; cbn; lia]|vm_compute; eexists; reflexivity].
  - unfold ex_b. apply R_inc; [apply R_rejoin; [apply R_join; [apply R_new|split; cbn; lia]|split; cbn; lia]|vm_compute; eexists; reflexivity].
Qed.
Lemma ex_capok : CapOK (fst (view_merge 0 0 0 ex_a ex_b)).
Proof. unfold CapOK. vm_compute. discriminate. Qed.
Lemma ex_merge_values :
  proj (fst (view_merge 0 0 0 ex_a ex_b)) !! idb = Some (2%Z, 2) /\
  proj (fst (view_merge 0 0 0 ex_a ex_b)) !! ida = Some (1%Z, 1) /\
  snd (view_merge 0 0 0 ex_a ex_b) = true /\
  is_concurrent (vw_vv ex_a) (vw_vv ex_b) = true.
Proof. vm_compute. auto. Qed.

(** * The version vector of a merge does not depend on the order, the strategy or the skew setting *)
Lemma VVin_no_members v : VVin v -> vw_members v = ∅ -> vw_vv v = ∅.
Proof.
  intros Hin He. apply map_eq. intros k. rewrite lookup_empty.
  destruct (vw_vv v !! k) as [c|] eqn:E; [|reflexivity].
  destruct (Hin k) as [s Hs]; [eexists; exact E|]. rewrite He, lookup_empty in Hs. discriminate.
Qed.

Lemma vmerge_empty_l (a : vv) : vmerge ∅ a = a.
Proof.
  rewrite vmerge_union. apply map_eq. intros k. unfold vmax_union. rewrite lookup_union_with, lookup_empty.
  destruct (a !! k); reflexivity.
Qed.

Theorem merge_vv_value sk st now v o :
  VVin v -> CapOK (fst (view_merge sk st now v o)) -> vw_members o <> ∅ ->
  vw_vv (fst (view_merge sk st now v o)) = vmerge (vw_vv v) (vw_vv o).
Proof.
  intros Hin Hcap Hne. rewrite view_merge_vv by (intros H; apply map_size_empty_inv in H; contradiction).
  rewrite (merge_inner_vv sk st now) by assumption. reflexivity.
Qed.

Theorem merge_vv_comm sk st now sk' st' now' a b :
  VVin a -> VVin b ->
  CapOK (fst (view_merge sk st now a b)) -> CapOK (fst (view_merge sk' st' now' b a)) ->
  vw_vv (fst (view_merge sk st now a b)) = vw_vv (fst (view_merge sk' st' now' b a)).
Proof.
  intros Ha Hb Ca Cb.
  destruct (o_empty_dec b) as [Eb|Eb]; destruct (o_empty_dec a) as [Ea|Ea].
  - rewrite !view_merge_empty by assumption. cbn [fst]. rewrite (VVin_no_members a), (VVin_no_members b) by assumption. reflexivity.
  - rewrite (view_merge_empty sk st now a b) by assumption. cbn [fst].
    rewrite merge_vv_value; [|assumption|assumption|intros H; rewrite H, map_size_empty in Ea; congruence].
    rewrite (VVin_no_members b) by assumption. rewrite vmerge_empty_l. reflexivity.
  - rewrite (view_merge_empty sk' st' now' b a) by assumption. cbn [fst].
    rewrite merge_vv_value; [|assumption|assumption|intros H; rewrite H, map_size_empty in Eb; congruence].
    rewrite (VVin_no_members a) by assumption. rewrite vmerge_empty_l. reflexivity.
  - assert (Na : vw_members a <> ∅) by (intros H; rewrite H, map_size_empty in Ea; congruence).
    assert (Nb : vw_members b <> ∅) by (intros H; rewrite H, map_size_empty in Eb; congruence).
    rewrite (merge_vv_value sk st now a b), (merge_vv_value sk' st' now' b a) by assumption.
    apply vmerge_comm.
Qed.

(** the direction the property asks for - every pair of views, no side condition *)
Theorem merge_changed_sound sk st now v o :
  vw_members (fst (view_merge sk st now v o)) <> vw_members v \/
  (exists k, vget (vw_vv (fst (view_merge sk st now v o))) k <> vget (vw_vv v) k) ->
  snd (view_merge sk st now v o) = true.
Proof.
  intros Hd. apply (merge_changed_exact sk st now v o).
  destruct Hd as [Hd|[k Hk]]; [left; exact Hd|right; left]. intros Hq. apply Hk. apply Hq.
Qed.

Lemma merge_changed_exact_vget sk st now v o :
  snd (view_merge sk st now v o) = true <->
  (vw_members (fst (view_merge sk st now v o)) <> vw_members v \/
   ~ (forall k, vget (vw_vv (fst (view_merge sk st now v o))) k = vget (vw_vv v) k) \/
   vw_epoch (fst (view_merge sk st now v o)) <> vw_epoch v \/
   vw_ts (fst (view_merge sk st now v o)) <> vw_ts v \/
   vw_proto (fst (view_merge sk st now v o)) <> vw_proto v).
Proof. exact (merge_changed_exact sk st now v o). Qed.

(** regression: the code before the repair produced the same view and returned changed = false on
    both recorded witnesses (cap truncation, reachable; a vector key that is no member) *)
Lemma changed_unsound_before_fix :
  (forall sk st now v o, fst (view_merge_before_fix sk st now v o) = fst (view_merge sk st now v o)) /\
  (exists v o k, reach v /\ reach o /\
     vget (vw_vv (fst (view_merge 0 0 0 v o))) k <> vget (vw_vv v) k /\
     snd (view_merge 0 0 0 v o) = true /\ snd (view_merge_before_fix 0 0 0 v o) = false) /\
  (WF w_nm /\ WF w_nm_o /\ ~ VVin w_nm /\ vw_members w_nm !! idb = None /\
   vget (vw_vv (fst (view_merge 0 0 0 w_nm w_nm_o))) idb < vget (vw_vv w_nm) idb /\
   snd (view_merge 0 0 0 w_nm w_nm_o) = true /\ snd (view_merge_before_fix 0 0 0 w_nm w_nm_o) = false).
Proof.
  split; [exact view_merge_before_fix_fst|]. split; [|exact nonmember_key_dropped_is_reported].
  destruct vv_entry_lowered_when_cap_exceeded as (v & o & k & H1 & H2 & H3 & H4 & H5 & H6 & _).
  exists v, o, k. split; [exact H1|]. split; [exact H2|]. split; [lia|]. split; [exact H5|exact H6].
Qed.

(** * Packaged statements used by Properties/C17.v *)

Lemma isnewer_strict_order :
  (forall s, isnewer s s = false) /\
  (forall n o, isnewer n o = true -> isnewer o n = false) /\
  (forall a b c, ns_id a = ns_id b -> ns_id b = ns_id c -> wf_state a -> wf_state b -> wf_state c ->
                 isnewer a b = true -> isnewer b c = true -> isnewer a c = true).
Proof. split; [exact isnewer_irrefl|split; [exact isnewer_asym|exact isnewer_wf_trans]]. Qed.

Lemma isnewer_cycle_exists :
  exists a b c, ns_id a = ns_id b /\ ns_id b = ns_id c /\
    isnewer a b = true /\ isnewer b c = true /\ isnewer c a = true.
Proof. exists cyc_a, cyc_b, cyc_c. vm_compute. auto. Qed.

Lemma wf_invariant :
  (forall id addr now, wf_state (new_node_state id addr now)) /\
  (forall s st, wf_state s -> wf_state (ns_set_status s st)) /\
  (forall now maxent, WF (new_view now maxent) /\ VVin (new_view now maxent)) /\
  (forall v s, WF v -> wf_state s -> WF (view_add v s)) /\
  (forall v s, VVin v -> VVin (view_add v s)) /\
  (forall v id, WF v -> WF (view_remove v id)) /\
  (forall v id, VVin v -> vw_members (view_remove v id) <> ∅ -> VVin (view_remove v id)) /\
  (forall v id, WF v -> WF (view_inc v id)) /\
  (forall v id, VVin v -> is_Some (vw_members v !! id) -> VVin (view_inc v id)) /\
  (forall v id st, WF v -> WF (view_set_status v id st)) /\
  (forall v id st, VVin v -> VVin (view_set_status v id st)) /\
  (forall self v now, WF v -> wf_state self ->
      wf_state (fst (view_rejoin self v now)) /\ WF (snd (view_rejoin self v now))) /\
  (forall self v now, VVin v -> VVin (snd (view_rejoin self v now))) /\
  (forall sk st now v o, WF v -> WF o -> WF (fst (view_merge sk st now v o))) /\
  (forall sk st now v o, VVin v -> VVin o -> VVin (fst (view_merge sk st now v o))).
Proof.
  split; [exact wf_new_node_state|]. split; [exact wf_set_status|].
  split; [intros now maxent; split; [apply WF_new|apply VVin_new]|].
  split; [exact WF_add|]. split; [exact VVin_add|]. split; [exact WF_remove|]. split; [exact VVin_remove|].
  split; [exact WF_inc|]. split; [exact VVin_inc|]. split; [exact WF_set_status|]. split; [exact VVin_set_status|].
  split; [intros self v now Hv Hs; split; [apply wf_rejoin_state; assumption|apply WF_rejoin; assumption]|].
  split; [exact VVin_rejoin|]. split; [exact WF_merge|exact VVin_merge].
Qed.

Lemma proj_merge_pointwise sk st now v o k :
  WF v -> WF o ->
  proj (fst (view_merge sk st now v o)) !! k =
  match proj v !! k, proj o !! k with
  | Some x, Some y => Some (inc_max x y)
  | Some x, None => Some x
  | None, Some y => Some y
  | None, None => None
  end.
Proof. intros Hv Ho. rewrite proj_merge by assumption. apply pjoin_lookup. Qed.

Lemma meval_union_newest e k :
  Forall WF (mleaves e) ->
  (proj (meval e) !! k = None <-> (forall v, v ∈ mleaves e -> proj v !! k = None)) /\
  (forall p, proj (meval e) !! k = Some p ->
     (exists v, v ∈ mleaves e /\ proj v !! k = Some p) /\
     (forall v q, v ∈ mleaves e -> proj v !! k = Some q -> inc_lt p q = false)).
Proof.
  intros H. rewrite (proj2 (meval_spec e H)). split; [apply pjoin_all_none|intros p; apply pjoin_all_some].
Qed.

Lemma vv_entry_monotone_refuted :
  exists v o k, reach v /\ reach o /\ is_Some (vw_members v !! k) /\
    vget (vw_vv (fst (view_merge 0 0 0 v o))) k < vget (vw_vv v) k.
Proof.
  destruct vv_entry_lowered_when_cap_exceeded as (v & o & k & H1 & H2 & H3 & H4 & _).
  exists v, o, k. auto.
Qed.
