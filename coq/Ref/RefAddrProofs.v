(** What a valid address / host / port / path consists of (RefModel.v): the splitting functions reassemble, a
    valid address contains no '/', a valid path consists of printable ASCII. *)
From Coq Require Import List NArith Bool Lia Arith.
From Coq Require Import ZifyN ZifyNat ZifyBool.
From Vivid Require Import Ref.RefModel Ref.RefTrimProofs.
Import ListNotations.
Local Open Scope N_scope.

Lemma forallb_imp {A} (f g : A -> bool) l : (forall x, f x = true -> g x = true) -> forallb f l = true -> forallb g l = true.
Proof. intros H. rewrite !forallb_forall. auto. Qed.

Lemma has_byte_forallb c (P : N -> bool) l : P c = false -> forallb P l = true -> has_byte c l = false.
Proof.
  intros Hc. unfold has_byte. induction l as [|x l IH]; [reflexivity|]. cbn [existsb forallb]. intros H.
  apply andb_true_iff in H as [Hx Hl]. rewrite (IH Hl), orb_false_r. apply N.eqb_neq. intros ->. congruence.
Qed.

Lemma has_byte_false_forallb c l : has_byte c l = false <-> forallb (fun x => negb (c =? x)) l = true.
Proof.
  unfold has_byte. induction l as [|x l IH]; [cbn; tauto|]. cbn [existsb forallb].
  rewrite orb_false_iff, andb_true_iff, IH, negb_true_iff. tauto.
Qed.

(** * splitting *)
Lemma split_last_colon_spec s a b : split_last_colon s = Some (a, b) -> s = a ++ 58 :: b /\ has_byte 58 b = false.
Proof.
  revert a b. induction s as [|c r IH]; intros a b; cbn [split_last_colon]; [discriminate|].
  destruct (split_last_colon r) as [[a' b']|] eqn:E.
  - intros H. injection H as <- <-. destruct (IH _ _ eq_refl) as [-> Hb]. split; [reflexivity|exact Hb].
  - destruct (c =? 58) eqn:Ec; [|discriminate]. intros H. injection H as <- <-. apply N.eqb_eq in Ec. subst c.
    split; [reflexivity|].
    (* no colon in r, otherwise split_last_colon r would have found it *)
    clear IH. induction r as [|d r IHr]; [reflexivity|]. cbn [split_last_colon] in E.
    destruct (split_last_colon r) as [[? ?]|]; [discriminate|]. destruct (d =? 58) eqn:Ed; [discriminate|].
    unfold has_byte. cbn [existsb]. rewrite N.eqb_sym, Ed. exact (IHr eq_refl).
Qed.

Lemma split_first_spec x s a b : split_first x s = Some (a, b) -> s = a ++ x :: b /\ has_byte x a = false.
Proof.
  revert a b. induction s as [|c r IH]; intros a b; cbn [split_first]; [discriminate|].
  destruct (c =? x) eqn:Ec.
  - intros H. injection H as <- <-. apply N.eqb_eq in Ec. subst c. split; reflexivity.
  - destruct (split_first x r) as [[a' b']|]; [|discriminate]. intros H. injection H as <- <-.
    destruct (IH _ _ eq_refl) as [-> Ha]. split; [reflexivity|]. unfold has_byte. cbn [existsb].
    rewrite N.eqb_sym, Ec. exact Ha.
Qed.

(** net.SplitHostPort succeeded: the address is host:port or [host]:port *)
Lemma split_host_port_spec s h p :
  split_host_port s = Some (h, p) -> s = h ++ 58 :: p \/ s = 91 :: h ++ 93 :: 58 :: p.
Proof.
  unfold split_host_port. destruct (split_last_colon s) as [[pre port]|] eqn:E; [|discriminate].
  apply split_last_colon_spec in E as [Es _].
  assert (Hplain : (if has_byte 58 pre then None else if has_byte 91 s then None else if has_byte 93 s then None else Some (pre, port)) = Some (h, p) ->
                   s = h ++ 58 :: p).
  { destruct (has_byte 58 pre); [discriminate|]. destruct (has_byte 91 s); [discriminate|]. destruct (has_byte 93 s); [discriminate|].
    intros H. injection H as <- <-. exact Es. }
  destruct s as [|c rest]; [intros H; left; exact (Hplain H)|].
  destruct (N.eq_dec c 91) as [->|Hc].
  - destruct (split_first 93 rest) as [[host after]|] eqn:E2; [|discriminate].
    apply split_first_spec in E2 as [Er _].
    destruct after as [|d p']; [discriminate|]. destruct (N.eq_dec d 58) as [->|Hd].
    + destruct (has_byte 58 p'); [discriminate|]. destruct (has_byte 91 rest); [discriminate|].
      destruct (has_byte 93 (58 :: p')); [discriminate|]. intros H. injection H as <- <-. right. rewrite Er. reflexivity.
    + intros H. exfalso. revert H.
      destruct d as [|d]; [discriminate|]. do 6 (destruct d as [d|d|]; try discriminate). congruence.
  - intros H. left. apply Hplain. revert H.
    destruct c as [|c]; [exact (fun H => H)|]. do 7 (destruct c as [c|c|]; try exact (fun H => H)). congruence.
Qed.

(** * characters of IPs, domains, ports *)
Definition ipc (c : N) : bool := is_hexdig c || (c =? 58) || (c =? 46).

Lemma ip4_fields_chars s : forall v d pos st, ip4_fields s v d pos st = true -> forallb (fun c => is_digit c || (c =? 46)) s = true.
Proof.
  induction s as [|c r IH]; intros v d pos st; [reflexivity|]. cbn [ip4_fields forallb].
  destruct (is_digit c) eqn:Ed.
  - destruct ((d =? 1) && (v =? 0)); [discriminate|]. destruct (255 <? v * 10 + (c - 48)); [discriminate|].
    intros H. rewrite (IH _ _ _ _ H). reflexivity.
  - destruct (c =? 46) eqn:E46; [|discriminate]. destruct st; [discriminate|]. destruct r as [|c' r']; [discriminate|].
    destruct (pos =? 3); [discriminate|]. intros H. rewrite (IH _ _ _ _ H). reflexivity.
Qed.

Lemma digit_hex c : is_digit c = true -> is_hexdig c = true.
Proof. unfold is_hexdig. intros ->. reflexivity. Qed.

Lemma ip4_ipc s v d pos st : ip4_fields s v d pos st = true -> forallb ipc s = true.
Proof.
  intros H. apply ip4_fields_chars in H. revert H. apply forallb_imp. intros c Hc. unfold ipc.
  apply orb_true_iff in Hc as [Hc|Hc]; [rewrite (digit_hex _ Hc); reflexivity|rewrite Hc; apply orb_true_r].
Qed.

Lemma span_hex_spec s : forall h r, span_hex s = (h, r) -> s = h ++ r /\ forallb is_hexdig h = true.
Proof.
  induction s as [|c s IH]; intros h r; cbn [span_hex].
  - intros H. injection H as <- <-. split; reflexivity.
  - destruct (is_hexdig c) eqn:Ec.
    + destruct (span_hex s) as [h' t] eqn:E. intros H. injection H as <- <-. destruct (IH _ _ eq_refl) as [-> Hh].
      split; [reflexivity|]. cbn. rewrite Ec. exact Hh.
    + intros H. injection H as <- <-. split; reflexivity.
Qed.

Lemma ip6_loop_chars : forall fuel i ell s i' ell' rest,
  ip6_loop fuel i ell s = Some (i', ell', rest) -> exists used, s = used ++ rest /\ forallb ipc used = true.
Proof.
  induction fuel as [|fuel IH]; intros i ell s i' ell' rest; cbn [ip6_loop].
  - intros H. injection H as <- <- <-. exists []. split; reflexivity.
  - destruct (span_hex s) as [h t] eqn:Es. apply span_hex_spec in Es as [-> Hh].
    assert (Hhc : forallb ipc h = true).
    { revert Hh. apply forallb_imp. intros c Hc. unfold ipc. rewrite Hc. reflexivity. }
    destruct (4 <? N.of_nat (length h)); [discriminate|]. destruct (N.of_nat (length h) =? 0); [discriminate|].
    destruct t as [|c t1].
    { intros H. injection H as <- <- <-. exists h. split; [reflexivity|exact Hhc]. }
    destruct (N.eq_dec c 46) as [->|H46].
    { destruct (negb ell && negb (i =? 12)); [discriminate|]. destruct (16 <? i + 4); [discriminate|].
      destruct (ip4_fields (h ++ 46 :: t1) 0 0 0 true) eqn:E4; [|discriminate].
      intros H. injection H as <- <- <-. exists (h ++ 46 :: t1). split; [rewrite app_nil_r; reflexivity|].
      exact (ip4_ipc _ _ _ _ _ E4). }
    destruct (N.eq_dec c 58) as [->|H58].
    { destruct t1 as [|c2 t2]; [discriminate|].
      destruct (N.eq_dec c2 58) as [->|H58'].
      - destruct ell; [discriminate|]. destruct t2 as [|c3 t3].
        + intros H. injection H as <- <- <-. exists (h ++ [58; 58]). split; [rewrite <- app_assoc; reflexivity|].
          rewrite forallb_app, Hhc. reflexivity.
        + intros H. destruct (IH _ _ _ _ _ _ H) as [used [E F]]. exists (h ++ 58 :: 58 :: used). split.
          * rewrite <- app_assoc. cbn. rewrite E. reflexivity.
          * rewrite forallb_app, Hhc. cbn. exact F.
      - intros H.
        assert (H' : ip6_loop fuel (i + 2) ell (c2 :: t2) = Some (i', ell', rest)).
        { revert H. destruct c2 as [|c2]; [exact (fun H => H)|]. do 6 (destruct c2 as [c2|c2|]; try exact (fun H => H)). congruence. }
        destruct (IH _ _ _ _ _ _ H') as [used [E F]]. exists (h ++ 58 :: used). split.
        + rewrite <- app_assoc. cbn. rewrite E. reflexivity.
        + rewrite forallb_app, Hhc. cbn. exact F. }
    intros H. exfalso. revert H.
    destruct c as [|c]; [discriminate|]. do 6 (destruct c as [c|c|]; try discriminate); congruence.
Qed.

Lemma ip6_finish_rest r : ip6_finish r = true -> exists i ell, r = Some (i, ell, []).
Proof.
  destruct r as [[[i ell] rest]|]; [|discriminate]. destruct rest; [|discriminate]. intros _. exists i, ell. reflexivity.
Qed.

Lemma parse_ip6_chars s : parse_ip6 s = true -> forallb ipc s = true.
Proof.
  unfold parse_ip6. destruct (has_byte 37 s); [discriminate|].
  assert (G : forall ell0 t, ip6_finish (ip6_loop 8 0 ell0 t) = true -> forallb ipc t = true).
  { intros ell0 t H. apply ip6_finish_rest in H as [i [ell H]]. apply ip6_loop_chars in H as [used [-> F]].
    rewrite app_nil_r. exact F. }
  destruct s as [|c1 s1]; [intros H; exact (G _ _ H)|].
  destruct (N.eq_dec c1 58) as [->|H1].
  - destruct s1 as [|c2 s2]; [intros H; exact (G _ _ H)|].
    destruct (N.eq_dec c2 58) as [->|H2].
    + destruct s2 as [|c3 s3]; [reflexivity|]. intros H. change (forallb ipc (58 :: 58 :: c3 :: s3)) with (forallb ipc (c3 :: s3)). exact (G _ _ H).
    + intros H. apply (G false). revert H.
      destruct c2 as [|c2]; [exact (fun H => H)|]. do 6 (destruct c2 as [c2|c2|]; try exact (fun H => H)). congruence.
  - intros H. apply (G false). revert H.
    destruct c1 as [|c1]; [exact (fun H => H)|]. do 6 (destruct c1 as [c1|c1|]; try exact (fun H => H)). congruence.
Qed.

Lemma parse_ip_chars s : parse_ip s = true -> forallb ipc s = true.
Proof.
  unfold parse_ip. destruct (ip_kind s =? 4).
  - unfold parse_ip4. apply ip4_ipc.
  - destruct (ip_kind s =? 6); [apply parse_ip6_chars|discriminate].
Qed.

(** bytes of a domain name: ASCII letters, digits, '-', '.', and the bytes of U+017F / U+212A *)
Definition domc (c : N) : bool :=
  is_alnum c || (c =? 45) || (c =? 46) || (c =? 197) || (c =? 191) || (c =? 226) || (c =? 132) || (c =? 170).

Lemma dom_tokens_chars : forall (n : nat) s ts, (length s <= n)%nat -> dom_tokens s = Some ts -> forallb domc s = true.
Proof.
  induction n as [|n IH]; intros s ts Hn.
  - destruct s; [reflexivity|cbn in Hn; lia].
  - destruct s as [|a r]; [reflexivity|]. cbn [dom_tokens].
    assert (Hrec : forall r' (t' : option (list dtok)) k, (length r' <= n)%nat -> option_map (cons k) (dom_tokens r') = Some ts -> forallb domc r' = true).
    { intros r' t' k Hl H. destruct (dom_tokens r') as [ts'|] eqn:E; [|discriminate]. exact (IH _ _ Hl E). }
    destruct (is_alnum a) eqn:Ea.
    { intros H. cbn [forallb]. unfold domc at 1. rewrite Ea. cbn. apply (Hrec r None DA); [cbn in Hn; lia|exact H]. }
    destruct (a =? 45) eqn:E45.
    { intros H. cbn [forallb]. unfold domc at 1. rewrite E45, !orb_true_r. cbn. apply (Hrec r None DH); [cbn in Hn; lia|exact H]. }
    destruct (a =? 46) eqn:E46.
    { intros H. cbn [forallb]. unfold domc at 1. rewrite E46, !orb_true_r. cbn. apply (Hrec r None DD); [cbn in Hn; lia|exact H]. }
    destruct r as [|b r2]; [discriminate|].
    destruct ((a =? 197) && (b =? 191)) eqn:E2.
    { intros H. apply andb_true_iff in E2 as [Ea2 Eb2]. apply N.eqb_eq in Ea2, Eb2. subst a b. cbn [forallb].
      change (domc 197) with true. change (domc 191) with true. cbn. apply (Hrec r2 None DA); [cbn in Hn; lia|exact H]. }
    destruct r2 as [|c r3]; [discriminate|].
    destruct ((a =? 226) && (b =? 132) && (c =? 170)) eqn:E3; [|discriminate].
    intros H. apply andb_true_iff in E3 as [E3 Ec3]. apply andb_true_iff in E3 as [Ea3 Eb3].
    apply N.eqb_eq in Ea3, Eb3, Ec3. subst a b c. cbn [forallb].
    change (domc 226) with true. change (domc 132) with true. change (domc 170) with true. cbn.
    apply (Hrec r3 None DA); [cbn in Hn; lia|exact H].
Qed.

Lemma is_domain_chars s : is_domain s = true -> forallb domc s = true.
Proof.
  unfold is_domain. intros H. apply andb_true_iff in H as [_ H].
  destruct (dom_tokens s) as [ts|] eqn:E; [|discriminate]. exact (dom_tokens_chars _ _ _ (le_n _) E).
Qed.

Lemma is_domain_nonempty s : is_domain s = true -> s <> [].
Proof. intros H ->. discriminate. Qed.

Lemma is_valid_port_chars p : is_valid_port p = true -> forallb (fun c => is_digit c || (c =? 43)) p = true.
Proof.
  unfold is_valid_port.
  assert (G : forall ds, match ds with [] => false | _ => forallb is_digit ds && (1 <=? dec_val ds 0) && (dec_val ds 0 <=? 65535) end = true ->
                         forallb (fun c => is_digit c || (c =? 43)) ds = true).
  { intros ds H. destruct ds; [discriminate|]. apply andb_true_iff in H as [H _]. apply andb_true_iff in H as [H _].
    revert H. apply forallb_imp. intros c ->. reflexivity. }
  destruct p as [|c r]; [discriminate|]. destruct (N.eq_dec c 43) as [->|Hc].
  - intros H. cbn [forallb]. rewrite (G _ H). reflexivity.
  - intros H. apply G. revert H.
    destruct c as [|c]; [exact (fun H => H)|]. do 6 (destruct c as [c|c|]; try exact (fun H => H)). congruence.
Qed.

(** * no '/' in a valid host, port, address *)
Lemma ip_no_slash s : parse_ip s = true -> has_byte 47 s = false.
Proof. intros H. apply (has_byte_forallb 47 ipc); [reflexivity|apply parse_ip_chars, H]. Qed.
Lemma domain_no_slash s : is_domain s = true -> has_byte 47 s = false.
Proof. intros H. apply (has_byte_forallb 47 domc); [reflexivity|apply is_domain_chars, H]. Qed.
Lemma domain_no_colon s : is_domain s = true -> has_byte 58 s = false.
Proof. intros H. apply (has_byte_forallb 58 domc); [reflexivity|apply is_domain_chars, H]. Qed.
Lemma host_no_slash h : is_valid_host h = true -> has_byte 47 h = false.
Proof.
  unfold is_valid_host. destruct h; [discriminate|]. intros H. apply orb_true_iff in H as [H|H];
    [apply ip_no_slash, H|apply domain_no_slash, H].
Qed.
Lemma port_no_slash p : is_valid_port p = true -> has_byte 47 p = false.
Proof. intros H. apply (has_byte_forallb 47 (fun c => is_digit c || (c =? 43))); [reflexivity|apply is_valid_port_chars, H]. Qed.

(** NormalizeAddress = a check of the trimmed string, which is returned unchanged *)
Definition addr_core (a : bytes) : option bytes :=
  match a with
  | [] => None
  | _ =>
      if has_byte 58 a then
        match split_host_port a with
        | None => None
        | Some (h, p) => if is_valid_host h && is_valid_port p then Some a else None
        end
      else if parse_ip a then None
      else if is_domain a then Some a else None
  end.

Lemma normalize_address_core s : normalize_address s = addr_core (trim_space s).
Proof. reflexivity. Qed.

Lemma addr_core_id a a' : addr_core a = Some a' -> a' = a /\ a <> [].
Proof.
  unfold addr_core. destruct a as [|c r]; [discriminate|]. set (a := c :: r).
  assert (Hne : a <> []) by discriminate.
  destruct (has_byte 58 a).
  - destruct (split_host_port a) as [[h p]|]; [|discriminate]. destruct (is_valid_host h && is_valid_port p); [|discriminate].
    intros H. injection H as <-. split; [reflexivity|exact Hne].
  - destruct (parse_ip a); [discriminate|]. destruct (is_domain a); [|discriminate].
    intros H. injection H as <-. split; [reflexivity|exact Hne].
Qed.

(** a valid address contains no '/' *)
Lemma addr_core_no_slash a : addr_core a = Some a -> has_byte 47 a = false.
Proof.
  unfold addr_core. destruct a as [|c r]; [discriminate|]. set (a := c :: r).
  destruct (has_byte 58 a).
  - destruct (split_host_port a) as [[h p]|] eqn:E; [|discriminate].
    destruct (is_valid_host h && is_valid_port p) eqn:V; [|discriminate]. intros _.
    apply andb_true_iff in V as [Vh Vp]. apply host_no_slash in Vh. apply port_no_slash in Vp.
    apply split_host_port_spec in E as [E|E]; rewrite E.
    + rewrite has_byte_app. unfold has_byte at 2. cbn [existsb]. fold (has_byte 47 p). rewrite Vh, Vp. reflexivity.
    + change (91 :: h ++ 93 :: 58 :: p) with ([91] ++ h ++ [93; 58] ++ p). rewrite !has_byte_app, Vh, Vp. reflexivity.
  - destruct (parse_ip a); [discriminate|]. destruct (is_domain a) eqn:D; [|discriminate]. intros _.
    exact (domain_no_slash _ D).
Qed.

(** * paths *)
Lemma path_char_printable c : path_char c = true -> (33 <=? c) && (c <=? 126) = true.
Proof. unfold path_char, is_alnum, is_digit, is_lower, is_upper, has_byte, path_punct. cbn [existsb]. lia. Qed.
Lemma hexdig_printable c : is_hexdig c = true -> (33 <=? c) && (c <=? 126) = true.
Proof. unfold is_hexdig, is_digit. lia. Qed.


Lemma path_body_printable : forall (n : nat) s, (length s <= n)%nat -> path_body s = true -> forallb printable s = true.
Proof.
  induction n as [|n IH]; intros s Hn.
  - destruct s; [reflexivity|cbn in Hn; lia].
  - destruct s as [|c r]; [reflexivity|]. cbn [path_body forallb].
    destruct (path_char c) eqn:Ec.
    + intros H. unfold printable at 1. rewrite (path_char_printable _ Ec). apply IH; [cbn in Hn; lia|exact H].
    + destruct (c =? 37) eqn:E37; [|discriminate]. apply N.eqb_eq in E37. subst c.
      destruct r as [|h1 [|h2 r2]]; try discriminate. intros H.
      apply andb_true_iff in H as [H H3]. apply andb_true_iff in H as [H1 H2].
      cbn [forallb]. unfold printable at 2 3. rewrite (hexdig_printable _ H1), (hexdig_printable _ H2).
      cbn. apply IH; [cbn in Hn; lia|exact H3].
Qed.

Lemma valid_path_shape p : is_valid_path p = true -> exists r, p = 47 :: r /\ forallb printable p = true.
Proof.
  unfold is_valid_path. destruct p as [|c r]; [discriminate|]. destruct (N.eq_dec c 47) as [->|Hc].
  - intros H. exists r. split; [reflexivity|]. cbn [forallb]. rewrite (path_body_printable _ _ (le_n _) H). reflexivity.
  - intros H. exfalso. revert H.
    destruct c as [|c]; [discriminate|]. do 6 (destruct c as [c|c|]; try discriminate). congruence.
Qed.

Lemma printable_not_space c : printable c = true -> space_byte c = false.
Proof. unfold printable, space_byte, ascii_space. lia. Qed.

Lemma forallb_last (P : N -> bool) l d : l <> [] -> forallb P l = true -> P (last l d) = true.
Proof.
  intros Hne H. destruct (exists_last Hne) as [l' [z ->]]. rewrite last_last.
  rewrite forallb_app in H. apply andb_true_iff in H as [_ H]. cbn in H. rewrite andb_true_r in H. exact H.
Qed.
