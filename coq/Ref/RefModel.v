(** Actor references as byte strings: executable model of

      /repo/internal/utils/ref.go       NormalizeAddress NormalizePath IsValidHost IsValidPort IsValidPath
                                        FormatRefString JoinPath
      /repo/internal/utils/net_addr.go  IsDomainName
      /repo/internal/actor/ref.go       NewRef ParseRef String Child Equals Clone

    and of the standard-library functions they are built from, at the level of BYTES (a Go string is a byte
    string; the functions below that look at runes decode UTF-8 exactly where the Go code does):

      strings.TrimSpace   = trimming by unicode.IsSpace on both sides: the six ASCII spaces and the UTF-8 encodings
                            of U+0085 U+00A0 U+1680 U+2000..U+200A U+2028 U+2029 U+202F U+205F U+3000
                            ([trim_space]; an invalid or truncated sequence is U+FFFD, not a space, and stops it);
      net.SplitHostPort   = [split_host_port] (last colon, brackets, stray brackets);
      net.ParseIP         = netip.ParseAddr without zone: [parse_ip] (dotted quad [parse_ip4] = parseIPv4Fields,
                            [parse_ip6] = parseIPv6 incl. the embedded dotted quad; any '%' rejects);
      strconv.Atoi        = optional sign, decimal digits ([is_valid_port] needs the value only up to the range test);
      regexp domainRegexp = labels of 1..63 RUNES, alphanumeric first and last, '-' inside, joined by '.'; the
                            case-insensitive class [a-z0-9] also matches U+017F (LATIN SMALL LETTER LONG S, C5 BF)
                            and U+212A (KELVIN SIGN, E2 84 AA) by Unicode simple case folding ([dom_tokens]);
      regexp pathRegexp   = [is_valid_path].

    Nothing here is an oracle: every function is compared with the real one on every run (harness/cmd/ref).
    A reference is the pair (address, path) of a [*Ref]; the mailbox cache is not part of its value. *)
From Coq Require Import List NArith Bool.
From Coq Require String Ascii.
Import ListNotations.
Local Open Scope N_scope.

Notation bytes := (list N).

(** * characters *)
Definition is_digit (c : N) : bool := (48 <=? c) && (c <=? 57).
Definition is_lower (c : N) : bool := (97 <=? c) && (c <=? 122).
Definition is_upper (c : N) : bool := (65 <=? c) && (c <=? 90).
Definition is_alnum (c : N) : bool := is_digit c || is_lower c || is_upper c.
Definition is_hexdig (c : N) : bool := is_digit c || ((97 <=? c) && (c <=? 102)) || ((65 <=? c) && (c <=? 70)).
Definition has_byte (c : N) (s : bytes) : bool := existsb (N.eqb c) s.

Fixpoint bytes_eqb (a b : bytes) : bool :=
  match a, b with
  | [], [] => true
  | x :: a', y :: b' => (x =? y) && bytes_eqb a' b'
  | _, _ => false
  end.
Definition is_nil (s : bytes) : bool := match s with [] => true | _ => false end.

(** * strings.TrimSpace *)
Definition ascii_space (c : N) : bool := ((9 <=? c) && (c <=? 13)) || (c =? 32).
(** U+0085 = C2 85, U+00A0 = C2 A0 *)
Definition sp2 (a b : N) : bool := (a =? 194) && ((b =? 133) || (b =? 160)).
(** U+1680 = E1 9A 80; U+2000..U+200A = E2 80 80..8A; U+2028 U+2029 U+202F = E2 80 A8 / A9 / AF;
    U+205F = E2 81 9F; U+3000 = E3 80 80 *)
Definition sp3 (a b c : N) : bool :=
  ((a =? 225) && (b =? 154) && (c =? 128))
  || ((a =? 226) && (b =? 128) && (((128 <=? c) && (c <=? 138)) || (c =? 168) || (c =? 169) || (c =? 175)))
  || ((a =? 226) && (b =? 129) && (c =? 159))
  || ((a =? 227) && (b =? 128) && (c =? 128)).

(** one trimming loop for both directions: [p1], [p2], [p3] recognise a space rune of one, two, three bytes at the
    head of the list *)
Fixpoint trim_gen (p1 : N -> bool) (p2 : N -> N -> bool) (p3 : N -> N -> N -> bool) (s : bytes) : bytes :=
  match s with
  | [] => []
  | a :: r =>
      if p1 a then trim_gen p1 p2 p3 r else
      match r with
      | [] => s
      | b :: r2 =>
          if p2 a b then trim_gen p1 p2 p3 r2 else
          match r2 with
          | [] => s
          | c :: r3 => if p3 a b c then trim_gen p1 p2 p3 r3 else s
          end
      end
  end.

(** TrimLeftFunc(s, unicode.IsSpace): decode a rune, drop it if it is a space *)
Definition trim_left (s : bytes) : bytes := trim_gen ascii_space sp2 sp3 s.

(** TrimRightFunc on the REVERSED string (utf8.DecodeLastRuneInString finds the last rune start within the last
    four bytes and accepts it only if the sequence decoded from there ends exactly at the end of the string: the
    last rune is a space iff one of the listed encodings is a suffix) *)
Definition trim_left_rev (s : bytes) : bytes :=
  trim_gen ascii_space (fun c b => sp2 b c) (fun c b a => sp3 a b c) s.
Definition trim_right (s : bytes) : bytes := rev (trim_left_rev (rev s)).
Definition trim_space (s : bytes) : bytes := trim_right (trim_left s).

(** * net.SplitHostPort *)
(** (before, after) the LAST ':' *)
Fixpoint split_last_colon (s : bytes) : option (bytes * bytes) :=
  match s with
  | [] => None
  | c :: r =>
      match split_last_colon r with
      | Some (a, b) => Some (c :: a, b)
      | None => if c =? 58 then Some ([], r) else None
      end
  end.
(** (before, after) the FIRST [x] *)
Fixpoint split_first (x : N) (s : bytes) : option (bytes * bytes) :=
  match s with
  | [] => None
  | c :: r =>
      if c =? x then Some ([], r)
      else match split_first x r with
           | Some (a, b) => Some (c :: a, b)
           | None => None
           end
  end.

Definition split_host_port (s : bytes) : option (bytes * bytes) :=
  match split_last_colon s with
  | None => None                                          (* missing port in address *)
  | Some (pre, port) =>
      match s with
      | 91 :: rest =>                                     (* hostport[0] == '[' *)
          match split_first 93 rest with
          | None => None                                  (* missing ']' in address *)
          | Some (host, after) =>                         (* end = 1 + |host| *)
              match after with
              | 58 :: p' =>                               (* ']' followed by ':' ... *)
                  if has_byte 58 p' then None             (* ... that is not the last one: too many colons *)
                  else if has_byte 91 rest then None      (* unexpected '[' in hostport[1:] *)
                  else if has_byte 93 after then None     (* unexpected ']' in hostport[end+1:] *)
                  else Some (host, p')
              | _ => None                                 (* end+1 == len, or ']' not followed by ':' *)
              end
          end
      | _ =>
          if has_byte 58 pre then None                    (* too many colons *)
          else if has_byte 91 s then None
          else if has_byte 93 s then None
          else Some (pre, port)
      end
  end.

(** * net.ParseIP *)
(** netip.parseIPv4Fields: [at_start] = (i == 0 || s[i-1] == '.') *)
Fixpoint ip4_fields (s : bytes) (val diglen pos : N) (at_start : bool) : bool :=
  match s with
  | [] => pos =? 3                                        (* pos < 3: IPv4 address too short *)
  | c :: r =>
      if is_digit c then
        if (diglen =? 1) && (val =? 0) then false         (* octet with leading zero *)
        else let v := val * 10 + (c - 48) in
             if 255 <? v then false else ip4_fields r v (diglen + 1) pos false
      else if c =? 46 then
        if at_start then false                            (* field must have at least one digit *)
        else match r with
             | [] => false                                (* i == len(s)-1 *)
             | _ => if pos =? 3 then false else ip4_fields r 0 0 (pos + 1) true
             end
      else false                                          (* unexpected character *)
  end.
Definition parse_ip4 (s : bytes) : bool := ip4_fields s 0 0 0 true.

Fixpoint span_hex (s : bytes) : bytes * bytes :=
  match s with
  | c :: r => if is_hexdig c then let (h, t) := span_hex r in (c :: h, t) else ([], s)
  | [] => ([], [])
  end.

(** the group loop of netip.parseIPv6: [fuel] = (16 - i) / 2 is the loop condition [i < 16] itself, not an
    artificial bound; the result is (i, an ellipsis was seen, unread rest) *)
Fixpoint ip6_loop (fuel : nat) (i : N) (ell : bool) (s : bytes) : option (N * bool * bytes) :=
  match fuel with
  | O => Some (i, ell, s)
  | S fuel' =>
      let (h, rest) := span_hex s in
      let n := N.of_nat (length h) in
      if 4 <? n then None                                 (* each group must have 4 or less digits *)
      else if n =? 0 then None                            (* each field must have at least one digit *)
      else match rest with
           | 46 :: _ =>                                   (* '.': trailing dotted quad, parsed from the group start *)
               if negb ell && negb (i =? 12) then None
               else if 16 <? i + 4 then None
               else if ip4_fields s 0 0 0 true then Some (i + 4, ell, []) else None
           | [] => Some (i + 2, ell, [])
           | 58 :: r1 =>
               match r1 with
               | [] => None                               (* colon must be followed by more characters *)
               | 58 :: r2 =>
                   if ell then None                       (* multiple :: in address *)
                   else match r2 with
                        | [] => Some (i + 2, true, [])
                        | _ => ip6_loop fuel' (i + 2) true r2
                        end
               | _ => ip6_loop fuel' (i + 2) ell r1
               end
           | _ => None                                    (* unexpected character, want colon *)
           end
  end.

Definition ip6_finish (r : option (N * bool * bytes)) : bool :=
  match r with
  | None => false
  | Some (i, ell, rest) =>
      match rest with
      | [] => if i <? 16 then ell                         (* too short unless an ellipsis expands *)
              else negb ell                               (* the :: must expand to at least one field *)
      | _ => false                                        (* trailing garbage *)
      end
  end.

(** a zone ("%...") is either a parse error or makes net.ParseIP reject the address *)
Definition parse_ip6 (s : bytes) : bool :=
  if has_byte 37 s then false
  else match s with
       | 58 :: 58 :: [] => true
       | 58 :: 58 :: r => ip6_finish (ip6_loop 8 0 true r)
       | _ => ip6_finish (ip6_loop 8 0 false s)
       end.

(** netip.ParseAddr: the first of '.', ':', '%' decides *)
Fixpoint ip_kind (s : bytes) : N :=
  match s with
  | [] => 0
  | c :: r => if c =? 46 then 4 else if c =? 58 then 6 else if c =? 37 then 0 else ip_kind r
  end.
Definition parse_ip (s : bytes) : bool :=
  let k := ip_kind s in
  if k =? 4 then parse_ip4 s else if k =? 6 then parse_ip6 s else false.

(** * utils.IsDomainName *)
Inductive dtok : Type := DA | DH | DD.     (* a rune of (?i)[a-z0-9] | '-' | '.' *)
Fixpoint dom_tokens (s : bytes) : option (list dtok) :=
  match s with
  | [] => Some []
  | a :: r =>
      if is_alnum a then option_map (cons DA) (dom_tokens r)
      else if a =? 45 then option_map (cons DH) (dom_tokens r)
      else if a =? 46 then option_map (cons DD) (dom_tokens r)
      else match r with
           | [] => None
           | b :: r2 =>
               if (a =? 197) && (b =? 191) then option_map (cons DA) (dom_tokens r2)      (* U+017F *)
               else match r2 with
                    | [] => None
                    | c :: r3 =>
                        if (a =? 226) && (b =? 132) && (c =? 170) then option_map (cons DA) (dom_tokens r3)  (* U+212A *)
                        else None
                    end
           end
  end.
(** [n] = runes of the current label so far, [last_a] = the previous rune was alphanumeric *)
Fixpoint dom_labels (ts : list dtok) (n : N) (last_a : bool) : bool :=
  match ts with
  | [] => (0 <? n) && last_a
  | DA :: r => if 63 <=? n then false else dom_labels r (n + 1) true
  | DH :: r => if (n =? 0) || (63 <=? n) then false else dom_labels r (n + 1) false
  | DD :: r => if (0 <? n) && last_a then dom_labels r 0 false else false
  end.
Definition is_domain (s : bytes) : bool :=
  (N.of_nat (length s) <=? 253) &&
  match dom_tokens s with Some ts => dom_labels ts 0 false | None => false end.

(** * utils.IsValidHost / IsValidPort / IsValidPath *)
Definition is_valid_host (h : bytes) : bool :=
  match h with [] => false | _ => parse_ip h || is_domain h end.

Fixpoint dec_val (s : bytes) (acc : N) : N :=
  match s with [] => acc | c :: r => dec_val r (acc * 10 + (c - 48)) end.
(** strconv.Atoi(port) succeeds and 1 <= n <= 65535: a '-' makes n <= 0; a value beyond int64 is a range error *)
Definition is_valid_port (p : bytes) : bool :=
  let ds := match p with 43 :: r => r | _ => p end in
  match ds with
  | [] => false
  | _ => forallb is_digit ds && (1 <=? dec_val ds 0) && (dec_val ds 0 <=? 65535)
  end.

Definition path_punct : bytes := [45; 46; 95; 126; 33; 36; 38; 39; 40; 41; 42; 43; 44; 59; 61; 58; 64].
Definition path_char (c : N) : bool := is_alnum c || has_byte c path_punct || (c =? 47).
Fixpoint path_body (s : bytes) : bool :=
  match s with
  | [] => true
  | c :: r =>
      if path_char c then path_body r
      else if c =? 37 then
        match r with
        | h1 :: h2 :: r2 => is_hexdig h1 && is_hexdig h2 && path_body r2
        | _ => false
        end
      else false
  end.
Definition is_valid_path (s : bytes) : bool :=
  match s with 47 :: r => path_body r | _ => false end.

(** * utils.NormalizeAddress / NormalizePath / FormatRefString / JoinPath *)
Definition normalize_address (s : bytes) : option bytes :=
  let a := trim_space s in
  match a with
  | [] => None
  | _ =>
      if has_byte 58 a then
        match split_host_port a with
        | None => None
        | Some (h, p) => if is_valid_host h && is_valid_port p then Some a else None
        end
      else if parse_ip a then None                        (* a bare IP without port is refused *)
      else if is_domain a then Some a else None
  end.

(** utils.NormalizeAddresses: the valid ones, normalised, in order *)
Fixpoint normalize_addresses (l : list bytes) : list bytes :=
  match l with
  | [] => []
  | s :: r => match normalize_address s with
              | Some a => a :: normalize_addresses r
              | None => normalize_addresses r
              end
  end.
(** utils.IsAddrMissingPort (net_addr.go) *)
Definition is_addr_missing_port (s : bytes) : bool :=
  match s with [] => true | _ => match split_host_port s with Some _ => false | None => true end end.

Definition normalize_path (s : bytes) : option bytes :=
  let p := trim_space s in
  if is_valid_path p then Some p else None.               (* "" and a first byte other than '/' are invalid paths *)

Definition format_ref (a p : bytes) : bytes :=
  if has_byte 58 a then a ++ 58 :: p else a ++ p.

Fixpoint strip_slashes (s : bytes) : bytes :=             (* strings.TrimLeft(s, "/") *)
  match s with 47 :: r => strip_slashes r | _ => s end.
Definition join_path (base seg : bytes) : bytes :=
  let sg := strip_slashes seg in
  match base with
  | [] => 47 :: sg
  | _ => if bytes_eqb base [47] then 47 :: sg
         else if last base 0 =? 47 then base ++ sg
         else base ++ 47 :: sg
  end.

(** * actor.NewRef / ParseRef / String / Child / Equals / Clone *)
Inductive rerr : Type :=
| EEmpty      (* vivid.ErrorRefEmpty *)
| EFormat     (* vivid.ErrorRefFormat *)
| EAddr       (* vivid.ErrorRefInvalidAddress *)
| EPath.      (* vivid.ErrorRefInvalidPath *)
Inductive rres : Type := ROk (r : bytes * bytes) | RErr (e : rerr).

Definition new_ref (a p : bytes) : rres :=
  match normalize_address a with
  | None => RErr EAddr
  | Some a' => match normalize_path p with
               | None => RErr EPath
               | Some p' => ROk (a', p')
               end
  end.

(** (value[:split], value[split+1:]) for split = strings.Index(value, ":/") *)
Fixpoint split_cs (s : bytes) : option (bytes * bytes) :=
  match s with
  | [] => None
  | c :: r =>
      match r with
      | d :: _ =>
          if (c =? 58) && (d =? 47) then Some ([], r)
          else match split_cs r with
               | Some (a, b) => Some (c :: a, b)
               | None => None
               end
      | [] => None
      end
  end.
(** (value[:slash], value[slash:]) for slash = strings.IndexByte(value, '/') *)
Fixpoint split_slash (s : bytes) : option (bytes * bytes) :=
  match s with
  | [] => None
  | c :: r =>
      if c =? 47 then Some ([], s)
      else match split_slash r with
           | Some (a, b) => Some (c :: a, b)
           | None => None
           end
  end.

Definition parse_slash_branch (v : bytes) : rres :=
  match split_slash v with
  | None => RErr EFormat
  | Some (a, p) => if is_nil a then RErr EFormat else new_ref a p
  end.
Definition parse_ref (v : bytes) : rres :=
  match v with
  | [] => RErr EEmpty
  | _ =>
      match split_cs v with
      | Some (a, p) => if negb (is_nil a) && has_byte 58 a then new_ref a p else parse_slash_branch v
      | None => parse_slash_branch v
      end
  end.

Definition ref_string (r : bytes * bytes) : bytes := format_ref (fst r) (snd r).
Definition child (r : bytes * bytes) (seg : bytes) : rres :=
  if is_nil (trim_space seg) then RErr EPath else new_ref (fst r) (join_path (snd r) seg).
Definition ref_equals (r1 r2 : bytes * bytes) : bool :=
  bytes_eqb (fst r1) (fst r2) && bytes_eqb (snd r1) (snd r2).
Definition clone (r : bytes * bytes) : bytes * bytes := r.

(** a reference some NewRef call returned *)
Definition valid_ref (r : bytes * bytes) : Prop := new_ref (fst r) (snd r) = ROk r.

(** the references whose string form ParseRef cannot read back: address without port, and the part of the path
    in front of its first ":/" contains a ':' *)
Definition ambiguous (r : bytes * bytes) : bool :=
  negb (has_byte 58 (fst r)) &&
  match split_cs (snd r) with Some (b, _) => has_byte 58 b | None => false end.

(** * specification-level helpers (NOT code of /repo) *)
(** the bytes of which the encodings of the space runes consist *)
Definition space_byte (c : N) : bool :=
  ascii_space c || (c =? 194) || (c =? 133) || (c =? 160) || (c =? 225) || (c =? 154) || (c =? 226)
  || ((128 <=? c) && (c <=? 138)) || (c =? 168) || (c =? 169) || (c =? 175) || (c =? 129) || (c =? 159) || (c =? 227).
(** printable ASCII without the space *)
Definition printable (c : N) : bool := (33 <=? c) && (c <=? 126).

(** byte-string literals for examples and witnesses *)
Fixpoint bs (s : String.string) : bytes :=
  match s with
  | String.EmptyString => []
  | String.String c r => Ascii.N_of_ascii c :: bs r
  end.
Arguments bs s%string_scope.

(** the parser that inverts [ref_string] on every valid
    reference - split at the first '/', a ':' right in front of it is the separator of the "host:port:/path" form *)
Definition unformat (s : bytes) : option (bytes * bytes) :=
  match split_slash s with
  | None => None
  | Some (a, p) =>
      if is_nil a then None
      else if last a 0 =? 58 then Some (removelast a, p) else Some (a, p)
  end.

(** no "//" inside (JoinPath "keeps a single separator") *)
Fixpoint no_dslash (s : bytes) : bool :=
  match s with
  | a :: r => match r with
              | b :: _ => negb ((a =? 47) && (b =? 47)) && no_dslash r
              | [] => true
              end
  | [] => true
  end.
