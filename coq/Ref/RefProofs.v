(** Theorems about references as strings (RefModel.v): NewRef is idempotent, String is injective on valid
    references (with an explicit left inverse), ParseRef (String r) is r or - for exactly the [ambiguous] references -
    an address error, ParseRef is a retraction (every parsed reference reparses from its own string), Child stays
    under its parent, JoinPath laws, Equals is equality. *)
From Coq Require Import List NArith Bool Lia Arith.
From Coq Require Import ZifyN ZifyNat ZifyBool.
From Vivid Require Import Ref.RefModel Ref.RefTrimProofs Ref.RefAddrProofs.
Import ListNotations.
Local Open Scope N_scope.

(** * unfolding lemmas for the functions that match on a byte constant *)
Lemma strip_slashes_cons c r : strip_slashes (c :: r) = if c =? 47 then strip_slashes r else c :: r.
Proof.
  destruct (N.eq_dec c 47) as [->|H]; [reflexivity|]. rewrite (proj2 (N.eqb_neq _ _) H).
  destruct c as [|c]; [reflexivity|]. do 6 (destruct c as [c|c|]; try reflexivity). congruence.
Qed.
Lemma is_valid_path_cons c r : is_valid_path (c :: r) = (c =? 47) && path_body r.
Proof.
  destruct (N.eq_dec c 47) as [->|H]; [reflexivity|]. rewrite (proj2 (N.eqb_neq _ _) H).
  destruct c as [|c]; [reflexivity|]. do 6 (destruct c as [c|c|]; try reflexivity). congruence.
Qed.

Lemma bytes_eqb_eq a b : bytes_eqb a b = true <-> a = b.
Proof.
  revert b. induction a as [|x a IH]; intros [|y b]; cbn [bytes_eqb]; try (split; [discriminate|discriminate]); [tauto|].
  rewrite andb_true_iff, N.eqb_eq, IH. split; [intros [-> ->]; reflexivity|intros H; injection H; auto].
Qed.
Lemma bytes_eqb_refl a : bytes_eqb a a = true.
Proof. apply bytes_eqb_eq. reflexivity. Qed.

Lemma is_nil_false (a : bytes) : a <> [] -> is_nil a = false.
Proof. destruct a; [congruence|reflexivity]. Qed.

(** * NormalizeAddress / NormalizePath / NewRef are idempotent *)
Lemma normalize_address_some s a : normalize_address s = Some a -> a = trim_space s /\ addr_core a = Some a.
Proof.
  rewrite normalize_address_core. intros H. destruct (addr_core_id _ _ H) as [-> _]. split; [reflexivity|exact H].
Qed.
Lemma normalize_path_some s p : normalize_path s = Some p -> p = trim_space s /\ is_valid_path p = true.
Proof.
  unfold normalize_path. destruct (is_valid_path (trim_space s)) eqn:E; [|discriminate].
  intros H. injection H as <-. split; [reflexivity|exact E].
Qed.

Lemma normalize_address_idem s a : normalize_address s = Some a -> normalize_address a = Some a.
Proof.
  intros H. destruct (normalize_address_some _ _ H) as [-> Hc].
  rewrite normalize_address_core, trim_space_idem. exact Hc.
Qed.
Lemma normalize_path_idem s p : normalize_path s = Some p -> normalize_path p = Some p.
Proof.
  intros H. destruct (normalize_path_some _ _ H) as [-> Hv].
  unfold normalize_path. rewrite trim_space_idem, Hv. reflexivity.
Qed.

Theorem new_ref_idem a p r : new_ref a p = ROk r -> new_ref (fst r) (snd r) = ROk r.
Proof.
  unfold new_ref. destruct (normalize_address a) as [a'|] eqn:Ea; [|discriminate].
  destruct (normalize_path p) as [p'|] eqn:Ep; [|discriminate]. intros H. injection H as <-. cbn [fst snd].
  rewrite (normalize_address_idem _ _ Ea), (normalize_path_idem _ _ Ep). reflexivity.
Qed.

Lemma new_ref_ok a p r : new_ref a p = ROk r -> normalize_address a = Some (fst r) /\ normalize_path p = Some (snd r).
Proof.
  unfold new_ref. destruct (normalize_address a) as [a'|]; [|discriminate].
  destruct (normalize_path p) as [p'|]; [|discriminate]. intros H. injection H as <-. split; reflexivity.
Qed.

(** what a valid reference looks like *)
Lemma valid_ref_inv a p : valid_ref (a, p) ->
  addr_core a = Some a /\ trim_space a = a /\ is_valid_path p = true /\ trim_space p = p /\
  a <> [] /\ has_byte 47 a = false /\ exists p', p = 47 :: p'.
Proof.
  unfold valid_ref. cbn [fst snd]. intros H. apply new_ref_ok in H as [Ha Hp]. cbn [fst snd] in *.
  destruct (normalize_address_some _ _ Ha) as [Ta Ca]. destruct (normalize_path_some _ _ Hp) as [Tp Vp].
  destruct (addr_core_id _ _ Ca) as [_ Hne]. destruct (valid_path_shape _ Vp) as [p' [Ep _]].
  repeat split; auto. apply addr_core_no_slash, Ca. exists p'. exact Ep.
Qed.

Lemma valid_ref_intro a p : addr_core a = Some a -> trim_space a = a -> is_valid_path p = true -> trim_space p = p -> valid_ref (a, p).
Proof.
  intros Ca Ta Vp Tp. unfold valid_ref, new_ref, normalize_path. cbn [fst snd].
  rewrite normalize_address_core, Ta, Ca, Tp, Vp. reflexivity.
Qed.

(** * the splitting functions on a printed reference *)
Lemma split_cs_spec s b c : split_cs s = Some (b, c) -> s = b ++ 58 :: c /\ exists c', c = 47 :: c'.
Proof.
  revert b c. induction s as [|x r IH]; intros b c; cbn [split_cs]; [discriminate|].
  destruct r as [|d r']; [discriminate|].
  destruct ((x =? 58) && (d =? 47)) eqn:E.
  - intros H. injection H as <- <-. apply andb_true_iff in E as [Ex Ed]. apply N.eqb_eq in Ex, Ed. subst.
    split; [reflexivity|]. exists r'. reflexivity.
  - destruct (split_cs (d :: r')) as [[a' b']|]; [|discriminate]. intros H. injection H as <- <-.
    destruct (IH _ _ eq_refl) as [E' Hc]. rewrite E'. split; [reflexivity|exact Hc].
Qed.

Lemma split_cs_port a p : has_byte 47 a = false -> split_cs (a ++ 58 :: 47 :: p) = Some (a, 47 :: p).
Proof.
  induction a as [|c a IH]; intros H; [reflexivity|].
  unfold has_byte in H. cbn [existsb] in H. apply orb_false_iff in H as [Hc Ha]. fold (has_byte 47 a) in Ha.
  change ((c :: a) ++ 58 :: 47 :: p) with (c :: (a ++ 58 :: 47 :: p)). cbn [split_cs].
  destruct (a ++ 58 :: 47 :: p) as [|d r'] eqn:E; [destruct a; discriminate|].
  assert (Hd : (c =? 58) && (d =? 47) = false).
  { destruct a as [|d' a']; cbn in E; injection E as <- _.
    - rewrite andb_false_r. reflexivity.
    - unfold has_byte in Ha. cbn [existsb] in Ha. apply orb_false_iff in Ha as [Hd' _]. rewrite (N.eqb_sym d' 47), Hd', andb_false_r. reflexivity. }
  rewrite Hd, (IH Ha). reflexivity.
Qed.

Lemma split_cs_nocolon a p : has_byte 58 a = false ->
  split_cs (a ++ p) = match split_cs p with Some (b, c) => Some (a ++ b, c) | None => None end.
Proof.
  induction a as [|c a IH]; intros H.
  - cbn [app]. destruct (split_cs p) as [[b c]|]; reflexivity.
  - unfold has_byte in H. cbn [existsb] in H. apply orb_false_iff in H as [Hc Ha]. fold (has_byte 58 a) in Ha.
    change ((c :: a) ++ p) with (c :: (a ++ p)). cbn [split_cs]. rewrite N.eqb_sym in Hc. rewrite Hc. cbn [andb].
    destruct (a ++ p) as [|d r'] eqn:E.
    + apply app_eq_nil in E as [-> ->]. reflexivity.
    + rewrite (IH Ha). destruct (split_cs p) as [[b c']|]; reflexivity.
Qed.

Lemma split_cs_cons2 a d r :
  split_cs (a :: d :: r) = if (a =? 58) && (d =? 47) then Some ([], d :: r)
                           else match split_cs (d :: r) with Some (x, y) => Some (a :: x, y) | None => None end.
Proof. reflexivity. Qed.

Lemma split_cs_app x y b c : split_cs x = Some (b, c) -> split_cs (x ++ y) = Some (b, c ++ y).
Proof.
  revert b c. induction x as [|a r IH]; intros b c; [discriminate|].
  destruct r as [|d r']; [discriminate|]. change ((a :: d :: r') ++ y) with (a :: d :: (r' ++ y)).
  rewrite !split_cs_cons2.
  destruct ((a =? 58) && (d =? 47)).
  - intros H. injection H as <- <-. reflexivity.
  - destruct (split_cs (d :: r')) as [[a' b']|] eqn:E; [|discriminate]. intros H. injection H as <- <-.
    change (d :: r' ++ y) with ((d :: r') ++ y). rewrite (IH _ _ eq_refl). reflexivity.
Qed.

Lemma split_slash_spec s a q : split_slash s = Some (a, q) -> s = a ++ q /\ has_byte 47 a = false /\ exists q', q = 47 :: q'.
Proof.
  revert a q. induction s as [|c r IH]; intros a q; cbn [split_slash]; [discriminate|].
  destruct (c =? 47) eqn:Ec.
  - intros H. injection H as <- <-. apply N.eqb_eq in Ec. subst c. split; [reflexivity|]. split; [reflexivity|]. exists r. reflexivity.
  - destruct (split_slash r) as [[a' q']|]; [|discriminate]. intros H. injection H as <- <-.
    destruct (IH _ _ eq_refl) as [-> [Ha Hq]]. split; [reflexivity|]. split; [|exact Hq].
    unfold has_byte. cbn [existsb]. rewrite N.eqb_sym, Ec. exact Ha.
Qed.

Lemma split_slash_app a p : has_byte 47 a = false -> split_slash (a ++ 47 :: p) = Some (a, 47 :: p).
Proof.
  induction a as [|c a IH]; intros H; [reflexivity|].
  unfold has_byte in H. cbn [existsb] in H. apply orb_false_iff in H as [Hc Ha]. fold (has_byte 47 a) in Ha.
  change ((c :: a) ++ 47 :: p) with (c :: (a ++ 47 :: p)). cbn [split_slash]. rewrite N.eqb_sym in Hc. rewrite Hc, (IH Ha). reflexivity.
Qed.

Lemma has_byte_cons c x l : has_byte c (x :: l) = (c =? x) || has_byte c l.
Proof. reflexivity. Qed.

(** * ParseRef (String r) *)
Lemma parse_ref_nonempty c v :
  parse_ref (c :: v) = match split_cs (c :: v) with
                       | Some (a, p) => if negb (is_nil a) && has_byte 58 a then new_ref a p else parse_slash_branch (c :: v)
                       | None => parse_slash_branch (c :: v)
                       end.
Proof. reflexivity. Qed.

Theorem parse_ref_string r : valid_ref r -> parse_ref (ref_string r) = if ambiguous r then RErr EAddr else ROk r.
Proof.
  destruct r as [a p]. intros V. destruct (valid_ref_inv _ _ V) as [Ca [Ta [Vp [Tp [Hne [Hns [p' ->]]]]]]].
  unfold ref_string, format_ref, ambiguous. cbn [fst snd].
  destruct a as [|a0 a1]; [congruence|]. set (a := a0 :: a1) in *.
  destruct (has_byte 58 a) eqn:Hc; cbn [negb andb].
  - (* host:port:/path *)
    change (a ++ 58 :: 47 :: p') with (a0 :: (a1 ++ 58 :: 47 :: p')). rewrite parse_ref_nonempty.
    change (a0 :: a1 ++ 58 :: 47 :: p') with (a ++ 58 :: 47 :: p'). rewrite (split_cs_port _ _ Hns).
    rewrite Hc. cbn [negb andb is_nil]. exact V.
  - (* domain/path *)
    change (a ++ 47 :: p') with (a0 :: (a1 ++ 47 :: p')). rewrite parse_ref_nonempty.
    change (a0 :: a1 ++ 47 :: p') with (a ++ 47 :: p').
    assert (Hslash : parse_slash_branch (a ++ 47 :: p') = ROk (a, 47 :: p')).
    { unfold parse_slash_branch. rewrite (split_slash_app _ _ Hns). cbn [is_nil]. exact V. }
    rewrite (split_cs_nocolon _ _ Hc). destruct (split_cs (47 :: p')) as [[b c]|] eqn:Ep; [|exact Hslash].
    rewrite has_byte_app, Hc. cbn [orb]. replace (is_nil (a ++ b)) with false by reflexivity. cbn [negb andb].
    destruct (has_byte 58 b) eqn:Hb; [|exact Hslash].
    (* the wrong branch: the "address" a ++ b contains a '/' *)
    apply split_cs_spec in Ep as [Ep _].
    assert (Hb47 : has_byte 47 b = true).
    { destruct b as [|b0 b1]; [discriminate|]. cbn in Ep. injection Ep as <- _. reflexivity. }
    unfold new_ref. destruct (normalize_address (a ++ b)) as [x|] eqn:En; [|reflexivity]. exfalso.
    apply normalize_address_some in En as [Ex Cx]. apply addr_core_no_slash in Cx.
    rewrite Ex, trim_space_has_byte, has_byte_app, Hb47, orb_true_r in Cx by reflexivity. discriminate.
Qed.

(** * String is injective: an explicit left inverse *)
Lemma last_not_byte c (a : bytes) : a <> [] -> has_byte c a = false -> (last a 0 =? c) = false.
Proof.
  intros Hne H. apply has_byte_false_forallb in H. apply (forallb_last _ _ 0 Hne) in H.
  apply negb_true_iff in H. rewrite N.eqb_sym. exact H.
Qed.

Theorem unformat_string r : valid_ref r -> unformat (ref_string r) = Some r.
Proof.
  destruct r as [a p]. intros V. destruct (valid_ref_inv _ _ V) as [Ca [Ta [Vp [Tp [Hne [Hns [p' ->]]]]]]].
  unfold ref_string, format_ref, unformat. cbn [fst snd]. destruct (has_byte 58 a) eqn:Hc.
  - change (a ++ 58 :: 47 :: p') with (a ++ [58] ++ 47 :: p'). rewrite app_assoc.
    rewrite split_slash_app by (rewrite has_byte_app, Hns; reflexivity).
    rewrite is_nil_false by (destruct a; discriminate). rewrite last_last. cbn [N.eqb Pos.eqb].
    rewrite removelast_last. reflexivity.
  - rewrite (split_slash_app _ _ Hns), (is_nil_false _ Hne), (last_not_byte _ _ Hne Hc). reflexivity.
Qed.

Theorem ref_string_injective r1 r2 : valid_ref r1 -> valid_ref r2 -> ref_string r1 = ref_string r2 -> r1 = r2.
Proof.
  intros V1 V2 E. apply unformat_string in V1, V2. rewrite E in V1. congruence.
Qed.

(** * ParseRef is a retraction *)
Lemma parse_slash_branch_ok s r : parse_slash_branch s = ROk r ->
  exists a q, split_slash s = Some (a, q) /\ a <> [] /\ new_ref a q = ROk r.
Proof.
  unfold parse_slash_branch. destruct (split_slash s) as [[a q]|]; [|discriminate].
  destruct a as [|a0 a1]; [discriminate|]. cbn [is_nil]. intros H. exists (a0 :: a1), q. repeat split; [discriminate|exact H].
Qed.

Lemma parse_ref_ok s r : parse_ref s = ROk r ->
  (exists a p, split_cs s = Some (a, p) /\ has_byte 58 a = true /\ new_ref a p = ROk r) \/
  (exists a q, split_slash s = Some (a, q) /\ a <> [] /\ new_ref a q = ROk r /\
               forall b c, split_cs s = Some (b, c) -> negb (is_nil b) && has_byte 58 b = false).
Proof.
  destruct s as [|c v]; [discriminate|]. rewrite parse_ref_nonempty.
  destruct (split_cs (c :: v)) as [[a p]|] eqn:E.
  - destruct (negb (is_nil a) && has_byte 58 a) eqn:Ec.
    + intros H. left. exists a, p. apply andb_true_iff in Ec as [_ Ec]. auto.
    + intros H. right. destruct (parse_slash_branch_ok _ _ H) as [a' [q [Es [Hne Hn]]]]. exists a', q.
      repeat split; auto. intros b c' Hbc. injection Hbc as <- <-. exact Ec.
  - intros H. right. destruct (parse_slash_branch_ok _ _ H) as [a' [q [Es [Hne Hn]]]]. exists a', q.
    repeat split; auto. discriminate.
Qed.

Theorem parse_ref_valid s r : parse_ref s = ROk r -> valid_ref r.
Proof.
  intros H. apply parse_ref_ok in H as [[a [p [_ [_ H]]]]|[a [q [_ [_ [H _]]]]]]; exact (new_ref_idem _ _ _ H).
Qed.

Theorem parse_ref_unambiguous s r : parse_ref s = ROk r -> ambiguous r = false.
Proof.
  intros H. apply parse_ref_ok in H as [[a [p [_ [Hc H]]]]|[a [q [Es [Hne [H Hno]]]]]].
  - apply new_ref_ok in H as [Ha _]. apply normalize_address_some in Ha as [Ha _].
    unfold ambiguous. rewrite Ha, trim_space_has_byte, Hc by reflexivity. reflexivity.
  - destruct (ambiguous r) eqn:Am; [exfalso|reflexivity].
    unfold ambiguous in Am. apply andb_true_iff in Am as [Ac Ab]. apply negb_true_iff in Ac.
    apply new_ref_ok in H as [Ha Hq]. apply normalize_address_some in Ha as [Ha _]. apply normalize_path_some in Hq as [Hq _].
    rewrite Ha, trim_space_has_byte in Ac by reflexivity.
    destruct (split_cs (snd r)) as [[b c]|] eqn:Eb; [|discriminate].
    apply split_slash_spec in Es as [Es [_ [q' Eq]]]. subst q.
    destruct (trim_space_first 47 q' eq_refl) as [post [Ep _]]. rewrite <- Hq in Ep.
    assert (Hs : split_cs s = Some (a ++ b, c ++ post)).
    { rewrite Es, Ep, (split_cs_nocolon _ _ Ac), (split_cs_app _ post _ _ Eb). reflexivity. }
    specialize (Hno _ _ Hs). rewrite has_byte_app, Ab, orb_true_r, andb_true_r in Hno.
    destruct a; [congruence|discriminate].
Qed.

Theorem parse_ref_retraction s r : parse_ref s = ROk r -> parse_ref (ref_string r) = ROk r.
Proof.
  intros H. rewrite (parse_ref_string _ (parse_ref_valid _ _ H)), (parse_ref_unambiguous _ _ H). reflexivity.
Qed.

(** * Child *)
Lemma join_path_prefix b s : b <> [] -> exists y, join_path b s = b ++ y.
Proof.
  intros Hne. unfold join_path. destruct b as [|b0 b1]; [congruence|].
  destruct (bytes_eqb (b0 :: b1) [47]) eqn:E.
  - apply bytes_eqb_eq in E. rewrite E. exists (strip_slashes s). reflexivity.
  - destruct (last (b0 :: b1) 0 =? 47); [exists (strip_slashes s)|exists (47 :: strip_slashes s)]; reflexivity.
Qed.

Theorem child_spec r seg r' : valid_ref r -> child r seg = ROk r' ->
  valid_ref r' /\ fst r' = fst r /\ exists y, snd r' = snd r ++ y.
Proof.
  destruct r as [a p]. intros V. destruct (valid_ref_inv _ _ V) as [Ca [Ta [Vp [Tp [Hne [Hns [p' Ep]]]]]]].
  unfold child. cbn [fst snd]. destruct (is_nil (trim_space seg)); [discriminate|]. intros H.
  split; [exact (new_ref_idem _ _ _ H)|]. apply new_ref_ok in H as [Ha Hp].
  rewrite normalize_address_core, Ta, Ca in Ha. injection Ha as Ha. split; [symmetry; exact Ha|].
  apply normalize_path_some in Hp as [Hp _]. rewrite Hp.
  destruct (join_path_prefix p seg) as [y0 Ey]; [subst p; discriminate|]. rewrite Ey. subst p.
  apply trim_space_keeps_prefix; [reflexivity|].
  apply printable_not_space. destruct (valid_path_shape _ Vp) as [_ [_ Hpr]].
  apply forallb_last; [discriminate|exact Hpr].
Qed.

(** * Equals / Clone *)
Theorem ref_equals_eq r1 r2 : ref_equals r1 r2 = true <-> r1 = r2.
Proof.
  destruct r1 as [a1 p1], r2 as [a2 p2]. unfold ref_equals. cbn [fst snd].
  rewrite andb_true_iff, !bytes_eqb_eq. split; [intros [-> ->]; reflexivity|intros H; injection H; auto].
Qed.

(** * JoinPath laws *)
Lemma strip_slashes_idem s : strip_slashes (strip_slashes s) = strip_slashes s.
Proof.
  induction s as [|c r IH]; [reflexivity|]. rewrite strip_slashes_cons. destruct (c =? 47) eqn:E; [exact IH|].
  rewrite strip_slashes_cons, E. reflexivity.
Qed.
Lemma strip_slashes_head s : (hd 0 (strip_slashes s) =? 47) = false.
Proof.
  induction s as [|c r IH]; [reflexivity|]. rewrite strip_slashes_cons. destruct (c =? 47) eqn:E; [exact IH|exact E].
Qed.
Lemma strip_slashes_fix s : (hd 0 s =? 47) = false -> strip_slashes s = s.
Proof. destruct s as [|c r]; [reflexivity|]. cbn [hd]. intros E. rewrite strip_slashes_cons, E. reflexivity. Qed.

(** leading slashes of the segment do not matter *)
Theorem join_path_strip b s : join_path b (strip_slashes s) = join_path b s.
Proof. unfold join_path. rewrite strip_slashes_idem. reflexivity. Qed.
Theorem join_path_slash b s : join_path b (47 :: s) = join_path b s.
Proof. reflexivity. Qed.
(** the empty base is the root *)
Theorem join_path_empty_base s : join_path [] s = join_path [47] s.
Proof. reflexivity. Qed.

(** for a non-empty base: base, one separator unless the base already ends in one, the stripped segment *)
Definition sep (b : bytes) : bytes := if last b 0 =? 47 then [] else [47].
Lemma join_path_alt b s : b <> [] -> join_path b s = b ++ sep b ++ strip_slashes s.
Proof.
  intros Hne. unfold join_path, sep. destruct b as [|b0 b1]; [congruence|].
  destruct (bytes_eqb (b0 :: b1) [47]) eqn:E.
  - apply bytes_eqb_eq in E. rewrite E. reflexivity.
  - destruct (last (b0 :: b1) 0 =? 47); [reflexivity|]. reflexivity.
Qed.

Theorem join_path_head b s : b = [] \/ (exists b', b = 47 :: b') -> exists t, join_path b s = 47 :: t.
Proof.
  intros [->|[b' ->]]; [exists (strip_slashes s); reflexivity|].
  rewrite join_path_alt by discriminate. eexists. reflexivity.
Qed.

Lemma no_dslash_cons2 a b r : no_dslash (a :: b :: r) = negb ((a =? 47) && (b =? 47)) && no_dslash (b :: r).
Proof. reflexivity. Qed.

Lemma no_dslash_app x y : no_dslash x = true -> no_dslash y = true -> (last x 0 =? 47) && (hd 0 y =? 47) = false ->
  no_dslash (x ++ y) = true.
Proof.
  induction x as [|a r IH]; intros Hx Hy Hc; [exact Hy|].
  destruct r as [|b r'].
  - destruct y as [|c y']; [reflexivity|]. change ([a] ++ c :: y') with (a :: c :: y'). rewrite no_dslash_cons2.
    cbn [last hd] in Hc. rewrite Hc, Hy. reflexivity.
  - change ((a :: b :: r') ++ y) with (a :: b :: (r' ++ y)). rewrite no_dslash_cons2 in *.
    apply andb_true_iff in Hx as [Hab Hr]. rewrite Hab. cbn [andb].
    change (b :: r' ++ y) with ((b :: r') ++ y). apply IH; auto.
Qed.

(** JoinPath keeps single separators *)
Theorem join_path_no_dslash b s : no_dslash b = true -> no_dslash (strip_slashes s) = true -> no_dslash (join_path b s) = true.
Proof.
  intros Hb Hs. assert (Hh := strip_slashes_head s).
  assert (H47 : no_dslash ([47] ++ strip_slashes s) = true).
  { apply no_dslash_app; [reflexivity|exact Hs|]. rewrite Hh, andb_false_r. reflexivity. }
  destruct b as [|b0 b1]; [exact H47|]. rewrite join_path_alt by discriminate. unfold sep.
  destruct (last (b0 :: b1) 0 =? 47) eqn:El.
  - change ([] ++ strip_slashes s) with (strip_slashes s).
    apply no_dslash_app; [exact Hb|exact Hs|]. rewrite Hh, andb_false_r. reflexivity.
  - apply no_dslash_app; [exact Hb|exact H47|]. rewrite El. reflexivity.
Qed.

Lemma last_app_ne (x t : bytes) d : t <> [] -> last (x ++ t) d = last t d.
Proof.
  intros Hne. destruct (exists_last Hne) as [t' [z ->]]. rewrite app_assoc, !last_last. reflexivity.
Qed.

Lemma sep_app x t : t <> [] -> sep (x ++ t) = sep t.
Proof. intros H. unfold sep. rewrite (last_app_ne _ _ _ H). reflexivity. Qed.

(** joining twice = joining the joined segments: Child(Child(r, s1), s2) has the path of Child(r, s1/s2) *)
Theorem join_path_assoc b s1 s2 :
  join_path (join_path b s1) s2 = join_path b (join_path (strip_slashes s1) s2).
Proof.
  set (t1 := strip_slashes s1). set (t2 := strip_slashes s2).
  assert (Ht2 : strip_slashes t2 = t2) by apply strip_slashes_idem.
  (* the base [] behaves as the base "/" *)
  assert (G : forall b', b' <> [] -> join_path (join_path b' s1) s2 = join_path b' (join_path t1 s2)).
  { intros b' Hne. rewrite (join_path_alt b' s1 Hne). fold t1.
    destruct t1 as [|c t1'] eqn:E1.
    - (* the first segment is empty: b' ++ sep b' ends in '/' *)
      change (join_path [] s2) with (47 :: t2). rewrite (join_path_alt b' (47 :: t2) Hne).
      change (strip_slashes (47 :: t2)) with (strip_slashes t2). rewrite Ht2, app_nil_r.
      assert (Hx : b' ++ sep b' <> []) by (destruct b'; [congruence|discriminate]).
      rewrite (join_path_alt _ s2 Hx). fold t2.
      assert (Hs : sep (b' ++ sep b') = []).
      { unfold sep. destruct (last b' 0 =? 47) eqn:El; [rewrite app_nil_r, El; reflexivity|].
        rewrite last_last. reflexivity. }
      rewrite Hs, <- app_assoc. reflexivity.
    - assert (Hc : (c =? 47) = false) by (assert (H := strip_slashes_head s1); fold t1 in H; rewrite E1 in H; exact H).
      assert (Hne1 : c :: t1' <> []) by discriminate.
      assert (Hx : b' ++ sep b' ++ c :: t1' <> []) by (destruct b'; [congruence|discriminate]).
      rewrite (join_path_alt _ s2 Hx). fold t2.
      rewrite (join_path_alt (c :: t1') s2 Hne1). fold t2.
      rewrite (join_path_alt b' _ Hne).
      rewrite (strip_slashes_fix ((c :: t1') ++ _)) by exact Hc.
      replace (sep (b' ++ sep b' ++ c :: t1')) with (sep (c :: t1')) by (rewrite app_assoc; symmetry; apply sep_app; exact Hne1).
      rewrite <- !app_assoc. reflexivity. }
  destruct b as [|b0 b1]; [|apply G; discriminate].
  rewrite !join_path_empty_base. apply G. discriminate.
Qed.

(** * the shape of valid addresses and paths *)
Theorem valid_address_shape s a : normalize_address s = Some a ->
  a = trim_space s /\ a <> [] /\ has_byte 47 a = false /\
  if has_byte 58 a
  then exists h p, (a = h ++ 58 :: p \/ a = 91 :: h ++ 93 :: 58 :: p) /\ is_valid_host h = true /\ is_valid_port p = true
  else is_domain a = true /\ parse_ip a = false.
Proof.
  intros H. apply normalize_address_some in H as [Ea Ca]. split; [exact Ea|].
  destruct (addr_core_id _ _ Ca) as [_ Hne]. split; [exact Hne|]. split; [exact (addr_core_no_slash _ Ca)|].
  clear Ea. unfold addr_core in Ca. destruct a as [|c r]; [congruence|]. set (a := c :: r) in *.
  destruct (has_byte 58 a).
  - destruct (split_host_port a) as [[h p]|] eqn:E; [|discriminate].
    destruct (is_valid_host h && is_valid_port p) eqn:V; [|discriminate]. apply andb_true_iff in V as [Vh Vp].
    exists h, p. split; [exact (split_host_port_spec _ _ _ E)|]. split; assumption.
  - destruct (parse_ip a); [discriminate|]. destruct (is_domain a); [|discriminate]. split; reflexivity.
Qed.

Theorem valid_path_shape' s p : normalize_path s = Some p ->
  p = trim_space s /\ (exists r, p = 47 :: r) /\ forallb printable p = true.
Proof.
  intros H. apply normalize_path_some in H as [Ep Vp]. split; [exact Ep|].
  destruct (valid_path_shape _ Vp) as [r [E F]]. split; [exists r; exact E|exact F].
Qed.

Theorem trim_space_no_space_ends s :
  starts_space (trim_space s) = false /\ ends_space_rev (rev (trim_space s)) = false.
Proof.
  split.
  - unfold trim_space. set (u := trim_left s).
    destruct (starts_space (trim_right u)) eqn:E; [|reflexivity].
    destruct (trim_right_decomp u) as [post [Eu _]].
    assert (H := starts_gen_app ascii_space sp2 sp3 _ post E). rewrite <- Eu in H.
    unfold u in H. rewrite trim_left_nostart in H. discriminate.
  - unfold trim_space, trim_right. rewrite rev_involutive.
    exact (trim_gen_nostart _ _ _ space_byte sb1 sb2r sb3r _).
Qed.

(** ParseRef (String r) never names another reference *)
Theorem parse_ref_string_same r r' : valid_ref r -> parse_ref (ref_string r) = ROk r' -> r' = r.
Proof.
  intros V. rewrite (parse_ref_string r V). destruct (ambiguous r); [discriminate|]. intros H. injection H as <-. reflexivity.
Qed.

Theorem ref_equals_iff_string r1 r2 : valid_ref r1 -> valid_ref r2 ->
  (ref_equals r1 r2 = true <-> ref_string r1 = ref_string r2).
Proof.
  intros V1 V2. rewrite ref_equals_eq. split; [intros ->; reflexivity|exact (ref_string_injective r1 r2 V1 V2)].
Qed.

(** * printable strings are not trimmed; Child is total on segments of path characters (NewAgentRef ignores its error) *)
Lemma forallb_app_l {A} (f : A -> bool) a b : forallb f (a ++ b) = true -> forallb f a = true.
Proof. rewrite forallb_app. intros H. apply andb_true_iff in H. tauto. Qed.
Lemma forallb_app_r {A} (f : A -> bool) a b : forallb f (a ++ b) = true -> forallb f b = true.
Proof. rewrite forallb_app. intros H. apply andb_true_iff in H. tauto. Qed.

Lemma space_printable_nil l : forallb space_byte l = true -> forallb printable l = true -> l = [].
Proof.
  destruct l as [|c l]; [reflexivity|]. cbn [forallb]. intros H1 H2.
  apply andb_true_iff in H1 as [H1 _]. apply andb_true_iff in H2 as [H2 _].
  rewrite (printable_not_space _ H2) in H1. discriminate.
Qed.

Theorem trim_space_printable s : forallb printable s = true -> trim_space s = s.
Proof.
  intros H. destruct (trim_space_decomp s) as [pre [post [E [F G]]]].
  assert (Hpre : pre = []).
  { apply space_printable_nil; [exact F|]. rewrite E in H. exact (forallb_app_l _ _ _ H). }
  assert (Hpost : post = []).
  { apply space_printable_nil; [exact G|]. rewrite E in H. apply forallb_app_r in H. exact (forallb_app_r _ _ _ H). }
  subst pre post. rewrite app_nil_r in E. cbn [app] in E. symmetry. exact E.
Qed.

Lemma path_body_app : forall (n : nat) x y, (length x <= n)%nat -> path_body x = true -> path_body y = true -> path_body (x ++ y) = true.
Proof.
  induction n as [|n IH]; intros x y Hn.
  - destruct x; [intros _ H; exact H|cbn in Hn; lia].
  - destruct x as [|c r]; [intros _ H; exact H|]. cbn [app path_body].
    destruct (path_char c).
    + intros Hx Hy. apply IH; [cbn in Hn; lia|exact Hx|exact Hy].
    + destruct (c =? 37); [|discriminate]. destruct r as [|h1 [|h2 r2]]; try discriminate. cbn [app].
      intros Hx Hy. apply andb_true_iff in Hx as [Hx H3]. rewrite Hx. cbn [andb].
      apply IH; [cbn in Hn; lia|exact H3|exact Hy].
Qed.

Lemma path_chars_body s : forallb path_char s = true -> path_body s = true.
Proof.
  induction s as [|c r IH]; [reflexivity|]. cbn [forallb path_body]. intros H. apply andb_true_iff in H as [Hc Hr].
  rewrite Hc. exact (IH Hr).
Qed.

Lemma path_char_47 : path_char 47 = true.
Proof. reflexivity. Qed.

Lemma strip_slashes_forallb (P : N -> bool) s : forallb P s = true -> forallb P (strip_slashes s) = true.
Proof.
  induction s as [|c r IH]; [reflexivity|]. rewrite strip_slashes_cons. destruct (c =? 47); [|exact (fun H => H)].
  cbn [forallb]. intros H. apply andb_true_iff in H as [_ H]. exact (IH H).
Qed.

(** a non-empty segment of path characters (no '%' escapes needed: "@future@" ++ a UUID is one) always gives a child,
    whose path is exactly JoinPath(parent path, segment) *)
Theorem child_total r seg : valid_ref r -> seg <> [] -> forallb path_char seg = true ->
  child r seg = ROk (fst r, join_path (snd r) seg).
Proof.
  destruct r as [a p]. intros V Hne Hseg. destruct (valid_ref_inv _ _ V) as [Ca [Ta [Vp [Tp [Hane [Hns [p' Ep]]]]]]].
  unfold child. cbn [fst snd].
  assert (Hsp : forallb printable seg = true).
  { revert Hseg. apply forallb_imp. intros c Hc. exact (path_char_printable _ Hc). }
  rewrite (trim_space_printable _ Hsp), (is_nil_false _ Hne).
  unfold new_ref. rewrite normalize_address_core, Ta, Ca.
  (* the joined path is a valid path of printable bytes *)
  assert (Hj : is_valid_path (join_path p seg) = true).
  { rewrite join_path_alt by (subst p; discriminate). subst p. cbn [app]. rewrite is_valid_path_cons in *. cbn [N.eqb Pos.eqb andb] in *.
    apply (path_body_app _ _ _ (le_n _) Vp).
    assert (Hst : path_body (strip_slashes seg) = true) by (apply path_chars_body, strip_slashes_forallb, Hseg).
    unfold sep. destruct (last (47 :: p') 0 =? 47); [exact Hst|]. cbn [app path_body]. rewrite path_char_47. exact Hst. }
  assert (Hpr : forallb printable (join_path p seg) = true).
  { destruct (valid_path_shape _ Hj) as [_ [_ H]]. exact H. }
  unfold normalize_path. rewrite (trim_space_printable _ Hpr), Hj. reflexivity.
Qed.

(** * NormalizeAddresses *)
Theorem normalize_addresses_valid l a : In a (normalize_addresses l) -> normalize_address a = Some a.
Proof.
  induction l as [|s r IH]; [intros []|]. cbn [normalize_addresses].
  destruct (normalize_address s) as [a'|] eqn:E; [|exact IH]. intros [<-|H]; [exact (normalize_address_idem _ _ E)|exact (IH H)].
Qed.
Theorem normalize_addresses_idem l : normalize_addresses (normalize_addresses l) = normalize_addresses l.
Proof.
  induction l as [|s r IH]; [reflexivity|]. cbn [normalize_addresses].
  destruct (normalize_address s) as [a|] eqn:E; [|exact IH]. cbn [normalize_addresses].
  rewrite (normalize_address_idem _ _ E), IH. reflexivity.
Qed.
