(** Executable entry point of the reference model for the correspondence check (harness/cmd/ref). *)
From Coq Require Import List NArith Bool.
From Vivid Require Import Base.Tm Ref.RefModel.
Import ListNotations.
Local Open Scope N_scope.

Definition t_pair (r : bytes * bytes) : tm := TL [TB (fst r); TB (snd r)].
Definition err_code (e : rerr) : N := match e with EEmpty => 1 | EFormat => 2 | EAddr => 3 | EPath => 4 end.
Definition t_rres (r : rres) : tm :=
  match r with ROk r => TL [TN 0; t_pair r] | RErr e => TL [TN 1; TN (err_code e)] end.
Definition t_ores {A} (f : A -> tm) (r : rres) (k : bytes * bytes -> A) : tm :=
  match r with ROk r => TL [TN 0; f (k r)] | RErr e => TL [TN 1; TN (err_code e)] end.

(** everything a single string can be asked *)
Definition all_of_string (s : bytes) : tm :=
  TL [TB (trim_space s); topt t_pair (split_host_port s); tbool (parse_ip s); tbool (is_domain s);
      tbool (is_valid_host s); tbool (is_valid_port s); tbool (is_valid_path s);
      topt TB (normalize_address s); topt TB (normalize_path s); t_rres (parse_ref s)].

(** everything an (address, path) pair can be asked: NewRef, then on its result String, ParseRef of the
    string, NewRef again, Clone/Equals *)
Definition all_of_pair (a p : bytes) : tm :=
  TL [TB (format_ref a p);
      match new_ref a p with
      | ROk r => TL [TN 0; t_pair r; TB (ref_string r); t_rres (parse_ref (ref_string r));
                     t_rres (new_ref (fst r) (snd r)); tbool (ref_equals r (clone r))]
      | RErr e => TL [TN 1; TN (err_code e)]
      end].

Definition run_ref (t : tm) : tm :=
  match t with
  | TL [TN 0; TB s] => TB (trim_space s)
  | TL [TN 1; TB s] => topt t_pair (split_host_port s)
  | TL [TN 2; TB s] => tbool (parse_ip s)
  | TL [TN 3; TB s] => tbool (is_domain s)
  | TL [TN 4; TB s] => tbool (is_valid_host s)
  | TL [TN 5; TB s] => tbool (is_valid_port s)
  | TL [TN 6; TB s] => tbool (is_valid_path s)
  | TL [TN 7; TB s] => topt TB (normalize_address s)
  | TL [TN 8; TB s] => topt TB (normalize_path s)
  | TL [TN 9; TB a; TB p] => TB (format_ref a p)
  | TL [TN 10; TB b; TB s] => TB (join_path b s)
  | TL [TN 11; TB a; TB p] => t_rres (new_ref a p)
  | TL [TN 12; TB s] => t_rres (parse_ref s)
  | TL [TN 13; TB a; TB p; TB seg] =>                      (* NewRef(a, p).Child(seg) *)
      match new_ref a p with ROk r => t_rres (child r seg) | RErr e => TL [TN 2; TN (err_code e)] end
  | TL [TN 14; TB a1; TB p1; TB a2; TB p2] =>              (* NewRef(a1,p1).Equals(NewRef(a2,p2)) *)
      match new_ref a1 p1, new_ref a2 p2 with
      | ROk r1, ROk r2 => TL [tbool (ref_equals r1 r2)]
      | _, _ => TL []
      end
  | TL [TN 15; l] => match get_list get_b l with Some l => tlist TB (normalize_addresses l) | None => tm_err 1 end
  | TL [TN 16; TB s] => tbool (is_addr_missing_port s)
  | TL [TN 17; TB s] => all_of_string s
  | TL [TN 18; TB a; TB p] => all_of_pair a p
  | _ => tm_err 0
  end.
