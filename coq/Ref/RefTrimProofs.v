(** strings.TrimSpace as modelled in RefModel.v: what is cut off consists of space bytes only, the result neither
    starts nor ends with a space rune, trimming is idempotent. *)
From Coq Require Import List NArith Bool Lia.
From Coq Require Import ZifyN ZifyNat ZifyBool.
From Vivid Require Import Ref.RefModel.
Import ListNotations.
Local Open Scope N_scope.

Section Gen.
  Variables (p1 : N -> bool) (p2 : N -> N -> bool) (p3 : N -> N -> N -> bool).
  Variable B : N -> bool.   (* the bytes a space rune may consist of *)
  Hypothesis B1 : forall a, p1 a = true -> B a = true.
  Hypothesis B2 : forall a b, p2 a b = true -> B a = true /\ B b = true.
  Hypothesis B3 : forall a b c, p3 a b c = true -> B a = true /\ B b = true /\ B c = true.

  Definition starts_gen (s : bytes) : bool :=
    match s with
    | [] => false
    | a :: r => p1 a || match r with
                        | [] => false
                        | b :: r2 => p2 a b || match r2 with [] => false | c :: _ => p3 a b c end
                        end
    end.

  Lemma trim_gen_fix s : starts_gen s = false -> trim_gen p1 p2 p3 s = s.
  Proof.
    destruct s as [|a [|b [|c r]]]; cbn [starts_gen trim_gen]; intros H; try reflexivity.
    - apply orb_false_iff in H as [H _]. rewrite H. reflexivity.
    - apply orb_false_iff in H as [H H']. apply orb_false_iff in H' as [H' _]. rewrite H, H'. reflexivity.
    - apply orb_false_iff in H as [H H']. apply orb_false_iff in H' as [H' H'']. rewrite H, H', H''. reflexivity.
  Qed.

  Lemma trim_gen_spec : forall (n : nat) s, (length s <= n)%nat ->
    starts_gen (trim_gen p1 p2 p3 s) = false /\
    exists pre, s = pre ++ trim_gen p1 p2 p3 s /\ forallb B pre = true.
  Proof.
    induction n as [|n IH]; intros s Hn.
    - destruct s; [|cbn in Hn; lia]. split; [reflexivity|]. exists []. split; reflexivity.
    - destruct s as [|a r]. { split; [reflexivity|]. exists []. split; reflexivity. }
      cbn [trim_gen]. destruct (p1 a) eqn:E1.
      { destruct (IH r) as [S [pre [E F]]]; [cbn in Hn; lia|]. split; [exact S|].
        exists (a :: pre). split; [cbn; f_equal; exact E|]. cbn. rewrite (B1 _ E1), F. reflexivity. }
      destruct r as [|b r2].
      { split; [cbn; rewrite E1; reflexivity|]. exists []. split; reflexivity. }
      destruct (p2 a b) eqn:E2.
      { destruct (IH r2) as [S [pre [E F]]]; [cbn in Hn; lia|]. split; [exact S|].
        exists (a :: b :: pre). split; [cbn; do 2 f_equal; exact E|].
        destruct (B2 _ _ E2) as [Ha Hb]. cbn. rewrite Ha, Hb, F. reflexivity. }
      destruct r2 as [|c r3].
      { split; [cbn; rewrite E1, E2; reflexivity|]. exists []. split; reflexivity. }
      destruct (p3 a b c) eqn:E3.
      { destruct (IH r3) as [S [pre [E F]]]; [cbn in Hn; lia|]. split; [exact S|].
        exists (a :: b :: c :: pre). split; [cbn; do 3 f_equal; exact E|].
        destruct (B3 _ _ _ E3) as [Ha [Hb Hc]]. cbn. rewrite Ha, Hb, Hc, F. reflexivity. }
      split; [cbn; rewrite E1, E2, E3; reflexivity|]. exists []. split; reflexivity.
  Qed.

  Lemma trim_gen_nostart s : starts_gen (trim_gen p1 p2 p3 s) = false.
  Proof. exact (proj1 (trim_gen_spec (length s) s (le_n _))). Qed.
  Lemma trim_gen_decomp s : exists pre, s = pre ++ trim_gen p1 p2 p3 s /\ forallb B pre = true.
  Proof. exact (proj2 (trim_gen_spec (length s) s (le_n _))). Qed.
  Lemma trim_gen_idem s : trim_gen p1 p2 p3 (trim_gen p1 p2 p3 s) = trim_gen p1 p2 p3 s.
  Proof. apply trim_gen_fix, trim_gen_nostart. Qed.

  (** a string that starts with a space rune still does so when it is extended *)
  Lemma starts_gen_app s x : starts_gen s = true -> starts_gen (s ++ x) = true.
  Proof.
    destruct s as [|a [|b [|c r]]]; cbn [starts_gen app]; intros H; try discriminate.
    - rewrite orb_false_r in H. rewrite H. reflexivity.
    - rewrite orb_false_r in H. apply orb_true_iff in H as [H|H]; rewrite H; [reflexivity|].
      rewrite orb_true_r; reflexivity.
    - exact H.
  Qed.
End Gen.

(** * the two directions *)

Lemma sb1 a : ascii_space a = true -> space_byte a = true.
Proof. unfold space_byte. intros ->. reflexivity. Qed.
Lemma sb2 a b : sp2 a b = true -> space_byte a = true /\ space_byte b = true.
Proof. unfold sp2, space_byte, ascii_space. lia. Qed.
Lemma sb3 a b c : sp3 a b c = true -> space_byte a = true /\ space_byte b = true /\ space_byte c = true.
Proof. unfold sp3, space_byte, ascii_space. lia. Qed.
Lemma sb2r c b : sp2 b c = true -> space_byte c = true /\ space_byte b = true.
Proof. intros H. destruct (sb2 _ _ H). tauto. Qed.
Lemma sb3r c b a : sp3 a b c = true -> space_byte c = true /\ space_byte b = true /\ space_byte a = true.
Proof. intros H. destruct (sb3 _ _ _ H) as [? [? ?]]. tauto. Qed.

Notation starts_space := (starts_gen ascii_space sp2 sp3).
Notation ends_space_rev := (starts_gen ascii_space (fun c b => sp2 b c) (fun c b a => sp3 a b c)).

Lemma trim_left_decomp s : exists pre, s = pre ++ trim_left s /\ forallb space_byte pre = true.
Proof. exact (trim_gen_decomp _ _ _ space_byte sb1 sb2 sb3 s). Qed.
Lemma trim_left_rev_decomp s : exists pre, s = pre ++ trim_left_rev s /\ forallb space_byte pre = true.
Proof. exact (trim_gen_decomp _ _ _ space_byte sb1 sb2r sb3r s). Qed.

Lemma exists_last_or_nil {A} (l : list A) : l = [] \/ exists l' z, l = l' ++ [z].
Proof. destruct l as [|x l]; [left; reflexivity|right]. destruct (exists_last (l := x :: l)) as [l' [z E]]; [discriminate|]. exists l', z. exact E. Qed.

Lemma forallb_rev {A} (f : A -> bool) l : forallb f (rev l) = forallb f l.
Proof.
  induction l as [|x l IH]; [reflexivity|]. cbn. rewrite forallb_app, IH. cbn. rewrite andb_true_r. apply andb_comm.
Qed.

Lemma trim_right_decomp s : exists post, s = trim_right s ++ post /\ forallb space_byte post = true.
Proof.
  unfold trim_right. destruct (trim_left_rev_decomp (rev s)) as [pre [E F]].
  exists (rev pre). split; [|rewrite forallb_rev; exact F].
  rewrite <- rev_app_distr, <- E, rev_involutive. reflexivity.
Qed.

(** s = pre ++ TrimSpace(s) ++ post, and pre, post consist of space bytes *)
Lemma trim_space_decomp s :
  exists pre post, s = pre ++ trim_space s ++ post /\ forallb space_byte pre = true /\ forallb space_byte post = true.
Proof.
  unfold trim_space. destruct (trim_left_decomp s) as [pre [E F]].
  destruct (trim_right_decomp (trim_left s)) as [post [E' F']].
  exists pre, post. split; [|tauto]. rewrite <- E'. exact E.
Qed.

Lemma trim_left_fix s : starts_space s = false -> trim_left s = s.
Proof. apply trim_gen_fix. Qed.
Lemma trim_left_nostart s : starts_space (trim_left s) = false.
Proof. exact (trim_gen_nostart _ _ _ space_byte sb1 sb2 sb3 s). Qed.

(** TrimSpace is idempotent *)
Theorem trim_space_idem s : trim_space (trim_space s) = trim_space s.
Proof.
  unfold trim_space.
  set (u := trim_left s). set (v := trim_right u).
  assert (Hv : trim_left v = v).
  { apply trim_left_fix. destruct (starts_space v) eqn:E; [|reflexivity].
    destruct (trim_right_decomp u) as [post [Eu _]]. fold v in Eu.
    assert (H := starts_gen_app ascii_space sp2 sp3 v post E). rewrite <- Eu in H.
    unfold u in H. rewrite trim_left_nostart in H. discriminate. }
  rewrite Hv. unfold v, trim_right. rewrite rev_involutive. unfold trim_left_rev. rewrite (trim_gen_idem _ _ _ space_byte sb1 sb2r sb3r). reflexivity.
Qed.

(** * consequences used by the reference theorems *)
Lemma has_byte_app c a b : has_byte c (a ++ b) = has_byte c a || has_byte c b.
Proof. apply existsb_app. Qed.

Lemma has_byte_space c l : space_byte c = false -> forallb space_byte l = true -> has_byte c l = false.
Proof.
  intros Hc. unfold has_byte. induction l as [|x l IH]; [reflexivity|]. cbn [existsb forallb]. intros H.
  apply andb_true_iff in H as [Hx Hl].
  rewrite (IH Hl), orb_false_r. apply N.eqb_neq. intros ->. congruence.
Qed.

(** a byte that is not a space byte is neither removed nor introduced by trimming *)
Lemma trim_space_has_byte c s : space_byte c = false -> has_byte c (trim_space s) = has_byte c s.
Proof.
  intros Hc. destruct (trim_space_decomp s) as [pre [post [E [F G]]]].
  rewrite E at 2. rewrite !has_byte_app, (has_byte_space c pre Hc F), (has_byte_space c post Hc G).
  rewrite orb_false_r. reflexivity.
Qed.

(** a string whose first byte is not a space byte loses nothing at the front *)
Lemma trim_space_first c r : space_byte c = false -> exists post, c :: r = trim_space (c :: r) ++ post /\ forallb space_byte post = true.
Proof.
  intros Hc. destruct (trim_space_decomp (c :: r)) as [pre [post [E [F G]]]].
  destruct pre as [|x pre].
  - exists post. split; [exact E|exact G].
  - cbn in E. injection E as Ex _. subst x. cbn in F. rewrite Hc in F. discriminate.
Qed.

(** p ends in a byte that is not a space byte and starts with one: trimming p ++ x keeps p as a prefix *)
Lemma trim_space_keeps_prefix c p x :
  space_byte c = false -> space_byte (last (c :: p) 0) = false ->
  exists y, trim_space ((c :: p) ++ x) = (c :: p) ++ y.
Proof.
  intros Hc Hl. destruct (trim_space_first c (p ++ x) Hc) as [post [E G]].
  change (c :: p ++ x) with ((c :: p) ++ x) in E.
  set (t := trim_space ((c :: p) ++ x)) in *.
  apply app_eq_app in E as [l [[E1 E2]|[E1 E2]]].
  - (* c :: p = t ++ l, post = l ++ x: l must be empty, its last byte would be a trimmed space byte *)
    destruct (exists_last_or_nil l) as [->|[l' [z ->]]].
    + exists []. rewrite app_nil_r in *. symmetry. exact E1.
    + exfalso. rewrite E1, app_assoc, last_last in Hl.
      rewrite E2, forallb_app, forallb_app in G. cbn in G. rewrite Hl in G.
      rewrite andb_false_r, andb_false_l in G. discriminate.
  - exists l. exact E1.
Qed.
