(** The modelled actor.NewRef as the ActorRef factory of the wire codec (Codec/Msgs.v [newref], the factory
    vivid.RegisterActorRefFactory installs) and as the NewRef of HandleRemotingEnvelop (Remoting/Transparency.v):
    the hypotheses "NewRef is idempotent" / "newref a p = MOk (a, p)" of C12 and C15 hold for every reference
    NewRef can make. *)
From Coq Require Import List NArith Bool Lia.
From Vivid Require Import Codec.Prim Codec.MsgPrim Codec.Msgs Remoting.Transparency.
From Vivid Require Import Ref.RefModel Ref.RefProofs.
Import ListNotations.
Local Open Scope N_scope.

(** the factory: any rejection is "bad ref" for the decoder *)
Definition ref_newref (a p : bytes) : mres (bytes * bytes) :=
  match new_ref a p with ROk r => MOk r | RErr _ => MErr MEBadRef end.

Lemma ref_newref_ok a p r : ref_newref a p = MOk r <-> new_ref a p = ROk r.
Proof. unfold ref_newref. destruct (new_ref a p); split; intros H; try discriminate; injection H as <-; reflexivity. Qed.

Lemma ref_newref_idem a p a' p' : ref_newref a p = MOk (a', p') -> ref_newref a' p' = MOk (a', p').
Proof. rewrite !ref_newref_ok. exact (new_ref_idem a p (a', p')). Qed.

Lemma valid_ref_newref r : valid_ref r <-> ref_newref (fst r) (snd r) = MOk r.
Proof. unfold valid_ref. symmetry. apply ref_newref_ok. Qed.

Lemma valid_ref_nonempty r : valid_ref r -> fst r <> [].
Proof. destruct r as [a p]. intros V. destruct (valid_ref_inv _ _ V) as [_ [_ [_ [_ [H _]]]]]. exact H. Qed.

(** a reference NewRef made, with strings below 4 GiB, is a valid ActorRef field / envelope reference *)
Lemma valid_ref_kref r : valid_ref r -> len32 (fst r) -> len32 (snd r) -> valid_kref ref_newref (RRef (fst r) (snd r)).
Proof.
  intros V La Lp. cbn [valid_kref]. split; [exact La|]. split; [exact Lp|]. split; [left; exact (valid_ref_nonempty _ V)|].
  destruct r as [a p]. apply (proj1 (valid_ref_newref (a, p))). exact V.
Qed.

Lemma valid_ref_aref r : valid_ref r -> len32 (fst r) -> len32 (snd r) -> valid_aref ref_newref r.
Proof. intros V La Lp. unfold valid_aref, to_eref. exact (valid_ref_kref r V La Lp). Qed.

(** the receiver re-addressed to the system's own advertised address *)
Lemma valid_ref_readdress own r : normalize_address own = Some own -> valid_ref r -> valid_ref (own, snd r).
Proof.
  destruct r as [a p]. intros Ho V. unfold valid_ref in *. cbn [fst snd] in *.
  destruct (new_ref_ok _ _ _ V) as [_ Hp]. cbn [snd] in Hp. unfold new_ref. rewrite Ho, Hp. reflexivity.
Qed.
