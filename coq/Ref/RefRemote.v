(** C15's per-operation theorems (Remoting/TransparencyProofs.v) instantiated with the MODELLED NewRef: the
    hypothesis [valid_aref newref r] ("NewRef accepts the reference's strings unchanged") is discharged for every
    reference NewRef or ParseRef can make. *)
From Coq Require Import List NArith ZArith Bool Lia.
From Coq Require Import ZifyN ZifyNat ZifyBool.
From Vivid Require Import Codec.Prim Codec.MsgPrim Codec.Msgs Codec.MsgsProofs Remoting.Frame Codec.Envelope
  Remoting.Transparency Remoting.TransparencyProofs.
From Vivid Require Import Ref.RefModel Ref.RefProofs Ref.RefCodec.
Import ListNotations.
Local Open Scope N_scope.

Lemma small_len32 b : small b -> len32 b.
Proof. unfold small, len32. lia. Qed.

Lemma valid_ref_small_aref r : valid_ref r -> small_aref r -> valid_aref ref_newref r.
Proof. intros V [Sa Sp]. apply valid_ref_aref; [exact V|apply small_len32, Sa|apply small_len32, Sp]. Qed.

Lemma readdressed_small_aref own r :
  normalize_address own = Some own -> small own -> valid_ref r -> small_aref r -> valid_aref ref_newref (own, snd r).
Proof.
  intros Ho So V [_ Sp]. apply valid_ref_aref; [exact (valid_ref_readdress own r Ho V)|apply small_len32, So|apply small_len32, Sp].
Qed.

Section Inst.
  Variable U : Type.
  Variable hc : bool.
  Variable cenc : U -> mres bytes.
  Variable cdec : bytes -> mres U.
  Variable qerr : Z -> option bytes.

  Theorem ref_remote_kill (own : bytes) (killer target : bytes * bytes) (reason : bytes) (poison : bool) :
    valid_ref killer -> valid_ref target -> normalize_address own = Some own -> small own ->
    small_aref killer -> small_aref target -> small reason ->
    exists e',
      remote_transport U hc cenc cdec qerr ref_newref own (op_envelope U (OpKill killer target reason poison)) = Some e' /\
      (forall chunks, concat chunks = wire_bytes U hc cenc (op_envelope U (OpKill killer target reason poison)) ->
                      remote_receive U hc cdec qerr ref_newref own chunks = [Some e']) /\
      e_system U e' = negb poison /\
      e_msg U e' = M_OnKill (RRef (fst killer) (snd killer)) reason poison /\
      e_sender U e' = RRef (fst killer) (snd killer) /\
      e_receiver U e' = RRef own (snd target) /\
      find_mailbox own (e_receiver U e') = ToLocal (snd target).
  Proof.
    intros Vk Vt Ho So Sk St Sr.
    exact (remote_kill U hc cenc cdec qerr ref_newref own killer target reason poison
             (valid_ref_small_aref _ Vk Sk) (valid_ref_small_aref _ Vt St) (readdressed_small_aref own target Ho So Vt St) Sk St Sr).
  Qed.

  Theorem ref_remote_watch_onkilled (ownW ownT : bytes) (watcher target : bytes * bytes) :
    valid_ref watcher -> valid_ref target ->
    normalize_address ownW = Some ownW -> normalize_address ownT = Some ownT -> small ownW -> small ownT ->
    small_aref watcher -> small_aref target ->
    exists e1 e2,
      remote_transport U hc cenc cdec qerr ref_newref ownT (op_envelope U (OpWatch watcher target)) = Some e1 /\
      killed_notice U (ownT, snd target) (e_sender U e1) = op_envelope U (OpKilledNotice (ownT, snd target) watcher) /\
      remote_transport U hc cenc cdec qerr ref_newref ownW (killed_notice U (ownT, snd target) (e_sender U e1)) = Some e2 /\
      (forall chunks, concat chunks = wire_bytes U hc cenc (killed_notice U (ownT, snd target) (e_sender U e1)) ->
                      remote_receive U hc cdec qerr ref_newref ownW chunks = [Some e2]) /\
      e_system U e2 = true /\
      e_msg U e2 = M_OnKilled (RRef ownT (snd target)) /\
      find_mailbox ownW (e_receiver U e2) = ToLocal (snd watcher).
  Proof.
    intros Vw Vt HoW HoT SoW SoT Sw St.
    exact (remote_onkilled_names_target U hc cenc cdec qerr ref_newref ownW ownT watcher target
             (valid_ref_small_aref _ Vw Sw) (readdressed_small_aref ownW watcher HoW SoW Vw Sw)
             (valid_ref_small_aref _ Vt St) (readdressed_small_aref ownT target HoT SoT Vt St) Sw St SoT).
  Qed.
End Inst.

(** C12: the ActorRef fields of OnKill / OnKilled round-trip through the codec whose factory is the modelled NewRef,
    for every reference NewRef can make *)
Theorem ref_onkill_roundtrip (k : bytes * bytes) (reason : bytes) (poison : bool) (rest : bytes) :
  valid_ref k -> len32 (fst k) -> len32 (snd k) -> len32 reason ->
  drun (dec_OnKill ref_newref) (enc_OnKill (RRef (fst k) (snd k)) reason poison ++ rest) = MOk ((RRef (fst k) (snd k), reason, poison), rest).
Proof.
  intros V La Lp Lr. exact (OnKill_rt ref_newref (RRef (fst k) (snd k)) reason poison rest (valid_ref_kref k V La Lp) Lr).
Qed.
Theorem ref_onkilled_roundtrip (k : bytes * bytes) (rest : bytes) :
  valid_ref k -> len32 (fst k) -> len32 (snd k) ->
  drun (dec_OnKilled ref_newref) (enc_OnKilled (RRef (fst k) (snd k)) ++ rest) = MOk (RRef (fst k) (snd k), rest).
Proof.
  intros V La Lp. exact (OnKilled_rt ref_newref (RRef (fst k) (snd k)) rest (valid_ref_kref k V La Lp)).
Qed.
