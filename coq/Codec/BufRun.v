(** Executable entry point of the Writer/Reader state-machine model ([Codec.Buf]) and of the string-level
    model of the ActorRef factory ([Codec.RefNorm]) for the correspondence check. *)
From Coq Require Import List NArith ZArith Bool.
From Vivid Require Import Base.Tm Base.ResTm Codec.Prim Codec.Prim2 Codec.PrimO Codec.Reflect Codec.ReflectO
                          Codec.ReflectRun Codec.Buf Codec.RefNorm.
Import ListNotations.
Local Open Scope N_scope.

Definition get_order (t : tm) : option order :=
  match t with TN 0 => Some BE | TN 1 => Some LE | _ => None end.
Definition get_oord (t : tm) : option (option order) :=
  match t with
  | TL [] => Some None
  | TL [x] => option_map Some (get_order x)
  | _ => None
  end.
Definition t_order (o : order) : tm := TN (match o with BE => 0 | LE => 1 end).

Definition get_sret (t : tm) : option sret :=
  match t with TN 0 => Some RetSticky | TN 1 => Some RetNil | TN 2 => Some RetErr | TN 3 => Some RetPanic | _ => None end.

Definition get_tys (t : tm) : option (list goty) := get_list get_ty t.

Fixpoint get_wop (t : tm) : option wop :=
  match t with
  | TL [TN 0; TN b; v] =>
      match basic_of b, get_val v with
      | Some b, Some v => if basic_ok b v then Some (WPrim b v) else None
      | _, _ => None
      end
  | TL [TN 1; z] => option_map WVarint (get_z z)
  | TL [TN 2; TN n] => Some (WUvarint n)
  | TL [TN 3; TB bs] => Some (WBytes bs)
  | TL [TN 4; z; TB bs] => option_map (fun z => WBytesLen z bs) (get_z z)
  | TL [TN 5; TB s] => Some (WShort s)
  | TL [TN 6; ty; v] =>
      match get_ty ty, get_val v with
      | Some ty, Some v => if has_typeb ty v then Some (WWrite ty v) else None
      | _, _ => None
      end
  | TL [TN 7; TL l] =>
      match get_pairs l with
      | Some l => if all_typed l then Some (WWriteFrom l) else None
      | None => None
      end
  | TL [TN 8] => Some WReset
  | TL [TN 9; TB name; TL body; ret] =>
      match (fix go (l : list tm) : option (list wop) :=
               match l with
               | [] => Some []
               | x :: r => match get_wop x, go r with Some a, Some b => Some (a :: b) | _, _ => None end
               end) body, get_sret ret with
      | Some b, Some r => Some (WMsgReg name b r)
      | _, _ => None
      end
  | TL [TN 10; TL []] => Some (WMsgOut None)
  | TL [TN 10; TL [TL []]] => Some (WMsgOut (Some None))
  | TL [TN 10; TL [TL [TB d]]] => Some (WMsgOut (Some (Some d)))
  | _ => None
  end.

Definition get_prop (t : tm) : option prop :=
  match t with
  | TL [TN 0; TN b] => option_map RPrim (basic_of b)
  | TL [TN 1] => Some RVarint
  | TL [TN 2] => Some RUvarint
  | TL [TN 3; TN n] => Some (RBytes n)
  | TL [TN 4; z] => option_map RBytesLen (get_z z)
  | TL [TN 5] => Some RShort
  | TL [TN 6; ty] => option_map RRead (get_ty ty)
  | TL [TN 7; tys] => option_map RReadInto (get_tys tys)
  | TL [TN 8; TN n] => Some (RSkip n)
  | TL [TN 9; z] => option_map RSeek (get_z z)
  | _ => None
  end.
Definition get_rop (t : tm) : option rop :=
  match t with
  | TL [TN 20; TB data] => Some (RReset data)
  | TL [TN 21] => Some RMsg
  | _ => option_map RPlain (get_prop t)
  end.

Definition get_ids (t : tm) : option (list N) := get_list get_n t.

Definition get_sop (t : tm) : option sop :=
  match t with
  | TL [TN 0; TN h; TN id; ord; buf; reset] =>
      match get_oord ord, get_bool reset with
      | Some ord, Some reset =>
          match buf with
          | TL [] => Some (SNewW h id ord None reset)
          | TL [TB b; TN c] => Some (SNewW h id ord (Some (b, c)) reset)
          | _ => None
          end
      | _, _ => None
      end
  | TL [TN 1; TN h; ord; TN id] => option_map (fun ord => SGetW h ord id) (get_oord ord)
  | TL [TN 2; TN h] => Some (SRelW h)
  | TL [TN 3; TN h; op; ids] =>
      match get_wop op, get_ids ids with Some op, Some ids => Some (SW h op ids) | _, _ => None end
  | TL [TN 4; TN h; TN id; TB data; ord] => option_map (fun ord => SNewR h id data ord) (get_oord ord)
  | TL [TN 5; TN h; TB data; ord; TN id] => option_map (fun ord => SGetR h data ord id) (get_oord ord)
  | TL [TN 6; TN h] => Some (SRelR h)
  | TL [TN 7; TN h; op; ids] =>
      match get_rop op, get_ids ids with Some op, Some ids => Some (SR h op ids) | _, _ => None end
  | _ => None
  end.

Definition get_env (t : tm) : option renv :=
  match t with
  | TL [tbl; TN codec] =>
      option_map (fun tb => mkEnv tb codec)
        (get_list (fun e => match e with
                            | TL [TB name; script] => option_map (fun s => (name, s)) (get_list get_prop script)
                            | _ => None
                            end) tbl)
  | _ => None
  end.

Definition xerr_code (e : xerr) : N :=
  match e with XE e => err_code e | XCodec => 10 | XNoCodec => 11 | XRecovered => 12 | XScript => 13 end.
Definition t_oerr (e : option err) : tm := match e with None => TN 0 | Some e => TN (err_code e) end.
Definition t_oxerr (e : option xerr) : tm := match e with None => TN 0 | Some e => TN (xerr_code e) end.

Fixpoint t_rval (v : rval) : tm :=
  match v with
  | RVGo v => TL [TN 0; t_val v]
  | RVGos l => TL [TN 1; tlist t_val l]
  | RVBytes b => TL [TN 2; TB b]
  | RVN n => TL [TN 3; TN n]
  | RVZ z => TL [TN 4; tz z]
  | RVUnit => TL [TN 5]
  | RVMsg name fs => TL [TN 6; TB name; TL (map t_rval fs)]
  | RVOut d => TL [TN 7; TB d]
  end.
Definition t_rout (r : rout) : tm :=
  match r with inl v => TL [TN 0; t_rval v] | inr e => TL [TN 1; TN (xerr_code e)] end.

(** what the harness observes of a Writer: Bytes(), cap, byte order, Err(), and what WriteMessage returned *)
Definition t_obs (o : sobs) : tm :=
  match o with
  | ObsW w ret => TL [TN 0; TB (w_buf w); TN (w_cap w); t_order (w_ord w); t_oerr (w_err w); t_oxerr ret]
  | ObsR r res =>
      (* Pos(), Error(), RemainingSize(), Remaining() (nil in the error state), the element counter, the byte order, the result *)
      TL [TN 1; TN (r_pos r); t_oerr (r_err r);
          match r_err r with Some _ => TL [] | None => TL [TB (rrem r)] end;
          TN (r_elems r); t_order (r_ord r); t_rout res]
  | ObsNone => TL [TN 2]
  | ObsDead => TL [TN 3]
  end.

(** NormalizeAddress / NormalizePath / NewRef: the oracle is the list of strings on which net.ParseIP
    answered "an IP address" *)
Definition t_obytes (o : option bytes) : tm := match o with Some b => TL [TB b] | None => TL [] end.
Fixpoint beqb (a b : bytes) : bool :=
  match a, b with
  | [], [] => true
  | x :: a', y :: b' => (x =? y) && beqb a' b'
  | _, _ => false
  end.
Definition ip_of (ips : list bytes) (s : bytes) : bool := existsb (fun x => beqb x s) ips.

Definition run_buf (t : tm) : tm :=
  match t with
  (* a scenario *)
  | TL [TN 0; env; TL steps] =>
      match get_env env, map_opt get_sop steps with
      | Some env, Some ops => TL (map t_obs (snd (run_scenario env ops s_init)))
      | _, _ => tm_err 1
      end
  (* NormalizePath *)
  | TL [TN 1; TB p] => t_obytes (norm_path p)
  (* NormalizeAddress with the ParseIP oracle *)
  | TL [TN 2; TB a; ips] =>
      match get_list get_b ips with
      | Some ips => t_obytes (norm_address (ip_of ips) a)
      | None => tm_err 1
      end
  (* NewRef *)
  | TL [TN 3; TB a; TB p; ips] =>
      match get_list get_b ips with
      | Some ips => match new_ref (ip_of ips) a p with
                    | inl (a', p') => TL [TN 0; TB a'; TB p']
                    | inr c => TL [TN 1; TN c]
                    end
      | None => tm_err 1
      end
  (* strings.TrimSpace *)
  | TL [TN 4; TB s] => TB (trim_space s)
  | _ => tm_err 0
  end.

(** the entry point of the components [reflect] / [reflect_total]: the cases of the generic Writer/Reader model
    ([ReflectRun.run_reflect]) and, tagged with 100, those of this file *)
Definition run_reflect_all (t : tm) : tm :=
  match t with
  | TL [TN 100; x] => run_buf x
  | _ => run_reflect t
  end.
