(** Remaining primitives of internal/messages Writer/Reader (writer.go / reader.go) that
    [Codec/Prim.v] does not have: int8/int16, float32/float64, Uvarint/Varint exactly as
    encoding/binary, short strings, WriteBytesWithLength/ReadBytesWithLength for every size
    argument, ReadBytes/Skip with a caller-supplied (possibly negative) count.

    Floats: the Go code only moves bits (math.Float32bits / Float32frombits and the 64-bit pair are bit
    casts), so a float is modelled by its IEEE-754 bit pattern, an [N] below 2^32 / 2^64.  NaN payloads,
    signalling NaNs and -0 are therefore ordinary values here. *)
From Coq Require Import List NArith ZArith Lia Bool.
From Coq Require Import ZifyN ZifyNat ZifyBool.
From Vivid Require Import Codec.Prim.
Import ListNotations.
Local Open Scope N_scope.

(** ** int8 / int16 : WriteInt8 = writeByte(byte(v)), WriteInt16 = WriteUint16(uint16(v)) *)
Definition put_i8 (z : Z) := put_u8 (of_signed 8 z).
Definition put_i16 (z : Z) := put_u16 (of_signed 16 z).
Definition rd_i8 (bs : bytes) : res (Z * bytes) := let* (n, t) := rd_u8 bs in Ok (to_signed 8 n, t).
Definition rd_i16 (bs : bytes) : res (Z * bytes) := let* (n, t) := rd_u16 bs in Ok (to_signed 16 n, t).

(** ** float32 / float64 as bit patterns *)
Definition put_f32 (bits : N) := put_u32 bits.
Definition put_f64 (bits : N) := put_u64 bits.
Definition rd_f32 := rd_u32.
Definition rd_f64 := rd_u64.

(** ** binary.PutUvarint: [for x >= 0x80 { buf[i] = byte(x)|0x80; x >>= 7; i++ }; buf[i] = byte(x)].
    The argument is a uint64, so it is reduced modulo 2^64 first; then at most 9 continuation bytes
    are produced (9*7 = 63 bits), which is what the fuel says. *)
Fixpoint uv_enc (fuel : nat) (x : N) : bytes :=
  if x <? 128 then [x] else
  match fuel with
  | O => [x mod 256]                                   (* unreachable for x < 2^64 and fuel 9 *)
  | S f => (x mod 128 + 128) :: uv_enc f (x / 128)
  end.
Definition put_uvarint (n : N) : bytes := uv_enc 9 (n mod 18446744073709551616).

(** binary.Uvarint: [i] = index of the byte, [x] = accumulated value, [s] = shift.
    Result of the Go function (value, n): n > 0 ok, n = 0 "buffer too small" (the Reader turns it into
    io.ErrUnexpectedEOF), n < 0 overflow (the Reader turns it into ErrOverflow).
    [x | uint64(b&0x7f) << s]: the bit ranges are disjoint and stay below 2^64 for i <= 9 (the last
    byte is at most 1), so the bitwise or is the sum and nothing is truncated. *)
Fixpoint uv_dec (i : nat) (x s : N) (bs : bytes) : res (N * bytes) :=
  match bs with
  | [] => Err EEOF
  | b :: r =>
      if Nat.eqb i 10 then Err EOverflow
      else if b <? 128 then
             if Nat.eqb i 9 && (1 <? b) then Err EOverflow
             else Ok (x + b * 2 ^ s, r)
           else uv_dec (S i) (x + (b mod 128) * 2 ^ s) (s + 7) r
  end.
Definition rd_uvarint (bs : bytes) : res (N * bytes) := uv_dec 0 0 0 bs.

(** zig-zag: PutVarint [ux := uint64(x) << 1; if x < 0 { ux = ^ux }], Varint [x := int64(ux >> 1); if ux&1 != 0 { x = ^x }] *)
Definition zigzag (z : Z) : N := if (0 <=? z)%Z then Z.to_N (2 * z) else Z.to_N (- 2 * z - 1).
Definition unzigzag (u : N) : Z := if N.even u then Z.of_N (u / 2) else (- Z.of_N (u / 2) - 1)%Z.
(** the argument is an int64: reduce to its two's complement representative first *)
Definition put_varint (z : Z) : bytes := put_uvarint (zigzag (to_signed 64 (of_signed 64 z))).
Definition rd_varint (bs : bytes) : res (Z * bytes) := let* (u, t) := rd_uvarint bs in Ok (unzigzag u, t).

(** ** WriteBytesWithLength(v, lengthSize) / ReadBytesWithLength(lengthSize) for an arbitrary int lengthSize *)
Definition put_lpk (size : Z) (b : bytes) : res bytes :=
  match size with
  | 1%Z => put_lp 1 b
  | 2%Z => put_lp 2 b
  | 4%Z => Ok (put_lp4 b)
  | _ => Err EInvalid
  end.
Definition rd_lpk (size : Z) (bs : bytes) : res (bytes * bytes) :=
  match size with
  | 1%Z => rd_lp 1 bs
  | 2%Z => rd_lp 2 bs
  | 4%Z => rd_lp4 bs
  | _ => Err EInvalid
  end.

(** WriteString / ReadString, WriteShortString / ReadShortString (a string is its bytes) *)
Definition put_string (s : bytes) : bytes := put_lp4 s.
Definition rd_string := rd_lp4.
Definition put_short (s : bytes) : res bytes := put_lp 1 s.
Definition rd_short := rd_lp 1.

(** ** outcomes that include the crashes of the Go code *)
Inductive why : Type :=
| WNilDeref          (* nil pointer dereference *)
| WSliceBounds       (* slice bounds / index out of range *)
| WOther.
Inductive out (A : Type) : Type :=
| OOk (a : A)
| OErr (e : err)
| OPanic (w : why)
| OFuel              (* the model's loop fuel ran out: never a normal value, excluded by theorem *)
| OIll.              (* the (type, value) pair given to the model is not well typed: not a Go value *)
Arguments OOk {A} a.
Arguments OErr {A} e.
Arguments OPanic {A} w.
Arguments OFuel {A}.
Arguments OIll {A}.
Definition of_res {A} (r : res A) : out A := match r with Ok a => OOk a | Err e => OErr e end.

(** ReadBytes(n int): [check(n)] is [pos+n > len(buf)]; a negative n passes the check and the slice
    expression [buf[pos:pos+n]] panics; n = 0 gives an empty slice. *)
Definition rd_bytes_z (n : Z) (bs : bytes) : out (bytes * bytes) :=
  if (n <? 0)%Z then
    (* pos + n <= len always holds for n < 0, so check passes; buf[pos:pos+n] has high < low: panic *)
    OPanic WSliceBounds
  else of_res (take_N (Z.to_N n) bs).
