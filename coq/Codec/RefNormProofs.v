(** Proofs about the string-level model of the ActorRef factory ([Codec.RefNorm]): what the round-trip theorems of
    the messages that carry an ActorRef (OnKill, OnKilled, envelopes) need of the factory is that it accepts its own
    output unchanged — it is IDEMPOTENT — and that is proved here for every ParseIP oracle. *)
From Coq Require Import List NArith ZArith Lia Bool.
From Coq Require Import ZifyN ZifyNat ZifyBool.
From Vivid Require Import Codec.Prim Codec.MsgPrim Codec.RefNorm.
Import ListNotations.
Local Open Scope N_scope.

(** "does not begin with white space" *)
Definition nolead (x : bytes) : Prop :=
  match x with
  | [] => True
  | b :: r =>
      ascii_space b = false /\
      match r with
      | c :: r2 => sp2 b c = false /\ match r2 with d :: _ => sp3 b c d = false | [] => True end
      | [] => True
      end
  end.
Definition noleadr (x : bytes) : Prop :=
  match x with
  | [] => True
  | b :: r =>
      ascii_space b = false /\
      match r with
      | c :: r2 => sp2 c b = false /\ match r2 with d :: _ => sp3 d c b = false | [] => True end
      | [] => True
      end
  end.

Lemma nolead_fix x : nolead x -> ltrim x = x.
Proof.
  destruct x as [|b [|c [|d r]]]; cbn [nolead ltrim]; auto.
  - intros [-> _]. reflexivity.
  - intros (-> & -> & _). reflexivity.
  - intros (-> & -> & ->). reflexivity.
Qed.
Lemma noleadr_fix x : noleadr x -> ltrim_rev x = x.
Proof.
  destruct x as [|b [|c [|d r]]]; cbn [noleadr ltrim_rev]; auto.
  - intros [-> _]. reflexivity.
  - intros (-> & -> & _). reflexivity.
  - intros (-> & -> & ->). reflexivity.
Qed.

(** ltrim returns a suffix that does not begin with white space *)
Lemma ltrim_spec n : forall s, (length s <= n)%nat -> nolead (ltrim s) /\ exists pre, s = pre ++ ltrim s.
Proof.
  induction n as [|n IH]; intros s Hl.
  - destruct s; [|cbn in Hl; lia]. cbn. split; [exact I|exists []; reflexivity].
  - destruct s as [|b r]; [cbn; split; [exact I|exists []; reflexivity]|]. cbn [length] in Hl. cbn [ltrim].
    destruct (ascii_space b) eqn:E1.
    { destruct (IH r ltac:(lia)) as [H1 [pre H2]]. split; [exact H1|]. exists (b :: pre). cbn. rewrite <- H2. reflexivity. }
    destruct r as [|c r2]; [cbn [nolead]; split; [auto|exists []; reflexivity]|]. cbn [length] in Hl.
    destruct (sp2 b c) eqn:E2.
    { destruct (IH r2 ltac:(lia)) as [H1 [pre H2]]. split; [exact H1|]. exists (b :: c :: pre). cbn. rewrite <- H2. reflexivity. }
    destruct r2 as [|d r3]; [cbn [nolead]; split; [auto|exists []; reflexivity]|]. cbn [length] in Hl.
    destruct (sp3 b c d) eqn:E3.
    { destruct (IH r3 ltac:(lia)) as [H1 [pre H2]]. split; [exact H1|]. exists (b :: c :: d :: pre). cbn. rewrite <- H2. reflexivity. }
    cbn [nolead]. split; [auto|exists []; reflexivity].
Qed.
Lemma ltrim_rev_spec n : forall s, (length s <= n)%nat -> noleadr (ltrim_rev s) /\ exists pre, s = pre ++ ltrim_rev s.
Proof.
  induction n as [|n IH]; intros s Hl.
  - destruct s; [|cbn in Hl; lia]. cbn. split; [exact I|exists []; reflexivity].
  - destruct s as [|b r]; [cbn; split; [exact I|exists []; reflexivity]|]. cbn [length] in Hl. cbn [ltrim_rev].
    destruct (ascii_space b) eqn:E1.
    { destruct (IH r ltac:(lia)) as [H1 [pre H2]]. split; [exact H1|]. exists (b :: pre). cbn. rewrite <- H2. reflexivity. }
    destruct r as [|c r2]; [cbn [noleadr]; split; [auto|exists []; reflexivity]|]. cbn [length] in Hl.
    destruct (sp2 c b) eqn:E2.
    { destruct (IH r2 ltac:(lia)) as [H1 [pre H2]]. split; [exact H1|]. exists (b :: c :: pre). cbn. rewrite <- H2. reflexivity. }
    destruct r2 as [|d r3]; [cbn [noleadr]; split; [auto|exists []; reflexivity]|]. cbn [length] in Hl.
    destruct (sp3 d c b) eqn:E3.
    { destruct (IH r3 ltac:(lia)) as [H1 [pre H2]]. split; [exact H1|]. exists (b :: c :: d :: pre). cbn. rewrite <- H2. reflexivity. }
    cbn [noleadr]. split; [auto|exists []; reflexivity].
Qed.

(** a prefix of a string that does not begin with white space does not begin with white space *)
Lemma nolead_prefix x y : nolead (x ++ y) -> nolead x.
Proof.
  destruct x as [|b [|c [|d r]]]; cbn [app nolead]; auto.
  - intros [H _]. auto.
  - intros (H1 & H2 & _). auto.
Qed.

Lemma rtrim_prefix s : exists suf, s = rtrim s ++ suf.
Proof.
  unfold rtrim. destruct (ltrim_rev_spec (length (rev s)) (rev s) (Nat.le_refl _)) as [_ [pre H]].
  exists (rev pre). rewrite <- rev_app_distr, <- H, rev_involutive. reflexivity.
Qed.
Lemma rtrim_idem s : rtrim (rtrim s) = rtrim s.
Proof.
  unfold rtrim. rewrite rev_involutive.
  destruct (ltrim_rev_spec (length (rev s)) (rev s) (Nat.le_refl _)) as [H _]. rewrite (noleadr_fix _ H). reflexivity.
Qed.

Theorem trim_space_idem s : trim_space (trim_space s) = trim_space s.
Proof.
  unfold trim_space. destruct (ltrim_spec (length s) s (Nat.le_refl _)) as [Hn _].
  destruct (rtrim_prefix (ltrim s)) as [suf Hs].
  assert (Hn' : nolead (rtrim (ltrim s))) by (apply (nolead_prefix _ suf); rewrite <- Hs; exact Hn).
  rewrite (nolead_fix _ Hn'). apply rtrim_idem.
Qed.
Theorem trim_space_length s : (length (trim_space s) <= length s)%nat.
Proof.
  unfold trim_space. destruct (ltrim_spec (length s) s (Nat.le_refl _)) as [_ [pre Hp]].
  destruct (rtrim_prefix (ltrim s)) as [suf Hs].
  rewrite Hp at 2. rewrite Hs at 2. rewrite !app_length. lia.
Qed.

(** NormalizePath / NormalizeAddress / NewRef accept their own output unchanged *)
Theorem norm_path_idem p p' : norm_path p = Some p' -> norm_path p' = Some p'.
Proof.
  unfold norm_path. destruct (trim_space p) as [|b r] eqn:E; [discriminate|].
  destruct ((b =? 47) && path_tail r) eqn:E2; [|discriminate]. intros [= <-].
  rewrite <- E, trim_space_idem, E, E2. reflexivity.
Qed.
Theorem norm_address_idem ip a a' : norm_address ip a = Some a' -> norm_address ip a' = Some a'.
Proof.
  unfold norm_address. set (t := trim_space a). intros H.
  assert (Ht : a' = t).
  { destruct t as [|b r] eqn:E; [discriminate|]. rewrite <- E in *.
    destruct (has_byte 58 t); [destruct (split_host_port t) as [[h q]|]; [destruct (valid_host ip h && valid_port q)|]|destruct (ip t); [|destruct (is_domain t)]];
      try discriminate; injection H as <-; reflexivity. }
  subst a'. unfold t at 1 2 3 4 5 6 7. rewrite trim_space_idem. exact H.
Qed.
Theorem new_ref_idem ip a p a' p' : new_ref ip a p = inl (a', p') -> new_ref ip a' p' = inl (a', p').
Proof.
  unfold new_ref. destruct (norm_address ip a) as [x|] eqn:Ea; [|discriminate].
  destruct (norm_path p) as [y|] eqn:Ep; [|discriminate]. intros [= <- <-].
  rewrite (norm_address_idem ip a x Ea), (norm_path_idem p y Ep). reflexivity.
Qed.

(** what the factory returns: never the pair of empty strings (which would read back as a nil ref), never longer than its input *)
Theorem new_ref_shape ip a p a' p' : new_ref ip a p = inl (a', p') ->
  (exists r, p' = 47 :: r) /\ a' <> [] /\ (length a' <= length a)%nat /\ (length p' <= length p)%nat.
Proof.
  unfold new_ref. destruct (norm_address ip a) as [x|] eqn:Ea; [|discriminate].
  destruct (norm_path p) as [y|] eqn:Ep; [|discriminate]. intros [= <- <-].
  unfold norm_path in Ep. destruct (trim_space p) as [|b r] eqn:E; [discriminate|].
  destruct ((b =? 47) && path_tail r) eqn:E2; [|discriminate]. injection Ep as <-.
  apply andb_prop in E2 as [E2 _]. apply N.eqb_eq in E2. subst b.
  unfold norm_address in Ea. set (t := trim_space a) in *.
  assert (Ht : x = t /\ t <> []).
  { destruct t as [|c q] eqn:E3; [discriminate|]. rewrite <- E3 in *. split; [|rewrite E3; discriminate].
    destruct (has_byte 58 t); [destruct (split_host_port t) as [[h q']|]; [destruct (valid_host ip h && valid_port q')|]|destruct (ip t); [|destruct (is_domain t)]];
      try discriminate; injection Ea as <-; reflexivity. }
  destruct Ht as [-> Hne]. repeat split; eauto.
  - apply trim_space_length.
  - rewrite <- E. apply trim_space_length.
Qed.
