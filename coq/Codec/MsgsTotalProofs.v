(** C13 for the registered messages: no decoder ever crashes or runs out of fuel, encoders return a
    value or an error, and every decoder allocates at most 10 bytes per input byte plus one capped map
    (2 MiB): [linb 10 K_map]. *)
From Coq Require Import List NArith ZArith Lia Bool.
From Coq Require Import ZifyN ZifyNat ZifyBool.
From stdpp Require Import gmap.
From Vivid Require Import Codec.Prim Codec.PrimProofs Codec.MsgPrim Codec.MsgPrimProofs Cluster.VV Cluster.VVProofs
  Codec.ClusterMsgs Codec.ClusterMsgsProofs Codec.Msgs Codec.MsgsProofs.
Local Open Scope N_scope.

Lemma drun_bind_inv {A B} (m : dec A) (f : A -> dec B) bs r :
  drun (dbind m f) bs = r ->
  (exists e, drun m bs = MErr e /\ r = MErr e) \/
  (exists x bs', drun m bs = MOk (x, bs') /\ drun (f x) bs' = r).
Proof.
  unfold drun, dbind. destruct (m bs) as [a [[x t]|e]]; cbn.
  - destruct (f x t) as [a' r'] eqn:E. cbn. intros <-. right. exists x, t. rewrite E. auto.
  - intros <-. left. eauto.
Qed.

Lemma addb_shrinks {A} K (m : dec A) : addb K m -> shrinks m.
Proof.
  intros H bs x bs'. specialize (H bs). unfold drun. destruct (m bs) as [a [[y t]|e]]; cbn; [|discriminate].
  intros [= _ <-]. tauto.
Qed.

(** * allocation bounds of the cluster pieces *)
Definition K_map : N := slot_ss * max_map_entries.

Lemma addb_dec_pairs n : forall acc, addb 0 (dec_pairs n acc).
Proof.
  induction n as [|n IH]; intros acc; cbn [dec_pairs]; [apply addb_dret|].
  change 0 with (0 + (0 + 0)). apply addb_bind; [apply addb_str|intros k].
  apply addb_bind; [apply addb_str|intros v]. apply IH.
Qed.
Lemma addb_mapss : addb K_map dec_mapss.
Proof.
  unfold dec_mapss. change K_map with (0 + K_map). apply addb_bind; [apply addb_u32|intros n].
  destruct (n =? 0); [eapply addb_weaken; [|apply addb_dret]; vm_compute; discriminate|].
  destruct (N.ltb_spec max_map_entries n); [eapply addb_weaken; [|apply addb_dfail]; vm_compute; discriminate|].
  eapply addb_weaken with (K := slot_ss * n + (0 + 0)); [unfold K_map; nia|].
  apply addb_bind; [apply addb_dalloc|intros _].
  apply addb_bind; [apply addb_dec_pairs|intros m]. apply addb_dret.
Qed.

Ltac addb_tac :=
  repeat first
    [ apply addb_dret | apply addb_dfail | apply addb_u8 | apply addb_u16 | apply addb_u32 | apply addb_u64
    | apply addb_i32 | apply addb_i64 | apply addb_bool | apply addb_str | apply addb_dalloc | apply addb_mapss
    | (eapply addb_bind; [|intros ?]) ].

Lemma addb_ns_body : addb (2 * K_map) dec_ns_body.
Proof. eapply addb_weaken; cycle 1. { unfold dec_ns_body. addb_tac. } cbn. lia. Qed.
Lemma addb_ns_opt : addb (2 * K_map) dec_ns_opt.
Proof.
  unfold dec_ns_opt. change (2 * K_map) with (0 + 2 * K_map). apply addb_bind; [apply addb_u32|intros n].
  destruct (n =? 0); [eapply addb_weaken; [|apply addb_dret]; vm_compute; discriminate|].
  change (2 * K_map) with (2 * K_map + 0). apply addb_bind; [apply addb_ns_body|intros b]. apply addb_dret.
Qed.
Lemma addb_JoinRequest : addb (2 * K_map) dec_JoinRequest.
Proof.
  eapply addb_weaken; cycle 1.
  { unfold dec_JoinRequest. eapply addb_bind; [apply addb_ns_opt|intros ?]. addb_tac. }
  cbn. lia.
Qed.

(** * no crash, no fuel exhaustion: cluster pieces *)
Lemma safe_dec_pairs n : forall acc, safe (dec_pairs n acc).
Proof. induction n as [|n IH]; intros acc; cbn [dec_pairs]; safe_tac. apply IH. Qed.
Lemma safe_mapss : safe dec_mapss.
Proof.
  unfold dec_mapss. apply safe_bind; [safe_tac|intros n].
  destruct (n =? 0); [safe_tac|]. destruct (max_map_entries <? n); safe_tac. apply safe_dec_pairs.
Qed.
Lemma safe_ns_body : safe dec_ns_body.
Proof. unfold dec_ns_body. repeat first [apply safe_mapss | (apply safe_bind; [|intros ?]) | progress safe_tac]. Qed.
Lemma safe_ns_opt : safe dec_ns_opt.
Proof.
  unfold dec_ns_opt. apply safe_bind; [safe_tac|intros n]. destruct (n =? 0); [safe_tac|].
  apply safe_bind; [apply safe_ns_body|intros ?]. safe_tac.
Qed.
Lemma safe_vv_entries n : forall acc, safe (d_vv_entries n acc).
Proof.
  induction n as [|n IH]; intros acc; cbn [d_vv_entries]; [safe_tac|].
  apply safe_bind; [safe_tac|intros k]. destruct (valid_addr k); [|safe_tac].
  apply safe_bind; [safe_tac|intros c]. destruct (max_counter <? c); [safe_tac|apply IH].
Qed.
Lemma safe_vv : safe d_vv.
Proof.
  unfold d_vv. apply safe_bind; [safe_tac|intros n]. destruct (max_entries <? n); [safe_tac|].
  apply safe_bind; [safe_tac|intros _]. apply safe_vv_entries.
Qed.

Lemma safe_members : forall fuel cnt acc bs e,
  (length bs < fuel)%nat -> drun (dec_members fuel cnt acc) bs = MErr e -> ~ bad e.
Proof.
  induction fuel as [|f IH]; intros cnt acc bs e Hl; [lia|].
  cbn [dec_members]. destruct (cnt =? 0); [cbn; discriminate|].
  intros H. apply drun_bind_inv in H as [(e' & H1 & [= ->])|(id & bs1 & H1 & H)]; [eapply safe_str; exact H1|].
  pose proof (addb_shrinks _ _ addb_str _ _ _ H1) as L1.
  assert (L1' : (length bs1 < length bs)%nat).
  { unfold drun, d_str in H1. destruct (rd_lp4 bs) as [[s t]|] eqn:E; cbn in H1; [|discriminate].
    injection H1 as -> ->. apply rd_lp4_len in E. lia. }
  apply drun_bind_inv in H as [(e' & H2 & [= ->])|(has & bs2 & H2 & H)]; [eapply (safe_dlift rd_u8); exact H2|].
  pose proof (addb_shrinks _ _ addb_u8 _ _ _ H2) as L2.
  destruct (has =? 0).
  - (eapply IH; [|exact H]; lia).
  - apply drun_bind_inv in H as [(e' & H3 & [= ->])|(st & bs3 & H3 & H)]; [eapply safe_ns_body; exact H3|].
    pose proof (addb_shrinks _ _ addb_ns_body _ _ _ H3) as L3.
    (eapply IH; [|exact H]; lia).
Qed.

Lemma safe_d_members m : safe (d_members m).
Proof.
  unfold d_members.
  apply safe_bind; [intros bs e; unfold drun, d_member_guard; destruct (_ <? _); cbn; [intros [= <-]; apply not_bad_ME|discriminate]|intros _].
  apply safe_bind; [safe_tac|intros _]. intros bs e. apply safe_members. lia.
Qed.
Lemma safe_view : safe dec_view.
Proof.
  unfold dec_view. apply safe_bind; [safe_tac|intros n]. destruct (n =? 0); [safe_tac|].
  do 4 (apply safe_bind; [safe_tac|intros ?]).
  apply safe_bind; [apply safe_d_members|intros ms].
  do 3 (apply safe_bind; [safe_tac|intros ?]).
  apply safe_bind; [apply safe_vv|intros ?]. safe_tac.
Qed.

Lemma safe_JoinRequest : safe dec_JoinRequest.
Proof. unfold dec_JoinRequest. apply safe_bind; [apply safe_ns_opt|intros ?]. safe_tac. Qed.
Lemma safe_GetViewResponse : safe dec_GetViewResponse.
Proof. unfold dec_GetViewResponse. apply safe_bind; [apply safe_view|intros ?]. safe_tac. Qed.

(** * allocation, proportional: maps, version vector, members, view *)
Lemma consumes_dec_pairs n : forall acc, consumes (8 * N.of_nat n) (dec_pairs n acc).
Proof.
  induction n as [|n IH]; intros acc bs x bs' H; [cbn in H; injection H as _ <-; lia|].
  cbn [dec_pairs] in H.
  apply drun_bind_inv in H as [(e & _ & H)|(k & b1 & H1 & H)]; [discriminate|].
  apply drun_bind_inv in H as [(e & _ & H)|(v & b2 & H2 & H)]; [discriminate|].
  apply IH in H.
  unfold drun, d_str in H1, H2.
  destruct (rd_lp4 bs) as [[s1 t1]|] eqn:E1; cbn in H1; [|discriminate]. injection H1 as _ <-.
  destruct (rd_lp4 t1) as [[s2 t2]|] eqn:E2; cbn in H2; [|discriminate]. injection H2 as _ <-.
  apply rd_lp4_len in E1, E2. lia.
Qed.

Lemma linb_mapss : linb 5 K_map dec_mapss.
Proof.
  unfold dec_mapss. apply linb_bind; [apply linb_of_addb0; [lia|apply addb_u32]|intros n].
  destruct (n =? 0); [apply linb_dret|].
  destruct (N.ltb_spec max_map_entries n); [apply linb_dfail|].
  intros bs. unfold dbind, dalloc.
  pose proof (addb_dec_pairs (N.to_nat n) ∅ bs) as Ha.
  pose proof (consumes_dec_pairs (N.to_nat n) ∅ bs) as Hc. unfold drun in Hc.
  destruct (dec_pairs (N.to_nat n) ∅ bs) as [a [[m t]|e]]; cbn [dret].
  - specialize (Hc m t eq_refl). unfold slot_ss. rewrite N2Nat.id in Hc. lia.
  - unfold K_map, slot_ss, max_map_entries in *. lia.
Qed.

Ltac linb_tac :=
  repeat first
    [ apply linb_dret | apply linb_dfail | apply linb_mapss
    | (apply linb_of_addb0; [lia|first [apply addb_u8|apply addb_u16|apply addb_u32|apply addb_u64|apply addb_i32|apply addb_i64|apply addb_bool|apply addb_str|apply addb_sub]])
    | (apply linb_bind; [|intros ?]) ].

Lemma linb_ns_body : linb 5 K_map dec_ns_body.
Proof. unfold dec_ns_body. linb_tac. Qed.
Lemma linb_ns_opt : linb 5 K_map dec_ns_opt.
Proof.
  unfold dec_ns_opt. apply linb_bind; [linb_tac|intros n]. destruct (n =? 0); [apply linb_dret|].
  apply linb_bind; [apply linb_ns_body|intros ?]. apply linb_dret.
Qed.

Lemma addb_vv_entries n : forall acc, addb 0 (d_vv_entries n acc).
Proof.
  induction n as [|n IH]; intros acc; cbn [d_vv_entries]; [apply addb_dret|].
  change 0 with (0 + (0 + 0)). apply addb_bind; [apply addb_str|intros k].
  destruct (valid_addr k); [|eapply addb_weaken; [|apply addb_dfail]; lia].
  apply addb_bind; [apply addb_u64|intros c]. destruct (max_counter <? c); [apply addb_dfail|apply IH].
Qed.
Lemma consumes_vv_entries n : forall acc, consumes (13 * N.of_nat n) (d_vv_entries n acc).
Proof.
  induction n as [|n IH]; intros acc bs x bs' H; [cbn in H; injection H as _ <-; lia|].
  cbn [d_vv_entries] in H.
  apply drun_bind_inv in H as [(e & _ & H)|(k & b1 & H1 & H)]; [discriminate|].
  destruct (valid_addr k) eqn:Ev; [|discriminate].
  apply drun_bind_inv in H as [(e & _ & H)|(c & b2 & H2 & H)]; [discriminate|].
  destruct (max_counter <? c); [discriminate|]. apply IH in H.
  unfold drun, d_str in H1. destruct (rd_lp4 bs) as [[s1 t1]|] eqn:E1; cbn in H1; [|discriminate]. injection H1 as -> <-.
  unfold drun, d_u64, dlift, rd_u64 in H2. destruct (rd_uint 8 t1) as [[c' t2]|] eqn:E2; cbn in H2; [|discriminate]. injection H2 as _ <-.
  apply rd_lp4_len in E1. apply rd_uint_len in E2.
  unfold valid_addr in Ev. apply andb_true_iff in Ev as [Ev _]. apply negb_true_iff, N.eqb_neq in Ev. lia.
Qed.
Lemma linb_vv : linb 5 K_map d_vv.
Proof.
  unfold d_vv. apply linb_bind; [apply linb_of_addb0; [lia|apply addb_u32]|intros n].
  destruct (N.ltb_spec max_entries n); [apply linb_dfail|].
  intros bs. unfold dbind, dalloc.
  pose proof (addb_vv_entries (N.to_nat n) ∅ bs) as Ha.
  pose proof (consumes_vv_entries (N.to_nat n) ∅ bs) as Hc. unfold drun in Hc.
  destruct (d_vv_entries (N.to_nat n) ∅ bs) as [a [[m t]|e]].
  - specialize (Hc m t eq_refl). unfold slot_member. rewrite N2Nat.id in Hc. lia.
  - unfold K_map, slot_ss, slot_member, max_map_entries, max_entries in *. lia.
Qed.

(** the member loop: 5 bytes allocated per byte consumed, and at least five bytes consumed per member *)
Lemma members_bounds : forall fuel cnt acc bs,
  match dec_members fuel cnt acc bs with
  | (a, MOk (_, bs')) => (length bs' <= length bs)%nat /\ a + 5 * N.of_nat (length bs') <= 5 * N.of_nat (length bs) /\
                         (N.of_nat fuel >= cnt -> 5 * cnt + N.of_nat (length bs') <= N.of_nat (length bs))
  | (a, MErr _) => a <= 5 * N.of_nat (length bs) + K_map
  end.
Proof.
  induction fuel as [|f IH]; intros cnt acc bs; cbn [dec_members].
  - destruct (N.eqb_spec cnt 0); unfold dret, dfail; lia.
  - destruct (N.eqb_spec cnt 0); [unfold dret; lia|].
    unfold dbind at 1, d_str. destruct (rd_lp4 bs) as [[id b1]|] eqn:E1; [apply rd_lp4_len in E1|cbn; lia].
    unfold dbind at 1, d_u8, dlift, rd_u8. destruct (rd_uint 1 b1) as [[has b2]|] eqn:E2; cbn [bind mlift]; [apply rd_uint_len in E2|lia].
    destruct (has =? 0).
    + specialize (IH (cnt - 1) acc b2). destruct (dec_members f (cnt - 1) acc b2) as [a3 [[m t]|e]]; [|lia].
      destruct IH as (I1 & I2 & I3). split; [lia|]. split; [lia|]. intros Hf. lia.
    + unfold dbind at 1. pose proof (linb_ns_body b2) as H3. destruct (dec_ns_body b2) as [a3 [[st b3]|e]]; [|lia].
      specialize (IH (cnt - 1) (<[id:=Some st]> acc) b3).
      destruct (dec_members f (cnt - 1) (<[id:=Some st]> acc) b3) as [a4 [[m t]|e]]; [|lia].
      destruct IH as (I1 & I2 & I3). split; [lia|]. split; [lia|]. intros Hf. lia.
Qed.
Lemma linb_d_members m : linb 10 K_map (d_members m).
Proof.
  intros bs. unfold d_members, dbind, d_member_guard, dalloc.
  destruct (N.ltb_spec (N.of_nat (length bs) / 5) m); [lia|].
  pose proof (members_bounds (S (length bs)) m ∅ bs) as Hm.
  assert (H5 : 5 * m <= N.of_nat (length bs)).
  { pose proof (N.mul_div_le (N.of_nat (length bs)) 5 ltac:(lia)). nia. }
  destruct (dec_members (S (length bs)) m ∅ bs) as [a [[ms t]|e]]; unfold slot_member.
  - destruct Hm as (M1 & M2 & M3). specialize (M3 ltac:(lia)). lia.
  - lia.
Qed.

Ltac linb10 :=
  repeat first
    [ apply linb_dret | apply linb_dfail
    | (eapply linb_mono; [| |apply linb_mapss]; [lia|lia])
    | (apply linb_of_addb0; [lia|first [apply addb_u8|apply addb_u16|apply addb_u32|apply addb_u64|apply addb_i32|apply addb_i64|apply addb_bool|apply addb_str|apply addb_sub]])
    | (apply linb_bind; [|intros ?]) ].

Lemma linb_view : linb 10 K_map dec_view.
Proof.
  unfold dec_view. apply linb_bind; [linb10|intros n]. destruct (n =? 0); [apply linb_dret|].
  do 4 (apply linb_bind; [linb10|intros ?]).
  apply linb_bind; [apply linb_d_members|intros ms].
  do 3 (apply linb_bind; [linb10|intros ?]).
  apply linb_bind; [eapply linb_mono; [| |apply linb_vv]; lia|intros ?]. linb10.
Qed.
Lemma linb10_ns_opt : linb 10 K_map dec_ns_opt.
Proof. eapply linb_mono; [| |apply linb_ns_opt]; lia. Qed.

Section Universe.
  Variable U : Type.
  Variable has_codec : bool.
  Variable cenc : U -> mres bytes.
  Variable cdec : bytes -> mres U.
  Variable qerr : Z -> option bytes.
  Variable newref : bytes -> bytes -> mres (bytes * bytes).
  (** user code (the Codec, the ref factory) returns a value or an error *)
  Hypothesis cenc_total : forall u e, cenc u = MErr e -> ~ bad e.
  Hypothesis cdec_total : forall d e, cdec d = MErr e -> ~ bad e.
  Hypothesis newref_total : forall a p e, newref a p = MErr e -> ~ bad e.

  Notation msg := (msg U).
  Notation enc_body := (enc_body U has_codec cenc).
  Notation dec_body := (dec_body U has_codec cdec qerr newref).
  Notation read_message_with := (read_message_with U has_codec cdec).
  Notation d_ref := (d_ref newref).

  Lemma addb_ref : addb 0 d_ref.
  Proof.
    unfold d_ref. change 0 with (0 + (0 + 0)). apply addb_bind; [apply addb_str|intros a].
    apply addb_bind; [apply addb_str|intros p].
    destruct (is_nil a && is_nil p); [apply addb_dret|]. destruct (newref a p); [apply addb_dret|apply addb_dfail].
  Qed.
  Lemma safe_ref : safe d_ref.
  Proof.
    unfold d_ref. apply safe_bind; [safe_tac|intros a]. apply safe_bind; [safe_tac|intros p].
    destruct (is_nil a && is_nil p); [safe_tac|]. destruct (newref a p) eqn:E; [safe_tac|].
    apply safe_dfail. apply (newref_total a p). exact E.
  Qed.

  (** ** decoding never crashes and never runs out of fuel *)
  Lemma rm_safe f :
    (forall k bs e, (length bs < f)%nat -> drun (dec_body f k) bs = MErr e -> ~ bad e) ->
    forall bs e, (length bs <= f)%nat -> drun (read_message_with (dec_body f)) bs = MErr e -> ~ bad e.
  Proof.
    intros IH bs e Hl H. unfold Msgs.read_message_with in H.
    apply drun_bind_inv in H as [(e' & H1 & [= ->])|(data & bs1 & H1 & H)]; [eapply (safe_dlift rd_lp4); exact H1|].
    assert (Ld : (length data < f)%nat).
    { unfold drun, d_sub, dlift in H1. destruct (rd_lp4 bs) as [[s t]|] eqn:E; cbn in H1; [|discriminate].
      injection H1 as -> ->. apply rd_lp4_len in E. lia. }
    apply drun_bind_inv in H as [(e' & H2 & [= ->])|(name & bs2 & H2 & H)]; [eapply safe_str; exact H2|].
    destruct (kind_of_name name) as [k|].
    - unfold drun in H. destruct (dec_body f k data) as [a [[m t]|e']] eqn:E; cbn in H; [discriminate|].
      injection H as <-. apply (IH k data e' Ld). unfold drun. rewrite E. reflexivity.
    - unfold drun in H. destruct has_codec; cbn in H.
      + destruct (cdec data) eqn:E; cbn in H; [discriminate|]. injection H as <-. apply (cdec_total _ _ E).
      + injection H as <-. intros [X|X]; discriminate.
  Qed.

  Ltac flat_safe lem := apply safe_bind; [apply lem|intros ?]; safe_tac.

  Theorem dec_body_safe : forall fuel k bs e,
    (length bs < fuel)%nat -> drun (dec_body fuel k) bs = MErr e -> ~ bad e.
  Proof.
    induction fuel as [|f IH]; intros k bs e Hl; [lia|].
    assert (Hrm := rm_safe f IH).
    destruct k; cbn [Msgs.dec_body]; intros H;
      try (revert H; apply (safe_dret _ bs e)).
    - (* OnKill *) revert H. apply safe_bind; [|intros ?; safe_tac].
      unfold dec_OnKill. apply safe_bind; [apply safe_ref|intros ?]. safe_tac.
    - revert H. apply safe_bind; [apply safe_ref|intros ?]. safe_tac.
    - (* PipeResult *)
      apply drun_bind_inv in H as [(e' & H0 & [= ->])|(has & bs0 & H0 & H)]; [eapply (safe_dlift rd_bool); exact H0|].
      pose proof (addb_shrinks _ _ addb_bool _ _ _ H0) as L0.
      destruct has; [|revert H; safe_tac].
      apply drun_bind_inv in H as [(e' & H1 & [= ->])|(m & bs1 & H1 & H)]; [apply (Hrm bs0 e'); [lia|exact H1]|].
      revert H. safe_tac.
    - revert H. unfold dec_Pong. safe_tac.
    - revert H. unfold dec_Error. safe_tac.
    - revert H. unfold dec_Command. safe_tac.
    - revert H. unfold dec_Ping. safe_tac.
    - revert H. unfold dec_PongMessage. safe_tac.
    - (* Scheduler *)
      apply drun_bind_inv in H as [(e' & H1 & [= ->])|(m & bs1 & H1 & H)]; [apply (Hrm bs e'); [lia|exact H1]|].
      revert H. safe_tac.
    - revert H. flat_safe safe_JoinRequest.
    - revert H. flat_safe safe_view.
    - revert H. flat_safe safe_view.
    - revert H. flat_safe safe_GetViewResponse.
    - revert H. unfold dec_LeaveBroadcastRound. safe_tac.
    - revert H. unfold dec_JoinRetryTick. safe_tac.
    - revert H. unfold dec_ForceMemberDown. safe_tac.
    - revert H. unfold dec_TriggerViewBroadcast. safe_tac.
    - (* SingletonFwd *)
      apply drun_bind_inv in H as [(e' & H1 & [= ->])|(a & bs1 & H1 & H)]; [eapply safe_str; exact H1|].
      pose proof (addb_shrinks _ _ addb_str _ _ _ H1) as L1.
      apply drun_bind_inv in H as [(e' & H2 & [= ->])|(p & bs2 & H2 & H)]; [eapply safe_str; exact H2|].
      pose proof (addb_shrinks _ _ addb_str _ _ _ H2) as L2.
      apply drun_bind_inv in H as [(e' & H3 & [= ->])|(m & bs3 & H3 & H)]; [apply (Hrm bs2 e'); [lia|exact H3]|].
      revert H. safe_tac.
  Qed.

  Theorem deserialize_safe k bs e :
    drun (deserialize_remoting U has_codec cdec qerr newref k) bs = MErr e -> ~ bad e.
  Proof. unfold deserialize_remoting. apply dec_body_safe. lia. Qed.
  Theorem read_message_safe bs e :
    drun (read_message U has_codec cdec qerr newref) bs = MErr e -> ~ bad e.
  Proof.
    unfold read_message. apply rm_safe; [|lia]. intros k bs' e' Hl. apply dec_body_safe. exact Hl.
  Qed.

  (** ** encoding returns a value or an error *)
  Lemma mbind_inv {A B} (r : mres A) (f : A -> mres B) e :
    mbind r f = MErr e -> r = MErr e \/ exists a, r = MOk a /\ f a = MErr e.
  Proof. destruct r as [a|e']; cbn; intros H; [right; exists a; split; [reflexivity|exact H]|left; injection H as ->; reflexivity]. Qed.

  Lemma wm_safe_of (m : msg) :
    (forall e, enc_body m = MErr e -> ~ bad e) ->
    forall e, write_message_with U has_codec cenc enc_body m = MErr e -> ~ bad e.
  Proof.
    intros IH e. unfold write_message_with.
    assert (Hreg : forall k, (let*m b := enc_body m in MOk (put_lp4 b ++ put_lp4 (name_of k))) = MErr e -> ~ bad e).
    { intros k H. apply mbind_inv in H as [H|(b & _ & H)]; [apply IH; exact H|discriminate]. }
    destruct m; cbn [kind_of]; try apply Hreg.
    destruct has_codec; [|intros [= <-] [X|X]; discriminate].
    intros H. apply mbind_inv in H as [H|(b & _ & H)]; [apply (cenc_total _ _ H)|discriminate].
  Qed.

  Theorem enc_body_safe : forall (m : msg) e, enc_body m = MErr e -> ~ bad e.
  Proof.
    induction m as [e0|k r p|k|id m' IH pe|id pe|p r|c t|c|t|p r|ref m' IH|ns tok|v|v|v q l|r|d|id tok|tok|s a p m' IH|k|u];
      intros e; cbn [Msgs.enc_body]; try discriminate.
    - intros H. apply mbind_inv in H as [H|(w & _ & H)]; [apply (wm_safe_of m' IH e H)|].
      apply mbind_inv in H as [H|(ct & _ & H)]; [|discriminate].
      destruct pe; cbn in H; try discriminate. injection H as <-. intros [X|X]; discriminate.
    - intros H. apply mbind_inv in H as [H|(ct & _ & H)]; [|discriminate].
      destruct pe; cbn in H; try discriminate. injection H as <-. intros [X|X]; discriminate.
    - destruct p; cbn; [discriminate|]. intros [= <-] [X|X]; discriminate.
    - intros H. apply mbind_inv in H as [H|(w & _ & H)]; [apply (wm_safe_of m' IH e H)|discriminate].
    - unfold enc_ViewMsg, enc_view. destruct v as [v|]; [|discriminate]. intros H.
      apply mbind_inv in H as [H|(b & _ & H)]; [|discriminate].
      destruct (vwrite (v_vv v)); cbn in H; [discriminate|]. injection H as <-. apply not_bad_ME.
    - unfold enc_ViewMsg, enc_view. destruct v as [v|]; [|discriminate]. intros H.
      apply mbind_inv in H as [H|(b & _ & H)]; [|discriminate].
      destruct (vwrite (v_vv v)); cbn in H; [discriminate|]. injection H as <-. apply not_bad_ME.
    - unfold enc_GetViewResponse, enc_view. intros H. apply mbind_inv in H as [H|(b & _ & H)]; [|discriminate].
      destruct v as [v|]; [|discriminate].
      apply mbind_inv in H as [H|(b & _ & H)]; [|discriminate].
      destruct (vwrite (v_vv v)); cbn in H; [discriminate|]. injection H as <-. apply not_bad_ME.
    - intros H. apply mbind_inv in H as [H|(ap & _ & H)].
      + destruct s; try discriminate. injection H as <-. intros [X|X]; discriminate.
      + apply mbind_inv in H as [H|(w & _ & H)]; [apply (wm_safe_of m' IH e H)|discriminate].
    - destruct (empty_of_kind k); [discriminate|]. intros [= <-] [X|X]; discriminate.
    - intros [= <-] [X|X]; discriminate.
  Qed.

  Theorem write_message_safe (m : msg) e : write_message U has_codec cenc m = MErr e -> ~ bad e.
  Proof. apply wm_safe_of. apply enc_body_safe. Qed.

  (** ** allocation of the flat entry points: at most the input length plus two capped maps *)
  Definition flat_kind (k : kind) : bool :=
    match k with
    | K_PipeResult | K_Scheduler | K_SingletonFwd | K_JoinResponse | K_Gossip | K_GetViewResponse => false
    | _ => true
    end.

  Theorem alloc_flat fuel k : flat_kind k = true -> addb (2 * K_map) (dec_body (S fuel) k).
  Proof.
    destruct k; cbn [flat_kind]; try discriminate; intros _; cbn [Msgs.dec_body];
      try (eapply addb_weaken; [|apply addb_dret]; vm_compute; discriminate).
    - eapply addb_weaken; cycle 1.
      { unfold dec_OnKill. eapply addb_bind; [eapply addb_bind; [apply addb_ref|intros ?]; addb_tac|intros ?]. addb_tac. }
      vm_compute; discriminate.
    - eapply addb_weaken; cycle 1. { unfold dec_OnKilled. eapply addb_bind; [apply addb_ref|intros ?]. addb_tac. }
      vm_compute; discriminate.
    - eapply addb_weaken; cycle 1. { unfold dec_Pong. addb_tac. } vm_compute; discriminate.
    - eapply addb_weaken; cycle 1. { unfold dec_Error. addb_tac. } vm_compute; discriminate.
    - eapply addb_weaken; cycle 1. { unfold dec_Command. addb_tac. } vm_compute; discriminate.
    - eapply addb_weaken; cycle 1. { unfold dec_Ping. addb_tac. } vm_compute; discriminate.
    - eapply addb_weaken; cycle 1. { unfold dec_PongMessage. addb_tac. } vm_compute; discriminate.
    - eapply addb_weaken; cycle 1. { eapply addb_bind; [apply addb_JoinRequest|intros ?]. addb_tac. } vm_compute; discriminate.
    - eapply addb_weaken; cycle 1. { unfold dec_LeaveBroadcastRound. addb_tac. } vm_compute; discriminate.
    - eapply addb_weaken; cycle 1. { unfold dec_JoinRetryTick. addb_tac. } vm_compute; discriminate.
    - eapply addb_weaken; cycle 1. { unfold dec_ForceMemberDown. addb_tac. } vm_compute; discriminate.
    - eapply addb_weaken; cycle 1. { unfold dec_TriggerViewBroadcast. addb_tac. } vm_compute; discriminate.
  Qed.

End Universe.

Section UniverseAlloc.
  Variable U : Type.
  Variable has_codec : bool.
  Variable cdec : bytes -> mres U.
  Variable qerr : Z -> option bytes.
  Variable newref : bytes -> bytes -> mres (bytes * bytes).
  Notation msg := (msg U).
  Notation dec_body := (dec_body U has_codec cdec qerr newref).
  Notation read_message_with := (read_message_with U has_codec cdec).
  Notation d_ref := (d_ref newref).

  (** ** allocation of every decoder: at most 10 bytes per input byte plus one capped map *)
  Lemma linb_ref : linb 10 K_map d_ref.
  Proof. apply linb_of_addb0; [lia|apply (addb_ref newref)]. Qed.

  Lemma rm_linb (body : kind -> dec msg) :
    (forall k, linb 10 K_map (body k)) -> linb 10 K_map (read_message_with body).
  Proof.
    intros IH bs. unfold Msgs.read_message_with.
    unfold dbind at 1, d_sub, dlift. destruct (rd_lp4 bs) as [[data b1]|] eqn:E1; cbn [mlift]; [apply rd_lp4_len in E1|lia].
    unfold dbind, d_str. destruct (rd_lp4 b1) as [[name b2]|] eqn:E2; [apply rd_lp4_len in E2|lia].
    destruct (kind_of_name name) as [k|].
    - specialize (IH k data). destruct (body k data) as [a [[m t]|e]]; lia.
    - destruct has_codec; [destruct (cdec data)|]; lia.
  Qed.

  Theorem dec_body_linb : forall fuel k, linb 10 K_map (dec_body fuel k).
  Proof.
    induction fuel as [|f IH]; intros k; [apply linb_dfail|].
    pose proof (rm_linb (dec_body f) IH) as Hrm.
    destruct k; cbn [Msgs.dec_body]; try apply linb_dret.
    - unfold dec_OnKill. apply linb_bind; [apply linb_bind; [apply linb_ref|intros ?]; linb10|intros ?]. linb10.
    - unfold dec_OnKilled. apply linb_bind; [apply linb_ref|intros ?]. linb10.
    - apply linb_bind; [linb10|intros has]. destruct has; [apply linb_bind; [exact Hrm|intros ?]|]; linb10.
    - unfold dec_Pong. linb10.
    - unfold dec_Error. linb10.
    - unfold dec_Command. linb10.
    - unfold dec_Ping. linb10.
    - unfold dec_PongMessage. linb10.
    - apply linb_bind; [exact Hrm|intros ?]. linb10.
    - unfold dec_JoinRequest. apply linb_bind; [apply linb_bind; [apply linb10_ns_opt|intros ?]; linb10|intros ?]. linb10.
    - unfold dec_ViewMsg. apply linb_bind; [apply linb_view|intros ?]. linb10.
    - unfold dec_ViewMsg. apply linb_bind; [apply linb_view|intros ?]. linb10.
    - unfold dec_GetViewResponse. apply linb_bind; [apply linb_bind; [apply linb_view|intros ?]; linb10|intros ?]. linb10.
    - unfold dec_LeaveBroadcastRound. linb10.
    - unfold dec_JoinRetryTick. linb10.
    - unfold dec_ForceMemberDown. linb10.
    - unfold dec_TriggerViewBroadcast. linb10.
    - do 2 (apply linb_bind; [linb10|intros ?]). apply linb_bind; [exact Hrm|intros ?]. linb10.
  Qed.

  Theorem deserialize_linb k : linb 10 K_map (deserialize_remoting U has_codec cdec qerr newref k).
  Proof. intros bs. unfold deserialize_remoting. apply dec_body_linb. Qed.
  Theorem read_message_linb : linb 10 K_map (read_message U has_codec cdec qerr newref).
  Proof. intros bs. unfold read_message. apply rm_linb. apply dec_body_linb. Qed.
End UniverseAlloc.

