(** The Writer and the Reader of internal/messages as STATE MACHINES (writer.go, reader.go as they are now):
    a byte buffer with a capacity, a byte order, the sticky error, the read position and the element budget;
    buffer growth (ensureCapacity), Reset / Seek / Skip / Remaining, the two sync.Pools
    (NewWriterFromPool / ReleaseWriterToPool, NewReaderFromPool / ReleaseReaderToPool), and the nesting of
    Writer.WriteMessage -> SerializeRemotingMessage -> (pooled scratch Writer) -> desc.writer -> WriteMessage ...
    at every depth, and Reader.ReadMessage -> (pooled Reader over the body) -> desc.reader.

    User code (the registered message writers / readers) enters as SCRIPTS: the list of operations a
    desc.writer performs on the scratch Writer it is given (which may again be WriteMessage), and how it
    returns (the Writer's sticky error — the [return w.WriteFrom(...)] idiom —, nil, an error, a panic).

    sync.Pool is modelled as a list of the objects that were Put; Get returns one of them or a New one:
    which one is an ORACLE (the identity of the object that was handed out — all the correspondence run
    can observe), and the theorems hold for every oracle.  A Writer of a pool is only
    ever used between its Get and its Put (M2; the callers' defer discipline), so one Writer is never shared.

    The functional encoders / decoders the machines are compared with are those of [Codec.PrimO] /
    [Codec.ReflectO] (for the big-endian order: [Codec.Prim], [Codec.Reflect]). *)
From Coq Require Import List NArith ZArith Lia Bool.
From Vivid Require Import Codec.Prim Codec.Prim2 Codec.PrimO Codec.Reflect Codec.ReflectO.
Import ListNotations.
Local Open Scope N_scope.

(** errors returned by WriteMessage / ReadMessage (besides the primitive classes of [err]) *)
Inductive xerr : Type :=
| XE (e : err)      (* the Writer's / Reader's own error *)
| XCodec            (* the user Codec failed *)
| XNoCodec          (* "not a registered message and no codec configured" *)
| XRecovered        (* a panic inside a message writer, recovered by SerializeRemotingMessage *)
| XScript.          (* an error returned by the registered message writer / reader itself *)

(** which errors the Reader keeps (r.err): end of input and varint overflow; validation errors are only returned *)
Definition sticky (e : err) : bool := match e with EEOF | EOverflow => true | _ => false end.

(** * Writer *)
Record writer : Type := mkW {
  w_buf : bytes;          (* w.buf[:len] *)
  w_cap : N;              (* cap(w.buf) *)
  w_ord : order;
  w_err : option err      (* the sticky error: the first one *)
}.
Definition wlen (w : writer) : N := N.of_nat (length (w_buf w)).

(** NewWriter(): 256 bytes of capacity, big-endian *)
Definition new_writer : writer := mkW [] 256 BE None.

(** ensureCapacity(n): nothing in the error state; when fewer than n bytes are free the buffer is
    reallocated with capacity max(2*cap, cap+n, n) and the content copied *)
Definition ensure (n : N) (w : writer) : writer :=
  match w_err w with
  | Some _ => w
  | None =>
      if w_cap w - wlen w <? n then
        let c := w_cap w in
        let nc := 2 * c in
        let nc := if nc <? c + n then c + n else nc in
        let nc := if nc <? n then n else nc in
        mkW (w_buf w) nc (w_ord w) None
      else w
  end.
(** w.buf = append(w.buf, bs...): stays in place when it fits (it always does after [ensure],
    lemma [BufProofs.emit_no_regrow]); otherwise Go's append would reallocate — with at least the needed size *)
Definition app_raw (bs : bytes) (w : writer) : writer :=
  let l := wlen w + N.of_nat (length bs) in
  mkW (w_buf w ++ bs) (if l <=? w_cap w then w_cap w else l) (w_ord w) (w_err w).
(** one WriteXxx step: [if w.err != nil return; ensureCapacity(len); append] *)
Definition emit (bs : bytes) (w : writer) : writer :=
  match w_err w with
  | Some _ => w
  | None => app_raw bs (ensure (N.of_nat (length bs)) w)
  end.
Definition emits (cs : list bytes) (w : writer) : writer := fold_left (fun w c => emit c w) cs w.
Definition set_err (e : err) (w : writer) : writer :=
  match w_err w with
  | Some _ => w
  | None => mkW (w_buf w) (w_cap w) (w_ord w) (Some e)
  end.
(** Write / WriteFrom: the chunks written before the failing element stay, then w.err is set *)
Definition apply_wres (r : wres) (w : writer) : writer :=
  let w1 := emits (fst r) w in
  match snd r with
  | OErr e => set_err e w1
  | _ => w1
  end.
(** Reset(): length 0, same array, error cleared; the byte order stays (NewWriterFromPool sets it on every Get) *)
Definition w_reset (w : writer) : writer := mkW [] (w_cap w) (w_ord w) None.
(** w.buf = w.buf[:n] (WriteMessage's roll-back) *)
Definition w_trunc (n : nat) (w : writer) : writer := mkW (firstn n (w_buf w)) (w_cap w) (w_ord w) (w_err w).

(** how a registered message writer returns *)
Inductive sret : Type :=
| RetSticky        (* return w.WriteFrom(...) / return w.Err(): the scratch Writer's error, nil if none *)
| RetNil           (* return nil whatever happened *)
| RetErr           (* return an error of its own *)
| RetPanic.        (* panic (nil field dereference ...) *)

(** operations on a Writer *)
Inductive wop : Type :=
| WPrim (b : basic) (v : goval)                (* WriteUint8 ... WriteFloat64, WriteBool, WriteString called directly *)
| WVarint (z : Z)
| WUvarint (n : N)
| WBytes (bs : bytes)
| WBytesLen (size : Z) (bs : bytes)
| WShort (s : bytes)
| WWrite (ty : goty) (v : goval)
| WWriteFrom (l : list (goty * goval))
| WReset
| WMsgReg (name : bytes) (body : list wop) (ret : sret)   (* WriteMessage(m): m registered under [name]; its writer runs [body] *)
| WMsgOut (enc : option (option bytes)).                  (* WriteMessage(m): m not registered; None = no Codec, Some None = Encode fails *)

(** WriteBytesWithLength(v, size) *)
Definition w_byteslen (size : Z) (bs : bytes) (w : writer) : writer :=
  match w_err w with
  | Some _ => w
  | None =>
      let n := N.of_nat (length bs) in
      let o := w_ord w in
      match size with
      | 1%Z => if 255 <? n then set_err ETooLarge w else emits [beO o 1 n; bs] w
      | 2%Z => if 65535 <? n then set_err ETooLarge w else emits [beO o 2 n; bs] w
      | 4%Z => emits [beO o 4 n; bs] w
      | _ => set_err EInvalid w
      end
  end.

(** the operations that do not involve the pool *)
Definition plain_wop (op : wop) (w : writer) : writer :=
  let o := w_ord w in
  match op with
  | WPrim b v => apply_wres (wprimC o b v) w
  | WVarint z => emit (put_varint z) w
  | WUvarint n => emit (put_uvarint n) w
  | WBytes bs => emit bs w
  | WBytesLen size bs => w_byteslen size bs w
  | WShort s => w_byteslen 1 s w
  | WWrite ty v => apply_wres (writeC o ty v) w
  | WWriteFrom l => apply_wres (write_fromC o l) w
  | WReset => w_reset w
  | _ => w
  end.

(** ** the pool of Writers.  Every Writer object has an identity (a ghost: the Go pointer); the oracle names
    the object each Get hands out — all the correspondence run can observe. *)
Definition pw : Type := (N * writer)%type.          (* (identity, state) *)
Record wpool : Type := mkWP {
  wp_free : list pw;         (* what was Put and not handed out again (sync.Pool may also drop any of them) *)
  wp_keys : list N;          (* the oracle: the identities of the Writers the next Gets hand out *)
}.

Fixpoint take_id {A} (k : N) (l : list (N * A)) : option (A * list (N * A)) :=
  match l with
  | [] => None
  | (i, w) :: r => if i =? k then Some (w, r)
                   else match take_id k r with Some (x, r') => Some (x, (i, w) :: r') | None => None end
  end.
(** writerPool.Get(): the named object if it is in the pool, otherwise a New one (with that identity) *)
Definition wget (p : wpool) : pw * wpool :=
  match wp_keys p with
  | [] => ((0, new_writer), mkWP (wp_free p) [])                   (* oracle exhausted: a New one *)
  | k :: ks =>
      match take_id k (wp_free p) with
      | Some (w, rest) => ((k, w), mkWP rest ks)
      | None => ((k, new_writer), mkWP (wp_free p) ks)
      end
  end.
(** ReleaseWriterToPool(w): Reset, Put *)
Definition wput (x : pw) (p : wpool) : wpool := mkWP ((fst x, w_reset (snd x)) :: wp_free p) (wp_keys p).

(** NewWriterFromPool(opts...): Get, then the byte order is set — to the option, or back to the default big-endian
    (whatever the previous user of the object had asked for) *)
Definition get_writer_opt (ord : option order) (p : wpool) : pw * wpool :=
  let '((id, w), p1) := wget p in
  ((id, mkW (w_buf w) (w_cap w) (match ord with Some x => x | None => BE end) (w_err w)), p1).

Definition ret_err (ret : sret) (dw : writer) : option xerr :=
  match ret with
  | RetSticky => option_map XE (w_err dw)
  | RetNil => None
  | RetErr => Some XScript
  | RetPanic => Some XRecovered
  end.

(** one operation on Writer [w]; returns the Writer, the pool, and the error WriteMessage returned
    (plain operations return nothing; their error is the Writer's sticky error).

    WriteMessage: startLen; registered message: SerializeRemotingMessage takes a scratch Writer from the pool
    (deferred: recover a panic into an error, then ReleaseWriterToPool), runs the message's writer on it,
    and on success copies its bytes behind a 4-byte length into [w]; then the name.  On every failure
    [w.buf] is cut back to startLen. *)
Fixpoint run_wop (op : wop) (w : writer) (p : wpool) {struct op} : writer * wpool * option xerr :=
  let o := w_ord w in
  let start := length (w_buf w) in
  match op with
  | WMsgReg name body ret =>
      let '((id, dw), p1) := get_writer_opt None p in                         (* NewWriterFromPool() *)
      let '(dw', p2, r) :=
        (fix go (ops : list wop) (dw : writer) (p : wpool) : writer * wpool * option xerr :=
           match ops with
           | [] => (dw, p, None)
           | x :: rest =>
               let '(dw1, p1, e) := run_wop x dw p in
               match e with
               | Some _ => (dw1, p1, e)             (* if err := w.WriteMessage(...); err != nil { return err } *)
               | None => go rest dw1 p1
               end
           end) body dw p1 in
      let r' := match r with Some _ => r | None => ret_err ret dw' end in
      let p3 := wput (id, dw') p2 in
      match r' with
      | Some e => (w_trunc start w, p3, Some e)
      | None =>
          let w1 := emits [put_u32O o (wlen dw'); w_buf dw'] w in                 (* WriteBytesWithLength(dw.Bytes(), 4) *)
          match w_err w1 with
          | Some e => (w_trunc start w1, p3, Some (XE e))
          | None =>
              let w2 := emits [put_u32O o (N.of_nat (length name)); name] w1 in   (* WriteFrom(name) *)
              match w_err w2 with
              | Some e => (w_trunc start w2, p3, Some (XE e))
              | None => (w2, p3, None)
              end
          end
      end
  | WMsgOut enc =>
      match enc with
      | None => (w, p, Some XNoCodec)
      | Some None => (w, p, Some XCodec)
      | Some (Some d) =>
          let w1 := emits [put_u32O o (N.of_nat (length d)); d] w in
          match w_err w1 with
          | Some e => (w_trunc start w1, p, Some (XE e))
          | None =>
              let w2 := emits [put_u32O o 0; []] w1 in                             (* WriteFrom("") *)
              match w_err w2 with
              | Some e => (w_trunc start w2, p, Some (XE e))
              | None => (w2, p, None)
              end
          end
      end
  | _ => (plain_wop op w, p, None)
  end.

(** the script interpreter of a message writer, as a named function *)
Definition run_wbody : list wop -> writer -> wpool -> writer * wpool * option xerr :=
  fix go (ops : list wop) (dw : writer) (p : wpool) : writer * wpool * option xerr :=
    match ops with
    | [] => (dw, p, None)
    | x :: rest =>
        let '(dw1, p1, e) := run_wop x dw p in
        match e with
        | Some _ => (dw1, p1, e)
        | None => go rest dw1 p1
        end
    end.

(** ** the specification: the ABSTRACT Writer (bytes, sticky error) of byte order [o], no capacity, no pool.
    A registered message's body is encoded by a fresh big-endian abstract Writer. *)
Definition aw : Type := (bytes * option err)%type.
Definition abs (w : writer) : aw := (w_buf w, w_err w).
Definition aw_emit (bs : bytes) (a : aw) : aw := match snd a with Some _ => a | None => (fst a ++ bs, None) end.
Definition aw_err (e : err) (a : aw) : aw := match snd a with Some _ => a | None => (fst a, Some e) end.
Definition aw_res (r : wres) (a : aw) : aw :=
  let a1 := aw_emit (flat r) a in
  match snd r with OErr e => aw_err e a1 | _ => a1 end.
Definition aw_byteslen (o : order) (size : Z) (bs : bytes) (a : aw) : aw :=
  match snd a with
  | Some _ => a
  | None => match put_lpkO o size bs with Ok b => aw_emit b a | Err e => aw_err e a end
  end.
Definition spec_plain (o : order) (op : wop) (a : aw) : aw :=
  match op with
  | WPrim b v => aw_res (wprimC o b v) a
  | WVarint z => aw_emit (put_varint z) a
  | WUvarint n => aw_emit (put_uvarint n) a
  | WBytes bs => aw_emit bs a
  | WBytesLen size bs => aw_byteslen o size bs a
  | WShort s => aw_byteslen o 1 s a
  | WWrite ty v => aw_res (writeC o ty v) a
  | WWriteFrom l => aw_res (write_fromC o l) a
  | WReset => ([], None)
  | _ => a
  end.

Fixpoint spec_wop (o : order) (op : wop) (a : aw) {struct op} : aw * option xerr :=
  match op with
  | WMsgReg name body ret =>
      let '(d, r) :=
        (fix go (ops : list wop) (d : aw) : aw * option xerr :=
           match ops with
           | [] => (d, None)
           | x :: rest =>
               let '(d1, e) := spec_wop BE x d in
               match e with Some _ => (d1, e) | None => go rest d1 end
           end) body ([], None) in
      let r' := match r with
                | Some _ => r
                | None => match ret with
                          | RetSticky => option_map XE (snd d)
                          | RetNil => None
                          | RetErr => Some XScript
                          | RetPanic => Some XRecovered
                          end
                end in
      match r' with
      | Some e => (a, Some e)
      | None => match snd a with
                | Some e => (a, Some (XE e))
                | None => (aw_emit (put_lp4O o (fst d) ++ put_lp4O o name) a, None)
                end
      end
  | WMsgOut enc =>
      match enc with
      | None => (a, Some XNoCodec)
      | Some None => (a, Some XCodec)
      | Some (Some d) =>
          match snd a with
          | Some e => (a, Some (XE e))
          | None => (aw_emit (put_lp4O o d ++ put_lp4O o []) a, None)
          end
      end
  | _ => (spec_plain o op a, None)
  end.
Definition spec_wbody : list wop -> aw -> aw * option xerr :=
  fix go (ops : list wop) (d : aw) : aw * option xerr :=
    match ops with
    | [] => (d, None)
    | x :: rest =>
        let '(d1, e) := spec_wop BE x d in
        match e with Some _ => (d1, e) | None => go rest d1 end
    end.

(** a sequence of operations by a caller that goes on after a failed WriteMessage (it only records the errors) *)
Fixpoint run_wops (ops : list wop) (w : writer) (p : wpool) : writer * wpool * list (option xerr) :=
  match ops with
  | [] => (w, p, [])
  | x :: r => let '(w1, p1, e) := run_wop x w p in
              let '(w2, p2, es) := run_wops r w1 p1 in (w2, p2, e :: es)
  end.
Fixpoint spec_wops (o : order) (ops : list wop) (a : aw) : aw * list (option xerr) :=
  match ops with
  | [] => (a, [])
  | x :: r => let '(a1, e) := spec_wop o x a in
              let '(a2, es) := spec_wops o r a1 in (a2, e :: es)
  end.

(** pool hygiene: what Reset leaves behind (the byte order is whatever the last user had; Get sets it) *)
Definition w_clean (w : writer) : bool :=
  match w_buf w, w_err w with [], None => true | _, _ => false end.
Definition wpool_clean (p : wpool) : bool := forallb (fun x => w_clean (snd x)) (wp_free p).

(** NewWriter(opts...) *)
Definition new_writer_opt (ord : option order) (buf : option (bytes * N)) (reset : bool) : writer :=
  let o := match ord with Some x => x | None => BE end in
  match buf with
  | Some (b, c) => mkW (if reset then [] else b) c o None       (* opt.Buffer != nil *)
  | None => mkW [] 256 o None
  end.

(** * Reader *)
Record reader : Type := mkR {
  r_buf : bytes;
  r_pos : N;
  r_ord : order;
  r_err : option err;
  r_elems : N
}.
Definition rlen (r : reader) : N := N.of_nat (length (r_buf r)).
Definition rrem (r : reader) : bytes := skipn (N.to_nat (r_pos r)) (r_buf r).
Definition new_reader (data : bytes) : reader := mkR data 0 BE None 0.
(** Reset(data) *)
Definition r_reset (data : bytes) (r : reader) : reader := mkR data 0 (r_ord r) None 0.

(** results of Reader operations *)
Inductive rval : Type :=
| RVGo (v : goval)
| RVGos (l : list goval)
| RVBytes (b : bytes)
| RVN (n : N)
| RVZ (z : Z)
| RVUnit
| RVMsg (name : bytes) (fields : list rval)     (* a decoded registered message: what its reader read *)
| RVOut (data : bytes).                         (* an outside message handed to the Codec *)

Definition rout : Type := (* Ok v | Err e *) (rval + xerr)%type.

(** fixed-length and length-prefixed reads with the consumption meter (see ReflectO.lp4O) *)
Definition lpnO (o : order) (k : nat) (bs : bytes) : MO (bytes * bytes) :=
  bindO (fixedO o k (fun n => n) bs) (fun p =>
    match take_N (fst p) (snd p) with
    | Ok (s, t) => tickO (c_cons (fst p)) (tickO (c_alloc (fst p)) (retO (s, t)))
    | Err e => failO e
    end).
Definition of_resO {A} (bs : bytes) (r : res (A * bytes)) : MO (A * bytes) :=
  match r with
  | Ok (a, t) => tickO (c_cons (N.of_nat (length bs - length t))) (retO (a, t))
  | Err e => failO e
  end.

(** run a byte-level reader at the current position: the position advances by what was consumed — also when
    the reader fails half way —, an end-of-input / overflow error sticks *)
Definition r_step {A} (f : bytes -> MO (A * bytes)) (r : reader) : reader * (A + err) :=
  match r_err r with
  | Some e => (r, inr e)
  | None =>
      let m := f (rrem r) in
      let pos := r_pos r + consumedO m in
      match fst m with
      | OOk (a, _) => (mkR (r_buf r) pos (r_ord r) None (r_elems r), inl a)
      | OErr e => (mkR (r_buf r) pos (r_ord r) (if sticky e then Some e else None) (r_elems r), inr e)
      | _ => (r, inr EInvalid)        (* panic / fuel / ill-typed: no byte-level reader produces them (BufProofs) *)
      end
  end.
(** the same for Read / ReadInto, which also charge the element budget *)
Definition r_stepS {A} (f : N -> rst -> MO (A * rst)) (r : reader) : reader * (A + err) :=
  match r_err r with
  | Some e => (r, inr e)
  | None =>
      let m := f (rlen r) (rrem r, r_elems r) in
      let pos := r_pos r + consumedO m in
      let el := r_elems r + elemsO m in
      match fst m with
      | OOk (a, _) => (mkR (r_buf r) pos (r_ord r) None el, inl a)
      | OErr e => (mkR (r_buf r) pos (r_ord r) (if sticky e then Some e else None) el, inr e)
      | _ => (r, inr EInvalid)
      end
  end.

Inductive prop : Type :=          (* operations a registered message reader may perform on the Reader it is given *)
| RPrim (b : basic)
| RVarint
| RUvarint
| RBytes (n : N)
| RBytesLen (size : Z)
| RShort
| RRead (ty : goty)
| RReadInto (tys : list goty)
| RSkip (n : N)
| RSeek (p : Z).

Definition lift_r {A} (g : A -> rval) (x : reader * (A + err)) : reader * rout :=
  (fst x, match snd x with inl a => inl (g a) | inr e => inr (XE e) end).

Definition plain_rop (op : prop) (r : reader) : reader * rout :=
  let o := r_ord r in
  match op with
  | RPrim b => lift_r RVGo (r_step (rprimO o b) r)
  | RVarint => lift_r RVZ (r_step (fun bs => of_resO bs (rd_varint bs)) r)
  | RUvarint => lift_r RVN (r_step (fun bs => of_resO bs (rd_uvarint bs)) r)
  | RBytes n =>
      lift_r RVBytes (r_step (fun bs => match take_N n bs with
                                        | Ok (s, t) => tickO (c_cons n) (tickO (c_alloc n) (retO (s, t)))
                                        | Err e => failO e
                                        end) r)
  | RBytesLen size =>
      match size with
      | 1%Z => lift_r RVBytes (r_step (lpnO o 1) r)
      | 2%Z => lift_r RVBytes (r_step (lpnO o 2) r)
      | 4%Z => lift_r RVBytes (r_step (lpnO o 4) r)
      | _ => (r, inr (XE EInvalid))                       (* the default branch does not look at the Reader at all *)
      end
  | RShort => lift_r RVBytes (r_step (lpnO o 1) r)
  | RRead ty => lift_r RVGo (r_stepS (fun tot st => readO o tot ty st) r)
  | RReadInto tys =>
      match tys with
      | [] => (r, inl (RVGos []))          (* the loop body never runs: nil even in the error state *)
      | _ => lift_r RVGos (r_stepS (fun tot st => read_intoO o tot tys st) r)
      end
  | RSkip n =>
      match r_err r with
      | Some e => (r, inr (XE e))
      | None => if rlen r <? r_pos r + n then (mkR (r_buf r) (r_pos r) (r_ord r) (Some EEOF) (r_elems r), inr (XE EEOF))
                else (mkR (r_buf r) (r_pos r + n) (r_ord r) None (r_elems r), inl RVUnit)
      end
  | RSeek p =>
      if (p <? 0)%Z || (Z.of_N (rlen r) <? p)%Z then (r, inr (XE EInvalid))
      else (mkR (r_buf r) (Z.to_N p) (r_ord r) None 0, inl RVUnit)                 (* clears the error and the element budget *)
  end.

(** ** the pool of Readers (identities as for Writers) *)
Definition pr : Type := (N * reader)%type.
Record rpool : Type := mkRP { rp_free : list pr; rp_keys : list N }.
Definition rget (p : rpool) : pr * rpool :=
  match rp_keys p with
  | [] => ((0, new_reader []), mkRP (rp_free p) [])
  | k :: ks =>
      match take_id k (rp_free p) with
      | Some (r, rest) => ((k, r), mkRP rest ks)
      | None => ((k, new_reader []), mkRP (rp_free p) ks)
      end
  end.
(** NewReaderFromPool(data, opts): buf is set, the byte order is set to the option or back to the default big-endian —
    position, error and element budget are whatever the pooled Reader holds (Release has reset them) *)
Definition get_reader_opt (data : bytes) (ord : option order) (p : rpool) : pr * rpool :=
  let '((id, r), p1) := rget p in
  ((id, mkR data (r_pos r) (match ord with Some x => x | None => BE end) (r_err r) (r_elems r)), p1).
(** ReleaseReaderToPool: Reset(nil), Put *)
Definition rput (x : pr) (p : rpool) : rpool := mkRP ((fst x, r_reset [] (snd x)) :: rp_free p) (rp_keys p).

Definition r_clean (r : reader) : bool :=
  match r_buf r, r_err r with [], None => (r_pos r =? 0) && (r_elems r =? 0) | _, _ => false end.
Definition rpool_clean (p : rpool) : bool := forallb (fun x => r_clean (snd x)) (rp_free p).

(** a registered message reader: the operations it performs (it stops at the first error and returns it) *)
Fixpoint run_props (ops : list prop) (r : reader) : reader * (list rval + xerr) :=
  match ops with
  | [] => (r, inl [])
  | x :: rest =>
      match plain_rop x r with
      | (r1, inl v) => match run_props rest r1 with
                       | (r2, inl vs) => (r2, inl (v :: vs))
                       | (r2, inr e) => (r2, inr e)
                       end
      | (r1, inr e) => (r1, inr e)
      end
  end.

Inductive rop : Type :=
| RPlain (op : prop)
| RReset (data : bytes)
| RMsg.                  (* ReadMessage(codec) *)

(** what ReadMessage depends on besides the Reader: the registry (wire name -> script of the message's reader)
    and the Codec (0: none, 1: returns the bytes, other: fails) *)
Record renv : Type := mkEnv { e_table : list (bytes * list prop); e_codec : N }.
Fixpoint lookup (name : bytes) (t : list (bytes * list prop)) : option (list prop) :=
  match t with
  | [] => None
  | (n, s) :: r => if (fix eqb (a b : bytes) : bool :=
                         match a, b with
                         | [], [] => true
                         | x :: a', y :: b' => (x =? y) && eqb a' b'
                         | _, _ => false
                         end) name n then Some s else lookup name r
  end.

(** the frame of ReadMessage on the outer Reader: 4-byte body length, bounds check, the body as a SUB-SLICE
    (no copy), then the name (a string: copied) *)
Definition msg_frame (o : order) (bs : bytes) : MO ((bytes * bytes) * bytes) :=
  bindO (fixedO o 4 (fun n => n) bs) (fun p =>
    match take_N (fst p) (snd p) with
    | Ok (body, t) =>
        tickO (c_cons (fst p))
          (bindO (lp4O o t) (fun q => tickO (c_alloc (N.of_nat (length (fst q)))) (retO ((body, fst q), snd q))))
    | Err e => failO e
    end).

Definition run_rop (env : renv) (op : rop) (r : reader) (p : rpool) : reader * rpool * rout :=
  match op with
  | RPlain x => let '(r1, v) := plain_rop x r in (r1, p, v)
  | RReset data => (r_reset data r, p, inl RVUnit)
  | RMsg =>
      match r_step (msg_frame (r_ord r)) r with
      | (r1, inr e) => (r1, p, inr (XE e))
      | (r1, inl (body, name)) =>
          match lookup name (e_table env) with
          | Some script =>
              let '((id, ir), p1) := get_reader_opt body None p in
              let '(ir', res) := run_props script ir in
              let p2 := rput (id, ir') p1 in
              (r1, p2, match res with inl vs => inl (RVMsg name vs) | inr e => inr e end)
          | None =>
              (r1, p, if e_codec env =? 0 then inr XNoCodec
                      else if e_codec env =? 1 then inl (RVOut body) else inr XCodec)
          end
      end
  end.

(** * scenarios: several Writers and Readers (handles) created with NewWriter / NewReader or taken from the pools,
    operated on in any interleaving, released in any order *)
Inductive sop : Type :=
| SNewW (h id : N) (ord : option order) (buf : option (bytes * N)) (reset : bool)   (* h := NewWriter(opts): a new object [id] *)
| SGetW (h : N) (ord : option order) (id : N)                                    (* h := NewWriterFromPool(opts); the pool handed out object [id] *)
| SRelW (h : N)                                                                  (* ReleaseWriterToPool(h) *)
| SW (h : N) (op : wop) (ids : list N)                                           (* op on h; [ids]: the objects the nested Gets handed out, in order *)
| SNewR (h id : N) (data : bytes) (ord : option order)
| SGetR (h : N) (data : bytes) (ord : option order) (id : N)
| SRelR (h : N)
| SR (h : N) (op : rop) (ids : list N).

Record sst : Type := mkS {
  s_wfree : list pw;            (* the Writer pool *)
  s_rfree : list pr;            (* the Reader pool *)
  s_hw : list (N * pw);         (* live Writer handles *)
  s_hr : list (N * pr)          (* live Reader handles *)
}.
Definition s_init : sst := mkS [] [] [] [].

Inductive sobs : Type :=
| ObsW (w : writer) (ret : option xerr)
| ObsR (r : reader) (res : rout)
| ObsNone
| ObsDead.                      (* an operation on a handle that is not live: not a scenario *)

Fixpoint drop_h {A} (h : N) (l : list (N * A)) : list (N * A) :=
  match l with
  | [] => []
  | (i, x) :: r => if i =? h then drop_h h r else (i, x) :: drop_h h r
  end.
Definition find_h {A} (h : N) (l : list (N * A)) : option A :=
  match take_id h l with Some (x, _) => Some x | None => None end.

Definition run_sop (env : renv) (op : sop) (s : sst) : sst * sobs :=
  match op with
  | SNewW h id ord buf reset =>
      let w := new_writer_opt ord buf reset in
      (mkS (s_wfree s) (s_rfree s) ((h, (id, w)) :: drop_h h (s_hw s)) (s_hr s), ObsW w None)
  | SGetW h ord id =>
      let '((i, w), p) := get_writer_opt ord (mkWP (s_wfree s) [id]) in
      (mkS (wp_free p) (s_rfree s) ((h, (i, w)) :: drop_h h (s_hw s)) (s_hr s), ObsW w None)
  | SRelW h =>
      match find_h h (s_hw s) with
      | Some x => (mkS (wp_free (wput x (mkWP (s_wfree s) []))) (s_rfree s) (drop_h h (s_hw s)) (s_hr s), ObsNone)
      | None => (s, ObsDead)
      end
  | SW h op ids =>
      match find_h h (s_hw s) with
      | Some (i, w) =>
          let '(w', p, e) := run_wop op w (mkWP (s_wfree s) ids) in
          (mkS (wp_free p) (s_rfree s) ((h, (i, w')) :: drop_h h (s_hw s)) (s_hr s), ObsW w' e)
      | None => (s, ObsDead)
      end
  | SNewR h id data ord =>
      let r := mkR data 0 (match ord with Some x => x | None => BE end) None 0 in
      (mkS (s_wfree s) (s_rfree s) (s_hw s) ((h, (id, r)) :: drop_h h (s_hr s)), ObsR r (inl RVUnit))
  | SGetR h data ord id =>
      let '((i, r), p) := get_reader_opt data ord (mkRP (s_rfree s) [id]) in
      (mkS (s_wfree s) (rp_free p) (s_hw s) ((h, (i, r)) :: drop_h h (s_hr s)), ObsR r (inl RVUnit))
  | SRelR h =>
      match find_h h (s_hr s) with
      | Some x => (mkS (s_wfree s) (rp_free (rput x (mkRP (s_rfree s) []))) (s_hw s) (drop_h h (s_hr s)), ObsNone)
      | None => (s, ObsDead)
      end
  | SR h op ids =>
      match find_h h (s_hr s) with
      | Some (i, r) =>
          let '(r', p, v) := run_rop env op r (mkRP (s_rfree s) ids) in
          (mkS (s_wfree s) (rp_free p) (s_hw s) ((h, (i, r')) :: drop_h h (s_hr s)), ObsR r' v)
      | None => (s, ObsDead)
      end
  end.

Fixpoint run_scenario (env : renv) (ops : list sop) (s : sst) : sst * list sobs :=
  match ops with
  | [] => (s, [])
  | x :: r => let '(s1, o) := run_sop env x s in
              let '(s2, os) := run_scenario env r s1 in (s2, o :: os)
  end.
