(** Primitives shared by the registered-message codecs (Msgs.v, ClusterMsgs.v, Envelope.v).

    - [merr]/[mres]: outcomes of the message-level writers and readers.  Besides the primitive
      reader errors of [Codec.Prim] there are: a Codec error, "no codec configured", a panic inside a
      message writer that [SerializeRemotingMessage] recovers into an error, an UNRECOVERED panic
      ([MECrash], the Go process would crash) and fuel exhaustion of the nested-message decoder
      ([MEFuel], never a normal value: excluded by the theorems of C13).
    - [dec A]: a reader with an allocation counter.  [fst] of the result is the number of bytes the Go
      reader allocates from wire-supplied sizes while decoding (copies made by [ReadBytes], map
      pre-allocations [make(map, n)] weighted by the slot size); [snd] is the value and the remaining
      input, or the error.  The Go reader's sticky error is the monadic bind. *)
From Coq Require Import List NArith ZArith Lia Bool String Ascii.
From Coq Require Import ZifyN ZifyNat ZifyBool.
From Vivid Require Import Codec.Prim.
Import ListNotations.
Local Open Scope N_scope.

Inductive merr : Type :=
| ME (e : err)      (* an error of the primitive reader/writer or of a validation *)
| MECodec           (* the user Codec returned an error *)
| MENoCodec         (* "not a registered message and no codec configured" *)
| MERecovered       (* panic inside a message writer, recovered by SerializeRemotingMessage into an error *)
| MEBadRef          (* the ActorRef factory (actor.NewRef) rejected an (address, path) pair *)
| MECrash           (* panic that nothing recovers: the process crashes (no model function produces it any more;
                       the harness reports an unrecovered panic of the real code with this code) *)
| MEFuel.           (* decoder fuel exhausted (model artefact; proved unreachable) *)

Inductive mres (A : Type) : Type := MOk (a : A) | MErr (e : merr).
Arguments MOk {A} a.
Arguments MErr {A} e.

Definition mbind {A B} (r : mres A) (f : A -> mres B) : mres B :=
  match r with MOk a => f a | MErr e => MErr e end.
Notation "'let*m' x ':=' r 'in' k" := (mbind r (fun x => k)) (at level 200, x pattern, r at level 100, k at level 200).

Definition mlift {A} (r : res A) : mres A := match r with Ok a => MOk a | Err e => MErr (ME e) end.

(** * readers with an allocation counter *)
Definition dres (A : Type) : Type := (N * mres (A * bytes))%type.
Definition dec (A : Type) : Type := bytes -> dres A.

Definition dret {A} (a : A) : dec A := fun bs => (0, MOk (a, bs)).
Definition dfail {A} (e : merr) : dec A := fun _ => (0, MErr e).
Definition dbind {A B} (m : dec A) (f : A -> dec B) : dec B := fun bs =>
  match m bs with
  | (a, MOk (x, bs')) => match f x bs' with (a', r) => (a + a', r) end
  | (a, MErr e) => (a, MErr e)
  end.
Notation "'let+' x ':=' m 'in' k" := (dbind m (fun x => k)) (at level 200, x pattern, m at level 100, k at level 200).

Definition dlift {A} (r : bytes -> res (A * bytes)) : dec A := fun bs => (0, mlift (r bs)).
(** [make(..., n)] with a wire-supplied [n]: [w] bytes per slot *)
Definition dalloc (n : N) : dec unit := fun bs => (n, MOk (tt, bs)).

Definition drun {A} (m : dec A) (bs : bytes) : mres (A * bytes) := snd (m bs).
Definition dcost {A} (m : dec A) (bs : bytes) : N := fst (m bs).

Definition d_u8 : dec N := dlift rd_u8.
Definition d_u16 : dec N := dlift rd_u16.
Definition d_u32 : dec N := dlift rd_u32.
Definition d_u64 : dec N := dlift rd_u64.
Definition d_i32 : dec Z := dlift rd_i32.
Definition d_i64 : dec Z := dlift rd_i64.
Definition d_bool : dec bool := dlift rd_bool.
(** ReadString / Read( *[]byte ): 4-byte length, bounds check, then [make([]byte, n)] + copy *)
Definition d_str : dec bytes := fun bs =>
  match rd_lp4 bs with
  | Ok (s, t) => (N.of_nat (List.length s), MOk (s, t))
  | Err e => (0, MErr (ME e))
  end.

(** a length-prefixed block taken as a SUB-SLICE of the input (no copy): Reader.ReadMessage's body *)
Definition d_sub : dec bytes := dlift rd_lp4.

(** * text helpers (wire names, error texts) *)
Definition byte_of_ascii (c : ascii) : N := N_of_ascii c.
Fixpoint str (s : string) : bytes :=
  match s with
  | EmptyString => []
  | String c r => byte_of_ascii c :: str r
  end.

Fixpoint bytes_eqb (a b : bytes) : bool :=
  match a, b with
  | [], [] => true
  | x :: a', y :: b' => (x =? y) && bytes_eqb a' b'
  | _, _ => false
  end.

(** decimal rendering of an integer, as [fmt]'s %d *)
Fixpoint uint_bytes (d : Decimal.uint) : bytes :=
  match d with
  | Decimal.Nil => []
  | Decimal.D0 r => 48 :: uint_bytes r
  | Decimal.D1 r => 49 :: uint_bytes r
  | Decimal.D2 r => 50 :: uint_bytes r
  | Decimal.D3 r => 51 :: uint_bytes r
  | Decimal.D4 r => 52 :: uint_bytes r
  | Decimal.D5 r => 53 :: uint_bytes r
  | Decimal.D6 r => 54 :: uint_bytes r
  | Decimal.D7 r => 55 :: uint_bytes r
  | Decimal.D8 r => 56 :: uint_bytes r
  | Decimal.D9 r => 57 :: uint_bytes r
  end.
Definition dec_N (n : N) : bytes := uint_bytes (N.to_uint n).
Definition dec_Z (z : Z) : bytes :=
  match z with
  | Z0 => [48]
  | Zpos p => dec_N (Npos p)
  | Zneg p => 45 :: dec_N (Npos p)
  end.

(** ranges of the Go integer types *)
Definition in_i32 (z : Z) : Prop := (- 2 ^ 31 <= z < 2 ^ 31)%Z.
Definition in_i64 (z : Z) : Prop := (- 2 ^ 63 <= z < 2 ^ 63)%Z.
Definition in_i32b (z : Z) : bool := ((- 2 ^ 31 <=? z) && (z <? 2 ^ 31))%Z.
Definition in_i64b (z : Z) : bool := ((- 2 ^ 63 <=? z) && (z <? 2 ^ 63))%Z.
Definition len32 (b : bytes) : Prop := N.of_nat (List.length b) < 4294967296.
Definition len32b (b : bytes) : bool := N.of_nat (List.length b) <? 4294967296.
