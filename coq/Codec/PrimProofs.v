From Coq Require Import List NArith ZArith Lia Bool.
From Coq Require Import ZifyN ZifyNat ZifyBool.
From Vivid Require Import Codec.Prim.
Import ListNotations.
Local Open Scope N_scope.
Ltac Zify.zify_post_hook ::= Z.div_mod_to_equations.

Lemma be_length k n : length (be k n) = k.
Proof. revert n; induction k as [|k IH]; intros n; cbn [be]; [reflexivity|]. rewrite app_length, IH; cbn; lia. Qed.

Lemma wf_bytes_app a b : wf_bytes (a ++ b) = wf_bytes a && wf_bytes b.
Proof. unfold wf_bytes. apply forallb_app. Qed.

Lemma be_wf k n : wf_bytes (be k n) = true.
Proof.
  revert n; induction k as [|k IH]; intros n; cbn [be]; [reflexivity|].
  rewrite wf_bytes_app, IH. cbn. unfold wf_byte. rewrite andb_true_r.
  apply N.ltb_lt. apply N.mod_lt. lia.
Qed.

Lemma unbe_acc_app acc a b : unbe_acc acc (a ++ b) = unbe_acc (unbe_acc acc a) b.
Proof. revert acc; induction a as [|x a IH]; intros acc; cbn [unbe_acc app]; [reflexivity|]. apply IH. Qed.

Lemma unbe_acc_be k : forall acc n, n < 256 ^ N.of_nat k -> unbe_acc acc (be k n) = acc * 256 ^ N.of_nat k + n.
Proof.
  induction k as [|k IH]; intros acc n Hn.
  - cbn [be unbe_acc]. change (256 ^ N.of_nat 0) with 1 in *. lia.
  - cbn [be]. rewrite unbe_acc_app. cbn [unbe_acc].
    assert (Hp : 256 ^ N.of_nat (S k) = 256 * 256 ^ N.of_nat k).
    { rewrite Nat2N.inj_succ, N.pow_succ_r'. reflexivity. }
    rewrite Hp in *.
    rewrite IH by (apply N.div_lt_upper_bound; lia).
    pose proof (N.div_mod n 256 ltac:(lia)). nia.
Qed.

Lemma unbe_be k n : n < 256 ^ N.of_nat k -> unbe (be k n) = n.
Proof. intros H. unfold unbe. rewrite unbe_acc_be by exact H. lia. Qed.

Lemma take_n_app a b : take_n (length a) (a ++ b) = Ok (a, b).
Proof.
  unfold take_n. rewrite app_length.
  replace (Nat.leb (length a) (length a + length b)) with true by (symmetry; apply Nat.leb_le; lia).
  rewrite firstn_app, Nat.sub_diag, firstn_all, skipn_app, skipn_all, Nat.sub_diag. cbn. rewrite app_nil_r. reflexivity.
Qed.

Lemma take_N_app a b : take_N (N.of_nat (length a)) (a ++ b) = Ok (a, b).
Proof.
  unfold take_N. rewrite app_length.
  replace (N.of_nat (length a) <=? N.of_nat (length a + length b)) with true by (symmetry; apply N.leb_le; lia).
  rewrite Nat2N.id, firstn_app, Nat.sub_diag, firstn_all, skipn_app, skipn_all, Nat.sub_diag. cbn. rewrite app_nil_r. reflexivity.
Qed.

Lemma rd_uint_be k n rest : n < 256 ^ N.of_nat k -> rd_uint k (be k n ++ rest) = Ok (n, rest).
Proof.
  intros H. unfold rd_uint.
  rewrite <- (be_length k n) at 1. rewrite take_n_app. cbn. rewrite unbe_be by exact H. reflexivity.
Qed.

Lemma rd_u8_put n rest : n < 256 -> rd_u8 (put_u8 n ++ rest) = Ok (n, rest).
Proof. intros; apply (rd_uint_be 1); exact H. Qed.
Lemma rd_u16_put n rest : n < 65536 -> rd_u16 (put_u16 n ++ rest) = Ok (n, rest).
Proof. intros; apply (rd_uint_be 2); exact H. Qed.
Lemma rd_u32_put n rest : n < 4294967296 -> rd_u32 (put_u32 n ++ rest) = Ok (n, rest).
Proof. intros; apply (rd_uint_be 4); exact H. Qed.
Lemma rd_u64_put n rest : n < 18446744073709551616 -> rd_u64 (put_u64 n ++ rest) = Ok (n, rest).
Proof. intros; apply (rd_uint_be 8); exact H. Qed.

Lemma rd_lp4_put b rest : N.of_nat (length b) < 4294967296 -> rd_lp4 (put_lp4 b ++ rest) = Ok (b, rest).
Proof.
  intros H. unfold rd_lp4, put_lp4. rewrite <- app_assoc, rd_u32_put by exact H. cbn [bind].
  apply take_N_app.
Qed.

Lemma rd_bool_put b rest : rd_bool (put_bool b ++ rest) = Ok (b, rest).
Proof. destruct b; reflexivity. Qed.

Lemma signed_roundtrip_64 z : (- 2 ^ 63 <= z < 2 ^ 63)%Z -> to_signed 64 (of_signed 64 z) = z.
Proof.
  intros H. unfold to_signed, of_signed.
  change (Z.of_N 64) with 64%Z. change (2 ^ (64 - 1)) with 9223372036854775808.
  change (2 ^ 64)%Z with 18446744073709551616%Z in *. change (2 ^ 63)%Z with 9223372036854775808%Z in *.
  destruct (N.ltb_spec (Z.to_N (z mod 18446744073709551616)) 9223372036854775808); lia.
Qed.
Lemma signed_roundtrip_32 z : (- 2 ^ 31 <= z < 2 ^ 31)%Z -> to_signed 32 (of_signed 32 z) = z.
Proof.
  intros H. unfold to_signed, of_signed.
  change (Z.of_N 32) with 32%Z. change (2 ^ (32 - 1)) with 2147483648.
  change (2 ^ 32)%Z with 4294967296%Z in *. change (2 ^ 31)%Z with 2147483648%Z in *.
  destruct (N.ltb_spec (Z.to_N (z mod 4294967296)) 2147483648); lia.
Qed.
Lemma of_signed_lt bits z : bits <> 0 -> of_signed bits z < 2 ^ bits.
Proof.
  intros Hb. unfold of_signed.
  assert (0 < 2 ^ Z.of_N bits)%Z by (apply Z.pow_pos_nonneg; lia).
  pose proof (Z.mod_pos_bound z (2 ^ Z.of_N bits) H).
  apply N2Z.inj_lt. rewrite Z2N.id by lia. rewrite N2Z.inj_pow. cbn. lia.
Qed.
Lemma rd_i64_put z rest : (- 2 ^ 63 <= z < 2 ^ 63)%Z -> rd_i64 (put_i64 z ++ rest) = Ok (z, rest).
Proof.
  intros H. unfold rd_i64, put_i64. rewrite rd_u64_put by (apply (of_signed_lt 64); lia).
  cbn [bind]. rewrite signed_roundtrip_64 by exact H. reflexivity.
Qed.
Lemma rd_i32_put z rest : (- 2 ^ 31 <= z < 2 ^ 31)%Z -> rd_i32 (put_i32 z ++ rest) = Ok (z, rest).
Proof.
  intros H. unfold rd_i32, put_i32. rewrite rd_u32_put by (apply (of_signed_lt 32); lia).
  cbn [bind]. rewrite signed_roundtrip_32 by exact H. reflexivity.
Qed.
