(** Proofs about the byte-order parametric generic writer/reader [Codec.ReflectO]:
    - for [o = BE] it computes exactly what [Codec.Reflect] computes (so every theorem of ReflectProofs is a
      theorem about the big-endian instance of the functions the state machines of [Codec.Buf] run);
    - totality and the meter facts the state machines need, for BOTH orders: outcome Ok or Err, the bytes
      consumed are a prefix of the input (also on the failure path), the element counter only grows;
    - the round trip for BOTH orders. *)
From Coq Require Import List NArith ZArith Lia Bool.
From Coq Require Import ZifyN ZifyNat ZifyBool.
From Vivid Require Import Codec.Prim Codec.PrimProofs Codec.Prim2 Codec.Prim2Proofs Codec.PrimO
                          Codec.Reflect Codec.ReflectProofs Codec.ReflectO.
Import ListNotations.
Local Open Scope N_scope.

(** * the meter monad *)
Lemma fst_tickO {A} c (m : MO A) : fst (tickO c m) = fst m.
Proof. reflexivity. Qed.
Lemma snd_tickO {A} c (m : MO A) : snd (tickO c m) = caddO c (snd m).
Proof. reflexivity. Qed.
Lemma fst_bindO {A B} (m : MO A) (f : A -> MO B) :
  fst (bindO m f) = match fst m with OOk a => fst (f a) | OErr e => OErr e | OPanic w => OPanic w | OFuel => OFuel | OIll => OIll end.
Proof. unfold bindO. destruct (fst m); reflexivity. Qed.
Lemma snd_bindO {A B} (m : MO A) (f : A -> MO B) :
  snd (bindO m f) = match fst m with OOk a => caddO (snd m) (snd (f a)) | _ => snd m end.
Proof. unfold bindO. destruct (fst m); reflexivity. Qed.

(** * writer results *)
Lemma wthen_ok cs b : wthen (wok cs) b = (cs ++ fst b, snd b).
Proof. reflexivity. Qed.
Lemma wthen_ok_ok cs ds : wthen (wok cs) (wok ds) = wok (cs ++ ds).
Proof. reflexivity. Qed.
Lemma wthen_nil b : wthen (wok []) b = b.
Proof. destruct b; reflexivity. Qed.

(** the old model's view of a chunked result: the bytes on success, the error otherwise *)
Definition of_wres (r : wres) : out bytes :=
  match snd r with
  | OOk _ => OOk (concat (fst r))
  | OErr e => OErr e
  | OPanic w => OPanic w
  | OFuel => OFuel
  | OIll => OIll
  end.
Lemma of_wres_wthen a b :
  of_wres (wthen a b) = obind (of_wres a) (fun x => obind (of_wres b) (fun y => OOk (x ++ y))).
Proof.
  unfold wthen, of_wres. destruct a as [ca [[]|e|w| |]]; cbn [fst snd obind]; try reflexivity.
  destruct b as [cb [[]|e|w| |]]; cbn [fst snd obind]; try reflexivity. rewrite concat_app. reflexivity.
Qed.

(** * the inner fixpoints of ReflectO as named functions *)
Definition wlistC (o : order) (e : goty) : list goval -> wres :=
  fix wl (l : list goval) : wres :=
    match l with
    | [] => wok []
    | x :: r => wthen (wreflC o e x) (wl r)
    end.
Lemma wlistC_nil o e : wlistC o e [] = wok []. Proof. reflexivity. Qed.
Lemma wlistC_cons o e x r : wlistC o e (x :: r) = wthen (wreflC o e x) (wlistC o e r).
Proof. reflexivity. Qed.
Definition wfieldsC (o : order) : list (bool * goty) -> list goval -> wres :=
  fix wf (fs : list (bool * goty)) (l : list goval) {struct l} : wres :=
    match fs, l with
    | [], [] => wok []
    | (ex, t) :: fr, x :: r => if ex then wthen (wreflC o t x) (wf fr r) else wf fr r
    | _, _ => will
    end.
Definition rfieldsO (o : order) (tot : N) : list (bool * goty) -> rst -> MO (list goval * rst) :=
  fix rf (fs : list (bool * goty)) (st : rst) : MO (list goval * rst) :=
    match fs with
    | [] => retO ([], st)
    | (ex, t) :: r =>
        if ex then bindO (readO o tot t st) (fun p => bindO (rf r (snd p)) (fun q => retO (fst p :: fst q, snd q)))
        else bindO (rf r st) (fun q => retO (zero t :: fst q, snd q))
    end.
Lemma rfieldsO_nil o tot st : rfieldsO o tot [] st = retO ([], st). Proof. reflexivity. Qed.
Lemma rfieldsO_cons o tot ex t r st : rfieldsO o tot ((ex, t) :: r) st =
  if ex then bindO (readO o tot t st) (fun p => bindO (rfieldsO o tot r (snd p)) (fun q => retO (fst p :: fst q, snd q)))
  else bindO (rfieldsO o tot r st) (fun q => retO (zero t :: fst q, snd q)).
Proof. reflexivity. Qed.

Lemma wreflC_list_eq o ty e l : (ty = TSlice true e \/ ty = TSlice false e \/ exists n, ty = TArray n e) ->
  wreflC o ty (VList l) = wthen (wok [put_u32O o (N.of_nat (length l))]) (wlistC o e l).
Proof. intros [-> | [-> | [n ->]]]; reflexivity. Qed.
Lemma wreflC_struct_eq o fs l : wreflC o (TStruct fs) (VStruct l) = wfieldsC o fs l.
Proof. reflexivity. Qed.
Lemma readO_struct_eq o tot fs st :
  readO o tot (TStruct fs) st = tickO (c_alloc (tsize (TStruct fs))) (bindO (rfieldsO o tot fs st) (fun q => retO (VStruct (fst q), snd q))).
Proof. reflexivity. Qed.

(** * 1. the big-endian instance is [Codec.Reflect] *)
Lemma wprimC_BE b v : of_wres (wprimC BE b v) = wprim b v.
Proof.
  destruct b, v; try reflexivity; unfold of_wres; cbn [wprimC wok snd fst concat wprim]; rewrite ?app_nil_r; reflexivity.
Qed.

Lemma wlistC_BE e l : Forall (fun v => forall ty, of_wres (wreflC BE ty v) = wrefl ty v) l ->
  of_wres (wlistC BE e l) = wlist e l.
Proof.
  induction 1 as [|x r Hx Hr IH]; [reflexivity|].
  rewrite wlistC_cons, wlist_cons, of_wres_wthen, Hx, IH. reflexivity.
Qed.
Lemma wfieldsC_BE l : Forall (fun v => forall ty, of_wres (wreflC BE ty v) = wrefl ty v) l ->
  forall fs, of_wres (wfieldsC BE fs l) = wfields fs l.
Proof.
  induction 1 as [|x r Hx Hr IH]; intros fs; destruct fs as [|[ex t] fr]; try reflexivity.
  cbn [wfieldsC wfields]. destruct ex; [|apply IH]. rewrite of_wres_wthen, Hx, IH. reflexivity.
Qed.

Theorem wreflC_BE v : forall ty, of_wres (wreflC BE ty v) = wrefl ty v.
Proof.
  induction v as [n|z|b|s| |l IH|l IH|x IH|t x IH| ] using goval_ind'; intros ty.
  1-4: destruct ty; try reflexivity; cbn [wreflC wrefl]; apply wprimC_BE.
  - destruct ty; reflexivity.
  - destruct ty as [| | | |nm e|n e| | | | | |]; try reflexivity.
    + rewrite (wreflC_list_eq BE (TSlice nm e) e) by (destruct nm; auto).
      rewrite (wrefl_list_eq (TSlice nm e) e) by (destruct nm; auto).
      rewrite of_wres_wthen, (wlistC_BE e l IH). unfold of_wres at 1. cbn [wok snd fst concat obind]. rewrite app_nil_r.
      destruct (wlist e l); reflexivity.
    + rewrite (wreflC_list_eq BE (TArray n e) e) by eauto.
      rewrite (wrefl_list_eq (TArray n e) e) by eauto.
      rewrite of_wres_wthen, (wlistC_BE e l IH). unfold of_wres at 1. cbn [wok snd fst concat obind]. rewrite app_nil_r.
      destruct (wlist e l); reflexivity.
  - destruct ty as [| | | | | |fs| | | | |]; try reflexivity.
    rewrite wreflC_struct_eq, wrefl_struct_eq. apply wfieldsC_BE; exact IH.
  - destruct ty as [| | | | | | |t| | | |]; try reflexivity. cbn [wreflC wrefl].
    destruct t; try apply IH.
    destruct x; try reflexivity. destruct ty; try reflexivity. apply wprimC_BE.
  - destruct ty; try reflexivity. cbn [wreflC wrefl]. apply IH.
  - destruct ty; reflexivity.
Qed.

Theorem writeC_BE ty v : of_wres (writeC BE ty v) = write ty v.
Proof.
  destruct ty as [b| | | |nm e| | |e| | | |]; cbn [writeC write]; try apply wreflC_BE.
  - apply wprimC_BE.
  - destruct nm; [apply wreflC_BE|].
    destruct e as [b| | | | | | | | | | |]; try apply wreflC_BE.
    destruct b; try apply wreflC_BE.
    destruct v; try reflexivity; unfold of_wres, put_lp4; cbn [wok fst snd concat length]; rewrite ?app_nil_r, ?map_length; reflexivity.
  - destruct e as [b| | | |nm e| | | | | | |]; try apply wreflC_BE.
    + destruct v; try reflexivity. apply wprimC_BE.
    + destruct nm; [apply wreflC_BE|].
      destruct e as [b| | | | | | | | | | |]; try apply wreflC_BE.
      destruct b; try apply wreflC_BE.
      destruct v; try reflexivity.
      destruct v; try reflexivity; unfold of_wres, put_lp4; cbn [wok fst snd concat length]; rewrite ?app_nil_r, ?map_length; reflexivity.
Qed.

Theorem write_fromC_BE l : of_wres (write_fromC BE l) = write_from l.
Proof.
  induction l as [|[t v] r IH]; [reflexivity|].
  cbn [write_fromC write_from]. rewrite of_wres_wthen, writeC_BE, IH. reflexivity.
Qed.

(** the old meter (allocation, iterations) of a new computation *)
Definition proj {A} (m : MO A) : M A := (fst m, fst (snd m)).
Lemma proj_ret {A} (a : A) : proj (retO a) = ret a. Proof. reflexivity. Qed.
Lemma proj_fail {A} e : proj (@failO A e) = failM e. Proof. reflexivity. Qed.
Lemma proj_tick {A} c (m : MO A) : proj (tickO c m) = tick (fst c) (proj m).
Proof. destruct m as [r [[a i] [c1 c2]]], c as [[a' i'] [c1' c2']]. reflexivity. Qed.
Lemma tick00 {A} (m : M A) : tick (0, 0) m = m.
Proof. destruct m as [r [a i]]. reflexivity. Qed.
Lemma proj_bind {A B} (m : MO A) (f : A -> MO B) (g : A -> M B) :
  (forall a, fst m = OOk a -> proj (f a) = g a) -> proj (bindO m f) = bindM (proj m) g.
Proof.
  intros H. unfold bindO, bindM. cbn [proj fst snd]. destruct (fst m) eqn:E; try reflexivity.
  rewrite proj_tick, (H a eq_refl). reflexivity.
Qed.

Lemma proj_fixedO {A} k (f : N -> A) bs :
  proj (fixedO BE k f bs) = liftR (let* (n, t) := rd_uint k bs in Ok (f n, t)).
Proof. unfold fixedO. rewrite rd_uintO_BE. destruct (rd_uint k bs) as [[n t]|e]; reflexivity. Qed.

Lemma proj_fixedO_id k bs : proj (fixedO BE k (fun n => n) bs) = liftR (rd_uint k bs).
Proof. unfold fixedO. rewrite rd_uintO_BE. destruct (rd_uint k bs) as [[n t]|e]; reflexivity. Qed.

Lemma proj_lp4O bs :
  proj (lp4O BE bs) = bindM (liftR (rd_lp4 bs)) (fun p => tick (N.of_nat (length (fst p)), 0) (ret p)).
Proof.
  unfold lp4O, fixedO, rd_lp4, rd_u32. rewrite rd_uintO_BE. destruct (rd_uint 4 bs) as [[n t]|e]; [|reflexivity].
  cbn [bind]. unfold bindO, bindM. cbn [fst snd tickO retO liftR of_res].
  destruct (take_N n t) as [[s r]|e] eqn:E; [|reflexivity].
  destruct (take_N_suffix _ _ _ _ E) as [_ Hl]. cbn [fst snd of_res proj tickO retO tick ret caddO cadd c_cons c_alloc c0].
  rewrite Hl. unfold proj, tickO, retO, tick, ret, caddO, cadd, c_cons, c_alloc, c0. cbn [fst snd].
  apply f_equal2; [reflexivity|apply f_equal2; lia].
Qed.

Lemma proj_rprimO b bs : proj (rprimO BE b bs) = rprim b bs.
Proof.
  destruct b; cbn [rprimO rprim]; try apply proj_fixedO.
  1-4: rewrite proj_fixedO; unfold rd_i8, rd_i16, rd_i32, rd_i64, rd_u8, rd_u16, rd_u32, rd_u64;
       match goal with |- context [rd_uint ?k ?x] => destruct (rd_uint k x) as [[n t]|e] end; reflexivity.
  - rewrite proj_fixedO. unfold rd_bool, rd_u8. destruct (rd_uint 1 bs) as [[n t]|e]; reflexivity.
  - erewrite proj_bind with (g := fun p => tick (N.of_nat (length (fst p)), 0) (ret (VS (fst p), snd p))); [|intros a _; reflexivity].
    rewrite proj_lp4O. unfold rd_string. destruct (rd_lp4 bs) as [[s r]|e]; [|reflexivity].
    unfold bindM, liftR, tick, ret, cadd. cbn [fst snd of_res].
    apply f_equal2; [reflexivity|apply f_equal2; lia].
Qed.

Lemma proj_with_elO {A} el (m : MO (A * bytes)) : proj (with_elO el m) = with_el el (proj m).
Proof. unfold with_elO, with_el. apply proj_bind. intros a _. reflexivity. Qed.

Lemma proj_rd_elemsO rdO rd : (forall st, proj (rdO st) = rd st) ->
  forall fuel n st, proj (rd_elemsO rdO fuel n st) = rd_elems rd fuel n st.
Proof.
  intros H. induction fuel as [|f IH]; intros n st; cbn [rd_elemsO rd_elems]; destruct (n =? 0); try reflexivity.
  rewrite <- H. apply proj_bind. intros p _. rewrite proj_tick. cbn [c_iter fst]. f_equal.
  rewrite <- IH. apply proj_bind. intros q _. reflexivity.
Qed.

Lemma proj_rfieldsO tot fs : Forall (fun p => forall st, proj (readO BE tot (snd p) st) = read tot (snd p) st) fs ->
  forall st, proj (rfieldsO BE tot fs st) = rfields tot fs st.
Proof.
  induction 1 as [|[ex t] r Hx Hr IH]; intros st; [reflexivity|].
  rewrite rfieldsO_cons, rfields_cons. cbn [snd] in Hx. destruct ex.
  - rewrite <- Hx. apply proj_bind. intros p _. rewrite <- IH. apply proj_bind. intros q _. reflexivity.
  - rewrite <- IH. apply proj_bind. intros q _. reflexivity.
Qed.

(** the reader: same outcome, same allocation and iteration counts as [Reflect.read] *)
Theorem readO_BE tot ty : forall st, proj (readO BE tot ty st) = read tot ty st.
Proof.
  induction ty as [b|b| | |nm e IH|n e IH|fs IH|e IH| | | |] using goty_ind'; intros [bs el]; try reflexivity.
  - cbn [readO read fst snd]. rewrite proj_with_elO, proj_rprimO. reflexivity.
  - cbn [readO read fst snd]. destruct (negb nm && match e with TBasic BU8 => true | _ => false end).
    + rewrite proj_with_elO. f_equal.
      erewrite proj_bind; [rewrite proj_lp4O|intros a _; reflexivity].
      destruct (rd_lp4 bs) as [[s r]|e']; [|reflexivity].
      unfold bindM, liftR, tick, ret, cadd, proj, retO, c0; cbn [fst snd of_res]. apply f_equal2; [reflexivity|apply f_equal2; lia].
    + erewrite proj_bind; [rewrite proj_fixedO_id; reflexivity|].
      intros [n t] _. cbn [fst snd].
      destruct (N.of_nat (length t) <? n); [reflexivity|]. rewrite proj_tick. cbn [c_elems fst]. rewrite tick00.
      destruct (tot <? el + n); [reflexivity|]. rewrite proj_tick. cbn [c_alloc fst]. f_equal.
      destruct (wire0 e); [reflexivity|].
      erewrite proj_bind; [rewrite (proj_rd_elemsO _ _ IH); reflexivity|intros q _; reflexivity].
  - cbn [readO read fst snd]. rewrite proj_tick. cbn [c_alloc fst]. f_equal.
    erewrite proj_bind; [rewrite proj_fixedO_id; reflexivity|].
    intros [m t] _. cbn [fst snd]. destruct (negb (m =? n)); [reflexivity|]. destruct (wire0 e); [reflexivity|].
    erewrite proj_bind; [rewrite (proj_rd_elemsO _ _ IH); reflexivity|intros q _; reflexivity].
  - rewrite readO_struct_eq, read_struct_eq, proj_tick. cbn [c_alloc fst]. f_equal.
    erewrite proj_bind; [rewrite (proj_rfieldsO tot fs IH); reflexivity|intros q _; reflexivity].
Qed.

Corollary readO_BE_out tot ty st : fst (readO BE tot ty st) = fst (read tot ty st).
Proof. rewrite <- readO_BE. reflexivity. Qed.

Lemma read_intoO_BE tot tys : forall st, proj (read_intoO BE tot tys st) = read_into tot tys st.
Proof.
  induction tys as [|t r IH]; intros st; [reflexivity|]. cbn [read_intoO read_into].
  rewrite <- readO_BE. apply proj_bind. intros p _. rewrite <- IH. apply proj_bind. intros q _. reflexivity.
Qed.

(** * 2. totality and the meter, both orders *)
Lemma consumed_tickO {A} c (m : MO A) : consumedO (tickO c m) = fst (snd c) + consumedO m.
Proof. reflexivity. Qed.
Lemma elems_tickO {A} c (m : MO A) : elemsO (tickO c m) = snd (snd c) + elemsO m.
Proof. reflexivity. Qed.
Lemma consumed_bindO {A B} (m : MO A) (f : A -> MO B) :
  consumedO (bindO m f) = match fst m with OOk a => consumedO m + consumedO (f a) | _ => consumedO m end.
Proof. unfold bindO. destruct (fst m); reflexivity. Qed.
Lemma elems_bindO {A B} (m : MO A) (f : A -> MO B) :
  elemsO (bindO m f) = match fst m with OOk a => elemsO m + elemsO (f a) | _ => elemsO m end.
Proof. unfold bindO. destruct (fst m); reflexivity. Qed.

(** a byte-level computation on input [bs]: Ok with a non-empty consumed prefix, or Err having consumed no
    more than there is; no slice elements are counted *)
Definition goodB {A} (bs : bytes) (m : MO (A * bytes)) : Prop :=
  (exists v r h, fst m = OOk (v, r) /\ bs = h ++ r /\ h <> [] /\ consumedO m = N.of_nat (length h) /\ elemsO m = 0)
  \/ (exists e, fst m = OErr e /\ consumedO m <= N.of_nat (length bs) /\ elemsO m = 0).
(** a computation on Reader state [st] *)
Definition goodAt {A} (strict : bool) (st : rst) (m : MO (A * rst)) : Prop :=
  (exists v st' h, fst m = OOk (v, st') /\ fst st = h ++ fst st' /\ (strict = true -> h <> [])
                   /\ snd st' = snd st + elemsO m /\ consumedO m = N.of_nat (length h))
  \/ (exists e, fst m = OErr e /\ consumedO m <= N.of_nat (length (fst st))).

Lemma goodAt_ret {A} (v : A) st : goodAt false st (retO (v, st)).
Proof. left. exists v, st, []. unfold elemsO, consumedO. cbn. repeat split; auto; try discriminate. lia. Qed.
Lemma goodAt_fail {A} s st e : goodAt s st (@failO (A * rst) e).
Proof. right. exists e. unfold consumedO. cbn. split; [reflexivity|lia]. Qed.
Lemma goodAt_weaken {A} s1 s2 st (m : MO (A * rst)) : (s2 = true -> s1 = true) -> goodAt s1 st m -> goodAt s2 st m.
Proof.
  intros Hs [(v & st' & h & H1 & H2 & H3 & H4 & H5)|H]; [left|right; exact H].
  exists v, st', h. repeat split; auto.
Qed.
Lemma goodAt_tick {A} s st c (m : MO (A * rst)) : snd c = (0, 0) -> goodAt s st m -> goodAt s st (tickO c m).
Proof.
  intros Hc [(v & st' & h & H1 & H2 & H3 & H4 & H5)|(e & H1 & H2)].
  - left. exists v, st', h. rewrite fst_tickO, elems_tickO, consumed_tickO, Hc. cbn [fst snd]. repeat split; auto.
  - right. exists e. rewrite fst_tickO, consumed_tickO, Hc. cbn [fst snd]. auto.
Qed.
Lemma goodAt_elems {A} s bs el n (m : MO (A * rst)) : goodAt s (bs, el + n) m -> goodAt s (bs, el) (tickO (c_elems n) m).
Proof.
  intros [(v & st' & h & H1 & H2 & H3 & H4 & H5)|(e & H1 & H2)]; cbn [fst snd] in *.
  - left. exists v, st', h. rewrite fst_tickO, elems_tickO, consumed_tickO. cbn [c_elems fst snd]. repeat split; auto. lia.
  - right. exists e. rewrite fst_tickO, consumed_tickO. cbn [c_elems fst snd]. auto.
Qed.
Lemma goodAt_bind {A B} s1 s2 st (m : MO (A * rst)) (f : A * rst -> MO (B * rst)) :
  goodAt s1 st m -> (forall v st1, fst m = OOk (v, st1) -> goodAt s2 st1 (f (v, st1))) -> goodAt (s1 || s2) st (bindO m f).
Proof.
  intros [(v & st1 & h & H1 & H2 & H3 & H4 & H5)|(e & H1 & H2)] Hf.
  - specialize (Hf v st1 H1). unfold goodAt. rewrite fst_bindO, elems_bindO, consumed_bindO, H1.
    destruct Hf as [(w & st2 & h' & G1 & G2 & G3 & G4 & G5)|(e & G1 & G2)].
    + left. exists w, st2, (h ++ h'). rewrite G1, H2, G2, app_assoc, app_length. repeat split; auto; try lia.
      intros Hs Heq. apply app_eq_nil in Heq as [-> ->]. apply orb_prop in Hs as [Hs|Hs]; [apply H3|apply G3]; auto.
    + right. exists e. split; [exact G1|]. rewrite H2, app_length. lia.
  - right. exists e. rewrite fst_bindO, consumed_bindO, H1. auto.
Qed.
Lemma goodAt_bindB {A B} s el bs (m : MO (A * bytes)) (f : A * bytes -> MO (B * rst)) :
  goodB bs m -> (forall v t, fst m = OOk (v, t) -> goodAt s (t, el) (f (v, t))) -> goodAt true (bs, el) (bindO m f).
Proof.
  intros [(v & t & h & H1 & H2 & H3 & H4 & H5)|(e & H1 & H2 & H3)] Hf; cbn [fst snd].
  - specialize (Hf v t H1). unfold goodAt. rewrite fst_bindO, elems_bindO, consumed_bindO, H1, H5.
    destruct Hf as [(w & st2 & h' & G1 & G2 & _ & G4 & G5)|(e & G1 & G2)]; cbn [fst snd] in *.
    + left. exists w, st2, (h ++ h'). rewrite G1. subst bs. rewrite app_length, <- app_assoc, <- G2. repeat split; auto; try lia.
      intros _ Heq. apply app_eq_nil in Heq as [-> _]. apply H3; reflexivity.
    + right. exists e. split; [exact G1|]. rewrite H2, app_length. lia.
  - right. exists e. rewrite fst_bindO, consumed_bindO, H1. auto.
Qed.

Lemma rd_uintO_suffix o k bs v t : rd_uintO o k bs = Ok (v, t) -> exists h, bs = h ++ t /\ length h = k.
Proof.
  unfold rd_uintO. destruct (take_n k bs) as [[h t']|e] eqn:E; [|discriminate]. cbn [bind]. intros [= _ <-].
  exists h. apply take_n_suffix; exact E.
Qed.

Lemma fixedO_good {A} o k (f : N -> A) bs : (1 <= k)%nat -> goodB bs (fixedO o k f bs).
Proof.
  intros Hk. unfold fixedO. destruct (rd_uintO o k bs) as [[n t]|e] eqn:E.
  - destruct (rd_uintO_suffix _ _ _ _ _ E) as (h & -> & Hl). left. exists (f n), t, h.
    unfold consumedO, elemsO. cbn. rewrite Hl. repeat split; auto; try lia. intros ->. cbn in Hl. lia.
  - right. exists e. unfold consumedO, elemsO. cbn. repeat split; auto. lia.
Qed.

Lemma lp4O_good o bs :
  (exists s r h, fst (lp4O o bs) = OOk (s, r) /\ bs = h ++ r /\ (4 <= length h)%nat /\ consumedO (lp4O o bs) = N.of_nat (length h) /\ elemsO (lp4O o bs) = 0)
  \/ (exists e, fst (lp4O o bs) = OErr e /\ consumedO (lp4O o bs) <= N.of_nat (length bs) /\ elemsO (lp4O o bs) = 0).
Proof.
  unfold lp4O. rewrite fst_bindO, consumed_bindO, elems_bindO.
  destruct (fixedO_good o 4 (fun n => n) bs ltac:(lia)) as [(n & t & h & H1 & -> & H3 & H4 & H5)|(e & H1 & H2 & H3)];
    rewrite H1; [|right; exists e; auto].
  assert (Hl : length h = 4%nat).
  { unfold fixedO in H1. destruct (rd_uintO o 4 (h ++ t)) as [[n' t']|e] eqn:E; [|discriminate H1].
    cbn in H1. injection H1 as _ <-. destruct (rd_uintO_suffix _ _ _ _ _ E) as (h' & E' & Hl'). apply app_inv_tail in E'. subst h'. exact Hl'. }
  cbn [fst snd]. rewrite H4, H5. destruct (take_N n t) as [[s r]|e] eqn:E2.
  - destruct (take_N_suffix _ _ _ _ E2) as (-> & Hs). left. exists s, r, (h ++ s).
    unfold consumedO, elemsO. cbn. rewrite app_assoc, !app_length. repeat split; auto; lia.
  - right. exists e. unfold consumedO, elemsO. cbn. rewrite app_length. repeat split; auto; lia.
Qed.
Lemma lp4O_goodB o bs : goodB bs (lp4O o bs).
Proof.
  destruct (lp4O_good o bs) as [(s & r & h & H1 & H2 & H3 & H4 & H5)|H]; [left|right; exact H].
  exists s, r, h. repeat split; auto. intros ->. cbn in H3. lia.
Qed.

Lemma goodB_bind_tick_ret {A B} bs (m : MO (A * bytes)) (g : A * bytes -> B) (c : A * bytes -> costO) :
  (forall p, snd (c p) = (0, 0)) -> goodB bs m -> goodB bs (bindO m (fun p => tickO (c p) (retO (g p, snd p)))).
Proof.
  intros Hc [(v & r & h & H1 & H2 & H3 & H4 & H5)|(e & H1 & H2 & H3)].
  - left. exists (g (v, r)), r, h. rewrite fst_bindO, consumed_bindO, elems_bindO, H1.
    rewrite consumed_tickO, elems_tickO, Hc. unfold consumedO, elemsO in *. cbn [fst snd retO c0] in *. repeat split; auto; lia.
  - right. exists e. rewrite fst_bindO, consumed_bindO, elems_bindO, H1. auto.
Qed.
Lemma goodB_bind_ret {A B} bs (m : MO (A * bytes)) (g : A * bytes -> B) :
  goodB bs m -> goodB bs (bindO m (fun p => retO (g p, snd p))).
Proof.
  intros [(v & r & h & H1 & H2 & H3 & H4 & H5)|(e & H1 & H2 & H3)].
  - left. exists (g (v, r)), r, h. rewrite fst_bindO, consumed_bindO, elems_bindO, H1.
    unfold consumedO, elemsO in *. cbn [fst snd retO c0] in *. repeat split; auto; lia.
  - right. exists e. rewrite fst_bindO, consumed_bindO, elems_bindO, H1. auto.
Qed.

Lemma rprimO_good o b bs : goodB bs (rprimO o b bs).
Proof.
  destruct b; cbn [rprimO]; try (apply fixedO_good; lia).
  apply (goodB_bind_tick_ret bs (lp4O o bs) (fun p => VS (fst p)) (fun p => c_alloc (N.of_nat (length (fst p))))); [reflexivity|apply lp4O_goodB].
Qed.

Lemma with_elO_good {A} bs el (m : MO (A * bytes)) : goodB bs m -> goodAt true (bs, el) (with_elO el m).
Proof.
  intros H. unfold with_elO. apply (goodAt_bindB false el bs m); [exact H|].
  intros v t _. apply goodAt_ret.
Qed.

Lemma rd_elemsO_good rd : (forall st, goodAt true st (rd st)) -> forall fuel n st, (length (fst st) < fuel)%nat ->
  goodAt false st (rd_elemsO rd fuel n st).
Proof.
  intros Hrd. induction fuel as [|f IH]; intros n st Hl; [lia|].
  cbn [rd_elemsO]. destruct (n =? 0); [apply goodAt_ret|].
  apply (goodAt_weaken (true || false)); [auto|].
  apply goodAt_bind; [apply Hrd|]. intros v st1 E1. apply goodAt_tick; [reflexivity|].
  change false with (false || false). apply goodAt_bind.
  - apply IH. destruct (Hrd st) as [(v' & st1' & h & H1 & H2 & H3 & _)|(e & H1 & _)]; rewrite H1 in E1; [|discriminate].
    injection E1 as <- <-. cbn [fst snd]. rewrite H2, app_length in Hl. destruct h; [exfalso; apply H3; reflexivity|cbn [length] in Hl; lia].
  - intros vs st2 _. apply goodAt_ret.
Qed.

Lemma rfieldsO_good o tot fs : Forall (fun p => forall st, goodAt (negb (wire0 (snd p))) st (readO o tot (snd p) st)) fs ->
  forall st, goodAt (negb (wire0_fields fs)) st (rfieldsO o tot fs st).
Proof.
  induction 1 as [|[ex t] r Hx Hr IH]; intros st.
  - rewrite rfieldsO_nil. apply goodAt_ret.
  - rewrite rfieldsO_cons. cbn [wire0_fields]. cbn [snd] in Hx. destruct ex.
    + apply (goodAt_weaken (negb (wire0 t) || (negb (wire0_fields r) || false))).
      { destruct (wire0 t), (wire0_fields r); cbn; auto. }
      apply goodAt_bind; [apply Hx|]. intros v st1 _. apply goodAt_bind; [apply IH|]. intros vs st2 _. apply goodAt_ret.
    + apply (goodAt_weaken (negb (wire0_fields r) || false)).
      { destruct (wire0 t), (wire0_fields r); cbn; auto. }
      apply goodAt_bind; [apply IH|]. intros vs st2 _. apply goodAt_ret.
Qed.

Theorem readO_good o tot ty : forall st, goodAt (negb (wire0 ty)) st (readO o tot ty st).
Proof.
  induction ty as [b|b| | |nm e IH|n e IH|fs IH|e IH| | | |] using goty_ind'; intros [bs el];
    try (apply goodAt_fail).
  - cbn [readO fst snd wire0 negb]. apply with_elO_good, rprimO_good.
  - cbn [readO wire0 negb fst snd].
    destruct (negb nm && match e with TBasic BU8 => true | _ => false end).
    + apply with_elO_good. apply (goodB_bind_ret bs (lp4O o bs) (fun p => VList (map VN (fst p)))), lp4O_goodB.
    + apply (goodAt_bindB false el bs); [apply fixedO_good; lia|]. intros n t _. cbn [fst snd].
      destruct (N.of_nat (length t) <? n); [apply goodAt_fail|]. apply goodAt_elems.
      destruct (tot <? el + n); [apply goodAt_fail|]. apply goodAt_tick; [reflexivity|].
      destruct (wire0 e) eqn:W.
      * left. exists (VList (repeat (zero e) (N.to_nat n))), (t, el + n), []. unfold elemsO, consumedO. cbn. repeat split; auto; try discriminate; lia.
      * change false with (false || false). apply goodAt_bind.
        -- apply rd_elemsO_good; [|cbn [fst]; lia]. intros st. exact (IH st).
        -- intros vs st2 _. apply goodAt_ret.
  - cbn [readO wire0 negb fst snd]. apply goodAt_tick; [reflexivity|].
    apply (goodAt_bindB false el bs); [apply fixedO_good; lia|]. intros m t _. cbn [fst snd].
    destruct (negb (m =? n)); [apply goodAt_fail|].
    destruct (wire0 e) eqn:W.
    + left. exists (VList (repeat (zero e) (N.to_nat n))), (t, el), []. unfold elemsO, consumedO. cbn. repeat split; auto; try discriminate; lia.
    + change false with (false || false). apply goodAt_bind.
      * apply rd_elemsO_good; [|cbn [fst]; lia]. intros st. exact (IH st).
      * intros vs st2 _. apply goodAt_ret.
  - rewrite readO_struct_eq, wire0_struct. apply goodAt_tick; [reflexivity|].
    apply (goodAt_weaken (negb (wire0_fields fs) || false)); [destruct (wire0_fields fs); cbn; auto|].
    apply goodAt_bind; [apply rfieldsO_good; exact IH|]. intros vs st2 _. apply goodAt_ret.
Qed.

Corollary readO_okerr o tot ty st : okerr (fst (readO o tot ty st)).
Proof. destruct (readO_good o tot ty st) as [(v & st' & h & -> & _)|(e & -> & _)]; auto. Qed.

Lemma read_intoO_good o tot tys : forall st, goodAt false st (read_intoO o tot tys st).
Proof.
  induction tys as [|t r IH]; intros st; cbn [read_intoO]; [apply goodAt_ret|].
  apply (goodAt_weaken (negb (wire0 t) || (false || false))); [discriminate|].
  apply goodAt_bind; [apply readO_good|]. intros v st1 _. apply goodAt_bind; [apply IH|]. intros vs st2 _. apply goodAt_ret.
Qed.

(** the writer is total, both orders *)
Definition wokerr (r : wres) : Prop := (snd r = OOk tt) \/ (exists e, snd r = OErr e).
Lemma wokerr_wthen a b : wokerr a -> wokerr b -> wokerr (wthen a b).
Proof. unfold wokerr, wthen. intros [Ha|[e Ha]] Hb; rewrite Ha; cbn [snd]; auto. right; eauto. Qed.
Lemma wprimC_ok o b v : basic_ok b v = true -> exists cs, wprimC o b v = wok cs.
Proof. destruct b, v; cbn; try discriminate; eauto. Qed.

Lemma wlistC_okerr o e l : Forall (fun v => forall ty, has_typeb ty v = true -> wokerr (wreflC o ty v)) l ->
  typed_list e l = true -> wokerr (wlistC o e l).
Proof.
  induction 1 as [|x r Hx Hr IH]; [left; reflexivity|]. rewrite typed_list_cons, wlistC_cons.
  intros H. apply andb_prop in H as [H1 H2]. apply wokerr_wthen; [apply Hx; exact H1|apply IH; exact H2].
Qed.
Lemma wfieldsC_okerr o l : Forall (fun v => forall ty, has_typeb ty v = true -> wokerr (wreflC o ty v)) l ->
  forall fs, typed_fields fs l = true -> wokerr (wfieldsC o fs l).
Proof.
  induction 1 as [|x r Hx Hr IH]; intros fs; destruct fs as [|[ex t] fr]; cbn [typed_fields wfieldsC]; try discriminate; [left; reflexivity|].
  intros H. apply andb_prop in H as [H1 H2]. destruct ex; [|apply IH; exact H2].
  apply wokerr_wthen; [apply Hx; exact H1|apply IH; exact H2].
Qed.
Theorem wreflC_total o v : forall ty, has_typeb ty v = true -> wokerr (wreflC o ty v).
Proof.
  induction v as [n|z|b|s| |l IH|l IH|x IH|t x IH| ] using goval_ind'; intros ty Ht.
  1-4: destruct ty; try discriminate Ht; cbn [wreflC]; try (right; eexists; reflexivity);
       match goal with |- wokerr (wprimC _ ?b ?v) => destruct (wprimC_ok o b v Ht) as [cs ->]; left; reflexivity end.
  - destruct ty; try discriminate Ht; cbn [wreflC]; try (right; eexists; reflexivity); left; reflexivity.
  - destruct ty as [| | | |nm e|n e| | | | | |]; try discriminate Ht.
    + rewrite (wreflC_list_eq o (TSlice nm e) e) by (destruct nm; auto). rewrite has_type_slice in Ht.
      apply wokerr_wthen; [left; reflexivity|apply wlistC_okerr; assumption].
    + rewrite (wreflC_list_eq o (TArray n e) e) by eauto. rewrite has_type_array in Ht. apply andb_prop in Ht as [_ Ht].
      apply wokerr_wthen; [left; reflexivity|apply wlistC_okerr; assumption].
  - destruct ty as [| | | | | |fs| | | | |]; try discriminate Ht.
    rewrite wreflC_struct_eq. apply wfieldsC_okerr; assumption.
  - destruct ty as [| | | | | | |t| | | |]; try discriminate Ht. cbn [has_typeb] in Ht. cbn [wreflC].
    destruct t; try (apply IH; exact Ht).
    destruct x; try (right; eexists; reflexivity). cbn [has_typeb] in Ht. apply andb_prop in Ht as [_ Ht].
    destruct ty; try (right; eexists; reflexivity). destruct (wprimC_ok o _ _ (has_type_basic _ _ Ht)) as [cs ->]; left; reflexivity.
  - destruct ty; try discriminate Ht. cbn [has_typeb] in Ht. apply andb_prop in Ht as [_ Ht]. cbn [wreflC]. apply IH; exact Ht.
  - destruct ty; try discriminate Ht; cbn [wreflC]; right; eexists; reflexivity.
Qed.

Theorem writeC_total o ty v : has_typeb ty v = true -> wokerr (writeC o ty v).
Proof.
  intros Ht.
  destruct ty as [b| | | |nm e| | |e| | | |]; cbn [writeC]; try (apply wreflC_total; exact Ht).
  - destruct (wprimC_ok o b v (has_type_basic _ _ Ht)) as [cs ->]; left; reflexivity.
  - destruct nm; [apply wreflC_total; exact Ht|].
    destruct e as [b| | | | | | | | | | |]; try (apply wreflC_total; exact Ht).
    destruct b; try (apply wreflC_total; exact Ht).
    destruct v; try discriminate Ht; left; reflexivity.
  - destruct e as [b| | | |nm e| | | | | | |]; try (apply wreflC_total; exact Ht).
    + destruct v; try discriminate Ht; [right; eexists; reflexivity|].
      cbn [has_typeb] in Ht. destruct (wprimC_ok o b v (has_type_basic _ _ Ht)) as [cs ->]; left; reflexivity.
    + destruct nm; [apply wreflC_total; exact Ht|].
      destruct e as [b| | | | | | | | | | |]; try (apply wreflC_total; exact Ht).
      destruct b; try (apply wreflC_total; exact Ht).
      destruct v; try discriminate Ht; [left; reflexivity|].
      cbn [has_typeb] in Ht. destruct v; try discriminate Ht; left; reflexivity.
Qed.

Theorem write_fromC_total o l : forallb (fun p => has_typeb (fst p) (snd p)) l = true -> wokerr (write_fromC o l).
Proof.
  induction l as [|[t v] r IH]; cbn [forallb write_fromC fst snd]; [left; reflexivity|].
  intros H1. apply andb_prop in H1 as [H1 H1']. apply wokerr_wthen; [apply writeC_total; exact H1|apply IH; exact H1'].
Qed.

(** * 3. round trip, both orders *)
Lemma beO_1 o n : beO o 1 n = be 1 n.
Proof. destruct o; reflexivity. Qed.

Lemma fixedO_put {A} o k (f : N -> A) n rest : n < 256 ^ N.of_nat k ->
  fst (fixedO o k f (beO o k n ++ rest)) = OOk (f n, rest).
Proof. intros H. unfold fixedO. rewrite rd_uintO_beO by exact H. reflexivity. Qed.
Lemma fixedO_put1 {A} o (f : N -> A) n rest : n < 256 -> fst (fixedO o 1 f (be 1 n ++ rest)) = OOk (f n, rest).
Proof. intros H. rewrite <- (beO_1 o). apply fixedO_put. exact H. Qed.

Lemma lp4O_put o b rest : N.of_nat (length b) < 4294967296 ->
  fst (lp4O o (put_u32O o (N.of_nat (length b)) ++ b ++ rest)) = OOk (b, rest).
Proof.
  intros H. unfold lp4O. rewrite fst_bindO. unfold put_u32O. rewrite fixedO_put by exact H. cbn [fst snd].
  rewrite take_N_app. reflexivity.
Qed.

Lemma prim_rtO o b v rest : basic_ok b v = true -> fits (TBasic b) v = true ->
  exists cs, wprimC o b v = wok cs /\ concat cs <> [] /\ fst (rprimO o b (concat cs ++ rest)) = OOk (v, rest).
Proof.
  intros Hok Hfit. destruct b, v; try discriminate Hok; cbn [basic_ok] in Hok; cbn [wprimC rprimO]; eexists; (split; [reflexivity|]);
    cbn [concat]; rewrite ?app_nil_r.
  all: try (apply in_u_lt in Hok); try (apply in_s_range in Hok).
  - split; [apply (nonempty_length _ 0), (be_length 1)|]. unfold put_u8. rewrite fixedO_put1 by exact Hok. reflexivity.
  - split; [apply (nonempty_length _ 0), (be_length 1)|]. unfold put_i8, put_u8.
    rewrite fixedO_put1 by (apply (of_signed_lt 8); lia). rewrite signed_roundtrip_8 by exact Hok. reflexivity.
  - split; [apply (nonempty_length _ 1), (beO_length o 2)|]. unfold put_u16O. rewrite fixedO_put by exact Hok. reflexivity.
  - split; [apply (nonempty_length _ 1), (beO_length o 2)|]. unfold put_i16O, put_u16O.
    rewrite fixedO_put by (apply (of_signed_lt 16); lia). rewrite signed_roundtrip_16 by exact Hok. reflexivity.
  - split; [apply (nonempty_length _ 3), (beO_length o 4)|]. unfold put_u32O. rewrite fixedO_put by exact Hok. reflexivity.
  - split; [apply (nonempty_length _ 3), (beO_length o 4)|]. unfold put_i32O, put_u32O.
    rewrite fixedO_put by (apply (of_signed_lt 32); lia). rewrite signed_roundtrip_32 by exact Hok. reflexivity.
  - split; [apply (nonempty_length _ 7), (beO_length o 8)|]. unfold put_u64O. rewrite fixedO_put by exact Hok. reflexivity.
  - split; [apply (nonempty_length _ 7), (beO_length o 8)|]. unfold put_i64O, put_u64O.
    rewrite fixedO_put by (apply (of_signed_lt 64); lia). rewrite signed_roundtrip_64 by exact Hok. reflexivity.
  - split; [apply (nonempty_length _ 3), (beO_length o 4)|]. unfold put_u32O. rewrite fixedO_put by exact Hok. reflexivity.
  - split; [apply (nonempty_length _ 7), (beO_length o 8)|]. unfold put_u64O. rewrite fixedO_put by exact Hok. reflexivity.
  - destruct o, b; (split; [discriminate|reflexivity]).
  - cbn [fits] in Hfit. apply N.ltb_lt in Hfit. split.
    + intros H. apply app_eq_nil in H as [H _]. apply (f_equal (@length N)) in H. unfold put_u32O in H. rewrite beO_length in H. discriminate H.
    + rewrite fst_bindO, <- app_assoc, lp4O_put by exact Hfit. reflexivity.
Qed.

Definition RTO (o : order) (ty : goty) : Prop := forall v,
  has_typeb ty v = true -> fits ty v = true ->
  exists cs, wreflC o ty v = wok cs
            /\ (if wire0 ty then concat cs = [] /\ norm ty v = zero ty /\ cnt ty v = 0 else cnt ty v + 1 <= N.of_nat (length (concat cs)))
            /\ forall tot rest el, el + cnt ty v <= tot ->
                 fst (readO o tot ty (concat cs ++ rest, el)) = OOk (norm ty v, (rest, el + cnt ty v)).

Lemma elems_rtO o tot e : RTO o e -> wire0 e = false -> forall l,
  typed_list e l = true -> fits_list e l = true ->
  exists cs, wlistC o e l = wok cs /\ N.of_nat (length l) + cnt_list e l <= N.of_nat (length (concat cs))
            /\ forall rest el fuel, (length l <= fuel)%nat -> el + cnt_list e l <= tot ->
                 fst (rd_elemsO (readO o tot e) fuel (N.of_nat (length l)) (concat cs ++ rest, el)) = OOk (norm_list e l, (rest, el + cnt_list e l)).
Proof.
  intros He W. induction l as [|x r IH]; intros Ht Hf.
  - exists []. split; [reflexivity|]. split; [cbn; lia|]. intros rest el fuel _ _. cbn [cnt_list]. rewrite N.add_0_r. destruct fuel; reflexivity.
  - rewrite typed_list_cons in Ht. rewrite fits_list_cons in Hf.
    apply andb_prop in Ht as [Ht1 Ht2]. apply andb_prop in Hf as [Hf1 Hf2].
    destruct (He x Ht1 Hf1) as (bx & Hwx & Hne & Hrx). rewrite W in Hne.
    destruct (IH Ht2 Hf2) as (br & Hwr & Hlen & Hrr).
    exists (bx ++ br). rewrite wlistC_cons, Hwx, Hwr, wthen_ok_ok. split; [reflexivity|].
    rewrite cnt_list_cons, concat_app. split. { rewrite app_length. cbn [length]. lia. }
    intros rest el fuel Hfuel Hb. cbn [length] in *. destruct fuel as [|f]; [lia|].
    cbn [rd_elemsO]. replace (N.of_nat (S (length r)) =? 0) with false by lia.
    rewrite fst_bindO, <- app_assoc, Hrx by lia. rewrite fst_tickO, fst_bindO. cbn [fst snd].
    rewrite N_of_nat_S_pred, Hrr by lia. cbn [retO fst snd]. rewrite norm_list_cons.
    replace (el + cnt e x + cnt_list e r) with (el + (cnt e x + cnt_list e r)) by lia. reflexivity.
Qed.

Lemma elems_wire0O o e : RTO o e -> wire0 e = true -> forall l,
  typed_list e l = true -> fits_list e l = true ->
  (exists cs, wlistC o e l = wok cs /\ concat cs = []) /\ norm_list e l = repeat (zero e) (length l) /\ cnt_list e l = 0.
Proof.
  intros He W. induction l as [|x r IH]; intros Ht Hf; [repeat split; try reflexivity; exists []; split; reflexivity|].
  rewrite typed_list_cons in Ht. rewrite fits_list_cons in Hf.
  apply andb_prop in Ht as [Ht1 Ht2]. apply andb_prop in Hf as [Hf1 Hf2].
  destruct (He x Ht1 Hf1) as (bx & Hwx & Hne & _). rewrite W in Hne. destruct Hne as (Hbx & Hz & Hc).
  destruct (IH Ht2 Hf2) as ((br & Hwr & Hbr) & Hnr & Hcr).
  rewrite wlistC_cons, Hwx, Hwr, wthen_ok_ok. split; [exists (bx ++ br); split; [reflexivity|rewrite concat_app, Hbx, Hbr; reflexivity]|].
  rewrite norm_list_cons, Hz, Hnr, cnt_list_cons, Hc, Hcr. split; reflexivity.
Qed.

Lemma wlistC_bytes o l : typed_list (TBasic BU8) l = true ->
  exists cs, wlistC o (TBasic BU8) l = wok cs /\ concat cs = map byte_of l /\ map VN (map byte_of l) = l.
Proof.
  induction l as [|x r IH]; [exists []; repeat split; reflexivity|]. rewrite typed_list_cons. intros H. apply andb_prop in H as [H1 H2].
  destruct (IH H2) as (cs & E1 & E2 & E3). rewrite wlistC_cons. destruct x; try discriminate H1.
  cbn [has_typeb basic_ok] in H1. apply in_u_lt in H1. change (2 ^ 8) with 256 in H1.
  cbn [wreflC wprimC]. rewrite E1, wthen_ok_ok. eexists. split; [reflexivity|]. cbn [concat app map byte_of]. rewrite E2, E3. split; [|reflexivity].
  unfold put_u8. cbn [be app]. rewrite N.mod_small by exact H1. reflexivity.
Qed.

Lemma fields_rtO o tot fs : Forall (fun p => supported (snd p) = true -> RTO o (snd p)) fs -> supported_fields fs = true -> forall l,
  typed_fields fs l = true -> fits_fields fs l = true ->
  exists cs, wfieldsC o fs l = wok cs
            /\ (if wire0_fields fs then concat cs = [] /\ norm_fields fs l = zero_fields fs /\ cnt_fields fs l = 0
                else cnt_fields fs l + 1 <= N.of_nat (length (concat cs)))
            /\ cnt_fields fs l <= N.of_nat (length (concat cs))
            /\ forall rest el, el + cnt_fields fs l <= tot ->
                 fst (rfieldsO o tot fs (concat cs ++ rest, el)) = OOk (norm_fields fs l, (rest, el + cnt_fields fs l)).
Proof.
  induction 1 as [|[ex t] fr Hx Hr IH]; intros Hs l Ht Hf.
  - destruct l; [|discriminate Ht]. exists []. cbn [wfieldsC wire0_fields norm_fields zero_fields cnt_fields length concat].
    repeat split; try reflexivity; try lia. intros rest el _. rewrite rfieldsO_nil, N.add_0_r. reflexivity.
  - destruct l as [|x r]; [discriminate Ht|].
    cbn [typed_fields] in Ht. cbn [fits_fields] in Hf. cbn [supported_fields] in Hs. cbn [snd] in Hx.
    apply andb_prop in Ht as [Ht1 Ht2]. apply andb_prop in Hf as [Hf1 Hf2]. apply andb_prop in Hs as [Hs1 Hs2].
    destruct (IH Hs2 r Ht2 Hf2) as (br & Hwr & Hw0 & Hcb & Hrr).
    cbn [wfieldsC norm_fields zero_fields wire0_fields cnt_fields]. destruct ex; cbn [negb orb andb] in *.
    + destruct (Hx Hs1 x Ht1 Hf1) as (bx & Hwx & Hx0 & Hrx).
      exists (bx ++ br). rewrite Hwx, Hwr, wthen_ok_ok. split; [reflexivity|]. rewrite concat_app, app_length.
      assert (Hcx : cnt t x <= N.of_nat (length (concat bx))) by (destruct (wire0 t); [destruct Hx0 as (_ & _ & ->); lia|lia]).
      split; [|split; [lia|]].
      * destruct (wire0 t) eqn:W; cbn [andb].
        -- destruct Hx0 as (Hbx & Hz & Hc). rewrite Hbx. cbn [app length]. destruct (wire0_fields fr).
           ++ destruct Hw0 as (Hbr & Hz' & Hc'). rewrite Hz, Hz', Hc, Hc', Hbr. auto.
           ++ lia.
        -- lia.
      * intros rest el Hb. rewrite rfieldsO_cons, fst_bindO, <- app_assoc, Hrx by lia. rewrite fst_bindO. cbn [fst snd].
        rewrite Hrr by lia. cbn [retO fst snd]. replace (el + cnt t x + cnt_fields fr r) with (el + (cnt t x + cnt_fields fr r)) by lia. reflexivity.
    + exists br. split; [exact Hwr|]. split; [|split; [lia|]].
      * destruct (wire0_fields fr); [destruct Hw0 as (Hbr & Hz' & Hc'); rewrite Hz', Hc'; auto|lia].
      * intros rest el Hb. rewrite rfieldsO_cons, fst_bindO, Hrr by lia. cbn [retO fst snd]. rewrite N.add_0_l. reflexivity.
Qed.

Lemma be4O_app_length o n b : length (put_u32O o n ++ b) = (4 + length b)%nat.
Proof. rewrite app_length. unfold put_u32O. rewrite beO_length. reflexivity. Qed.

Lemma elems_contO o tot e l : RTO o e -> typed_list e l = true -> fits_list e l = true ->
  exists cs, wlistC o e l = wok cs /\ (wire0 e = false -> N.of_nat (length l) + cnt_list e l <= N.of_nat (length (concat cs))) /\
    (wire0 e = true -> cnt_list e l = 0 /\ concat cs = []) /\
    forall rest el, el + cnt_list e l <= tot ->
      fst (if wire0 e then (OOk (VList (repeat (zero e) (N.to_nat (N.of_nat (length l)))), (concat cs ++ rest, el)), c_iter (N.of_nat (length l)))
           else bindO (rd_elemsO (readO o tot e) (S (length (concat cs ++ rest))) (N.of_nat (length l)) (concat cs ++ rest, el)) (fun q => retO (VList (fst q), snd q)))
      = OOk (VList (norm_list e l), (rest, el + cnt_list e l)).
Proof.
  intros He Ht Hf. destruct (wire0 e) eqn:W.
  - destruct (elems_wire0O o e He W l Ht Hf) as ((cs & Hw & Hcs) & Hn & Hc). exists cs. split; [exact Hw|]. split; [discriminate|]. split; [auto|].
    intros rest el _. cbn [fst]. rewrite Hcs. cbn [app]. rewrite repeat_to_nat, Hn, Hc, N.add_0_r. reflexivity.
  - destruct (elems_rtO o tot e He W l Ht Hf) as (b & Hw & Hl & Hr). exists b. split; [exact Hw|]. split; [auto|]. split; [discriminate|].
    intros rest el Hb. rewrite fst_bindO, Hr by (try rewrite app_length; lia). reflexivity.
Qed.

Theorem roundtrip_reflO o ty : supported ty = true -> RTO o ty.
Proof.
  induction ty as [b|b| | |nm e IH|n e IH|fs IH|e IH| | | |] using goty_ind'; intros Hs; try discriminate Hs.
  - intros v Ht Hf. destruct (prim_rtO o b v [] (has_type_basic _ _ Ht) Hf) as (bs & Hw & Hne & _).
    exists bs. split; [destruct v; try discriminate Ht; exact Hw|]. cbn [wire0].
    assert (Hc : cnt (TBasic b) v = 0) by (destruct v; reflexivity). rewrite Hc.
    split; [destruct (concat bs); [contradiction|cbn [length]; lia]|].
    intros tot rest el _. destruct (prim_rtO o b v rest (has_type_basic _ _ Ht) Hf) as (bs' & Hw' & _ & Hr').
    rewrite Hw in Hw'. injection Hw' as <-. cbn [readO fst snd]. unfold with_elO. rewrite fst_bindO, Hr'. cbn [retO fst snd]. rewrite N.add_0_r.
    destruct v; try discriminate Ht; reflexivity.
  - (* slice *)
    cbn [supported] in Hs. specialize (IH Hs). intros v Ht Hf. cbn [wire0].
    destruct v; try discriminate Ht.
    + (* nil slice *)
      exists [put_u32O o 0]. split; [reflexivity|]. split; [cbn [concat]; rewrite app_nil_r; unfold put_u32O; rewrite beO_length; cbn; lia|].
      intros tot rest el Hb. cbn [readO norm cnt fst snd concat]. rewrite app_nil_r, N.add_0_r.
      destruct (negb nm && match e with TBasic BU8 => true | _ => false end).
      * unfold with_elO. rewrite !fst_bindO.
        change (put_u32O o 0 ++ rest) with (put_u32O o (N.of_nat (@length N [])) ++ [] ++ rest). rewrite lp4O_put by (cbn; lia). reflexivity.
      * destruct (elems_contO o tot e [] IH eq_refl eq_refl) as (b & Hw & _ & _ & Hr).
        rewrite wlistC_nil in Hw. injection Hw as <-.
        rewrite fst_bindO. unfold put_u32O. rewrite fixedO_put by lia. cbn [fst snd].
        replace (N.of_nat (length rest) <? 0) with false by lia. rewrite fst_tickO. replace (tot <? el + 0) with false by (cbn [cnt] in Hb; lia).
        rewrite fst_tickO. refine (eq_trans (Hr rest (el + 0) _) _); [cbn [cnt cnt_list] in *; lia|].
        change (norm_list e []) with (@nil goval). change (cnt_list e []) with 0. rewrite !N.add_0_r. reflexivity.
    + rewrite has_type_slice in Ht. rewrite fits_slice in Hf. apply andb_prop in Hf as [Hlen Hf]. apply andb_prop in Hlen as [Hlen Hw0]. apply N.ltb_lt in Hlen.
      rewrite (wreflC_list_eq o (TSlice nm e) e) by (destruct nm; auto). rewrite norm_slice, cnt_slice.
      destruct (negb nm && match e with TBasic BU8 => true | _ => false end) eqn:Fast.
      * pose proof Fast as Fast'. apply andb_prop in Fast' as [_ Fe].
        destruct e as [b| | | | | | | | | | |]; try discriminate Fe. destruct b; try discriminate Fe.
        destruct (wlistC_bytes o l Ht) as (cs & Hw & Hcs & Hm). rewrite Hw, wthen_ok_ok. eexists. split; [reflexivity|].
        cbn [app concat]. rewrite Hcs.
        split; [rewrite be4O_app_length; lia|].
        intros tot rest el _. cbn [readO fst snd]. rewrite Fast. unfold with_elO. rewrite !fst_bindO.
        replace (length l) with (length (map byte_of l)) by apply map_length.
        rewrite <- app_assoc, lp4O_put by (rewrite map_length; exact Hlen). cbn [retO fst snd].
        rewrite Hm, norm_list_bytes, N.add_0_r by exact Ht. reflexivity.
      * destruct (elems_contO o 0 e l IH Ht Hf) as (b & Hw & Hlb & Hc0 & _). rewrite Hw, wthen_ok_ok. eexists. split; [reflexivity|].
        cbn [app concat].
        assert (Hcnt : N.of_nat (length l) + cnt_list e l <= N.of_nat (length (concat b))).
        { destruct (wire0 e); cbn [negb orb] in Hw0; [apply N.eqb_eq in Hw0; destruct (Hc0 eq_refl) as [-> _]; lia|apply Hlb; reflexivity]. }
        split; [rewrite be4O_app_length; lia|]. intros tot rest el Hb. cbn [readO fst snd]. rewrite Fast.
        destruct (elems_contO o tot e l IH Ht Hf) as (b' & Hw' & _ & _ & Hr). rewrite Hw in Hw'. injection Hw' as <-.
        rewrite fst_bindO, <- app_assoc. unfold put_u32O. rewrite fixedO_put by exact Hlen. cbn [fst snd].
        replace (N.of_nat (length (concat b ++ rest)) <? N.of_nat (length l)) with false by (rewrite app_length; lia).
        rewrite fst_tickO.
        replace (tot <? el + N.of_nat (length l)) with false by lia.
        rewrite fst_tickO, Hr by lia. rewrite N.add_assoc. reflexivity.
  - (* array *)
    cbn [supported] in Hs. apply andb_prop in Hs as [Hn Hs]. apply N.ltb_lt in Hn. specialize (IH Hs). intros v Ht Hf. cbn [wire0].
    destruct v; try discriminate Ht.
    rewrite has_type_array in Ht. apply andb_prop in Ht as [Hlen Ht]. apply N.eqb_eq in Hlen. rewrite fits_array in Hf.
    rewrite (wreflC_list_eq o (TArray n e) e) by eauto. rewrite norm_array, cnt_array.
    destruct (elems_contO o 0 e l IH Ht Hf) as (b & Hw & Hlb & Hc0 & _). rewrite Hw, wthen_ok_ok. eexists. split; [reflexivity|].
    cbn [app concat].
    assert (Hcnt : cnt_list e l <= N.of_nat (length (concat b))).
    { destruct (wire0 e); [destruct (Hc0 eq_refl) as [-> _]; lia|specialize (Hlb eq_refl); lia]. }
    split; [rewrite be4O_app_length; lia|]. intros tot rest el Hb. cbn [readO fst snd].
    destruct (elems_contO o tot e l IH Ht Hf) as (b' & Hw' & _ & _ & Hr). rewrite Hw in Hw'. injection Hw' as <-.
    rewrite fst_tickO, fst_bindO, <- app_assoc. unfold put_u32O. rewrite fixedO_put by lia. cbn [fst snd].
    rewrite Hlen, N.eqb_refl. cbn [negb]. rewrite <- Hlen. exact (Hr rest el Hb).
  - (* struct *)
    rewrite supported_struct in Hs. intros v Ht Hf. destruct v; try discriminate Ht.
    rewrite has_type_struct in Ht. rewrite fits_struct in Hf.
    destruct (fields_rtO o 0 fs IH Hs l Ht Hf) as (b & Hw & H0 & _ & _). exists b.
    rewrite wreflC_struct_eq, wire0_struct, norm_struct, zero_struct, cnt_struct. split; [exact Hw|]. split.
    + destruct (wire0_fields fs); [destruct H0 as (-> & -> & ->); auto|exact H0].
    + intros tot rest el Hb. destruct (fields_rtO o tot fs IH Hs l Ht Hf) as (b' & Hw' & _ & _ & Hr).
      rewrite Hw in Hw'. injection Hw' as <-. rewrite readO_struct_eq, fst_tickO, fst_bindO, Hr by exact Hb. reflexivity.
Qed.

(** the type switch of Write and writeReflect append the same bytes on supported types *)
Lemma writeC_flat_wreflC o ty v : supported ty = true -> has_typeb ty v = true ->
  snd (writeC o ty v) = snd (wreflC o ty v) /\ flat (writeC o ty v) = flat (wreflC o ty v).
Proof.
  intros Hs Ht. destruct ty as [b| | | |nm e| | | | | | |]; try discriminate Hs; try (split; reflexivity).
  - cbn [writeC]. destruct v; try discriminate Ht; split; reflexivity.
  - cbn [writeC]. destruct nm; [split; reflexivity|]. destruct e as [b| | | | | | | | | | |]; try (split; reflexivity).
    destruct b; try (split; reflexivity).
    destruct v; try discriminate Ht; [split; reflexivity|].
    rewrite has_type_slice in Ht. rewrite (wreflC_list_eq o (TSlice false (TBasic BU8)) (TBasic BU8)) by auto.
    destruct (wlistC_bytes o l Ht) as (cs & -> & Hcs & _). rewrite wthen_ok_ok. unfold flat. cbn [wok fst snd concat app].
    rewrite Hcs, app_nil_r. split; reflexivity.
Qed.

(** a Reader of either order in any state whose element budget still covers the value *)
Theorem roundtrip_stateO o ty v : supported ty = true -> has_typeb ty v = true -> fits ty v = true ->
  snd (writeC o ty v) = OOk tt /\ cnt ty v <= N.of_nat (length (flat (writeC o ty v))) /\
  forall tot rest el, el + cnt ty v <= tot ->
    fst (readO o tot ty (flat (writeC o ty v) ++ rest, el)) = OOk (norm ty v, (rest, el + cnt ty v)).
Proof.
  intros Hs Ht Hf. destruct (roundtrip_reflO o ty Hs v Ht Hf) as (b & Hw & H0 & Hr).
  destruct (writeC_flat_wreflC o ty v Hs Ht) as [E1 E2]. rewrite E1, E2, Hw. unfold flat. cbn [wok fst snd].
  split; [reflexivity|]. split; [|exact Hr].
  destruct (wire0 ty); [destruct H0 as (_ & _ & ->); lia|lia].
Qed.
(** a fresh Reader over the writer's bytes followed by anything *)
Theorem roundtripO o ty v : supported ty = true -> has_typeb ty v = true -> fits ty v = true ->
  snd (writeC o ty v) = OOk tt /\
  forall rest, fst (read0O o ty (flat (writeC o ty v) ++ rest)) = OOk (norm ty v, (rest, cnt ty v)).
Proof.
  intros Hs Ht Hf. destruct (roundtrip_stateO o ty v Hs Ht Hf) as (Hw & Hc & Hr). split; [exact Hw|].
  intros rest. unfold read0O, fresh. rewrite Hr by (rewrite app_length; lia). rewrite N.add_0_l. reflexivity.
Qed.

(** WriteFrom(a...) / ReadInto(&a...) on one Reader *)
Lemma roundtrip_list_stateO o l : supported_all l = true ->
  snd (write_fromC o l) = OOk tt /\ cnt_all l <= N.of_nat (length (flat (write_fromC o l))) /\
  forall tot rest el, el + cnt_all l <= tot ->
    fst (read_intoO o tot (map fst l) (flat (write_fromC o l) ++ rest, el)) = OOk (map (fun p => norm (fst p) (snd p)) l, (rest, el + cnt_all l)).
Proof.
  induction l as [|[t v] r IH]; cbn [supported_all forallb]; intros H.
  - split; [reflexivity|]. split; [cbn; lia|]. intros tot rest el _. cbn [cnt_all]. rewrite N.add_0_r. reflexivity.
  - apply andb_prop in H as [H Hr]. apply andb_prop in H as [H Hf]. apply andb_prop in H as [Hs Ht]. cbn [fst snd] in *.
    destruct (roundtrip_stateO o t v Hs Ht Hf) as (Hw1 & Hc1 & Hr1). destruct (IH Hr) as (Hw2 & Hc2 & Hr2).
    cbn [write_fromC map fst snd cnt_all]. unfold wthen, flat in *. rewrite Hw1. cbn [fst snd]. rewrite concat_app.
    split; [exact Hw2|]. split; [rewrite app_length; lia|].
    intros tot rest el Hb. cbn [read_intoO]. rewrite fst_bindO, <- app_assoc, Hr1 by lia. rewrite fst_bindO. cbn [fst snd].
    rewrite Hr2 by lia. cbn [retO fst snd]. rewrite N.add_assoc. reflexivity.
Qed.
