(** The universe of registered wire messages and their hand-ordered reader/writer pairs:
    /repo/message.go, error.go, internal/messages/messages.go, internal/actor/scheduler.go,
    internal/cluster/serialize.go (the flat cluster codecs live in ClusterMsgs.v), plus
    Writer.WriteMessage / Reader.ReadMessage / SerializeRemotingMessage / DeserializeRemotingMessage /
    QueryMessageDesc(ByName).

    Conventions.  A [time.Time] is the [Z] of nanoseconds since the Unix epoch of the instant it
    denotes (unbounded: the zero Time is -62135596800e9); [UnixNano] computes [sec*1e9+nsec] in
    wrapping int64 arithmetic, i.e. the instant modulo 2^64 — exactly [put_i64].  [time.Unix(0,n)]
    denotes instant [n].  Location and monotonic reading are not part of the model (they are not
    transmitted).  A [*vivid.Error] is (code, text); its wrapped cause is documented as not serialised.
    User code enters through the Section variables: the Codec ([has_codec] = a non-nil Codec is
    configured, [cenc], [cdec]), the error-code registry ([qerr] = QueryError) and the ActorRef factory
    ([newref] = actor.NewRef, which normalises and validates an (address, path) pair). *)
From Coq Require Import List NArith ZArith Lia Bool String.
From stdpp Require Import gmap.
From Vivid Require Import Codec.Prim Codec.MsgPrim Cluster.VV Codec.ClusterMsgs.
Local Open Scope N_scope.

(** an interface-typed ActorRef value: nil interface, a non-nil *actor.Ref, or a typed nil pointer *)
Inductive eref : Type := RAbsent | RRef (addr path : bytes) | RTypedNil.

(** PipeResult.Error (an [error] interface value) *)
Inductive perr : Type :=
| PENil
| PEVivid (code : Z) (text : bytes)   (* *vivid.Error{code,msg} *)
| PEOther (text : bytes)              (* any other error type; text = err.Error() *)
| PETypedNil.                         (* ( *vivid.Error)(nil) *)

(** the 28 wire names registered through RegisterInternalMessage *)
Inductive kind : Type :=
| K_OnLaunch | K_OnKill | K_OnKilled | K_PipeResult | K_Pong | K_Error
| K_Command | K_Ping | K_PongMessage | K_Watch | K_Unwatch | K_Scheduler
| K_JoinRequest | K_JoinResponse | K_Gossip | K_GossipTick | K_GossipCrossDCTick
| K_FailureDetectionTick | K_GetViewRequest | K_GetViewResponse | K_LeaveRequest | K_LeaveAck
| K_ExitingReady | K_LeaveBroadcastRound | K_JoinRetryTick | K_ForceMemberDown
| K_TriggerViewBroadcast | K_SingletonFwd.

Definition all_kinds : list kind :=
  [K_OnLaunch; K_OnKill; K_OnKilled; K_PipeResult; K_Pong; K_Error;
   K_Command; K_Ping; K_PongMessage; K_Watch; K_Unwatch; K_Scheduler;
   K_JoinRequest; K_JoinResponse; K_Gossip; K_GossipTick; K_GossipCrossDCTick;
   K_FailureDetectionTick; K_GetViewRequest; K_GetViewResponse; K_LeaveRequest; K_LeaveAck;
   K_ExitingReady; K_LeaveBroadcastRound; K_JoinRetryTick; K_ForceMemberDown;
   K_TriggerViewBroadcast; K_SingletonFwd].

(** the wire names as byte strings (spelled out so that no Coq [string] reaches the extracted code);
    [MsgsProofs.name_of_spelling] checks every literal against its text *)
Definition name_of (k : kind) : bytes :=
  match k with
  | K_OnLaunch => [79; 110; 76; 97; 117; 110; 99; 104]   (* OnLaunch *)
  | K_OnKill => [79; 110; 75; 105; 108; 108]   (* OnKill *)
  | K_OnKilled => [79; 110; 75; 105; 108; 108; 101; 100]   (* OnKilled *)
  | K_PipeResult => [80; 105; 112; 101; 82; 101; 115; 117; 108; 116]   (* PipeResult *)
  | K_Pong => [80; 111; 110; 103]   (* Pong *)
  | K_Error => [69; 114; 114; 111; 114]   (* Error *)
  | K_Command => [78; 111; 110; 101; 65; 114; 103; 115; 67; 111; 109; 109; 97; 110; 100; 77; 101; 115; 115; 97; 103; 101]   (* NoneArgsCommandMessage *)
  | K_Ping => [80; 105; 110; 103; 77; 101; 115; 115; 97; 103; 101]   (* PingMessage *)
  | K_PongMessage => [80; 111; 110; 103; 77; 101; 115; 115; 97; 103; 101]   (* PongMessage *)
  | K_Watch => [87; 97; 116; 99; 104; 77; 101; 115; 115; 97; 103; 101]   (* WatchMessage *)
  | K_Unwatch => [85; 110; 119; 97; 116; 99; 104; 77; 101; 115; 115; 97; 103; 101]   (* UnwatchMessage *)
  | K_Scheduler => [83; 99; 104; 101; 100; 117; 108; 101; 114; 77; 101; 115; 115; 97; 103; 101]   (* SchedulerMessage *)
  | K_JoinRequest => [99; 108; 117; 115; 116; 101; 114; 74; 111; 105; 110; 82; 101; 113; 117; 101; 115; 116]   (* clusterJoinRequest *)
  | K_JoinResponse => [99; 108; 117; 115; 116; 101; 114; 74; 111; 105; 110; 82; 101; 115; 112; 111; 110; 115; 101]   (* clusterJoinResponse *)
  | K_Gossip => [99; 108; 117; 115; 116; 101; 114; 71; 111; 115; 115; 105; 112]   (* clusterGossip *)
  | K_GossipTick => [99; 108; 117; 115; 116; 101; 114; 71; 111; 115; 115; 105; 112; 84; 105; 99; 107]   (* clusterGossipTick *)
  | K_GossipCrossDCTick => [99; 108; 117; 115; 116; 101; 114; 71; 111; 115; 115; 105; 112; 67; 114; 111; 115; 115; 68; 67; 84; 105; 99; 107]   (* clusterGossipCrossDCTick *)
  | K_FailureDetectionTick => [99; 108; 117; 115; 116; 101; 114; 70; 97; 105; 108; 117; 114; 101; 68; 101; 116; 101; 99; 116; 105; 111; 110; 84; 105; 99; 107]   (* clusterFailureDetectionTick *)
  | K_GetViewRequest => [99; 108; 117; 115; 116; 101; 114; 71; 101; 116; 86; 105; 101; 119; 82; 101; 113; 117; 101; 115; 116]   (* clusterGetViewRequest *)
  | K_GetViewResponse => [99; 108; 117; 115; 116; 101; 114; 71; 101; 116; 86; 105; 101; 119; 82; 101; 115; 112; 111; 110; 115; 101]   (* clusterGetViewResponse *)
  | K_LeaveRequest => [99; 108; 117; 115; 116; 101; 114; 76; 101; 97; 118; 101; 82; 101; 113; 117; 101; 115; 116]   (* clusterLeaveRequest *)
  | K_LeaveAck => [99; 108; 117; 115; 116; 101; 114; 76; 101; 97; 118; 101; 65; 99; 107]   (* clusterLeaveAck *)
  | K_ExitingReady => [99; 108; 117; 115; 116; 101; 114; 69; 120; 105; 116; 105; 110; 103; 82; 101; 97; 100; 121]   (* clusterExitingReady *)
  | K_LeaveBroadcastRound => [99; 108; 117; 115; 116; 101; 114; 76; 101; 97; 118; 101; 66; 114; 111; 97; 100; 99; 97; 115; 116; 82; 111; 117; 110; 100]   (* clusterLeaveBroadcastRound *)
  | K_JoinRetryTick => [99; 108; 117; 115; 116; 101; 114; 74; 111; 105; 110; 82; 101; 116; 114; 121; 84; 105; 99; 107]   (* clusterJoinRetryTick *)
  | K_ForceMemberDown => [99; 108; 117; 115; 116; 101; 114; 70; 111; 114; 99; 101; 77; 101; 109; 98; 101; 114; 68; 111; 119; 110]   (* clusterForceMemberDown *)
  | K_TriggerViewBroadcast => [99; 108; 117; 115; 116; 101; 114; 84; 114; 105; 103; 103; 101; 114; 86; 105; 101; 119; 66; 114; 111; 97; 100; 99; 97; 115; 116]   (* clusterTriggerViewBroadcast *)
  | K_SingletonFwd => [99; 108; 117; 115; 116; 101; 114; 83; 105; 110; 103; 108; 101; 116; 111; 110; 70; 111; 114; 119; 97; 114; 100; 101; 100; 77; 101; 115; 115; 97; 103; 101]   (* clusterSingletonForwardedMessage *)
  end.
(** the same table as text *)
Definition name_text (k : kind) : string :=
  match k with
  | K_OnLaunch => "OnLaunch"
  | K_OnKill => "OnKill"
  | K_OnKilled => "OnKilled"
  | K_PipeResult => "PipeResult"
  | K_Pong => "Pong"
  | K_Error => "Error"
  | K_Command => "NoneArgsCommandMessage"
  | K_Ping => "PingMessage"
  | K_PongMessage => "PongMessage"
  | K_Watch => "WatchMessage"
  | K_Unwatch => "UnwatchMessage"
  | K_Scheduler => "SchedulerMessage"
  | K_JoinRequest => "clusterJoinRequest"
  | K_JoinResponse => "clusterJoinResponse"
  | K_Gossip => "clusterGossip"
  | K_GossipTick => "clusterGossipTick"
  | K_GossipCrossDCTick => "clusterGossipCrossDCTick"
  | K_FailureDetectionTick => "clusterFailureDetectionTick"
  | K_GetViewRequest => "clusterGetViewRequest"
  | K_GetViewResponse => "clusterGetViewResponse"
  | K_LeaveRequest => "clusterLeaveRequest"
  | K_LeaveAck => "clusterLeaveAck"
  | K_ExitingReady => "clusterExitingReady"
  | K_LeaveBroadcastRound => "clusterLeaveBroadcastRound"
  | K_JoinRetryTick => "clusterJoinRetryTick"
  | K_ForceMemberDown => "clusterForceMemberDown"
  | K_TriggerViewBroadcast => "clusterTriggerViewBroadcast"
  | K_SingletonFwd => "clusterSingletonForwardedMessage"
  end%string.

(** QueryMessageDescByName *)
Definition kind_of_name (n : bytes) : option kind :=
  find (fun k => bytes_eqb n (name_of k)) all_kinds.
(** the table of wire names that have a codec (and a round-trip theorem) in this development *)
Definition codec_names : list bytes := map name_of all_kinds.

(** message types with no field (reader and writer do nothing) *)
Inductive empty_kind : Type :=
| E_OnLaunch | E_Watch | E_Unwatch | E_GossipTick | E_GossipCrossDCTick | E_FailureDetectionTick
| E_GetViewRequest | E_LeaveRequest | E_LeaveAck | E_ExitingReady.
Definition kind_of_empty (e : empty_kind) : kind :=
  match e with
  | E_OnLaunch => K_OnLaunch | E_Watch => K_Watch | E_Unwatch => K_Unwatch
  | E_GossipTick => K_GossipTick | E_GossipCrossDCTick => K_GossipCrossDCTick
  | E_FailureDetectionTick => K_FailureDetectionTick | E_GetViewRequest => K_GetViewRequest
  | E_LeaveRequest => K_LeaveRequest | E_LeaveAck => K_LeaveAck | E_ExitingReady => K_ExitingReady
  end.
Definition empty_of_kind (k : kind) : option empty_kind :=
  match k with
  | K_OnLaunch => Some E_OnLaunch | K_Watch => Some E_Watch | K_Unwatch => Some E_Unwatch
  | K_GossipTick => Some E_GossipTick | K_GossipCrossDCTick => Some E_GossipCrossDCTick
  | K_FailureDetectionTick => Some E_FailureDetectionTick | K_GetViewRequest => Some E_GetViewRequest
  | K_LeaveRequest => Some E_LeaveRequest | K_LeaveAck => Some E_LeaveAck
  | K_ExitingReady => Some E_ExitingReady
  | _ => None
  end.

(** * flat (non-nesting) codecs of the root package and internal/messages *)
(* writeActorRef: (address, path) as two strings; a nil interface and a typed nil pointer are both
   written as two empty strings *)
Definition w_ref (r : eref) : bytes :=
  match r with
  | RRef a p => put_lp4 a ++ put_lp4 p
  | _ => put_lp4 [] ++ put_lp4 []
  end.
(* Pong{PingTime, RespondTime time.Time}: UnixNano of both *)
Definition enc_Pong (ping resp : Z) : bytes := put_i64 ping ++ put_i64 resp.
Definition dec_Pong : dec (Z * Z) := let+ p := d_i64 in let+ r := d_i64 in dret (p, r).
(* Error{code int32; msg string} *)
Definition enc_Error (code : Z) (text : bytes) : bytes := put_i32 code ++ put_lp4 text.
Definition dec_Error : dec (Z * bytes) := let+ c := d_i32 in let+ t := d_str in dret (c, t).
(* NoneArgsCommandMessage{Command uint8} *)
Definition enc_Command (c : N) : bytes := put_u8 c.
Definition dec_Command : dec N := d_u8.
(* PingMessage{Time time.Time} *)
Definition enc_Ping (t : Z) : bytes := put_i64 t.
Definition dec_Ping : dec Z := d_i64.
(* PongMessage{Ping *PingMessage; RespondTime}: m.Ping.Time dereferences a nil Ping (panic, recovered) *)
Definition enc_PongMessage (ping : option Z) (resp : Z) : mres bytes :=
  match ping with
  | None => MErr MERecovered
  | Some p => MOk (put_i64 p ++ put_i64 resp)
  end.
Definition dec_PongMessage : dec (option Z * Z) := let+ p := d_i64 in let+ r := d_i64 in dret (Some p, r).

(** literal texts of message.go: "exception: ", "error code ", " not found, message: " *)
Definition txt_exception : bytes := [101; 120; 99; 101; 112; 116; 105; 111; 110; 58; 32].
Definition txt_error_code : bytes := [101; 114; 114; 111; 114; 32; 99; 111; 100; 101; 32].
Definition txt_not_found : bytes := [32; 110; 111; 116; 32; 102; 111; 117; 110; 100; 44; 32; 109; 101; 115; 115; 97; 103; 101; 58; 32].

Definition is_nil {A} (l : list A) : bool := match l with [] => true | _ => false end.

Section Msgs.
  Variable U : Type.                 (* values outside the registry: nil, non-pointer values, unregistered types *)
  Variable has_codec : bool.         (* a non-nil Codec is configured *)
  Variable cenc : U -> mres bytes.   (* Codec.Encode *)
  Variable cdec : bytes -> mres U.   (* Codec.Decode *)
  Variable qerr : Z -> option bytes. (* vivid.QueryError: code |-> registered text *)
  Variable newref : bytes -> bytes -> mres (bytes * bytes).
                                     (* the registered ActorRef factory = actor.NewRef: normalises and
                                        validates (address, path); an uninterpreted function here *)

  (* readActorRef: two strings; both empty = nil ref; otherwise the factory rebuilds (or rejects) the ref *)
  Definition d_ref : dec eref :=
    let+ a := d_str in let+ p := d_str in
    if is_nil a && is_nil p then dret RAbsent
    else match newref a p with
         | MOk ap => dret (RRef (fst ap) (snd ap))
         | MErr e => dfail e
         end.
  (* OnKill{Killer ActorRef; Reason string; Poison bool} *)
  Definition enc_OnKill (killer : eref) (reason : bytes) (poison : bool) : bytes :=
    w_ref killer ++ put_lp4 reason ++ put_bool poison.
  Definition dec_OnKill : dec (eref * bytes * bool) :=
    let+ k := d_ref in let+ r := d_str in let+ p := d_bool in dret (k, r, p).
  (* OnKilled{Ref ActorRef} *)
  Definition enc_OnKilled (r : eref) : bytes := w_ref r.
  Definition dec_OnKilled : dec eref := d_ref.

  Inductive msg : Type :=
  | M_Empty (e : empty_kind)
  | M_OnKill (killer : eref) (reason : bytes) (poison : bool)
  | M_OnKilled (r : eref)
  | M_PipeResult (id : bytes) (m : msg) (e : perr)   (* Message != nil *)
  | M_PipeResultNil (id : bytes) (e : perr)          (* Message == nil (a failure result) *)
  | M_Pong (ping resp : Z)
  | M_Error (code : Z) (text : bytes)
  | M_Command (c : N)
  | M_Ping (t : Z)
  | M_PongMessage (ping : option Z) (resp : Z)
  | M_Scheduler (ref : bytes) (m : msg)
  | M_JoinRequest (ns : option node_state) (tok : bytes)
  | M_JoinResponse (v : option view)
  | M_Gossip (v : option view)
  | M_GetViewResponse (v : option view) (inq : bool) (leader : bytes)
  | M_LeaveBroadcastRound (round : Z)
  | M_JoinRetryTick (d : Z)
  | M_ForceMemberDown (id tok : bytes)
  | M_TriggerViewBroadcast (tok : bytes)
  | M_SingletonFwd (sender : eref) (addr path : bytes) (m : msg)
  | M_TypedNil (k : kind)            (* ( *T)(nil) for a registered T *)
  | M_Outside (u : U).               (* QueryMessageDesc = outside: nil, non-pointer, unregistered pointer *)

  (** QueryMessageDesc *)
  Definition kind_of (m : msg) : option kind :=
    match m with
    | M_Empty e => Some (kind_of_empty e)
    | M_OnKill _ _ _ => Some K_OnKill | M_OnKilled _ => Some K_OnKilled
    | M_PipeResult _ _ _ | M_PipeResultNil _ _ => Some K_PipeResult | M_Pong _ _ => Some K_Pong | M_Error _ _ => Some K_Error
    | M_Command _ => Some K_Command | M_Ping _ => Some K_Ping | M_PongMessage _ _ => Some K_PongMessage
    | M_Scheduler _ _ => Some K_Scheduler | M_JoinRequest _ _ => Some K_JoinRequest
    | M_JoinResponse _ => Some K_JoinResponse | M_Gossip _ => Some K_Gossip
    | M_GetViewResponse _ _ _ => Some K_GetViewResponse
    | M_LeaveBroadcastRound _ => Some K_LeaveBroadcastRound | M_JoinRetryTick _ => Some K_JoinRetryTick
    | M_ForceMemberDown _ _ => Some K_ForceMemberDown
    | M_TriggerViewBroadcast _ => Some K_TriggerViewBroadcast
    | M_SingletonFwd _ _ _ _ => Some K_SingletonFwd
    | M_TypedNil k => Some k
    | M_Outside _ => None
    end.

  (** pipeResultWriter's error switch; GetCode on a typed nil *Error panics (recovered) *)
  Definition perr_wire (e : perr) : mres (Z * bytes) :=
    match e with
    | PENil => MOk (0%Z, [])
    | PEVivid c t => MOk (c, t)
    | PEOther t => MOk ((-1)%Z, txt_exception ++ t)     (* ErrorException.With(err): "exception: " ++ err.Error() *)
    | PETypedNil => MErr MERecovered
    end.
  (** pipeResultReader's QueryError mapping *)
  Definition perr_of_wire (c : Z) (t : bytes) : perr :=
    if (c =? 0)%Z then PENil else
    match qerr c with
    | None => PEVivid (-1) (txt_exception ++ txt_error_code ++ dec_Z c ++ txt_not_found ++ t)
    | Some reg => if negb (is_nil t) && negb (bytes_eqb t reg) then PEVivid c t else PEVivid c reg
    end.

  (** Writer.WriteMessage, given the writer of registered bodies: lp4(body) lp4(name); an outside
      message goes through the Codec and gets the empty name *)
  Definition write_message_with (body : msg -> mres bytes) (m : msg) : mres bytes :=
    match m with
    | M_Outside u =>
        if has_codec then let*m d := cenc u in MOk (put_lp4 d ++ put_lp4 [])
        else MErr MENoCodec
    | _ =>
        match kind_of m with
        | Some k => let*m b := body m in MOk (put_lp4 b ++ put_lp4 (name_of k))
        | None => MErr MENoCodec
        end
    end.

  (** desc.writer as run by SerializeRemotingMessage (a panic inside is recovered into [MERecovered]) *)
  Fixpoint enc_body (m : msg) : mres bytes :=
    match m with
    | M_Empty _ => MOk []
    | M_OnKill k r p => MOk (enc_OnKill k r p)
    | M_OnKilled r => MOk (enc_OnKilled r)
    | M_PipeResult id m' e =>
        (* WriteFrom(hasMessage = true); WriteMessage(m.Message); error switch; WriteFrom(Id, code, text) *)
        let*m w := write_message_with enc_body m' in
        let*m ct := perr_wire e in
        MOk (put_bool true ++ w ++ put_lp4 id ++ put_i32 (fst ct) ++ put_lp4 (snd ct))
    | M_PipeResultNil id e =>
        (* WriteFrom(hasMessage = false); no message; error switch; WriteFrom(Id, code, text) *)
        let*m ct := perr_wire e in
        MOk (put_bool false ++ put_lp4 id ++ put_i32 (fst ct) ++ put_lp4 (snd ct))
    | M_Pong p r => MOk (enc_Pong p r)
    | M_Error c t => MOk (enc_Error c t)
    | M_Command c => MOk (enc_Command c)
    | M_Ping t => MOk (enc_Ping t)
    | M_PongMessage p r => enc_PongMessage p r
    | M_Scheduler ref m' =>
        let*m w := write_message_with enc_body m' in MOk (w ++ put_lp4 ref)
    | M_JoinRequest ns tok => MOk (enc_JoinRequest ns tok)
    | M_JoinResponse v => enc_ViewMsg v
    | M_Gossip v => enc_ViewMsg v
    | M_GetViewResponse v q l => enc_GetViewResponse v q l
    | M_LeaveBroadcastRound r => MOk (enc_LeaveBroadcastRound r)
    | M_JoinRetryTick d => MOk (enc_JoinRetryTick d)
    | M_ForceMemberDown id tok => MOk (enc_ForceMemberDown id tok)
    | M_TriggerViewBroadcast tok => MOk (enc_TriggerViewBroadcast tok)
    | M_SingletonFwd sender addr path m' =>
        (* if m.sender != nil { addr, path = m.sender.GetAddress(), m.sender.GetPath() } *)
        let*m ap := match sender with
                    | RAbsent => MOk (addr, path)
                    | RRef a p => MOk (a, p)
                    | RTypedNil => MErr MERecovered
                    end in
        let*m w := write_message_with enc_body m' in
        MOk (put_lp4 (fst ap) ++ put_lp4 (snd ap) ++ w)
    | M_TypedNil k =>
        (* the writers of field-less types never touch the message; every other writer dereferences it *)
        match empty_of_kind k with Some _ => MOk [] | None => MErr MERecovered end
    | M_Outside _ => MErr MENoCodec   (* not reached: outside messages have no registered writer *)
    end.

  Definition write_message (m : msg) : mres bytes := write_message_with enc_body m.

  (** SerializeRemotingMessage(codec, writer, desc, message): lp4(body) *)
  Definition serialize_remoting (m : msg) : mres bytes :=
    let*m b := enc_body m in MOk (put_lp4 b).

  (** Reader.ReadMessage given the reader of registered bodies: the body is a sub-slice of the buffer
      (not copied), the name is copied out; a registered name is decoded from the body alone (bytes left
      over in the body are ignored) *)
  Definition read_message_with (body : kind -> dec msg) : dec msg :=
    let+ data := d_sub in
    let+ name := d_str in
    match kind_of_name name with
    | Some k => fun rest =>
        match body k data with
        | (a, MOk (m, _)) => (a, MOk (m, rest))
        | (a, MErr e) => (a, MErr e)
        end
    | None => fun rest =>
        if has_codec then
          match cdec data with MOk u => (0, MOk (M_Outside u, rest)) | MErr e => (0, MErr e) end
        else (0, MErr MENoCodec)
    end.

  (** desc.reader on a fresh instance (DeserializeRemotingMessage).  Nested messages recurse on a
      strictly shorter buffer; [fuel] bounds the nesting depth and its exhaustion is [MEFuel]. *)
  Fixpoint dec_body (fuel : nat) (k : kind) {struct fuel} : dec msg :=
    match fuel with
    | O => dfail MEFuel
    | S f =>
        let rm := read_message_with (dec_body f) in
        match k with
        | K_OnKill => let+ x := dec_OnKill in dret (M_OnKill (fst (fst x)) (snd (fst x)) (snd x))
        | K_OnKilled => let+ r := dec_OnKilled in dret (M_OnKilled r)
        | K_PipeResult =>
            let+ has := d_bool in
            if has then
              let+ m := rm in let+ id := d_str in let+ c := d_i32 in let+ t := d_str in
              dret (M_PipeResult id m (perr_of_wire c t))
            else
              let+ id := d_str in let+ c := d_i32 in let+ t := d_str in
              dret (M_PipeResultNil id (perr_of_wire c t))
        | K_Pong => let+ x := dec_Pong in dret (M_Pong (fst x) (snd x))
        | K_Error => let+ x := dec_Error in dret (M_Error (fst x) (snd x))
        | K_Command => let+ c := dec_Command in dret (M_Command c)
        | K_Ping => let+ t := dec_Ping in dret (M_Ping t)
        | K_PongMessage => let+ x := dec_PongMessage in dret (M_PongMessage (fst x) (snd x))
        | K_Scheduler => let+ m := rm in let+ ref := d_str in dret (M_Scheduler ref m)
        | K_JoinRequest => let+ x := dec_JoinRequest in dret (M_JoinRequest (fst x) (snd x))
        | K_JoinResponse => let+ v := dec_ViewMsg in dret (M_JoinResponse v)
        | K_Gossip => let+ v := dec_ViewMsg in dret (M_Gossip v)
        | K_GetViewResponse =>
            let+ x := dec_GetViewResponse in dret (M_GetViewResponse (fst (fst x)) (snd (fst x)) (snd x))
        | K_LeaveBroadcastRound => let+ r := dec_LeaveBroadcastRound in dret (M_LeaveBroadcastRound r)
        | K_JoinRetryTick => let+ d := dec_JoinRetryTick in dret (M_JoinRetryTick d)
        | K_ForceMemberDown => let+ x := dec_ForceMemberDown in dret (M_ForceMemberDown (fst x) (snd x))
        | K_TriggerViewBroadcast => let+ t := dec_TriggerViewBroadcast in dret (M_TriggerViewBroadcast t)
        | K_SingletonFwd =>
            let+ a := d_str in let+ p := d_str in let+ m := rm in dret (M_SingletonFwd RAbsent a p m)
        | K_OnLaunch => dret (M_Empty E_OnLaunch)
        | K_Watch => dret (M_Empty E_Watch)
        | K_Unwatch => dret (M_Empty E_Unwatch)
        | K_GossipTick => dret (M_Empty E_GossipTick)
        | K_GossipCrossDCTick => dret (M_Empty E_GossipCrossDCTick)
        | K_FailureDetectionTick => dret (M_Empty E_FailureDetectionTick)
        | K_GetViewRequest => dret (M_Empty E_GetViewRequest)
        | K_LeaveRequest => dret (M_Empty E_LeaveRequest)
        | K_LeaveAck => dret (M_Empty E_LeaveAck)
        | K_ExitingReady => dret (M_Empty E_ExitingReady)
        end
    end.

  (** entry points with the fuel that is always sufficient (C13_fuel_sufficient) *)
  Definition deserialize_remoting (k : kind) : dec msg := fun bs => dec_body (S (length bs)) k bs.
  Definition read_message : dec msg := fun bs => read_message_with (dec_body (S (length bs))) bs.

  (** * typing and validity *)
  Definition ty_perr (e : perr) : Prop :=
    match e with PEVivid c _ => in_i32 c | _ => True end.
  Definition valid_perr (e : perr) : Prop :=
    match e with
    | PENil => True
    | PEVivid c t => c <> 0%Z /\ len32 t /\ exists reg, qerr c = Some reg /\ (t <> [] \/ t = reg)
    | PEOther _ => False          (* comes back as a *vivid.Error with code -1 *)
    | PETypedNil => False         (* encode error *)
    end.

  (** an ActorRef field survives iff it is nil, or a ref that the factory accepts unchanged (and that is
      not the pair of empty strings, which reads back as nil); a typed nil pointer reads back as nil *)
  Definition valid_kref (r : eref) : Prop :=
    match r with
    | RAbsent => True
    | RRef a p => len32 a /\ len32 p /\ (a <> [] \/ p <> []) /\ newref a p = MOk (a, p)
    | RTypedNil => False
    end.

  Fixpoint ty_msg (m : msg) : Prop :=
    match m with
    | M_PipeResult _ m' e => ty_msg m' /\ ty_perr e
    | M_PipeResultNil _ e => ty_perr e
    | M_Error c _ => in_i32 c
    | M_Command c => c < 256
    | M_Scheduler _ m' => ty_msg m'
    | M_JoinRequest ns _ => ty_ns_opt ns
    | M_JoinResponse v | M_Gossip v | M_GetViewResponse v _ _ => ty_view_opt v
    | M_LeaveBroadcastRound r => in_i64 r
    | M_JoinRetryTick d => in_i64 d
    | M_SingletonFwd _ _ _ m' => ty_msg m'
    | _ => True
    end.

  (** the values that survive the wire.  Everything excluded here is a theorem of its own in
      Properties/C12.v ([C12_..._refuted]). *)
  (** the encoded body of a nested message must fit the 4-byte length prefix *)
  Definition fits (m : msg) : Prop := forall b, enc_body m = MOk b -> len32 b.

  Fixpoint valid_msg (m : msg) : Prop :=
    match m with
    | M_Empty _ => True
    | M_OnKill k r _ => valid_kref k /\ len32 r
    | M_OnKilled k => valid_kref k
    | M_PipeResult id m' e => len32 id /\ valid_msg m' /\ fits m' /\ valid_perr e
    | M_PipeResultNil id e => len32 id /\ valid_perr e
    | M_Pong p r => in_i64 p /\ in_i64 r           (* instants UnixNano can represent *)
    | M_Error _ t => len32 t
    | M_Command _ => True
    | M_Ping t => in_i64 t
    | M_PongMessage p r => (exists t, p = Some t /\ in_i64 t) /\ in_i64 r
    | M_Scheduler ref m' => len32 ref /\ valid_msg m' /\ fits m'
    | M_JoinRequest ns tok => valid_ns_opt ns /\ len32 tok
    | M_JoinResponse v | M_Gossip v => valid_view_opt v
    | M_GetViewResponse v _ l => valid_view_opt v /\ len32 l
    | M_LeaveBroadcastRound r => in_i32 r
    | M_JoinRetryTick _ => True
    | M_ForceMemberDown id tok => len32 id /\ len32 tok
    | M_TriggerViewBroadcast tok => len32 tok
    | M_SingletonFwd s a p m' => s = RAbsent /\ len32 a /\ len32 p /\ valid_msg m' /\ fits m'
    | M_TypedNil _ => False                       (* encode error, or decoded as a non-nil pointer *)
    | M_Outside u =>                              (* M9: the user Codec round-trips this value *)
        has_codec = true /\ exists d, cenc u = MOk d /\ len32 d /\ cdec d = MOk u
    end.
End Msgs.

Arguments M_Empty {U}. Arguments M_OnKill {U}. Arguments M_OnKilled {U}. Arguments M_PipeResult {U}.
Arguments M_PipeResultNil {U}.
Arguments M_Pong {U}. Arguments M_Error {U}. Arguments M_Command {U}. Arguments M_Ping {U}.
Arguments M_PongMessage {U}. Arguments M_Scheduler {U}. Arguments M_JoinRequest {U}.
Arguments M_JoinResponse {U}. Arguments M_Gossip {U}. Arguments M_GetViewResponse {U}.
Arguments M_LeaveBroadcastRound {U}. Arguments M_JoinRetryTick {U}. Arguments M_ForceMemberDown {U}.
Arguments M_TriggerViewBroadcast {U}. Arguments M_SingletonFwd {U}. Arguments M_TypedNil {U}.
Arguments M_Outside {U}.
