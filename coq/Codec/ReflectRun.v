(** Executable entry point of the generic Writer/Reader model for the correspondence check. *)
From Coq Require Import List NArith ZArith Bool.
From Vivid Require Import Base.Tm Base.ResTm Codec.Prim Codec.Prim2 Codec.Reflect.
Import ListNotations.
Local Open Scope N_scope.

Definition basic_of (n : N) : option basic :=
  match n with
  | 0 => Some BU8 | 1 => Some BI8 | 2 => Some BU16 | 3 => Some BI16 | 4 => Some BU32 | 5 => Some BI32
  | 6 => Some BU64 | 7 => Some BI64 | 8 => Some BF32 | 9 => Some BF64 | 10 => Some BBool | 11 => Some BStr
  | _ => None
  end.

Fixpoint get_ty (t : tm) : option goty :=
  match t with
  | TL [TN 0; TN b] => option_map TBasic (basic_of b)
  | TL [TN 1; TN b] => option_map TNamed (basic_of b)
  | TL [TN 2] => Some TInt
  | TL [TN 3] => Some TUint
  | TL [TN 4; TN nm; e] => option_map (TSlice (negb (nm =? 0))) (get_ty e)
  | TL [TN 5; TN n; e] => option_map (TArray n) (get_ty e)
  | TL [TN 6; TL fs] =>
      option_map TStruct
        ((fix go (l : list tm) : option (list (bool * goty)) :=
            match l with
            | [] => Some []
            | TL [TN ex; ft] :: r =>
                match get_ty ft, go r with
                | Some t', Some r' => Some ((negb (ex =? 0), t') :: r')
                | _, _ => None
                end
            | _ => None
            end) fs)
  | TL [TN 7; e] => option_map TPtr (get_ty e)
  | TL [TN 8] => Some TIface
  | TL [TN 9] => Some TMap
  | TL [TN 10] => Some TChan
  | TL [TN 11] => Some TFunc
  | _ => None
  end.

Fixpoint get_val (t : tm) : option goval :=
  match t with
  | TL [TN 0; TN n] => Some (VN n)
  | TL [TN 1; z] => option_map VZ (get_z z)
  | TL [TN 2; b] => option_map VB (get_bool b)
  | TL [TN 3; TB s] => Some (VS s)
  | TL [TN 4] => Some VNil
  | TL [TN 5; TL l] =>
      option_map VList ((fix go (l : list tm) : option (list goval) :=
                           match l with
                           | [] => Some []
                           | x :: r => match get_val x, go r with Some v, Some vs => Some (v :: vs) | _, _ => None end
                           end) l)
  | TL [TN 6; TL l] =>
      option_map VStruct ((fix go (l : list tm) : option (list goval) :=
                             match l with
                             | [] => Some []
                             | x :: r => match get_val x, go r with Some v, Some vs => Some (v :: vs) | _, _ => None end
                             end) l)
  | TL [TN 7; x] => option_map VPtr (get_val x)
  | TL [TN 8; ty; x] => match get_ty ty, get_val x with Some t', Some v => Some (VIface t' v) | _, _ => None end
  | TL [TN 9] => Some VOpaque
  | _ => None
  end.

Definition basic_code (b : basic) : N :=
  match b with BU8 => 0 | BI8 => 1 | BU16 => 2 | BI16 => 3 | BU32 => 4 | BI32 => 5 | BU64 => 6 | BI64 => 7
             | BF32 => 8 | BF64 => 9 | BBool => 10 | BStr => 11 end.
Fixpoint t_ty (t : goty) : tm :=
  match t with
  | TBasic b => TL [TN 0; TN (basic_code b)]
  | TNamed b => TL [TN 1; TN (basic_code b)]
  | TInt => TL [TN 2]
  | TUint => TL [TN 3]
  | TSlice nm e => TL [TN 4; tbool nm; t_ty e]
  | TArray n e => TL [TN 5; TN n; t_ty e]
  | TStruct fs => TL [TN 6; TL ((fix go (fs : list (bool * goty)) : list tm :=
                                   match fs with [] => [] | (ex, ft) :: r => TL [tbool ex; t_ty ft] :: go r end) fs)]
  | TPtr e => TL [TN 7; t_ty e]
  | TIface => TL [TN 8]
  | TMap => TL [TN 9]
  | TChan => TL [TN 10]
  | TFunc => TL [TN 11]
  end.
Fixpoint t_val (v : goval) : tm :=
  match v with
  | VN n => TL [TN 0; TN n]
  | VZ z => TL [TN 1; tz z]
  | VB b => TL [TN 2; tbool b]
  | VS s => TL [TN 3; TB s]
  | VNil => TL [TN 4]
  | VList l => TL [TN 5; TL (map t_val l)]
  | VStruct l => TL [TN 6; TL (map t_val l)]
  | VPtr x => TL [TN 7; t_val x]
  | VIface ty x => TL [TN 8; t_ty ty; t_val x]
  | VOpaque => TL [TN 9]
  end.

Definition why_code (w : why) : N := match w with WNilDeref => 1 | WSliceBounds => 2 | WOther => 3 end.
Definition t_out {A} (f : A -> tm) (o : out A) : tm :=
  match o with
  | OOk a => TL [TN 0; f a]
  | OErr e => TL [TN 1; TN (err_code e)]
  | OPanic w => TL [TN 2; TN (why_code w)]
  | OFuel => TL [TN 3]
  | OIll => TL [TN 4]
  end.

Definition consumed (bs rest : bytes) : tm := TN (N.of_nat (length bs - length rest)).

Fixpoint get_pairs (l : list tm) : option (list (goty * goval)) :=
  match l with
  | [] => Some []
  | TL [ty; v] :: r =>
      match get_ty ty, get_val v, get_pairs r with
      | Some t', Some v', Some r' => Some ((t', v') :: r')
      | _, _, _ => None
      end
  | _ => None
  end.
Definition all_typed (l : list (goty * goval)) : bool := forallb (fun p => has_typeb (fst p) (snd p)) l.

Definition run_reflect (t : tm) : tm :=
  match t with
  (* Write(v) *)
  | TL [TN 0; ty; v] =>
      match get_ty ty, get_val v with
      | Some ty, Some v => if has_typeb ty v then t_out TB (write ty v) else tm_err 2
      | _, _ => tm_err 1
      end
  (* Read(&x), x : ty a fresh zero variable *)
  | TL [TN 1; ty; TB bs] =>
      match get_ty ty with
      | Some ty => t_out (fun p => TL [t_val (fst p); consumed bs (fst (snd p))]) (fst (read0 ty bs))
      | None => tm_err 1
      end
  (* WriteFrom(vals...) *)
  | TL [TN 2; TL l] =>
      match get_pairs l with
      | Some l => if all_typed l then t_out TB (write_from l) else tm_err 2
      | None => tm_err 1
      end
  (* ReadInto(&a, ...) over variables holding the given old values: variables afterwards + outcome *)
  | TL [TN 3; TL l; TB bs] =>
      match get_pairs l with
      | Some l => let '(vs, o) := read_into_vars0 l bs in TL [tlist t_val vs; t_out (fun st => consumed bs (fst st)) o]
      | None => tm_err 1
      end
  (* primitives, writer side *)
  | TL [TN 4; TN 0; z] => match get_z z with Some z => TB (put_varint z) | None => tm_err 1 end
  | TL [TN 4; TN 1; TN n] => TB (put_uvarint n)
  | TL [TN 4; TN 2; TB s] => tres TB (put_short s)
  | TL [TN 4; TN 3; z; TB b] => match get_z z with Some z => tres TB (put_lpk z b) | None => tm_err 1 end
  | TL [TN 4; TN 4; TN b; v] =>
      match basic_of b, get_val v with
      | Some b, Some v => if basic_ok b v then t_out TB (wprim b v) else tm_err 2
      | _, _ => tm_err 1
      end
  (* primitives, reader side *)
  | TL [TN 5; TN 0; TB bs] => tres (fun p => TL [tz (fst p); consumed bs (snd p)]) (rd_varint bs)
  | TL [TN 5; TN 1; TB bs] => tres (fun p => TL [TN (fst p); consumed bs (snd p)]) (rd_uvarint bs)
  | TL [TN 5; TN 2; TB bs] => tres (fun p => TL [TB (fst p); consumed bs (snd p)]) (rd_short bs)
  | TL [TN 5; TN 3; z; TB bs] =>
      match get_z z with Some z => tres (fun p => TL [TB (fst p); consumed bs (snd p)]) (rd_lpk z bs) | None => tm_err 1 end
  | TL [TN 5; TN 4; TN b; TB bs] =>
      match basic_of b with
      | Some b => t_out (fun p => TL [t_val (fst p); consumed bs (snd p)]) (fst (rprim b bs))
      | None => tm_err 1
      end
  | TL [TN 5; TN 5; z; TB bs] =>
      match get_z z with Some z => t_out (fun p => TL [TB (fst p); consumed bs (snd p)]) (rd_bytes_z z bs) | None => tm_err 1 end
  (* Read called with a typed nil pointer (0) / a non-pointer (1) *)
  | TL [TN 6; TN 0; ty; TB bs] =>
      match get_ty ty with
      | Some ty => t_out (fun p => TL [t_val (fst p); consumed bs (snd p)]) (read_call (TgtNilPtr ty) bs)
      | None => tm_err 1
      end
  | TL [TN 6; TN 1; TB bs] => t_out (fun p => TL [t_val (fst p); consumed bs (snd p)]) (read_call TgtNonPtr bs)
  (* the model's cost meter for Read: (allocated bytes, iterations) *)
  | TL [TN 7; ty; TB bs] =>
      match get_ty ty with
      | Some ty => let c := snd (read0 ty bs) in TL [TN (fst c); TN (snd c)]
      | None => tm_err 1
      end
  | _ => tm_err 0
  end.
