(** The registered messages that carry an ActorRef (OnKill, OnKilled) with the factory instantiated by the
    string-level model of actor.NewRef ([Codec.RefNorm]): every ref the factory built survives the wire. *)
From Coq Require Import List NArith ZArith Lia Bool.
From Vivid Require Import Codec.Prim Codec.MsgPrim Codec.Msgs Codec.MsgsProofs Codec.RefNorm Codec.RefNormProofs.
Import ListNotations.
Local Open Scope N_scope.

(** the ActorRef factory registered by internal/actor: NewRef; its two errors are one class for the decoder *)
Definition newref_model (ip : bytes -> bool) (a p : bytes) : mres (bytes * bytes) :=
  match new_ref ip a p with inl ap => MOk ap | inr _ => MErr MEBadRef end.

Lemma len32_le (a b : bytes) : (length a <= length b)%nat -> len32 b -> len32 a.
Proof. unfold len32. lia. Qed.

(** every ref built by the factory from strings below 4 GiB is a ref that survives (Msgs.valid_kref) *)
Theorem factory_kref ip a p a' p' : new_ref ip a p = inl (a', p') -> len32 a -> len32 p ->
  valid_kref (newref_model ip) (RRef a' p').
Proof.
  intros H La Lp. destruct (new_ref_shape ip a p a' p' H) as ((r & Hp) & Hne & Hla & Hlp).
  cbn [valid_kref]. repeat split.
  - exact (len32_le _ _ Hla La).
  - exact (len32_le _ _ Hlp Lp).
  - left. exact Hne.
  - unfold newref_model. rewrite (new_ref_idem ip a p a' p' H). reflexivity.
Qed.
Theorem OnKill_factory_rt ip a p a' p' reason poison rest :
  new_ref ip a p = inl (a', p') -> len32 a -> len32 p -> len32 reason ->
  drun (dec_OnKill (newref_model ip)) (enc_OnKill (RRef a' p') reason poison ++ rest) = MOk ((RRef a' p', reason, poison), rest).
Proof. intros H La Lp Lr. apply OnKill_rt; [exact (factory_kref ip a p a' p' H La Lp)|exact Lr]. Qed.
Theorem OnKilled_factory_rt ip a p a' p' rest :
  new_ref ip a p = inl (a', p') -> len32 a -> len32 p ->
  drun (dec_OnKilled (newref_model ip)) (enc_OnKilled (RRef a' p') ++ rest) = MOk (RRef a' p', rest).
Proof. intros H La Lp. apply OnKilled_rt. exact (factory_kref ip a p a' p' H La Lp). Qed.
