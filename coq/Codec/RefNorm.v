(** String-level model of the ActorRef factory: internal/actor/ref.go NewRef =
    internal/utils/ref.go NormalizeAddress + NormalizePath (+ net_addr.go IsDomainName), as they are now.

    Modelled exactly (byte strings, UTF-8 as Go sees it):
    - strings.TrimSpace: the six ASCII white-space bytes and the UTF-8 encodings of the other runes of
      unicode.White_Space (U+0085 U+00A0 U+1680 U+2000-U+200A U+2028 U+2029 U+202F U+205F U+3000), stripped
      from both ends (a malformed sequence decodes to U+FFFD, which is not a space, exactly as below: only the
      well-formed encodings are recognised);
    - the path regexp ^/(?:[A-Za-z0-9\-._~!$&'()*+,;=:@]|%[0-9A-Fa-f]{2}|/)*$;
    - net.SplitHostPort; strconv.Atoi + the port range 1..65535;
    - IsDomainName: at most 253 bytes and the label regexp under (?i) — Go's case folding makes U+212A
      (KELVIN SIGN) and U+017F (LONG S) letters.
    The only oracle is net.ParseIP ([ip : bytes -> bool] = "ParseIP(s) != nil"). *)
From Coq Require Import List NArith ZArith Bool.
From Vivid Require Import Codec.Prim.
Import ListNotations.
Local Open Scope N_scope.

Definition ascii_space (b : N) : bool := ((9 <=? b) && (b <=? 13)) || (b =? 32).
(** two- and three-byte encodings of the non-ASCII white-space runes *)
Definition sp2 (a b : N) : bool := (a =? 194) && ((b =? 133) || (b =? 160)).            (* C2 85, C2 A0 *)
Definition sp3 (a b c : N) : bool :=
  ((a =? 225) && (b =? 154) && (c =? 128))                                              (* E1 9A 80 *)
  || ((a =? 226) && (b =? 128) && (((128 <=? c) && (c <=? 138)) || (c =? 168) || (c =? 169) || (c =? 175)))   (* E2 80 80..8A A8 A9 AF *)
  || ((a =? 226) && (b =? 129) && (c =? 159))                                           (* E2 81 9F *)
  || ((a =? 227) && (b =? 128) && (c =? 128)).                                          (* E3 80 80 *)

(** strings.TrimLeftFunc(s, unicode.IsSpace) *)
Fixpoint ltrim (bs : bytes) : bytes :=
  match bs with
  | [] => []
  | b :: r =>
      if ascii_space b then ltrim r
      else match r with
           | c :: r2 =>
               if sp2 b c then ltrim r2
               else match r2 with
                    | d :: r3 => if sp3 b c d then ltrim r3 else bs
                    | [] => bs
                    end
           | [] => bs
           end
  end.
(** the same on the reversed string: strings.TrimRightFunc decodes the LAST rune, which for a well-formed
    encoding at the end of the string is that encoding *)
Fixpoint ltrim_rev (bs : bytes) : bytes :=
  match bs with
  | [] => []
  | b :: r =>
      if ascii_space b then ltrim_rev r
      else match r with
           | c :: r2 =>
               if sp2 c b then ltrim_rev r2
               else match r2 with
                    | d :: r3 => if sp3 d c b then ltrim_rev r3 else bs
                    | [] => bs
                    end
           | [] => bs
           end
  end.
Definition rtrim (bs : bytes) : bytes := rev (ltrim_rev (rev bs)).
Definition trim_space (bs : bytes) : bytes := rtrim (ltrim bs).

Definition is_digit (b : N) : bool := (48 <=? b) && (b <=? 57).
Definition is_alpha (b : N) : bool := ((65 <=? b) && (b <=? 90)) || ((97 <=? b) && (b <=? 122)).
Definition is_alnum (b : N) : bool := is_digit b || is_alpha b.
Definition is_hex (b : N) : bool := is_digit b || ((65 <=? b) && (b <=? 70)) || ((97 <=? b) && (b <=? 102)).
(** - . _ ~ ! $ & ' ( ) * + , ; = : @ *)
Definition path_punct (b : N) : bool :=
  existsb (N.eqb b) [45; 46; 95; 126; 33; 36; 38; 39; 40; 41; 42; 43; 44; 59; 61; 58; 64].
Definition path_char (b : N) : bool := is_alnum b || path_punct b || (b =? 47).

Fixpoint path_tail (bs : bytes) : bool :=
  match bs with
  | [] => true
  | b :: r =>
      if b =? 37 then                         (* % HEX HEX *)
        match r with
        | h1 :: h2 :: r2 => is_hex h1 && is_hex h2 && path_tail r2
        | _ => false
        end
      else path_char b && path_tail r
  end.

(** NormalizePath *)
Definition norm_path (p : bytes) : option bytes :=
  let p' := trim_space p in
  match p' with
  | [] => None
  | b :: r => if (b =? 47) && path_tail r then Some p' else None
  end.

(** ** addresses *)
Fixpoint index_of (c : N) (bs : bytes) (i : nat) : option nat :=
  match bs with
  | [] => None
  | b :: r => if b =? c then Some i else index_of c r (S i)
  end.
Fixpoint last_index_of (c : N) (bs : bytes) (i : nat) (acc : option nat) : option nat :=
  match bs with
  | [] => acc
  | b :: r => last_index_of c r (S i) (if b =? c then Some i else acc)
  end.
Definition has_byte (c : N) (bs : bytes) : bool := match index_of c bs 0 with Some _ => true | None => false end.

(** net.SplitHostPort *)
Definition split_host_port (hp : bytes) : option (bytes * bytes) :=
  match last_index_of 58 hp 0 None with
  | None => None                                            (* missing port *)
  | Some i =>
      let port := skipn (S i) hp in
      match hp with
      | 91 :: _ =>                                          (* '[' *)
          match index_of 93 hp 0 with
          | None => None                                    (* missing ']' *)
          | Some e =>
              if Nat.eqb (S e) i then
                let host := firstn (e - 1) (skipn 1 hp) in
                if has_byte 91 (skipn 1 hp) then None       (* unexpected '[' *)
                else if has_byte 93 (skipn (S e) hp) then None   (* unexpected ']' *)
                else Some (host, port)
              else None                                     (* missing port / too many colons *)
          end
      | _ =>
          let host := firstn i hp in
          if has_byte 58 host then None                     (* too many colons *)
          else if has_byte 91 hp then None
          else if has_byte 93 hp then None
          else Some (host, port)
      end
  end.

(** strconv.Atoi(port) succeeds with 1 <= n <= 65535: an optional sign, at least one digit, decimal *)
Fixpoint digits_val (bs : bytes) (acc : N) : option N :=
  match bs with
  | [] => Some acc
  | b :: r => if is_digit b then digits_val r (acc * 10 + (b - 48)) else None
  end.
Definition valid_port (p : bytes) : bool :=
  let body := match p with
              | 43 :: r => Some r          (* '+' *)
              | 45 :: _ => None            (* '-': never positive *)
              | _ => Some p
              end in
  match body with
  | Some (d :: r) => match digits_val (d :: r) 0 with Some n => (1 <=? n) && (n <=? 65535) | None => false end
  | _ => false
  end.

(** IsDomainName's label automaton: [n] = characters of the current label so far, [last] = the previous
    character was a letter or digit *)
Fixpoint dom_go (bs : bytes) (n : N) (last : bool) : bool :=
  match bs with
  | [] => (1 <=? n) && (n <=? 63) && last
  | b :: r =>
      if is_alnum b then dom_go r (n + 1) true
      else if b =? 45 then (1 <=? n) && dom_go r (n + 1) false
      else if b =? 46 then (1 <=? n) && (n <=? 63) && last && dom_go r 0 false
      else match r with
           | c :: r2 =>
               if (b =? 197) && (c =? 191) then dom_go r2 (n + 1) true                  (* U+017F folds to s *)
               else match r2 with
                    | d :: r3 => if (b =? 226) && (c =? 132) && (d =? 170) then dom_go r3 (n + 1) true   (* U+212A folds to k *)
                                 else false
                    | [] => false
                    end
           | [] => false
           end
  end.
Definition is_domain (a : bytes) : bool := (N.of_nat (length a) <=? 253) && dom_go a 0 false.

Section Addr.
  Variable ip : bytes -> bool.          (* net.ParseIP(s) != nil *)

  Definition valid_host (h : bytes) : bool :=
    match h with [] => false | _ => ip h || is_domain h end.

  (** NormalizeAddress *)
  Definition norm_address (a : bytes) : option bytes :=
    let a' := trim_space a in
    match a' with
    | [] => None
    | _ =>
        if has_byte 58 a' then
          match split_host_port a' with
          | Some (h, p) => if valid_host h && valid_port p then Some a' else None
          | None => None
          end
        else if ip a' then None            (* a bare IP address is not accepted without a port *)
        else if is_domain a' then Some a' else None
    end.

  (** actor.NewRef: 1 = invalid address, 2 = invalid path *)
  Definition new_ref (a p : bytes) : (bytes * bytes) + N :=
    match norm_address a with
    | None => inr 1
    | Some a' => match norm_path p with
                 | None => inr 2
                 | Some p' => inl (a', p')
                 end
    end.
End Addr.
