(** Executable entry point of the registered-message codec model for the correspondence check.
    The user Codec is instantiated with the harness's test Codec ([uval], [t_cenc], [t_cdec]); the
    error-code registry with the table generated from the RegisterError sites. *)
From Coq Require Import List NArith ZArith Bool.
From stdpp Require Import gmap.
From Vivid Require Import Base.Tm Base.ResTm Codec.Prim Codec.MsgPrim Cluster.VV Codec.ClusterMsgs Codec.Msgs Codec.Envelope.
From Vivid Require Import Generated.MsgRegistry.
Local Open Scope N_scope.

(** values outside the registry, as the harness builds them *)
Inductive uval : Type := UNil | UNonPtr | UUser (d : bytes).
(** the harness's Codec: Encode accepts only *UserMsg and refuses data starting with 0xFE/0xFF;
    Decode refuses data starting with 0xFE *)
Definition t_cenc (u : uval) : mres bytes :=
  match u with
  | UUser d => match d with
               | b :: _ => if (b =? 254) || (b =? 255) then MErr MECodec else MOk d
               | [] => MOk d
               end
  | _ => MErr MECodec
  end.
Definition t_cdec (d : bytes) : mres uval :=
  match d with
  | b :: _ => if b =? 254 then MErr MECodec else MOk (UUser d)
  | [] => MOk (UUser d)
  end.
Definition t_qerr (c : Z) : option bytes :=
  match find (fun p => (fst p =? c)%Z) err_registry with Some p => Some (snd p) | None => None end.

(** the ActorRef factory (actor.NewRef) is an uninterpreted function of the model: the harness records
    every call the real decoder makes and passes the answers along with the case *)
Definition oracle := list (bytes * bytes * mres (bytes * bytes)).
Definition o_newref (o : oracle) (a p : bytes) : mres (bytes * bytes) :=
  match find (fun e => bytes_eqb (fst (fst e)) a && bytes_eqb (snd (fst e)) p) o with
  | Some e => snd e
  | None => MErr MEFuel     (* the real code asked a question the harness did not record *)
  end.
Definition get_oracle (t : tm) : option oracle :=
  get_list (fun e => match e with
                     | TL [TB a; TB p; TL [TN 0; TB a'; TB p']] => Some (a, p, MOk (a', p'))
                     | TL [TB a; TB p; TL [TN 1]] => Some (a, p, MErr MEBadRef)
                     | _ => None
                     end) t.

Notation tmsg := (msg uval).

Definition merr_code (e : merr) : N :=
  match e with
  | ME e => err_code e | MECodec => 10 | MENoCodec => 11 | MERecovered => 12 | MECrash => 13 | MEFuel => 14
  | MEBadRef => 15
  end.
Definition tmres {A} (f : A -> tm) (r : mres A) : tm :=
  match r with MOk a => TL [TN 0; f a] | MErr e => TL [TN 1; TN (merr_code e)] end.

(** * values -> terms *)
Definition t_eref (r : eref) : tm :=
  match r with RAbsent => TL [] | RRef a p => TL [TB a; TB p] | RTypedNil => TL [TN 0] end.
Definition t_perr (e : perr) : tm :=
  match e with
  | PENil => TL [] | PEVivid c t => TL [TN 0; tz c; TB t] | PEOther t => TL [TN 1; TB t] | PETypedNil => TL [TN 2]
  end.
Definition t_mapss (m : gomap) : tm :=
  match m with None => TL [] | Some m => TL [tlist (tpair TB TB) (sentries m)] end.
Definition t_ns (n : node_state) : tm :=
  TL [TB (ns_id n); TB (ns_cluster n); TB (ns_addr n); tz (ns_gen n); tz (ns_ts n); TN (ns_seq n);
      tz (ns_status n); tbool (ns_unreach n); tz (ns_lastseen n); TN (ns_lclock n);
      t_mapss (ns_meta n); t_mapss (ns_labels n); TN (ns_checksum n)].
Definition t_vv (v : vv) : tm := tlist (tpair TB TN) (ventries v).
Definition t_view (v : view) : tm :=
  TL [TB (v_id v); tz (v_epoch v); tz (v_ts v);
      match v_members v with
      | None => TL []
      | Some m => TL [tlist (fun p => TL [TB (fst p); topt t_ns (snd p)]) (mentries m)]
      end;
      tz (v_healthy v); tz (v_unhealthy v); tz (v_quorum v); t_vv (v_vv v); TN (v_proto v); tz (v_maxvv v)].
Definition t_uval (u : uval) : tm :=
  match u with UNil => TL [] | UNonPtr => TL [TN 0] | UUser d => TL [TB d] end.

Fixpoint index_of (k : kind) (l : list kind) (i : N) : N :=
  match l with
  | [] => i
  | x :: r => if bytes_eqb (name_of x) (name_of k) then i else index_of k r (i + 1)
  end.
Definition kind_code (k : kind) : N := index_of k all_kinds 0.
Definition kind_of_code (c : N) : option kind := nth_error all_kinds (N.to_nat c).

Fixpoint t_msg (m : tmsg) : tm :=
  match m with
  | M_Empty e => TL [TN (kind_code (kind_of_empty e))]
  | M_OnKill k r p => TL [TN (kind_code K_OnKill); t_eref k; TB r; tbool p]
  | M_OnKilled r => TL [TN (kind_code K_OnKilled); t_eref r]
  | M_PipeResult id m' e => TL [TN (kind_code K_PipeResult); TB id; t_msg m'; t_perr e]
  | M_PipeResultNil id e => TL [TN (kind_code K_PipeResult); TB id; TL []; t_perr e]
  | M_Pong p r => TL [TN (kind_code K_Pong); tz p; tz r]
  | M_Error c t => TL [TN (kind_code K_Error); tz c; TB t]
  | M_Command c => TL [TN (kind_code K_Command); TN c]
  | M_Ping t => TL [TN (kind_code K_Ping); tz t]
  | M_PongMessage p r => TL [TN (kind_code K_PongMessage); topt tz p; tz r]
  | M_Scheduler ref m' => TL [TN (kind_code K_Scheduler); TB ref; t_msg m']
  | M_JoinRequest ns tok => TL [TN (kind_code K_JoinRequest); topt t_ns ns; TB tok]
  | M_JoinResponse v => TL [TN (kind_code K_JoinResponse); topt t_view v]
  | M_Gossip v => TL [TN (kind_code K_Gossip); topt t_view v]
  | M_GetViewResponse v q l => TL [TN (kind_code K_GetViewResponse); topt t_view v; tbool q; TB l]
  | M_LeaveBroadcastRound r => TL [TN (kind_code K_LeaveBroadcastRound); tz r]
  | M_JoinRetryTick d => TL [TN (kind_code K_JoinRetryTick); tz d]
  | M_ForceMemberDown id tok => TL [TN (kind_code K_ForceMemberDown); TB id; TB tok]
  | M_TriggerViewBroadcast tok => TL [TN (kind_code K_TriggerViewBroadcast); TB tok]
  | M_SingletonFwd s a p m' => TL [TN (kind_code K_SingletonFwd); t_eref s; TB a; TB p; t_msg m']
  | M_TypedNil k => TL [TN 100; TN (kind_code k)]
  | M_Outside u => TL [TN 101; t_uval u]
  end.

(** * terms -> values *)
Definition obind {A B} (o : option A) (f : A -> option B) : option B := match o with Some a => f a | None => None end.
Notation "'let?' x ':=' o 'in' k" := (obind o (fun x => k)) (at level 200, x pattern, o at level 100, k at level 200).

Definition get_eref (t : tm) : option eref :=
  match t with
  | TL [] => Some RAbsent | TL [TB a; TB p] => Some (RRef a p) | TL [TN 0] => Some RTypedNil | _ => None
  end.
Definition get_perr (t : tm) : option perr :=
  match t with
  | TL [] => Some PENil
  | TL [TN 0; c; TB x] => let? c := get_z c in Some (PEVivid c x)
  | TL [TN 1; TB x] => Some (PEOther x)
  | TL [TN 2] => Some PETypedNil
  | _ => None
  end.
Definition get_mapss (t : tm) : option gomap :=
  match t with
  | TL [] => Some None
  | TL [l] => let? l := get_list (get_pair get_b get_b) l in Some (Some (list_to_map l))
  | _ => None
  end.
Definition get_opt {A} (f : tm -> option A) (t : tm) : option (option A) :=
  match t with
  | TL [] => Some None
  | TL [x] => let? a := f x in Some (Some a)
  | _ => None
  end.
Definition get_ns (t : tm) : option node_state :=
  match t with
  | TL [TB id; TB cl; TB ad; gen; ts; TN seq; st; un; ls; TN lc; meta; labels; TN ck] =>
      let? gen := get_z gen in let? ts := get_z ts in let? st := get_z st in let? un := get_bool un in
      let? ls := get_z ls in let? meta := get_mapss meta in let? labels := get_mapss labels in
      Some {| ns_id := id; ns_cluster := cl; ns_addr := ad; ns_gen := gen; ns_ts := ts; ns_seq := seq;
              ns_status := st; ns_unreach := un; ns_lastseen := ls; ns_lclock := lc;
              ns_meta := meta; ns_labels := labels; ns_checksum := ck |}
  | _ => None
  end.
Definition get_vv (t : tm) : option vv :=
  let? l := get_list (get_pair get_b get_n) t in Some (list_to_map l).
Definition get_members (t : tm) : option (option members) :=
  match t with
  | TL [] => Some None
  | TL [l] =>
      let? l := get_list (get_pair get_b (get_opt get_ns)) l in Some (Some (list_to_map l))
  | _ => None
  end.
Definition get_view (t : tm) : option view :=
  match t with
  | TL [TB id; ep; ts; ms; h; u; q; vvt; TN pv; mx] =>
      let? ep := get_z ep in let? ts := get_z ts in let? ms := get_members ms in
      let? h := get_z h in let? u := get_z u in let? q := get_z q in let? vvec := get_vv vvt in
      let? mx := get_z mx in
      Some {| v_id := id; v_epoch := ep; v_ts := ts; v_members := ms; v_healthy := h; v_unhealthy := u;
              v_quorum := q; v_vv := vvec; v_proto := pv; v_maxvv := mx |}
  | _ => None
  end.
Definition get_uval (t : tm) : option uval :=
  match t with TL [] => Some UNil | TL [TN 0] => Some UNonPtr | TL [TB d] => Some (UUser d) | _ => None end.

Definition is_kind (c : N) (k : kind) : bool := c =? kind_code k.

Fixpoint get_msg (t : tm) : option tmsg :=
  match t with
  | TL [TN 100; TN c] => let? k := kind_of_code c in Some (M_TypedNil k)
  | TL [TN 101; u] => let? u := get_uval u in Some (M_Outside u)
  | TL [TN c] => let? k := kind_of_code c in let? e := empty_of_kind k in Some (M_Empty e)
  | TL [TN c; a] =>
      if is_kind c K_OnKilled then let? r := get_eref a in Some (M_OnKilled r)
      else if is_kind c K_Command then let? n := get_n a in Some (M_Command n)
      else if is_kind c K_Ping then let? z := get_z a in Some (M_Ping z)
      else if is_kind c K_JoinResponse then let? v := get_opt get_view a in Some (M_JoinResponse v)
      else if is_kind c K_Gossip then let? v := get_opt get_view a in Some (M_Gossip v)
      else if is_kind c K_LeaveBroadcastRound then let? z := get_z a in Some (M_LeaveBroadcastRound z)
      else if is_kind c K_JoinRetryTick then let? z := get_z a in Some (M_JoinRetryTick z)
      else if is_kind c K_TriggerViewBroadcast then let? b := get_b a in Some (M_TriggerViewBroadcast b)
      else None
  | TL [TN c; a; b] =>
      if is_kind c K_Pong then let? p := get_z a in let? r := get_z b in Some (M_Pong p r)
      else if is_kind c K_Error then let? z := get_z a in let? x := get_b b in Some (M_Error z x)
      else if is_kind c K_PongMessage then let? p := get_opt get_z a in let? r := get_z b in Some (M_PongMessage p r)
      else if is_kind c K_Scheduler then let? ref := get_b a in let? m := get_msg b in Some (M_Scheduler ref m)
      else if is_kind c K_JoinRequest then let? ns := get_opt get_ns a in let? tok := get_b b in Some (M_JoinRequest ns tok)
      else if is_kind c K_ForceMemberDown then let? x := get_b a in let? y := get_b b in Some (M_ForceMemberDown x y)
      else None
  | TL [TN c; a; b; d] =>
      if is_kind c K_OnKill then
        let? k := get_eref a in let? r := get_b b in let? p := get_bool d in Some (M_OnKill k r p)
      else if is_kind c K_PipeResult then
        match b with
        | TL [] => let? id := get_b a in let? e := get_perr d in Some (M_PipeResultNil id e)   (* nil Message *)
        | _ => let? id := get_b a in let? m := get_msg b in let? e := get_perr d in Some (M_PipeResult id m e)
        end
      else if is_kind c K_GetViewResponse then
        let? v := get_opt get_view a in let? q := get_bool b in let? l := get_b d in Some (M_GetViewResponse v q l)
      else None
  | TL [TN c; a; b; d; e] =>
      if is_kind c K_SingletonFwd then
        let? s := get_eref a in let? x := get_b b in let? y := get_b d in let? m := get_msg e in
        Some (M_SingletonFwd s x y m)
      else None
  | _ => None
  end.

Definition consumed (total rest : bytes) : tm := TN (N.of_nat (length total - length rest)).

Definition run_one (t : tm) : tm :=
  match t with
  | TL [TN 0] => tlist TB msg_registry
  | TL [TN 1] => tlist (tpair tz TB) err_registry
  | TL [TN 2; hc; m] =>
      match get_bool hc, get_msg m with
      | Some hc, Some m => tmres TB (serialize_remoting uval hc t_cenc m)
      | _, _ => tm_err 1
      end
  | TL [TN 3; hc; m] =>
      match get_bool hc, get_msg m with
      | Some hc, Some m => tmres TB (write_message uval hc t_cenc m)
      | _, _ => tm_err 1
      end
  | TL [TN 4; hc; TN k; TB bs; o] =>
      match get_bool hc, kind_of_code k, get_oracle o with
      | Some hc, Some k, Some o =>
          tmres (fun p => TL [t_msg (fst p); consumed bs (snd p)])
                (drun (deserialize_remoting uval hc t_cdec t_qerr (o_newref o) k) bs)
      | _, _, _ => tm_err 1
      end
  | TL [TN 5; hc; TB bs; o] =>
      match get_bool hc, get_oracle o with
      | Some hc, Some o =>
          tmres (fun p => TL [t_msg (fst p); consumed bs (snd p)]) (drun (read_message uval hc t_cdec t_qerr (o_newref o)) bs)
      | _, _ => tm_err 1
      end
  | TL [TN 6; hc; TL [sys; s; r; m]] =>
      match get_bool hc, get_bool sys, get_eref s, get_eref r, get_msg m with
      | Some hc, Some sys, Some s, Some r, Some m =>
          tmres TB (enc_envelope uval hc t_cenc {| e_system := sys; e_sender := s; e_receiver := r; e_msg := m |})
      | _, _, _, _, _ => tm_err 1
      end
  | TL [TN 7; hc; TB bs; o] =>
      match get_bool hc, get_oracle o with
      | Some hc, Some o =>
          tmres (fun p => let o := fst p in
                          TL [tbool (o_system _ o); TB (o_saddr _ o); TB (o_spath _ o); TB (o_raddr _ o); TB (o_rpath _ o);
                              t_msg (o_msg _ o)])
                (drun (dec_envelope uval hc t_cdec t_qerr (o_newref o)) bs)
      | _, _ => tm_err 1
      end
  | TL [TN 8; TB addr] => TB (enc_handshake addr)
  | TL [TN 9; TB old; TB chunk] =>
      let r := handshake_wait old chunk in
      TL [TB (fst r); topt (fun e => TN (merr_code e)) (snd r)]
  | _ => tm_err 0
  end.

(** a history: a list of ordinary operations performed one after the other on the real, pooled code
    paths.  In the model every operation is a function of its operands only, so a history is the list of
    the individual results; a step [(63 ..)] stands for an operation outside the model (the harness's
    poison messages, which exist only to make an encode fail in a particular way) *)
Definition run_step (t : tm) : tm :=
  match t with
  | TL (TN 99 :: _) => TL [TN 99]
  | _ => run_one t
  end.
Definition run_msgs (t : tm) : tm :=
  match t with
  | TL [TN 10; TL steps] => TL (map run_step steps)
  | _ => run_one t
  end.
