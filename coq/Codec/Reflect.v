(** The generic Writer.Write / Reader.Read of internal/messages (writer.go, reader.go) over a universe of
    Go types and values: the type switch of [Write]/[Read], the reflective [writeReflect]/[readReflect],
    [WriteFrom]/[ReadInto] — as the code is now.

    A Go value is a pair (dynamic type [goty], untyped payload [goval]); [has_typeb] says which pairs are
    Go values.  Operations on which the Go code crashes return [OPanic]; the reader carries a cost meter
    (bytes requested from the allocator, loop iterations) so that "allocation / work in proportion to
    the input" is a statement about the model. *)
From Coq Require Import List NArith ZArith Lia Bool.
From Vivid Require Import Codec.Prim Codec.Prim2.
Import ListNotations.
Local Open Scope N_scope.

(** ** types *)
Inductive basic : Type := BU8 | BI8 | BU16 | BI16 | BU32 | BI32 | BU64 | BI64 | BF32 | BF64 | BBool | BStr.

Inductive goty : Type :=
| TBasic (b : basic)                   (* the predeclared type itself: uint8(=byte) … string *)
| TNamed (b : basic)                   (* type T <basic>: same kind, different dynamic type *)
| TInt | TUint                         (* int, uint (and uintptr, complex: kinds no case handles) *)
| TSlice (named : bool) (e : goty)     (* []e, or type T []e *)
| TArray (n : N) (e : goty)
| TStruct (fs : list (bool * goty))    (* (exported?, field type), in declaration order *)
| TPtr (e : goty)
| TIface                               (* interface{} *)
| TMap | TChan | TFunc.

(** ** values (payloads) *)
Inductive goval : Type :=
| VN (n : N)                           (* unsigned integers, float bit patterns *)
| VZ (z : Z)                           (* signed integers *)
| VB (b : bool)
| VS (s : bytes)                       (* string *)
| VNil                                 (* nil slice / pointer / interface / map / chan / func *)
| VList (l : list goval)               (* non-nil slice, array *)
| VStruct (l : list goval)             (* every field in order, unexported ones included *)
| VPtr (v : goval)                     (* non-nil pointer to v *)
| VIface (ty : goty) (v : goval)       (* non-nil interface holding v of dynamic type ty *)
| VOpaque.                             (* non-nil map / chan / func *)

Definition basic_eqb (a b : basic) : bool :=
  match a, b with
  | BU8, BU8 | BI8, BI8 | BU16, BU16 | BI16, BI16 | BU32, BU32 | BI32, BI32 | BU64, BU64 | BI64, BI64
  | BF32, BF32 | BF64, BF64 | BBool, BBool | BStr, BStr => true
  | _, _ => false
  end.

Definition in_u (bits : N) (n : N) : bool := n <? 2 ^ bits.
Definition in_s (bits : N) (z : Z) : bool := ((- 2 ^ (Z.of_N bits - 1) <=? z) && (z <? 2 ^ (Z.of_N bits - 1)))%Z.

Definition basic_ok (b : basic) (v : goval) : bool :=
  match b, v with
  | BU8, VN n => in_u 8 n | BU16, VN n => in_u 16 n | BU32, VN n => in_u 32 n | BU64, VN n => in_u 64 n
  | BI8, VZ z => in_s 8 z | BI16, VZ z => in_s 16 z | BI32, VZ z => in_s 32 z | BI64, VZ z => in_s 64 z
  | BF32, VN n => in_u 32 n | BF64, VN n => in_u 64 n
  | BBool, VB _ => true
  | BStr, VS s => wf_bytes s
  | _, _ => false
  end.

Definition is_iface (t : goty) : bool := match t with TIface => true | _ => false end.

(** which (type, payload) pairs are Go values *)
Fixpoint has_typeb (ty : goty) (v : goval) {struct v} : bool :=
  match v with
  | VN _ | VZ _ | VB _ | VS _ =>
      match ty with
      | TBasic b | TNamed b => basic_ok b v
      | TInt => basic_ok BI64 v
      | TUint => basic_ok BU64 v
      | _ => false
      end
  | VNil => match ty with TSlice _ _ | TPtr _ | TIface | TMap | TChan | TFunc => true | _ => false end
  | VOpaque => match ty with TMap | TChan | TFunc => true | _ => false end
  | VList l =>
      match ty with
      | TSlice _ e => (fix all (l : list goval) : bool := match l with [] => true | x :: r => has_typeb e x && all r end) l
      | TArray n e => (N.of_nat (length l) =? n)
                      && (fix all (l : list goval) : bool := match l with [] => true | x :: r => has_typeb e x && all r end) l
      | _ => false
      end
  | VStruct l =>
      match ty with
      | TStruct fs =>
          (fix all (fs : list (bool * goty)) (l : list goval) {struct l} : bool :=
             match fs, l with
             | [], [] => true
             | (_, t) :: fr, x :: r => has_typeb t x && all fr r
             | _, _ => false
             end) fs l
      | _ => false
      end
  | VPtr x => match ty with TPtr t => has_typeb t x | _ => false end
  | VIface t x => match ty with TIface => negb (is_iface t) && has_typeb t x | _ => false end
  end.

(** ** Go memory size of a type in bytes (padding ignored), zero value, "occupies no bytes on the wire" *)
Definition bsize (b : basic) : N :=
  match b with BU8 | BI8 | BBool => 1 | BU16 | BI16 => 2 | BU32 | BI32 | BF32 => 4 | BU64 | BI64 | BF64 => 8 | BStr => 16 end.
Fixpoint tsize (ty : goty) : N :=
  match ty with
  | TBasic b | TNamed b => bsize b
  | TInt | TUint | TPtr _ | TMap | TChan | TFunc => 8
  | TSlice _ _ => 24
  | TIface => 16
  | TArray n e => n * tsize e
  | TStruct fs => (fix go (fs : list (bool * goty)) : N := match fs with [] => 0 | (_, t) :: r => tsize t + go r end) fs
  end.

Definition bzero (b : basic) : goval :=
  match b with
  | BU8 | BU16 | BU32 | BU64 | BF32 | BF64 => VN 0
  | BI8 | BI16 | BI32 | BI64 => VZ 0
  | BBool => VB false
  | BStr => VS []
  end.
Fixpoint zero (ty : goty) : goval :=
  match ty with
  | TBasic b | TNamed b => bzero b
  | TInt => VZ 0
  | TUint => VN 0
  | TSlice _ _ | TPtr _ | TIface | TMap | TChan | TFunc => VNil
  | TArray n e => VList (repeat (zero e) (N.to_nat n))          (* n is part of the TYPE, not wire data *)
  | TStruct fs => VStruct ((fix go (fs : list (bool * goty)) : list goval := match fs with [] => [] | (_, t) :: r => zero t :: go r end) fs)
  end.

(** a struct whose exported fields (recursively) are all such structs: Read consumes nothing for it *)
Fixpoint wire0 (ty : goty) : bool :=
  match ty with
  | TStruct fs => (fix go (fs : list (bool * goty)) : bool := match fs with [] => true | (ex, t) :: r => (negb ex || wire0 t) && go r end) fs
  | _ => false
  end.

(** ** writer *)
Definition obind {A B} (o : out A) (f : A -> out B) : out B :=
  match o with OOk a => f a | OErr e => OErr e | OPanic w => OPanic w | OFuel => OFuel | OIll => OIll end.

(** the WriteXxx primitive selected by the type switch for an unnamed basic type *)
Definition wprim (b : basic) (v : goval) : out bytes :=
  match b, v with
  | BU8, VN n => OOk (put_u8 n) | BU16, VN n => OOk (put_u16 n) | BU32, VN n => OOk (put_u32 n) | BU64, VN n => OOk (put_u64 n)
  | BI8, VZ z => OOk (put_i8 z) | BI16, VZ z => OOk (put_i16 z) | BI32, VZ z => OOk (put_i32 z) | BI64, VZ z => OOk (put_i64 z)
  | BF32, VN n => OOk (put_f32 n) | BF64, VN n => OOk (put_f64 n)
  | BBool, VB x => OOk (put_bool x)
  | BStr, VS s => OOk (put_string s)
  | _, _ => OIll
  end.

(** writeReflect(v) where v has dynamic type [ty].  Pointers are dereferenced in a loop (nil: error);
    slices and arrays write uint32(len) and then every element through writeReflect(elem.Interface())
    — [Interface()] unwraps an interface-typed element to its dynamic value; structs write their exported
    fields; everything else goes to the default branch: an unnamed basic value is handed back to Write,
    any other kind (int, uint, named basic types, map, chan, func, an interface reached through a pointer
    unless it holds an unnamed basic value, the invalid Value of a nil interface) is an error. *)
Fixpoint wrefl (ty : goty) (v : goval) {struct v} : out bytes :=
  match v with
  | VN _ | VZ _ | VB _ | VS _ =>
      match ty with
      | TBasic b => wprim b v
      | TNamed _ | TInt | TUint => OErr EUnsupported
      | _ => OIll
      end
  | VNil =>
      match ty with
      | TPtr _ => OErr EInvalid                          (* "cannot write nil pointer" *)
      | TIface => OErr EUnsupported                      (* reflect.ValueOf(nil): invalid Value *)
      | TSlice _ _ => OOk (put_u32 0)                    (* nil slice: Len() = 0 *)
      | TMap | TChan | TFunc => OErr EUnsupported
      | _ => OIll
      end
  | VOpaque => match ty with TMap | TChan | TFunc => OErr EUnsupported | _ => OIll end
  | VPtr x =>
      match ty with
      | TPtr t =>
          match t, x with
          | TIface, VIface (TBasic b) y => wprim b y     (* rv.Elem() is the interface Value; rv.Interface() is a basic: Write(val) *)
          | TIface, _ => OErr EUnsupported               (* "unsupported type for writing: interface {}" *)
          | _, _ => wrefl t x
          end
      | _ => OIll
      end
  | VIface t x => match ty with TIface => wrefl t x | _ => OIll end
  | VList l =>
      match ty with
      | TSlice _ e | TArray _ e =>
          obind ((fix wl (l : list goval) : out bytes :=
                    match l with
                    | [] => OOk []
                    | x :: r => obind (wrefl e x) (fun b => obind (wl r) (fun b' => OOk (b ++ b')))
                    end) l)
                (fun b => OOk (put_u32 (N.of_nat (length l)) ++ b))       (* uint32(length): wraps at 2^32 *)
      | _ => OIll
      end
  | VStruct l =>
      match ty with
      | TStruct fs =>
          (fix wf (fs : list (bool * goty)) (l : list goval) {struct l} : out bytes :=
             match fs, l with
             | [], [] => OOk []
             | (ex, t) :: fr, x :: r =>
                 if ex then obind (wrefl t x) (fun b => obind (wf fr r) (fun b' => OOk (b ++ b')))
                 else wf fr r                                                (* field.PkgPath != "": skipped *)
             | _, _ => OIll
             end) fs l
      | _ => OIll
      end
  end.

Definition byte_of (v : goval) : N := match v with VN n => n | _ => 0 end.

(** Writer.Write(v): first, unless v is a *[]byte, a nil pointer of any type is an error ("cannot write nil
    pointer"); then the type switch (T and *T for the twelve unnamed basic types, []byte and *[]byte — a nil
    *[]byte is written as length 0), writeReflect otherwise. *)
Definition write (ty : goty) (v : goval) : out bytes :=
  match ty with
  | TBasic b => wprim b v
  | TPtr (TBasic b) => match v with VNil => OErr EInvalid | VPtr x => wprim b x | _ => OIll end
  | TSlice false (TBasic BU8) =>
      match v with VNil => OOk (put_lp4 []) | VList l => OOk (put_lp4 (map byte_of l)) | _ => OIll end
  | TPtr (TSlice false (TBasic BU8)) =>
      match v with
      | VNil => OOk (put_u32 0)
      | VPtr VNil => OOk (put_lp4 [])
      | VPtr (VList l) => OOk (put_lp4 (map byte_of l))
      | _ => OIll
      end
  | _ => wrefl ty v
  end.

(** WriteFrom(vals...): stops at the first error (the bytes written so far stay in the buffer, the
    model returns the error only) *)
Fixpoint write_from (vals : list (goty * goval)) : out bytes :=
  match vals with
  | [] => OOk []
  | (t, v) :: r => obind (write t v) (fun b => obind (write_from r) (fun b' => OOk (b ++ b')))
  end.

(** ** reader, with a cost meter *)
Definition cost := (N * N)%type.              (* (bytes requested from the allocator, loop iterations) *)
Definition M (A : Type) := (out A * cost)%type.
Definition ret {A} (a : A) : M A := (OOk a, (0, 0)).
Definition failM {A} (e : err) : M A := (OErr e, (0, 0)).
Definition cadd (c d : cost) : cost := (fst c + fst d, snd c + snd d).
Definition tick {A} (c : cost) (m : M A) : M A := (fst m, cadd c (snd m)).
Definition bindM {A B} (m : M A) (f : A -> M B) : M B :=
  match fst m with
  | OOk a => tick (snd m) (f a)
  | OErr e => (OErr e, snd m)
  | OPanic w => (OPanic w, snd m)
  | OFuel => (OFuel, snd m)
  | OIll => (OIll, snd m)
  end.
Definition liftR {A} (r : res A) : M A := (of_res r, (0, 0)).

Definition rprim (b : basic) (bs : bytes) : M (goval * bytes) :=
  match b with
  | BU8 => liftR (let* (n, t) := rd_u8 bs in Ok (VN n, t))
  | BU16 => liftR (let* (n, t) := rd_u16 bs in Ok (VN n, t))
  | BU32 => liftR (let* (n, t) := rd_u32 bs in Ok (VN n, t))
  | BU64 => liftR (let* (n, t) := rd_u64 bs in Ok (VN n, t))
  | BI8 => liftR (let* (z, t) := rd_i8 bs in Ok (VZ z, t))
  | BI16 => liftR (let* (z, t) := rd_i16 bs in Ok (VZ z, t))
  | BI32 => liftR (let* (z, t) := rd_i32 bs in Ok (VZ z, t))
  | BI64 => liftR (let* (z, t) := rd_i64 bs in Ok (VZ z, t))
  | BF32 => liftR (let* (n, t) := rd_f32 bs in Ok (VN n, t))
  | BF64 => liftR (let* (n, t) := rd_f64 bs in Ok (VN n, t))
  | BBool => liftR (let* (x, t) := rd_bool bs in Ok (VB x, t))
  | BStr =>   (* ReadBytes copies (make n) after the bounds check, string(data) copies again *)
      bindM (liftR (rd_string bs)) (fun p => tick (2 * N.of_nat (length (fst p)), 0) (ret (VS (fst p), snd p)))
  end.

(** the Reader's state: the remaining input, and [elems] = the number of slice elements this Reader has created
    so far (readReflect only; []byte and strings are bounds-checked against the input instead).  [tot] below
    is len(r.buf), fixed for the life of the Reader: the budget for [elems]. *)
Definition rst := (bytes * N)%type.
Definition with_el {A} (el : N) (m : M (A * bytes)) : M (A * rst) :=
  bindM m (fun p => ret (fst p, (snd p, el))).

(** the element loop of readReflect: [n] elements with reader [rd].  The fuel is the remaining input
    length + 1: every element of a type that is not [wire0] consumes at least one byte or fails. *)
Fixpoint rd_elems (rd : rst -> M (goval * rst)) (fuel : nat) (n : N) (st : rst) : M (list goval * rst) :=
  if n =? 0 then ret ([], st) else
  match fuel with
  | O => (OFuel, (0, 0))
  | S f => bindM (rd st) (fun p => tick (0, 1) (bindM (rd_elems rd f (n - 1) (snd p)) (fun q => ret (fst p :: fst q, snd q))))
  end.

(** Reader.Read(&x) for x of type [ty] (a non-nil pointer to an addressable variable).
    *[]byte: ReadBytesWithLength(4) — bounds check first, then one copy.
    readReflect: slice = uint32 length n, rejected with "unexpected EOF" when n exceeds the number of
    remaining bytes, or when elems + n exceeds len(r.buf) (elems is increased first); then
    reflect.MakeSlice(n), then the elements; array = temporary, uint32 length that must equal the array
    length, elements; struct = temporary, the addressable exported fields in order (the others keep the zero
    value of the temporary); everything else (named basic types, int, uint, pointers, interfaces, maps ...)
    is an error. *)
Fixpoint read (tot : N) (ty : goty) (st : rst) {struct ty} : M (goval * rst) :=
  let bs := fst st in let el := snd st in
  match ty with
  | TBasic b => with_el el (rprim b bs)
  | TSlice named e =>
      if negb named && (match e with TBasic BU8 => true | _ => false end) then
        with_el el (bindM (liftR (rd_lp4 bs)) (fun p => tick (N.of_nat (length (fst p)), 0) (ret (VList (map VN (fst p)), snd p))))
      else
        bindM (liftR (rd_u32 bs)) (fun p =>
          let n := fst p in let t := snd p in
          if N.of_nat (length t) <? n then failM EEOF                   (* int64(length) > RemainingSize(): before allocating *)
          else if tot <? el + n then failM EEOF                         (* r.elems += length; r.elems > len(r.buf) *)
          else
          tick (n * tsize e, 0)                                         (* reflect.MakeSlice(type, n, n) *)
            (if wire0 e then (OOk (VList (repeat (zero e) (N.to_nat n)), (t, el + n)), (0, n))     (* n iterations, no input consumed *)
             else bindM (rd_elems (read tot e) (S (length t)) n (t, el + n)) (fun q => ret (VList (fst q), snd q))))
  | TArray n e =>
      tick (n * tsize e, 0)                                             (* reflect.New(array type) *)
        (bindM (liftR (rd_u32 bs)) (fun p =>
           let m := fst p in let t := snd p in
           if negb (m =? n) then failM EInvalid                         (* "array length mismatch" *)
           else if wire0 e then (OOk (VList (repeat (zero e) (N.to_nat n)), (t, el)), (0, n))
           else bindM (rd_elems (read tot e) (S (length t)) n (t, el)) (fun q => ret (VList (fst q), snd q))))
  | TStruct fs =>
      tick (tsize ty, 0)                                                (* reflect.New(struct type) *)
        (bindM ((fix rf (fs : list (bool * goty)) (st : rst) : M (list goval * rst) :=
                   match fs with
                   | [] => ret ([], st)
                   | (ex, t) :: r =>
                       if ex then bindM (read tot t st) (fun p => bindM (rf r (snd p)) (fun q => ret (fst p :: fst q, snd q)))
                       else bindM (rf r st) (fun q => ret (zero t :: fst q, snd q))
                   end) fs st)
               (fun q => ret (VStruct (fst q), snd q)))
  | _ => failM EUnsupported
  end.

(** a fresh Reader over [bs] *)
Definition fresh (bs : bytes) : rst := (bs, 0).
Definition read0 (ty : goty) (bs : bytes) : M (goval * rst) := read (N.of_nat (length bs)) ty (fresh bs).

(** ReadInto(&a, &b, ...) with targets of the given types (one Reader: the state is threaded) *)
Fixpoint read_into (tot : N) (tys : list goty) (st : rst) : M (list goval * rst) :=
  match tys with
  | [] => ret ([], st)
  | t :: r => bindM (read tot t st) (fun p => bindM (read_into tot r (snd p)) (fun q => ret (fst p :: fst q, snd q)))
  end.
Definition read_into0 (tys : list goty) (bs : bytes) := read_into (N.of_nat (length bs)) tys (fresh bs).

(** ** the caller's variables.  Read assigns [*ptr] only after the primitive / the whole slice / the
    temporary array or struct was read successfully. *)
Definition read_var (tot : N) (old : goval) (ty : goty) (st : rst) : goval * out rst :=
  match fst (read tot ty st) with
  | OOk (v, t) => (v, OOk t)
  | OErr e => (old, OErr e) | OPanic w => (old, OPanic w) | OFuel => (old, OFuel) | OIll => (old, OIll)
  end.
(** ReadInto over variables holding [olds]: returns the variables afterwards and the outcome *)
Fixpoint read_into_vars (tot : N) (olds : list (goty * goval)) (st : rst) : list goval * out rst :=
  match olds with
  | [] => ([], OOk st)
  | (t, old) :: r =>
      match read_var tot old t st with
      | (v, OOk rest) => let '(vs, o) := read_into_vars tot r rest in (v :: vs, o)
      | (v, o) => (v :: map snd r, o)
      end
  end.
Definition read_into_vars0 (olds : list (goty * goval)) (bs : bytes) := read_into_vars (N.of_nat (length bs)) olds (fresh bs).

(** ** what Read is actually called with (C13): a nil pointer, a non-pointer, nil *)
Inductive target : Type :=
| TgtVar (ty : goty)          (* &x, x : ty *)
| TgtNilPtr (ty : goty)       (* a typed nil pointer to ty *)
| TgtNonPtr                   (* a non-pointer value, or untyped nil *).
Definition read_call (tg : target) (bs : bytes) : out (goval * bytes) :=
  match tg with
  | TgtVar ty => match fst (read0 ty bs) with OOk (v, st) => OOk (v, fst st) | OErr e => OErr e | OPanic w => OPanic w | OFuel => OFuel | OIll => OIll end
  | TgtNilPtr _ => OErr EInvalid          (* Read: reflect.ValueOf(v) is a nil pointer: "must pass a non-nil pointer" *)
  | TgtNonPtr => OErr EInvalid            (* readReflect: not a pointer *)
  end.

(** ** round-trip vocabulary *)
(** types on which writer and reader agree *)
Fixpoint supported (ty : goty) : bool :=
  match ty with
  | TBasic _ => true
  | TSlice _ e => supported e
  | TArray n e => (n <? 4294967296) && supported e
  | TStruct fs => (fix go (fs : list (bool * goty)) : bool := match fs with [] => true | (ex, t) :: r => (negb ex || supported t) && go r end) fs
  | _ => false
  end.

(** values whose lengths fit the uint32 length prefixes, and whose slices of elements that occupy no bytes
    on the wire are empty (the reader rejects a slice length above the number of remaining bytes, so such a
    slice reads back only if enough unrelated bytes happen to follow it) *)
Fixpoint fits (ty : goty) (v : goval) {struct v} : bool :=
  match v with
  | VS s => N.of_nat (length s) <? 4294967296
  | VList l =>
      match ty with
      | TSlice _ e => (N.of_nat (length l) <? 4294967296)
                      && (negb (wire0 e) || (N.of_nat (length l) =? 0))
                      && (fix all (l : list goval) : bool := match l with [] => true | x :: r => fits e x && all r end) l
      | TArray _ e => (fix all (l : list goval) : bool := match l with [] => true | x :: r => fits e x && all r end) l
      | _ => true
      end
  | VStruct l =>
      match ty with
      | TStruct fs =>
          (fix all (fs : list (bool * goty)) (l : list goval) {struct l} : bool :=
             match fs, l with
             | (ex, t) :: fr, x :: r => (negb ex || fits t x) && all fr r
             | _, _ => true
             end) fs l
      | _ => true
      end
  | _ => true
  end.

(** the number of slice elements Read creates for a value (what the Reader's [elems] budget counts): the
    elements of every slice decoded by readReflect, at every depth; []byte (fast path) and strings count nothing *)
Fixpoint cnt (ty : goty) (v : goval) {struct v} : N :=
  match v with
  | VList l =>
      match ty with
      | TSlice named e =>
          if negb named && (match e with TBasic BU8 => true | _ => false end) then 0
          else N.of_nat (length l) + (fix sum (l : list goval) : N := match l with [] => 0 | x :: r => cnt e x + sum r end) l
      | TArray _ e => (fix sum (l : list goval) : N := match l with [] => 0 | x :: r => cnt e x + sum r end) l
      | _ => 0
      end
  | VStruct l =>
      match ty with
      | TStruct fs =>
          (fix sum (fs : list (bool * goty)) (l : list goval) {struct l} : N :=
             match fs, l with
             | (ex, t) :: fr, x :: r => (if ex then cnt t x else 0) + sum fr r
             | _, _ => 0
             end) fs l
      | _ => 0
      end
  | _ => 0
  end.

(** what a successful decode returns for an encoded value: nil slices become empty non-nil slices,
    unexported struct fields become zero values; everything else is unchanged *)
Fixpoint norm (ty : goty) (v : goval) {struct v} : goval :=
  match v with
  | VNil => match ty with TSlice _ _ => VList [] | _ => v end
  | VList l =>
      match ty with
      | TSlice _ e | TArray _ e => VList ((fix go (l : list goval) : list goval := match l with [] => [] | x :: r => norm e x :: go r end) l)
      | _ => v
      end
  | VStruct l =>
      match ty with
      | TStruct fs =>
          VStruct ((fix go (fs : list (bool * goty)) (l : list goval) {struct l} : list goval :=
                      match fs, l with
                      | (ex, t) :: fr, x :: r => (if ex then norm t x else zero t) :: go fr r
                      | _, _ => []
                      end) fs l)
      | _ => v
      end
  | _ => v
  end.

(** the constants of the linear cost bound: [kK ty] the input-independent part (temporaries, fixed loop counts),
    [kA ty] the factor per input byte / per unit of element budget *)
Fixpoint kK (ty : goty) : N :=
  match ty with
  | TSlice _ e => kK e + 1
  | TArray n e => n * tsize e + n + kK e + 1
  | TStruct fs => tsize ty + (fix go (fs : list (bool * goty)) : N := match fs with [] => 0 | (ex, t) :: r => (if ex then kK t else 0) + go r end) fs
  | _ => 0
  end.
Fixpoint kA (ty : goty) : N :=
  match ty with
  | TSlice _ e => 2 + tsize e + kA e + kK e + 1
  | TArray _ e => kA e + kK e + 1
  | TStruct fs => (fix go (fs : list (bool * goty)) : N := match fs with [] => 0 | (ex, t) :: r => (if ex then kA t else 0) + go r end) fs
  | _ => 2
  end.
