(** Model of internal/cluster/serialize.go: map[string]string, NodeState, ClusterView and the flat
    cluster messages, field by field in the order of the hand-written reader/writer pairs.

    Go values: a [map[string]string] is [option smap] ([None] = nil map); [int] fields (Generation,
    Status, the three counts, MaxVersionVectorEntries, Round) are unbounded-looking [Z] restricted to
    int64 by the typing predicates and NARROWED to int32 by the writer ([put_i32] keeps the low 32
    bits, the reader sign-extends); Members is [option (gmap id (option node_state))] (nil map / nil
    *NodeState values are representable). *)
From Coq Require Import List NArith ZArith Lia Bool.
From stdpp Require Import gmap.
From Vivid Require Import Codec.Prim Codec.MsgPrim Cluster.VV.
Local Open Scope N_scope.

Notation smap := (gmap (list N) (list N)).
Notation gomap := (option (gmap (list N) (list N))).

Definition max_map_entries : N := 65536.
(** bytes per pre-allocated slot (lower bounds of what the Go runtime reserves) *)
Definition slot_ss : N := 32.      (* map[string]string: two string headers *)
Definition slot_member : N := 24.  (* map[string]*NodeState / map[string]uint64 *)

(** * map[string]string: sorted by key; nil and empty are both written as count 0 *)
Definition sentries (m : smap) : list (bytes * bytes) :=
  isort (fun p q => lex_le (fst p) (fst q)) (map_to_list m).
Fixpoint enc_pairs (l : list (bytes * bytes)) : bytes :=
  match l with
  | [] => []
  | (k, v) :: r => put_lp4 k ++ put_lp4 v ++ enc_pairs r
  end.
Definition enc_mapss (m : gomap) : bytes :=
  match m with
  | None => put_u32 0
  | Some m => put_u32 (N.of_nat (length (sentries m))) ++ enc_pairs (sentries m)
  end.

Fixpoint dec_pairs (n : nat) (acc : smap) : dec smap :=
  match n with
  | O => dret acc
  | S n' => let+ k := d_str in let+ v := d_str in dec_pairs n' (<[k := v]> acc)
  end.
Definition dec_mapss : dec gomap :=
  let+ n := d_u32 in
  if n =? 0 then dret None
  else if max_map_entries <? n then dfail (ME ETooLarge)
  else let+ _ := dalloc (slot_ss * n) in            (* make(map[string]string, n), n <= 65536 *)
       let+ m := dec_pairs (N.to_nat n) ∅ in dret (Some m).

(** * NodeState *)
Record node_state : Type := {
  ns_id : bytes; ns_cluster : bytes; ns_addr : bytes;
  ns_gen : Z;          (* int, written as int32 *)
  ns_ts : Z;           (* int64 *)
  ns_seq : N;          (* uint64 *)
  ns_status : Z;       (* MemberStatus (int), written as int32 *)
  ns_unreach : bool;
  ns_lastseen : Z;     (* int64 *)
  ns_lclock : N;       (* uint64 *)
  ns_meta : gomap; ns_labels : gomap;
  ns_checksum : N      (* uint32 *)
}.

Definition enc_ns_body (n : node_state) : bytes :=
  put_lp4 (ns_id n) ++ put_lp4 (ns_cluster n) ++ put_lp4 (ns_addr n) ++ put_i32 (ns_gen n) ++
  put_i64 (ns_ts n) ++ put_u64 (ns_seq n) ++ put_i32 (ns_status n) ++ put_bool (ns_unreach n) ++
  put_i64 (ns_lastseen n) ++ put_u64 (ns_lclock n) ++
  enc_mapss (ns_meta n) ++ enc_mapss (ns_labels n) ++ put_u32 (ns_checksum n).
Definition enc_ns_opt (n : option node_state) : bytes :=
  match n with None => put_u32 0 | Some n => put_u32 1 ++ enc_ns_body n end.

Definition dec_ns_body : dec node_state :=
  let+ id := d_str in let+ cl := d_str in let+ ad := d_str in let+ gen := d_i32 in
  let+ ts := d_i64 in let+ seq := d_u64 in let+ st := d_i32 in let+ un := d_bool in
  let+ ls := d_i64 in let+ lc := d_u64 in
  let+ meta := dec_mapss in let+ labels := dec_mapss in let+ ck := d_u32 in
  dret {| ns_id := id; ns_cluster := cl; ns_addr := ad; ns_gen := gen; ns_ts := ts; ns_seq := seq;
          ns_status := st; ns_unreach := un; ns_lastseen := ls; ns_lclock := lc;
          ns_meta := meta; ns_labels := labels; ns_checksum := ck |}.
Definition dec_ns_opt : dec (option node_state) :=
  let+ n := d_u32 in
  if n =? 0 then dret None else let+ b := dec_ns_body in dret (Some b).

(** * version vector with the allocation counter (erases to [vread], see ClusterMsgsProofs.d_vv_vread) *)
Fixpoint d_vv_entries (n : nat) (acc : vv) : dec vv :=
  match n with
  | O => dret acc
  | S n' =>
      let+ k := d_str in
      if valid_addr k then
        let+ c := d_u64 in
        if max_counter <? c then dfail (ME EOverflow) else d_vv_entries n' (<[k := c]> acc)
      else dfail (ME EInvalid)
  end.
Definition d_vv : dec vv :=
  let+ n := d_u32 in
  if max_entries <? n then dfail (ME ETooLarge)
  else let+ _ := dalloc (slot_member * n) in d_vv_entries (N.to_nat n) ∅.   (* NewVersionVectorWithCapacity(n), n <= 65535 *)

(** * ClusterView *)
Notation members := (gmap (list N) (option node_state)).
Record view : Type := {
  v_id : bytes; v_epoch : Z; v_ts : Z;
  v_members : option (gmap (list N) (option node_state));
  v_healthy : Z; v_unhealthy : Z; v_quorum : Z;      (* int, written as int32 *)
  v_vv : vv;
  v_proto : N;                                       (* uint16 *)
  v_maxvv : Z                                        (* int, written as int32 *)
}.

Definition mentries (m : members) : list (bytes * option node_state) :=
  isort (fun p q => lex_le (fst p) (fst q)) (map_to_list m).
Fixpoint enc_members (l : list (bytes * option node_state)) : bytes :=
  match l with
  | [] => []
  | (id, st) :: r =>
      put_lp4 id ++ match st with Some s => put_u8 1 ++ enc_ns_body s | None => put_u8 0 end ++ enc_members r
  end.
Definition members_list (m : option members) : list (bytes * option node_state) :=
  match m with None => [] | Some m => mentries m end.

Definition enc_view (v : option view) : mres bytes :=
  match v with
  | None => MOk (put_u32 0)
  | Some v =>
      let ms := members_list (v_members v) in
      let*m vvb := mlift (vwrite (v_vv v)) in
      MOk (put_u32 1 ++ put_lp4 (v_id v) ++ put_i64 (v_epoch v) ++ put_i64 (v_ts v) ++
           put_u32 (N.of_nat (length ms)) ++ enc_members ms ++
           put_i32 (v_healthy v) ++ put_i32 (v_unhealthy v) ++ put_i32 (v_quorum v) ++
           vvb ++ put_u16 (v_proto v) ++ put_i32 (v_maxvv v))
  end.

(** the member loop runs [cnt] times, [cnt] a uint32 from the wire (at most a fifth of the remaining
    input, see [dec_view]); every iteration reads at least five bytes, so the number of iterations is
    bounded by the input: the fuel is the input length and its exhaustion ([MEFuel]) is proved
    unreachable.  A member whose presence byte is 0 is read and
    NOT inserted. *)
Fixpoint dec_members (fuel : nat) (cnt : N) (acc : members) : dec members :=
  if cnt =? 0 then dret acc else
  match fuel with
  | O => dfail MEFuel
  | S f =>
      let+ id := d_str in let+ has := d_u8 in
      if has =? 0 then dec_members f (cnt - 1) acc
      else let+ st := dec_ns_body in dec_members f (cnt - 1) (<[id := Some st]> acc)
  end.

(** if int64(memLen) > int64(r.RemainingSize())/5 { return nil, io.ErrUnexpectedEOF } *)
Definition d_member_guard (memlen : N) : dec unit := fun bs =>
  if N.of_nat (length bs) / 5 <? memlen then (0, MErr (ME EEOF)) else (0, MOk (tt, bs)).

(** the guard, make(map[string]*NodeState, memLen) and the member loop *)
Definition d_members (memlen : N) : dec members :=
  let+ _ := d_member_guard memlen in
  let+ _ := dalloc (slot_member * memlen) in
  fun bs => dec_members (S (length bs)) memlen ∅ bs.

Definition dec_view : dec (option view) :=
  let+ n := d_u32 in
  if n =? 0 then dret None else
  let+ id := d_str in let+ ep := d_i64 in let+ ts := d_i64 in let+ memlen := d_u32 in
  let+ ms := d_members memlen in
  let+ h := d_i32 in let+ u := d_i32 in let+ q := d_i32 in
  let+ vvec := d_vv in
  let+ pv := d_u16 in let+ mx := d_i32 in
  dret (Some {| v_id := id; v_epoch := ep; v_ts := ts; v_members := Some ms;
                v_healthy := h; v_unhealthy := u; v_quorum := q; v_vv := vvec;
                v_proto := pv; v_maxvv := mx |}).

(** * the flat cluster messages *)
(* clusterJoinRequest *)
Definition enc_JoinRequest (ns : option node_state) (tok : bytes) : bytes := enc_ns_opt ns ++ put_lp4 tok.
Definition dec_JoinRequest : dec (option node_state * bytes) :=
  let+ ns := dec_ns_opt in let+ tok := d_str in dret (ns, tok).
(* clusterJoinResponse, clusterGossip *)
Definition enc_ViewMsg (v : option view) : mres bytes := enc_view v.
Definition dec_ViewMsg : dec (option view) := dec_view.
(* clusterGetViewResponse *)
Definition enc_GetViewResponse (v : option view) (inq : bool) (leader : bytes) : mres bytes :=
  let*m b := enc_view v in MOk (b ++ put_bool inq ++ put_lp4 leader).
Definition dec_GetViewResponse : dec (option view * bool * bytes) :=
  let+ v := dec_view in let+ q := d_bool in let+ l := d_str in dret (v, q, l).
(* clusterLeaveBroadcastRound: int32(m.Round) *)
Definition enc_LeaveBroadcastRound (round : Z) : bytes := put_i32 round.
Definition dec_LeaveBroadcastRound : dec Z := d_i32.
(* clusterJoinRetryTick: int64(m.NextDelay) *)
Definition enc_JoinRetryTick (d : Z) : bytes := put_i64 d.
Definition dec_JoinRetryTick : dec Z := d_i64.
(* clusterForceMemberDown *)
Definition enc_ForceMemberDown (id tok : bytes) : bytes := put_lp4 id ++ put_lp4 tok.
Definition dec_ForceMemberDown : dec (bytes * bytes) := let+ id := d_str in let+ tok := d_str in dret (id, tok).
(* clusterTriggerViewBroadcast *)
Definition enc_TriggerViewBroadcast (tok : bytes) : bytes := put_lp4 tok.
Definition dec_TriggerViewBroadcast : dec bytes := d_str.

(** * typing (the value is a Go value) and validity (the value survives the wire) *)
Definition ty_mapss (m : gomap) : Prop := True.
Definition valid_smap (m : smap) : Prop :=
  N.of_nat (size m) <= max_map_entries /\ forall k v, m !! k = Some v -> len32 k /\ len32 v.
Definition valid_mapss (m : gomap) : Prop :=
  match m with None => True | Some m => m <> ∅ /\ valid_smap m end.

Definition ty_ns (n : node_state) : Prop :=
  in_i64 (ns_gen n) /\ in_i64 (ns_ts n) /\ ns_seq n < 2 ^ 64 /\ in_i64 (ns_status n) /\
  in_i64 (ns_lastseen n) /\ ns_lclock n < 2 ^ 64 /\ ns_checksum n < 2 ^ 32.
Definition valid_ns (n : node_state) : Prop :=
  len32 (ns_id n) /\ len32 (ns_cluster n) /\ len32 (ns_addr n) /\
  in_i32 (ns_gen n) /\ in_i32 (ns_status n) /\ valid_mapss (ns_meta n) /\ valid_mapss (ns_labels n).

Definition ty_view (v : view) : Prop :=
  in_i64 (v_epoch v) /\ in_i64 (v_ts v) /\ in_i64 (v_healthy v) /\ in_i64 (v_unhealthy v) /\
  in_i64 (v_quorum v) /\ v_proto v < 2 ^ 16 /\ in_i64 (v_maxvv v) /\
  match v_members v with None => True | Some m => forall k n, m !! k = Some (Some n) -> ty_ns n end.
Definition valid_view (v : view) : Prop :=
  len32 (v_id v) /\ in_i32 (v_healthy v) /\ in_i32 (v_unhealthy v) /\ in_i32 (v_quorum v) /\
  in_i32 (v_maxvv v) /\
  (N.of_nat (size (v_vv v)) <= max_entries /\
   forall k c, v_vv v !! k = Some c -> valid_addr k = true /\ c <= max_counter) /\
  match v_members v with
  | None => False                                  (* a nil Members map comes back as an empty non-nil map *)
  | Some m => N.of_nat (size m) < 2 ^ 32 /\
              forall k st, m !! k = Some st ->
                len32 k /\ match st with None => False    (* a nil *NodeState entry is dropped by the reader *)
                                      | Some n => ty_ns n /\ valid_ns n end
  end.
Definition ty_view_opt (v : option view) : Prop := match v with None => True | Some v => ty_view v end.
Definition valid_view_opt (v : option view) : Prop := match v with None => True | Some v => valid_view v end.
Definition ty_ns_opt (n : option node_state) : Prop := match n with None => True | Some n => ty_ns n end.
Definition valid_ns_opt (n : option node_state) : Prop := match n with None => True | Some n => valid_ns n end.
