From Coq Require Import List NArith ZArith Lia Bool.
From Coq Require Import ZifyN ZifyNat ZifyBool.
From Vivid Require Import Codec.Prim Codec.PrimProofs Codec.Prim2 Codec.Prim2Proofs Codec.Reflect.
Import ListNotations.
Local Open Scope N_scope.

(** * induction principles for the nested inductives *)
Section GotyInd.
  Variable P : goty -> Prop.
  Hypothesis Hbasic : forall b, P (TBasic b).
  Hypothesis Hnamed : forall b, P (TNamed b).
  Hypothesis Hint : P TInt.
  Hypothesis Huint : P TUint.
  Hypothesis Hslice : forall nm e, P e -> P (TSlice nm e).
  Hypothesis Harray : forall n e, P e -> P (TArray n e).
  Hypothesis Hstruct : forall fs, Forall (fun p => P (snd p)) fs -> P (TStruct fs).
  Hypothesis Hptr : forall e, P e -> P (TPtr e).
  Hypothesis Hiface : P TIface.
  Hypothesis Hmap : P TMap.
  Hypothesis Hchan : P TChan.
  Hypothesis Hfunc : P TFunc.
  Fixpoint goty_ind' (t : goty) : P t :=
    match t with
    | TBasic b => Hbasic b
    | TNamed b => Hnamed b
    | TInt => Hint
    | TUint => Huint
    | TSlice nm e => Hslice nm e (goty_ind' e)
    | TArray n e => Harray n e (goty_ind' e)
    | TStruct fs =>
        Hstruct fs ((fix go (fs : list (bool * goty)) : Forall (fun p => P (snd p)) fs :=
                       match fs with
                       | [] => Forall_nil _
                       | p :: r => Forall_cons p (goty_ind' (snd p)) (go r)
                       end) fs)
    | TPtr e => Hptr e (goty_ind' e)
    | TIface => Hiface
    | TMap => Hmap
    | TChan => Hchan
    | TFunc => Hfunc
    end.
End GotyInd.

Section GovalInd.
  Variable P : goval -> Prop.
  Hypothesis Hn : forall n, P (VN n).
  Hypothesis Hz : forall z, P (VZ z).
  Hypothesis Hb : forall b, P (VB b).
  Hypothesis Hs : forall s, P (VS s).
  Hypothesis Hnil : P VNil.
  Hypothesis Hlist : forall l, Forall P l -> P (VList l).
  Hypothesis Hstruct : forall l, Forall P l -> P (VStruct l).
  Hypothesis Hptr : forall v, P v -> P (VPtr v).
  Hypothesis Hiface : forall t v, P v -> P (VIface t v).
  Hypothesis Hop : P VOpaque.
  Fixpoint goval_ind' (v : goval) : P v :=
    match v with
    | VN n => Hn n | VZ z => Hz z | VB b => Hb b | VS s => Hs s | VNil => Hnil
    | VList l => Hlist l ((fix go (l : list goval) : Forall P l :=
                             match l with [] => Forall_nil _ | x :: r => Forall_cons x (goval_ind' x) (go r) end) l)
    | VStruct l => Hstruct l ((fix go (l : list goval) : Forall P l :=
                                 match l with [] => Forall_nil _ | x :: r => Forall_cons x (goval_ind' x) (go r) end) l)
    | VPtr x => Hptr x (goval_ind' x)
    | VIface t x => Hiface t x (goval_ind' x)
    | VOpaque => Hop
    end.
End GovalInd.

(** * the inner fixpoints of Reflect.v as named functions (each equation is [reflexivity]) *)
Definition wlist (e : goty) : list goval -> out bytes :=
  fix wl (l : list goval) : out bytes :=
    match l with
    | [] => OOk []
    | x :: r => obind (wrefl e x) (fun b => obind (wl r) (fun b' => OOk (b ++ b')))
    end.
Lemma wlist_nil e : wlist e [] = OOk []. Proof. reflexivity. Qed.
Lemma wlist_cons e x r : wlist e (x :: r) = obind (wrefl e x) (fun b => obind (wlist e r) (fun b' => OOk (b ++ b'))).
Proof. reflexivity. Qed.
Fixpoint wfields (fs : list (bool * goty)) (l : list goval) {struct l} : out bytes :=
  match fs, l with
  | [], [] => OOk []
  | (ex, t) :: fr, x :: r =>
      if ex then obind (wrefl t x) (fun b => obind (wfields fr r) (fun b' => OOk (b ++ b'))) else wfields fr r
  | _, _ => OIll
  end.
Definition rfields (tot : N) : list (bool * goty) -> rst -> M (list goval * rst) :=
  fix rf (fs : list (bool * goty)) (st : rst) : M (list goval * rst) :=
    match fs with
    | [] => ret ([], st)
    | (ex, t) :: r =>
        if ex then bindM (read tot t st) (fun p => bindM (rf r (snd p)) (fun q => ret (fst p :: fst q, snd q)))
        else bindM (rf r st) (fun q => ret (zero t :: fst q, snd q))
    end.
Lemma rfields_nil tot st : rfields tot [] st = ret ([], st). Proof. reflexivity. Qed.
Lemma rfields_cons tot ex t r st : rfields tot ((ex, t) :: r) st =
  if ex then bindM (read tot t st) (fun p => bindM (rfields tot r (snd p)) (fun q => ret (fst p :: fst q, snd q)))
  else bindM (rfields tot r st) (fun q => ret (zero t :: fst q, snd q)).
Proof. reflexivity. Qed.
Definition typed_list (e : goty) : list goval -> bool :=
  fix all (l : list goval) : bool := match l with [] => true | x :: r => has_typeb e x && all r end.
Lemma typed_list_cons e x r : typed_list e (x :: r) = has_typeb e x && typed_list e r. Proof. reflexivity. Qed.
Fixpoint typed_fields (fs : list (bool * goty)) (l : list goval) {struct l} : bool :=
  match fs, l with
  | [], [] => true
  | (_, t) :: fr, x :: r => has_typeb t x && typed_fields fr r
  | _, _ => false
  end.
Definition fits_list (e : goty) : list goval -> bool :=
  fix all (l : list goval) : bool := match l with [] => true | x :: r => fits e x && all r end.
Lemma fits_list_cons e x r : fits_list e (x :: r) = fits e x && fits_list e r. Proof. reflexivity. Qed.
Fixpoint fits_fields (fs : list (bool * goty)) (l : list goval) {struct l} : bool :=
  match fs, l with
  | (ex, t) :: fr, x :: r => (negb ex || fits t x) && fits_fields fr r
  | _, _ => true
  end.
Definition norm_list (e : goty) : list goval -> list goval :=
  fix go (l : list goval) : list goval := match l with [] => [] | x :: r => norm e x :: go r end.
Lemma norm_list_cons e x r : norm_list e (x :: r) = norm e x :: norm_list e r. Proof. reflexivity. Qed.
Fixpoint norm_fields (fs : list (bool * goty)) (l : list goval) {struct l} : list goval :=
  match fs, l with
  | (ex, t) :: fr, x :: r => (if ex then norm t x else zero t) :: norm_fields fr r
  | _, _ => []
  end.
Fixpoint zero_fields (fs : list (bool * goty)) : list goval :=
  match fs with [] => [] | (_, t) :: r => zero t :: zero_fields r end.
Fixpoint wire0_fields (fs : list (bool * goty)) : bool :=
  match fs with [] => true | (ex, t) :: r => (negb ex || wire0 t) && wire0_fields r end.
Fixpoint supported_fields (fs : list (bool * goty)) : bool :=
  match fs with [] => true | (ex, t) :: r => (negb ex || supported t) && supported_fields r end.
Fixpoint tsize_fields (fs : list (bool * goty)) : N :=
  match fs with [] => 0 | (_, t) :: r => tsize t + tsize_fields r end.
Fixpoint kK_fields (fs : list (bool * goty)) : N :=
  match fs with [] => 0 | (ex, t) :: r => (if ex then kK t else 0) + kK_fields r end.
Fixpoint kA_fields (fs : list (bool * goty)) : N :=
  match fs with [] => 0 | (ex, t) :: r => (if ex then kA t else 0) + kA_fields r end.

Lemma wrefl_list_eq ty e l : (ty = TSlice true e \/ ty = TSlice false e \/ exists n, ty = TArray n e) ->
  wrefl ty (VList l) = obind (wlist e l) (fun b => OOk (put_u32 (N.of_nat (length l)) ++ b)).
Proof. intros [-> | [-> | [n ->]]]; reflexivity. Qed.
Lemma wrefl_struct_eq fs l : wrefl (TStruct fs) (VStruct l) = wfields fs l.
Proof. reflexivity. Qed.
Lemma read_struct_eq tot fs st :
  read tot (TStruct fs) st = tick (tsize (TStruct fs), 0) (bindM (rfields tot fs st) (fun q => ret (VStruct (fst q), snd q))).
Proof. reflexivity. Qed.
Definition cnt_list (e : goty) : list goval -> N :=
  fix sum (l : list goval) : N := match l with [] => 0 | x :: r => cnt e x + sum r end.
Lemma cnt_list_cons e x r : cnt_list e (x :: r) = cnt e x + cnt_list e r. Proof. reflexivity. Qed.
Fixpoint cnt_fields (fs : list (bool * goty)) (l : list goval) {struct l} : N :=
  match fs, l with
  | (ex, t) :: fr, x :: r => (if ex then cnt t x else 0) + cnt_fields fr r
  | _, _ => 0
  end.
Lemma cnt_slice nm e l : cnt (TSlice nm e) (VList l) =
  if negb nm && (match e with TBasic BU8 => true | _ => false end) then 0 else N.of_nat (length l) + cnt_list e l.
Proof. reflexivity. Qed.
Lemma cnt_array n e l : cnt (TArray n e) (VList l) = cnt_list e l.
Proof. reflexivity. Qed.
Lemma cnt_struct fs l : cnt (TStruct fs) (VStruct l) = cnt_fields fs l.
Proof. reflexivity. Qed.
Lemma has_type_slice nm e l : has_typeb (TSlice nm e) (VList l) = typed_list e l.
Proof. reflexivity. Qed.
Lemma has_type_array n e l : has_typeb (TArray n e) (VList l) = (N.of_nat (length l) =? n) && typed_list e l.
Proof. reflexivity. Qed.
Lemma has_type_struct fs l : has_typeb (TStruct fs) (VStruct l) = typed_fields fs l.
Proof. reflexivity. Qed.
Lemma fits_slice nm e l : fits (TSlice nm e) (VList l) = (N.of_nat (length l) <? 4294967296) && (negb (wire0 e) || (N.of_nat (length l) =? 0)) && fits_list e l.
Proof. reflexivity. Qed.
Lemma fits_array n e l : fits (TArray n e) (VList l) = fits_list e l.
Proof. reflexivity. Qed.
Lemma fits_struct fs l : fits (TStruct fs) (VStruct l) = fits_fields fs l.
Proof. reflexivity. Qed.
Lemma norm_slice nm e l : norm (TSlice nm e) (VList l) = VList (norm_list e l).
Proof. reflexivity. Qed.
Lemma norm_array n e l : norm (TArray n e) (VList l) = VList (norm_list e l).
Proof. reflexivity. Qed.
Lemma norm_struct fs l : norm (TStruct fs) (VStruct l) = VStruct (norm_fields fs l).
Proof. reflexivity. Qed.
Lemma zero_struct fs : zero (TStruct fs) = VStruct (zero_fields fs).
Proof. reflexivity. Qed.
Lemma wire0_struct fs : wire0 (TStruct fs) = wire0_fields fs.
Proof. reflexivity. Qed.
Lemma supported_struct fs : supported (TStruct fs) = supported_fields fs.
Proof. reflexivity. Qed.
Lemma tsize_struct fs : tsize (TStruct fs) = tsize_fields fs.
Proof. reflexivity. Qed.
Lemma kK_struct fs : kK (TStruct fs) = tsize_fields fs + kK_fields fs.
Proof. reflexivity. Qed.
Lemma kA_struct fs : kA (TStruct fs) = kA_fields fs.
Proof. reflexivity. Qed.

(** * the cost monad *)
Lemma fst_tick {A} c (m : M A) : fst (tick c m) = fst m.
Proof. reflexivity. Qed.
Lemma snd_tick {A} c (m : M A) : snd (tick c m) = cadd c (snd m).
Proof. reflexivity. Qed.
Lemma fst_bindM {A B} (m : M A) (f : A -> M B) :
  fst (bindM m f) = match fst m with OOk a => fst (f a) | OErr e => OErr e | OPanic w => OPanic w | OFuel => OFuel | OIll => OIll end.
Proof. unfold bindM. destruct (fst m); reflexivity. Qed.
Lemma snd_bindM {A B} (m : M A) (f : A -> M B) :
  snd (bindM m f) = match fst m with OOk a => cadd (snd m) (snd (f a)) | _ => snd m end.
Proof. unfold bindM. destruct (fst m); reflexivity. Qed.
Lemma fst_liftR {A} (r : res A) : fst (liftR r) = of_res r.
Proof. reflexivity. Qed.

(** "Ok or Err" *)
Definition okerr {A} (o : out A) : Prop := (exists a, o = OOk a) \/ (exists e, o = OErr e).
Lemma okerr_ok {A} (a : A) : okerr (OOk a). Proof. left; eauto. Qed.
Lemma okerr_err {A} e : okerr (@OErr A e). Proof. right; eauto. Qed.
Lemma okerr_of_res {A} (r : res A) : okerr (of_res r). Proof. destruct r; [apply okerr_ok|apply okerr_err]. Qed.
Global Hint Resolve okerr_ok okerr_err okerr_of_res : core.
Lemma okerr_obind {A B} (o : out A) (f : A -> out B) : okerr o -> (forall a, o = OOk a -> okerr (f a)) -> okerr (obind o f).
Proof. intros [[a ->]|[e ->]] H; cbn; [apply H; reflexivity|apply okerr_err]. Qed.

(** * C13 (a): the writer is total *)
Lemma wprim_ok b v : basic_ok b v = true -> exists bs, wprim b v = OOk bs.
Proof. destruct b, v; cbn; try discriminate; eauto. Qed.

Lemma has_type_basic b y : has_typeb (TBasic b) y = true -> basic_ok b y = true.
Proof. destruct y; cbn; auto; discriminate. Qed.

Lemma wlist_okerr e l : Forall (fun v => forall ty, has_typeb ty v = true -> okerr (wrefl ty v)) l ->
  typed_list e l = true -> okerr (wlist e l).
Proof.
  induction 1 as [|x r Hx Hr IH]; [rewrite wlist_nil; auto|]. rewrite typed_list_cons, wlist_cons.
  intros H. apply andb_prop in H as [H1 H2].
  apply okerr_obind; [apply Hx; exact H1|]. intros b _. apply okerr_obind; [apply IH; exact H2|]. auto.
Qed.
Lemma wfields_okerr l : Forall (fun v => forall ty, has_typeb ty v = true -> okerr (wrefl ty v)) l ->
  forall fs, typed_fields fs l = true -> okerr (wfields fs l).
Proof.
  induction 1 as [|x r Hx Hr IH]; intros fs; destruct fs as [|[ex t] fr]; cbn [typed_fields wfields]; try discriminate; [auto|].
  intros H. apply andb_prop in H as [H1 H2]. destruct ex; [|apply IH; exact H2].
  apply okerr_obind; [apply Hx; exact H1|]. intros b _. apply okerr_obind; [apply IH; exact H2|]. auto.
Qed.

Lemma wrefl_total v : forall ty, has_typeb ty v = true -> okerr (wrefl ty v).
Proof.
  induction v as [n|z|b|s| |l IH|l IH|x IH|t x IH| ] using goval_ind'; intros ty Ht.
  1-4: destruct ty; try discriminate Ht; cbn [wrefl]; auto;
       match goal with |- okerr (wprim ?b ?v) => destruct (wprim_ok b v Ht) as [bs ->]; auto end.
  - destruct ty; try discriminate Ht; cbn [wrefl]; auto.
  - destruct ty as [| | | |nm e|n e| | | | | |]; try discriminate Ht.
    + rewrite (wrefl_list_eq (TSlice nm e) e) by (destruct nm; auto). rewrite has_type_slice in Ht.
      apply okerr_obind; [apply wlist_okerr; assumption|auto].
    + rewrite (wrefl_list_eq (TArray n e) e) by eauto. rewrite has_type_array in Ht. apply andb_prop in Ht as [_ Ht].
      apply okerr_obind; [apply wlist_okerr; assumption|auto].
  - destruct ty as [| | | | | |fs| | | | |]; try discriminate Ht.
    rewrite wrefl_struct_eq. apply wfields_okerr; assumption.
  - destruct ty as [| | | | | | |t| | | |]; try discriminate Ht. cbn [has_typeb] in Ht. cbn [wrefl].
    destruct t; try (apply IH; exact Ht).
    destruct x; auto. cbn [has_typeb] in Ht. apply andb_prop in Ht as [_ Ht].
    destruct ty; auto. destruct (wprim_ok _ _ (has_type_basic _ _ Ht)) as [bs ->]; auto.
  - destruct ty; try discriminate Ht. cbn [has_typeb] in Ht. apply andb_prop in Ht as [_ Ht]. cbn [wrefl]. apply IH; exact Ht.
  - destruct ty; try discriminate Ht; cbn [wrefl]; auto.
Qed.

Lemma write_total ty v : has_typeb ty v = true -> okerr (write ty v).
Proof.
  intros Ht.
  destruct ty as [b| | | |nm e| | |e| | | |]; cbn [write]; try (apply wrefl_total; exact Ht).
  - destruct (wprim_ok b v (has_type_basic _ _ Ht)) as [bs ->]; auto.
  - destruct nm; [apply wrefl_total; exact Ht|].
    destruct e as [b| | | | | | | | | | |]; try (apply wrefl_total; exact Ht).
    destruct b; try (apply wrefl_total; exact Ht).
    destruct v; try discriminate Ht; auto.
  - destruct e as [b| | | |nm e| | | | | | |]; try (apply wrefl_total; exact Ht).
    + destruct v; try discriminate Ht; auto.
      cbn [has_typeb] in Ht. destruct (wprim_ok b v (has_type_basic _ _ Ht)) as [bs ->]; auto.
    + destruct nm; [apply wrefl_total; exact Ht|].
      destruct e as [b| | | | | | | | | | |]; try (apply wrefl_total; exact Ht).
      destruct b; try (apply wrefl_total; exact Ht).
      destruct v; try discriminate Ht; auto.
      cbn [has_typeb] in Ht. destruct v; try discriminate Ht; auto.
Qed.

Lemma write_from_total l : forallb (fun p => has_typeb (fst p) (snd p)) l = true -> okerr (write_from l).
Proof.
  induction l as [|[t v] r IH]; cbn [forallb write_from fst snd]; [auto|].
  intros H1. apply andb_prop in H1 as [H1 H1'].
  apply okerr_obind; [apply write_total; exact H1|]. intros b _. apply okerr_obind; [apply IH; assumption|auto].
Qed.

(** * C13 (b): the reader is total on every byte string *)
(** byte-level readers (primitives) *)
Definition rdb_good {A} (rd : bytes -> M (A * bytes)) : Prop :=
  forall bs, (exists v r h, fst (rd bs) = OOk (v, r) /\ bs = h ++ r /\ h <> []) \/ (exists e, fst (rd bs) = OErr e).
(** readers over the Reader's state: a suffix of the input remains, the element counter never decreases *)
Definition rd_good {A} (strict : bool) (rd : rst -> M (A * rst)) : Prop :=
  forall st, (exists v st' h, fst (rd st) = OOk (v, st') /\ fst st = h ++ fst st' /\ (strict = true -> h <> []) /\ snd st <= snd st')
             \/ (exists e, fst (rd st) = OErr e).

Lemma fst_with_el {A} el (m : M (A * bytes)) :
  fst (with_el el m) = match fst m with OOk p => OOk (fst p, (snd p, el)) | OErr e => OErr e | OPanic w => OPanic w | OFuel => OFuel | OIll => OIll end.
Proof. unfold with_el. rewrite fst_bindM. destruct (fst m); reflexivity. Qed.

Lemma rd_uint_good {A} k (f : N -> A) : (1 <= k)%nat ->
  rdb_good (fun bs => liftR (let* (n, t) := rd_uint k bs in Ok (f n, t))).
Proof.
  intros Hk bs. rewrite fst_liftR. destruct (rd_uint k bs) as [[n t]|e] eqn:E; cbn [bind of_res].
  - destruct (rd_uint_suffix _ _ _ _ E) as (h & -> & Hl). left. exists (f n), t, h. repeat split; auto.
    intros ->. cbn in Hl. lia.
  - right; eauto.
Qed.
Lemma rd_lp4_good bs : (exists s r h, rd_lp4 bs = Ok (s, r) /\ bs = h ++ r /\ (4 <= length h)%nat /\ (length s <= length h)%nat)
                        \/ (exists e, rd_lp4 bs = Err e).
Proof.
  unfold rd_lp4. destruct (rd_u32 bs) as [[n t]|e] eqn:E; cbn [bind]; [|right; eauto].
  destruct (rd_uint_suffix _ _ _ _ E) as (h & -> & Hl).
  destruct (take_N n t) as [[s r]|e] eqn:E2; [|right; eauto].
  destruct (take_N_suffix _ _ _ _ E2) as (-> & _). left. exists s, r, (h ++ s). rewrite app_assoc, app_length. repeat split; auto; lia.
Qed.

Lemma rprim_good b : rdb_good (rprim b).
Proof.
  destruct b; unfold rprim, rd_u8, rd_u16, rd_u32, rd_u64, rd_f32, rd_f64, rd_u32, rd_u64;
    try (apply rd_uint_good; lia).
  1-4: intros bs; rewrite fst_liftR; unfold rd_i8, rd_i16, rd_i32, rd_i64, rd_u8, rd_u16, rd_u32, rd_u64;
       match goal with |- context [rd_uint ?k bs] => destruct (rd_uint k bs) as [[n t]|e] eqn:E end; cbn [bind of_res];
       [destruct (rd_uint_suffix _ _ _ _ E) as (h & -> & Hl); left; do 3 eexists; repeat split; eauto; intros ->; cbn in Hl; lia|right; eauto].
  - intros bs; rewrite fst_liftR; unfold rd_bool, rd_u8.
    destruct (rd_uint 1 bs) as [[n t]|e] eqn:E; cbn [bind of_res];
      [destruct (rd_uint_suffix _ _ _ _ E) as (h & -> & Hl); left; do 3 eexists; repeat split; eauto; intros ->; cbn in Hl; lia|right; eauto].
  - intros bs. rewrite fst_bindM, fst_liftR. unfold rd_string.
    destruct (rd_lp4_good bs) as [(s & r & h & -> & -> & Hl & _)|[e ->]]; cbn [of_res]; [|right; eauto].
    rewrite fst_tick. cbn [ret fst snd]. left. exists (VS s), r, h. repeat split; auto. intros ->. cbn in Hl. lia.
Qed.

Lemma with_el_good {A} (rd : bytes -> M (A * bytes)) : rdb_good rd -> rd_good true (fun st => with_el (snd st) (rd (fst st))).
Proof.
  intros H [bs el]. cbn [fst snd]. rewrite fst_with_el.
  destruct (H bs) as [(v & r & h & -> & -> & Hh)|[e ->]]; [|right; eauto].
  left. exists v, (r, el), h. cbn [fst snd]. repeat split; auto. lia.
Qed.

Lemma rd_elems_good rd : rd_good true rd -> forall fuel n st, (length (fst st) < fuel)%nat ->
  (exists v st' h, fst (rd_elems rd fuel n st) = OOk (v, st') /\ fst st = h ++ fst st' /\ snd st <= snd st')
  \/ (exists e, fst (rd_elems rd fuel n st) = OErr e).
Proof.
  intros Hrd. induction fuel as [|f IH]; intros n st Hl; [lia|].
  cbn [rd_elems]. destruct (n =? 0); [left; exists [], st, []; repeat split; auto; lia|].
  rewrite fst_bindM. destruct (Hrd st) as [(v & st1 & h & -> & E1 & Hh & Hel)|[e ->]]; [|right; eauto].
  rewrite fst_tick, fst_bindM. cbn [snd fst].
  assert (length (fst st1) < f)%nat.
  { rewrite E1, app_length in Hl. destruct h; [exfalso; apply Hh; reflexivity|cbn in Hl; lia]. }
  destruct (IH (n - 1) st1 H) as [(vs & st2 & h' & -> & E2 & Hel2)|[e ->]]; [|right; eauto].
  cbn [ret fst snd]. left. exists (v :: vs), st2, (h ++ h'). rewrite E1, E2, app_assoc. repeat split; auto. lia.
Qed.

Lemma rfields_good tot fs : Forall (fun p => rd_good (negb (wire0 (snd p))) (read tot (snd p))) fs ->
  rd_good (negb (wire0_fields fs)) (rfields tot fs).
Proof.
  induction 1 as [|[ex t] r Hx Hr IH]; intros st.
  - rewrite rfields_nil. left. exists [], st, []. cbn. repeat split; auto; try lia; try discriminate.
  - rewrite rfields_cons. cbn [wire0_fields]. cbn [snd] in Hx. destruct ex; cbn [negb orb].
    + rewrite fst_bindM. destruct (Hx st) as [(v & st1 & h1 & -> & E1 & Hh1 & Hel1)|[e ->]]; [|right; eauto].
      rewrite fst_bindM. cbn [fst snd].
      destruct (IH st1) as [(vs & st2 & h2 & -> & E2 & Hh2 & Hel2)|[e ->]]; [|right; eauto].
      cbn [ret fst snd]. left. exists (v :: vs), st2, (h1 ++ h2). rewrite E1, E2, app_assoc. repeat split; auto; try lia.
      intros Hs Heq. apply app_eq_nil in Heq as [-> ->].
      destruct (wire0 t); cbn in Hs; [apply Hh2; auto|apply Hh1; auto].
    + rewrite fst_bindM.
      destruct (IH st) as [(vs & st2 & h2 & -> & E2 & Hh2 & Hel2)|[e ->]]; [|right; eauto].
      cbn [ret fst snd]. left. exists (zero t :: vs), st2, h2. repeat split; auto.
Qed.

Lemma read_good tot ty : rd_good (negb (wire0 ty)) (read tot ty).
Proof.
  induction ty as [b|b| | |nm e IH|n e IH|fs IH|e IH| | | |] using goty_ind';
    try (intros st; right; eexists; reflexivity).
  - exact (with_el_good (rprim b) (rprim_good b)).
  - intros [bs el]. cbn [read wire0 negb fst snd].
    destruct (negb nm && match e with TBasic BU8 => true | _ => false end).
    + rewrite fst_with_el, fst_bindM, fst_liftR.
      destruct (rd_lp4_good bs) as [(s & r & h & -> & -> & Hl & _)|[e' ->]]; cbn [of_res]; [|right; eauto].
      rewrite fst_tick. cbn [ret fst snd]. left. exists (VList (map VN s)), (r, el), h. cbn [fst snd]. repeat split; auto; try lia.
      intros _ ->. cbn in Hl. lia.
    + rewrite fst_bindM, fst_liftR. unfold rd_u32.
      destruct (rd_uint 4 bs) as [[n t]|e'] eqn:E; cbn [of_res]; [|right; eauto].
      destruct (rd_uint_suffix _ _ _ _ E) as (h & -> & Hl). cbn [fst snd].
      destruct (N.of_nat (length t) <? n); [right; eexists; reflexivity|].
      destruct (tot <? el + n); [right; eexists; reflexivity|]. rewrite fst_tick.
      assert (Hh : h <> []) by (intros ->; cbn in Hl; lia).
      destruct (wire0 e) eqn:W.
      * cbn [fst]. left. exists (VList (repeat (zero e) (N.to_nat n))), (t, el + n), h. cbn [fst snd]. repeat split; auto. lia.
      * rewrite fst_bindM.
        destruct (rd_elems_good (read tot e) IH (S (length t)) n (t, el + n) ltac:(cbn [fst]; lia)) as [(vs & st' & h' & -> & E2 & Hel)|[e' ->]]; [|right; eauto].
        cbn [ret fst snd] in *. left. exists (VList vs), st', (h ++ h'). rewrite E2, app_assoc. repeat split; auto; try lia.
        intros _ Heq. apply app_eq_nil in Heq as [-> _]. apply Hh; reflexivity.
  - intros [bs el]. cbn [read wire0 negb fst snd]. rewrite fst_tick, fst_bindM, fst_liftR. unfold rd_u32.
    destruct (rd_uint 4 bs) as [[m t]|e'] eqn:E; cbn [of_res]; [|right; eauto].
    destruct (rd_uint_suffix _ _ _ _ E) as (h & -> & Hl). cbn [fst snd].
    assert (Hh : h <> []) by (intros ->; cbn in Hl; lia).
    destruct (negb (m =? n)); [right; eexists; reflexivity|].
    destruct (wire0 e) eqn:W.
    + cbn [fst]. left. exists (VList (repeat (zero e) (N.to_nat n))), (t, el), h. cbn [fst snd]. repeat split; auto. lia.
    + rewrite fst_bindM.
      destruct (rd_elems_good (read tot e) IH (S (length t)) n (t, el) ltac:(cbn [fst]; lia)) as [(vs & st' & h' & -> & E2 & Hel)|[e' ->]]; [|right; eauto].
      cbn [ret fst snd] in *. left. exists (VList vs), st', (h ++ h'). rewrite E2, app_assoc. repeat split; auto.
      intros _ Heq. apply app_eq_nil in Heq as [-> _]. apply Hh; reflexivity.
  - intros st. rewrite read_struct_eq, wire0_struct, fst_tick, fst_bindM.
    destruct (rfields_good tot fs IH st) as [(vs & st' & h & -> & E & Hh & Hel)|[e ->]]; [|right; eauto].
    cbn [ret fst snd]. left. exists (VStruct vs), st', h. auto.
Qed.

Lemma read_total tot ty st :
  (exists v st' h, fst (read tot ty st) = OOk (v, st') /\ fst st = h ++ fst st' /\ (wire0 ty = false -> h <> []) /\ snd st <= snd st')
  \/ (exists e, fst (read tot ty st) = OErr e).
Proof.
  destruct (read_good tot ty st) as [(v & st' & h & H1 & H2 & H3 & H4)|H]; [left|right; exact H].
  exists v, st', h. repeat split; auto. intros W. apply H3. rewrite W. reflexivity.
Qed.
Lemma read_okerr tot ty st : okerr (fst (read tot ty st)).
Proof. destruct (read_total tot ty st) as [(v & r & h & -> & _)|[e ->]]; auto. Qed.
(** a fresh Reader over [bs] *)
Lemma read0_total ty bs :
  (exists v r el h, fst (read0 ty bs) = OOk (v, (r, el)) /\ bs = h ++ r /\ (wire0 ty = false -> h <> []))
  \/ (exists e, fst (read0 ty bs) = OErr e).
Proof.
  unfold read0. destruct (read_total (N.of_nat (length bs)) ty (fresh bs)) as [(v & [r el] & h & H1 & H2 & H3 & _)|H]; [left|right; exact H].
  exists v, r, el, h. cbn [fresh fst] in H2. auto.
Qed.

Lemma read_into_total tot tys : forall st,
  (exists vs st' h, fst (read_into tot tys st) = OOk (vs, st') /\ fst st = h ++ fst st' /\ length vs = length tys)
  \/ (exists e, fst (read_into tot tys st) = OErr e).
Proof.
  induction tys as [|t r IH]; intros st; cbn [read_into].
  - left. exists [], st, []. auto.
  - rewrite fst_bindM. destruct (read_total tot t st) as [(v & st1 & h1 & -> & E1 & _)|[e ->]]; [|right; eauto].
    rewrite fst_bindM. cbn [fst snd]. destruct (IH st1) as [(vs & st2 & h2 & -> & E2 & Hl)|[e ->]]; [|right; eauto].
    cbn [ret fst snd]. left. exists (v :: vs), st2, (h1 ++ h2). rewrite E1, E2, app_assoc. cbn [length]. auto.
Qed.

Lemma read_call_total tg bs : okerr (read_call tg bs).
Proof.
  destruct tg as [ty|ty|]; cbn [read_call]; auto.
  destruct (read_okerr (N.of_nat (length bs)) ty (fresh bs)) as [[[v st] H]|[e H]]; unfold read0; rewrite H; auto.
Qed.

(** * C12: round trip *)
Lemma nonempty_length {A} (l : list A) k : length l = S k -> l <> [].
Proof. intros H ->. discriminate H. Qed.

Lemma in_u_lt bits n : in_u bits n = true -> n < 2 ^ bits.
Proof. unfold in_u. intros H. apply N.ltb_lt. exact H. Qed.
Lemma in_s_range bits z : in_s bits z = true -> (- 2 ^ (Z.of_N bits - 1) <= z < 2 ^ (Z.of_N bits - 1))%Z.
Proof. unfold in_s. intros H. apply andb_prop in H as [H1 H2]. apply Z.leb_le in H1. apply Z.ltb_lt in H2. lia. Qed.

Lemma prim_rt b v rest : basic_ok b v = true -> fits (TBasic b) v = true ->
  exists bs, wprim b v = OOk bs /\ bs <> [] /\ fst (rprim b (bs ++ rest)) = OOk (v, rest).
Proof.
  intros Hok Hfit. destruct b, v; try discriminate Hok; cbn [basic_ok] in Hok; cbn [wprim rprim]; eexists; (split; [reflexivity|]).
  all: try (apply in_u_lt in Hok); try (apply in_s_range in Hok).
  - split; [apply (nonempty_length _ 0), (be_length 1)|]. rewrite fst_liftR, rd_u8_put by exact Hok. reflexivity.
  - split; [apply (nonempty_length _ 0), (be_length 1)|]. rewrite fst_liftR, rd_i8_put by exact Hok. reflexivity.
  - split; [apply (nonempty_length _ 1), (be_length 2)|]. rewrite fst_liftR, rd_u16_put by exact Hok. reflexivity.
  - split; [apply (nonempty_length _ 1), (be_length 2)|]. rewrite fst_liftR, rd_i16_put by exact Hok. reflexivity.
  - split; [apply (nonempty_length _ 3), (be_length 4)|]. rewrite fst_liftR, rd_u32_put by exact Hok. reflexivity.
  - split; [apply (nonempty_length _ 3), (be_length 4)|]. rewrite fst_liftR, rd_i32_put by exact Hok. reflexivity.
  - split; [apply (nonempty_length _ 7), (be_length 8)|]. rewrite fst_liftR, rd_u64_put by exact Hok. reflexivity.
  - split; [apply (nonempty_length _ 7), (be_length 8)|]. rewrite fst_liftR, rd_i64_put by exact Hok. reflexivity.
  - split; [apply (nonempty_length _ 3), (be_length 4)|]. rewrite fst_liftR, rd_f32_put by exact Hok. reflexivity.
  - split; [apply (nonempty_length _ 7), (be_length 8)|]. rewrite fst_liftR, rd_f64_put by exact Hok. reflexivity.
  - split; [discriminate|]. rewrite fst_liftR. rewrite rd_bool_put. reflexivity.
  - cbn [fits] in Hfit. apply N.ltb_lt in Hfit. split.
    + unfold put_string, put_lp4. intros H. apply app_eq_nil in H as [H _]. apply (f_equal (@length N)) in H. rewrite (be_length 4) in H. discriminate H.
    + rewrite fst_bindM, fst_liftR. unfold rd_string, put_string. rewrite rd_lp4_put by exact Hfit. reflexivity.
Qed.

(** the statement proved by induction on the type.  [cnt ty v] slice elements are charged to the Reader's
    element budget; a value of a type that occupies wire bytes has more encoding bytes than counted elements *)
Definition RT (ty : goty) : Prop := forall v,
  has_typeb ty v = true -> fits ty v = true ->
  exists b, wrefl ty v = OOk b
            /\ (if wire0 ty then b = [] /\ norm ty v = zero ty /\ cnt ty v = 0 else cnt ty v + 1 <= N.of_nat (length b))
            /\ forall tot rest el, el + cnt ty v <= tot ->
                 fst (read tot ty (b ++ rest, el)) = OOk (norm ty v, (rest, el + cnt ty v)).

Lemma N_of_nat_S_pred k : N.of_nat (S k) - 1 = N.of_nat k.
Proof. lia. Qed.

(** elements of a slice/array whose element type is not wire0 *)
Lemma elems_rt tot e : RT e -> wire0 e = false -> forall l,
  typed_list e l = true -> fits_list e l = true ->
  exists b, wlist e l = OOk b /\ N.of_nat (length l) + cnt_list e l <= N.of_nat (length b)
            /\ forall rest el fuel, (length l <= fuel)%nat -> el + cnt_list e l <= tot ->
                 fst (rd_elems (read tot e) fuel (N.of_nat (length l)) (b ++ rest, el)) = OOk (norm_list e l, (rest, el + cnt_list e l)).
Proof.
  intros He W. induction l as [|x r IH]; intros Ht Hf.
  - exists []. split; [reflexivity|]. split; [cbn; lia|]. intros rest el fuel _ _. cbn [cnt_list]. rewrite N.add_0_r. destruct fuel; reflexivity.
  - rewrite typed_list_cons in Ht. rewrite fits_list_cons in Hf.
    apply andb_prop in Ht as [Ht1 Ht2]. apply andb_prop in Hf as [Hf1 Hf2].
    destruct (He x Ht1 Hf1) as (bx & Hwx & Hne & Hrx). rewrite W in Hne.
    destruct (IH Ht2 Hf2) as (br & Hwr & Hlen & Hrr).
    exists (bx ++ br). rewrite wlist_cons, Hwx. cbn [obind]. rewrite Hwr. cbn [obind]. split; [reflexivity|].
    rewrite cnt_list_cons. split. { rewrite app_length. cbn [length]. lia. }
    intros rest el fuel Hfuel Hb. cbn [length] in *. destruct fuel as [|f]; [lia|].
    cbn [rd_elems]. replace (N.of_nat (S (length r)) =? 0) with false by lia.
    rewrite fst_bindM, <- app_assoc, Hrx by lia. rewrite fst_tick, fst_bindM. cbn [fst snd].
    rewrite N_of_nat_S_pred, Hrr by lia. cbn [ret fst snd]. rewrite norm_list_cons.
    replace (el + cnt e x + cnt_list e r) with (el + (cnt e x + cnt_list e r)) by lia. reflexivity.
Qed.

(** elements of a wire0 type: nothing is written, the reader does not look at the input *)
Lemma elems_wire0 e : RT e -> wire0 e = true -> forall l,
  typed_list e l = true -> fits_list e l = true ->
  wlist e l = OOk [] /\ norm_list e l = repeat (zero e) (length l) /\ cnt_list e l = 0.
Proof.
  intros He W. induction l as [|x r IH]; intros Ht Hf; [repeat split; reflexivity|].
  rewrite typed_list_cons in Ht. rewrite fits_list_cons in Hf.
  apply andb_prop in Ht as [Ht1 Ht2]. apply andb_prop in Hf as [Hf1 Hf2].
  destruct (He x Ht1 Hf1) as (bx & Hwx & Hne & _). rewrite W in Hne. destruct Hne as (-> & Hz & Hc).
  destruct (IH Ht2 Hf2) as (Hwr & Hnr & Hcr).
  rewrite wlist_cons, Hwx. cbn [obind]. rewrite Hwr. cbn [obind app]. split; [reflexivity|].
  rewrite norm_list_cons, Hz, Hnr, cnt_list_cons, Hc, Hcr. split; reflexivity.
Qed.

(** []byte: the type switch's fast paths and the reflective path agree *)
Lemma wlist_bytes l : typed_list (TBasic BU8) l = true -> wlist (TBasic BU8) l = OOk (map byte_of l) /\ map VN (map byte_of l) = l.
Proof.
  induction l as [|x r IH]; [split; reflexivity|]. rewrite typed_list_cons. intros H. apply andb_prop in H as [H1 H2].
  destruct (IH H2) as [E1 E2]. rewrite wlist_cons. destruct x; try discriminate H1.
  cbn [has_typeb basic_ok] in H1. apply in_u_lt in H1. change (2 ^ 8) with 256 in H1.
  cbn [wrefl wprim obind]. rewrite E1. cbn [obind map byte_of]. rewrite E2. split; [|reflexivity].
  unfold put_u8. cbn [be app]. rewrite N.mod_small by exact H1. reflexivity.
Qed.
Lemma norm_list_bytes l : typed_list (TBasic BU8) l = true -> norm_list (TBasic BU8) l = l.
Proof.
  induction l as [|x r IH]; [reflexivity|]. rewrite typed_list_cons, norm_list_cons. intros H. apply andb_prop in H as [H1 H2].
  rewrite IH by exact H2. destruct x; try discriminate H1. reflexivity.
Qed.

Lemma fields_rt tot fs : Forall (fun p => supported (snd p) = true -> RT (snd p)) fs -> supported_fields fs = true -> forall l,
  typed_fields fs l = true -> fits_fields fs l = true ->
  exists b, wfields fs l = OOk b
            /\ (if wire0_fields fs then b = [] /\ norm_fields fs l = zero_fields fs /\ cnt_fields fs l = 0
                else cnt_fields fs l + 1 <= N.of_nat (length b))
            /\ cnt_fields fs l <= N.of_nat (length b)
            /\ forall rest el, el + cnt_fields fs l <= tot ->
                 fst (rfields tot fs (b ++ rest, el)) = OOk (norm_fields fs l, (rest, el + cnt_fields fs l)).
Proof.
  induction 1 as [|[ex t] fr Hx Hr IH]; intros Hs l Ht Hf.
  - destruct l; [|discriminate Ht]. exists []. cbn [wfields wire0_fields norm_fields zero_fields cnt_fields length].
    repeat split; try reflexivity; try lia. intros rest el _. rewrite rfields_nil, N.add_0_r. reflexivity.
  - destruct l as [|x r]; [discriminate Ht|].
    cbn [typed_fields] in Ht. cbn [fits_fields] in Hf. cbn [supported_fields] in Hs. cbn [snd] in Hx.
    apply andb_prop in Ht as [Ht1 Ht2]. apply andb_prop in Hf as [Hf1 Hf2]. apply andb_prop in Hs as [Hs1 Hs2].
    destruct (IH Hs2 r Ht2 Hf2) as (br & Hwr & Hw0 & Hcb & Hrr).
    cbn [wfields norm_fields zero_fields wire0_fields cnt_fields]. destruct ex; cbn [negb orb andb] in *.
    + destruct (Hx Hs1 x Ht1 Hf1) as (bx & Hwx & Hx0 & Hrx).
      exists (bx ++ br). rewrite Hwx. cbn [obind]. rewrite Hwr. cbn [obind]. split; [reflexivity|]. rewrite app_length.
      assert (Hcx : cnt t x <= N.of_nat (length bx)) by (destruct (wire0 t); [destruct Hx0 as (_ & _ & ->); lia|lia]).
      split; [|split; [lia|]].
      * destruct (wire0 t) eqn:W; cbn [andb].
        -- destruct Hx0 as (-> & Hz & Hc). cbn [app length]. destruct (wire0_fields fr).
           ++ destruct Hw0 as (-> & Hz' & Hc'). rewrite Hz, Hz', Hc, Hc'. auto.
           ++ lia.
        -- lia.
      * intros rest el Hb. rewrite rfields_cons, fst_bindM, <- app_assoc, Hrx by lia. rewrite fst_bindM. cbn [fst snd].
        rewrite Hrr by lia. cbn [ret fst snd]. replace (el + cnt t x + cnt_fields fr r) with (el + (cnt t x + cnt_fields fr r)) by lia. reflexivity.
    + exists br. split; [exact Hwr|]. split; [|split; [lia|]].
      * destruct (wire0_fields fr); [destruct Hw0 as (-> & Hz' & Hc'); rewrite Hz', Hc'; auto|lia].
      * intros rest el Hb. rewrite rfields_cons, fst_bindM, Hrr by lia. cbn [ret fst snd]. rewrite N.add_0_l. reflexivity.
Qed.

Lemma be4_nonempty n b : put_u32 n ++ b <> [].
Proof. intros H. apply app_eq_nil in H as [H _]. apply (f_equal (@length N)) in H. unfold put_u32 in H. rewrite be_length in H. discriminate H. Qed.
Lemma be4_app_length n b : length (put_u32 n ++ b) = (4 + length b)%nat.
Proof. rewrite app_length. unfold put_u32. rewrite be_length. reflexivity. Qed.

Lemma repeat_to_nat {A} (x : A) k : repeat x (N.to_nat (N.of_nat k)) = repeat x k.
Proof. rewrite Nat2N.id. reflexivity. Qed.

(** the continuation of the slice/array case after the length prefix (and the slice's checks) *)
Lemma elems_cont tot e l : RT e -> typed_list e l = true -> fits_list e l = true ->
  exists b, wlist e l = OOk b /\ (wire0 e = false -> N.of_nat (length l) + cnt_list e l <= N.of_nat (length b)) /\
    (wire0 e = true -> cnt_list e l = 0) /\
    forall rest el, el + cnt_list e l <= tot ->
      fst (if wire0 e then (OOk (VList (repeat (zero e) (N.to_nat (N.of_nat (length l)))), (b ++ rest, el)), (0, N.of_nat (length l)))
           else bindM (rd_elems (read tot e) (S (length (b ++ rest))) (N.of_nat (length l)) (b ++ rest, el)) (fun q => ret (VList (fst q), snd q)))
      = OOk (VList (norm_list e l), (rest, el + cnt_list e l)).
Proof.
  intros He Ht Hf. destruct (wire0 e) eqn:W.
  - destruct (elems_wire0 e He W l Ht Hf) as (Hw & Hn & Hc). exists []. split; [exact Hw|]. split; [discriminate|]. split; [auto|].
    intros rest el _. cbn [fst app]. rewrite repeat_to_nat, Hn, Hc, N.add_0_r. reflexivity.
  - destruct (elems_rt tot e He W l Ht Hf) as (b & Hw & Hl & Hr). exists b. split; [exact Hw|]. split; [auto|]. split; [discriminate|].
    intros rest el Hb. rewrite fst_bindM, Hr by (try rewrite app_length; lia). reflexivity.
Qed.

Theorem roundtrip_refl ty : supported ty = true -> RT ty.
Proof.
  induction ty as [b|b| | |nm e IH|n e IH|fs IH|e IH| | | |] using goty_ind'; intros Hs; try discriminate Hs.
  - intros v Ht Hf. destruct (prim_rt b v [] (has_type_basic _ _ Ht) Hf) as (bs & Hw & Hne & _).
    exists bs. split; [destruct v; try discriminate Ht; exact Hw|]. cbn [wire0].
    assert (Hc : cnt (TBasic b) v = 0) by (destruct v; reflexivity). rewrite Hc.
    split; [destruct bs; [contradiction|cbn [length]; lia]|].
    intros tot rest el _. destruct (prim_rt b v rest (has_type_basic _ _ Ht) Hf) as (bs' & Hw' & _ & Hr').
    rewrite Hw in Hw'. injection Hw' as <-. cbn [read fst snd]. rewrite fst_with_el, Hr'. cbn [fst snd]. rewrite N.add_0_r.
    destruct v; try discriminate Ht; reflexivity.
  - (* slice *)
    cbn [supported] in Hs. specialize (IH Hs). intros v Ht Hf. cbn [wire0].
    destruct v; try discriminate Ht.
    + (* nil slice: written as length 0, read back as an empty slice *)
      exists (put_u32 0). split; [reflexivity|]. split; [cbn; lia|].
      intros tot rest el Hb. cbn [read norm cnt fst snd]. rewrite N.add_0_r.
      destruct (negb nm && match e with TBasic BU8 => true | _ => false end).
      * rewrite fst_with_el, fst_bindM, fst_liftR. change (put_u32 0 ++ rest) with (put_lp4 [] ++ rest). rewrite rd_lp4_put by (cbn; lia). reflexivity.
      * destruct (elems_cont tot e [] IH eq_refl eq_refl) as (b & Hw & _ & _ & Hr).
        rewrite wlist_nil in Hw. injection Hw as <-.
        rewrite fst_bindM, fst_liftR, rd_u32_put by lia. cbn [of_res fst snd].
        replace (N.of_nat (length rest) <? 0) with false by lia. replace (tot <? el + 0) with false by (cbn [cnt] in Hb; lia).
        rewrite fst_tick. refine (eq_trans (Hr rest (el + 0) _) _); [cbn [cnt cnt_list] in *; lia|].
        change (norm_list e []) with (@nil goval). change (cnt_list e []) with 0. rewrite !N.add_0_r. reflexivity.
    + rewrite has_type_slice in Ht. rewrite fits_slice in Hf. apply andb_prop in Hf as [Hlen Hf]. apply andb_prop in Hlen as [Hlen Hw0]. apply N.ltb_lt in Hlen.
      rewrite (wrefl_list_eq (TSlice nm e) e) by (destruct nm; auto). rewrite norm_slice, cnt_slice.
      destruct (negb nm && match e with TBasic BU8 => true | _ => false end) eqn:Fast.
      * pose proof Fast as Fast'. apply andb_prop in Fast' as [_ Fe].
        destruct e as [b| | | | | | | | | | |]; try discriminate Fe. destruct b; try discriminate Fe.
        destruct (wlist_bytes l Ht) as [Hw Hm]. rewrite Hw. cbn [obind]. eexists. split; [reflexivity|].
        split; [rewrite be4_app_length; lia|].
        intros tot rest el _. cbn [read fst snd]. rewrite Fast. rewrite fst_with_el, fst_bindM, fst_liftR.
        replace (length l) with (length (map byte_of l)) by apply map_length.
        change (put_u32 (N.of_nat (length (map byte_of l))) ++ map byte_of l) with (put_lp4 (map byte_of l)).
        rewrite rd_lp4_put by (rewrite map_length; exact Hlen). cbn [of_res fst snd]. rewrite fst_tick. cbn [ret fst snd].
        rewrite Hm, norm_list_bytes, N.add_0_r by exact Ht. reflexivity.
      * destruct (elems_cont 0 e l IH Ht Hf) as (b & Hw & Hlb & Hc0 & _). rewrite Hw. cbn [obind]. eexists. split; [reflexivity|].
        assert (Hcnt : N.of_nat (length l) + cnt_list e l <= N.of_nat (length b)).
        { destruct (wire0 e); cbn [negb orb] in Hw0; [apply N.eqb_eq in Hw0; rewrite (Hc0 eq_refl); lia|apply Hlb; reflexivity]. }
        split; [rewrite be4_app_length; lia|]. intros tot rest el Hb. cbn [read fst snd]. rewrite Fast.
        destruct (elems_cont tot e l IH Ht Hf) as (b' & Hw' & _ & _ & Hr). rewrite Hw in Hw'. injection Hw' as <-.
        rewrite fst_bindM, fst_liftR, <- app_assoc, rd_u32_put by exact Hlen. cbn [of_res fst snd].
        replace (N.of_nat (length (b ++ rest)) <? N.of_nat (length l)) with false by (rewrite app_length; lia).
        replace (tot <? el + N.of_nat (length l)) with false by lia.
        rewrite fst_tick, Hr by lia. rewrite N.add_assoc. reflexivity.
  - (* array *)
    cbn [supported] in Hs. apply andb_prop in Hs as [Hn Hs]. apply N.ltb_lt in Hn. specialize (IH Hs). intros v Ht Hf. cbn [wire0].
    destruct v; try discriminate Ht.
    rewrite has_type_array in Ht. apply andb_prop in Ht as [Hlen Ht]. apply N.eqb_eq in Hlen. rewrite fits_array in Hf.
    rewrite (wrefl_list_eq (TArray n e) e) by eauto. rewrite norm_array, cnt_array.
    destruct (elems_cont 0 e l IH Ht Hf) as (b & Hw & Hlb & Hc0 & _). rewrite Hw. cbn [obind]. eexists. split; [reflexivity|].
    assert (Hcnt : cnt_list e l <= N.of_nat (length b)).
    { destruct (wire0 e); [rewrite (Hc0 eq_refl); lia|specialize (Hlb eq_refl); lia]. }
    split; [rewrite be4_app_length; lia|]. intros tot rest el Hb. cbn [read fst snd].
    destruct (elems_cont tot e l IH Ht Hf) as (b' & Hw' & _ & _ & Hr). rewrite Hw in Hw'. injection Hw' as <-.
    rewrite fst_tick, fst_bindM, fst_liftR, <- app_assoc, rd_u32_put by lia. cbn [of_res fst snd].
    rewrite Hlen, N.eqb_refl. cbn [negb]. rewrite <- Hlen. exact (Hr rest el Hb).
  - (* struct *)
    rewrite supported_struct in Hs. intros v Ht Hf. destruct v; try discriminate Ht.
    rewrite has_type_struct in Ht. rewrite fits_struct in Hf.
    destruct (fields_rt 0 fs IH Hs l Ht Hf) as (b & Hw & H0 & _ & _). exists b.
    rewrite wrefl_struct_eq, wire0_struct, norm_struct, zero_struct, cnt_struct. split; [exact Hw|]. split.
    + destruct (wire0_fields fs); [destruct H0 as (-> & -> & ->); auto|exact H0].
    + intros tot rest el Hb. destruct (fields_rt tot fs IH Hs l Ht Hf) as (b' & Hw' & _ & _ & Hr).
      rewrite Hw in Hw'. injection Hw' as <-. rewrite read_struct_eq, fst_tick, fst_bindM, Hr by exact Hb. reflexivity.
Qed.

(** the type switch of Write and writeReflect produce the same bytes on supported types *)
Lemma write_eq_wrefl ty v : supported ty = true -> has_typeb ty v = true -> write ty v = wrefl ty v.
Proof.
  intros Hs Ht. destruct ty as [b| | | |nm e| | | | | | |]; try discriminate Hs; try reflexivity.
  - cbn [write]. destruct v; try discriminate Ht; reflexivity.
  - cbn [write]. destruct nm; [reflexivity|]. destruct e as [b| | | | | | | | | | |]; try reflexivity. destruct b; try reflexivity.
    destruct v; try discriminate Ht; [reflexivity|].
    rewrite has_type_slice in Ht. rewrite (wrefl_list_eq (TSlice false (TBasic BU8)) (TBasic BU8)) by auto.
    destruct (wlist_bytes l Ht) as [-> _]. cbn [obind]. unfold put_lp4. rewrite map_length. reflexivity.
Qed.

(** a Reader in any state whose element budget still covers the value *)
Theorem roundtrip_state ty v : supported ty = true -> has_typeb ty v = true -> fits ty v = true ->
  exists b, write ty v = OOk b /\ cnt ty v <= N.of_nat (length b) /\
            forall tot rest el, el + cnt ty v <= tot -> fst (read tot ty (b ++ rest, el)) = OOk (norm ty v, (rest, el + cnt ty v)).
Proof.
  intros Hs Ht Hf. destruct (roundtrip_refl ty Hs v Ht Hf) as (b & Hw & H0 & Hr).
  exists b. rewrite write_eq_wrefl by assumption. split; [exact Hw|]. split; [|exact Hr].
  destruct (wire0 ty); [destruct H0 as (_ & _ & ->); lia|lia].
Qed.
(** a fresh Reader over the writer's bytes followed by anything *)
Theorem roundtrip ty v : supported ty = true -> has_typeb ty v = true -> fits ty v = true ->
  exists b, write ty v = OOk b /\ forall rest, fst (read0 ty (b ++ rest)) = OOk (norm ty v, (rest, cnt ty v)).
Proof.
  intros Hs Ht Hf. destruct (roundtrip_state ty v Hs Ht Hf) as (b & Hw & Hc & Hr). exists b. split; [exact Hw|].
  intros rest. unfold read0, fresh. rewrite Hr by (rewrite app_length; lia). rewrite N.add_0_l. reflexivity.
Qed.

(** WriteFrom(a...) / ReadInto(&a...) on one Reader *)
Definition supported_all (l : list (goty * goval)) : bool :=
  forallb (fun p => supported (fst p) && has_typeb (fst p) (snd p) && fits (fst p) (snd p)) l.
Fixpoint cnt_all (l : list (goty * goval)) : N := match l with [] => 0 | p :: r => cnt (fst p) (snd p) + cnt_all r end.
Lemma roundtrip_list_state l : supported_all l = true ->
  exists b, write_from l = OOk b /\ cnt_all l <= N.of_nat (length b) /\
            forall tot rest el, el + cnt_all l <= tot ->
              fst (read_into tot (map fst l) (b ++ rest, el)) = OOk (map (fun p => norm (fst p) (snd p)) l, (rest, el + cnt_all l)).
Proof.
  induction l as [|[t v] r IH]; cbn [supported_all forallb]; intros H.
  - exists []. split; [reflexivity|]. split; [cbn; lia|]. intros tot rest el _. cbn [cnt_all]. rewrite N.add_0_r. reflexivity.
  - apply andb_prop in H as [H Hr]. apply andb_prop in H as [H Hf]. apply andb_prop in H as [Hs Ht]. cbn [fst snd] in *.
    destruct (roundtrip_state t v Hs Ht Hf) as (b1 & Hw1 & Hc1 & Hr1). destruct (IH Hr) as (b2 & Hw2 & Hc2 & Hr2).
    exists (b1 ++ b2). cbn [write_from map fst snd cnt_all]. rewrite Hw1. cbn [obind]. rewrite Hw2. cbn [obind]. split; [reflexivity|].
    split; [rewrite app_length; lia|].
    intros tot rest el Hb. cbn [read_into]. rewrite fst_bindM, <- app_assoc, Hr1 by lia. rewrite fst_bindM. cbn [fst snd].
    rewrite Hr2 by lia. cbn [ret fst snd]. rewrite N.add_assoc. reflexivity.
Qed.
Theorem roundtrip_list l : supported_all l = true ->
  exists b, write_from l = OOk b /\
            forall rest, fst (read_into0 (map fst l) (b ++ rest)) = OOk (map (fun p => norm (fst p) (snd p)) l, (rest, cnt_all l)).
Proof.
  intros H. destruct (roundtrip_list_state l H) as (b & Hw & Hc & Hr). exists b. split; [exact Hw|].
  intros rest. unfold read_into0, fresh. rewrite Hr by (rewrite app_length; lia). rewrite N.add_0_l. reflexivity.
Qed.

(** when the decoded value is the value itself: no nil slice, no unexported field *)
Fixpoint canonical (ty : goty) (v : goval) {struct v} : bool :=
  match v with
  | VNil => false
  | VList l =>
      match ty with
      | TSlice _ e | TArray _ e => (fix all (l : list goval) : bool := match l with [] => true | x :: r => canonical e x && all r end) l
      | _ => true
      end
  | VStruct l =>
      match ty with
      | TStruct fs =>
          (fix all (fs : list (bool * goty)) (l : list goval) {struct l} : bool :=
             match fs, l with
             | [], [] => true
             | (ex, t) :: fr, x :: r => ex && canonical t x && all fr r
             | _, _ => false
             end) fs l
      | _ => true
      end
  | _ => true
  end.
Definition canonical_list (e : goty) : list goval -> bool :=
  fix all (l : list goval) : bool := match l with [] => true | x :: r => canonical e x && all r end.
Fixpoint canonical_fields (fs : list (bool * goty)) (l : list goval) {struct l} : bool :=
  match fs, l with
  | [], [] => true
  | (ex, t) :: fr, x :: r => ex && canonical t x && canonical_fields fr r
  | _, _ => false
  end.
Lemma norm_canonical v : forall ty, canonical ty v = true -> norm ty v = v.
Proof.
  induction v as [n|z|b|s| |l IH|l IH|x IH|t x IH| ] using goval_ind'; intros ty Hc; try reflexivity; try discriminate Hc.
  - assert (G : forall e, canonical_list e l = true -> norm_list e l = l).
    { clear Hc. intros e. induction IH as [|x r Hx Hr IH2]; [reflexivity|]. intros H.
      change (canonical_list e (x :: r)) with (canonical e x && canonical_list e r) in H. apply andb_prop in H as [H1 H2].
      rewrite norm_list_cons. f_equal; [apply Hx; exact H1|apply IH2; exact H2]. }
    destruct ty as [| | | |nm e|n e| | | | | |]; try reflexivity.
    + rewrite norm_slice. f_equal. apply G. exact Hc.
    + rewrite norm_array. f_equal. apply G. exact Hc.
  - destruct ty as [| | | | | |fs| | | | |]; try reflexivity.
    rewrite norm_struct. f_equal. change (canonical_fields fs l = true) in Hc. revert fs Hc.
    induction IH as [|x r Hx Hr IH2]; intros fs Hc; destruct fs as [|[ex t] fr]; try discriminate Hc; [reflexivity|].
    cbn [canonical_fields] in Hc. apply andb_prop in Hc as [Hc H3]. apply andb_prop in Hc as [H1 H2]. subst ex.
    cbn [norm_fields]. f_equal; [apply Hx; exact H2|apply IH2; exact H3].
Qed.

(** * values excluded from the round trip *)
Lemma be_mod k n : be k (n mod 256 ^ N.of_nat k) = be k n.
Proof.
  revert n. induction k as [|k IH]; intros n; cbn [be]; [reflexivity|].
  assert (Hp : 256 ^ N.of_nat (S k) = 256 * 256 ^ N.of_nat k) by (rewrite Nat2N.inj_succ, N.pow_succ_r'; reflexivity).
  rewrite Hp. assert (0 < 256 ^ N.of_nat k) by (apply N.neq_0_lt_0, N.pow_nonzero; lia).
  set (P := 256 ^ N.of_nat k) in *.
  assert (Ha : n mod 256 < 256) by (apply N.mod_lt; lia).
  assert (E1 : n mod (256 * P) / 256 = (n / 256) mod P).
  { rewrite N.mod_mul_r by lia. symmetry. apply N.div_unique with (n mod 256); lia. }
  assert (E2 : (n mod (256 * P)) mod 256 = n mod 256).
  { rewrite N.mod_mul_r by lia. symmetry. apply N.mod_unique with ((n / 256) mod P); lia. }
  rewrite E1, E2, IH. reflexivity.
Qed.
Lemma put_u32_mod n : put_u32 (n mod 4294967296) = put_u32 n.
Proof. exact (be_mod 4 n). Qed.

(** slices and arrays: the length prefix is uint32(len): 2^32 or more elements are announced modulo 2^32 *)
Lemma wrefl_length_wraps nm e l :
  wrefl (TSlice nm e) (VList l) = obind (wlist e l) (fun b => OOk (put_u32 (N.of_nat (length l) mod 4294967296) ++ b)).
Proof. rewrite (wrefl_list_eq (TSlice nm e) e) by (destruct nm; auto). rewrite put_u32_mod. reflexivity. Qed.

(** strings (and []byte) of 2^32 bytes or more never read back *)
Lemma string_too_long s rest : 4294967296 <= N.of_nat (length s) -> rd_string (put_string s ++ rest) <> Ok (s, rest).
Proof.
  intros Hl H. unfold rd_string, put_string in H. rewrite put_lp4_wraps in H. unfold rd_lp4 in H.
  rewrite <- app_assoc, rd_u32_put in H by (apply N.mod_lt; lia). cbn [bind] in H.
  apply take_N_suffix in H as [_ H]. assert (N.of_nat (length s) mod 4294967296 < 4294967296) by (apply N.mod_lt; lia). lia.
Qed.

(** an array type of 2^32 or more elements can be written but never read *)
Lemma unbe_acc_lt bs : forall acc, wf_bytes bs = true -> unbe_acc acc bs < (acc + 1) * 256 ^ N.of_nat (length bs).
Proof.
  induction bs as [|b r IH]; intros acc Hwf; cbn [unbe_acc length].
  - change (256 ^ N.of_nat 0) with 1. lia.
  - cbn [wf_bytes forallb] in Hwf. apply andb_prop in Hwf as [Hb Hwf]. unfold wf_byte in Hb.
    specialize (IH (acc * 256 + b) Hwf).
    assert (Hp : 256 ^ N.of_nat (S (length r)) = 256 * 256 ^ N.of_nat (length r)) by (rewrite Nat2N.inj_succ, N.pow_succ_r'; reflexivity).
    rewrite Hp. assert (0 < 256 ^ N.of_nat (length r)) by (apply N.neq_0_lt_0, N.pow_nonzero; lia). nia.
Qed.
Lemma wf_bytes_firstn k bs : wf_bytes bs = true -> wf_bytes (firstn k bs) = true.
Proof.
  revert k; induction bs as [|b r IH]; intros k H; destruct k; try reflexivity.
  cbn [firstn wf_bytes forallb] in *. apply andb_prop in H as [H1 H2]. rewrite H1. cbn [andb]. apply IH. exact H2.
Qed.
Lemma rd_u32_lt bs m t : wf_bytes bs = true -> rd_u32 bs = Ok (m, t) -> m < 4294967296.
Proof.
  intros Hwf H. unfold rd_u32, rd_uint, take_n in H. destruct (Nat.leb_spec 4 (length bs)); [|discriminate H].
  cbn [bind] in H. injection H as <- _. unfold unbe.
  pose proof (unbe_acc_lt (firstn 4 bs) 0 (wf_bytes_firstn 4 bs Hwf)) as G.
  rewrite firstn_length_le in G by assumption. change (256 ^ N.of_nat 4) with 4294967296 in G.
  change (unbe_acc 0 (firstn 4 bs) < 4294967296). lia.
Qed.
Lemma array_too_long tot n e st : 4294967296 <= n -> wf_bytes (fst st) = true -> forall v r, fst (read tot (TArray n e) st) <> OOk (v, r).
Proof.
  intros Hn Hwf v r. cbn [read]. rewrite fst_tick, fst_bindM, fst_liftR.
  destruct (rd_u32 (fst st)) as [[m t]|e'] eqn:E; cbn [of_res]; [|discriminate].
  apply rd_u32_lt in E; [|exact Hwf]. cbn [fst snd]. replace (m =? n) with false by lia. discriminate.
Qed.

(** * C13 (b): allocation and work *)
(** what a Reader state can still pay with: remaining input bytes + remaining element budget *)
Definition res (tot : N) (st : rst) : N := N.of_nat (length (fst st)) + (tot - snd st).
Definition remS {A} (tot : N) (o : out (A * rst)) : N := match o with OOk (_, st) => res tot st | _ => 0 end.
(** bytes requested from the allocator + loop iterations *)
Definition work {A} (m : M A) : N := fst (snd m) + snd (snd m).
(** "work + a * (what remains) <= a * (what was available) + K" *)
Definition cw {A} (tot : N) (m : M (A * rst)) (a L K : N) : Prop :=
  work m + a * remS tot (fst m) <= a * L + K /\ remS tot (fst m) <= L.

Lemma cw_weaken {A} tot (m : M (A * rst)) a L K a' K' : cw tot m a L K -> a <= a' -> K <= K' -> cw tot m a' L K'.
Proof.
  unfold cw. intros [H1 H2] Ha HK. split; [|exact H2].
  replace a' with (a + (a' - a)) by lia. set (d := a' - a).
  assert (d * remS tot (fst m) <= d * L) by (apply N.mul_le_mono_l; exact H2). nia.
Qed.
Lemma work_bindM {A B} (m : M A) (f : A -> M B) :
  work (bindM m f) = match fst m with OOk a => work m + work (f a) | _ => work m end.
Proof. unfold work. rewrite snd_bindM. destruct (fst m); try reflexivity. unfold cadd. cbn [fst snd]. lia. Qed.
Lemma work_tick {A} c (m : M A) : work (tick c m) = fst c + snd c + work m.
Proof. unfold work. rewrite snd_tick. unfold cadd. cbn [fst snd]. lia. Qed.

Lemma cw_bind {A B} tot (m : M (A * rst)) (f : A * rst -> M (B * rst)) a L K1 K2 :
  cw tot m a L K1 -> (forall x st, fst m = OOk (x, st) -> cw tot (f (x, st)) a (res tot st) K2) ->
  cw tot (bindM m f) a L (K1 + K2).
Proof.
  unfold cw. intros [H1 H2] Hf. rewrite fst_bindM, work_bindM.
  destruct (fst m) as [[x st]| | | |] eqn:E; cbn [remS] in *; try lia.
  destruct (Hf x st eq_refl) as [G1 G2]. split; lia.
Qed.
Lemma cw_tick {A} tot (m : M (A * rst)) c a L K : cw tot m a L K -> cw tot (tick c m) a L (fst c + snd c + K).
Proof. unfold cw. rewrite fst_tick, work_tick. lia. Qed.
Lemma cw_ret {A} tot (x : A) st a L K : res tot st <= L -> cw tot (ret (x, st)) a L K.
Proof. unfold cw, work, ret. cbn [fst snd remS]. nia. Qed.
Lemma cw_fail {A} tot e a L K : cw tot (@failM (A * rst) e) a L K.
Proof. unfold cw, work, failM. cbn [fst snd remS]. lia. Qed.

(** byte-level readers lifted to the state *)
Definition remB {A} (o : out (A * bytes)) : N := match o with OOk (_, r) => N.of_nat (length r) | _ => 0 end.
Lemma cw_with_el {A} tot el (m : M (A * bytes)) a bs K :
  work m + a * remB (fst m) <= a * N.of_nat (length bs) + K -> remB (fst m) <= N.of_nat (length bs) ->
  cw tot (with_el el m) a (res tot (bs, el)) K.
Proof.
  intros H1 H2. unfold cw, with_el, res. rewrite fst_bindM, work_bindM. cbn [fst snd].
  destruct (fst m) as [[x r]| | | |]; cbn [remB remS ret fst snd] in *; unfold work, ret, res in *; cbn [fst snd] in *; nia.
Qed.

Lemma cwb_rprim b bs : work (rprim b bs) + 2 * remB (fst (rprim b bs)) <= 2 * N.of_nat (length bs) + 0
                       /\ remB (fst (rprim b bs)) <= N.of_nat (length bs).
Proof.
  destruct b; unfold rprim, rd_u8, rd_u16, rd_u32, rd_u64, rd_f32, rd_f64, rd_u32, rd_u64, rd_i8, rd_i16, rd_i32, rd_i64, rd_bool, rd_u8, rd_u16, rd_u32, rd_u64.
  1-11: unfold work, liftR; cbn [fst snd];
        match goal with |- context [rd_uint ?k ?x] => destruct (rd_uint k x) as [[n t]|e] eqn:E end; cbn [bind of_res remB]; try lia;
        destruct (rd_uint_suffix _ _ _ _ E) as (h & -> & _); rewrite app_length; lia.
  rewrite fst_bindM, work_bindM, fst_liftR. unfold rd_string.
  destruct (rd_lp4_good bs) as [(s & r & h & -> & -> & Hl & Hs)|[e ->]]; cbn [of_res remB]; unfold work, liftR, ret, tick, cadd; cbn [fst snd remB]; [|lia].
  rewrite !app_length. lia.
Qed.

Lemma cw_u32_bind {B} tot bs el (f : N * bytes -> M (B * rst)) a K :
  (forall n t, rd_u32 bs = Ok (n, t) -> cw tot (f (n, t)) a (res tot (t, el)) K) ->
  cw tot (bindM (liftR (rd_u32 bs)) f) a (res tot (bs, el)) K.
Proof.
  intros Hf. unfold cw. rewrite fst_bindM, work_bindM, fst_liftR.
  destruct (rd_u32 bs) as [[n t]|e] eqn:E; cbn [of_res]; [|unfold work, liftR; cbn [fst snd remS of_res]; lia].
  destruct (Hf n t eq_refl) as [G1 G2].
  assert (Hl : res tot (t, el) <= res tot (bs, el)).
  { unfold rd_u32 in E. destruct (rd_uint_suffix _ _ _ _ E) as (h & -> & _). unfold res. cbn [fst snd]. rewrite app_length. lia. }
  unfold work at 1. unfold liftR. cbn [fst snd]. split; [nia|lia].
Qed.

(** the element loop: each element costs at most [a] per unit of resource it uses up plus [K], and uses up at
    least one unit when it succeeds; so the whole loop costs at most [a + K + 1] per unit, whatever [n] is *)
Lemma cw_elems tot rd a K : rd_good true rd -> (forall st, cw tot (rd st) a (res tot st) K) ->
  forall fuel n st, cw tot (rd_elems rd fuel n st) (a + K + 1) (res tot st) K.
Proof.
  intros Hg Hrd. induction fuel as [|f IH]; intros n st; cbn [rd_elems]; destruct (N.eqb_spec n 0) as [->|Hn].
  - apply cw_ret; lia.
  - unfold cw, work; cbn [fst snd remS]; lia.
  - apply cw_ret; lia.
  - specialize (Hrd st). destruct Hrd as [H1 H2].
    destruct (fst (rd st)) as [[v st1]| | | |] eqn:E.
    2-5: unfold cw; rewrite fst_bindM, work_bindM, E; cbn [remS] in *; nia.
    cbn [remS] in H1, H2.
    assert (Hprog : res tot st1 + 1 <= res tot st).
    { destruct (Hg st) as [(v' & st' & h & E' & Eb & Hh & Hel)|[e E']]; [|rewrite E in E'; discriminate].
      rewrite E in E'. injection E' as <- <-. unfold res. rewrite Eb, app_length.
      destruct h; [exfalso; apply Hh; reflexivity|cbn [length]; lia]. }
    destruct (IH (n - 1) st1) as [G1 G2].
    unfold cw. rewrite fst_bindM, work_bindM, E. cbn [fst snd]. rewrite fst_tick, work_tick, fst_bindM, work_bindM.
    destruct (fst (rd_elems rd f (n - 1) st1)) as [[vs st2]| | | |] eqn:E2; cbn [remS fst snd] in *;
      unfold work, ret in *; cbn [fst snd remS] in *; nia.
Qed.

(** constants: [kA] per unit of resource, [kK] fixed by the type *)
Lemma cw_fields tot fs :
  Forall (fun p => forall st, cw tot (read tot (snd p) st) (kA (snd p)) (res tot st) (kK (snd p))) fs ->
  forall st, cw tot (rfields tot fs st) (kA_fields fs) (res tot st) (kK_fields fs).
Proof.
  induction 1 as [|[ex t] r Hx Hr IH]; intros st.
  - rewrite rfields_nil. apply cw_ret. lia.
  - rewrite rfields_cons. cbn [kK_fields kA_fields]. cbn [snd] in Hx. destruct ex.
    + replace (kK t + kK_fields r) with (kK t + (kK_fields r + 0)) by lia.
      apply cw_bind; [eapply cw_weaken; [apply Hx|lia|lia]|]. intros x st1 _.
      apply cw_bind; [eapply cw_weaken; [apply IH|lia|lia]|]. intros q st2 _. cbn [fst snd]. apply cw_ret. lia.
    + replace (0 + kK_fields r) with (kK_fields r + 0) by lia.
      apply cw_bind; [eapply cw_weaken; [apply IH|lia|lia]|]. intros q st2 _. cbn [fst snd]. apply cw_ret. lia.
Qed.

(** the slice case after its two checks: the n elements were charged to the element budget, which pays for
    MakeSlice and, for elements without wire bytes, for the n iterations *)
Lemma cw_slice_body tot rd a K n sz t el : rd_good true rd -> (forall st, cw tot (rd st) a (res tot st) K) -> el + n <= tot ->
  cw tot (tick (n * sz, 0) (bindM (rd_elems rd (S (length t)) n (t, el + n)) (fun q => ret (VList (fst q), snd q))))
     (sz + (a + K + 1)) (res tot (t, el)) K.
Proof.
  intros Hg Hrd Hb. destruct (cw_elems tot rd a K Hg Hrd (S (length t)) n (t, el + n)) as [G1 G2].
  assert (HR : res tot (t, el + n) + n = res tot (t, el)) by (unfold res; cbn [fst snd]; lia).
  unfold cw. rewrite fst_tick, work_tick, fst_bindM, work_bindM. cbn [fst snd].
  destruct (fst (rd_elems rd (S (length t)) n (t, el + n))) as [[vs st']| | | |] eqn:E; cbn [remS fst snd ret] in *;
    unfold work, ret in *; cbn [fst snd remS] in *; nia.
Qed.

Theorem cost_linear tot ty : forall st, cw tot (read tot ty st) (kA ty) (res tot st) (kK ty).
Proof.
  induction ty as [b|b| | |nm e IH|n e IH|fs IH|e IH| | | |] using goty_ind'; intros [bs el];
    try (apply cw_fail).
  - cbn [read fst snd kA kK]. destruct (cwb_rprim b bs). apply cw_with_el; assumption.
  - (* slice *)
    cbn [read kA kK fst snd].
    destruct (negb nm && match e with TBasic BU8 => true | _ => false end).
    + eapply cw_weaken; [apply (cw_with_el tot el _ 2 bs 0)| lia | lia].
      * rewrite fst_bindM, work_bindM, fst_liftR.
        destruct (rd_lp4_good bs) as [(s & r & h & -> & -> & Hl & Hsl)|[e' ->]]; cbn [of_res remB]; unfold work, liftR, ret, tick, cadd; cbn [fst snd remB]; [|lia].
        rewrite !app_length. lia.
      * rewrite fst_bindM, fst_liftR.
        destruct (rd_lp4_good bs) as [(s & r & h & -> & -> & Hl & Hsl)|[e' ->]]; cbn [of_res remB]; [|lia].
        rewrite fst_tick. cbn [ret fst snd remB]. rewrite app_length. lia.
    + apply cw_u32_bind. intros n t _. cbn [fst snd].
      destruct (N.ltb_spec (N.of_nat (length t)) n); [apply cw_fail|].
      destruct (N.ltb_spec tot (el + n)); [apply cw_fail|].
      destruct (wire0 e) eqn:W.
      * unfold cw. rewrite fst_tick, work_tick. unfold work, res. cbn [fst snd remS]. unfold res. cbn [fst snd]. nia.
      * eapply cw_weaken; [apply (cw_slice_body tot (read tot e) (kA e) (kK e) n (tsize e) t el)|lia|lia]; auto.
        pose proof (read_good tot e) as G. rewrite W in G. exact G.
  - (* array *)
    cbn [read kA kK fst snd].
    replace (n * tsize e + n + kK e + 1) with (n * tsize e + 0 + (n + kK e + 1)) by lia.
    apply (cw_tick tot _ (n * tsize e, 0)). apply cw_u32_bind. intros m t _. cbn [fst snd].
    destruct (negb (m =? n)); [apply cw_fail|].
    destruct (wire0 e) eqn:W.
    + unfold cw, work, res. cbn [fst snd remS]. unfold res. cbn [fst snd]. nia.
    + replace (n + kK e + 1) with (kK e + (n + 1)) by lia.
      apply cw_bind.
      * pose proof (read_good tot e) as G. rewrite W in G. apply (cw_elems tot (read tot e) (kA e) (kK e) G IH).
      * intros vs st' _. cbn [fst snd]. apply cw_ret. lia.
  - (* struct *)
    rewrite read_struct_eq, kK_struct, kA_struct, tsize_struct.
    replace (tsize_fields fs + kK_fields fs) with (tsize_fields fs + 0 + (kK_fields fs + 0)) by lia.
    apply (cw_tick tot _ (tsize_fields fs, 0)). apply cw_bind; [apply cw_fields; assumption|]. intros q st' _. cbn [fst snd]. apply cw_ret. lia.
Qed.

(** a fresh Reader: everything it may spend is twice the input length *)
Corollary work_linear ty bs : work (read0 ty bs) <= 2 * kA ty * N.of_nat (length bs) + kK ty.
Proof.
  unfold read0. destruct (cost_linear (N.of_nat (length bs)) ty (fresh bs)) as [G _].
  unfold res, fresh in *. cbn [fst snd] in G.
  set (w := work (read (N.of_nat (length bs)) ty (bs, 0))) in *.
  set (r := remS (N.of_nat (length bs)) (fst (read (N.of_nat (length bs)) ty (bs, 0)))) in *. nia.
Qed.

(** arrays: the loop count and the temporary come from the TYPE; the wire only has to agree *)
Lemma array_cost tot n e st : fst (snd (read tot (TArray n e) st)) >= n * tsize e /\
  (forall m t, rd_u32 (fst st) = Ok (m, t) -> m <> n -> read tot (TArray n e) st = (OErr EInvalid, (n * tsize e, 0))).
Proof.
  split.
  - cbn [read]. rewrite snd_tick. unfold cadd. cbn [fst]. lia.
  - intros m t E Hm. cbn [read]. unfold tick, bindM, liftR. rewrite E. cbn [of_res fst snd].
    replace (m =? n) with false by lia. cbn [negb failM fst snd]. unfold cadd, tick, failM, cadd. cbn [fst snd]. rewrite !N.add_0_r. reflexivity.
Qed.

(** * C13 (c): the caller's variables *)
Lemma read_var_fail tot old ty st : (forall r, snd (read_var tot old ty st) <> OOk r) -> fst (read_var tot old ty st) = old.
Proof.
  unfold read_var. destruct (fst (read tot ty st)) as [[v t]| | | |]; cbn [fst snd]; auto. intros H. exfalso. apply (H t). reflexivity.
Qed.
Lemma read_var_ok tot old ty st r : snd (read_var tot old ty st) = OOk r -> fst (read tot ty st) = OOk (fst (read_var tot old ty st), r).
Proof.
  unfold read_var. destruct (fst (read tot ty st)) as [[v t]| | | |]; cbn [fst snd]; try discriminate. intros H; injection H as <-. reflexivity.
Qed.

Lemma read_into_vars_spec tot olds : forall st vs o, read_into_vars tot olds st = (vs, o) ->
  (forall r, o = OOk r -> fst (read_into tot (map fst olds) st) = OOk (vs, r)) /\
  ((forall r, o <> OOk r) ->
     exists pre post dec rest, olds = pre ++ post /\ post <> [] /\
       fst (read_into tot (map fst pre) st) = OOk (dec, rest) /\ vs = dec ++ map snd post /\
       (forall r, fst (read tot (fst (hd (TInt, VNil) post)) rest) <> OOk r)).
Proof.
  induction olds as [|[t old] r IH]; intros st vs o; cbn [read_into_vars].
  - intros H; injection H as <- <-. split.
    + intros r0 H; injection H as <-. reflexivity.
    + intros H. exfalso. apply (H st). reflexivity.
  - unfold read_var. destruct (fst (read tot t st)) as [[v rest]|e|w| |] eqn:E.
    + destruct (read_into_vars tot r rest) as [vs' o'] eqn:E2. intros H; injection H as <- <-.
      destruct (IH rest vs' o' E2) as [I1 I2]. split.
      * intros r0 ->. cbn [map fst read_into]. rewrite fst_bindM, E, fst_bindM. cbn [fst snd]. rewrite (I1 r0 eq_refl). reflexivity.
      * intros Hn. destruct (I2 Hn) as (pre & post & dec & rest' & -> & Hp & Hd & -> & Hf).
        exists ((t, old) :: pre), post, (v :: dec), rest'. repeat split; auto.
        cbn [map fst read_into]. rewrite fst_bindM, E, fst_bindM. cbn [fst snd]. rewrite Hd. reflexivity.
    + intros H; injection H as <- <-. split; [discriminate|]. intros _.
      exists [], ((t, old) :: r), [], st. repeat split; auto; try discriminate. cbn [hd fst]. rewrite E. discriminate.
    + intros H; injection H as <- <-. split; [discriminate|]. intros _.
      exists [], ((t, old) :: r), [], st. repeat split; auto; try discriminate. cbn [hd fst]. rewrite E. discriminate.
    + intros H; injection H as <- <-. split; [discriminate|]. intros _.
      exists [], ((t, old) :: r), [], st. repeat split; auto; try discriminate. cbn [hd fst]. rewrite E. discriminate.
    + intros H; injection H as <- <-. split; [discriminate|]. intros _.
      exists [], ((t, old) :: r), [], st. repeat split; auto; try discriminate. cbn [hd fst]. rewrite E. discriminate.
Qed.

(** * witnesses (closed computations) *)
Definition ex_ty : goty :=
  TStruct [(true, TBasic BI16); (false, TPtr TInt); (true, TSlice false (TStruct [(true, TBasic BStr); (true, TArray 2 (TBasic BF32))]));
           (true, TSlice false (TBasic BU8)); (true, TSlice true (TBasic BU8)); (true, TArray 2 (TStruct [])); (true, TSlice false (TStruct []))].
Definition ex_val : goval :=
  VStruct [VZ (-2); VNil;
           VList [VStruct [VS [104; 105]; VList [VN 2143289344; VN 2147483648]]; VStruct [VS []; VList [VN 0; VN 1]]];
           VList [VN 1; VN 255]; VNil; VList [VStruct []; VStruct []]; VList []].
Lemma ex_ok : supported ex_ty = true /\ has_typeb ex_ty ex_val = true /\ fits ex_ty ex_val = true /\ norm ex_ty ex_val <> ex_val.
Proof. repeat split; try (vm_compute; reflexivity). vm_compute. discriminate. Qed.

Lemma w_nil_slice : exists ty v b v', supported ty = true /\ has_typeb ty v = true /\ fits ty v = true /\
  write ty v = OOk b /\ fst (read0 ty b) = OOk (v', ([], cnt ty v)) /\ v = VNil /\ v' = VList [].
Proof. exists (TSlice false (TBasic BI32)), VNil, [0; 0; 0; 0], (VList []). repeat split. Qed.

Lemma w_unexported : exists ty v b v', supported ty = true /\ has_typeb ty v = true /\ fits ty v = true /\
  write ty v = OOk b /\ fst (read0 ty b) = OOk (v', ([], cnt ty v)) /\ v = VStruct [VZ 5; VN 1] /\ v' = VStruct [VZ 0; VN 1].
Proof. exists (TStruct [(false, TBasic BI8); (true, TBasic BU8)]), (VStruct [VZ 5; VN 1]), [1], (VStruct [VZ 0; VN 1]). repeat split. Qed.

(** a non-empty slice of elements that occupy no bytes: written as its length only; the reader rejects a length
    above the number of remaining bytes, so it reads back only if enough unrelated bytes follow *)
Lemma w_wire0_slice : exists ty v b, supported ty = true /\ has_typeb ty v = true /\ fits ty v = false /\
  write ty v = OOk b /\ fst (read0 ty b) = OErr EEOF /\ fst (read0 ty (b ++ [9])) = OOk (v, ([9], 1))
  /\ ty = TSlice false (TStruct []) /\ v = VList [VStruct []].
Proof. exists (TSlice false (TStruct [])), (VList [VStruct []]), [0; 0; 0; 1]. repeat split. Qed.

Lemma w_pointer_field : exists ty v b, has_typeb ty v = true /\ write ty v = OOk b /\ fst (read0 ty b) = OErr EUnsupported
  /\ ty = TStruct [(true, TPtr (TBasic BI8))] /\ v = VStruct [VPtr (VZ 5)].
Proof. exists (TStruct [(true, TPtr (TBasic BI8))]), (VStruct [VPtr (VZ 5)]), [5]. repeat split. Qed.

Lemma w_nil_pointer_field : exists ty v, has_typeb ty v = true /\ write ty v = OErr EInvalid
  /\ ty = TStruct [(true, TBasic BU8); (true, TPtr (TBasic BI8))] /\ v = VStruct [VN 1; VNil].
Proof. exists (TStruct [(true, TBasic BU8); (true, TPtr (TBasic BI8))]), (VStruct [VN 1; VNil]). repeat split. Qed.

Lemma w_iface_field : exists ty v b, has_typeb ty v = true /\ write ty v = OOk b /\ fst (read0 ty b) = OErr EUnsupported
  /\ ty = TStruct [(true, TIface)] /\ v = VStruct [VIface (TBasic BI32) (VZ 3)].
Proof. exists (TStruct [(true, TIface)]), (VStruct [VIface (TBasic BI32) (VZ 3)]), [0; 0; 0; 3]. repeat split. Qed.

Lemma w_ptr_iface : write (TPtr TIface) (VPtr (VIface (TBasic BI32) (VZ 5))) = OOk [0; 0; 0; 5]
  /\ write (TPtr TIface) (VPtr (VIface (TStruct []) (VStruct []))) = OErr EUnsupported
  /\ write (TStruct [(true, TIface)]) (VStruct [VIface (TStruct []) (VStruct [])]) = OOk [].
Proof. repeat split. Qed.

Lemma unsupported_kinds :
  (forall b v, basic_ok b v = true -> write (TNamed b) v = OErr EUnsupported /\ forall tot st, fst (read tot (TNamed b) st) = OErr EUnsupported) /\
  (forall z, write TInt (VZ z) = OErr EUnsupported /\ forall tot st, fst (read tot TInt st) = OErr EUnsupported) /\
  (forall n, write TUint (VN n) = OErr EUnsupported /\ forall tot st, fst (read tot TUint st) = OErr EUnsupported) /\
  (forall v, v = VNil \/ v = VOpaque -> write TMap v = OErr EUnsupported /\ write TChan v = OErr EUnsupported /\ write TFunc v = OErr EUnsupported) /\
  write TIface VNil = OErr EUnsupported /\
  (forall t, t <> TSlice false (TBasic BU8) -> write (TPtr t) VNil = OErr EInvalid) /\
  write (TPtr (TSlice false (TBasic BU8))) VNil = OOk [0; 0; 0; 0] /\
  (forall t tot st, fst (read tot (TPtr t) st) = OErr EUnsupported) /\ (forall tot st, fst (read tot TIface st) = OErr EUnsupported).
Proof.
  split; [intros b v H; split; [destruct b, v; try discriminate H; reflexivity|reflexivity]|].
  split; [intros z; split; reflexivity|].
  split; [intros n; split; reflexivity|].
  split; [intros v [-> | ->]; repeat split; reflexivity|].
  split; [reflexivity|].
  split; [|repeat split; reflexivity].
  intros t H0. destruct t as [b| | | |nm e| | | | | | |]; try reflexivity.
  destruct nm; try reflexivity. destruct e as [b| | | | | | | | | | |]; try reflexivity. destruct b; try reflexivity.
  exfalso. apply H0. reflexivity.
Qed.

(** nil targets of Read: an error whatever the pointer type, nothing is read *)
Lemma read_nil_target ty bs : read_call (TgtNilPtr ty) bs = OErr EInvalid /\ read_call TgtNonPtr bs = OErr EInvalid.
Proof. split; reflexivity. Qed.

(** a hostile length prefix: rejected before anything is allocated *)
Lemma w_hostile_length :
  read0 (TSlice false (TBasic BU64)) [255; 255; 255; 255] = (OErr EEOF, (0, 0))
  /\ read0 (TSlice false (TStruct [])) [255; 255; 255; 255] = (OErr EEOF, (0, 0))
  /\ read0 (TSlice true (TBasic BU8)) [255; 255; 255; 255; 1; 2] = (OErr EEOF, (0, 0)).
Proof. repeat split. Qed.

(** slices of elements that occupy no bytes, nested in a slice: every inner slice announces as many elements as
    bytes remain; the Reader's element budget (at most len(buf) slice elements in total) stops it at the first
    inner slice: 804 input bytes, 4800 bytes requested (the outer slice of 200 headers), no iteration *)
Fixpoint bomb_tail (k : nat) : bytes := match k with O => [] | S j => put_u32 (4 * N.of_nat j) ++ bomb_tail j end.
Definition bomb (k : nat) : bytes := put_u32 (N.of_nat k) ++ bomb_tail k.
Lemma w_nested_wire0 :
  length (bomb 200) = 804%nat
  /\ read0 (TSlice false (TSlice false (TStruct []))) (bomb 200) = (OErr EEOF, (4800, 0))
  /\ read0 (TSlice false (TSlice false (TStruct [(false, TBasic BU64)]))) (bomb 200) = (OErr EEOF, (4800, 0)).
Proof. repeat split; vm_compute; reflexivity. Qed.
(** within the budget nested zero-size slices decode, and a value that exceeds it is an excluded value of C12:
    [][]struct{} with 2 inner slices of 3 elements needs 2 + 3 + 3 = 8 elements but is only 12 bytes long *)
Lemma w_budget :
  let ty := TSlice false (TSlice false (TStruct [])) in
  let v := VList [VList [VStruct []; VStruct []; VStruct []]; VList [VStruct []; VStruct []; VStruct []]] in
  write ty v = OOk [0; 0; 0; 2; 0; 0; 0; 3; 0; 0; 0; 3]
  /\ fst (read0 ty [0; 0; 0; 2; 0; 0; 0; 3; 0; 0; 0; 3]) = OErr EEOF
  /\ fst (read0 ty [0; 0; 0; 2; 0; 0; 0; 3; 0; 0; 0; 3; 7; 7; 7]) = OOk (v, ([7; 7; 7], 8))
  /\ fits ty v = false /\ cnt ty v = 8.
Proof. repeat split. Qed.

Lemma w_read_into_clobber :
  read_into_vars0 [(TBasic BU8, VN 9); (TBasic BU8, VN 9)] [1] = ([VN 1; VN 9], OErr EEOF).
Proof. reflexivity. Qed.

(** the reader accepts encodings the writer never produces *)
Lemma w_noncanonical : fst (read0 (TBasic BBool) [2]) = OOk (VB true, ([], 0)) /\ rd_uvarint [128; 0] = Ok (0, []) /\ put_uvarint 0 = [0].
Proof. repeat split. Qed.

Lemma w_readbytes_negative : rd_bytes_z (-1) [1; 2; 3] = OPanic WSliceBounds.
Proof. reflexivity. Qed.

