From Coq Require Import List NArith ZArith Lia Bool.
From Coq Require Import ZifyN ZifyNat ZifyBool.
From Vivid Require Import Codec.Prim Codec.PrimProofs Codec.Prim2 Codec.Prim2Proofs Codec.Reflect.
Import ListNotations.
Local Open Scope N_scope.

(** * induction principles for the nested inductives *)
Section GotyInd.
  Variable P : goty -> Prop.
  Hypothesis Hbasic : forall b, P (TBasic b).
  Hypothesis Hnamed : forall b, P (TNamed b).
  Hypothesis Hint : P TInt.
  Hypothesis Huint : P TUint.
  Hypothesis Hslice : forall nm e, P e -> P (TSlice nm e).
  Hypothesis Harray : forall n e, P e -> P (TArray n e).
  Hypothesis Hstruct : forall fs, Forall (fun p => P (snd p)) fs -> P (TStruct fs).
  Hypothesis Hptr : forall e, P e -> P (TPtr e).
  Hypothesis Hiface : P TIface.
  Hypothesis Hmap : P TMap.
  Hypothesis Hchan : P TChan.
  Hypothesis Hfunc : P TFunc.
  Fixpoint goty_ind' (t : goty) : P t :=
    match t with
    | TBasic b => Hbasic b
    | TNamed b => Hnamed b
    | TInt => Hint
    | TUint => Huint
    | TSlice nm e => Hslice nm e (goty_ind' e)
    | TArray n e => Harray n e (goty_ind' e)
    | TStruct fs =>
        Hstruct fs ((fix go (fs : list (bool * goty)) : Forall (fun p => P (snd p)) fs :=
                       match fs with
                       | [] => Forall_nil _
                       | p :: r => Forall_cons p (goty_ind' (snd p)) (go r)
                       end) fs)
    | TPtr e => Hptr e (goty_ind' e)
    | TIface => Hiface
    | TMap => Hmap
    | TChan => Hchan
    | TFunc => Hfunc
    end.
End GotyInd.

Section GovalInd.
  Variable P : goval -> Prop.
  Hypothesis Hn : forall n, P (VN n).
  Hypothesis Hz : forall z, P (VZ z).
  Hypothesis Hb : forall b, P (VB b).
  Hypothesis Hs : forall s, P (VS s).
  Hypothesis Hnil : P VNil.
  Hypothesis Hlist : forall l, Forall P l -> P (VList l).
  Hypothesis Hstruct : forall l, Forall P l -> P (VStruct l).
  Hypothesis Hptr : forall v, P v -> P (VPtr v).
  Hypothesis Hiface : forall t v, P v -> P (VIface t v).
  Hypothesis Hop : P VOpaque.
  Fixpoint goval_ind' (v : goval) : P v :=
    match v with
    | VN n => Hn n | VZ z => Hz z | VB b => Hb b | VS s => Hs s | VNil => Hnil
    | VList l => Hlist l ((fix go (l : list goval) : Forall P l :=
                             match l with [] => Forall_nil _ | x :: r => Forall_cons x (goval_ind' x) (go r) end) l)
    | VStruct l => Hstruct l ((fix go (l : list goval) : Forall P l :=
                                 match l with [] => Forall_nil _ | x :: r => Forall_cons x (goval_ind' x) (go r) end) l)
    | VPtr x => Hptr x (goval_ind' x)
    | VIface t x => Hiface t x (goval_ind' x)
    | VOpaque => Hop
    end.
End GovalInd.

(** * the inner fixpoints of Reflect.v as named functions (each equation is [reflexivity]) *)
Definition wlist (e : goty) : list goval -> out bytes :=
  fix wl (l : list goval) : out bytes :=
    match l with
    | [] => OOk []
    | x :: r => obind (wrefl e x) (fun b => obind (wl r) (fun b' => OOk (b ++ b')))
    end.
Lemma wlist_nil e : wlist e [] = OOk []. Proof. reflexivity. Qed.
Lemma wlist_cons e x r : wlist e (x :: r) = obind (wrefl e x) (fun b => obind (wlist e r) (fun b' => OOk (b ++ b'))).
Proof. reflexivity. Qed.
Fixpoint wfields (fs : list (bool * goty)) (l : list goval) {struct l} : out bytes :=
  match fs, l with
  | [], [] => OOk []
  | (ex, t) :: fr, x :: r =>
      if ex then obind (wrefl t x) (fun b => obind (wfields fr r) (fun b' => OOk (b ++ b'))) else wfields fr r
  | _, _ => OIll
  end.
Fixpoint rfields (fs : list (bool * goty)) (bs : bytes) : M (list goval * bytes) :=
  match fs with
  | [] => ret ([], bs)
  | (ex, t) :: r =>
      if ex then bindM (read t bs) (fun p => bindM (rfields r (snd p)) (fun q => ret (fst p :: fst q, snd q)))
      else bindM (rfields r bs) (fun q => ret (zero t :: fst q, snd q))
  end.
Definition typed_list (e : goty) : list goval -> bool :=
  fix all (l : list goval) : bool := match l with [] => true | x :: r => has_typeb e x && all r end.
Lemma typed_list_cons e x r : typed_list e (x :: r) = has_typeb e x && typed_list e r. Proof. reflexivity. Qed.
Fixpoint typed_fields (fs : list (bool * goty)) (l : list goval) {struct l} : bool :=
  match fs, l with
  | [], [] => true
  | (_, t) :: fr, x :: r => has_typeb t x && typed_fields fr r
  | _, _ => false
  end.
Definition fits_list (e : goty) : list goval -> bool :=
  fix all (l : list goval) : bool := match l with [] => true | x :: r => fits e x && all r end.
Lemma fits_list_cons e x r : fits_list e (x :: r) = fits e x && fits_list e r. Proof. reflexivity. Qed.
Fixpoint fits_fields (fs : list (bool * goty)) (l : list goval) {struct l} : bool :=
  match fs, l with
  | (ex, t) :: fr, x :: r => (negb ex || fits t x) && fits_fields fr r
  | _, _ => true
  end.
Definition norm_list (e : goty) : list goval -> list goval :=
  fix go (l : list goval) : list goval := match l with [] => [] | x :: r => norm e x :: go r end.
Lemma norm_list_cons e x r : norm_list e (x :: r) = norm e x :: norm_list e r. Proof. reflexivity. Qed.
Fixpoint norm_fields (fs : list (bool * goty)) (l : list goval) {struct l} : list goval :=
  match fs, l with
  | (ex, t) :: fr, x :: r => (if ex then norm t x else zero t) :: norm_fields fr r
  | _, _ => []
  end.
Fixpoint zero_fields (fs : list (bool * goty)) : list goval :=
  match fs with [] => [] | (_, t) :: r => zero t :: zero_fields r end.
Fixpoint wire0_fields (fs : list (bool * goty)) : bool :=
  match fs with [] => true | (ex, t) :: r => (negb ex || wire0 t) && wire0_fields r end.
Fixpoint supported_fields (fs : list (bool * goty)) : bool :=
  match fs with [] => true | (ex, t) :: r => (negb ex || supported t) && supported_fields r end.
Fixpoint lin_fields (fs : list (bool * goty)) : bool :=
  match fs with [] => true | (ex, t) :: r => (negb ex || lin_ty t) && lin_fields r end.
Fixpoint tsize_fields (fs : list (bool * goty)) : N :=
  match fs with [] => 0 | (_, t) :: r => tsize t + tsize_fields r end.
Fixpoint kK_fields (fs : list (bool * goty)) : N :=
  match fs with [] => 0 | (ex, t) :: r => (if ex then kK t else 0) + kK_fields r end.
Fixpoint kA_fields (fs : list (bool * goty)) : N :=
  match fs with [] => 0 | (ex, t) :: r => (if ex then kA t else 0) + kA_fields r end.

Lemma wrefl_list_eq ty e l : (ty = TSlice true e \/ ty = TSlice false e \/ exists n, ty = TArray n e) ->
  wrefl ty (VList l) = obind (wlist e l) (fun b => OOk (put_u32 (N.of_nat (length l)) ++ b)).
Proof. intros [-> | [-> | [n ->]]]; reflexivity. Qed.
Lemma wrefl_struct_eq fs l : wrefl (TStruct fs) (VStruct l) = wfields fs l.
Proof. reflexivity. Qed.
Lemma read_struct_eq fs bs :
  read (TStruct fs) bs = tick (tsize (TStruct fs), 0) (bindM (rfields fs bs) (fun q => ret (VStruct (fst q), snd q))).
Proof. reflexivity. Qed.
Lemma has_type_slice nm e l : has_typeb (TSlice nm e) (VList l) = typed_list e l.
Proof. reflexivity. Qed.
Lemma has_type_array n e l : has_typeb (TArray n e) (VList l) = (N.of_nat (length l) =? n) && typed_list e l.
Proof. reflexivity. Qed.
Lemma has_type_struct fs l : has_typeb (TStruct fs) (VStruct l) = typed_fields fs l.
Proof. reflexivity. Qed.
Lemma fits_slice nm e l : fits (TSlice nm e) (VList l) = (N.of_nat (length l) <? 4294967296) && (negb (wire0 e) || (N.of_nat (length l) =? 0)) && fits_list e l.
Proof. reflexivity. Qed.
Lemma fits_array n e l : fits (TArray n e) (VList l) = fits_list e l.
Proof. reflexivity. Qed.
Lemma fits_struct fs l : fits (TStruct fs) (VStruct l) = fits_fields fs l.
Proof. reflexivity. Qed.
Lemma norm_slice nm e l : norm (TSlice nm e) (VList l) = VList (norm_list e l).
Proof. reflexivity. Qed.
Lemma norm_array n e l : norm (TArray n e) (VList l) = VList (norm_list e l).
Proof. reflexivity. Qed.
Lemma norm_struct fs l : norm (TStruct fs) (VStruct l) = VStruct (norm_fields fs l).
Proof. reflexivity. Qed.
Lemma zero_struct fs : zero (TStruct fs) = VStruct (zero_fields fs).
Proof. reflexivity. Qed.
Lemma wire0_struct fs : wire0 (TStruct fs) = wire0_fields fs.
Proof. reflexivity. Qed.
Lemma supported_struct fs : supported (TStruct fs) = supported_fields fs.
Proof. reflexivity. Qed.
Lemma lin_struct fs : lin_ty (TStruct fs) = lin_fields fs.
Proof. reflexivity. Qed.
Lemma tsize_struct fs : tsize (TStruct fs) = tsize_fields fs.
Proof. reflexivity. Qed.
Lemma kK_struct fs : kK (TStruct fs) = tsize_fields fs + kK_fields fs.
Proof. reflexivity. Qed.
Lemma kA_struct fs : kA (TStruct fs) = kA_fields fs.
Proof. reflexivity. Qed.

(** * the cost monad *)
Lemma fst_tick {A} c (m : M A) : fst (tick c m) = fst m.
Proof. reflexivity. Qed.
Lemma snd_tick {A} c (m : M A) : snd (tick c m) = cadd c (snd m).
Proof. reflexivity. Qed.
Lemma fst_bindM {A B} (m : M A) (f : A -> M B) :
  fst (bindM m f) = match fst m with OOk a => fst (f a) | OErr e => OErr e | OPanic w => OPanic w | OFuel => OFuel | OIll => OIll end.
Proof. unfold bindM. destruct (fst m); reflexivity. Qed.
Lemma snd_bindM {A B} (m : M A) (f : A -> M B) :
  snd (bindM m f) = match fst m with OOk a => cadd (snd m) (snd (f a)) | _ => snd m end.
Proof. unfold bindM. destruct (fst m); reflexivity. Qed.
Lemma fst_liftR {A} (r : res A) : fst (liftR r) = of_res r.
Proof. reflexivity. Qed.

(** "Ok or Err" *)
Definition okerr {A} (o : out A) : Prop := (exists a, o = OOk a) \/ (exists e, o = OErr e).
Lemma okerr_ok {A} (a : A) : okerr (OOk a). Proof. left; eauto. Qed.
Lemma okerr_err {A} e : okerr (@OErr A e). Proof. right; eauto. Qed.
Lemma okerr_of_res {A} (r : res A) : okerr (of_res r). Proof. destruct r; [apply okerr_ok|apply okerr_err]. Qed.
Global Hint Resolve okerr_ok okerr_err okerr_of_res : core.
Lemma okerr_obind {A B} (o : out A) (f : A -> out B) : okerr o -> (forall a, o = OOk a -> okerr (f a)) -> okerr (obind o f).
Proof. intros [[a ->]|[e ->]] H; cbn; [apply H; reflexivity|apply okerr_err]. Qed.

(** * C13 (a): the writer is total *)
Lemma wprim_ok b v : basic_ok b v = true -> exists bs, wprim b v = OOk bs.
Proof. destruct b, v; cbn; try discriminate; eauto. Qed.

Lemma has_type_basic b y : has_typeb (TBasic b) y = true -> basic_ok b y = true.
Proof. destruct y; cbn; auto; discriminate. Qed.

Lemma wlist_okerr e l : Forall (fun v => forall ty, has_typeb ty v = true -> okerr (wrefl ty v)) l ->
  typed_list e l = true -> okerr (wlist e l).
Proof.
  induction 1 as [|x r Hx Hr IH]; [rewrite wlist_nil; auto|]. rewrite typed_list_cons, wlist_cons.
  intros H. apply andb_prop in H as [H1 H2].
  apply okerr_obind; [apply Hx; exact H1|]. intros b _. apply okerr_obind; [apply IH; exact H2|]. auto.
Qed.
Lemma wfields_okerr l : Forall (fun v => forall ty, has_typeb ty v = true -> okerr (wrefl ty v)) l ->
  forall fs, typed_fields fs l = true -> okerr (wfields fs l).
Proof.
  induction 1 as [|x r Hx Hr IH]; intros fs; destruct fs as [|[ex t] fr]; cbn [typed_fields wfields]; try discriminate; [auto|].
  intros H. apply andb_prop in H as [H1 H2]. destruct ex; [|apply IH; exact H2].
  apply okerr_obind; [apply Hx; exact H1|]. intros b _. apply okerr_obind; [apply IH; exact H2|]. auto.
Qed.

Lemma wrefl_total v : forall ty, has_typeb ty v = true -> okerr (wrefl ty v).
Proof.
  induction v as [n|z|b|s| |l IH|l IH|x IH|t x IH| ] using goval_ind'; intros ty Ht.
  1-4: destruct ty; try discriminate Ht; cbn [wrefl]; auto;
       match goal with |- okerr (wprim ?b ?v) => destruct (wprim_ok b v Ht) as [bs ->]; auto end.
  - destruct ty; try discriminate Ht; cbn [wrefl]; auto.
  - destruct ty as [| | | |nm e|n e| | | | | |]; try discriminate Ht.
    + rewrite (wrefl_list_eq (TSlice nm e) e) by (destruct nm; auto). rewrite has_type_slice in Ht.
      apply okerr_obind; [apply wlist_okerr; assumption|auto].
    + rewrite (wrefl_list_eq (TArray n e) e) by eauto. rewrite has_type_array in Ht. apply andb_prop in Ht as [_ Ht].
      apply okerr_obind; [apply wlist_okerr; assumption|auto].
  - destruct ty as [| | | | | |fs| | | | |]; try discriminate Ht.
    rewrite wrefl_struct_eq. apply wfields_okerr; assumption.
  - destruct ty as [| | | | | | |t| | | |]; try discriminate Ht. cbn [has_typeb] in Ht. cbn [wrefl].
    destruct t; try (apply IH; exact Ht).
    destruct x; auto. cbn [has_typeb] in Ht. apply andb_prop in Ht as [_ Ht].
    destruct ty; auto. destruct (wprim_ok _ _ (has_type_basic _ _ Ht)) as [bs ->]; auto.
  - destruct ty; try discriminate Ht. cbn [has_typeb] in Ht. apply andb_prop in Ht as [_ Ht]. cbn [wrefl]. apply IH; exact Ht.
  - destruct ty; try discriminate Ht; cbn [wrefl]; auto.
Qed.

Lemma write_total ty v : has_typeb ty v = true -> okerr (write ty v).
Proof.
  intros Ht.
  destruct ty as [b| | | |nm e| | |e| | | |]; cbn [write]; try (apply wrefl_total; exact Ht).
  - destruct (wprim_ok b v (has_type_basic _ _ Ht)) as [bs ->]; auto.
  - destruct nm; [apply wrefl_total; exact Ht|].
    destruct e as [b| | | | | | | | | | |]; try (apply wrefl_total; exact Ht).
    destruct b; try (apply wrefl_total; exact Ht).
    destruct v; try discriminate Ht; auto.
  - destruct e as [b| | | |nm e| | | | | | |]; try (apply wrefl_total; exact Ht).
    + destruct v; try discriminate Ht; auto.
      cbn [has_typeb] in Ht. destruct (wprim_ok b v (has_type_basic _ _ Ht)) as [bs ->]; auto.
    + destruct nm; [apply wrefl_total; exact Ht|].
      destruct e as [b| | | | | | | | | | |]; try (apply wrefl_total; exact Ht).
      destruct b; try (apply wrefl_total; exact Ht).
      destruct v; try discriminate Ht; auto.
      cbn [has_typeb] in Ht. destruct v; try discriminate Ht; auto.
Qed.

Lemma write_from_total l : forallb (fun p => has_typeb (fst p) (snd p)) l = true -> okerr (write_from l).
Proof.
  induction l as [|[t v] r IH]; cbn [forallb write_from fst snd]; [auto|].
  intros H1. apply andb_prop in H1 as [H1 H1'].
  apply okerr_obind; [apply write_total; exact H1|]. intros b _. apply okerr_obind; [apply IH; assumption|auto].
Qed.

(** * C13 (b): the reader is total on every byte string *)
Definition rd_good {A} (strict : bool) (rd : bytes -> M (A * bytes)) : Prop :=
  forall bs, (exists v r h, fst (rd bs) = OOk (v, r) /\ bs = h ++ r /\ (strict = true -> h <> []))
             \/ (exists e, fst (rd bs) = OErr e).

Lemma rd_uint_good {A} k (f : N -> A) : (1 <= k)%nat ->
  rd_good true (fun bs => liftR (let* (n, t) := rd_uint k bs in Ok (f n, t))).
Proof.
  intros Hk bs. rewrite fst_liftR. destruct (rd_uint k bs) as [[n t]|e] eqn:E; cbn [bind of_res].
  - destruct (rd_uint_suffix _ _ _ _ E) as (h & -> & Hl). left. exists (f n), t, h. repeat split; auto.
    intros _ ->. cbn in Hl. lia.
  - right; eauto.
Qed.
Lemma rd_lp4_good bs : (exists s r h, rd_lp4 bs = Ok (s, r) /\ bs = h ++ r /\ (4 <= length h)%nat /\ (length s <= length h)%nat)
                        \/ (exists e, rd_lp4 bs = Err e).
Proof.
  unfold rd_lp4. destruct (rd_u32 bs) as [[n t]|e] eqn:E; cbn [bind]; [|right; eauto].
  destruct (rd_uint_suffix _ _ _ _ E) as (h & -> & Hl).
  destruct (take_N n t) as [[s r]|e] eqn:E2; [|right; eauto].
  destruct (take_N_suffix _ _ _ _ E2) as (-> & _). left. exists s, r, (h ++ s). rewrite app_assoc, app_length. repeat split; auto; lia.
Qed.

Lemma rprim_good b : rd_good true (rprim b).
Proof.
  destruct b; unfold rprim, rd_u8, rd_u16, rd_u32, rd_u64, rd_f32, rd_f64, rd_u32, rd_u64;
    try (apply rd_uint_good; lia).
  1-4: intros bs; rewrite fst_liftR; unfold rd_i8, rd_i16, rd_i32, rd_i64, rd_u8, rd_u16, rd_u32, rd_u64;
       match goal with |- context [rd_uint ?k bs] => destruct (rd_uint k bs) as [[n t]|e] eqn:E end; cbn [bind of_res];
       [destruct (rd_uint_suffix _ _ _ _ E) as (h & -> & Hl); left; do 3 eexists; repeat split; eauto; intros _ ->; cbn in Hl; lia|right; eauto].
  - intros bs; rewrite fst_liftR; unfold rd_bool, rd_u8.
    destruct (rd_uint 1 bs) as [[n t]|e] eqn:E; cbn [bind of_res];
      [destruct (rd_uint_suffix _ _ _ _ E) as (h & -> & Hl); left; do 3 eexists; repeat split; eauto; intros _ ->; cbn in Hl; lia|right; eauto].
  - intros bs. rewrite fst_bindM, fst_liftR. unfold rd_string.
    destruct (rd_lp4_good bs) as [(s & r & h & -> & -> & Hl & _)|[e ->]]; cbn [of_res]; [|right; eauto].
    rewrite fst_tick. cbn [ret fst snd]. left. exists (VS s), r, h. repeat split; auto. intros _ ->. cbn in Hl. lia.
Qed.

Lemma rd_elems_good rd : rd_good true rd -> forall fuel n bs, (length bs < fuel)%nat -> 
  (exists v r h, fst (rd_elems rd fuel n bs) = OOk (v, r) /\ bs = h ++ r) \/ (exists e, fst (rd_elems rd fuel n bs) = OErr e).
Proof.
  intros Hrd. induction fuel as [|f IH]; intros n bs Hl; [lia|].
  cbn [rd_elems]. destruct (n =? 0); [left; exists [], bs, []; auto|].
  rewrite fst_bindM. destruct (Hrd bs) as [(v & r & h & -> & -> & Hh)|[e ->]]; [|right; eauto].
  rewrite fst_tick, fst_bindM. cbn [snd fst].
  assert (length r < f)%nat.
  { rewrite app_length in Hl. destruct h; [exfalso; apply Hh; reflexivity|cbn in Hl; lia]. }
  destruct (IH (n - 1) r H) as [(vs & r' & h' & -> & ->)|[e ->]]; [|right; eauto].
  cbn [ret fst snd]. left. exists (v :: vs), r', (h ++ h'). rewrite app_assoc. auto.
Qed.

Lemma rfields_good fs : Forall (fun p => rd_good (negb (wire0 (snd p))) (read (snd p))) fs ->
  rd_good (negb (wire0_fields fs)) (rfields fs).
Proof.
  induction 1 as [|[ex t] r Hx Hr IH]; intros bs; cbn [rfields wire0_fields].
  - left. exists [], bs, []. cbn. repeat split; auto. discriminate.
  - cbn [snd] in Hx. destruct ex; cbn [negb orb].
    + rewrite fst_bindM. destruct (Hx bs) as [(v & r1 & h1 & -> & -> & Hh1)|[e ->]]; [|right; eauto].
      rewrite fst_bindM. cbn [fst snd].
      destruct (IH r1) as [(vs & r2 & h2 & -> & -> & Hh2)|[e ->]]; [|right; eauto].
      cbn [ret fst snd]. left. exists (v :: vs), r2, (h1 ++ h2). rewrite app_assoc. repeat split; auto.
      intros Hs Heq. apply app_eq_nil in Heq as [-> ->].
      destruct (wire0 t); cbn in Hs; [apply Hh2; auto|apply Hh1; auto].
    + rewrite fst_bindM.
      destruct (IH bs) as [(vs & r2 & h2 & -> & -> & Hh2)|[e ->]]; [|right; eauto].
      cbn [ret fst snd]. left. exists (zero t :: vs), r2, h2. repeat split; auto.
Qed.

Lemma read_good ty : rd_good (negb (wire0 ty)) (read ty).
Proof.
  induction ty as [b|b| | |nm e IH|n e IH|fs IH|e IH| | | |] using goty_ind';
    try (intros bs; right; eexists; reflexivity).
  - apply rprim_good.
  - intros bs. cbn [read wire0 negb].
    destruct (negb nm && match e with TBasic BU8 => true | _ => false end).
    + rewrite fst_bindM, fst_liftR.
      destruct (rd_lp4_good bs) as [(s & r & h & -> & -> & Hl & _)|[e' ->]]; cbn [of_res]; [|right; eauto].
      rewrite fst_tick. cbn [ret fst snd]. left. do 3 eexists. repeat split; eauto. intros _ ->. cbn in Hl. lia.
    + rewrite fst_bindM, fst_liftR. unfold rd_u32.
      destruct (rd_uint 4 bs) as [[n t]|e'] eqn:E; cbn [of_res]; [|right; eauto].
      destruct (rd_uint_suffix _ _ _ _ E) as (h & -> & Hl). cbn [fst snd].
      destruct (N.of_nat (length t) <? n); [right; eexists; reflexivity|]. rewrite fst_tick.
      assert (Hh : h <> []) by (intros ->; cbn in Hl; lia).
      destruct (wire0 e) eqn:W.
      * cbn [fst]. left. do 3 eexists. repeat split; eauto.
      * rewrite fst_bindM.
        destruct (rd_elems_good (read e) IH (S (length t)) n t ltac:(lia)) as [(vs & r' & h' & -> & ->)|[e' ->]]; [|right; eauto].
        cbn [ret fst snd]. left. exists (VList vs), r', (h ++ h'). rewrite app_assoc. repeat split; auto.
        intros _ Heq. apply app_eq_nil in Heq as [-> _]. apply Hh; reflexivity.
  - intros bs. cbn [read wire0 negb]. rewrite fst_tick, fst_bindM, fst_liftR. unfold rd_u32.
    destruct (rd_uint 4 bs) as [[m t]|e'] eqn:E; cbn [of_res]; [|right; eauto].
    destruct (rd_uint_suffix _ _ _ _ E) as (h & -> & Hl). cbn [fst snd].
    assert (Hh : h <> []) by (intros ->; cbn in Hl; lia).
    destruct (negb (m =? n)); [right; eexists; reflexivity|].
    destruct (wire0 e) eqn:W.
    + cbn [fst]. left. do 3 eexists. repeat split; eauto.
    + rewrite fst_bindM.
      destruct (rd_elems_good (read e) IH (S (length t)) n t ltac:(lia)) as [(vs & r' & h' & -> & ->)|[e' ->]]; [|right; eauto].
      cbn [ret fst snd]. left. exists (VList vs), r', (h ++ h'). rewrite app_assoc. repeat split; auto.
      intros _ Heq. apply app_eq_nil in Heq as [-> _]. apply Hh; reflexivity.
  - intros bs. rewrite read_struct_eq, wire0_struct, fst_tick, fst_bindM.
    destruct (rfields_good fs IH bs) as [(vs & r & h & -> & -> & Hh)|[e ->]]; [|right; eauto].
    cbn [ret fst snd]. left. exists (VStruct vs), r, h. auto.
Qed.

Lemma read_total ty bs :
  (exists v r h, fst (read ty bs) = OOk (v, r) /\ bs = h ++ r /\ (wire0 ty = false -> h <> [])) \/ (exists e, fst (read ty bs) = OErr e).
Proof.
  destruct (read_good ty bs) as [(v & r & h & H1 & H2 & H3)|H]; [left|right; exact H].
  exists v, r, h. repeat split; auto. intros W. apply H3. rewrite W. reflexivity.
Qed.
Lemma read_okerr ty bs : okerr (fst (read ty bs)).
Proof. destruct (read_total ty bs) as [(v & r & h & -> & _)|[e ->]]; auto. Qed.

Lemma read_into_total tys : forall bs,
  (exists vs r h, fst (read_into tys bs) = OOk (vs, r) /\ bs = h ++ r /\ length vs = length tys) \/ (exists e, fst (read_into tys bs) = OErr e).
Proof.
  induction tys as [|t r IH]; intros bs; cbn [read_into].
  - left. exists [], bs, []. auto.
  - rewrite fst_bindM. destruct (read_total t bs) as [(v & r1 & h1 & -> & -> & _)|[e ->]]; [|right; eauto].
    rewrite fst_bindM. cbn [fst snd]. destruct (IH r1) as [(vs & r2 & h2 & -> & -> & Hl)|[e ->]]; [|right; eauto].
    cbn [ret fst snd]. left. exists (v :: vs), r2, (h1 ++ h2). rewrite app_assoc. cbn [length]. auto.
Qed.

Lemma read_call_total tg bs : okerr (read_call tg bs).
Proof. destruct tg as [ty|ty|]; cbn [read_call]; auto. apply read_okerr. Qed.

(** * C12: round trip *)
Lemma nonempty_length {A} (l : list A) k : length l = S k -> l <> [].
Proof. intros H ->. discriminate H. Qed.

Lemma in_u_lt bits n : in_u bits n = true -> n < 2 ^ bits.
Proof. unfold in_u. intros H. apply N.ltb_lt. exact H. Qed.
Lemma in_s_range bits z : in_s bits z = true -> (- 2 ^ (Z.of_N bits - 1) <= z < 2 ^ (Z.of_N bits - 1))%Z.
Proof. unfold in_s. intros H. apply andb_prop in H as [H1 H2]. apply Z.leb_le in H1. apply Z.ltb_lt in H2. lia. Qed.

Lemma prim_rt b v rest : basic_ok b v = true -> fits (TBasic b) v = true ->
  exists bs, wprim b v = OOk bs /\ bs <> [] /\ fst (rprim b (bs ++ rest)) = OOk (v, rest).
Proof.
  intros Hok Hfit. destruct b, v; try discriminate Hok; cbn [basic_ok] in Hok; cbn [wprim rprim]; eexists; (split; [reflexivity|]).
  all: try (apply in_u_lt in Hok); try (apply in_s_range in Hok).
  - split; [apply (nonempty_length _ 0), (be_length 1)|]. rewrite fst_liftR, rd_u8_put by exact Hok. reflexivity.
  - split; [apply (nonempty_length _ 0), (be_length 1)|]. rewrite fst_liftR, rd_i8_put by exact Hok. reflexivity.
  - split; [apply (nonempty_length _ 1), (be_length 2)|]. rewrite fst_liftR, rd_u16_put by exact Hok. reflexivity.
  - split; [apply (nonempty_length _ 1), (be_length 2)|]. rewrite fst_liftR, rd_i16_put by exact Hok. reflexivity.
  - split; [apply (nonempty_length _ 3), (be_length 4)|]. rewrite fst_liftR, rd_u32_put by exact Hok. reflexivity.
  - split; [apply (nonempty_length _ 3), (be_length 4)|]. rewrite fst_liftR, rd_i32_put by exact Hok. reflexivity.
  - split; [apply (nonempty_length _ 7), (be_length 8)|]. rewrite fst_liftR, rd_u64_put by exact Hok. reflexivity.
  - split; [apply (nonempty_length _ 7), (be_length 8)|]. rewrite fst_liftR, rd_i64_put by exact Hok. reflexivity.
  - split; [apply (nonempty_length _ 3), (be_length 4)|]. rewrite fst_liftR, rd_f32_put by exact Hok. reflexivity.
  - split; [apply (nonempty_length _ 7), (be_length 8)|]. rewrite fst_liftR, rd_f64_put by exact Hok. reflexivity.
  - split; [discriminate|]. rewrite fst_liftR. change (put_bool b ++ rest) with (put_bool b ++ rest). rewrite rd_bool_put. reflexivity.
  - cbn [fits] in Hfit. apply N.ltb_lt in Hfit. split.
    + unfold put_string, put_lp4. intros H. apply app_eq_nil in H as [H _]. apply (f_equal (@length N)) in H. rewrite (be_length 4) in H. discriminate H.
    + rewrite fst_bindM, fst_liftR. unfold rd_string, put_string. rewrite rd_lp4_put by exact Hfit. reflexivity.
Qed.

(** the statement proved by induction on the type *)
Definition RT (ty : goty) : Prop := forall v,
  has_typeb ty v = true -> fits ty v = true ->
  exists b, wrefl ty v = OOk b
            /\ (if wire0 ty then b = [] /\ norm ty v = zero ty else b <> [])
            /\ forall rest, fst (read ty (b ++ rest)) = OOk (norm ty v, rest).

Lemma N_of_nat_S_pred k : N.of_nat (S k) - 1 = N.of_nat k.
Proof. lia. Qed.

(** elements of a slice/array whose element type is not wire0 *)
Lemma elems_rt e : RT e -> wire0 e = false -> forall l,
  typed_list e l = true -> fits_list e l = true ->
  exists b, wlist e l = OOk b /\ (length l <= length b)%nat
            /\ forall rest fuel, (length l <= fuel)%nat ->
                 fst (rd_elems (read e) fuel (N.of_nat (length l)) (b ++ rest)) = OOk (norm_list e l, rest).
Proof.
  intros He W. induction l as [|x r IH]; intros Ht Hf.
  - exists []. split; [reflexivity|]. split; [cbn; lia|]. intros rest fuel _. destruct fuel; reflexivity.
  - rewrite typed_list_cons in Ht. rewrite fits_list_cons in Hf.
    apply andb_prop in Ht as [Ht1 Ht2]. apply andb_prop in Hf as [Hf1 Hf2].
    destruct (He x Ht1 Hf1) as (bx & Hwx & Hne & Hrx). rewrite W in Hne.
    destruct (IH Ht2 Hf2) as (br & Hwr & Hlen & Hrr).
    exists (bx ++ br). rewrite wlist_cons, Hwx. cbn [obind]. rewrite Hwr. cbn [obind]. split; [reflexivity|].
    split. { rewrite app_length. cbn [length]. destruct bx; [contradiction|cbn [length]; lia]. }
    intros rest fuel Hfuel. cbn [length] in *. destruct fuel as [|f]; [lia|].
    cbn [rd_elems]. replace (N.of_nat (S (length r)) =? 0) with false by lia.
    rewrite fst_bindM, <- app_assoc, Hrx, fst_tick, fst_bindM. cbn [fst snd].
    rewrite N_of_nat_S_pred, Hrr by lia. cbn [ret fst snd]. rewrite norm_list_cons. reflexivity.
Qed.

(** elements of a wire0 type: nothing is written, the reader does not look at the input *)
Lemma elems_wire0 e : RT e -> wire0 e = true -> forall l,
  typed_list e l = true -> fits_list e l = true ->
  wlist e l = OOk [] /\ norm_list e l = repeat (zero e) (length l).
Proof.
  intros He W. induction l as [|x r IH]; intros Ht Hf; [split; reflexivity|].
  rewrite typed_list_cons in Ht. rewrite fits_list_cons in Hf.
  apply andb_prop in Ht as [Ht1 Ht2]. apply andb_prop in Hf as [Hf1 Hf2].
  destruct (He x Ht1 Hf1) as (bx & Hwx & Hne & _). rewrite W in Hne. destruct Hne as [-> Hz].
  destruct (IH Ht2 Hf2) as [Hwr Hnr].
  rewrite wlist_cons, Hwx. cbn [obind]. rewrite Hwr. cbn [obind app]. split; [reflexivity|].
  rewrite norm_list_cons, Hz, Hnr. reflexivity.
Qed.

(** []byte: the type switch's fast paths and the reflective path agree *)
Lemma wlist_bytes l : typed_list (TBasic BU8) l = true -> wlist (TBasic BU8) l = OOk (map byte_of l) /\ map VN (map byte_of l) = l.
Proof.
  induction l as [|x r IH]; [split; reflexivity|]. rewrite typed_list_cons. intros H. apply andb_prop in H as [H1 H2].
  destruct (IH H2) as [E1 E2]. rewrite wlist_cons. destruct x; try discriminate H1.
  cbn [has_typeb basic_ok] in H1. apply in_u_lt in H1. change (2 ^ 8) with 256 in H1.
  cbn [wrefl wprim obind]. rewrite E1. cbn [obind map byte_of]. rewrite E2. split; [|reflexivity].
  unfold put_u8. cbn [be app]. rewrite N.mod_small by exact H1. reflexivity.
Qed.
Lemma norm_list_bytes l : typed_list (TBasic BU8) l = true -> norm_list (TBasic BU8) l = l.
Proof.
  induction l as [|x r IH]; [reflexivity|]. rewrite typed_list_cons, norm_list_cons. intros H. apply andb_prop in H as [H1 H2].
  rewrite IH by exact H2. destruct x; try discriminate H1. reflexivity.
Qed.

Lemma fields_rt fs : Forall (fun p => supported (snd p) = true -> RT (snd p)) fs -> supported_fields fs = true -> forall l,
  typed_fields fs l = true -> fits_fields fs l = true ->
  exists b, wfields fs l = OOk b
            /\ (if wire0_fields fs then b = [] /\ norm_fields fs l = zero_fields fs else b <> [])
            /\ forall rest, fst (rfields fs (b ++ rest)) = OOk (norm_fields fs l, rest).
Proof.
  induction 1 as [|[ex t] fr Hx Hr IH]; intros Hs l Ht Hf.
  - destruct l; [|discriminate Ht]. exists []. repeat split; reflexivity.
  - destruct l as [|x r]; [discriminate Ht|].
    cbn [typed_fields] in Ht. cbn [fits_fields] in Hf. cbn [supported_fields] in Hs. cbn [snd] in Hx.
    apply andb_prop in Ht as [Ht1 Ht2]. apply andb_prop in Hf as [Hf1 Hf2]. apply andb_prop in Hs as [Hs1 Hs2].
    destruct (IH Hs2 r Ht2 Hf2) as (br & Hwr & Hw0 & Hrr).
    cbn [wfields norm_fields zero_fields wire0_fields rfields]. destruct ex; cbn [negb orb] in *.
    + destruct (Hx Hs1 x Ht1 Hf1) as (bx & Hwx & Hx0 & Hrx).
      exists (bx ++ br). rewrite Hwx. cbn [obind]. rewrite Hwr. cbn [obind]. split; [reflexivity|]. split.
      * destruct (wire0 t) eqn:W; cbn [andb].
        -- destruct Hx0 as [-> Hz]. cbn [app]. destruct (wire0_fields fr); [destruct Hw0 as [-> Hz']; rewrite Hz, Hz'; auto|exact Hw0].
        -- intros H. apply app_eq_nil in H as [H _]. contradiction.
      * intros rest. rewrite fst_bindM, <- app_assoc, Hrx, fst_bindM. cbn [fst snd]. rewrite Hrr. reflexivity.
    + exists br. split; [exact Hwr|]. split.
      * cbn [andb]. destruct (wire0_fields fr); [destruct Hw0 as [-> Hz']; rewrite Hz'; auto|exact Hw0].
      * intros rest. rewrite fst_bindM, Hrr. reflexivity.
Qed.

Lemma be4_nonempty n b : put_u32 n ++ b <> [].
Proof. intros H. apply app_eq_nil in H as [H _]. apply (f_equal (@length N)) in H. unfold put_u32 in H. rewrite be_length in H. discriminate H. Qed.

Lemma repeat_to_nat {A} (x : A) k : repeat x (N.to_nat (N.of_nat k)) = repeat x k.
Proof. rewrite Nat2N.id. reflexivity. Qed.

Lemma elems_cont e l : RT e -> typed_list e l = true -> fits_list e l = true ->
  exists b, wlist e l = OOk b /\ (wire0 e = false -> (length l <= length b)%nat) /\
    forall rest,
      fst (if wire0 e then (OOk (VList (repeat (zero e) (N.to_nat (N.of_nat (length l)))), b ++ rest), (0, N.of_nat (length l)))
           else bindM (rd_elems (read e) (S (length (b ++ rest))) (N.of_nat (length l)) (b ++ rest)) (fun q => ret (VList (fst q), snd q)))
      = OOk (VList (norm_list e l), rest).
Proof.
  intros He Ht Hf. destruct (wire0 e) eqn:W.
  - destruct (elems_wire0 e He W l Ht Hf) as [Hw Hn]. exists []. split; [exact Hw|]. split; [discriminate|].
    intros rest. cbn [fst app]. rewrite repeat_to_nat, Hn. reflexivity.
  - destruct (elems_rt e He W l Ht Hf) as (b & Hw & Hl & Hr). exists b. split; [exact Hw|]. split; [auto|].
    intros rest. rewrite fst_bindM, Hr by (rewrite app_length; lia). reflexivity.
Qed.

Theorem roundtrip_refl ty : supported ty = true -> RT ty.
Proof.
  induction ty as [b|b| | |nm e IH|n e IH|fs IH|e IH| | | |] using goty_ind'; intros Hs; try discriminate Hs.
  - intros v Ht Hf. destruct (prim_rt b v [] (has_type_basic _ _ Ht) Hf) as (bs & Hw & Hne & _).
    exists bs. split; [destruct v; try discriminate Ht; exact Hw|]. split; [exact Hne|].
    intros rest. destruct (prim_rt b v rest (has_type_basic _ _ Ht) Hf) as (bs' & Hw' & _ & Hr').
    rewrite Hw in Hw'. injection Hw' as <-. cbn [read]. rewrite Hr'. destruct v; try discriminate Ht; reflexivity.
  - (* slice *)
    cbn [supported] in Hs. specialize (IH Hs). intros v Ht Hf. cbn [wire0].
    destruct v; try discriminate Ht.
    + (* nil slice: written as length 0, read back as an empty slice *)
      exists (put_u32 0). split; [reflexivity|]. split; [apply (nonempty_length _ 3), (be_length 4)|].
      intros rest. cbn [read norm].
      destruct (negb nm && match e with TBasic BU8 => true | _ => false end).
      * rewrite fst_bindM, fst_liftR. change (put_u32 0 ++ rest) with (put_lp4 [] ++ rest). rewrite rd_lp4_put by (cbn; lia). reflexivity.
      * destruct (elems_cont e [] IH eq_refl eq_refl) as (b & Hw & _ & Hr).
        rewrite wlist_nil in Hw. injection Hw as <-.
        rewrite fst_bindM, fst_liftR, rd_u32_put by lia. cbn [of_res fst snd].
        replace (N.of_nat (length rest) <? 0) with false by lia. rewrite fst_tick. exact (Hr rest).
    + rewrite has_type_slice in Ht. rewrite fits_slice in Hf. apply andb_prop in Hf as [Hlen Hf]. apply andb_prop in Hlen as [Hlen Hw0]. apply N.ltb_lt in Hlen.
      rewrite (wrefl_list_eq (TSlice nm e) e) by (destruct nm; auto). rewrite norm_slice.
      destruct (negb nm && match e with TBasic BU8 => true | _ => false end) eqn:Fast.
      * pose proof Fast as Fast'. apply andb_prop in Fast' as [_ Fe].
        destruct e as [b| | | | | | | | | | |]; try discriminate Fe. destruct b; try discriminate Fe.
        destruct (wlist_bytes l Ht) as [Hw Hm]. rewrite Hw. cbn [obind]. eexists. split; [reflexivity|]. split; [apply be4_nonempty|].
        intros rest. cbn [read]. rewrite Fast. rewrite fst_bindM, fst_liftR.
        replace (length l) with (length (map byte_of l)) by apply map_length.
        change (put_u32 (N.of_nat (length (map byte_of l))) ++ map byte_of l) with (put_lp4 (map byte_of l)).
        rewrite rd_lp4_put by (rewrite map_length; exact Hlen). cbn [of_res fst snd]. rewrite fst_tick. cbn [ret fst].
        rewrite Hm, norm_list_bytes by exact Ht. reflexivity.
      * destruct (elems_cont e l IH Ht Hf) as (b & Hw & Hlb & Hr). rewrite Hw. cbn [obind]. eexists. split; [reflexivity|].
        split; [apply be4_nonempty|]. intros rest. cbn [read]. rewrite Fast.
        rewrite fst_bindM, fst_liftR, <- app_assoc, rd_u32_put by exact Hlen. cbn [of_res fst snd].
        replace (N.of_nat (length (b ++ rest)) <? N.of_nat (length l)) with false.
        2:{ symmetry. apply N.ltb_ge. rewrite app_length. destruct (wire0 e); cbn [negb orb] in Hw0; [apply N.eqb_eq in Hw0; lia|specialize (Hlb eq_refl); lia]. }
        rewrite fst_tick. exact (Hr rest).
  - (* array *)
    cbn [supported] in Hs. apply andb_prop in Hs as [Hn Hs]. apply N.ltb_lt in Hn. specialize (IH Hs). intros v Ht Hf. cbn [wire0].
    destruct v; try discriminate Ht.
    rewrite has_type_array in Ht. apply andb_prop in Ht as [Hlen Ht]. apply N.eqb_eq in Hlen. rewrite fits_array in Hf.
    rewrite (wrefl_list_eq (TArray n e) e) by eauto. rewrite norm_array.
    destruct (elems_cont e l IH Ht Hf) as (b & Hw & _ & Hr). rewrite Hw. cbn [obind]. eexists. split; [reflexivity|].
    split; [apply be4_nonempty|]. intros rest. cbn [read].
    rewrite fst_tick, fst_bindM, fst_liftR, <- app_assoc, rd_u32_put by lia. cbn [of_res fst snd].
    rewrite Hlen, N.eqb_refl. cbn [negb]. rewrite <- Hlen. exact (Hr rest).
  - (* struct *)
    rewrite supported_struct in Hs. intros v Ht Hf. destruct v; try discriminate Ht.
    rewrite has_type_struct in Ht. rewrite fits_struct in Hf.
    destruct (fields_rt fs IH Hs l Ht Hf) as (b & Hw & H0 & Hr). exists b.
    rewrite wrefl_struct_eq, wire0_struct, norm_struct, zero_struct. split; [exact Hw|]. split.
    + destruct (wire0_fields fs); [destruct H0 as [-> ->]; auto|exact H0].
    + intros rest. rewrite read_struct_eq, fst_tick, fst_bindM, Hr. reflexivity.
Qed.

(** the type switch of Write and writeReflect produce the same bytes on supported types *)
Lemma write_eq_wrefl ty v : supported ty = true -> has_typeb ty v = true -> write ty v = wrefl ty v.
Proof.
  intros Hs Ht. destruct ty as [b| | | |nm e| | | | | | |]; try discriminate Hs; try reflexivity.
  - cbn [write]. destruct v; try discriminate Ht; reflexivity.
  - cbn [write]. destruct nm; [reflexivity|]. destruct e as [b| | | | | | | | | | |]; try reflexivity. destruct b; try reflexivity.
    destruct v; try discriminate Ht; [reflexivity|].
    rewrite has_type_slice in Ht. rewrite (wrefl_list_eq (TSlice false (TBasic BU8)) (TBasic BU8)) by auto.
    destruct (wlist_bytes l Ht) as [-> _]. cbn [obind]. unfold put_lp4. rewrite map_length. reflexivity.
Qed.

Theorem roundtrip ty v : supported ty = true -> has_typeb ty v = true -> fits ty v = true ->
  exists b, write ty v = OOk b /\ forall rest, fst (read ty (b ++ rest)) = OOk (norm ty v, rest).
Proof.
  intros Hs Ht Hf. destruct (roundtrip_refl ty Hs v Ht Hf) as (b & Hw & _ & Hr).
  exists b. rewrite write_eq_wrefl by assumption. auto.
Qed.

(** WriteFrom(a...) / ReadInto(&a...) *)
Definition supported_all (l : list (goty * goval)) : bool :=
  forallb (fun p => supported (fst p) && has_typeb (fst p) (snd p) && fits (fst p) (snd p)) l.
Theorem roundtrip_list l : supported_all l = true ->
  exists b, write_from l = OOk b /\
            forall rest, fst (read_into (map fst l) (b ++ rest)) = OOk (map (fun p => norm (fst p) (snd p)) l, rest).
Proof.
  induction l as [|[t v] r IH]; cbn [supported_all forallb]; intros H.
  - exists []. split; reflexivity.
  - apply andb_prop in H as [H Hr]. apply andb_prop in H as [H Hf]. apply andb_prop in H as [Hs Ht]. cbn [fst snd] in *.
    destruct (roundtrip t v Hs Ht Hf) as (b1 & Hw1 & Hr1). destruct (IH Hr) as (b2 & Hw2 & Hr2).
    exists (b1 ++ b2). cbn [write_from map fst snd]. rewrite Hw1. cbn [obind]. rewrite Hw2. cbn [obind]. split; [reflexivity|].
    intros rest. cbn [read_into]. rewrite fst_bindM, <- app_assoc, Hr1, fst_bindM. cbn [fst snd]. rewrite Hr2. reflexivity.
Qed.

(** when the decoded value is the value itself: no nil slice, no unexported field *)
Fixpoint canonical (ty : goty) (v : goval) {struct v} : bool :=
  match v with
  | VNil => false
  | VList l =>
      match ty with
      | TSlice _ e | TArray _ e => (fix all (l : list goval) : bool := match l with [] => true | x :: r => canonical e x && all r end) l
      | _ => true
      end
  | VStruct l =>
      match ty with
      | TStruct fs =>
          (fix all (fs : list (bool * goty)) (l : list goval) {struct l} : bool :=
             match fs, l with
             | [], [] => true
             | (ex, t) :: fr, x :: r => ex && canonical t x && all fr r
             | _, _ => false
             end) fs l
      | _ => true
      end
  | _ => true
  end.
Definition canonical_list (e : goty) : list goval -> bool :=
  fix all (l : list goval) : bool := match l with [] => true | x :: r => canonical e x && all r end.
Fixpoint canonical_fields (fs : list (bool * goty)) (l : list goval) {struct l} : bool :=
  match fs, l with
  | [], [] => true
  | (ex, t) :: fr, x :: r => ex && canonical t x && canonical_fields fr r
  | _, _ => false
  end.
Lemma norm_canonical v : forall ty, canonical ty v = true -> norm ty v = v.
Proof.
  induction v as [n|z|b|s| |l IH|l IH|x IH|t x IH| ] using goval_ind'; intros ty Hc; try reflexivity; try discriminate Hc.
  - assert (G : forall e, canonical_list e l = true -> norm_list e l = l).
    { clear Hc. intros e. induction IH as [|x r Hx Hr IH2]; [reflexivity|]. intros H.
      change (canonical_list e (x :: r)) with (canonical e x && canonical_list e r) in H. apply andb_prop in H as [H1 H2].
      rewrite norm_list_cons. f_equal; [apply Hx; exact H1|apply IH2; exact H2]. }
    destruct ty as [| | | |nm e|n e| | | | | |]; try reflexivity.
    + rewrite norm_slice. f_equal. apply G. exact Hc.
    + rewrite norm_array. f_equal. apply G. exact Hc.
  - destruct ty as [| | | | | |fs| | | | |]; try reflexivity.
    rewrite norm_struct. f_equal. change (canonical_fields fs l = true) in Hc. revert fs Hc.
    induction IH as [|x r Hx Hr IH2]; intros fs Hc; destruct fs as [|[ex t] fr]; try discriminate Hc; [reflexivity|].
    cbn [canonical_fields] in Hc. apply andb_prop in Hc as [Hc H3]. apply andb_prop in Hc as [H1 H2]. subst ex.
    cbn [norm_fields]. f_equal; [apply Hx; exact H2|apply IH2; exact H3].
Qed.

(** * values excluded from the round trip *)
Lemma be_mod k n : be k (n mod 256 ^ N.of_nat k) = be k n.
Proof.
  revert n. induction k as [|k IH]; intros n; cbn [be]; [reflexivity|].
  assert (Hp : 256 ^ N.of_nat (S k) = 256 * 256 ^ N.of_nat k) by (rewrite Nat2N.inj_succ, N.pow_succ_r'; reflexivity).
  rewrite Hp. assert (0 < 256 ^ N.of_nat k) by (apply N.neq_0_lt_0, N.pow_nonzero; lia).
  set (P := 256 ^ N.of_nat k) in *.
  assert (Ha : n mod 256 < 256) by (apply N.mod_lt; lia).
  assert (E1 : n mod (256 * P) / 256 = (n / 256) mod P).
  { rewrite N.mod_mul_r by lia. symmetry. apply N.div_unique with (n mod 256); lia. }
  assert (E2 : (n mod (256 * P)) mod 256 = n mod 256).
  { rewrite N.mod_mul_r by lia. symmetry. apply N.mod_unique with ((n / 256) mod P); lia. }
  rewrite E1, E2, IH. reflexivity.
Qed.
Lemma put_u32_mod n : put_u32 (n mod 4294967296) = put_u32 n.
Proof. exact (be_mod 4 n). Qed.

(** slices and arrays: the length prefix is uint32(len): 2^32 or more elements are announced modulo 2^32 *)
Lemma wrefl_length_wraps nm e l :
  wrefl (TSlice nm e) (VList l) = obind (wlist e l) (fun b => OOk (put_u32 (N.of_nat (length l) mod 4294967296) ++ b)).
Proof. rewrite (wrefl_list_eq (TSlice nm e) e) by (destruct nm; auto). rewrite put_u32_mod. reflexivity. Qed.

(** strings (and []byte) of 2^32 bytes or more never read back *)
Lemma string_too_long s rest : 4294967296 <= N.of_nat (length s) -> rd_string (put_string s ++ rest) <> Ok (s, rest).
Proof.
  intros Hl H. unfold rd_string, put_string in H. rewrite put_lp4_wraps in H. unfold rd_lp4 in H.
  rewrite <- app_assoc, rd_u32_put in H by (apply N.mod_lt; lia). cbn [bind] in H.
  apply take_N_suffix in H as [_ H]. assert (N.of_nat (length s) mod 4294967296 < 4294967296) by (apply N.mod_lt; lia). lia.
Qed.

(** an array type of 2^32 or more elements can be written but never read *)
Lemma unbe_acc_lt bs : forall acc, wf_bytes bs = true -> unbe_acc acc bs < (acc + 1) * 256 ^ N.of_nat (length bs).
Proof.
  induction bs as [|b r IH]; intros acc Hwf; cbn [unbe_acc length].
  - change (256 ^ N.of_nat 0) with 1. lia.
  - cbn [wf_bytes forallb] in Hwf. apply andb_prop in Hwf as [Hb Hwf]. unfold wf_byte in Hb.
    specialize (IH (acc * 256 + b) Hwf).
    assert (Hp : 256 ^ N.of_nat (S (length r)) = 256 * 256 ^ N.of_nat (length r)) by (rewrite Nat2N.inj_succ, N.pow_succ_r'; reflexivity).
    rewrite Hp. assert (0 < 256 ^ N.of_nat (length r)) by (apply N.neq_0_lt_0, N.pow_nonzero; lia). nia.
Qed.
Lemma wf_bytes_firstn k bs : wf_bytes bs = true -> wf_bytes (firstn k bs) = true.
Proof.
  revert k; induction bs as [|b r IH]; intros k H; destruct k; try reflexivity.
  cbn [firstn wf_bytes forallb] in *. apply andb_prop in H as [H1 H2]. rewrite H1. cbn [andb]. apply IH. exact H2.
Qed.
Lemma rd_u32_lt bs m t : wf_bytes bs = true -> rd_u32 bs = Ok (m, t) -> m < 4294967296.
Proof.
  intros Hwf H. unfold rd_u32, rd_uint, take_n in H. destruct (Nat.leb_spec 4 (length bs)); [|discriminate H].
  cbn [bind] in H. injection H as <- _. unfold unbe.
  pose proof (unbe_acc_lt (firstn 4 bs) 0 (wf_bytes_firstn 4 bs Hwf)) as G.
  rewrite firstn_length_le in G by assumption. change (256 ^ N.of_nat 4) with 4294967296 in G.
  change (unbe_acc 0 (firstn 4 bs) < 4294967296). lia.
Qed.
Lemma array_too_long n e bs : 4294967296 <= n -> wf_bytes bs = true -> forall v r, fst (read (TArray n e) bs) <> OOk (v, r).
Proof.
  intros Hn Hwf v r. cbn [read]. rewrite fst_tick, fst_bindM, fst_liftR.
  destruct (rd_u32 bs) as [[m t]|e'] eqn:E; cbn [of_res]; [|discriminate].
  apply rd_u32_lt in E; [|exact Hwf]. cbn [fst snd]. replace (m =? n) with false by lia. discriminate.
Qed.

(** * C13 (b): allocation and work *)
Definition remN {A} (o : out (A * bytes)) : N := match o with OOk (_, r) => N.of_nat (length r) | _ => 0 end.
(** bytes requested from the allocator + loop iterations *)
Definition work {A} (m : M A) : N := fst (snd m) + snd (snd m).
(** "work + a * remaining <= a * available + K", and the remaining input is not longer than the available *)
Definition cw {A} (m : M (A * bytes)) (a L K : N) : Prop :=
  work m + a * remN (fst m) <= a * L + K /\ remN (fst m) <= L.

Lemma cw_weaken {A} (m : M (A * bytes)) a L K a' K' : cw m a L K -> a <= a' -> K <= K' -> cw m a' L K'.
Proof.
  unfold cw. intros [H1 H2] Ha HK. split; [|exact H2].
  replace a' with (a + (a' - a)) by lia. set (d := a' - a).
  assert (d * remN (fst m) <= d * L) by (apply N.mul_le_mono_l; exact H2). nia.
Qed.
Lemma work_bindM {A B} (m : M A) (f : A -> M B) :
  work (bindM m f) = match fst m with OOk a => work m + work (f a) | _ => work m end.
Proof. unfold work. rewrite snd_bindM. destruct (fst m); try reflexivity. unfold cadd. cbn [fst snd]. lia. Qed.
Lemma work_tick {A} c (m : M A) : work (tick c m) = fst c + snd c + work m.
Proof. unfold work. rewrite snd_tick. unfold cadd. cbn [fst snd]. lia. Qed.

Lemma cw_bind {A B} (m : M (A * bytes)) (f : A * bytes -> M (B * bytes)) a L K1 K2 :
  cw m a L K1 -> (forall x r, fst m = OOk (x, r) -> cw (f (x, r)) a (N.of_nat (length r)) K2) ->
  cw (bindM m f) a L (K1 + K2).
Proof.
  unfold cw. intros [H1 H2] Hf. rewrite fst_bindM, work_bindM.
  destruct (fst m) as [[x r]| | | |] eqn:E; cbn [remN] in *; try lia.
  destruct (Hf x r eq_refl) as [G1 G2]. split; lia.
Qed.
Lemma cw_tick {A} (m : M (A * bytes)) c a L K : cw m a L K -> cw (tick c m) a L (fst c + snd c + K).
Proof. unfold cw. rewrite fst_tick, work_tick. lia. Qed.
Lemma cw_ret {A} (x : A) r a L : N.of_nat (length r) <= L -> cw (ret (x, r)) a L 0.
Proof. unfold cw, work, ret. cbn [fst snd remN]. nia. Qed.
Lemma cw_fail {A} e a L : cw (@failM (A * bytes) e) a L 0.
Proof. unfold cw, work, failM. cbn [fst snd remN]. lia. Qed.

Lemma cw_u32 bs a : cw (liftR (rd_u32 bs)) a (N.of_nat (length bs)) 0.
Proof.
  unfold cw, work, liftR, rd_u32. cbn [fst snd]. destruct (rd_uint 4 bs) as [[n t]|e] eqn:E; cbn [of_res remN]; [|lia].
  destruct (rd_uint_suffix _ _ _ _ E) as (h & -> & _). rewrite app_length. nia.
Qed.

Lemma cw_rprim b bs : cw (rprim b bs) 2 (N.of_nat (length bs)) 0.
Proof.
  destruct b; unfold rprim, rd_u8, rd_u16, rd_u32, rd_u64, rd_f32, rd_f64, rd_u32, rd_u64, rd_i8, rd_i16, rd_i32, rd_i64, rd_bool, rd_u8, rd_u16, rd_u32, rd_u64.
  1-11: unfold cw, work, liftR; cbn [fst snd];
        match goal with |- context [rd_uint ?k ?x] => destruct (rd_uint k x) as [[n t]|e] eqn:E end; cbn [bind of_res remN]; try lia;
        destruct (rd_uint_suffix _ _ _ _ E) as (h & -> & _); rewrite app_length; lia.
  unfold cw. rewrite fst_bindM, work_bindM, fst_liftR. unfold rd_string.
  destruct (rd_lp4_good bs) as [(s & r & h & -> & -> & Hl & Hs)|[e ->]]; cbn [of_res remN]; unfold work, liftR, ret, tick, cadd; cbn [fst snd remN]; [|lia].
  rewrite !app_length. lia.
Qed.

(** the element loop: each element costs at most [a] per byte it consumes plus [K]; it consumes at least one
    byte when it succeeds; so the whole loop costs at most [a + K + 1] per byte, whatever the count [n] *)
Lemma cw_elems rd a K : rd_good true rd -> (forall bs, cw (rd bs) a (N.of_nat (length bs)) K) ->
  forall fuel n bs,
    cw (rd_elems rd fuel n bs) (a + K + 1) (N.of_nat (length bs)) K
    /\ (forall vs r, fst (rd_elems rd fuel n bs) = OOk (vs, r) -> n + N.of_nat (length r) <= N.of_nat (length bs)).
Proof.
  intros Hg Hrd. induction fuel as [|f IH]; intros n bs; cbn [rd_elems]; destruct (N.eqb_spec n 0) as [->|Hn].
  - split; [apply cw_ret; lia|]. intros vs r H. injection H as _ <-. lia.
  - split; [unfold cw, work; cbn [fst snd remN]; lia|discriminate].
  - split; [apply cw_ret; lia|]. intros vs r H. injection H as _ <-. lia.
  - specialize (Hrd bs). destruct Hrd as [H1 H2].
    destruct (fst (rd bs)) as [[v r]| | | |] eqn:E.
    2-5: split; [unfold cw; rewrite fst_bindM, work_bindM, E; cbn [remN] in *; nia|rewrite fst_bindM, E; discriminate].
    cbn [remN] in H1, H2.
    assert (Hprog : N.of_nat (length r) + 1 <= N.of_nat (length bs)).
    { destruct (Hg bs) as [(v' & r' & h & E' & -> & Hh)|[e E']]; [|rewrite E in E'; discriminate].
      rewrite E in E'. injection E' as <- <-. rewrite app_length. destruct h; [exfalso; apply Hh; reflexivity|cbn [length]; lia]. }
    destruct (IH (n - 1) r) as [[G1 G2] G3].
    split.
    + unfold cw. rewrite fst_bindM, work_bindM, E. cbn [fst snd]. rewrite fst_tick, work_tick, fst_bindM, work_bindM.
      destruct (fst (rd_elems rd f (n - 1) r)) as [[vs r']| | | |] eqn:E2; cbn [remN fst snd] in *;
        unfold work, ret in *; cbn [fst snd remN] in *; nia.
    + intros vs r0. rewrite fst_bindM, E. cbn [fst snd]. rewrite fst_tick, fst_bindM.
      destruct (fst (rd_elems rd f (n - 1) r)) as [[vs' r']| | | |] eqn:E2; try discriminate.
      cbn [ret fst snd]. intros H. injection H as _ <-. specialize (G3 vs' r' eq_refl). lia.
Qed.

(** the body of the slice case after the length check *)
Lemma cw_slice_body rd a K n sz t : rd_good true rd -> (forall bs, cw (rd bs) a (N.of_nat (length bs)) K) -> n <= N.of_nat (length t) ->
  cw (tick (n * sz, 0) (bindM (rd_elems rd (S (length t)) n t) (fun q => ret (VList (fst q), snd q))))
     (sz + (a + K + 1)) (N.of_nat (length t)) K.
Proof.
  intros Hg Hrd Hn. destruct (cw_elems rd a K Hg Hrd (S (length t)) n t) as [[G1 G2] G3].
  unfold cw. rewrite fst_tick, work_tick, fst_bindM, work_bindM. cbn [fst snd].
  destruct (fst (rd_elems rd (S (length t)) n t)) as [[vs r]| | | |] eqn:E; cbn [remN fst snd ret] in *;
    unfold work, ret in *; cbn [fst snd remN] in *; try nia.
  specialize (G3 vs r eq_refl). nia.
Qed.

Lemma cw_fields fs :
  Forall (fun p => lin_ty (snd p) = true -> forall bs, cw (read (snd p) bs) (kA (snd p)) (N.of_nat (length bs)) (kK (snd p))) fs ->
  lin_fields fs = true -> forall bs, cw (rfields fs bs) (kA_fields fs) (N.of_nat (length bs)) (kK_fields fs).
Proof.
  induction 1 as [|[ex t] r Hx Hr IH]; intros Hs bs; cbn [rfields kK_fields kA_fields].
  - apply cw_ret. lia.
  - cbn [lin_fields] in Hs. apply andb_prop in Hs as [Hs1 Hs2]. cbn [snd] in Hx. destruct ex; cbn [negb orb] in Hs1.
    + replace (kK t + kK_fields r) with (kK t + (kK_fields r + 0)) by lia.
      apply cw_bind; [eapply cw_weaken; [apply Hx; exact Hs1|lia|lia]|]. intros x r1 _.
      apply cw_bind; [eapply cw_weaken; [apply IH; exact Hs2|lia|lia]|]. intros q r2 _. cbn [fst snd]. apply cw_ret. lia.
    + replace (0 + kK_fields r) with (kK_fields r + 0) by lia.
      apply cw_bind; [eapply cw_weaken; [apply IH; exact Hs2|lia|lia]|]. intros q r2 _. cbn [fst snd]. apply cw_ret. lia.
Qed.

Theorem cost_linear ty : lin_ty ty = true -> forall bs, cw (read ty bs) (kA ty) (N.of_nat (length bs)) (kK ty).
Proof.
  induction ty as [b|b| | |nm e IH|n e IH|fs IH|e IH| | | |] using goty_ind'; intros Hs bs;
    try (apply cw_fail).
  - apply cw_rprim.
  - (* slice *)
    cbn [lin_ty] in Hs. apply andb_prop in Hs as [W Hs]. specialize (IH Hs).
    assert (W' : wire0 e = false) by (destruct (wire0 e); [discriminate W|reflexivity]).
    cbn [read kA kK].
    destruct (negb nm && match e with TBasic BU8 => true | _ => false end).
    + unfold cw. rewrite fst_bindM, work_bindM, fst_liftR.
      destruct (rd_lp4_good bs) as [(s & r & h & -> & -> & Hl & Hsl)|[e' ->]]; cbn [of_res remN]; unfold work, liftR, ret, tick, cadd; cbn [fst snd remN]; [|lia].
      rewrite !app_length. nia.
    + replace (kK e + 1) with (0 + (kK e + 1)) by lia.
      apply cw_bind; [apply cw_u32|]. intros n t _. cbn [fst snd].
      destruct (N.ltb_spec (N.of_nat (length t)) n); [eapply cw_weaken; [apply cw_fail|lia|lia]|].
      rewrite W'. eapply cw_weaken; [apply (cw_slice_body (read e) (kA e) (kK e) n (tsize e) t)|lia|lia]; auto.
      pose proof (read_good e) as G. rewrite W' in G. exact G.
  - (* array *)
    cbn [lin_ty] in Hs. specialize (IH Hs). cbn [read kA kK].
    replace (n * tsize e + n + kK e + 1) with (n * tsize e + 0 + (0 + (n + kK e + 1))) by lia.
    apply (cw_tick _ (n * tsize e, 0)). apply cw_bind; [apply cw_u32|]. intros m t _. cbn [fst snd].
    destruct (negb (m =? n)); [eapply cw_weaken; [apply cw_fail|lia|lia]|].
    destruct (wire0 e) eqn:W.
    + unfold cw, work. cbn [fst snd remN]. nia.
    + replace (n + kK e + 1) with (kK e + (n + 1)) by lia.
      apply cw_bind.
      * pose proof (read_good e) as G. rewrite W in G.
        destruct (cw_elems (read e) (kA e) (kK e) G IH (S (length t)) n t) as [G1 _]. exact G1.
      * intros vs r _. cbn [fst snd]. eapply cw_weaken; [apply cw_ret; lia|lia|lia].
  - (* struct *)
    rewrite lin_struct in Hs. rewrite read_struct_eq, kK_struct, kA_struct, tsize_struct.
    replace (tsize_fields fs + kK_fields fs) with (tsize_fields fs + 0 + (kK_fields fs + 0)) by lia.
    apply (cw_tick _ (tsize_fields fs, 0)). apply cw_bind; [apply cw_fields; assumption|]. intros q r _. cbn [fst snd]. apply cw_ret. lia.
Qed.

Corollary work_linear ty bs : lin_ty ty = true -> work (read ty bs) <= kA ty * N.of_nat (length bs) + kK ty.
Proof. intros H. destruct (cost_linear ty H bs) as [G _]. lia. Qed.

(** arrays: the loop count and the temporary come from the TYPE; the wire only has to agree *)
Lemma array_cost n e bs : fst (snd (read (TArray n e) bs)) >= n * tsize e /\
  (forall m t, rd_u32 bs = Ok (m, t) -> m <> n -> read (TArray n e) bs = (OErr EInvalid, (n * tsize e, 0))).
Proof.
  split.
  - cbn [read]. rewrite snd_tick. unfold cadd. cbn [fst]. lia.
  - intros m t E Hm. cbn [read]. unfold tick, bindM, liftR. rewrite E. cbn [of_res fst snd].
    replace (m =? n) with false by lia. cbn [negb failM fst snd]. unfold cadd. cbn [fst snd]. f_equal. f_equal; lia.
Qed.

(** * C13 (c): the caller's variables *)
Lemma read_var_fail old ty bs : (forall r, snd (read_var old ty bs) <> OOk r) -> fst (read_var old ty bs) = old.
Proof.
  unfold read_var. destruct (fst (read ty bs)) as [[v t]| | | |]; cbn [fst snd]; auto. intros H. exfalso. apply (H t). reflexivity.
Qed.
Lemma read_var_ok old ty bs r : snd (read_var old ty bs) = OOk r -> fst (read ty bs) = OOk (fst (read_var old ty bs), r).
Proof.
  unfold read_var. destruct (fst (read ty bs)) as [[v t]| | | |]; cbn [fst snd]; try discriminate. intros H; injection H as <-. reflexivity.
Qed.

Lemma read_into_vars_spec olds : forall bs vs o, read_into_vars olds bs = (vs, o) ->
  (forall r, o = OOk r -> fst (read_into (map fst olds) bs) = OOk (vs, r)) /\
  ((forall r, o <> OOk r) ->
     exists pre post dec rest, olds = pre ++ post /\ post <> [] /\
       fst (read_into (map fst pre) bs) = OOk (dec, rest) /\ vs = dec ++ map snd post /\
       (forall r, fst (read (fst (hd (TInt, VNil) post)) rest) <> OOk r)).
Proof.
  induction olds as [|[t old] r IH]; intros bs vs o; cbn [read_into_vars].
  - intros H; injection H as <- <-. split.
    + intros r0 H; injection H as <-. reflexivity.
    + intros H. exfalso. apply (H bs). reflexivity.
  - unfold read_var. destruct (fst (read t bs)) as [[v rest]|e|w| |] eqn:E.
    + destruct (read_into_vars r rest) as [vs' o'] eqn:E2. intros H; injection H as <- <-.
      destruct (IH rest vs' o' E2) as [I1 I2]. split.
      * intros r0 ->. cbn [map fst read_into]. rewrite fst_bindM, E, fst_bindM. cbn [fst snd]. rewrite (I1 r0 eq_refl). reflexivity.
      * intros Hn. destruct (I2 Hn) as (pre & post & dec & rest' & -> & Hp & Hd & -> & Hf).
        exists ((t, old) :: pre), post, (v :: dec), rest'. repeat split; auto.
        cbn [map fst read_into]. rewrite fst_bindM, E, fst_bindM. cbn [fst snd]. rewrite Hd. reflexivity.
    + intros H; injection H as <- <-. split; [discriminate|]. intros _.
      exists [], ((t, old) :: r), [], bs. repeat split; auto; try discriminate. cbn [hd fst]. rewrite E. discriminate.
    + intros H; injection H as <- <-. split; [discriminate|]. intros _.
      exists [], ((t, old) :: r), [], bs. repeat split; auto; try discriminate. cbn [hd fst]. rewrite E. discriminate.
    + intros H; injection H as <- <-. split; [discriminate|]. intros _.
      exists [], ((t, old) :: r), [], bs. repeat split; auto; try discriminate. cbn [hd fst]. rewrite E. discriminate.
    + intros H; injection H as <- <-. split; [discriminate|]. intros _.
      exists [], ((t, old) :: r), [], bs. repeat split; auto; try discriminate. cbn [hd fst]. rewrite E. discriminate.
Qed.

