(** Model of internal/remoting/serialize/remoting_envelop.go and internal/remoting/handshake.go.

    envelope := lp4(payload) lp4(name) u8(system) lp4(sAddr) lp4(sPath) lp4(rAddr) lp4(rPath)
    The decoder returns the four strings (the caller rebuilds the refs); an absent ref — a nil interface
    or a typed nil pointer ([isNilRef]) — is written as two empty strings. *)
From Coq Require Import List NArith ZArith Lia Bool.
From stdpp Require Import gmap.
From Vivid Require Import Codec.Prim Codec.MsgPrim Cluster.VV Codec.ClusterMsgs Codec.Msgs.
Local Open Scope N_scope.


(** the two strings an envelope carries for a ref: absent (nil interface or typed nil pointer) = ("","") *)
Definition strs_of (r : eref) : bytes * bytes :=
  match r with RRef a p => (a, p) | _ => ([], []) end.

Section Envelope.
  Variable U : Type.
  Variable has_codec : bool.
  Variable cenc : U -> mres bytes.
  Variable cdec : bytes -> mres U.
  Variable qerr : Z -> option bytes.
  Variable newref : bytes -> bytes -> mres (bytes * bytes).

  Record envelope : Type := {
    e_system : bool; e_sender : eref; e_receiver : eref; e_msg : msg U
  }.
  (** what DecodeEnvelopWithRemoting returns *)
  Record envelope_out : Type := {
    o_system : bool; o_saddr : bytes; o_spath : bytes; o_raddr : bytes; o_rpath : bytes; o_msg : msg U
  }.

  (** EncodeEnvelopWithRemoting: message first (errors return early), then the sender and receiver
      strings, then WriteFrom(name, system, sAddr, sPath, rAddr, rPath) *)
  Definition enc_envelope (e : envelope) : mres bytes :=
    let*m payload_name :=
      match e_msg e with
      | M_Outside u =>
          if has_codec then let*m d := cenc u in MOk (put_lp4 d, [])
          else MErr MENoCodec
      | m => match kind_of U m with
             | Some k => let*m b := serialize_remoting U has_codec cenc m in MOk (b, name_of k)
             | None => MErr MENoCodec
             end
      end in
    let s := strs_of (e_sender e) in
    let r := strs_of (e_receiver e) in
    MOk (fst payload_name ++ put_lp4 (snd payload_name) ++ put_bool (e_system e) ++
         put_lp4 (fst s) ++ put_lp4 (snd s) ++ put_lp4 (fst r) ++ put_lp4 (snd r)).

  (** DecodeEnvelopWithRemoting: all seven fields first, then the payload by name *)
  Definition dec_envelope : dec envelope_out :=
    let+ data := d_str in let+ name := d_str in let+ sys := d_bool in
    let+ sa := d_str in let+ sp := d_str in let+ ra := d_str in let+ rp := d_str in
    fun rest =>
      let mk m := {| o_system := sys; o_saddr := sa; o_spath := sp; o_raddr := ra; o_rpath := rp; o_msg := m |} in
      match kind_of_name name with
      | Some k =>
          match deserialize_remoting U has_codec cdec qerr newref k data with
          | (a, MOk (m, _)) => (a, MOk (mk m, rest))
          | (a, MErr er) => (a, MErr er)
          end
      | None =>
          if has_codec then
            match cdec data with MOk u => (0, MOk (mk (M_Outside u), rest)) | MErr er => (0, MErr er) end
          else (0, MErr MENoCodec)
      end.

  (** what the envelope of [e] must decode to: the refs as strings, absent = ("","") *)
  Definition expected_out (e : envelope) : envelope_out :=
    {| o_system := e_system e; o_saddr := fst (strs_of (e_sender e)); o_spath := snd (strs_of (e_sender e));
       o_raddr := fst (strs_of (e_receiver e)); o_rpath := snd (strs_of (e_receiver e)); o_msg := e_msg e |}.
  (** the receiver's reading of a pair of strings: two empty strings = absent *)
  Definition ref_of_strs (a p : bytes) : eref :=
    if is_nil a && is_nil p then RAbsent else RRef a p.

  Definition valid_ref (r : eref) : Prop :=
    match r with
    | RAbsent => True
    | RRef a p => len32 a /\ len32 p
    | RTypedNil => True
    end.
  Definition valid_envelope (e : envelope) : Prop :=
    valid_ref (e_sender e) /\ valid_ref (e_receiver e) /\
    ty_msg U (e_msg e) /\ valid_msg U has_codec cenc cdec qerr newref (e_msg e).
End Envelope.

(** * handshake: Send writes lp4(AdvertiseAddr).  Wait reads exactly four bytes from the stream
    (io.ReadFull), rejects an announced length above 4096, reads exactly that many bytes
    (make([]byte, 4+length)) and decodes the string from them; nothing beyond the handshake is consumed.
    [stream] is everything the connection delivers before it ends (M5: in arbitrary pieces). *)
Definition hs_max : N := 4096.
Definition enc_handshake (addr : bytes) : bytes := put_lp4 addr.
Definition dec_handshake : dec bytes :=
  let+ n := d_u32 in
  if hs_max <? n then dfail (ME ETooLarge)
  else let+ _ := dalloc (4 + n) in
       fun bs => match take_N n bs with
                 | Ok (a, rest) => (n, MOk (a, rest))     (* ReadString copies the address out of the buffer *)
                 | Err e => (0, MErr (ME e))
                 end.
(** Wait mutates h.AdvertiseAddr in place: the caller-visible state after a Wait on [stream] *)
Definition handshake_wait (old : bytes) (stream : bytes) : bytes * option merr :=
  match snd (dec_handshake stream) with
  | MOk (a, _) => (a, None)
  | MErr e => (old, Some e)
  end.
