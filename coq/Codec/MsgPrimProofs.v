(** Lemmas about the decoder monad of MsgPrim.v: running ([drun]), allocation bounds ([addb]),
    absence of crash / fuel exhaustion ([safe]). *)
From Coq Require Import List NArith ZArith Lia Bool.
From Coq Require Import ZifyN ZifyNat ZifyBool.
From Vivid Require Import Codec.Prim Codec.PrimProofs Codec.MsgPrim.
Import ListNotations.
Local Open Scope N_scope.

(** * running *)
Lemma drun_bind_ok {A B} (m : dec A) (f : A -> dec B) bs x bs' :
  drun m bs = MOk (x, bs') -> drun (dbind m f) bs = drun (f x) bs'.
Proof.
  unfold drun, dbind. destruct (m bs) as [a [[y t]|e]]; cbn; intros H; [|discriminate].
  injection H as -> ->. destruct (f x bs'); reflexivity.
Qed.
Lemma drun_bind_err {A B} (m : dec A) (f : A -> dec B) bs e :
  drun m bs = MErr e -> drun (dbind m f) bs = MErr e.
Proof.
  unfold drun, dbind. destruct (m bs) as [a [[y t]|e']]; cbn; intros H; [discriminate|].
  injection H as ->. reflexivity.
Qed.
Lemma drun_dret {A} (a : A) bs : drun (dret a) bs = MOk (a, bs).
Proof. reflexivity. Qed.
Lemma drun_dalloc n bs : drun (dalloc n) bs = MOk (tt, bs).
Proof. reflexivity. Qed.

Lemma drun_u8 n rest : n < 256 -> drun d_u8 (put_u8 n ++ rest) = MOk (n, rest).
Proof. intros H. unfold drun, d_u8, dlift; cbn [snd]. rewrite rd_u8_put by exact H. reflexivity. Qed.
Lemma drun_u16 n rest : n < 65536 -> drun d_u16 (put_u16 n ++ rest) = MOk (n, rest).
Proof. intros H. unfold drun, d_u16, dlift; cbn [snd]. rewrite rd_u16_put by exact H. reflexivity. Qed.
Lemma drun_u32 n rest : n < 4294967296 -> drun d_u32 (put_u32 n ++ rest) = MOk (n, rest).
Proof. intros H. unfold drun, d_u32, dlift; cbn [snd]. rewrite rd_u32_put by exact H. reflexivity. Qed.
Lemma drun_u64 n rest : n < 18446744073709551616 -> drun d_u64 (put_u64 n ++ rest) = MOk (n, rest).
Proof. intros H. unfold drun, d_u64, dlift; cbn [snd]. rewrite rd_u64_put by exact H. reflexivity. Qed.
Lemma drun_i32 z rest : in_i32 z -> drun d_i32 (put_i32 z ++ rest) = MOk (z, rest).
Proof. intros H. unfold drun, d_i32, dlift; cbn [snd]. rewrite rd_i32_put by exact H. reflexivity. Qed.
Lemma drun_i64 z rest : in_i64 z -> drun d_i64 (put_i64 z ++ rest) = MOk (z, rest).
Proof. intros H. unfold drun, d_i64, dlift; cbn [snd]. rewrite rd_i64_put by exact H. reflexivity. Qed.
Lemma drun_bool b rest : drun d_bool (put_bool b ++ rest) = MOk (b, rest).
Proof. unfold drun, d_bool, dlift; cbn [snd]. rewrite rd_bool_put. reflexivity. Qed.
Lemma drun_str b rest : len32 b -> drun d_str (put_lp4 b ++ rest) = MOk (b, rest).
Proof. intros H. unfold drun, d_str. rewrite rd_lp4_put by exact H. reflexivity. Qed.

Lemma drun_sub b rest : len32 b -> drun d_sub (put_lp4 b ++ rest) = MOk (b, rest).
Proof. intros H. unfold drun, d_sub, dlift; cbn [snd]. rewrite rd_lp4_put by exact H. reflexivity. Qed.

(** one step of a round-trip proof: run the next reader of a [dbind] chain on the next written field *)
Ltac rt_side :=
  first [ assumption | reflexivity | (unfold in_i32, in_i64, len32 in *; lia) ].
Ltac rt_prim :=
  lazymatch goal with
  | |- drun d_str _ = _ => apply drun_str; rt_side
  | |- drun d_sub _ = _ => apply drun_sub; rt_side
  | |- drun d_u8 _ = _ => apply drun_u8; rt_side
  | |- drun d_u16 _ = _ => apply drun_u16; rt_side
  | |- drun d_u32 _ = _ => apply drun_u32; rt_side
  | |- drun d_u64 _ = _ => apply drun_u64; rt_side
  | |- drun d_i32 _ = _ => apply drun_i32; rt_side
  | |- drun d_i64 _ = _ => apply drun_i64; rt_side
  | |- drun d_bool _ = _ => apply drun_bool
  | |- drun (dalloc _) _ = _ => apply drun_dalloc
  | |- drun (dret _) _ = _ => apply drun_dret
  end.
Ltac rt_step :=
  rewrite <- ?app_assoc;
  first [ erewrite drun_bind_ok by rt_prim | rewrite drun_dret ].

(** * every reader returns a suffix of its input *)
Definition shrinks {A} (m : dec A) : Prop :=
  forall bs x bs', drun m bs = MOk (x, bs') -> (length bs' <= length bs)%nat.
Lemma shrinks_bind {A B} (m : dec A) (f : A -> dec B) :
  shrinks m -> (forall x, shrinks (f x)) -> shrinks (dbind m f).
Proof.
  intros Hm Hf bs y bs2. unfold drun, dbind.
  destruct (m bs) as [a [[x t]|e]] eqn:E; cbn; [|discriminate].
  destruct (f x t) as [a' r] eqn:E2. cbn. intros ->.
  pose proof (Hm bs x t) as H1. unfold drun in H1. rewrite E in H1. specialize (H1 eq_refl).
  pose proof (Hf x t y bs2) as H2. unfold drun in H2. rewrite E2 in H2. specialize (H2 eq_refl). lia.
Qed.

Lemma take_n_len k bs h t : take_n k bs = Ok (h, t) -> length bs = (k + length t)%nat /\ length h = k.
Proof.
  unfold take_n. destruct (Nat.leb_spec k (length bs)); [|discriminate].
  intros [= <- <-]. rewrite skipn_length, firstn_length. lia.
Qed.
Lemma take_N_len k bs h t : take_N k bs = Ok (h, t) -> N.of_nat (length bs) = k + N.of_nat (length t) /\ N.of_nat (length h) = k.
Proof.
  unfold take_N. destruct (N.leb_spec k (N.of_nat (length bs))); [|discriminate].
  intros [= <- <-]. rewrite skipn_length, firstn_length. lia.
Qed.
Lemma rd_uint_len k bs n t : rd_uint k bs = Ok (n, t) -> length bs = (k + length t)%nat.
Proof.
  unfold rd_uint. destruct (take_n k bs) as [[h t']|] eqn:E; cbn; [|discriminate].
  intros [= _ <-]. apply take_n_len in E. tauto.
Qed.
Lemma rd_lp4_len bs s t : rd_lp4 bs = Ok (s, t) -> (length bs = 4 + length s + length t)%nat.
Proof.
  unfold rd_lp4, rd_u32. destruct (rd_uint 4 bs) as [[n t']|] eqn:E; cbn; [|discriminate].
  intros H. apply rd_uint_len in E. apply take_N_len in H. lia.
Qed.

(** * allocation: on success the bytes allocated are covered by the bytes consumed plus [K]; on failure
    by the whole input plus [K] *)
Definition addb {A} (K : N) (m : dec A) : Prop :=
  forall bs, match m bs with
             | (a, MOk (_, bs')) => (length bs' <= length bs)%nat /\ a + N.of_nat (length bs') <= N.of_nat (length bs) + K
             | (a, MErr _) => a <= N.of_nat (length bs) + K
             end.
Lemma addb_weaken {A} K K' (m : dec A) : K <= K' -> addb K m -> addb K' m.
Proof. intros HK H bs. specialize (H bs). destruct (m bs) as [a [[x t]|e]]; lia. Qed.
Lemma addb_bind {A B} K1 K2 (m : dec A) (f : A -> dec B) :
  addb K1 m -> (forall x, addb K2 (f x)) -> addb (K1 + K2) (dbind m f).
Proof.
  intros Hm Hf bs. unfold dbind. specialize (Hm bs). destruct (m bs) as [a [[x t]|e]]; [|lia].
  specialize (Hf x t). destruct (f x t) as [a' [[y t']|e']]; lia.
Qed.
Lemma addb_dret {A} (a : A) : addb 0 (dret a).
Proof. intros bs. cbn. lia. Qed.
Lemma addb_dfail {A} e : addb 0 (@dfail A e).
Proof. intros bs. cbn. lia. Qed.
Lemma addb_dalloc n : addb n (dalloc n).
Proof. intros bs. cbn. lia. Qed.
Lemma addb_dlift_uint {A} k (g : N -> A) : addb 0 (dlift (fun bs => let* (n, t) := rd_uint k bs in Ok (g n, t))).
Proof.
  intros bs. unfold dlift. destruct (rd_uint k bs) as [[n t]|] eqn:E; cbn; [|lia].
  apply rd_uint_len in E. lia.
Qed.
Lemma addb_u8 : addb 0 d_u8.
Proof. intros bs. unfold d_u8, dlift, rd_u8. destruct (rd_uint 1 bs) as [[n t]|] eqn:E; cbn; [apply rd_uint_len in E|]; lia. Qed.
Lemma addb_u16 : addb 0 d_u16.
Proof. intros bs. unfold d_u16, dlift, rd_u16. destruct (rd_uint 2 bs) as [[n t]|] eqn:E; cbn; [apply rd_uint_len in E|]; lia. Qed.
Lemma addb_u32 : addb 0 d_u32.
Proof. intros bs. unfold d_u32, dlift, rd_u32. destruct (rd_uint 4 bs) as [[n t]|] eqn:E; cbn; [apply rd_uint_len in E|]; lia. Qed.
Lemma addb_u64 : addb 0 d_u64.
Proof. intros bs. unfold d_u64, dlift, rd_u64. destruct (rd_uint 8 bs) as [[n t]|] eqn:E; cbn; [apply rd_uint_len in E|]; lia. Qed.
Lemma addb_i32 : addb 0 d_i32.
Proof.
  intros bs. unfold d_i32, dlift, rd_i32, rd_u32. destruct (rd_uint 4 bs) as [[n t]|] eqn:E; cbn; [apply rd_uint_len in E|]; lia.
Qed.
Lemma addb_i64 : addb 0 d_i64.
Proof.
  intros bs. unfold d_i64, dlift, rd_i64, rd_u64. destruct (rd_uint 8 bs) as [[n t]|] eqn:E; cbn; [apply rd_uint_len in E|]; lia.
Qed.
Lemma addb_bool : addb 0 d_bool.
Proof.
  intros bs. unfold d_bool, dlift, rd_bool, rd_u8. destruct (rd_uint 1 bs) as [[n t]|] eqn:E; cbn; [apply rd_uint_len in E|]; lia.
Qed.
Lemma addb_str : addb 0 d_str.
Proof. intros bs. unfold d_str. destruct (rd_lp4 bs) as [[s t]|] eqn:E; [apply rd_lp4_len in E|]; lia. Qed.

Lemma addb_sub : addb 0 d_sub.
Proof. intros bs. unfold d_sub, dlift. destruct (rd_lp4 bs) as [[s t]|] eqn:E; cbn; [apply rd_lp4_len in E|]; lia. Qed.

(** * allocation, proportional form: on success the bytes allocated are covered by [c] times the bytes
    consumed; on failure by [c] times the whole input plus [K] (one pre-allocation that the input did
    not back) *)
Definition linb {A} (c K : N) (m : dec A) : Prop :=
  forall bs, match m bs with
             | (a, MOk (_, bs')) => (length bs' <= length bs)%nat /\ a + c * N.of_nat (length bs') <= c * N.of_nat (length bs)
             | (a, MErr _) => a <= c * N.of_nat (length bs) + K
             end.
Lemma linb_bind {A B} c K (m : dec A) (f : A -> dec B) :
  linb c K m -> (forall x, linb c K (f x)) -> linb c K (dbind m f).
Proof.
  intros Hm Hf bs. unfold dbind. specialize (Hm bs). destruct (m bs) as [a [[x t]|e]]; [|lia].
  specialize (Hf x t). destruct (f x t) as [a' [[y t']|e']]; nia.
Qed.
Lemma linb_of_addb0 {A} c K (m : dec A) : 1 <= c -> addb 0 m -> linb c K m.
Proof. intros Hc H bs. specialize (H bs). destruct (m bs) as [a [[x t]|e]]; nia. Qed.
Lemma linb_mono {A} c c' K K' (m : dec A) : c <= c' -> K <= K' -> linb c K m -> linb c' K' m.
Proof. intros Hc HK H bs. specialize (H bs). destruct (m bs) as [a [[x t]|e]]; nia. Qed.
Lemma linb_dret {A} c K (a : A) : linb c K (dret a).
Proof. intros bs. cbn. lia. Qed.
Lemma linb_dfail {A} c K e : linb c K (@dfail A e).
Proof. intros bs. cbn. lia. Qed.

(** a successful run consumed at least [n] bytes *)
Definition consumes {A} (n : N) (m : dec A) : Prop :=
  forall bs x bs', drun m bs = MOk (x, bs') -> n + N.of_nat (length bs') <= N.of_nat (length bs).
Lemma dcost_bind {A B} (m : dec A) (f : A -> dec B) bs :
  dcost (dbind m f) bs = dcost m bs + match drun m bs with MOk (x, bs') => dcost (f x) bs' | MErr _ => 0 end.
Proof. unfold dcost, drun, dbind. destruct (m bs) as [a [[x t]|e]]; cbn; [destruct (f x t); reflexivity|lia]. Qed.

(** * no crash, no fuel exhaustion *)
Definition bad (e : merr) : Prop := e = MECrash \/ e = MEFuel.
Definition safe {A} (m : dec A) : Prop := forall bs e, drun m bs = MErr e -> ~ bad e.
Lemma safe_bind {A B} (m : dec A) (f : A -> dec B) : safe m -> (forall x, safe (f x)) -> safe (dbind m f).
Proof.
  intros Hm Hf bs e. unfold drun, dbind.
  destruct (m bs) as [a [[x t]|e']] eqn:E; cbn.
  - destruct (f x t) as [a' r] eqn:E2. cbn. intros ->. apply (Hf x t). unfold drun. rewrite E2. reflexivity.
  - intros [= <-]. apply (Hm bs). unfold drun. rewrite E. reflexivity.
Qed.
Lemma safe_dret {A} (a : A) : safe (dret a).
Proof. intros bs e; cbn; discriminate. Qed.
Lemma safe_dalloc n : safe (dalloc n).
Proof. intros bs e; cbn; discriminate. Qed.
Lemma safe_dfail {A} e : ~ bad e -> safe (@dfail A e).
Proof. intros H bs e'. cbn. intros [= <-]. exact H. Qed.
Lemma safe_dlift {A} (r : bytes -> res (A * bytes)) : safe (dlift r).
Proof. intros bs e. unfold drun, dlift; cbn. destruct (r bs); cbn; [discriminate|]. intros [= <-] [H|H]; discriminate. Qed.
Lemma safe_str : safe d_str.
Proof. intros bs e. unfold drun, d_str. destruct (rd_lp4 bs) as [[s t]|]; cbn; [discriminate|]. intros [= <-] [H|H]; discriminate. Qed.
Lemma not_bad_ME e : ~ bad (ME e).
Proof. intros [H|H]; discriminate. Qed.

Ltac safe_tac :=
  repeat first
    [ apply safe_bind; [|intros ?]
    | apply safe_dret | apply safe_dalloc | apply safe_dlift | apply safe_str
    | apply safe_dfail; apply not_bad_ME ].
