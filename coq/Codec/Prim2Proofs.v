From Coq Require Import List NArith ZArith Lia Bool.
From Coq Require Import ZifyN ZifyNat ZifyBool.
From Vivid Require Import Codec.Prim Codec.PrimProofs Codec.Prim2.
Import ListNotations.
Local Open Scope N_scope.
Ltac Zify.zify_post_hook ::= Z.div_mod_to_equations.

(** ** int8 / int16 *)
Lemma signed_roundtrip_8 z : (- 2 ^ 7 <= z < 2 ^ 7)%Z -> to_signed 8 (of_signed 8 z) = z.
Proof.
  intros H. unfold to_signed, of_signed.
  change (Z.of_N 8) with 8%Z. change (2 ^ (8 - 1)) with 128.
  change (2 ^ 8)%Z with 256%Z in *. change (2 ^ 7)%Z with 128%Z in *.
  destruct (N.ltb_spec (Z.to_N (z mod 256)) 128); lia.
Qed.
Lemma signed_roundtrip_16 z : (- 2 ^ 15 <= z < 2 ^ 15)%Z -> to_signed 16 (of_signed 16 z) = z.
Proof.
  intros H. unfold to_signed, of_signed.
  change (Z.of_N 16) with 16%Z. change (2 ^ (16 - 1)) with 32768.
  change (2 ^ 16)%Z with 65536%Z in *. change (2 ^ 15)%Z with 32768%Z in *.
  destruct (N.ltb_spec (Z.to_N (z mod 65536)) 32768); lia.
Qed.
Lemma rd_i8_put z rest : (- 2 ^ 7 <= z < 2 ^ 7)%Z -> rd_i8 (put_i8 z ++ rest) = Ok (z, rest).
Proof.
  intros H. unfold rd_i8, put_i8. rewrite rd_u8_put by (apply (of_signed_lt 8); lia).
  cbn [bind]. rewrite signed_roundtrip_8 by exact H. reflexivity.
Qed.
Lemma rd_i16_put z rest : (- 2 ^ 15 <= z < 2 ^ 15)%Z -> rd_i16 (put_i16 z ++ rest) = Ok (z, rest).
Proof.
  intros H. unfold rd_i16, put_i16. rewrite rd_u16_put by (apply (of_signed_lt 16); lia).
  cbn [bind]. rewrite signed_roundtrip_16 by exact H. reflexivity.
Qed.

(** the signed views outside their range: the writer's conversion wraps (witness used by C12) *)
Lemma to_signed_range bits n : bits <> 0 -> n < 2 ^ bits ->
  (- 2 ^ (Z.of_N bits - 1) <= to_signed bits n < 2 ^ (Z.of_N bits - 1))%Z.
Proof.
  intros Hb Hn. unfold to_signed.
  assert (E : (2 ^ Z.of_N bits = 2 * 2 ^ (Z.of_N bits - 1))%Z).
  { rewrite <- Z.pow_succ_r by lia. f_equal. lia. }
  assert (E2 : Z.of_N (2 ^ (bits - 1)) = (2 ^ (Z.of_N bits - 1))%Z).
  { rewrite N2Z.inj_pow. f_equal. lia. }
  assert (E3 : Z.of_N (2 ^ bits) = (2 ^ Z.of_N bits)%Z) by (rewrite N2Z.inj_pow; reflexivity).
  assert (0 < 2 ^ (Z.of_N bits - 1))%Z by (apply Z.pow_pos_nonneg; lia).
  destruct (N.ltb_spec n (2 ^ (bits - 1))); lia.
Qed.

(** ** floats (bit patterns) *)
Lemma rd_f32_put n rest : n < 4294967296 -> rd_f32 (put_f32 n ++ rest) = Ok (n, rest).
Proof. exact (rd_u32_put n rest). Qed.
Lemma rd_f64_put n rest : n < 18446744073709551616 -> rd_f64 (put_f64 n ++ rest) = Ok (n, rest).
Proof. exact (rd_u64_put n rest). Qed.

(** ** uvarint *)
Lemma pow128_succ i : 128 ^ N.of_nat (S i) = 128 * 128 ^ N.of_nat i.
Proof. rewrite Nat2N.inj_succ, N.pow_succ_r'. reflexivity. Qed.

Lemma uv_dec_enc fuel : forall i x acc s rest,
  (i + fuel = 9)%nat -> 2 ^ s = 128 ^ N.of_nat i -> x * 128 ^ N.of_nat i < 18446744073709551616 ->
  uv_dec i acc s (uv_enc fuel x ++ rest) = Ok (acc + x * 2 ^ s, rest).
Proof.
  induction fuel as [|f IH]; intros i x acc s rest Hi Hs Hx.
  - assert (i = 9%nat) by lia. subst i.
    change (128 ^ N.of_nat 9) with 9223372036854775808 in *.
    assert (x < 2) by lia.
    cbn [uv_enc]. replace (x <? 128) with true by lia. cbn [app uv_dec Nat.eqb].
    replace (x <? 128) with true by lia. replace (1 <? x) with false by lia. reflexivity.
  - cbn [uv_enc]. destruct (N.ltb_spec x 128) as [Hlt|Hge].
    + cbn [app uv_dec]. replace (Nat.eqb i 10) with false by (symmetry; apply Nat.eqb_neq; lia).
      replace (x <? 128) with true by lia.
      replace (Nat.eqb i 9) with false by (symmetry; apply Nat.eqb_neq; lia). reflexivity.
    + cbn [app uv_dec]. replace (Nat.eqb i 10) with false by (symmetry; apply Nat.eqb_neq; lia).
      replace (x mod 128 + 128 <? 128) with false by lia.
      replace ((x mod 128 + 128) mod 128) with (x mod 128) by lia.
      assert (Hp := pow128_succ i).
      rewrite IH.
      * f_equal. f_equal. rewrite N.pow_add_r. change (2 ^ 7) with 128.
        pose proof (N.div_mod x 128 ltac:(lia)). nia.
      * lia.
      * rewrite N.pow_add_r, Hs, Hp. change (2 ^ 7) with 128. lia.
      * rewrite Hp. pose proof (N.div_mod x 128 ltac:(lia)). nia.
Qed.

Lemma rd_uvarint_put n rest : n < 18446744073709551616 -> rd_uvarint (put_uvarint n ++ rest) = Ok (n, rest).
Proof.
  intros H. unfold rd_uvarint, put_uvarint. rewrite N.mod_small by exact H.
  rewrite (uv_dec_enc 9 0 n 0 0 rest); [f_equal; f_equal; cbn; lia|reflexivity|reflexivity|cbn; lia].
Qed.

(** the writer's argument is a uint64: larger numbers are reduced first (a fact about the model's
    domain, not about Go values) *)
Lemma put_uvarint_mod n : put_uvarint (n mod 18446744073709551616) = put_uvarint n.
Proof. unfold put_uvarint. rewrite N.mod_mod by lia. reflexivity. Qed.

Lemma uv_enc_length fuel x : (1 <= length (uv_enc fuel x) <= S fuel)%nat.
Proof.
  revert x; induction fuel as [|f IH]; intros x; cbn [uv_enc]; destruct (x <? 128); cbn [length]; try lia.
  specialize (IH (x / 128)). lia.
Qed.
Lemma put_uvarint_length n : (1 <= length (put_uvarint n) <= 10)%nat.
Proof. apply (uv_enc_length 9). Qed.

Lemma uv_enc_wf fuel x : wf_bytes (uv_enc fuel x) = true.
Proof.
  revert x; induction fuel as [|f IH]; intros x; cbn [uv_enc]; destruct (N.ltb_spec x 128).
  - cbn. unfold wf_byte. rewrite andb_true_r. lia.
  - cbn. unfold wf_byte. rewrite andb_true_r. lia.
  - cbn. unfold wf_byte. rewrite andb_true_r. lia.
  - cbn [wf_bytes forallb]. fold (wf_bytes (uv_enc f (x / 128))). rewrite IH, andb_true_r. unfold wf_byte. lia.
Qed.
Lemma put_uvarint_wf n : wf_bytes (put_uvarint n) = true.
Proof. apply uv_enc_wf. Qed.

(** the reader: the three outcomes the Go Reader distinguishes, for EVERY byte string *)
Lemma uv_dec_total bs : forall i x s, (exists v r, uv_dec i x s bs = Ok (v, r)) \/ uv_dec i x s bs = Err EEOF \/ uv_dec i x s bs = Err EOverflow.
Proof.
  induction bs as [|b r IH]; intros i x s; cbn [uv_dec]; [right; left; reflexivity|].
  destruct (Nat.eqb i 10); [right; right; reflexivity|].
  destruct (b <? 128); [|apply IH].
  destruct (Nat.eqb i 9 && (1 <? b)); [right; right; reflexivity|left; eauto].
Qed.

(** n == 0 ("buffer too small"): exactly the strings of at most 10-i continuation bytes *)
Lemma uv_dec_eof bs : forall i x s, (i <= 10)%nat ->
  (uv_dec i x s bs = Err EEOF <-> forallb (fun b => 128 <=? b) bs = true /\ (i + length bs <= 10)%nat).
Proof.
  induction bs as [|b r IH]; intros i x s Hi; cbn [uv_dec forallb length].
  - split; [intros _; split; [reflexivity|lia]|reflexivity].
  - destruct (Nat.eqb_spec i 10) as [->|Hn].
    + split; [discriminate|intros [_ H]; lia].
    + destruct (N.ltb_spec b 128) as [Hb|Hb].
      * replace (128 <=? b) with false by lia. cbn [andb].
        destruct (Nat.eqb i 9 && (1 <? b)); split; try discriminate; intros [H _]; discriminate.
      * replace (128 <=? b) with true by lia. cbn [andb].
        rewrite IH by lia. split; intros [H1 H2]; (split; [exact H1|lia]).
Qed.
Lemma rd_uvarint_eof bs : rd_uvarint bs = Err EEOF <-> forallb (fun b => 128 <=? b) bs = true /\ (length bs <= 10)%nat.
Proof. unfold rd_uvarint. rewrite uv_dec_eof by lia. reflexivity. Qed.

(** consumed bytes: a suffix, between 1 and 10 bytes shorter *)
Lemma uv_dec_consumes bs : forall i x s v r, (i <= 10)%nat -> uv_dec i x s bs = Ok (v, r) ->
  exists h, bs = h ++ r /\ (1 <= length h)%nat /\ (i + length h <= 10)%nat.
Proof.
  induction bs as [|b t IH]; intros i x s v r Hi; cbn [uv_dec]; [discriminate|].
  destruct (Nat.eqb_spec i 10); [discriminate|].
  destruct (b <? 128).
  - destruct (Nat.eqb_spec i 9); cbn [andb].
    + destruct (1 <? b); [discriminate|]. intros H; injection H as _ <-. exists [b]. cbn. split; [reflexivity|lia].
    + intros H; injection H as _ <-. exists [b]. cbn. split; [reflexivity|].
      lia.
  - intros H. destruct (IH (S i) _ _ _ _ ltac:(lia) H) as (h & -> & H1 & H2). exists (b :: h). cbn. split; [reflexivity|lia].
Qed.

(** no truncation: every decoded value fits in 64 bits (so [+] in [uv_dec] is Go's [|] on uint64) *)
Lemma uv_dec_bound bs : forall i x s v r, wf_bytes bs = true -> (i <= 9)%nat ->
  2 ^ s = 128 ^ N.of_nat i -> x < 128 ^ N.of_nat i ->
  uv_dec i x s bs = Ok (v, r) -> v < 18446744073709551616.
Proof.
  induction bs as [|b t IH]; intros i x s v r Hwf Hi Hs Hx; cbn [uv_dec]; [discriminate|].
  cbn [wf_bytes forallb] in Hwf. apply andb_prop in Hwf as [Hb Hwf]. unfold wf_byte in Hb. fold (wf_bytes t) in Hwf.
  replace (Nat.eqb i 10) with false by (symmetry; apply Nat.eqb_neq; lia).
  assert (Hmono : 128 ^ N.of_nat i <= 128 ^ 9) by (apply N.pow_le_mono_r; lia).
  change (128 ^ 9) with 9223372036854775808 in Hmono.
  destruct (N.ltb_spec b 128) as [Hlt|Hge].
  - destruct (Nat.eqb_spec i 9) as [->|Hn]; cbn [andb].
    + destruct (N.ltb_spec 1 b); [discriminate|]. intros HH; injection HH as <- _.
      rewrite Hs. change (128 ^ N.of_nat 9) with 9223372036854775808 in *. nia.
    + intros HH; injection HH as <- _. rewrite Hs.
      assert (128 ^ N.of_nat (S i) <= 128 ^ 9) by (apply N.pow_le_mono_r; lia).
      rewrite pow128_succ in *. change (128 ^ 9) with 9223372036854775808 in *. nia.
  - destruct (Nat.eqb_spec i 9) as [->|Hn].
    + (* the 10th byte is a continuation byte: the next index is 10: overflow or eof, never Ok *)
      destruct t as [|c t']; cbn [uv_dec]; [discriminate|]. cbn [Nat.eqb]. discriminate.
    + intros H. eapply (IH (S i)); [exact Hwf|lia| | |exact H].
      * rewrite N.pow_add_r, Hs, pow128_succ. change (2 ^ 7) with 128. lia.
      * rewrite pow128_succ, Hs. assert (b mod 128 < 128) by (apply N.mod_lt; lia). nia.
Qed.
Lemma rd_uvarint_bound bs v r : wf_bytes bs = true -> rd_uvarint bs = Ok (v, r) -> v < 18446744073709551616.
Proof. intros Hwf H. eapply (uv_dec_bound bs 0 0 0); eauto; cbn; lia. Qed.

(** the 10-byte overflow rule: ten continuation bytes followed by anything, or a tenth byte above 1 *)
Lemma rd_uvarint_overflow_11 h c rest : length h = 10%nat -> forallb (fun b => 128 <=? b) h = true ->
  rd_uvarint (h ++ c :: rest) = Err EOverflow.
Proof.
  intros Hl Hh. unfold rd_uvarint.
  do 10 (destruct h as [|?b h]; [discriminate Hl|]). destruct h; [|discriminate Hl]. clear Hl.
  cbn [forallb] in Hh. repeat (apply andb_prop in Hh as [? Hh]).
  cbn [app uv_dec Nat.eqb].
  repeat match goal with H : (128 <=? ?b) = true |- context [?b <? 128] => replace (b <? 128) with false by lia end.
  reflexivity.
Qed.

(** ** varint (zig-zag) *)
Lemma unzigzag_zigzag z : unzigzag (zigzag z) = z.
Proof.
  unfold unzigzag, zigzag. destruct (Z.leb_spec 0 z).
  - replace (N.even (Z.to_N (2 * z))) with true.
    + lia.
    + symmetry. apply N.even_spec. exists (Z.to_N z). lia.
  - replace (N.even (Z.to_N (-2 * z - 1))) with false.
    + lia.
    + symmetry. apply Bool.not_true_iff_false. rewrite N.even_spec. intros [k Hk]. lia.
Qed.
Lemma zigzag_bound z : (- 2 ^ 63 <= z < 2 ^ 63)%Z -> zigzag z < 18446744073709551616.
Proof. intros H. unfold zigzag. change (2 ^ 63)%Z with 9223372036854775808%Z in H. destruct (Z.leb_spec 0 z); lia. Qed.
Lemma rd_varint_put z rest : (- 2 ^ 63 <= z < 2 ^ 63)%Z -> rd_varint (put_varint z ++ rest) = Ok (z, rest).
Proof.
  intros H. unfold rd_varint, put_varint. rewrite signed_roundtrip_64 by exact H.
  rewrite rd_uvarint_put by (apply zigzag_bound; exact H). cbn [bind]. rewrite unzigzag_zigzag. reflexivity.
Qed.
Lemma rd_varint_total bs : (exists v r, rd_varint bs = Ok (v, r)) \/ rd_varint bs = Err EEOF \/ rd_varint bs = Err EOverflow.
Proof.
  unfold rd_varint, rd_uvarint. destruct (uv_dec_total bs 0 0 0) as [(v & r & ->)|[->| ->]]; cbn [bind]; eauto.
Qed.

(** ** length-prefixed bytes, every size argument *)
Lemma rd_lp_put k b w rest : put_lp k b = Ok w -> rd_lp k (w ++ rest) = Ok (b, rest).
Proof.
  unfold put_lp, rd_lp. destruct (N.ltb_spec (N.of_nat (length b)) (256 ^ N.of_nat k)); [|discriminate].
  intros E; injection E as <-. rewrite <- app_assoc, rd_uint_be by assumption. cbn [bind]. apply take_N_app.
Qed.
Lemma put_lp_ok k b : N.of_nat (length b) < 256 ^ N.of_nat k -> exists w, put_lp k b = Ok w.
Proof. intros H. unfold put_lp. replace (_ <? _) with true by lia. eauto. Qed.
Lemma put_lp_err k b : 256 ^ N.of_nat k <= N.of_nat (length b) -> put_lp k b = Err ETooLarge.
Proof. intros H. unfold put_lp. replace (_ <? _) with false by lia. reflexivity. Qed.

Lemma rd_lpk_put size b w rest : N.of_nat (length b) < 4294967296 -> put_lpk size b = Ok w -> rd_lpk size (w ++ rest) = Ok (b, rest).
Proof.
  intros Hl. unfold put_lpk, rd_lpk.
  destruct size as [|p|p]; try discriminate.
  destruct p as [[[|[]|]|[[]|[]|]|]|[[|[]|]|[[]|[]|]|]|]; try discriminate;
    first [apply rd_lp_put | intros E; injection E as <-; apply rd_lp4_put; exact Hl].
Qed.
Lemma put_lpk_invalid size b : size <> 1%Z -> size <> 2%Z -> size <> 4%Z -> put_lpk size b = Err EInvalid.
Proof.
  intros H1 H2 H4. unfold put_lpk. destruct size as [|p|p]; try reflexivity.
  destruct p as [[[|[]|]|[[]|[]|]|]|[[|[]|]|[[]|[]|]|]|]; try reflexivity; contradiction.
Qed.
Lemma rd_lpk_invalid size bs : size <> 1%Z -> size <> 2%Z -> size <> 4%Z -> rd_lpk size bs = Err EInvalid.
Proof.
  intros H1 H2 H4. unfold rd_lpk. destruct size as [|p|p]; try reflexivity.
  destruct p as [[[|[]|]|[[]|[]|]|]|[[|[]|]|[[]|[]|]|]|]; try reflexivity; contradiction.
Qed.

(** a 4-byte length is uint32(len(v)): data of 2^32 bytes or more is written with a wrapped length *)
Lemma put_lp4_wraps b : put_lp4 b = put_u32 (N.of_nat (length b) mod 4294967296) ++ b.
Proof.
  unfold put_lp4, put_u32. f_equal.
  assert (G : forall k n, be k (n mod 256 ^ N.of_nat k) = be k n).
  { induction k as [|k IH]; intros n; cbn [be]; [reflexivity|].
    assert (Hp : 256 ^ N.of_nat (S k) = 256 * 256 ^ N.of_nat k) by (rewrite Nat2N.inj_succ, N.pow_succ_r'; reflexivity).
    rewrite Hp. assert (0 < 256 ^ N.of_nat k) by (apply N.neq_0_lt_0, N.pow_nonzero; lia).
    set (P := 256 ^ N.of_nat k) in *.
    assert (Ha : n mod 256 < 256) by (apply N.mod_lt; lia).
    assert (E1 : n mod (256 * P) / 256 = (n / 256) mod P).
    { rewrite N.mod_mul_r by lia. symmetry. apply N.div_unique with (n mod 256); lia. }
    assert (E2 : (n mod (256 * P)) mod 256 = n mod 256).
    { rewrite N.mod_mul_r by lia. symmetry. apply N.mod_unique with ((n / 256) mod P); lia. }
    rewrite E1, E2, IH. reflexivity. }
  symmetry. apply (G 4%nat).
Qed.

(** all readers either fail or return a suffix of their input *)
Lemma take_n_suffix k bs h t : take_n k bs = Ok (h, t) -> bs = h ++ t /\ length h = k.
Proof.
  unfold take_n. destruct (Nat.leb_spec k (length bs)); [|discriminate].
  intros E; injection E as <- <-. split; [symmetry; apply firstn_skipn|apply firstn_length_le; assumption].
Qed.
Lemma take_N_suffix k bs h t : take_N k bs = Ok (h, t) -> bs = h ++ t /\ N.of_nat (length h) = k.
Proof.
  unfold take_N. destruct (N.leb_spec k (N.of_nat (length bs))); [|discriminate].
  intros E; injection E as <- <-. split; [symmetry; apply firstn_skipn|rewrite firstn_length_le; lia].
Qed.
Lemma rd_uint_suffix k bs v t : rd_uint k bs = Ok (v, t) -> exists h, bs = h ++ t /\ length h = k.
Proof.
  unfold rd_uint. destruct (take_n k bs) as [[h t']|] eqn:E; cbn [bind]; [|discriminate].
  intros H; injection H as _ <-. exists h. eapply take_n_suffix; exact E.
Qed.
Lemma rd_uint_err k bs e : rd_uint k bs = Err e -> e = EEOF /\ (length bs < k)%nat.
Proof.
  unfold rd_uint, take_n. destruct (Nat.leb_spec k (length bs)); cbn [bind]; [discriminate|].
  intros E; injection E as <-. split; [reflexivity|assumption].
Qed.
