(** Byte-order parametric primitives of internal/messages Writer/Reader.

    [WriterOption.ByteOrder] / [ReaderOption.ByteOrder] select how the fixed-width integers (and therefore
    the float bit patterns and every 1/2/4-byte length prefix) are laid out.  The two orders of
    encoding/binary are modelled: [binary.BigEndian] (the default, [Codec.Prim]) and [binary.LittleEndian]
    ([PutUint16(b, v)]: b[0] = byte(v), b[1] = byte(v>>8) ... — the reverse of the big-endian bytes).
    Varints ([binary.PutVarint]/[PutUvarint]), bools, single bytes and raw byte strings do not depend on the order.

    With [o = BE] every definition below reduces to its [Codec.Prim]/[Codec.Prim2] counterpart (lemmas
    [*_BE]); the round-trip lemmas hold for both orders. *)
From Coq Require Import List NArith ZArith Lia Bool.
From Coq Require Import ZifyN ZifyNat ZifyBool.
From Vivid Require Import Codec.Prim Codec.PrimProofs Codec.Prim2 Codec.Prim2Proofs.
Import ListNotations.
Local Open Scope N_scope.

Inductive order : Type := BE | LE.

Definition order_eqb (a b : order) : bool :=
  match a, b with BE, BE | LE, LE => true | _, _ => false end.

(** [k] bytes of [n] in order [o] *)
Definition beO (o : order) (k : nat) (n : N) : bytes :=
  match o with BE => be k n | LE => rev (be k n) end.
Definition unbeO (o : order) (bs : bytes) : N :=
  match o with BE => unbe bs | LE => unbe (rev bs) end.

Definition rd_uintO (o : order) (k : nat) (bs : bytes) : res (N * bytes) :=
  let* (h, t) := take_n k bs in Ok (unbeO o h, t).

Definition put_u16O o (n : N) := beO o 2 n.
Definition put_u32O o (n : N) := beO o 4 n.
Definition put_u64O o (n : N) := beO o 8 n.
Definition rd_u16O o := rd_uintO o 2.
Definition rd_u32O o := rd_uintO o 4.
Definition rd_u64O o := rd_uintO o 8.

Definition put_i16O o (z : Z) := put_u16O o (of_signed 16 z).
Definition put_i32O o (z : Z) := put_u32O o (of_signed 32 z).
Definition put_i64O o (z : Z) := put_u64O o (of_signed 64 z).
Definition rd_i16O o (bs : bytes) : res (Z * bytes) := let* (n, t) := rd_u16O o bs in Ok (to_signed 16 n, t).
Definition rd_i32O o (bs : bytes) : res (Z * bytes) := let* (n, t) := rd_u32O o bs in Ok (to_signed 32 n, t).
Definition rd_i64O o (bs : bytes) : res (Z * bytes) := let* (n, t) := rd_u64O o bs in Ok (to_signed 64 n, t).

(** length-prefixed byte strings: the prefix is written in the Writer's order *)
Definition put_lp4O o (b : bytes) : bytes := put_u32O o (N.of_nat (length b)) ++ b.
Definition rd_lp4O o (bs : bytes) : res (bytes * bytes) :=
  let* (n, t) := rd_u32O o bs in take_N n t.
Definition put_lpO o (k : nat) (b : bytes) : res bytes :=
  if N.of_nat (length b) <? 256 ^ N.of_nat k then Ok (beO o k (N.of_nat (length b)) ++ b) else Err ETooLarge.
Definition rd_lpO o (k : nat) (bs : bytes) : res (bytes * bytes) :=
  let* (n, t) := rd_uintO o k bs in take_N n t.
Definition put_lpkO o (size : Z) (b : bytes) : res bytes :=
  match size with
  | 1%Z => put_lpO o 1 b
  | 2%Z => put_lpO o 2 b
  | 4%Z => Ok (put_lp4O o b)
  | _ => Err EInvalid
  end.
Definition rd_lpkO o (size : Z) (bs : bytes) : res (bytes * bytes) :=
  match size with
  | 1%Z => rd_lpO o 1 bs
  | 2%Z => rd_lpO o 2 bs
  | 4%Z => rd_lp4O o bs
  | _ => Err EInvalid
  end.

(** * the big-endian instance is the existing model *)
Lemma beO_BE k n : beO BE k n = be k n. Proof. reflexivity. Qed.
Lemma rd_uintO_BE k bs : rd_uintO BE k bs = rd_uint k bs. Proof. reflexivity. Qed.
Lemma put_lp4O_BE b : put_lp4O BE b = put_lp4 b. Proof. reflexivity. Qed.
Lemma rd_lp4O_BE bs : rd_lp4O BE bs = rd_lp4 bs. Proof. reflexivity. Qed.
Lemma put_lpkO_BE size b : put_lpkO BE size b = put_lpk size b. Proof. reflexivity. Qed.
Lemma rd_lpkO_BE size bs : rd_lpkO BE size bs = rd_lpk size bs. Proof. reflexivity. Qed.

(** * lemmas valid for both orders *)
Lemma beO_length o k n : length (beO o k n) = k.
Proof. destruct o; cbn [beO]; [|rewrite rev_length]; apply be_length. Qed.

Lemma wf_bytes_rev bs : wf_bytes (rev bs) = wf_bytes bs.
Proof.
  induction bs as [|b r IH]; [reflexivity|].
  cbn [rev]. rewrite wf_bytes_app, IH. cbn [wf_bytes forallb]. rewrite andb_true_r. apply andb_comm.
Qed.
Lemma beO_wf o k n : wf_bytes (beO o k n) = true.
Proof. destruct o; cbn [beO]; [|rewrite wf_bytes_rev]; apply be_wf. Qed.

Lemma unbeO_beO o k n : n < 256 ^ N.of_nat k -> unbeO o (beO o k n) = n.
Proof. intros H. destruct o; cbn [unbeO beO]; [|rewrite rev_involutive]; apply unbe_be; exact H. Qed.

Lemma rd_uintO_beO o k n rest : n < 256 ^ N.of_nat k -> rd_uintO o k (beO o k n ++ rest) = Ok (n, rest).
Proof.
  intros H. unfold rd_uintO.
  rewrite <- (beO_length o k n) at 1. rewrite take_n_app. cbn [bind]. rewrite unbeO_beO by exact H. reflexivity.
Qed.

(** the two orders differ exactly by reversal *)
Lemma beO_LE_rev k n : beO LE k n = rev (beO BE k n). Proof. reflexivity. Qed.

(** a little-endian Writer and a big-endian Reader disagree on every value whose bytes are not a palindrome *)
Lemma order_mismatch_refuted : rd_uintO BE 2 (beO LE 2 1) = Ok (256, []).
Proof. reflexivity. Qed.

Lemma rd_u16O_put o n rest : n < 65536 -> rd_u16O o (put_u16O o n ++ rest) = Ok (n, rest).
Proof. intros; apply (rd_uintO_beO o 2); exact H. Qed.
Lemma rd_u32O_put o n rest : n < 4294967296 -> rd_u32O o (put_u32O o n ++ rest) = Ok (n, rest).
Proof. intros; apply (rd_uintO_beO o 4); exact H. Qed.
Lemma rd_u64O_put o n rest : n < 18446744073709551616 -> rd_u64O o (put_u64O o n ++ rest) = Ok (n, rest).
Proof. intros; apply (rd_uintO_beO o 8); exact H. Qed.

Lemma rd_lp4O_put o b rest : N.of_nat (length b) < 4294967296 -> rd_lp4O o (put_lp4O o b ++ rest) = Ok (b, rest).
Proof.
  intros H. unfold rd_lp4O, put_lp4O. rewrite <- app_assoc, rd_u32O_put by exact H. cbn [bind].
  apply take_N_app.
Qed.

Lemma rd_lpO_put o k b e rest : put_lpO o k b = Ok e -> rd_lpO o k (e ++ rest) = Ok (b, rest).
Proof.
  unfold put_lpO, rd_lpO. destruct (N.of_nat (length b) <? 256 ^ N.of_nat k) eqn:E; [|discriminate].
  intros [= <-]. rewrite <- app_assoc, rd_uintO_beO by lia. cbn [bind]. apply take_N_app.
Qed.

Lemma rd_lpkO_put o size b e rest : put_lpkO o size b = Ok e -> N.of_nat (length b) < 4294967296 ->
  rd_lpkO o size (e ++ rest) = Ok (b, rest).
Proof.
  intros H L. revert H. unfold put_lpkO, rd_lpkO.
  destruct size as [|p|p]; try discriminate.
  destruct p as [[[|[]|]|[[]|[]|]|]|[[|[]|]|[[]|[]|]|]|]; try discriminate;
    first [apply rd_lpO_put | intros E; injection E as <-; apply rd_lp4O_put; exact L].
Qed.

Lemma rd_i16O_put o z rest : (- 2 ^ 15 <= z < 2 ^ 15)%Z -> rd_i16O o (put_i16O o z ++ rest) = Ok (z, rest).
Proof.
  intros H. unfold rd_i16O, put_i16O. rewrite rd_u16O_put by (apply (of_signed_lt 16); lia).
  cbn [bind]. rewrite signed_roundtrip_16 by exact H. reflexivity.
Qed.
Lemma rd_i32O_put o z rest : (- 2 ^ 31 <= z < 2 ^ 31)%Z -> rd_i32O o (put_i32O o z ++ rest) = Ok (z, rest).
Proof.
  intros H. unfold rd_i32O, put_i32O. rewrite rd_u32O_put by (apply (of_signed_lt 32); lia).
  cbn [bind]. rewrite signed_roundtrip_32 by exact H. reflexivity.
Qed.
Lemma rd_i64O_put o z rest : (- 2 ^ 63 <= z < 2 ^ 63)%Z -> rd_i64O o (put_i64O o z ++ rest) = Ok (z, rest).
Proof.
  intros H. unfold rd_i64O, put_i64O. rewrite rd_u64O_put by (apply (of_signed_lt 64); lia).
  cbn [bind]. rewrite signed_roundtrip_64 by exact H. reflexivity.
Qed.
