(** Round trips, totality and allocation bounds of the cluster codecs (ClusterMsgs.v). *)
From Coq Require Import List NArith ZArith Lia Bool.
From Coq Require Import ZifyN ZifyNat ZifyBool.
From stdpp Require Import gmap sorting.
From Vivid Require Import Codec.Prim Codec.PrimProofs Codec.MsgPrim Codec.MsgPrimProofs Cluster.VV Cluster.VVProofs Codec.ClusterMsgs.
Local Open Scope N_scope.

(** * finite maps rebuilt by successive insertion *)
Lemma fold_insert_nodup `{Countable K} {V} (l : list (K * V)) (acc : gmap K V) :
  NoDup (l.*1) -> foldl (fun a p => <[fst p := snd p]> a) acc l = list_to_map l ∪ acc.
Proof.
  revert acc. induction l as [|[k c] l IH]; intros acc Hnd; cbn [foldl].
  - cbn. rewrite (left_id ∅ (∪)). reflexivity.
  - cbn in Hnd. apply NoDup_cons in Hnd as [Hk Hnd].
    rewrite IH by exact Hnd. cbn [fst snd list_to_map foldr].
    change (foldr (λ p, <[p.1:=p.2]>) ∅ l) with (list_to_map (M:=gmap K V) l).
    rewrite <- insert_union_l, insert_union_r; [reflexivity|].
    apply not_elem_of_list_to_map_1. exact Hk.
Qed.

Lemma sorted_entries_map `{Countable K} {V} (le : K * V -> K * V -> bool) (m : gmap K V) :
  list_to_map (isort le (map_to_list m)) = m /\ NoDup ((isort le (map_to_list m)).*1) /\
  length (isort le (map_to_list m)) = size m.
Proof.
  pose proof (isort_perm le (map_to_list m)) as HP.
  split; [|split].
  - rewrite <- (list_to_map_to_list m) at 2. apply list_to_map_proper; [|exact HP].
    rewrite HP. apply NoDup_fst_map_to_list.
  - rewrite HP. apply NoDup_fst_map_to_list.
  - rewrite (Permutation_length HP). unfold size, map_size. rewrite map_to_list_length || idtac. reflexivity.
Qed.

(** * map[string]string *)
Lemma dec_pairs_enc l : forall acc rest,
  Forall (fun p => len32 (fst p) /\ len32 (snd p)) l ->
  drun (dec_pairs (length l) acc) (enc_pairs l ++ rest) = MOk (foldl (fun a p => <[fst p := snd p]> a) acc l, rest).
Proof.
  induction l as [|[k v] l IH]; intros acc rest Hl; [reflexivity|].
  apply Forall_cons in Hl as [[Hk Hv] Hl]. cbn [fst snd] in Hk, Hv.
  cbn [length dec_pairs enc_pairs foldl fst snd].
  do 2 rt_step. rewrite IH by exact Hl. reflexivity.
Qed.

Theorem mapss_rt (m : gomap) rest :
  valid_mapss m -> drun dec_mapss (enc_mapss m ++ rest) = MOk (m, rest).
Proof.
  destruct m as [m|]; cbn [valid_mapss enc_mapss]; unfold dec_mapss.
  2:{ intros _. rt_step. reflexivity. }
  intros [Hne [Hsz Hkv]].
  destruct (sorted_entries_map (fun p q => lex_le (fst p) (fst q)) m) as (Hmap & Hnd & Hlen).
  fold (sentries m) in Hmap, Hnd, Hlen.
  assert (Hpos : size m <> 0%nat) by (intros Hz; apply map_size_empty_iff in Hz; contradiction).
  unfold max_map_entries in *.
  rt_step. rewrite Hlen.
  replace (N.of_nat (size m) =? 0) with false by (symmetry; apply N.eqb_neq; lia).
  replace (65536 <? N.of_nat (size m)) with false by (symmetry; apply N.ltb_ge; lia).
  rt_step. rewrite Nat2N.id, <- Hlen.
  erewrite drun_bind_ok.
  2:{ apply dec_pairs_enc. apply Forall_forall. intros [k v] Hin. unfold sentries in Hin.
      rewrite isort_perm in Hin. apply elem_of_map_to_list in Hin. apply (Hkv k v Hin). }
  rewrite drun_dret, fold_insert_nodup by exact Hnd.
  rewrite (right_id ∅ (∪)), Hmap. reflexivity.
Qed.

Theorem mapss_too_large (m : smap) rest :
  max_map_entries < N.of_nat (size m) < 2 ^ 32 ->
  drun dec_mapss (enc_mapss (Some m) ++ rest) = MErr (ME ETooLarge).
Proof.
  intros [Hlo Hhi]. cbn [enc_mapss]. unfold dec_mapss.
  destruct (sorted_entries_map (fun p q => lex_le (fst p) (fst q)) m) as (_ & _ & Hlen).
  fold (sentries m) in Hlen. unfold max_map_entries in *. change (2 ^ 32) with 4294967296 in Hhi.
  rt_step. rewrite Hlen.
  replace (N.of_nat (size m) =? 0) with false by (symmetry; apply N.eqb_neq; lia).
  replace (65536 <? N.of_nat (size m)) with true by (symmetry; apply N.ltb_lt; lia).
  reflexivity.
Qed.

(** * NodeState *)
Theorem ns_body_rt n rest :
  ty_ns n -> valid_ns n -> drun dec_ns_body (enc_ns_body n ++ rest) = MOk (n, rest).
Proof.
  intros (Tg & Tts & Tseq & Tst & Tls & Tlc & Tck) (Vid & Vcl & Vad & Vg & Vst & Vme & Vla).
  change (2 ^ 64) with 18446744073709551616 in *. change (2 ^ 32) with 4294967296 in *.
  unfold dec_ns_body, enc_ns_body.
  do 10 rt_step.
  rewrite <- ?app_assoc. erewrite drun_bind_ok by (apply mapss_rt; exact Vme).
  rewrite <- ?app_assoc. erewrite drun_bind_ok by (apply mapss_rt; exact Vla).
  do 2 rt_step. destruct n; reflexivity.
Qed.

Theorem ns_opt_rt n rest :
  ty_ns_opt n -> valid_ns_opt n -> drun dec_ns_opt (enc_ns_opt n ++ rest) = MOk (n, rest).
Proof.
  destruct n as [n|]; cbn [ty_ns_opt valid_ns_opt enc_ns_opt]; intros Ht Hv; unfold dec_ns_opt.
  - rt_step. cbn [N.eqb]. rewrite <- ?app_assoc. erewrite drun_bind_ok by (apply ns_body_rt; assumption).
    reflexivity.
  - rt_step. reflexivity.
Qed.

(** * version vector: the instrumented reader erases to [vread] *)
Lemma d_vv_entries_vread n : forall acc bs, drun (d_vv_entries n acc) bs = mlift (vread_entries n acc bs).
Proof.
  induction n as [|n IH]; intros acc bs; [reflexivity|].
  cbn [d_vv_entries vread_entries]. unfold drun, dbind at 1, d_str.
  destruct (rd_lp4 bs) as [[k t]|e]; cbn [bind mlift snd]; [|reflexivity].
  destruct (valid_addr k); [|reflexivity].
  unfold dbind, d_u64, dlift. destruct (rd_u64 t) as [[c t2]|e]; cbn [bind mlift snd]; [|reflexivity].
  destruct (max_counter <? c); [reflexivity|].
  specialize (IH (<[k:=c]> acc) t2). unfold drun in IH.
  destruct (d_vv_entries n (<[k:=c]> acc) t2). cbn in *. exact IH.
Qed.
Lemma d_vv_vread bs : drun d_vv bs = mlift (vread bs).
Proof.
  unfold d_vv, vread, drun, dbind at 1, d_u32, dlift.
  destruct (rd_u32 bs) as [[n t]|e]; cbn [bind mlift snd]; [|reflexivity].
  destruct (max_entries <? n); [reflexivity|].
  unfold dbind, dalloc. pose proof (d_vv_entries_vread (N.to_nat n) ∅ t) as H. unfold drun in H.
  destruct (d_vv_entries (N.to_nat n) ∅ t). cbn in *. exact H.
Qed.

Theorem vv_rt (v : vv) rest :
  wf_vv v -> exists b, vwrite v = Ok b /\ drun d_vv (b ++ rest) = MOk (v, rest).
Proof.
  intros H. destruct (vread_vwrite v rest H) as (b & Hw & Hr). exists b. split; [exact Hw|].
  rewrite d_vv_vread, Hr. reflexivity.
Qed.

(** * members of a view *)
Definition ins_member (a : members) (p : bytes * option node_state) : members := <[fst p := snd p]> a.

Lemma dec_members_enc l : forall fuel acc rest,
  (length l <= fuel)%nat ->
  Forall (fun p => len32 (fst p) /\ match snd p with None => False | Some n => ty_ns n /\ valid_ns n end) l ->
  drun (dec_members fuel (N.of_nat (length l)) acc) (enc_members l ++ rest) = MOk (foldl ins_member acc l, rest).
Proof.
  induction l as [|[id st] l IH]; intros fuel acc rest Hf Hl.
  - destruct fuel; reflexivity.
  - apply Forall_cons in Hl as [[Hid Hst] Hl]. cbn [fst snd] in Hid, Hst.
    destruct st as [n|]; [|contradiction]. destruct Hst as [Tn Vn].
    destruct fuel as [|fuel]; [cbn in Hf; lia|].
    cbn [length enc_members foldl].
    unfold dec_members; fold dec_members.
    replace (N.of_nat (S (length l)) =? 0) with false by (symmetry; apply N.eqb_neq; lia).
    do 2 rt_step. cbn [N.eqb].
    rewrite <- ?app_assoc. erewrite drun_bind_ok by (apply ns_body_rt; assumption).
    replace (N.of_nat (S (length l)) - 1) with (N.of_nat (length l)) by lia.
    rewrite IH; [reflexivity| cbn in Hf; lia | exact Hl].
Qed.

Lemma enc_members_length l : (5 * length l <= length (enc_members l))%nat.
Proof.
  induction l as [|[id st] l IH]; [cbn; lia|]. cbn [enc_members length].
  rewrite !app_length. unfold put_lp4, put_u32. rewrite app_length, be_length.
  assert (1 <= length (match st with Some s => put_u8 1 ++ enc_ns_body s | None => put_u8 0 end))%nat.
  { destruct st; [rewrite app_length|]; unfold put_u8; rewrite be_length; lia. }
  lia.
Qed.
Lemma member_guard_ok m bs : N.of_nat (length bs) / 5 <? m = false -> drun (d_member_guard m) bs = MOk (tt, bs).
Proof. intros H. unfold drun, d_member_guard. rewrite H. reflexivity. Qed.

(** * ClusterView *)
Theorem view_rt (v : option view) rest :
  ty_view_opt v -> valid_view_opt v ->
  exists b, enc_view v = MOk b /\ drun dec_view (b ++ rest) = MOk (v, rest).
Proof.
  destruct v as [v|]; cbn [ty_view_opt valid_view_opt].
  2:{ intros _ _. exists (put_u32 0). split; [reflexivity|]. unfold dec_view. rt_step. reflexivity. }
  intros (Tep & Tts & Th & Tu & Tq & Tpv & Tmx & Tms) (Vid & Vh & Vu & Vq & Vmx & Vvv & Vms).
  destruct (v_members v) as [ms|] eqn:Ems; [|contradiction].
  destruct Vms as [Vsz Vms].
  change (2 ^ 32) with 4294967296 in *. change (2 ^ 16) with 65536 in *.
  destruct (sorted_entries_map (fun p q => lex_le (fst p) (fst q)) ms) as (Hmap & Hnd & Hlen).
  fold (mentries ms) in Hmap, Hnd, Hlen.
  assert (Hall : Forall (fun p => len32 (fst p) /\ match snd p with None => False | Some n => ty_ns n /\ valid_ns n end) (mentries ms)).
  { apply Forall_forall. intros [k st] Hin. unfold mentries in Hin. rewrite isort_perm in Hin.
    apply elem_of_map_to_list in Hin. apply (Vms k st Hin). }
  set (tail := put_u16 (v_proto v) ++ put_i32 (v_maxvv v) ++ rest).
  destruct (vv_rt (v_vv v) tail Vvv) as (vvb & Hvw & Hvr).
  eexists. split.
  { cbn [enc_view]. rewrite Hvw. cbn [mlift mbind]. reflexivity. }
  rewrite Ems. cbn [members_list]. unfold dec_view.
  rt_step. cbn [N.eqb].
  do 4 rt_step. rewrite Hlen.
  pose proof (enc_members_length (mentries ms)) as Hml.
  rewrite <- ?app_assoc. erewrite drun_bind_ok.
  2:{ unfold d_members. erewrite drun_bind_ok.
      2:{ apply member_guard_ok. apply N.ltb_ge. rewrite app_length. rewrite <- Hlen.
          apply N.div_le_lower_bound; lia. }
      erewrite drun_bind_ok by apply drun_dalloc.
      rewrite <- Hlen. apply dec_members_enc; [|exact Hall].
      rewrite app_length. lia. }
  do 3 rt_step.
  rewrite <- ?app_assoc. erewrite drun_bind_ok by (exact Hvr).
  unfold tail. do 3 rt_step.
  unfold ins_member. rewrite (fold_insert_nodup (mentries ms) ∅ Hnd), (right_id ∅ (∪)), Hmap.
  destruct v; cbn in *. subst. reflexivity.
Qed.

(** * the flat cluster messages *)
Theorem JoinRequest_rt ns tok rest :
  ty_ns_opt ns -> valid_ns_opt ns -> len32 tok ->
  drun dec_JoinRequest (enc_JoinRequest ns tok ++ rest) = MOk ((ns, tok), rest).
Proof.
  intros T V Ht. unfold dec_JoinRequest, enc_JoinRequest.
  rewrite <- ?app_assoc. erewrite drun_bind_ok by (apply ns_opt_rt; assumption).
  do 2 rt_step. reflexivity.
Qed.
Theorem GetViewResponse_rt v q l rest :
  ty_view_opt v -> valid_view_opt v -> len32 l ->
  exists b, enc_GetViewResponse v q l = MOk b /\ drun dec_GetViewResponse (b ++ rest) = MOk ((v, q, l), rest).
Proof.
  intros T V Hl. destruct (view_rt v (put_bool q ++ put_lp4 l ++ rest) T V) as (b & Hb & Hr).
  eexists. split; [unfold enc_GetViewResponse; rewrite Hb; reflexivity|].
  unfold dec_GetViewResponse. rewrite <- ?app_assoc. erewrite drun_bind_ok by exact Hr.
  do 3 rt_step. reflexivity.
Qed.
Theorem LeaveBroadcastRound_rt r rest :
  in_i32 r -> drun dec_LeaveBroadcastRound (enc_LeaveBroadcastRound r ++ rest) = MOk (r, rest).
Proof. intros H. apply drun_i32. exact H. Qed.
Theorem JoinRetryTick_rt d rest :
  in_i64 d -> drun dec_JoinRetryTick (enc_JoinRetryTick d ++ rest) = MOk (d, rest).
Proof. intros H. apply drun_i64. exact H. Qed.
Theorem ForceMemberDown_rt id tok rest :
  len32 id -> len32 tok -> drun dec_ForceMemberDown (enc_ForceMemberDown id tok ++ rest) = MOk ((id, tok), rest).
Proof. intros H1 H2. unfold dec_ForceMemberDown, enc_ForceMemberDown. do 3 rt_step. reflexivity. Qed.
Theorem TriggerViewBroadcast_rt tok rest :
  len32 tok -> drun dec_TriggerViewBroadcast (enc_TriggerViewBroadcast tok ++ rest) = MOk (tok, rest).
Proof. intros H. apply drun_str. exact H. Qed.
