(** Byte-level primitives of internal/messages Writer/Reader (big-endian, the default order).
    Bytes are [N] values < 256 ([wf_bytes]).  A reader is a function from the remaining input
    to [res (value * remaining input)]; the Go reader's sticky error is the monadic bind. *)
From Coq Require Import List NArith ZArith Lia Bool.
From Coq Require Import ZifyN ZifyNat ZifyBool.
Import ListNotations.
Local Open Scope N_scope.

Notation bytes := (list N).

Inductive err : Type :=
| EEOF            (* io.ErrUnexpectedEOF *)
| EOverflow       (* varint overflow *)
| ETooLarge       (* a length/count cap was exceeded *)
| EInvalid        (* a validation failed (address, array length, unsupported type ...) *)
| EUnsupported.   (* unsupported type for reading/writing *)

Inductive res (A : Type) : Type := Ok (a : A) | Err (e : err).
Arguments Ok {A} a.
Arguments Err {A} e.

Definition bind {A B} (r : res A) (f : A -> res B) : res B :=
  match r with Ok a => f a | Err e => Err e end.
Notation "'let*' x ':=' r 'in' k" := (bind r (fun x => k)) (at level 200, x pattern, r at level 100, k at level 200).

Definition wf_byte (b : N) : bool := b <? 256.
Definition wf_bytes (bs : bytes) : bool := forallb wf_byte bs.

(** big-endian, [k] bytes, value taken modulo 256^k (Go's unsigned conversion). *)
Fixpoint be (k : nat) (n : N) : bytes :=
  match k with
  | O => []
  | S k' => be k' (n / 256) ++ [n mod 256]
  end.

Fixpoint unbe_acc (acc : N) (bs : bytes) : N :=
  match bs with
  | [] => acc
  | b :: r => unbe_acc (acc * 256 + b) r
  end.
Definition unbe (bs : bytes) : N := unbe_acc 0 bs.

Definition take_n (k : nat) (bs : bytes) : res (bytes * bytes) :=
  if Nat.leb k (length bs) then Ok (firstn k bs, skipn k bs) else Err EEOF.

(** length taken from the wire: compare as [N] first, so that a hostile length never becomes a unary [nat] *)
Definition take_N (k : N) (bs : bytes) : res (bytes * bytes) :=
  if k <=? N.of_nat (length bs) then Ok (firstn (N.to_nat k) bs, skipn (N.to_nat k) bs) else Err EEOF.

Definition rd_uint (k : nat) (bs : bytes) : res (N * bytes) :=
  let* (h, t) := take_n k bs in Ok (unbe h, t).

Definition put_u8 (n : N) := be 1 n.
Definition put_u16 (n : N) := be 2 n.
Definition put_u32 (n : N) := be 4 n.
Definition put_u64 (n : N) := be 8 n.
Definition rd_u8 := rd_uint 1.
Definition rd_u16 := rd_uint 2.
Definition rd_u32 := rd_uint 4.
Definition rd_u64 := rd_uint 8.

(** two's complement views *)
Definition of_signed (bits : N) (z : Z) : N := Z.to_N (z mod (2 ^ Z.of_N bits))%Z.
Definition to_signed (bits : N) (n : N) : Z :=
  if n <? 2 ^ (bits - 1) then Z.of_N n else (Z.of_N n - 2 ^ Z.of_N bits)%Z.

Definition put_i32 (z : Z) := put_u32 (of_signed 32 z).
Definition put_i64 (z : Z) := put_u64 (of_signed 64 z).
Definition rd_i32 (bs : bytes) : res (Z * bytes) := let* (n, t) := rd_u32 bs in Ok (to_signed 32 n, t).
Definition rd_i64 (bs : bytes) : res (Z * bytes) := let* (n, t) := rd_u64 bs in Ok (to_signed 64 n, t).

Definition put_bool (b : bool) : bytes := [if b then 1 else 0].
Definition rd_bool (bs : bytes) : res (bool * bytes) :=
  let* (n, t) := rd_u8 bs in Ok (negb (n =? 0), t).

(** WriteBytesWithLength(v, 4) / ReadBytesWithLength(4): the length is truncated to uint32 by the writer *)
Definition put_lp4 (b : bytes) : bytes := put_u32 (N.of_nat (length b)) ++ b.
Definition rd_lp4 (bs : bytes) : res (bytes * bytes) :=
  let* (n, t) := rd_u32 bs in take_N n t.
(** 1- and 2-byte prefixes: the writer refuses longer data *)
Definition put_lp (k : nat) (b : bytes) : res bytes :=
  if N.of_nat (length b) <? 256 ^ N.of_nat k then Ok (be k (N.of_nat (length b)) ++ b) else Err ETooLarge.
Definition rd_lp (k : nat) (bs : bytes) : res (bytes * bytes) :=
  let* (n, t) := rd_uint k bs in take_N n t.
